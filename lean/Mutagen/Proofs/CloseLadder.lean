import Mutagen.Model.CloseLadder
/-!
Invariant and termination measure of the Close ladder (helper lemmas for
`Mutagen.Properties.C35`).
-/
namespace Mutagen.Proofs.CloseLadder
open Mutagen.Model.CloseLadder

/-- Time at which a stage begins (under the model's promptness assumptions). -/
def startOf (p : Params) : Stage → Nat
  | .wait => 0
  | .stdin => p.delay
  | .term => p.delay + p.g1
  | .kill => p.delay + p.g1 + p.g2

/-- Time at which a stage escalates to the next one. -/
def deadlineOf (p : Params) : Stage → Option Nat
  | .wait => some p.delay
  | .stdin => some (p.delay + p.g1)
  | .term => some (p.delay + p.g1 + p.g2)
  | .kill => none

/-- The agent's exit time, given everything that has been done to it up to and
including the beginning of a stage: the earliest of its triggered reactions. -/
def exitPlan (p : Params) (b : Behaviour) : Stage → Option Nat
  | .wait => b.self
  | .stdin => omin b.self (b.onStdin.map (p.delay + ·))
  | .term => omin (omin b.self (b.onStdin.map (p.delay + ·))) (b.onTerm.map (p.delay + p.g1 + ·))
  | .kill => omin (omin (omin b.self (b.onStdin.map (p.delay + ·))) (b.onTerm.map (p.delay + p.g1 + ·)))
      (some (p.delay + p.g1 + p.g2 + b.killLatency))

theorem omin_some_le (a b : Option Nat) (n e : Nat) (ha : ∀ x, a = some x → n ≤ x)
    (hb : ∀ x, b = some x → n ≤ x) (h : omin a b = some e) : n ≤ e := by
  cases a with
  | none => simp [omin] at h; exact hb e h
  | some x =>
    cases b with
    | none => simp [omin] at h; subst h; exact ha x rfl
    | some y =>
      simp [omin] at h; subst h
      have := ha x rfl; have := hb y rfl
      omega

theorem omin_now (n : Nat) (b : Option Nat) (hb : ∀ x, b = some x → n ≤ x) : omin (some n) b = some n := by
  cases b with
  | none => rfl
  | some y => have := hb y rfl; simp [omin]; omega

structure Inv (p : Params) (b : Behaviour) (s : State) : Prop where
  deadline : s.deadline = deadlineOf p s.stage
  plan : s.exitAt = exitPlan p b s.stage
  started : startOf p s.stage ≤ s.now
  before_deadline : ∀ t, s.deadline = some t → s.now ≤ t
  before_exit : s.alive = true → ∀ e, s.exitAt = some e → s.now ≤ e
  exited : s.alive = false → s.exitAt = some s.now ∧ s.waited = true
  waited : s.waited = true → s.alive = false
  returned : ∀ k t, s.returned = some (k, t) → k = s.stage ∧ t = s.now ∧ s.waited = true
  /-- the process had not exited before the deadline of any earlier stage -/
  past_wait : s.stage ≠ .wait → ∀ e, exitPlan p b .wait = some e → p.delay ≤ e
  past_stdin : (s.stage = .term ∨ s.stage = .kill) → ∀ e, exitPlan p b .stdin = some e → p.delay + p.g1 ≤ e
  past_term : s.stage = .kill → ∀ e, exitPlan p b .term = some e → p.delay + p.g1 + p.g2 ≤ e

theorem inv_init (p : Params) (b : Behaviour) : Inv p b (init p b) := by
  constructor <;> simp [init, deadlineOf, exitPlan, startOf]

/-- When a timer fires the clock is exactly at its deadline. -/
theorem now_eq_deadline (p : Params) (b : Behaviour) (s : State) (h : Inv p b s) (t : Nat)
    (hd : s.deadline = some t) (hle : t ≤ s.now) : s.now = t :=
  Nat.le_antisymm (h.before_deadline t hd) hle

/-- The exit plan of the stage being left is bounded below by the current time. -/
theorem plan_ge_now (p : Params) (b : Behaviour) (s : State) (h : Inv p b s) :
    ∀ e, exitPlan p b s.stage = some e → s.now ≤ e := by
  intro e he
  rw [← h.plan] at he
  cases ha : s.alive with
  | true => exact h.before_exit ha e he
  | false =>
    have := (h.exited ha).1
    rw [this] at he; cases he; exact Nat.le_refl _

theorem inv_step (p : Params) (b : Behaviour) (s s' : State) (a : Action) (h : Inv p b s)
    (hs : step p b s a = some s') : Inv p b s' := by
  cases a with
  | tick d =>
    simp only [step] at hs
    split at hs
    · cases hs
    · rename_i hg
      split at hs
      · rename_i hok
        cases hs
        simp only [Bool.and_eq_true] at hok
        have hnw : s.waited = false := by
          cases hw : s.waited with
          | false => rfl
          | true => exact absurd (Or.inr (Or.inr hw)) hg
        have hal : s.alive = true := by
          cases ha : s.alive with
          | true => rfl
          | false => have := (h.exited ha).2; rw [hnw] at this; cases this
        refine ⟨h.deadline, h.plan, Nat.le_trans h.started (Nat.le_add_right _ _), ?_, ?_, ?_, h.waited, ?_,
          h.past_wait, h.past_stdin, h.past_term⟩
        · intro t ht
          have := hok.1
          simp only at ht
          simp only [timerOk, ht, decide_eq_true_eq] at this
          exact this
        · intro _ e he
          have := hok.2
          simp only at he
          simp only [exitOk, hal, he, decide_eq_true_eq] at this
          exact this
        · intro ha; simp only at ha; rw [hal] at ha; cases ha
        · intro k t hr
          have hn : s.returned = none := by
            cases hr' : s.returned with
            | none => rfl
            | some x => exact absurd (Or.inl (by simp [hr'])) hg
          simp only at hr; rw [hn] at hr; cases hr
      · cases hs
  | procExit =>
    simp only [step] at hs
    split at hs
    · rename_i e hal he
      split at hs
      · rename_i hle
        cases hs
        have hnow : s.now = e := Nat.le_antisymm (h.before_exit hal e he) hle
        refine ⟨h.deadline, h.plan, h.started, h.before_deadline, ?_, ?_, fun _ => rfl, ?_,
          h.past_wait, h.past_stdin, h.past_term⟩
        · intro ha; cases ha
        · intro _; exact ⟨by simp only [he, hnow], rfl⟩
        · intro k t hr
          have := h.returned k t hr
          have hw := h.waited this.2.2
          rw [hal] at hw; cases hw
      · cases hs
    · cases hs
  | recv =>
    simp only [step] at hs
    split at hs
    · rename_i hg
      cases hs
      refine ⟨h.deadline, h.plan, h.started, h.before_deadline, h.before_exit, h.exited, h.waited, ?_,
        h.past_wait, h.past_stdin, h.past_term⟩
      intro k t hr
      simp only [Option.some.injEq, Prod.mk.injEq] at hr
      exact ⟨hr.1.symm, hr.2.symm, hg.1⟩
    · cases hs
  | fire =>
    simp only [step] at hs
    split at hs
    · cases hs
    · rename_i hnr
      have hret : s.returned = none := by
        cases hr : s.returned with
        | none => rfl
        | some x => exact absurd (by simp [hr]) hnr
      split at hs
      · rename_i t hd
        split at hs
        · rename_i hle
          have hnow := now_eq_deadline p b s h t hd hle
          have hplan := plan_ge_now p b s h
          have hdl := h.deadline
          rw [hd] at hdl
          split at hs
          · -- wait → stdin
            rename_i hst
            cases hs
            rw [hst] at hdl hplan
            simp only [deadlineOf, Option.some.injEq] at hdl
            have hpl := h.plan; rw [hst] at hpl
            refine ⟨by simp [deadlineOf, hnow, hdl], ?_, by simp [startOf, hnow, hdl], ?_, ?_, ?_, h.waited,
              ?_, ?_, ?_, ?_⟩
            · simp only [exitPlan, hpl, hnow, hdl]
            · intro t' ht'; simp only [Option.some.injEq] at ht'; show s.now ≤ t'; omega
            · intro ha e he
              simp only at he
              refine omin_some_le _ _ _ _ (fun x hx => h.before_exit ha x hx) ?_ he
              intro x hx
              cases hb : b.onStdin with
              | none => simp [hb] at hx
              | some r => simp [hb] at hx; show s.now ≤ x; omega
            · intro ha
              have := h.exited ha
              refine ⟨?_, this.2⟩
              simp only [this.1]
              apply omin_now
              intro x hx
              cases hb : b.onStdin with
              | none => simp [hb] at hx
              | some r => simp [hb] at hx; show s.now ≤ x; omega
            · intro k t' hr; simp only at hr; rw [hret] at hr; cases hr
            · intro _ e he
              have := hplan e he
              omega
            · intro hc; rcases hc with hc | hc <;> cases hc
            · intro hc; cases hc
          · -- stdin → term
            rename_i hst
            cases hs
            rw [hst] at hdl hplan
            simp only [deadlineOf, Option.some.injEq] at hdl
            have hpl := h.plan; rw [hst] at hpl
            refine ⟨by simp [deadlineOf, hnow, hdl], ?_, by simp [startOf, hnow, hdl], ?_, ?_, ?_, h.waited,
              ?_, ?_, ?_, ?_⟩
            · simp only [exitPlan, hpl, hnow, hdl]
            · intro t' ht'; simp only [Option.some.injEq] at ht'; show s.now ≤ t'; omega
            · intro ha e he
              simp only at he
              refine omin_some_le _ _ _ _ (fun x hx => h.before_exit ha x hx) ?_ he
              intro x hx
              cases hb : b.onTerm with
              | none => simp [hb] at hx
              | some r => simp [hb] at hx; show s.now ≤ x; omega
            · intro ha
              have := h.exited ha
              refine ⟨?_, this.2⟩
              simp only [this.1]
              apply omin_now
              intro x hx
              cases hb : b.onTerm with
              | none => simp [hb] at hx
              | some r => simp [hb] at hx; show s.now ≤ x; omega
            · intro k t' hr; simp only at hr; rw [hret] at hr; cases hr
            · intro _; exact h.past_wait (by rw [hst]; simp)
            · intro _ e he
              have := hplan e he
              omega
            · intro hc; cases hc
          · -- term → kill
            rename_i hst
            cases hs
            rw [hst] at hdl hplan
            simp only [deadlineOf, Option.some.injEq] at hdl
            have hpl := h.plan; rw [hst] at hpl
            refine ⟨by simp [deadlineOf], ?_, by simp [startOf, hnow, hdl], ?_, ?_, ?_, h.waited,
              ?_, ?_, ?_, ?_⟩
            · simp only [exitPlan, hpl, hnow, hdl]
            · intro t' ht'; cases ht'
            · intro ha e he
              simp only at he
              refine omin_some_le _ _ _ _ (fun x hx => h.before_exit ha x hx) ?_ he
              intro x hx
              simp only [Option.some.injEq] at hx; show s.now ≤ x; omega
            · intro ha
              have := h.exited ha
              refine ⟨?_, this.2⟩
              simp only [this.1]
              apply omin_now
              intro x hx
              simp only [Option.some.injEq] at hx; show s.now ≤ x; omega
            · intro k t' hr; simp only at hr; rw [hret] at hr; cases hr
            · intro _; exact h.past_wait (by rw [hst]; simp)
            · intro _; exact h.past_stdin (by rw [hst]; simp)
            · intro _ e he
              have := hplan e he
              omega
          · cases hs
        · cases hs
      · cases hs
  | helperExit =>
    simp only [step] at hs
    split at hs
    · cases hs
      exact ⟨h.deadline, h.plan, h.started, h.before_deadline, h.before_exit, h.exited, h.waited,
        h.returned, h.past_wait, h.past_stdin, h.past_term⟩
    · cases hs
  | copyEnd =>
    simp only [step] at hs
    split at hs
    · cases hs
      exact ⟨h.deadline, h.plan, h.started, h.before_deadline, h.before_exit, h.exited, h.waited,
        h.returned, h.past_wait, h.past_stdin, h.past_term⟩
    · cases hs

/-- The descendant's and the copier's steps touch nothing the ladder looks at. -/
theorem aux_step_fields (p : Params) (b : Behaviour) (s s' : State) (a : Action)
    (ha : a = .helperExit ∨ a = .copyEnd) (hs : step p b s a = some s') :
    s'.now = s.now ∧ s'.stage = s.stage ∧ s'.deadline = s.deadline ∧ s'.exitAt = s.exitAt ∧
    s'.alive = s.alive ∧ s'.waited = s.waited ∧ s'.returned = s.returned := by
  rcases ha with ha | ha <;> subst ha <;> simp only [step] at hs <;> split at hs <;> cases hs <;>
    exact ⟨rfl, rfl, rfl, rfl, rfl, rfl, rfl⟩

theorem inv_run (p : Params) (b : Behaviour) (s s' : State) (as : List Action) (h : Inv p b s)
    (hr : run p b s as = some s') : Inv p b s' := by
  induction as generalizing s with
  | nil => simp [run] at hr; subst hr; exact h
  | cons a as ih =>
    simp only [run] at hr
    cases hstep : step p b s a with
    | none => simp [hstep] at hr
    | some s1 =>
      simp [hstep] at hr
      exact ih s1 (inv_step p b s s1 a h hstep) hr

theorem inv_reachable (p : Params) (b : Behaviour) (s : State) (h : Reachable p b s) : Inv p b s := by
  obtain ⟨as, hr⟩ := h
  exact inv_run p b (init p b) s as (inv_init p b) hr

/-! ### Termination measure -/

def stagesLeft : Stage → Nat
  | .wait => 3 | .stdin => 2 | .term => 1 | .kill => 0

/-- Upper bound on the time that can still pass. -/
def timeLeft (p : Params) (b : Behaviour) (s : State) : Nat :=
  match s.stage with
  | .wait => (p.delay - s.now) + p.g1 + p.g2 + b.killLatency
  | .stdin => (p.delay + p.g1 - s.now) + p.g2 + b.killLatency
  | .term => (p.delay + p.g1 + p.g2 - s.now) + b.killLatency
  | .kill => p.delay + p.g1 + p.g2 + b.killLatency - s.now

/-- Strictly decreases with every step. -/
def measure (p : Params) (b : Behaviour) (s : State) : Nat :=
  (if s.returned.isSome then 0 else 1) + (if s.alive then 1 else 0) + stagesLeft s.stage + timeLeft p b s +
    (if s.helper then 1 else 0) + (if s.copyDone then 0 else 1)

theorem measure_init (p : Params) (b : Behaviour) :
    measure p b (init p b) ≤ 7 + p.delay + p.g1 + p.g2 + b.killLatency := by
  simp [measure, init, stagesLeft, timeLeft]
  by_cases hb : b.holder = true <;> by_cases hr : p.recv = false <;> simp [hb, hr] <;> omega

/-- In the last stage a live process has a scheduled exit no later than the kill latency. -/
theorem kill_exit (p : Params) (b : Behaviour) (s : State) (h : Inv p b s) (hk : s.stage = .kill) :
    ∃ e, s.exitAt = some e ∧ e ≤ p.delay + p.g1 + p.g2 + b.killLatency := by
  have := h.plan
  rw [hk] at this
  simp only [exitPlan] at this
  cases hx : omin (omin b.self (Option.map (fun x => p.delay + x) b.onStdin))
      (Option.map (fun x => p.delay + p.g1 + x) b.onTerm) with
  | none => rw [hx] at this; exact ⟨_, this, Nat.le_refl _⟩
  | some y => rw [hx] at this; simp only [omin] at this; exact ⟨_, this, Nat.min_le_right _ _⟩

/-- (continued) the descendant's exit and the copier's end happen at most once each. -/
theorem measure_aux (p : Params) (b : Behaviour) (s s' : State) (a : Action)
    (ha : a = .helperExit ∨ a = .copyEnd) (hs : step p b s a = some s') :
    measure p b s' < measure p b s := by
  rcases ha with ha | ha <;> subst ha <;> simp only [step] at hs <;> split at hs
  · rename_i hh
    cases hs
    simp only [measure, timeLeft, hh]
    cases s.stage <;> simp
  · cases hs
  · rename_i hh
    cases hs
    have hc : s.copyDone = false := by
      cases hcd : s.copyDone with
      | false => rfl
      | true => exact absurd hcd hh.1
    simp only [measure, timeLeft, hc]
    cases s.stage <;> simp
  · cases hs

theorem measure_step (p : Params) (b : Behaviour) (s s' : State) (a : Action) (h : Inv p b s)
    (hs : step p b s a = some s') : measure p b s' < measure p b s := by
  cases a with
  | tick d =>
    simp only [step] at hs
    split at hs
    · cases hs
    · rename_i hg
      split at hs
      · rename_i hok
        cases hs
        simp only [Bool.and_eq_true] at hok
        have hd : d ≠ 0 := fun e => hg (Or.inr (Or.inl e))
        have hnw : s.waited = false := by
          cases hw : s.waited with
          | false => rfl
          | true => exact absurd (Or.inr (Or.inr hw)) hg
        have hal : s.alive = true := by
          cases ha : s.alive with
          | true => rfl
          | false => have := (h.exited ha).2; rw [hnw] at this; cases this
        have hdl := h.deadline
        simp only [measure, timeLeft]
        cases hst : s.stage with
        | wait =>
          rw [hst] at hdl; simp only [deadlineOf] at hdl
          have := hok.1; simp only [timerOk, hdl, decide_eq_true_eq] at this
          simp only [stagesLeft]; omega
        | stdin =>
          rw [hst] at hdl; simp only [deadlineOf] at hdl
          have := hok.1; simp only [timerOk, hdl, decide_eq_true_eq] at this
          simp only [stagesLeft]; omega
        | term =>
          rw [hst] at hdl; simp only [deadlineOf] at hdl
          have := hok.1; simp only [timerOk, hdl, decide_eq_true_eq] at this
          simp only [stagesLeft]; omega
        | kill =>
          obtain ⟨e, he, hle⟩ := kill_exit p b s h hst
          have := hok.2; simp only [exitOk, hal, he, decide_eq_true_eq] at this
          simp only [stagesLeft]; omega
      · cases hs
  | procExit =>
    simp only [step] at hs
    split at hs
    · rename_i e hal he
      split at hs
      · cases hs
        simp only [measure, timeLeft, hal]
        cases s.stage <;> simp
      · cases hs
    · cases hs
  | recv =>
    simp only [step] at hs
    split at hs
    · rename_i hg
      cases hs
      have : s.returned.isSome = false := by
        cases hr : s.returned with
        | none => rfl
        | some x => have := hg.2; simp [hr] at this
      simp only [measure, timeLeft, this]
      cases s.stage <;> simp
    · cases hs
  | fire =>
    simp only [step] at hs
    split at hs
    · cases hs
    · split at hs
      · rename_i t hd
        split at hs
        · rename_i hle
          have hnow := now_eq_deadline p b s h t hd hle
          have hdl := h.deadline
          rw [hd] at hdl
          split at hs
          · rename_i hst
            cases hs
            rw [hst] at hdl; simp only [deadlineOf, Option.some.injEq] at hdl
            simp only [measure, timeLeft, hst, stagesLeft]; omega
          · rename_i hst
            cases hs
            rw [hst] at hdl; simp only [deadlineOf, Option.some.injEq] at hdl
            simp only [measure, timeLeft, hst, stagesLeft]; omega
          · rename_i hst
            cases hs
            rw [hst] at hdl; simp only [deadlineOf, Option.some.injEq] at hdl
            simp only [measure, timeLeft, hst, stagesLeft]; omega
          · cases hs
        · cases hs
      · cases hs
  | helperExit => exact measure_aux p b s s' .helperExit (Or.inl rfl) hs
  | copyEnd => exact measure_aux p b s s' .copyEnd (Or.inr rfl) hs

/-- Every run from the initial state is shorter than the initial measure. -/
theorem run_length (p : Params) (b : Behaviour) (s s' : State) (as : List Action) (h : Inv p b s)
    (hr : run p b s as = some s') : as.length + measure p b s' ≤ measure p b s := by
  induction as generalizing s with
  | nil => simp [run] at hr; subst hr; simp
  | cons a as ih =>
    simp only [run] at hr
    cases hstep : step p b s a with
    | none => simp [hstep] at hr
    | some s1 =>
      simp [hstep] at hr
      have h1 := measure_step p b s s1 a h hstep
      have h2 := ih s1 (inv_step p b s s1 a h hstep) hr
      simp only [List.length_cons]; omega

/-- Until Close has returned, some step is enabled. -/
theorem progress (p : Params) (b : Behaviour) (s : State) (h : Inv p b s) (hr : s.returned = none) :
    ∃ a s', step p b s a = some s' := by
  cases hw : s.waited with
  | true => exact ⟨.recv, by simp [step, hw, hr]⟩
  | false =>
    have hal : s.alive = true := by
      cases ha : s.alive with
      | true => rfl
      | false => have := (h.exited ha).2; rw [hw] at this; cases this
    -- is the process due?
    have hexit : (∃ e, s.exitAt = some e ∧ e ≤ s.now) ∨ (∀ e, s.exitAt = some e → s.now < e) := by
      cases he : s.exitAt with
      | none => right; intro e h'; cases h'
      | some e =>
        by_cases hle : e ≤ s.now
        · left; exact ⟨e, rfl, hle⟩
        · right; intro e' h'; cases h'; omega
    rcases hexit with ⟨e, he, hle⟩ | hlater
    · exact ⟨.procExit, by simp [step, hal, he, hle]⟩
    · cases hd : s.deadline with
      | some t =>
        by_cases hle : t ≤ s.now
        · -- the timer fires; the stage is not the last one
          have hdl := h.deadline
          rw [hd] at hdl
          cases hst : s.stage with
          | wait => exact ⟨.fire, by simp [step, hr, hd, hle, hst]⟩
          | stdin => exact ⟨.fire, by simp [step, hr, hd, hle, hst]⟩
          | term => exact ⟨.fire, by simp [step, hr, hd, hle, hst]⟩
          | kill => rw [hst] at hdl; simp [deadlineOf] at hdl
        · refine ⟨.tick 1, { s with now := s.now + 1 }, ?_⟩
          have h1 : timerOk s 1 = true := by simp [timerOk, hd]; omega
          have h2 : exitOk s 1 = true := by
            simp only [exitOk, hal]
            cases he : s.exitAt with
            | none => rfl
            | some e => have := hlater e he; simp; omega
          simp [step, hr, hw, h1, h2]
      | none =>
        refine ⟨.tick 1, { s with now := s.now + 1 }, ?_⟩
        have h1 : timerOk s 1 = true := by simp [timerOk, hd]
        have h2 : exitOk s 1 = true := by
          simp only [exitOk, hal]
          cases he : s.exitAt with
          | none => rfl
          | some e => have := hlater e he; simp; omega
        simp [step, hr, hw, h1, h2]

/-! ### Close does not depend on who else holds the standard-error pipe -/

/-- Steps of the ladder proper (everything except the descendant's exit and the copier's end). -/
def isLadder : Action → Bool
  | .helperExit => false
  | .copyEnd => false
  | _ => true

/-- Forget the holder set, the parent's read end, the copier and the pending writer. -/
def core (s : State) : State :=
  { s with helper := false, stderrOpen := false, copyDone := true, writerBlocked := false }

/-- Ladder steps neither read nor (observably) write the forgotten part. -/
theorem step_core (p : Params) (b : Behaviour) (s : State) (a : Action) (ha : isLadder a = true) :
    step p b (core s) a = (step p b s a).map core := by
  cases a with
  | helperExit => simp [isLadder] at ha
  | copyEnd => simp [isLadder] at ha
  | tick d =>
    simp only [step, apply_ite (Option.map core), Option.map_none, Option.map_some]
    rfl
  | procExit =>
    cases hal : s.alive <;> cases he : s.exitAt <;> simp [step, core, hal, he]
  | recv =>
    simp only [step, apply_ite (Option.map core), Option.map_none, Option.map_some]
    rfl
  | fire =>
    by_cases h1 : s.returned.isSome = true
    · simp [step, core, h1]
    · cases hd : s.deadline with
      | none => simp [step, core, h1, hd]
      | some t =>
        by_cases h2 : t ≤ s.now
        · cases hst : s.stage <;> simp [step, core, h1, hd, h2, hst]
        · simp [step, core, h1, hd, h2]

/-- The other two steps change only the forgotten part. -/
theorem step_aux_core (p : Params) (b : Behaviour) (s s' : State) (a : Action)
    (ha : isLadder a = false) (hs : step p b s a = some s') : core s' = core s := by
  cases a with
  | helperExit => simp only [step] at hs; split at hs <;> cases hs; rfl
  | copyEnd => simp only [step] at hs; split at hs <;> cases hs; rfl
  | tick d => simp [isLadder] at ha
  | procExit => simp [isLadder] at ha
  | recv => simp [isLadder] at ha
  | fire => simp [isLadder] at ha

/-- Erasing the descendant's and the copier's steps from any run leaves a run
of the ladder with the same visible state. -/
theorem run_core_filter (p : Params) (b : Behaviour) (s s' : State) (as : List Action)
    (hr : run p b s as = some s') :
    run p b (core s) (as.filter isLadder) = some (core s') := by
  induction as generalizing s with
  | nil => simp [run] at hr; subst hr; rfl
  | cons a as ih =>
    simp only [run] at hr
    cases hstep : step p b s a with
    | none => simp [hstep] at hr
    | some s1 =>
      simp [hstep] at hr
      cases ha : isLadder a with
      | true =>
        simp only [List.filter_cons, ha, if_true, run]
        rw [step_core p b s a ha, hstep]
        exact ih s1 hr
      | false =>
        simp only [List.filter_cons, ha]
        rw [← step_aux_core p b s s1 a ha hstep]
        exact ih s1 hr

/-- The step function does not look at `holder` and `recv`. -/
theorem step_params (p p' : Params) (b b' : Behaviour) (s : State) (a : Action)
    (h1 : p.g1 = p'.g1) (h2 : p.g2 = p'.g2) (h3 : b.onStdin = b'.onStdin) (h4 : b.onTerm = b'.onTerm)
    (h5 : b.killLatency = b'.killLatency) : step p b s a = step p' b' s a := by
  cases a <;> simp only [step, h1, h2, h3, h4, h5]

theorem run_params (p p' : Params) (b b' : Behaviour) (s : State) (as : List Action)
    (h1 : p.g1 = p'.g1) (h2 : p.g2 = p'.g2) (h3 : b.onStdin = b'.onStdin) (h4 : b.onTerm = b'.onTerm)
    (h5 : b.killLatency = b'.killLatency) : run p b s as = run p' b' s as := by
  induction as generalizing s with
  | nil => rfl
  | cons a as ih =>
    simp only [run, step_params p p' b b' s a h1 h2 h3 h4 h5]
    cases step p' b' s a with
    | none => rfl
    | some s1 => simp [ih]

/-! ### The pending writer -/

/-- Once standard input has been closed, or the agent has been waited for, no
`Write` is blocked any more. -/
def WriterInv (s : State) : Prop :=
  (s.stage ≠ .wait ∨ s.waited = true) → s.writerBlocked = false

theorem writer_init (p : Params) (b : Behaviour) : WriterInv (init p b) := by
  intro h; rcases h with h | h <;> simp [init] at h

theorem writer_step (p : Params) (b : Behaviour) (s s' : State) (a : Action) (h : WriterInv s)
    (hs : step p b s a = some s') : WriterInv s' := by
  cases a with
  | tick d =>
    simp only [step] at hs
    split at hs
    · cases hs
    · split at hs <;> cases hs; exact h
  | procExit =>
    simp only [step] at hs
    split at hs
    · split at hs <;> cases hs; intro _; rfl
    · cases hs
  | recv => simp only [step] at hs; split at hs <;> cases hs; exact h
  | fire =>
    simp only [step] at hs
    split at hs
    · cases hs
    · split at hs
      · split at hs
        · split at hs
          · cases hs; intro _; rfl
          · rename_i hst; cases hs; intro _; exact h (Or.inl (by rw [hst]; simp))
          · rename_i hst; cases hs; intro _; exact h (Or.inl (by rw [hst]; simp))
          · cases hs
        · cases hs
      · cases hs
  | helperExit => simp only [step] at hs; split at hs <;> cases hs; exact h
  | copyEnd => simp only [step] at hs; split at hs <;> cases hs; exact h

theorem writer_run (p : Params) (b : Behaviour) (s s' : State) (as : List Action) (h : WriterInv s)
    (hr : run p b s as = some s') : WriterInv s' := by
  induction as generalizing s with
  | nil => simp [run] at hr; subst hr; exact h
  | cons a as ih =>
    simp only [run] at hr
    cases hstep : step p b s a with
    | none => simp [hstep] at hr
    | some s1 =>
      simp [hstep] at hr
      exact ih s1 (writer_step p b s s1 a h hstep) hr

end Mutagen.Proofs.CloseLadder
