import Mutagen.Proofs.Reach
/-!
A history model for the multi-cycle statement of C01: states `(ancestor,
alpha, beta)`, steps "the user replaces an endpoint's content by an arbitrary
tree" and "a fully applied two-way cycle" (reconcile, apply both change lists
exactly, ancestor update with ideal results as in controller.go:synchronize),
and the per-cycle facts from which the multi-cycle theorems follow
(`cycle_applies`, `cycle_no_loss`, `cycle_converges`).
-/
namespace Mutagen.Model

/-! ## Histories: arbitrary edits interleaved with fully applied cycles -/

/-- The three trees of a session: last-synchronized tree and both endpoints. -/
structure HState where
  anc : Option Entry
  alpha : Option Entry
  beta : Option Entry

/-- One step of a history: the user replaces the content of an endpoint by an
arbitrary tree (any number and kind of edits), or a synchronization cycle runs. -/
inductive HStep
  | editAlpha (t : Option Entry)
  | editBeta (t : Option Entry)
  | cycle

/-- The tree an `Apply` returned (an `Apply` that fails leaves the tree as it
was; `cycle_applies` shows this never happens). -/
def applied (d : Option Entry) : Except ApplyErr (Option Entry) → Option Entry
  | .ok e => e
  | .error _ => d

/-- A fully applied cycle: reconcile, apply both endpoint change lists exactly,
update the ancestor as `controller.go:synchronize` does with ideal results. -/
def cycleStep (mode : Mode) (s : HState) : HState :=
  { anc := applied s.anc (apply s.anc ((Reconcile s.anc s.alpha s.beta mode).anc ++
      ((Reconcile s.anc s.alpha s.beta mode).alpha.map idealResult ++
        (Reconcile s.anc s.alpha s.beta mode).beta.map idealResult))),
    alpha := applied s.alpha (apply s.alpha (Reconcile s.anc s.alpha s.beta mode).alpha),
    beta := applied s.beta (apply s.beta (Reconcile s.anc s.alpha s.beta mode).beta) }

def hstep (mode : Mode) (s : HState) : HStep → HState
  | .editAlpha t => { s with alpha := t }
  | .editBeta t => { s with beta := t }
  | .cycle => cycleStep mode s

/-- Run a history. -/
def hrun (mode : Mode) (s : HState) (steps : List HStep) : HState := steps.foldl (hstep mode) s

def HStep.isEdit : HStep → Bool
  | .cycle => false
  | _ => true

/-- The three `Apply`s of a cycle always succeed: the state after a cycle
consists of their results. -/
theorem cycle_applies (mode : Mode) (s : HState) :
    apply s.anc ((Reconcile s.anc s.alpha s.beta mode).anc ++
      ((Reconcile s.anc s.alpha s.beta mode).alpha.map idealResult ++
        (Reconcile s.anc s.alpha s.beta mode).beta.map idealResult)) = .ok (cycleStep mode s).anc ∧
    apply s.alpha (Reconcile s.anc s.alpha s.beta mode).alpha = .ok (cycleStep mode s).alpha ∧
    apply s.beta (Reconcile s.anc s.alpha s.beta mode).beta = .ok (cycleStep mode s).beta := by
  obtain ⟨A', hA⟩ := ancestor_update_succeeds mode s.anc s.alpha s.beta
    ((Reconcile s.anc s.alpha s.beta mode).alpha.map idealResult)
    ((Reconcile s.anc s.alpha s.beta mode).beta.map idealResult)
    (by simp [idealResult, Function.comp_def]) (by simp [idealResult, Function.comp_def])
  obtain ⟨⟨α', hα⟩, ⟨β', hβ⟩⟩ := plan_application_succeeds mode s.anc s.alpha s.beta
  simp only [cycleStep, hA, hα, hβ, applied, and_self]

theorem exists_match_of_ov_ne {cs : List Change} {q : Path} {d : Option Props} (h : ov cs q d ≠ d) :
    ∃ c ∈ cs, c.path <+: q := by
  apply Classical.byContradiction
  intro hno
  exact h (ov_no_match (fun c hc hpre => hno ⟨c, hc, hpre⟩) d)

/-- **One cycle never loses a modification** (two-way-safe, any trees): an
entry of an endpoint that the cycle deletes or replaces is recorded identically
in the ancestor the cycle started from. -/
theorem cycle_no_loss (s : HState) :
    (∀ q, pget (cycleStep .twoWaySafe s).alpha q ≠ pget s.alpha q →
      pget s.alpha q = none ∨ pget s.alpha q = pget s.anc q) ∧
    (∀ q, pget (cycleStep .twoWaySafe s).beta q ≠ pget s.beta q →
      pget s.beta q = none ∨ pget s.beta q = pget s.anc q) := by
  obtain ⟨_, hα, hβ⟩ := cycle_applies .twoWaySafe s
  constructor
  · intro q hq
    rw [apply_pget_ov hα q] at hq
    obtain ⟨c, hc, hpre⟩ := exists_match_of_ov_ne hq
    exact (protected_no_loss (reconcile_protects_alpha .twoWaySafe [] s.anc s.alpha s.beta s.anc (Or.inl rfl))
      c hc).2 q hpre
  · intro q hq
    rw [apply_pget_ov hβ q] at hq
    obtain ⟨c, hc, hpre⟩ := exists_match_of_ov_ne hq
    exact (protected_no_loss (reconcile_protects_beta .twoWaySafe rfl [] s.anc s.alpha s.beta s.anc (Or.inl rfl))
      c hc).2 q hpre

/-- Edits do not touch the last-synchronized tree. -/
theorem hrun_edits_anc (mode : Mode) (steps : List HStep) (h : ∀ x ∈ steps, x.isEdit = true) :
    ∀ s, (hrun mode s steps).anc = s.anc := by
  induction steps with
  | nil => intro s; rfl
  | cons x xs ih =>
    intro s
    simp only [hrun, List.foldl_cons]
    have := ih (fun y hy => h y (by simp [hy])) (hstep mode s x)
    simp only [hrun] at this
    rw [this]
    cases x with
    | editAlpha t => rfl
    | editBeta t => rfl
    | cycle => have := h .cycle (by simp); simp [HStep.isEdit] at this

/-- **After a cycle the ancestor records exactly the synchronized content**
(two-way modes, valid phantom-free endpoints): at every path outside the
cycle's conflicts and outside unsynchronizable content, both endpoints and the
new ancestor hold the same entry. -/
theorem cycle_converges (mode : Mode) (hm : mode = .twoWaySafe ∨ mode = .twoWayResolved) (s : HState)
    (hal : Valid s.alpha) (hbe : Valid s.beta) (hpα : onoPhantom s.alpha = true) (hpβ : onoPhantom s.beta = true) :
    ∀ q, (∀ c ∈ (Reconcile s.anc s.alpha s.beta mode).conflicts, ¬ c.root <+: q) →
      NoUnsyncAlong (cycleStep mode s).alpha q → NoUnsyncAlong (cycleStep mode s).beta q →
      pget (cycleStep mode s).alpha q = pget (cycleStep mode s).anc q ∧
      pget (cycleStep mode s).beta q = pget (cycleStep mode s).anc q := by
  obtain ⟨hA, hα, hβ⟩ := cycle_applies mode s
  intro q hq h1 h2
  have hfix := reconcile_fixpoint_root mode s.anc s.alpha s.beta hal hbe hpα hpβ _ _ _ hA hα hβ
  refine quiet_converged mode hm [] _ _ _ hfix.1 hfix.2.1 hfix.2.2.1 q ?_ h1 h2
  intro c₂ hc₂ hpre
  have : c₂.root ∈ (Reconcile s.anc s.alpha s.beta mode).conflicts.map (·.root) :=
    (hfix.2.2.2 c₂.root).mp (List.mem_map.mpr ⟨c₂, hc₂, rfl⟩)
  obtain ⟨c, hc, hroot⟩ := List.mem_map.mp this
  exact hq c hc (by rw [hroot]; simpa using hpre)

/-- **Content modified since its last synchronization survives the next
cycle** (two-way-safe): let a cycle run on valid phantom-free endpoints, let the
user then edit both endpoints arbitrarily, and let the next cycle run. At every
path that the first cycle left synchronized (outside its conflicts and outside
unsynchronizable content), an entry that the edits created or modified on an
endpoint is still there, unchanged, after the second cycle. -/
theorem modified_since_sync_survives (s : HState)
    (hal : Valid s.alpha) (hbe : Valid s.beta) (hpα : onoPhantom s.alpha = true) (hpβ : onoPhantom s.beta = true)
    (edits : List HStep) (he : ∀ x ∈ edits, x.isEdit = true) (q : Path)
    (hq : ∀ c ∈ (Reconcile s.anc s.alpha s.beta .twoWaySafe).conflicts, ¬ c.root <+: q)
    (h1 : NoUnsyncAlong (cycleStep .twoWaySafe s).alpha q) (h2 : NoUnsyncAlong (cycleStep .twoWaySafe s).beta q) :
    (pget (hrun .twoWaySafe (cycleStep .twoWaySafe s) edits).alpha q ≠ none →
      pget (hrun .twoWaySafe (cycleStep .twoWaySafe s) edits).alpha q ≠ pget (cycleStep .twoWaySafe s).alpha q →
      pget (cycleStep .twoWaySafe (hrun .twoWaySafe (cycleStep .twoWaySafe s) edits)).alpha q =
        pget (hrun .twoWaySafe (cycleStep .twoWaySafe s) edits).alpha q) ∧
    (pget (hrun .twoWaySafe (cycleStep .twoWaySafe s) edits).beta q ≠ none →
      pget (hrun .twoWaySafe (cycleStep .twoWaySafe s) edits).beta q ≠ pget (cycleStep .twoWaySafe s).beta q →
      pget (cycleStep .twoWaySafe (hrun .twoWaySafe (cycleStep .twoWaySafe s) edits)).beta q =
        pget (hrun .twoWaySafe (cycleStep .twoWaySafe s) edits).beta q) := by
  obtain ⟨c1, c2⟩ := cycle_converges .twoWaySafe (Or.inl rfl) s hal hbe hpα hpβ q hq h1 h2
  have hanc := hrun_edits_anc .twoWaySafe edits he (cycleStep .twoWaySafe s)
  obtain ⟨n1, n2⟩ := cycle_no_loss (hrun .twoWaySafe (cycleStep .twoWaySafe s) edits)
  constructor
  · intro hsome hmod
    apply Classical.byContradiction
    intro hne
    rcases n1 q hne with h | h
    · exact hsome h
    · rw [hanc, ← c1] at h; exact hmod h
  · intro hsome hmod
    apply Classical.byContradiction
    intro hne
    rcases n2 q hne with h | h
    · exact hsome h
    · rw [hanc, ← c2] at h; exact hmod h

/-- **No cycle of any history loses a modification** (two-way-safe): whatever
edits and cycles came before, a cycle only deletes or replaces endpoint entries
that the ancestor of that moment records identically. -/
theorem history_no_loss (s₀ : HState) (pre : List HStep) :
    (∀ q, pget (hrun .twoWaySafe s₀ (pre ++ [.cycle])).alpha q ≠ pget (hrun .twoWaySafe s₀ pre).alpha q →
      pget (hrun .twoWaySafe s₀ pre).alpha q = none ∨
      pget (hrun .twoWaySafe s₀ pre).alpha q = pget (hrun .twoWaySafe s₀ pre).anc q) ∧
    (∀ q, pget (hrun .twoWaySafe s₀ (pre ++ [.cycle])).beta q ≠ pget (hrun .twoWaySafe s₀ pre).beta q →
      pget (hrun .twoWaySafe s₀ pre).beta q = none ∨
      pget (hrun .twoWaySafe s₀ pre).beta q = pget (hrun .twoWaySafe s₀ pre).anc q) := by
  have : hrun .twoWaySafe s₀ (pre ++ [.cycle]) = cycleStep .twoWaySafe (hrun .twoWaySafe s₀ pre) := by
    simp [hrun, List.foldl_append, hstep]
  rw [this]
  exact cycle_no_loss _

end Mutagen.Model
