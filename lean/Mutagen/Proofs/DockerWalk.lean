import Mutagen.Proofs.IgnoreDocker
/-! C15: reification lemmas, pointwise equality of the two characterisations
under the no-inversion hypothesis (core Lean only). -/
namespace Mutagen.Proofs.DockerWalk
open Mutagen.Model.IgnoreCore Mutagen.Model.IgnoreDocker Mutagen.Model.DockerSpec
open Mutagen.Model.IgnoreMutagen (lastMatchWins loop)
open Mutagen.Proofs.IgnoreMutagen (specStep fold_eq_lastMatch loop_eq_fold negCount)
open Mutagen.Proofs.IgnoreDocker

/-! ### `allOk` -/

theorem allOk_prefix {β : Type} (f : List β → β → Bool) (acc l1 l2 : List β)
    (h : allOk f acc (l1 ++ l2) = true) : allOk f acc l1 = true := by
  rw [allOk_append] at h
  simp only [Bool.and_eq_true] at h
  exact h.1

theorem allOk_snoc {β : Type} (f : List β → β → Bool) (l : List β) (a : β) :
    allOk f [] (l ++ [a]) = (allOk f [] l && f l a) := by
  rw [allOk_append]
  simp [allOk]

/-- Two predicates that agree wherever `h` holds along the way agree in `allOk`. -/
theorem allOk_congr_prefix {β : Type} (h f g : List β → β → Bool)
    (hfg : ∀ before a, allOk h [] (before ++ [a]) = true → f before a = g before a) :
    ∀ (l acc : List β), allOk h [] acc = true → allOk h acc l = true → allOk f acc l = allOk g acc l := by
  intro l
  induction l with
  | nil => intro _ _ _; rfl
  | cons a rest ih =>
    intro acc hacc hl
    simp only [allOk, Bool.and_eq_true] at hl ⊢
    have hpre : allOk h [] (acc ++ [a]) = true := by
      rw [allOk_snoc]; simp [hacc, hl.1]
    rw [hfg acc a hpre, ih (acc ++ [a]) hpre hl.2]

/-! ### Pointwise equality of the characterisations without inversion -/

theorem mask_eq_skip {α : Type} (excl : α → Bool) (m : α → Str → Bool) (ps : List α)
    (before : List Str) (a : Str) (h : allOk (noInversionAt excl m ps) [] (before ++ [a]) = true) :
    maskAfter ((before ++ [a]).map (statusAt excl m ps)) = skipAt excl m ps a before := by
  rw [skipAt_eq_closure]
  have := deepest_eq_closure excl m ps (before ++ [a]) []
    (by simp [maskAfter, closureIgnored_nil]) h
  simpa using this

theorem enter_eq {α : Type} (excl : α → Bool) (text : α → Str) (m : α → Str → Bool) (ps : List α)
    (before : List Str) (a : Str) (h : allOk (noInversionAt excl m ps) [] (before ++ [a]) = true) :
    mutagenEnter excl text m ps before a = dockerEnter excl text m ps before a := by
  unfold mutagenEnter dockerEnter
  rw [mask_eq_skip excl m ps before a h]

/-- **Without a depth-order inversion along its chain, a node is selected by the
Mutagen characterisation iff it is selected by the Docker characterisation.** -/
theorem incl_eq {α : Type} (excl : α → Bool) (text : α → Str) (m : α → Str → Bool) (ps : List α)
    (chain : List Str) (x : Str) (h : allOk (noInversionAt excl m ps) [] (chain ++ [x]) = true) :
    mutagenIncl excl text m ps chain x = dockerIncl excl text m ps chain x := by
  unfold mutagenIncl dockerIncl
  rw [mask_eq_skip excl m ps chain x h]
  have hc : allOk (noInversionAt excl m ps) [] chain = true := allOk_prefix _ [] chain [x] h
  rw [allOk_congr_prefix (noInversionAt excl m ps) (mutagenEnter excl text m ps) (dockerEnter excl text m ps)
    (fun before a hb => enter_eq excl text m ps before a hb) chain [] rfl hc]

theorem filterMap_congr_mem {β γ : Type} (f g : β → Option γ) (l : List β) (h : ∀ x ∈ l, f x = g x) :
    l.filterMap f = l.filterMap g := by
  induction l with
  | nil => rfl
  | cons a rest ih =>
    simp only [List.filterMap_cons, h a (by simp)]
    rw [ih (fun x hx => h x (by simp [hx]))]

theorem specLeaves_eq_dockerSpecLeaves {α : Type} (excl : α → Bool) (text : α → Str) (m : α → Str → Bool)
    (ps : List α) (children : List (Str × Node))
    (h : noDepthOrderInversion excl m ps children = true) :
    specLeaves excl text m ps children = dockerSpecLeaves excl text m ps children := by
  unfold specLeaves dockerSpecLeaves
  apply filterMap_congr_mem
  intro n hn
  unfold noDepthOrderInversion at h
  have := (List.all_eq_true.mp h) n hn
  rw [incl_eq excl text m ps n.chain n.path this]

/-! ### Reification -/

mutual
/-- Number of directories in an entry. -/
def dirCount : SEntry → Nat
  | .dir _ cs => 1 + dirCountChildren cs
  | _ => 0
def dirCountChildren : List (Str × SEntry) → Nat
  | [] => 0
  | (_, e) :: rest => dirCount e + dirCountChildren rest
end

def ancIsDir (anc : Option Anc) : Bool := match anc with | some a => a.isDir | none => false

mutual
/-- **Specification of "synchronized"** for one endpoint: files, links and
ordinary directories are; an excluded (phantom) directory is iff the ancestor
had a directory there or it holds synchronized content. -/
def synchronized (anc : Option Anc) : SEntry → Bool
  | .file => true
  | .link => true
  | .untracked => false
  | .dir ph cs => !ph || ancIsDir anc || anySynchronized anc cs
def anySynchronized (anc : Option Anc) : List (Str × SEntry) → Bool
  | [] => false
  | (name, e) :: rest => synchronized (ancLookup anc name) e || anySynchronized anc rest
end

theorem reify_dir (anc : Option Anc) (ph : Bool) (cs : List (Str × SEntry)) :
    reify anc (.dir ph cs) =
      (if (reifyChildren anc cs).2.1 || ancIsDir anc then
         (.dir false (reifyChildren anc cs).1, true, (reifyChildren anc cs).2.2 + 1)
       else if ph then (.untracked, decide ((reifyChildren anc cs).2.2 ≥ 1), (reifyChildren anc cs).2.2)
       else (.dir false (reifyChildren anc cs).1, true, (reifyChildren anc cs).2.2 + 1)) := by
  simp only [reify]
  generalize reifyChildren anc cs = r
  obtain ⟨a, b, c⟩ := r
  cases anc <;> simp [ancIsDir]

theorem reifyChildren_cons (anc : Option Anc) (name : Str) (e : SEntry) (rest : List (Str × SEntry)) :
    reifyChildren anc ((name, e) :: rest) =
      ((name, (reify (ancLookup anc name) e).1) :: (reifyChildren anc rest).1,
       (reify (ancLookup anc name) e).2.1 || (reifyChildren anc rest).2.1,
       (reify (ancLookup anc name) e).2.2 + (reifyChildren anc rest).2.2) := by
  simp only [reifyChildren]

mutual
/-- Everything reification reports, in one mutual induction: the result has no
phantom directory, the same file/link leaves, the reported count is the number
of directories of the result, the "tracked" flag is the specification
`synchronized`, and an unsynchronized entry has no leaves and count 0. -/
theorem reify_spec (path : Str) : ∀ (anc : Option Anc) (e : SEntry),
    noPhantom (reify anc e).1 = true ∧
    leavesOf path (reify anc e).1 = leavesOf path e ∧
    (reify anc e).2.2 = dirCount (reify anc e).1 ∧
    (reify anc e).2.1 = synchronized anc e ∧
    ((reify anc e).2.1 = false → leavesOf path e = [] ∧ (reify anc e).2.2 = 0)
  | anc, .file => by simp [reify, noPhantom, dirCount, synchronized]
  | anc, .link => by simp [reify, noPhantom, dirCount, synchronized]
  | anc, .untracked => by simp [reify, noPhantom, dirCount, synchronized, leavesOf]
  | anc, .dir ph cs => by
    have ih := reifyChildren_spec path anc cs
    obtain ⟨ih1, ih2, ih3, ih4, ih5⟩ := ih
    rw [reify_dir]
    by_cases ht : ((reifyChildren anc cs).2.1 || ancIsDir anc) = true
    · simp only [ht, if_true]
      refine ⟨by simp [noPhantom, ih1], by simp [leavesOf, ih2], by simp [dirCount, ih3]; omega, ?_, by simp⟩
      simp only [synchronized, ← ih4]
      simp only [Bool.or_eq_true] at ht
      rcases ht with h | h <;> simp [h]
    · have ht' : ((reifyChildren anc cs).2.1 || ancIsDir anc) = false := by simpa using ht
      simp only [ht', Bool.false_eq_true, if_false]
      simp only [Bool.or_eq_false_iff] at ht'
      obtain ⟨hc, ha⟩ := ht'
      obtain ⟨hl, hz⟩ := ih5 hc
      cases ph
      · simp only [Bool.false_eq_true, if_false]
        refine ⟨by simp [noPhantom, ih1], by simp [leavesOf, ih2], by simp [dirCount, ih3]; omega, by simp [synchronized], by simp⟩
      · simp only [if_true]
        refine ⟨by simp [noPhantom], by simp [leavesOf, hl], by simp [dirCount, hz], ?_, ?_⟩
        · simp [synchronized, ha, ← ih4, hc, hz]
        · intro _; exact ⟨by simp [leavesOf, hl], hz⟩
theorem reifyChildren_spec (path : Str) : ∀ (anc : Option Anc) (cs : List (Str × SEntry)),
    noPhantomChildren (reifyChildren anc cs).1 = true ∧
    leavesOfChildren path (reifyChildren anc cs).1 = leavesOfChildren path cs ∧
    (reifyChildren anc cs).2.2 = dirCountChildren (reifyChildren anc cs).1 ∧
    (reifyChildren anc cs).2.1 = anySynchronized anc cs ∧
    ((reifyChildren anc cs).2.1 = false → leavesOfChildren path cs = [] ∧ (reifyChildren anc cs).2.2 = 0)
  | anc, [] => by simp [reifyChildren, noPhantomChildren, leavesOfChildren, dirCountChildren, anySynchronized]
  | anc, (name, e) :: rest => by
    obtain ⟨a1, a2, a3, a4, a5⟩ := reify_spec (joinable path ++ name) (ancLookup anc name) e
    obtain ⟨b1, b2, b3, b4, b5⟩ := reifyChildren_spec path anc rest
    rw [reifyChildren_cons]
    refine ⟨by simp [noPhantomChildren, a1, b1], by simp [leavesOfChildren, a2, b2],
      by simp [dirCountChildren, a3, b3], by simp [anySynchronized, a4, b4], ?_⟩
    intro h
    simp only [Bool.or_eq_false_iff] at h
    obtain ⟨h1, h2⟩ := h
    obtain ⟨c1, c2⟩ := a5 h1
    obtain ⟨d1, d2⟩ := b5 h2
    exact ⟨by simp [leavesOfChildren, c1, d1], by simp [c2, d2]⟩
end

end Mutagen.Proofs.DockerWalk
