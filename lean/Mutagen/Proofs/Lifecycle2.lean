import Mutagen.Proofs.Lifecycle
/-!
Lifecycle invariants along steps and runs; endpoint events of client calls.
-/
namespace Mutagen.Proofs.Lifecycle
open Mutagen.Model.Lifecycle

theorem invA_call {s s' : State} {t : Nat} {op : Op} (h : doCall s t op = some s') (i : InvA s) : InvA s' := by
  unfold doCall at h
  split at h
  · simp at h
  · simp only [Option.some.injEq] at h
    subst h
    obtain ⟨i1, i2, i3, i4, i5, i6, i6', i7, i8⟩ := i
    refine ⟨i1, i2, i3, i4, i5, i6, i6', ?_, ?_⟩
    · intro th hth hph
      simp only [List.mem_append, List.mem_singleton] at hth
      rcases hth with hth | hth
      · exact i7 th hth hph
      · subst hth; simp [mkThread] at hph
    · intro th hth hph
      simp only [List.mem_append, List.mem_singleton] at hth
      rcases hth with hth | hth
      · exact i8 th hth hph
      · subst hth; simp [mkThread] at hph

theorem invA_step {s s' : State} {l : Label} (st : Step s l s') (i : InvA s) : InvA s' := by
  cases st with
  | call h => exact invA_call h i
  | internal h =>
    unfold succ at h
    rcases List.mem_append.mp h with h | h
    · cases hl : s.loop with
      | none => simp [hl] at h
      | some lp => simp only [hl] at h; exact invA_loop hl h i
    · obtain ⟨th, hth, h⟩ := List.mem_flatMap.mp h
      exact invA_thread hth h i

theorem invA_run {w : Bool} {tr : List Label} {s : State} (r : Run (init w) tr s) : InvA s := by
  generalize hs0 : init w = s0 at r
  induction r with
  | nil => subst hs0; exact invA_init w
  | snoc _ st ih => exact invA_step st ih

set_option maxHeartbeats 4000000 in
set_option maxRecDepth 10000 in
/-- Client calls make no endpoint calls except the connects of `resume`, `reset`
and `newSession`, made while holding the lifecycle lock in a connecting phase. -/
theorem threadSteps_endpoint {s : State} {th : Thread} {lab : Label} {s' : State}
    (h : (lab, s') ∈ threadSteps s th) (hep : lab.isEndpoint = true) :
    (∃ sd, lab = .ep (.conn sd)) ∧ ∃ t ph, s.crit = some (t, ph) ∧ ph ≠ .stopping := by
  unfold threadSteps at h
  split at h
  all_goals
    aesop (add norm simp [acquire, afterStop, finish, Label.isEndpoint])

set_option maxHeartbeats 8000000 in
set_option maxRecDepth 10000 in
/-- How a client call's step can change the persisted pause flag once it is set. -/
theorem threadSteps_sess {s : State} {th : Thread} {lab : Label} {s' : State}
    (h : (lab, s') ∈ threadSteps s th) (i : InvA s) (hp : s.sess = some true) :
    s'.sess = some true ∨
    ((th.op = .resume ∨ th.op = .reset) ∧ s'.sess = some false ∧ s'.crit = some (th.id, .connA false)) ∨
    (th.op = .terminate ∧ s'.sess = none ∧ s'.disabled = true) := by
  have hrun : s.running = false := by
    cases hr : s.running with
    | false => rfl
    | true => have := i.running_sess hr; rw [hp] at this; simp at this
  have hcr : ∀ t ph, s.crit = some (t, ph) → ph = .stopping := by
    intro t ph hc
    cases ph with
    | stopping => rfl
    | connA c =>
      obtain ⟨_, _, h1, h2⟩ := i.crit_conn t _ hc (by simp)
      cases c
      · have := (h1 (Or.inl rfl)).1; rw [hp] at this; simp at this
      · have := (h2 (Or.inl rfl)).1; rw [hp] at this; simp at this
    | connB c =>
      obtain ⟨_, _, h1, h2⟩ := i.crit_conn t _ hc (by simp)
      cases c
      · have := (h1 (Or.inr rfl)).1; rw [hp] at this; simp at this
      · have := (h2 (Or.inr rfl)).1; rw [hp] at this; simp at this
  clear i
  unfold threadSteps at h
  split at h
  · -- pending
    aesop (add norm simp [finish, State.setThread, othersIdle])
  · -- waitLock
    split at h
    · simp only [List.mem_map, Prod.mk.injEq] at h
      obtain ⟨s1, hs1, _, rfl⟩ := h
      unfold acquire at hs1
      aesop (add norm simp [finish, State.setThread, State.cancelLoop])
    · simp at h
  · -- inside
    cases hc : s.crit with
    | none => simp [hc] at h
    | some tp =>
      obtain ⟨t, ph⟩ := tp
      have := hcr t ph hc
      subst this
      simp only [hc] at h
      split at h
      · simp at h
      · split at h
        · simp only [List.mem_map, Prod.mk.injEq] at h
          obtain ⟨s1, hs1, _, rfl⟩ := h
          unfold afterStop at hs1
          aesop (add norm simp [finish, State.setThread])
        · simp at h
  · aesop (add norm simp [finish, State.setThread])
  · aesop (add norm simp [finish, State.setThread, State.startLoop, othersIdle])
  · aesop (add norm simp [finish, State.setThread])
  · aesop (add norm simp [finish, State.setThread])
  · aesop (add norm simp [finish, State.setThread, State.dropThread])

end Mutagen.Proofs.Lifecycle
