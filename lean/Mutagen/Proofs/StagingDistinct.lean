import Mutagen.Model.Staging
import Mutagen.Proofs.StagingCount
/-!
Distinct names within every directory of the abstract root: the invariant, its
preservation by the tree operations, and the freedom of a path after removal.
-/
namespace Mutagen.Proofs.Staging
open Mutagen.Model.Staging

mutual
/-- The names within every directory of the tree are distinct. -/
def dnT : Tree → Prop
  | .file _ => True
  | .dir cs => dnL cs
def dnL : Children → Prop
  | [] => True
  | (n, t) :: r => lookupC n r = none ∧ dnT t ∧ dnL r
end

/-- `DistinctNames root`: in the root and in every directory below it, names are distinct. -/
abbrev DistinctNames (root : Children) : Prop := dnL root

theorem dn_of_lookup {n : String} {cs : Children} {t : Tree} (h : dnL cs) (hl : lookupC n cs = some t) : dnT t := by
  induction cs with
  | nil => simp [lookupC] at hl
  | cons e r ih =>
    obtain ⟨m, u⟩ := e
    simp only [dnL] at h
    simp only [lookupC] at hl
    split at hl
    · simp only [Option.some.injEq] at hl; subst hl; exact h.2.1
    · exact ih h.2.2 hl

theorem lookup_erase_none {m n : String} {cs : Children} (h : lookupC m cs = none) : lookupC m (eraseC n cs) = none := by
  induction cs with
  | nil => simp [eraseC, lookupC]
  | cons e r ih =>
    obtain ⟨k, u⟩ := e
    simp only [lookupC] at h
    split at h
    · simp at h
    · rename_i hk
      simp only [eraseC]
      split
      · exact h
      · simp only [lookupC, hk, if_false]; exact ih h

theorem erase_lookup_self {n : String} {cs : Children} (h : dnL cs) : lookupC n (eraseC n cs) = none := by
  induction cs with
  | nil => simp [eraseC, lookupC]
  | cons e r ih =>
    obtain ⟨m, u⟩ := e
    simp only [dnL] at h
    simp only [eraseC]
    split
    · rename_i hm; rw [← hm]; exact h.1
    · rename_i hm
      simp only [lookupC, hm, if_false]
      exact ih h.2.2

theorem dn_erase {n : String} {cs : Children} (h : dnL cs) : dnL (eraseC n cs) := by
  induction cs with
  | nil => simp [eraseC, dnL]
  | cons e r ih =>
    obtain ⟨m, u⟩ := e
    simp only [dnL] at h
    simp only [eraseC]
    split
    · exact h.2.2
    · simp only [dnL]
      exact ⟨lookup_erase_none h.1, h.2.1, ih h.2.2⟩

theorem lookup_update_none {m n : String} {f : Tree → Tree} {cs : Children} (h : lookupC m cs = none) :
    lookupC m (updateC n f cs) = none := by
  induction cs with
  | nil => simp [updateC, lookupC]
  | cons e r ih =>
    obtain ⟨k, u⟩ := e
    simp only [lookupC] at h
    split at h
    · simp at h
    · rename_i hk
      simp only [updateC]
      split
      · simp only [lookupC, hk, if_false]; exact h
      · simp only [lookupC, hk, if_false]; exact ih h

theorem lookup_update_self {n : String} {f : Tree → Tree} {cs : Children} {u : Tree} (h : lookupC n cs = some u) :
    lookupC n (updateC n f cs) = some (f u) := by
  induction cs with
  | nil => simp [lookupC] at h
  | cons e r ih =>
    obtain ⟨k, v⟩ := e
    simp only [lookupC] at h
    simp only [updateC]
    split at h
    · rename_i hk
      simp only [Option.some.injEq] at h; subst h
      simp [hk, lookupC]
    · rename_i hk
      simp only [hk, if_false, lookupC]
      exact ih h

theorem dn_update {n : String} {f : Tree → Tree} {cs : Children} (h : dnL cs)
    (hf : ∀ u, lookupC n cs = some u → dnT (f u)) : dnL (updateC n f cs) := by
  induction cs with
  | nil => simp [updateC, dnL]
  | cons e r ih =>
    obtain ⟨m, u⟩ := e
    simp only [dnL] at h
    simp only [updateC]
    split
    · rename_i hm
      simp only [dnL]
      exact ⟨h.1, hf u (by simp [lookupC, hm]), h.2.2⟩
    · rename_i hm
      simp only [dnL]
      refine ⟨lookup_update_none h.1, h.2.1, ih h.2.2 ?_⟩
      intro v hv
      exact hf v (by simp only [lookupC, hm, if_false]; exact hv)

theorem lookup_insert_other {m n : String} {t : Tree} {cs : Children} (hmn : m ≠ n) (h : lookupC m cs = none) :
    lookupC m (insertC n t cs) = none := by
  have hnm : ¬ n = m := fun e => hmn e.symm
  induction cs with
  | nil => simp [insertC, lookupC, hnm]
  | cons e r ih =>
    obtain ⟨k, u⟩ := e
    simp only [lookupC] at h
    split at h
    · simp at h
    · rename_i hk
      simp only [insertC]
      split
      · simp only [lookupC, hnm, if_false]; exact h
      · split
        · simp only [lookupC, hnm, hk, if_false]; exact h
        · simp only [lookupC, hk, if_false]; exact ih h

theorem dn_insert {n : String} {t : Tree} {cs : Children} (h : dnL cs) (hn : lookupC n cs = none) (ht : dnT t) :
    dnL (insertC n t cs) := by
  induction cs with
  | nil => simp [insertC, dnL, lookupC, ht]
  | cons e r ih =>
    obtain ⟨m, u⟩ := e
    simp only [dnL] at h
    simp only [lookupC] at hn
    split at hn
    · simp at hn
    · rename_i hm
      simp only [insertC, hm, if_false]
      split
      · simp only [dnL]
        exact ⟨by simp only [lookupC, hm, if_false]; exact hn, ht, h.1, h.2.1, h.2.2⟩
      · simp only [dnL]
        exact ⟨lookup_insert_other hm h.1, h.2.1, ih h.2.2 hn⟩

theorem dn_removeAt : ∀ (path : List String) (cs : Children), dnL cs → dnL (removeAt cs path)
  | [], cs, h => by simpa [removeAt] using h
  | [n], cs, h => by simp only [removeAt]; exact dn_erase h
  | n :: m :: rest, cs, h => by
    simp only [removeAt]
    cases hl : lookupC n cs with
    | none => simpa using h
    | some u =>
      cases u with
      | file k => simpa using h
      | dir cs' =>
        simp only
        apply dn_update h
        intro v hv
        rw [hl] at hv
        simp only [Option.some.injEq] at hv
        subst hv
        simp only [dnT]
        exact dn_removeAt (m :: rest) cs' (dn_of_lookup h hl)

theorem dn_insertAt (t : Tree) (ht : dnT t) : ∀ (path : List String) (cs : Children), dnL cs → dnL (insertAt t cs path)
  | [], cs, h => by simpa [insertAt] using h
  | [n], cs, h => by
    simp only [insertAt]
    cases hl : lookupC n cs with
    | none => exact dn_insert h hl ht
    | some u => exact dn_update h (fun _ _ => ht)
  | n :: m :: rest, cs, h => by
    simp only [insertAt]
    cases hl : lookupC n cs with
    | none => simpa using h
    | some u =>
      cases u with
      | file k => simpa using h
      | dir cs' =>
        simp only
        apply dn_update h
        intro v hv
        rw [hl] at hv
        simp only [Option.some.injEq] at hv
        subst hv
        simp only [dnT]
        exact dn_insertAt t ht (m :: rest) cs' (dn_of_lookup h hl)

/-- **With distinct names, removing the entry at a path frees the path.** -/
theorem subtree_removeAt_none : ∀ (path : List String) (cs : Children), dnL cs →
    subtree (removeAt cs path) path = none
  | [], cs, _ => by simp [subtree]
  | [n], cs, h => by
    simp only [removeAt, subtree]
    exact erase_lookup_self h
  | n :: m :: rest, cs, h => by
    simp only [removeAt]
    cases hl : lookupC n cs with
    | none => simp [subtree, hl]
    | some u =>
      cases u with
      | file k => simp [subtree, hl]
      | dir cs' =>
        simp only [subtree]
        rw [lookup_update_self hl]
        exact subtree_removeAt_none (m :: rest) cs' (dn_of_lookup h hl)

theorem pathFree_of_distinct (root : Children) (t : Change) (h : DistinctNames root) : PathFree root t :=
  fun _ _ => subtree_removeAt_none _ _ h

mutual
theorem dn_createTree (store : Option (List (String × Nat))) : ∀ (p : String) (t : Tree), dnT t →
    ∀ c, (createTree store p t).1 = some c → dnT c
  | p, .file k, _, c, hc => by
    simp only [createTree] at hc
    cases store with
    | none => simp at hc
    | some st =>
      simp only at hc
      split at hc
      · simp only [Option.some.injEq] at hc; subst hc; simp [dnT]
      · simp at hc
  | p, .dir cs, h, c, hc => by
    simp only [createTree, Option.some.injEq] at hc
    subst hc
    simp only [dnT] at h ⊢
    exact (dn_createL store p cs h).1
theorem dn_createL (store : Option (List (String × Nat))) : ∀ (p : String) (cs : Children), dnL cs →
    dnL (createL store p cs).1 ∧ ∀ m, lookupC m cs = none → lookupC m (createL store p cs).1 = none
  | p, [], _ => by simp [createL, dnL, lookupC]
  | p, (n, t) :: r, h => by
    simp only [dnL] at h
    obtain ⟨ih1, ih2⟩ := dn_createL store p r h.2.2
    simp only [createL]
    cases hc : (createTree store (joinPath p n) t).1 with
    | none =>
      simp only
      refine ⟨ih1, ?_⟩
      intro m hm
      simp only [lookupC] at hm
      split at hm
      · simp at hm
      · exact ih2 m hm
    | some c =>
      simp only
      refine ⟨?_, ?_⟩
      · simp only [dnL]
        exact ⟨ih2 n h.1, dn_createTree store (joinPath p n) t h.2.1 c hc, ih1⟩
      · intro m hm
        simp only [lookupC] at hm ⊢
        split at hm
        · simp at hm
        · rename_i hk
          simp only [hk, if_false]
          exact ih2 m hm
end

/-- The creation half keeps names distinct. -/
theorem dn_create_half (store : Option (List (String × Nat))) (root1 : Children) (path : String) (n : Tree)
    (h1 : dnL root1) (hn : dnT n) :
    (parentIsDir root1 (splitPath path) = false) ∨
    (parentIsDir root1 (splitPath path) = true ∧ (createTree store path n).fst = none) ∨
    (∃ c, parentIsDir root1 (splitPath path) = true ∧ (createTree store path n).fst = some c ∧
      dnL (insertAt c root1 (splitPath path))) := by
  by_cases hp : parentIsDir root1 (splitPath path) = true
  · cases hc : (createTree store path n).fst with
    | none => exact Or.inr (Or.inl ⟨hp, rfl⟩)
    | some c =>
      exact Or.inr (Or.inr ⟨c, hp, rfl, dn_insertAt c (dn_createTree store path n hn c hc) _ _ h1⟩)
  · left; simpa using hp

/-- A transition keeps the names within every directory of the root distinct
(the new entry has distinct names: entries are maps). -/
theorem dn_applyChange (store : Option (List (String × Nat))) (root : Children) (t : Change)
    (h : dnL root) (hnew : ∀ n, t.new = some n → dnT n) : dnL (applyChange store root t).1 := by
  have hrem : dnL (removeAt root (splitPath t.path)) := dn_removeAt _ _ h
  cases hold : t.old with
  | none =>
    cases hn : t.new with
    | none =>
      simp only [applyChange, hold, hn]
      split <;> exact h
    | some n =>
      simp only [applyChange, hold, hn]
      by_cases hq : oeq (subtree root (splitPath t.path)) none = true
      · rw [if_pos hq]
        rcases dn_create_half store root t.path n h (hnew n hn) with h1 | ⟨h1, h2⟩ | ⟨c, h1, h2, h3⟩
        · simp [h1]; exact h
        · simp [h1, h2]; exact h
        · simp [h1, h2]; exact h3
      · rw [if_neg hq]; exact h
  | some o =>
    cases hn : t.new with
    | none =>
      simp only [applyChange, hold, hn]
      split
      · exact hrem
      · exact h
    | some n =>
      have hdn := hnew n hn
      cases o with
      | file ko =>
        cases n with
        | file kn =>
          simp only [applyChange, hold, hn]
          split
          · split
            · exact h
            · cases store with
              | none => exact h
              | some st =>
                simp only
                split
                · exact dn_insertAt _ (by simp [dnT]) _ _ h
                · exact h
          · exact h
        | dir cn =>
          simp only [applyChange, hold, hn]
          by_cases hq : oeq (subtree root (splitPath t.path)) (some (Tree.file ko)) = true
          · rw [if_pos hq]
            rcases dn_create_half store (removeAt root (splitPath t.path)) t.path (Tree.dir cn) hrem hdn with h1 | ⟨h1, h2⟩ | ⟨c, h1, h2, h3⟩
            · simp [h1]; exact hrem
            · simp [h1, h2]; exact hrem
            · simp [h1, h2]; exact h3
          · rw [if_neg hq]; exact h
      | dir co =>
        cases n with
        | file kn =>
          simp only [applyChange, hold, hn]
          by_cases hq : oeq (subtree root (splitPath t.path)) (some (Tree.dir co)) = true
          · rw [if_pos hq]
            rcases dn_create_half store (removeAt root (splitPath t.path)) t.path (Tree.file kn) hrem hdn with h1 | ⟨h1, h2⟩ | ⟨c, h1, h2, h3⟩
            · simp [h1]; exact hrem
            · simp [h1, h2]; exact hrem
            · simp [h1, h2]; exact h3
          · rw [if_neg hq]; exact h
        | dir cn =>
          simp only [applyChange, hold, hn]
          by_cases hq : oeq (subtree root (splitPath t.path)) (some (Tree.dir co)) = true
          · rw [if_pos hq]
            rcases dn_create_half store (removeAt root (splitPath t.path)) t.path (Tree.dir cn) hrem hdn with h1 | ⟨h1, h2⟩ | ⟨c, h1, h2, h3⟩
            · simp [h1]; exact hrem
            · simp [h1, h2]; exact hrem
            · simp [h1, h2]; exact h3
          · rw [if_neg hq]; exact h

/-- Every transition of the plan yields its new entry (on the evolving root). -/
def AppliedRes (store : Option (List (String × Nat))) : Children → List Change → Prop
  | _, [] => True
  | root, t :: rest =>
    oeq (applyChange store root t).2.1 t.new = true ∧ AppliedRes store (applyChange store root t).1 rest

/-- The new entries of the plan have distinct names in every directory (in the
code they are maps). -/
def NewDistinct (ts : List Change) : Prop := ∀ t ∈ ts, ∀ n, t.new = some n → dnT n

/-- On a root with distinct names, a plan whose transitions all yield their new
entries is `Applied`: the side condition `PathFree` holds at every step. -/
theorem applied_of_distinct (store : Option (List (String × Nat))) (root : Children) (ts : List Change)
    (h : DistinctNames root) (hn : NewDistinct ts) (ha : AppliedRes store root ts) : Applied store root ts := by
  induction ts generalizing root with
  | nil => trivial
  | cons t rest ih =>
    obtain ⟨h1, h2⟩ := ha
    refine ⟨h1, pathFree_of_distinct root t h, ?_⟩
    apply ih
    · exact dn_applyChange store root t h (fun n hnn => hn t List.mem_cons_self n hnn)
    · intro t' ht' n hnn
      exact hn t' (List.mem_cons_of_mem _ ht') n hnn
    · exact h2

theorem dn_applyAll (store : Option (List (String × Nat))) (root : Children) (ts : List Change)
    (h : DistinctNames root) (hn : NewDistinct ts) : DistinctNames (applyAll store root ts).1 := by
  induction ts generalizing root with
  | nil => simpa [applyAll] using h
  | cons t rest ih =>
    rw [applyAll_root]
    apply ih
    · exact dn_applyChange store root t h (fun n hnn => hn t List.mem_cons_self n hnn)
    · intro t' ht' n hnn
      exact hn t' (List.mem_cons_of_mem _ ht') n hnn

end Mutagen.Proofs.Staging
