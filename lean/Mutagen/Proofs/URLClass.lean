import Mutagen.Proofs.URLStrings
/-!
Lemmas about URL classification (`isDockerURL`, `isSCPSSHURL`) and
`forwarding.Parse` (core Lean only).
-/
namespace Mutagen.Proofs.URL
open Mutagen.Model.URL

/-! ## The Docker prefix -/

theorem dockerURLPrefix_eq : dockerURLPrefix = ['d', 'o', 'c', 'k', 'e', 'r', ':', '/', '/'] := by decide

theorem dockerURLPrefix_length : dockerURLPrefix.length = 9 := by simp [dockerURLPrefix_eq]

theorem lhp_cons (c : Char) (cs : Str) (p : Char) (ps : Str) :
    lowerHasPrefix (c :: cs) (p :: ps) =
      (if matchesLower c p then lowerHasPrefix cs ps
       else if p == 'k' && c == Char.ofNat 0xE2 then
         match kelvinTail cs with
         | some cs' => lowerHasPrefix cs' ps
         | none => false
       else false) := by
  rw [lowerHasPrefix]; rfl

theorem lhp_nil (s : Str) : lowerHasPrefix s [] = true := by
  rw [lowerHasPrefix]

theorem lhp_nil_cons (p : Char) (ps : Str) : lowerHasPrefix [] (p :: ps) = false := by
  rw [lowerHasPrefix]

theorem kelvinTail_some {cs cs' : Str} (h : kelvinTail cs = some cs') :
    cs = Char.ofNat 0x84 :: Char.ofNat 0xAA :: cs' := by
  cases cs with
  | nil => simp [kelvinTail] at h
  | cons c1 r =>
    cases r with
    | nil => simp [kelvinTail] at h
    | cons c2 r2 =>
      simp [kelvinTail] at h
      obtain ⟨⟨h1, h2⟩, h3⟩ := h
      simp [h1, h2, h3]

/-- A text that starts with the literal prefix is a Docker URL. -/
theorem isDockerURL_prefix (rest : Str) : isDockerURL (dockerURLPrefix ++ rest) = true := by
  simp [isDockerURL, dockerURLPrefix_eq, lhp_cons, lhp_nil, matchesLower]

/-- Matching a pattern part that cannot match a colon consumes text without a colon. -/
theorem lowerHasPrefix_split (p1 q : Str) (hp : ∀ p ∈ p1, matchesLower ':' p = false) :
    ∀ s, lowerHasPrefix s (p1 ++ q) = true → ∃ h r, s = h ++ r ∧ ':' ∉ h ∧ lowerHasPrefix r q = true := by
  induction p1 with
  | nil => intro s hs; exact ⟨[], s, by simp, by simp, by simpa using hs⟩
  | cons p ps ih =>
    intro s hs
    have hp0 : matchesLower ':' p = false := hp p (by simp)
    have hps : ∀ p' ∈ ps, matchesLower ':' p' = false := fun p' h' => hp p' (by simp [h'])
    cases s with
    | nil => simp [lhp_nil_cons] at hs
    | cons c cs =>
      rw [List.cons_append, lhp_cons] at hs
      by_cases hm : matchesLower c p = true
      · rw [if_pos hm] at hs
        obtain ⟨h, r, e, hc, hr⟩ := ih hps cs hs
        refine ⟨c :: h, r, by simp [e], ?_, hr⟩
        intro hmem
        simp at hmem
        rcases hmem with hmem | hmem
        · rw [← hmem] at hm; rw [hp0] at hm; exact Bool.noConfusion hm
        · exact hc hmem
      · rw [if_neg hm] at hs
        by_cases hk : (p == 'k' && c == Char.ofNat 0xE2) = true
        · rw [if_pos hk] at hs
          cases ht : kelvinTail cs with
          | none => simp [ht] at hs
          | some cs' =>
            simp only [ht] at hs
            have ecs := kelvinTail_some ht
            obtain ⟨h, r, e, hcol, hr⟩ := ih hps cs' hs
            have hc : c = Char.ofNat 0xE2 := by simp at hk; exact hk.2
            refine ⟨c :: Char.ofNat 0x84 :: Char.ofNat 0xAA :: h, r, by simp [ecs, e], ?_, hr⟩
            intro hmem
            have h84 : (':' : Char) ≠ Char.ofNat 0x84 := by decide
            have hAA : (':' : Char) ≠ Char.ofNat 0xAA := by decide
            have hE2 : (':' : Char) ≠ Char.ofNat 0xE2 := by decide
            rw [hc] at hmem
            simp only [List.mem_cons] at hmem
            rcases hmem with hmem | hmem | hmem | hmem
            · exact hE2 hmem
            · exact h84 hmem
            · exact hAA hmem
            · exact hcol hmem
        · rw [if_neg hk] at hs
          exact Bool.noConfusion hs

/-- Matching `://` against a text means the text starts with `://`. -/
theorem lowerHasPrefix_colon_slashes {r : Str} (h : lowerHasPrefix r [':', '/', '/'] = true) :
    ∃ rest, r = ':' :: '/' :: '/' :: rest := by
  cases r with
  | nil => simp [lhp_nil_cons] at h
  | cons a r1 =>
    cases r1 with
    | nil => simp [lhp_cons, lhp_nil_cons, matchesLower] at h
    | cons b r2 =>
      cases r2 with
      | nil => simp [lhp_cons, lhp_nil_cons, matchesLower] at h
      | cons c r3 =>
        simp [lhp_cons, lhp_nil, matchesLower] at h
        obtain ⟨rfl, rfl, rfl⟩ := h
        exact ⟨r3, rfl⟩

/-- A Docker URL has the shape `<no colon>://…`. -/
theorem isDockerURL_shape {s : Str} (h : isDockerURL s = true) :
    ∃ hd rest, s = hd ++ ':' :: '/' :: '/' :: rest ∧ ':' ∉ hd := by
  unfold isDockerURL at h
  rw [dockerURLPrefix_eq] at h
  have := lowerHasPrefix_split ['d', 'o', 'c', 'k', 'e', 'r'] [':', '/', '/'] (by decide) s (by simpa using h)
  obtain ⟨hd, r, e, hc, hr⟩ := this
  obtain ⟨rest, rfl⟩ := lowerHasPrefix_colon_slashes hr
  exact ⟨hd, rest, e, hc⟩

/-- `<no colon>:<not a slash>…` is not a Docker URL. -/
theorem not_isDockerURL_of_colon (t : Str) (d : Char) (x : Str) (ht : ':' ∉ t) (hd : d ≠ '/') :
    isDockerURL (t ++ ':' :: d :: x) = false := by
  cases h : isDockerURL (t ++ ':' :: d :: x) with
  | false => rfl
  | true =>
    obtain ⟨hd', rest, e, hc⟩ := isDockerURL_shape h
    have := (first_split_unique ht hc e).2
    simp at this
    exact absurd this.1 hd

/-- A text that starts with a slash is not a Docker URL. -/
theorem not_isDockerURL_slash (x : Str) : isDockerURL ('/' :: x) = false := by
  simp [isDockerURL, dockerURLPrefix_eq, lhp_cons, matchesLower]

/-! ## colonBeforeSlash -/

/-- Whether a colon comes before any slash depends only on the text up to the first colon. -/
theorem colonBeforeSlash_append (t x y : Str) :
    colonBeforeSlash (t ++ ':' :: x) = colonBeforeSlash (t ++ ':' :: y) := by
  induction t with
  | nil => simp [colonBeforeSlash]
  | cons c cs ih =>
    by_cases h1 : c = ':'
    · simp [colonBeforeSlash, h1]
    · by_cases h2 : c = '/'
      · simp [colonBeforeSlash, h2]
      · simp [colonBeforeSlash, h1, h2, ih]

/-! ## forwarding.Parse -/

theorem fwdParse_ok {s proto addr : Str} (h : fwdParse s = .ok (proto, addr)) :
    s = proto ++ ':' :: addr ∧ ':' ∉ proto ∧ isValidProtocol proto = true ∧ addr ≠ [] := by
  unfold fwdParse at h
  by_cases h0 : s = []
  · simp [h0] at h
  · simp only [h0, if_false] at h
    cases hs : splitAt ':' s with
    | none => simp [hs] at h
    | some p =>
      obtain ⟨a, b⟩ := p
      simp only [hs] at h
      by_cases hv : isValidProtocol a = true
      · by_cases hb : b = []
        · simp [hv, hb] at h
        · simp [hv, hb] at h
          obtain ⟨rfl, rfl⟩ := h
          obtain ⟨e, hc⟩ := splitAt_some hs
          exact ⟨e, hc, hv, hb⟩
      · simp [hv] at h

theorem fwdParse_append (proto addr : Str) (hc : ':' ∉ proto) (hv : isValidProtocol proto = true) (ha : addr ≠ []) :
    fwdParse (proto ++ ':' :: addr) = .ok (proto, addr) := by
  simp [fwdParse, splitAt_append ':' proto addr hc, hv, ha]

/-- With an invalid protocol in front of the first colon, parsing fails whatever follows. -/
theorem fwdParse_invalid_protocol (t x : Str) (hc : ':' ∉ t) (hv : isValidProtocol t = false) :
    ∃ e, fwdParse (t ++ ':' :: x) = .error e := by
  simp [fwdParse, splitAt_append ':' t x hc, hv]

/-- If `t:x` (non-empty `x`) does not parse, then `t` is not a valid protocol name. -/
theorem invalid_protocol_of_error {t x : Str} {e : FwdErr} (hc : ':' ∉ t) (hx : x ≠ [])
    (h : fwdParse (t ++ ':' :: x) = .error e) : isValidProtocol t = false := by
  cases hv : isValidProtocol t with
  | false => rfl
  | true => rw [fwdParse_append t x hc hv hx] at h; cases h

theorem isValidProtocol_unix : isValidProtocol "unix".toList = true := by decide

end Mutagen.Proofs.URL
