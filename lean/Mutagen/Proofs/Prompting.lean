import Mutagen.Model.Prompting
/-!
Helper lemmas for C32 (core Lean only): the suffix test, and the inductive
invariant of the registry interleaving model.
-/
namespace Mutagen.Model.Prompting

/-! ## response mode -/

theorem hasSuffix_iff (s suffix : Bytes) : hasSuffix s suffix = true ↔ suffix <:+ s := by
  unfold hasSuffix
  simp only [ge_iff_le, Bool.decide_and, Bool.and_eq_true, decide_eq_true_eq]
  constructor
  · rintro ⟨_, h2⟩
    have := List.take_append_drop (s.length - suffix.length) s
    rw [h2] at this
    exact ⟨_, this⟩
  · rintro ⟨t, rfl⟩
    refine ⟨by simp, ?_⟩
    simp

theorem responseLoop_echo (prompt : Bytes) (suffixes : List Bytes) :
    responseLoop prompt suffixes = .echo ↔ ∃ s ∈ suffixes, s <:+ prompt := by
  induction suffixes with
  | nil => simp [responseLoop]
  | cons x xs ih =>
    simp only [responseLoop]
    by_cases h : hasSuffix prompt x = true
    · rw [if_pos h]
      simp only [List.mem_cons, true_iff]
      exact ⟨x, Or.inl rfl, (hasSuffix_iff _ _).mp h⟩
    · rw [if_neg h, ih]
      simp only [List.mem_cons]
      constructor
      · rintro ⟨s, hs, hp⟩; exact ⟨s, Or.inr hs, hp⟩
      · rintro ⟨s, rfl | hs, hp⟩
        · exact absurd ((hasSuffix_iff _ _).mpr hp) h
        · exact ⟨s, hs, hp⟩

theorem responseLoop_cases (prompt : Bytes) (suffixes : List Bytes) :
    responseLoop prompt suffixes = .echo ∨ responseLoop prompt suffixes = .secret := by
  induction suffixes with
  | nil => right; rfl
  | cons x xs ih =>
    simp only [responseLoop]
    split
    · left; rfl
    · exact ih

/-! ## registry invariant -/

/-- Thread `th` currently holds the prompter of holder `h`. -/
def Owns (th : Thread) (h : Nat) : Prop :=
  th.holder = some h ∧ (th.pc = .holding ∨ th.pc = .calling ∨ th.pc = .returning ∨ th.pc = .uclose)

/-- Thread `th` is in the middle of unregistering holder `h`. -/
def Unregs (th : Thread) (h : Nat) : Prop :=
  th.holder = some h ∧ (th.pc = .urecv ∨ th.pc = .uclose)

def Registered (s : State) (h : Nat) : Prop := ∃ id, (id, h) ∈ s.registry

def IsCall (op : Op) : Prop := ∃ id p f, op = .call id p f
def IsUnreg (op : Op) : Prop := ∃ id, op = .unreg id

/-- Per-thread well-formedness relative to the holders. -/
structure ThreadOK (holders : List Holder) (th : Thread) : Prop where
  holderLt : ∀ h, th.holder = some h → h < holders.length
  pcCall : (th.pc = .recv ∨ th.pc = .holding ∨ th.pc = .calling ∨ th.pc = .returning) → IsCall th.op
  pcUnreg : (th.pc = .urecv ∨ th.pc = .uclose) → IsUnreg th.op
  resNone : th.pc ≠ .finished → th.pc ≠ .done → th.res = none
  unregDone : IsUnreg th.op → th.res = some .ok →
    ∃ h hd, th.holder = some h ∧ holders[h]? = some hd ∧ hd.closed = true

structure Inv (s : State) : Prop where
  crashed : s.crashed = false
  threadOK : ∀ (t : Nat) th, s.threads[t]? = some th → ThreadOK s.holders th
  regLt : ∀ id h, (id, h) ∈ s.registry → h < s.holders.length
  regFun : ∀ id h1 h2, (id, h1) ∈ s.registry → (id, h2) ∈ s.registry → h1 = h2
  regInj : ∀ id1 id2 h, (id1, h) ∈ s.registry → (id2, h) ∈ s.registry → id1 = id2
  ownUniq : ∀ (t1 t2 : Nat) th1 th2 h, s.threads[t1]? = some th1 → s.threads[t2]? = some th2 →
    Owns th1 h → Owns th2 h → t1 = t2
  ownExcl : ∀ (t : Nat) th (h : Nat) hd, s.threads[t]? = some th → Owns th h → s.holders[h]? = some hd →
    hd.token = false ∧ hd.closed = false
  closedTok : ∀ (h : Nat) hd, s.holders[h]? = some hd → hd.closed = true → hd.token = false
  unregUniq : ∀ (t1 t2 : Nat) th1 th2 h, s.threads[t1]? = some th1 → s.threads[t2]? = some th2 →
    Unregs th1 h → Unregs th2 h → t1 = t2
  unregExcl : ∀ (t : Nat) th (h : Nat), s.threads[t]? = some th → Unregs th h →
    ¬ Registered s h ∧ ∀ hd, s.holders[h]? = some hd → hd.closed = false
  closedReg : ∀ (h : Nat) hd, s.holders[h]? = some hd → hd.closed = true → ¬ Registered s h

theorem lookup_some {reg : List (Id × Nat)} {id : Id} {h : Nat} (hl : reg.lookup id = some h) :
    (id, h) ∈ reg := by
  induction reg with
  | nil => simp at hl
  | cons e rest ih =>
    obtain ⟨k, v⟩ := e
    simp only [List.lookup_cons] at hl
    split at hl
    · rename_i heq
      simp only [beq_iff_eq] at heq
      cases hl
      subst heq
      simp
    · exact List.mem_cons_of_mem _ (ih hl)

theorem lookup_none {reg : List (Id × Nat)} {id : Id} (hl : reg.lookup id = none) :
    ∀ h, (id, h) ∉ reg := by
  induction reg with
  | nil => simp
  | cons e rest ih =>
    obtain ⟨k, v⟩ := e
    simp only [List.lookup_cons] at hl
    split at hl
    · cases hl
    · rename_i hne
      intro h hm
      simp only [List.mem_cons, Prod.mk.injEq] at hm
      rcases hm with ⟨rfl, _⟩ | hm
      · simp at hne
      · exact ih hl h hm

theorem threads_set_some {threads : List Thread} {t t' : Nat} {th th' x : Thread}
    (ht : threads[t]? = some th) (hx : (threads.set t th')[t']? = some x) :
    (t' = t ∧ x = th') ∨ (t' ≠ t ∧ threads[t']? = some x) := by
  rw [List.getElem?_set] at hx
  by_cases h : t = t'
  · subst h
    have hlt : t < threads.length := by
      rcases List.getElem?_eq_some_iff.mp ht with ⟨hlt, _⟩; exact hlt
    simp only [if_true, hlt] at hx
    cases hx
    exact Or.inl ⟨rfl, rfl⟩
  · simp only [h, if_false] at hx
    exact Or.inr ⟨fun e => h e.symm, hx⟩

theorem holders_set_some {holders : List Holder} {h h' : Nat} {hd hd' x : Holder}
    (hh : holders[h]? = some hd) (hx : (holders.set h hd')[h']? = some x) :
    (h' = h ∧ x = hd') ∨ (h' ≠ h ∧ holders[h']? = some x) := by
  rw [List.getElem?_set] at hx
  by_cases e : h = h'
  · subst e
    have hlt : h < holders.length := by
      rcases List.getElem?_eq_some_iff.mp hh with ⟨hlt, _⟩; exact hlt
    simp only [if_true, hlt] at hx
    cases hx
    exact Or.inl ⟨rfl, rfl⟩
  · simp only [e, if_false] at hx
    exact Or.inr ⟨fun e' => e e'.symm, hx⟩

/-- A step that only rewrites thread `t`, without giving it new ownership,
preserves the invariant. -/
theorem Inv.updateThread {s s' : State} {t : Nat} {th th' : Thread} (hinv : Inv s)
    (ht : s.threads[t]? = some th)
    (hthreads : s'.threads = s.threads.set t th') (hreg : s'.registry = s.registry)
    (hholders : s'.holders = s.holders) (hcr : s'.crashed = false)
    (hok : ThreadOK s.holders th')
    (hown : ∀ h, Owns th' h → Owns th h)
    (hunreg : ∀ h, Unregs th' h → Unregs th h) : Inv s' := by
  have back : ∀ (t' : Nat) x, s'.threads[t']? = some x →
      ∃ y, s.threads[t']? = some y ∧ (∀ h, Owns x h → Owns y h) ∧ (∀ h, Unregs x h → Unregs y h) := by
    intro t' x hx
    rw [hthreads] at hx
    rcases threads_set_some ht hx with ⟨rfl, rfl⟩ | ⟨hne, hx'⟩
    · exact ⟨th, ht, hown, hunreg⟩
    · exact ⟨x, hx', fun _ h => h, fun _ h => h⟩
  have hregd : ∀ h, Registered s' h ↔ Registered s h := by
    intro h; unfold Registered; rw [hreg]
  refine ⟨hcr, ?_, ?_, ?_, ?_, ?_, ?_, ?_, ?_, ?_, ?_⟩
  · intro t' x hx
    rw [hholders]
    rw [hthreads] at hx
    rcases threads_set_some ht hx with ⟨rfl, rfl⟩ | ⟨hne, hx'⟩
    · exact hok
    · exact hinv.threadOK t' x hx'
  · intro id h hm; rw [hreg] at hm; rw [hholders]; exact hinv.regLt id h hm
  · intro id h1 h2 m1 m2; rw [hreg] at m1 m2; exact hinv.regFun id h1 h2 m1 m2
  · intro id1 id2 h m1 m2; rw [hreg] at m1 m2; exact hinv.regInj id1 id2 h m1 m2
  · intro t1 t2 x1 x2 h hx1 hx2 o1 o2
    obtain ⟨y1, hy1, b1, _⟩ := back t1 x1 hx1
    obtain ⟨y2, hy2, b2, _⟩ := back t2 x2 hx2
    exact hinv.ownUniq t1 t2 y1 y2 h hy1 hy2 (b1 h o1) (b2 h o2)
  · intro t' x h hd hx o hh
    obtain ⟨y, hy, b, _⟩ := back t' x hx
    rw [hholders] at hh
    exact hinv.ownExcl t' y h hd hy (b h o) hh
  · intro h hd hh hc; rw [hholders] at hh; exact hinv.closedTok h hd hh hc
  · intro t1 t2 x1 x2 h hx1 hx2 o1 o2
    obtain ⟨y1, hy1, _, b1⟩ := back t1 x1 hx1
    obtain ⟨y2, hy2, _, b2⟩ := back t2 x2 hx2
    exact hinv.unregUniq t1 t2 y1 y2 h hy1 hy2 (b1 h o1) (b2 h o2)
  · intro t' x h hx o
    obtain ⟨y, hy, _, b⟩ := back t' x hx
    have := hinv.unregExcl t' y h hy (b h o)
    rw [hregd, hholders]
    exact this
  · intro h hd hh hc
    rw [hholders] at hh
    rw [hregd]
    exact hinv.closedReg h hd hh hc

/-- Changing only the program counter between two non-owning, non-unregistering
positions (or between owning positions) keeps `ThreadOK` when the `pc`
obligations are met. -/
theorem ThreadOK.withPc {holders : List Holder} {th : Thread} (hok : ThreadOK holders th) (pc : Pc)
    (hcall : (pc = .recv ∨ pc = .holding ∨ pc = .calling ∨ pc = .returning) → IsCall th.op)
    (hunreg : (pc = .urecv ∨ pc = .uclose) → IsUnreg th.op)
    (hres : pc ≠ .finished → pc ≠ .done → th.res = none) :
    ThreadOK holders { th with pc := pc } :=
  ⟨hok.holderLt, hcall, hunreg, hres, hok.unregDone⟩

theorem Inv.obs {s s' : State} {e : Event} (hinv : Inv s) (h : obs s e = some s') : Inv s' := by
  cases e with
  | invoke t =>
    simp only [Mutagen.Model.Prompting.obs] at h
    split at h
    · rename_i th ht
      split at h
      · rename_i hpc
        cases h
        have hok := hinv.threadOK t th ht
        refine hinv.updateThread ht rfl rfl rfl hinv.crashed
          (hok.withPc .start (by simp) (by simp) (fun _ _ => hok.resNone (by simp [hpc]) (by simp [hpc]))) ?_ ?_
        · intro h' ⟨_, hp⟩; simp at hp
        · intro h' ⟨_, hp⟩; simp at hp
      · cases h
    · cases h
  | callStart t =>
    simp only [Mutagen.Model.Prompting.obs] at h
    split at h
    · rename_i th ht
      split at h
      · rename_i hpc
        cases h
        have hok := hinv.threadOK t th ht
        refine hinv.updateThread ht rfl rfl rfl hinv.crashed
          (hok.withPc .calling (fun _ => hok.pcCall (by simp [hpc])) (by simp)
            (fun _ _ => hok.resNone (by simp [hpc]) (by simp [hpc]))) ?_ ?_
        · intro h' ⟨hh, _⟩; exact ⟨hh, by simp [hpc]⟩
        · intro h' ⟨_, hp⟩; simp at hp
      · cases h
    · cases h
  | callEnd t =>
    simp only [Mutagen.Model.Prompting.obs] at h
    split at h
    · rename_i th ht
      split at h
      · rename_i hpc
        cases h
        have hok := hinv.threadOK t th ht
        refine hinv.updateThread ht rfl rfl rfl hinv.crashed
          (hok.withPc .returning (fun _ => hok.pcCall (by simp [hpc])) (by simp)
            (fun _ _ => hok.resNone (by simp [hpc]) (by simp [hpc]))) ?_ ?_
        · intro h' ⟨hh, _⟩; exact ⟨hh, by simp [hpc]⟩
        · intro h' ⟨_, hp⟩; simp at hp
      · cases h
    · cases h
  | ret t r =>
    simp only [Mutagen.Model.Prompting.obs] at h
    split at h
    · rename_i th ht
      split at h
      · cases h
        refine hinv.updateThread ht rfl rfl rfl hinv.crashed
          ((hinv.threadOK t th ht).withPc .done (by simp) (by simp) (by simp)) ?_ ?_
        · intro h' ⟨_, hp⟩; simp at hp
        · intro h' ⟨_, hp⟩; simp at hp
      · cases h
    · cases h

theorem ThreadOK.mono {holders : List Holder} {th : Thread} (extra : List Holder)
    (hok : ThreadOK holders th) : ThreadOK (holders ++ extra) th := by
  refine ⟨?_, hok.pcCall, hok.pcUnreg, hok.resNone, ?_⟩
  · intro h hh
    have := hok.holderLt h hh
    simp only [List.length_append]; omega
  · intro hu hr
    obtain ⟨h, hd, h1, h2, h3⟩ := hok.unregDone hu hr
    refine ⟨h, hd, h1, ?_, h3⟩
    rw [List.getElem?_append_left (by
      rcases List.getElem?_eq_some_iff.mp h2 with ⟨hlt, _⟩; exact hlt)]
    exact h2

/-- A thread that finishes without having owned anything. -/
theorem Inv.finishStep {s s' : State} {t : Nat} {th : Thread} {r : Res} (hinv : Inv s)
    (ht : s.threads[t]? = some th)
    (hthreads : s'.threads = s.threads.set t (finish th r)) (hreg : s'.registry = s.registry)
    (hholders : s'.holders = s.holders) (hcr : s'.crashed = false)
    (hres : IsUnreg th.op → r ≠ .ok) : Inv s' := by
  have hok := hinv.threadOK t th ht
  refine hinv.updateThread ht hthreads hreg hholders hcr ⟨hok.holderLt, ?_, ?_, ?_, ?_⟩ ?_ ?_
  · intro hp; simp [finish] at hp
  · intro hp; simp [finish] at hp
  · intro hp; simp [finish] at hp
  · intro hu hr
    simp only [finish, Option.some.injEq] at hr
    exact absurd hr (hres hu)
  · intro h ⟨_, hp⟩; simp [finish] at hp
  · intro h ⟨_, hp⟩; simp [finish] at hp

/-- Successful registration: a fresh holder with the token, a fresh registry entry. -/
theorem Inv.register {s : State} {t : Nat} {th : Thread} {id : Id} (hinv : Inv s)
    (ht : s.threads[t]? = some th) (hop : th.op = .reg id)
    (hnew : s.registry.lookup id = none) :
    Inv { s with
      registry := (id, s.holders.length) :: s.registry
      holders := s.holders ++ [{ token := true, closed := false }]
      threads := s.threads.set t (finish th .ok) } := by
  have hnotin := lookup_none hnew
  have hok := hinv.threadOK t th ht
  -- threads of the new state come from threads of the old one, without new ownership
  have back : ∀ (t' : Nat) x, (s.threads.set t (finish th .ok))[t']? = some x →
      ∃ y, s.threads[t']? = some y ∧ (∀ h, Owns x h → Owns y h) ∧ (∀ h, Unregs x h → Unregs y h) ∧
        ThreadOK (s.holders ++ [{ token := true, closed := false }]) x := by
    intro t' x hx
    rcases threads_set_some ht hx with ⟨rfl, rfl⟩ | ⟨hne, hx'⟩
    · refine ⟨th, ht, ?_, ?_, ⟨?_, ?_, ?_, ?_, ?_⟩⟩
      · intro h ⟨_, hp⟩; simp [finish] at hp
      · intro h ⟨_, hp⟩; simp [finish] at hp
      · intro h hh
        have := hok.holderLt h hh
        simp only [List.length_append]; omega
      · intro hp; simp [finish] at hp
      · intro hp; simp [finish] at hp
      · intro hp; simp [finish] at hp
      · intro hu _
        obtain ⟨id', hid⟩ := hu
        simp only [finish] at hid
        rw [hop] at hid; cases hid
    · exact ⟨x, hx', fun _ h => h, fun _ h => h, (hinv.threadOK t' x hx').mono _⟩
  -- old holders are unchanged; the new one is at index `length`
  have hold : ∀ (h : Nat) hd, (s.holders ++ [{ token := true, closed := false }])[h]? = some hd →
      (h < s.holders.length ∧ s.holders[h]? = some hd) ∨
      (h = s.holders.length ∧ hd = { token := true, closed := false }) := by
    intro h hd hh
    by_cases hlt : h < s.holders.length
    · rw [List.getElem?_append_left hlt] at hh
      exact Or.inl ⟨hlt, hh⟩
    · rw [List.getElem?_append_right (by omega)] at hh
      have : h - s.holders.length = 0 := by
        by_cases h0 : h - s.holders.length = 0
        · exact h0
        · rw [List.getElem?_eq_none (by simp; omega)] at hh; cases hh
      rw [this] at hh
      simp only [List.getElem?_cons_zero, Option.some.injEq] at hh
      exact Or.inr ⟨by omega, hh.symm⟩
  have ownLt : ∀ (t' : Nat) y h, s.threads[t']? = some y → Owns y h → h < s.holders.length :=
    fun t' y h hy o => (hinv.threadOK t' y hy).holderLt h o.1
  have unregLt : ∀ (t' : Nat) y h, s.threads[t']? = some y → Unregs y h → h < s.holders.length :=
    fun t' y h hy o => (hinv.threadOK t' y hy).holderLt h o.1
  refine ⟨hinv.crashed, ?_, ?_, ?_, ?_, ?_, ?_, ?_, ?_, ?_, ?_⟩
  · intro t' x hx
    obtain ⟨_, _, _, _, hk⟩ := back t' x hx
    exact hk
  · intro id' h hm
    simp only [List.mem_cons, Prod.mk.injEq, List.length_append, List.length_cons, List.length_nil] at hm ⊢
    rcases hm with ⟨_, rfl⟩ | hm
    · omega
    · have := hinv.regLt id' h hm; omega
  · intro id' h1 h2 m1 m2
    simp only [List.mem_cons, Prod.mk.injEq] at m1 m2
    rcases m1 with ⟨rfl, rfl⟩ | m1 <;> rcases m2 with ⟨e2, rfl⟩ | m2
    · rfl
    · exact absurd m2 (hnotin h2)
    · subst e2; exact absurd m1 (hnotin h1)
    · exact hinv.regFun id' h1 h2 m1 m2
  · intro id1 id2 h m1 m2
    simp only [List.mem_cons, Prod.mk.injEq] at m1 m2
    rcases m1 with ⟨rfl, rfl⟩ | m1 <;> rcases m2 with ⟨e2, e3⟩ | m2
    · exact e2.symm
    · have := hinv.regLt id2 _ m2; omega
    · subst e3; have := hinv.regLt id1 _ m1; omega
    · exact hinv.regInj id1 id2 h m1 m2
  · intro t1 t2 x1 x2 h hx1 hx2 o1 o2
    obtain ⟨y1, hy1, b1, _, _⟩ := back t1 x1 hx1
    obtain ⟨y2, hy2, b2, _, _⟩ := back t2 x2 hx2
    exact hinv.ownUniq t1 t2 y1 y2 h hy1 hy2 (b1 h o1) (b2 h o2)
  · intro t' x h hd hx o hh
    obtain ⟨y, hy, b, _, _⟩ := back t' x hx
    rcases hold h hd hh with ⟨_, hh'⟩ | ⟨rfl, _⟩
    · exact hinv.ownExcl t' y h hd hy (b h o) hh'
    · have := ownLt t' y _ hy (b _ o); omega
  · intro h hd hh hc
    rcases hold h hd hh with ⟨_, hh'⟩ | ⟨_, rfl⟩
    · exact hinv.closedTok h hd hh' hc
    · simp at hc
  · intro t1 t2 x1 x2 h hx1 hx2 o1 o2
    obtain ⟨y1, hy1, _, b1, _⟩ := back t1 x1 hx1
    obtain ⟨y2, hy2, _, b2, _⟩ := back t2 x2 hx2
    exact hinv.unregUniq t1 t2 y1 y2 h hy1 hy2 (b1 h o1) (b2 h o2)
  · intro t' x h hx o
    obtain ⟨y, hy, _, b, _⟩ := back t' x hx
    have hlt := unregLt t' y h hy (b h o)
    obtain ⟨e1, e2⟩ := hinv.unregExcl t' y h hy (b h o)
    refine ⟨?_, ?_⟩
    · rintro ⟨id', hm⟩
      simp only [List.mem_cons, Prod.mk.injEq] at hm
      rcases hm with ⟨_, rfl⟩ | hm
      · omega
      · exact e1 ⟨id', hm⟩
    · intro hd hh
      rcases hold h hd hh with ⟨_, hh'⟩ | ⟨rfl, _⟩
      · exact e2 hd hh'
      · omega
  · intro h hd hh hc
    rcases hold h hd hh with ⟨hlt, hh'⟩ | ⟨_, rfl⟩
    · rintro ⟨id', hm⟩
      simp only [List.mem_cons, Prod.mk.injEq] at hm
      rcases hm with ⟨_, rfl⟩ | hm
      · omega
      · exact hinv.closedReg h hd hh' hc ⟨id', hm⟩
    · simp at hc

/-- First critical section of `UnregisterPrompter`: the entry is deleted and
the thread keeps the holder. -/
theorem Inv.unregStart {s : State} {t : Nat} {th : Thread} {id : Id} {h0 : Nat} (hinv : Inv s)
    (ht : s.threads[t]? = some th) (hop : th.op = .unreg id) (hpc : th.pc = .start)
    (hl : s.registry.lookup id = some h0) :
    Inv { s with
      registry := s.registry.filter (fun e => e.1 ≠ id)
      threads := s.threads.set t { th with pc := .urecv, holder := some h0 } } := by
  have hmem : (id, h0) ∈ s.registry := lookup_some hl
  have hlt : h0 < s.holders.length := hinv.regLt id h0 hmem
  have hok := hinv.threadOK t th ht
  have hsub : ∀ id' h, (id', h) ∈ s.registry.filter (fun e => e.1 ≠ id) → (id', h) ∈ s.registry ∧ id' ≠ id := by
    intro id' h hm
    simp only [ne_eq, decide_not, List.mem_filter, Bool.not_eq_eq_eq_not, Bool.not_true,
      decide_eq_false_iff_not] at hm
    exact hm
  have hgone : ¬ Registered { s with
      registry := s.registry.filter (fun e => e.1 ≠ id)
      threads := s.threads.set t { th with pc := .urecv, holder := some h0 } } h0 := by
    rintro ⟨id', hm⟩
    obtain ⟨hm', hne⟩ := hsub id' h0 hm
    exact hne (hinv.regInj id' id h0 hm' hmem)
  have hregsub : ∀ h, Registered { s with
      registry := s.registry.filter (fun e => e.1 ≠ id)
      threads := s.threads.set t { th with pc := .urecv, holder := some h0 } } h → Registered s h := by
    rintro h ⟨id', hm⟩
    exact ⟨id', (hsub id' h hm).1⟩
  have back : ∀ (t' : Nat) x, (s.threads.set t { th with pc := .urecv, holder := some h0 })[t']? = some x →
      (t' = t ∧ x = { th with pc := .urecv, holder := some h0 }) ∨ (t' ≠ t ∧ s.threads[t']? = some x) :=
    fun t' x hx => threads_set_some ht hx
  have newOwns : ∀ h, ¬ Owns { th with pc := .urecv, holder := some h0 } h := by
    intro h ⟨_, hp⟩; simp at hp
  have newUnregs : ∀ h, Unregs { th with pc := .urecv, holder := some h0 } h → h = h0 := by
    intro h ⟨hh, _⟩; simp at hh; exact hh.symm
  have hopen : ∀ hd, s.holders[h0]? = some hd → hd.closed = false := by
    intro hd hh
    cases hc : hd.closed with
    | false => rfl
    | true => exact absurd ⟨id, hmem⟩ (hinv.closedReg h0 hd hh hc)
  refine ⟨hinv.crashed, ?_, ?_, ?_, ?_, ?_, ?_, ?_, ?_, ?_, ?_⟩
  · intro t' x hx
    rcases back t' x hx with ⟨rfl, rfl⟩ | ⟨_, hx'⟩
    · refine ⟨?_, ?_, ?_, ?_, ?_⟩
      · intro h hh; simp at hh; subst hh; exact hlt
      · intro hp; simp at hp
      · intro _; exact ⟨id, hop⟩
      · intro _ _; exact hok.resNone (by simp [hpc]) (by simp [hpc])
      · intro _ hr
        have : th.res = none := hok.resNone (by simp [hpc]) (by simp [hpc])
        simp [this] at hr
    · exact hinv.threadOK t' x hx'
  · intro id' h hm; exact hinv.regLt id' h (hsub id' h hm).1
  · intro id' h1 h2 m1 m2; exact hinv.regFun id' h1 h2 (hsub _ _ m1).1 (hsub _ _ m2).1
  · intro id1 id2 h m1 m2; exact hinv.regInj id1 id2 h (hsub _ _ m1).1 (hsub _ _ m2).1
  · intro t1 t2 x1 x2 h hx1 hx2 o1 o2
    rcases back t1 x1 hx1 with ⟨rfl, rfl⟩ | ⟨_, hx1'⟩
    · exact absurd o1 (newOwns h)
    · rcases back t2 x2 hx2 with ⟨rfl, rfl⟩ | ⟨_, hx2'⟩
      · exact absurd o2 (newOwns h)
      · exact hinv.ownUniq t1 t2 x1 x2 h hx1' hx2' o1 o2
  · intro t' x h hd hx o hh
    rcases back t' x hx with ⟨rfl, rfl⟩ | ⟨_, hx'⟩
    · exact absurd o (newOwns h)
    · exact hinv.ownExcl t' x h hd hx' o hh
  · exact hinv.closedTok
  · intro t1 t2 x1 x2 h hx1 hx2 o1 o2
    rcases back t1 x1 hx1 with ⟨rfl, rfl⟩ | ⟨hne1, hx1'⟩
    · rcases back t2 x2 hx2 with ⟨rfl, rfl⟩ | ⟨_, hx2'⟩
      · rfl
      · have := newUnregs h o1; subst this
        exact absurd ⟨id, hmem⟩ (hinv.unregExcl t2 x2 h hx2' o2).1
    · rcases back t2 x2 hx2 with ⟨rfl, rfl⟩ | ⟨_, hx2'⟩
      · have := newUnregs h o2; subst this
        exact absurd ⟨id, hmem⟩ (hinv.unregExcl t1 x1 h hx1' o1).1
      · exact hinv.unregUniq t1 t2 x1 x2 h hx1' hx2' o1 o2
  · intro t' x h hx o
    rcases back t' x hx with ⟨rfl, rfl⟩ | ⟨_, hx'⟩
    · have := newUnregs h o; subst this
      exact ⟨hgone, hopen⟩
    · obtain ⟨e1, e2⟩ := hinv.unregExcl t' x h hx' o
      exact ⟨fun hr => e1 (hregsub h hr), e2⟩
  · intro h hd hh hc hr
    exact hinv.closedReg h hd hh hc (hregsub h hr)

theorem ThreadOK.setHolder {holders : List Holder} {th : Thread} {h0 : Nat} {hd hd' : Holder}
    (hok : ThreadOK holders th) (hh : holders[h0]? = some hd) (hmono : hd.closed = true → hd'.closed = true) :
    ThreadOK (holders.set h0 hd') th := by
  refine ⟨?_, hok.pcCall, hok.pcUnreg, hok.resNone, ?_⟩
  · intro h e; simp only [List.length_set]; exact hok.holderLt h e
  · intro hu hr
    obtain ⟨h, x, h1, h2, h3⟩ := hok.unregDone hu hr
    by_cases e : h = h0
    · subst e
      rw [hh] at h2; cases h2
      refine ⟨h, hd', h1, ?_, hmono h3⟩
      rw [List.getElem?_set]
      have : h < holders.length := by
        rcases List.getElem?_eq_some_iff.mp hh with ⟨hlt, _⟩; exact hlt
      simp [this]
    · refine ⟨h, x, h1, ?_, h3⟩
      rw [List.getElem?_set]
      have hne : ¬ h0 = h := fun e' => e e'.symm
      simp only [hne, if_false]
      exact h2

/-- A step in which thread `t`, whose `holder` variable is `h0`, performs a
channel operation on holder `h0` (receive, send or close). -/
theorem Inv.channelStep {s : State} {t h0 : Nat} {th th' : Thread} {hd hd' : Holder} (hinv : Inv s)
    (ht : s.threads[t]? = some th) (hh : s.holders[h0]? = some hd)
    (hhold' : th'.holder = some h0)
    (hok' : ThreadOK (s.holders.set h0 hd') th')
    (hmono : hd.closed = true → hd'.closed = true)
    (hunreg : ∀ h, Unregs th' h → Unregs th h)
    (hnoOther : ∀ (t' : Nat) y, t' ≠ t → s.threads[t']? = some y → ¬ Owns y h0)
    (hownNew : Owns th' h0 → hd'.token = false ∧ hd'.closed = false)
    (hclosedTok : hd'.closed = true → hd'.token = false)
    (hclosedNew : hd'.closed = true → hd.closed = true ∨
      ((∀ (t' : Nat) y, t' ≠ t → s.threads[t']? = some y → ¬ Unregs y h0) ∧ (∀ h, ¬ Unregs th' h) ∧
        ¬ Registered s h0)) :
    Inv { s with holders := s.holders.set h0 hd', threads := s.threads.set t th' } := by
  have back : ∀ (t' : Nat) x, (s.threads.set t th')[t']? = some x →
      (t' = t ∧ x = th') ∨ (t' ≠ t ∧ s.threads[t']? = some x) :=
    fun t' x hx => threads_set_some ht hx
  have hback : ∀ (h : Nat) x, (s.holders.set h0 hd')[h]? = some x →
      (h = h0 ∧ x = hd') ∨ (h ≠ h0 ∧ s.holders[h]? = some x) :=
    fun h x hx => holders_set_some hh hx
  have ownNew : ∀ h, Owns th' h → h = h0 := by
    intro h ⟨e, _⟩; rw [hhold'] at e; cases e; rfl
  -- nobody unregisters a holder that is (now) closed
  have closedFacts : hd'.closed = true →
      (∀ (t' : Nat) x, (s.threads.set t th')[t']? = some x → ¬ Unregs x h0) ∧ ¬ Registered s h0 := by
    intro hc
    rcases hclosedNew hc with hold | ⟨n1, n2, n3⟩
    · refine ⟨?_, hinv.closedReg h0 hd hh hold⟩
      intro t' x hx hu
      rcases back t' x hx with ⟨rfl, rfl⟩ | ⟨_, hx'⟩
      · have := (hinv.unregExcl t' th h0 ht (hunreg h0 hu)).2 hd hh
        rw [hold] at this; cases this
      · have := (hinv.unregExcl t' x h0 hx' hu).2 hd hh
        rw [hold] at this; cases this
    · refine ⟨?_, n3⟩
      intro t' x hx hu
      rcases back t' x hx with ⟨rfl, rfl⟩ | ⟨hne, hx'⟩
      · exact n2 h0 hu
      · exact n1 t' x hne hx' hu
  refine ⟨hinv.crashed, ?_, ?_, hinv.regFun, hinv.regInj, ?_, ?_, ?_, ?_, ?_, ?_⟩
  · intro t' x hx
    rcases back t' x hx with ⟨rfl, rfl⟩ | ⟨_, hx'⟩
    · exact hok'
    · exact (hinv.threadOK t' x hx').setHolder hh hmono
  · intro id h hm
    simp only [List.length_set]
    exact hinv.regLt id h hm
  · intro t1 t2 x1 x2 h hx1 hx2 o1 o2
    rcases back t1 x1 hx1 with ⟨rfl, rfl⟩ | ⟨hne1, hx1'⟩
    · rcases back t2 x2 hx2 with ⟨rfl, rfl⟩ | ⟨hne2, hx2'⟩
      · rfl
      · have := ownNew h o1; subst this
        exact absurd o2 (hnoOther t2 x2 hne2 hx2')
    · rcases back t2 x2 hx2 with ⟨rfl, rfl⟩ | ⟨hne2, hx2'⟩
      · have := ownNew h o2; subst this
        exact absurd o1 (hnoOther t1 x1 hne1 hx1')
      · exact hinv.ownUniq t1 t2 x1 x2 h hx1' hx2' o1 o2
  · intro t' x h y hx o hy
    rcases back t' x hx with ⟨rfl, rfl⟩ | ⟨hne, hx'⟩
    · have := ownNew h o; subst this
      rcases hback h y hy with ⟨_, rfl⟩ | ⟨hne', _⟩
      · exact hownNew o
      · exact absurd rfl hne'
    · rcases hback h y hy with ⟨rfl, rfl⟩ | ⟨_, hy'⟩
      · exact absurd o (hnoOther t' x hne hx')
      · exact hinv.ownExcl t' x h y hx' o hy'
  · intro h y hy hc
    rcases hback h y hy with ⟨rfl, rfl⟩ | ⟨_, hy'⟩
    · exact hclosedTok hc
    · exact hinv.closedTok h y hy' hc
  · intro t1 t2 x1 x2 h hx1 hx2 o1 o2
    have toOld : ∀ (t' : Nat) x, (s.threads.set t th')[t']? = some x → Unregs x h →
        ∃ y, s.threads[t']? = some y ∧ Unregs y h := by
      intro t' x hx hu
      rcases back t' x hx with ⟨rfl, rfl⟩ | ⟨_, hx'⟩
      · exact ⟨th, ht, hunreg h hu⟩
      · exact ⟨x, hx', hu⟩
    obtain ⟨y1, hy1, u1⟩ := toOld t1 x1 hx1 o1
    obtain ⟨y2, hy2, u2⟩ := toOld t2 x2 hx2 o2
    exact hinv.unregUniq t1 t2 y1 y2 h hy1 hy2 u1 u2
  · intro t' x h hx hu
    have hold : ∃ y, s.threads[t']? = some y ∧ Unregs y h := by
      rcases back t' x hx with ⟨rfl, rfl⟩ | ⟨_, hx'⟩
      · exact ⟨th, ht, hunreg h hu⟩
      · exact ⟨x, hx', hu⟩
    obtain ⟨y, hy, uy⟩ := hold
    obtain ⟨e1, e2⟩ := hinv.unregExcl t' y h hy uy
    refine ⟨e1, ?_⟩
    intro z hz
    rcases hback h z hz with ⟨rfl, rfl⟩ | ⟨_, hz'⟩
    · cases hc : z.closed with
      | false => rfl
      | true => exact absurd hu ((closedFacts hc).1 t' x hx)
    · exact e2 z hz'
  · intro h y hy hc
    rcases hback h y hy with ⟨rfl, rfl⟩ | ⟨_, hy'⟩
    · exact (closedFacts hc).2
    · exact hinv.closedReg h y hy' hc

theorem holder_bind {th : Thread} {holders : List Holder} {hd : Holder}
    (h : th.holder.bind (holders[·]?) = some hd) :
    ∃ h0, th.holder = some h0 ∧ holders[h0]? = some hd ∧ th.holder.get! = h0 := by
  cases hh : th.holder with
  | none => rw [hh] at h; simp at h
  | some h0 =>
    rw [hh] at h
    exact ⟨h0, rfl, by simpa using h, rfl⟩

theorem isCall_not_unreg {op : Op} (h : IsCall op) : ¬ IsUnreg op := by
  obtain ⟨id, p, f, rfl⟩ := h
  rintro ⟨id', h'⟩
  cases h'

/-- Every internal step preserves the invariant (in particular: never crashes). -/
theorem Inv.tau {s s' : State} {t : Nat} (hinv : Inv s) (h : tau s t = some s') : Inv s' := by
  unfold Mutagen.Model.Prompting.tau at h
  split at h
  · cases h
  · rename_i th ht
    have hok := hinv.threadOK t th ht
    split at h
    · -- start
      rename_i hpc
      split at h
      · -- reg
        rename_i id hop
        split at h
        · cases h
          exact hinv.finishStep ht rfl rfl rfl hinv.crashed (by rintro ⟨id', e⟩; rw [hop] at e; cases e)
        · split at h
          · cases h
          · split at h
            · cases h
              exact hinv.finishStep ht rfl rfl rfl hinv.crashed (by rintro ⟨id', e⟩; rw [hop] at e; cases e)
            · rename_i hnone
              cases h
              have : s.registry.lookup id = none := by
                cases hl : s.registry.lookup id with
                | none => rfl
                | some v => simp [hl] at hnone
              exact hinv.register ht hop this
      · -- unreg
        rename_i id hop
        split at h
        · cases h
        · split at h
          · cases h
            exact hinv.finishStep (s' := { s with locked := true, threads := s.threads.set t (finish th .panic) })
              ht rfl rfl rfl hinv.crashed (by intro _ e; cases e)
          · rename_i h0 hl
            cases h
            exact hinv.unregStart ht hop hpc hl
      · -- call
        rename_i id prompt fail hop
        have hnot : ¬ IsUnreg th.op := by rintro ⟨id', e⟩; rw [hop] at e; cases e
        split at h
        · cases h
          exact hinv.finishStep ht rfl rfl rfl hinv.crashed (fun hu => absurd hu hnot)
        · split at h
          · cases h
          · split at h
            · cases h
              exact hinv.finishStep ht rfl rfl rfl hinv.crashed (fun hu => absurd hu hnot)
            · rename_i h0 hl
              cases h
              have hlt : h0 < s.holders.length := hinv.regLt id h0 (lookup_some hl)
              refine hinv.updateThread ht rfl rfl rfl hinv.crashed ⟨?_, ?_, ?_, ?_, ?_⟩ ?_ ?_
              · intro h e; simp at e; subst e; exact hlt
              · intro _; exact ⟨id, prompt, fail, hop⟩
              · intro hp; simp at hp
              · intro _ _; exact hok.resNone (by simp [hpc]) (by simp [hpc])
              · intro hu; exact absurd hu hnot
              · intro h ⟨_, hp⟩; simp at hp
              · intro h ⟨_, hp⟩; simp at hp
    · -- recv
      rename_i hpc
      have hcall : IsCall th.op := hok.pcCall (by simp [hpc])
      split at h
      · cases h
      · rename_i hd hb
        obtain ⟨h0, hh0, hhd, hget⟩ := holder_bind hb
        split at h
        · rename_i htok
          cases h
          simp only [State.setHolder, State.setThread, hget]
          refine hinv.channelStep ht hhd hh0 ⟨?_, ?_, ?_, ?_, ?_⟩ (by simp) ?_ ?_ ?_ (by simp) ?_
          · intro h e; simp only [List.length_set]; exact hok.holderLt h e
          · intro _; exact hcall
          · intro hp; simp at hp
          · intro _ _; exact hok.resNone (by simp [hpc]) (by simp [hpc])
          · intro hu; exact absurd hu (isCall_not_unreg hcall)
          · intro h ⟨_, hp⟩; simp at hp
          · intro t' y _ hy o
            have := (hinv.ownExcl t' y h0 hd hy o hhd).1
            rw [htok] at this; cases this
          · intro _
            refine ⟨rfl, ?_⟩
            cases hc : hd.closed with
            | false => rfl
            | true => have := hinv.closedTok h0 hd hhd hc; rw [htok] at this; cases this
          · intro hc
            exact Or.inl hc
        · split at h
          · cases h
            exact hinv.finishStep ht rfl rfl rfl hinv.crashed (fun hu => absurd hu (isCall_not_unreg hcall))
          · cases h
    · -- returning
      rename_i hpc
      have hcall : IsCall th.op := hok.pcCall (by simp [hpc])
      split at h
      · cases h
      · rename_i hd hb
        obtain ⟨h0, hh0, hhd, hget⟩ := holder_bind hb
        have hown : Owns th h0 := ⟨hh0, by simp [hpc]⟩
        obtain ⟨htok, hclosed⟩ := hinv.ownExcl t th h0 hd ht hown hhd
        split at h
        · rename_i hc; rw [hclosed] at hc; cases hc
        · split at h
          · cases h
          · cases h
            simp only [State.setHolder, State.setThread, hget]
            refine hinv.channelStep ht hhd (by simp [finish, hh0]) ⟨?_, ?_, ?_, ?_, ?_⟩ (by simp) ?_ ?_ ?_
              (by simp [hclosed]) (by simp [hclosed])
            · intro h e; simp only [List.length_set]; exact hok.holderLt h (by simpa [finish] using e)
            · intro hp; simp [finish] at hp
            · intro hp; simp [finish] at hp
            · intro hp; simp [finish] at hp
            · intro hu; exact absurd (by simpa [finish] using hu) (isCall_not_unreg hcall)
            · intro h ⟨_, hp⟩; simp [finish] at hp
            · intro t' y hne hy o
              exact hne (hinv.ownUniq t' t y th h0 hy ht o hown)
            · intro ⟨_, hp⟩; simp [finish] at hp
    · -- urecv
      rename_i hpc
      have hunr : IsUnreg th.op := hok.pcUnreg (by simp [hpc])
      split at h
      · cases h
      · rename_i hd hb
        obtain ⟨h0, hh0, hhd, hget⟩ := holder_bind hb
        have hun : Unregs th h0 := ⟨hh0, by simp [hpc]⟩
        have hopen : hd.closed = false := (hinv.unregExcl t th h0 ht hun).2 hd hhd
        split at h
        · rename_i htok
          cases h
          simp only [State.setHolder, State.setThread, hget]
          refine hinv.channelStep ht hhd hh0 ⟨?_, ?_, ?_, ?_, ?_⟩ (by simp) ?_ ?_ ?_ (by simp) ?_
          · intro h e; simp only [List.length_set]; exact hok.holderLt h e
          · intro hp; simp at hp
          · intro _; exact hunr
          · intro _ _; exact hok.resNone (by simp [hpc]) (by simp [hpc])
          · intro _ hr
            have : th.res = none := hok.resNone (by simp [hpc]) (by simp [hpc])
            simp [this] at hr
          · intro h ⟨e, _⟩; exact ⟨e, by simp [hpc]⟩
          · intro t' y _ hy o
            have := (hinv.ownExcl t' y h0 hd hy o hhd).1
            rw [htok] at this; cases this
          · intro _; exact ⟨rfl, hopen⟩
          · intro hc; exact Or.inl hc
        · split at h
          · rename_i hc; rw [hopen] at hc; cases hc
          · cases h
    · -- uclose
      rename_i hpc
      have hunr : IsUnreg th.op := hok.pcUnreg (by simp [hpc])
      split at h
      · cases h
      · rename_i hd hb
        obtain ⟨h0, hh0, hhd, hget⟩ := holder_bind hb
        have hown : Owns th h0 := ⟨hh0, by simp [hpc]⟩
        have hun : Unregs th h0 := ⟨hh0, by simp [hpc]⟩
        obtain ⟨htok, hclosed⟩ := hinv.ownExcl t th h0 hd ht hown hhd
        split at h
        · rename_i hc; rw [hclosed] at hc; cases hc
        · cases h
          simp only [State.setHolder, State.setThread, hget]
          refine hinv.channelStep ht hhd (by simp [finish, hh0]) ⟨?_, ?_, ?_, ?_, ?_⟩ (by simp) ?_ ?_ ?_
            (by simp [htok]) ?_
          · intro h e; simp only [List.length_set]; exact hok.holderLt h (by simpa [finish] using e)
          · intro hp; simp [finish] at hp
          · intro hp; simp [finish] at hp
          · intro hp; simp [finish] at hp
          · intro _ _
            refine ⟨h0, { hd with closed := true }, by simp [finish, hh0], ?_, rfl⟩
            rw [List.getElem?_set]
            have : h0 < s.holders.length := hok.holderLt h0 hh0
            simp [this]
          · intro h ⟨_, hp⟩; simp [finish] at hp
          · intro t' y hne hy o
            exact hne (hinv.ownUniq t' t y th h0 hy ht o hown)
          · intro ⟨_, hp⟩; simp [finish] at hp
          · intro _
            refine Or.inr ⟨?_, ?_, (hinv.unregExcl t th h0 ht hun).1⟩
            · intro t' y hne hy u
              exact hne (hinv.unregUniq t' t y th h0 hy ht u hun)
            · intro h ⟨_, hp⟩; simp [finish] at hp
    · cases h

end Mutagen.Model.Prompting
