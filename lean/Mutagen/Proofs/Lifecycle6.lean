import Mutagen.Proofs.Lifecycle4
/-!
Lifecycle model: the run loop's ancestor is the archive on disk; completion of
`reset` and of a manager restart; the flush bookkeeping.
-/
namespace Mutagen.Proofs.Lifecycle
open Mutagen.Model.Lifecycle

/-- Program counters at which `synchronize` has loaded the archive. -/
def LPC.inSync : LPC → Bool
  | .started | .poll | .scan | .stageA | .supB | .stageB | .supA | .trans => true
  | _ => false

/-- The run loop's in-memory ancestor is what is on disk. -/
def InvB (s : State) : Prop :=
  ∀ l, s.loop = some l → LPC.inSync l.pc = true → l.anc = (s.arch == some true)

set_option maxHeartbeats 16000000 in
set_option maxRecDepth 10000 in
theorem invB_loop {s : State} {l : Loop} {lab : Label} {s' : State} (hl : s.loop = some l)
    (h : (lab, s') ∈ loopSteps s l) (i : InvB s) : InvB s' := by
  have il := i l hl
  clear i
  unfold InvB
  unfold loopSteps at h
  split at h
  all_goals
    simp only [List.mem_append, List.mem_cons, List.mem_flatMap, List.not_mem_nil, or_false,
      bothSides, List.mem_ite_nil_right, Prod.mk.injEq] at h
  all_goals
    aesop (add norm simp [State.updThread, State.noteScan, LPC.inSync, enterPoll, enterScan, enterExit, setProg])

set_option maxHeartbeats 16000000 in
set_option maxRecDepth 10000 in
theorem invB_thread {s : State} {th : Thread} {lab : Label} {s' : State}
    (h : (lab, s') ∈ threadSteps s th) (hln : s.running = false → s.loop = none) (i : InvB s) : InvB s' := by
  unfold InvB at *
  unfold threadSteps at h
  split at h
  all_goals
    aesop (add norm simp [acquire, afterStop, finish, State.setThread, State.dropThread, State.startLoop,
      State.cancelLoop, newLoop, othersIdle, LPC.inSync])

theorem invB_step {s s' : State} {l : Label} (st : Step s l s') (iA : InvA s) (i : InvB s) : InvB s' := by
  cases st with
  | call h =>
    unfold doCall at h
    split at h
    · simp at h
    · simp only [Option.some.injEq] at h; subst h; exact i
  | internal h =>
    unfold succ at h
    rcases List.mem_append.mp h with h | h
    · cases hl : s.loop with
      | none => simp [hl] at h
      | some lp => simp only [hl] at h; exact invB_loop hl h i
    · obtain ⟨th, _, h⟩ := List.mem_flatMap.mp h
      exact invB_thread h (loop_none_of_not_running iA) i

theorem invB_run {w : Bool} {tr : List Label} {s : State} (r : Run (init w) tr s) : InvB s := by
  induction r with
  | nil => intro l hl; simp [init] at hl
  | snoc r' st ih => exact invB_step st (invA_run r') ih

set_option maxHeartbeats 8000000 in
/-- A scan is started by the run loop in its scanning phase, with the loop's
`forced` flag and in-memory ancestor. -/
theorem loopSteps_scanS {s : State} {l : Loop} {sd : Side} {f a : Bool} {s' : State}
    (h : (Label.ep (.scanS sd f a), s') ∈ loopSteps s l) : l.pc = .scan ∧ f = l.forced ∧ a = l.anc := by
  unfold loopSteps at h
  split at h
  all_goals
    simp only [List.mem_append, List.mem_cons, List.mem_flatMap, List.not_mem_nil, or_false,
      bothSides, List.mem_ite_nil_right, Prod.mk.injEq] at h
  all_goals aesop

set_option maxHeartbeats 16000000 in
set_option maxRecDepth 10000 in
/-- A client call's step writes the archive only when no run loop exists. -/
theorem threadSteps_arch {s : State} {th : Thread} {lab : Label} {s' : State}
    (h : (lab, s') ∈ threadSteps s th) (hln : s.running = false → s.loop = none)
    (hcl : ∀ t c, s.crit = some (t, .connB c) → s.loop = none) :
    s'.arch = s.arch ∨ s.loop = none := by
  unfold threadSteps at h
  split at h
  all_goals
    aesop (add norm simp [acquire, afterStop, finish, State.setThread, State.dropThread, State.startLoop,
      State.cancelLoop, newLoop, othersIdle])

set_option maxHeartbeats 16000000 in
/-- The run loop writes the archive only by saving the ancestor at the end of a cycle. -/
theorem loopSteps_arch {s : State} {l : Loop} {lab : Label} {s' : State} (h : (lab, s') ∈ loopSteps s l) :
    s'.arch = s.arch ∨ s'.arch = some true := by
  unfold loopSteps at h
  split at h
  all_goals
    simp only [List.mem_append, List.mem_cons, List.mem_flatMap, List.not_mem_nil, or_false,
      bothSides, List.mem_ite_nil_right, Prod.mk.injEq] at h
  all_goals
    aesop (add norm simp [State.updThread, State.noteScan])

/-- While a `reset` holds the lifecycle lock to reconnect, the archive on disk
is the empty one it wrote. -/
def InvS (s : State) : Prop :=
  s.resetting = true →
    s.arch = some false ∧ (s.crit.isSome = true ∧ ∀ t, s.crit ≠ some (t, .stopping)) ∧ s.loop = none

set_option maxHeartbeats 16000000 in
set_option maxRecDepth 10000 in
theorem invS_thread {s : State} {th : Thread} {lab : Label} {s' : State}
    (h : (lab, s') ∈ threadSteps s th) (i : InvS s) : InvS s' := by
  unfold InvS at *
  unfold threadSteps at h
  split at h
  · aesop (add norm simp [finish, State.setThread, othersIdle, State.cancelLoop])
  · -- waitLock: the lock is free, so nobody is resetting
    split at h
    · rename_i hc
      simp only [List.mem_map, Prod.mk.injEq] at h
      obtain ⟨s1, hs1, _, rfl⟩ := h
      have hr : s.resetting = false := by
        cases hr : s.resetting with
        | false => rfl
        | true => have := (i hr).2.1.1; simp at hc; rw [hc] at this; simp at this
      clear i
      unfold acquire at hs1
      aesop (add norm simp [finish, State.setThread, State.cancelLoop])
    · simp at h
  · aesop (add norm simp [afterStop, finish, State.setThread, State.startLoop, newLoop])
  · aesop (add norm simp [finish, State.setThread])
  · aesop (add norm simp [finish, State.setThread, State.startLoop, newLoop, othersIdle])
  · aesop (add norm simp [finish, State.setThread])
  · aesop (add norm simp [finish, State.setThread])
  · aesop (add norm simp [finish, State.setThread, State.dropThread])

theorem invS_step {s s' : State} {l : Label} (st : Step s l s') (i : InvS s) : InvS s' := by
  cases st with
  | call h =>
    unfold doCall at h
    split at h
    · simp at h
    · simp only [Option.some.injEq] at h; subst h; exact i
  | internal h =>
    unfold succ at h
    rcases List.mem_append.mp h with h | h
    · cases hl : s.loop with
      | none => simp [hl] at h
      | some lp =>
        simp only [hl] at h
        intro hr
        have hf := loopSteps_frame h
        rw [hf.2.2.2.2.2.2.2.2.1] at hr
        have := (i hr).2.2
        rw [hl] at this
        simp at this
    · obtain ⟨th, _, h⟩ := List.mem_flatMap.mp h
      exact invS_thread h i

set_option maxHeartbeats 16000000 in
set_option maxRecDepth 10000 in
/-- A `reset` call that has completed successfully was already so before the
step, or the step completes it: the archive on disk is the empty one (and if
the session is running again, its loop has not loaded anything yet). -/
theorem threadSteps_reset_done {s : State} {th : Thread} {lab : Label} {s' : State}
    (h : (lab, s') ∈ threadSteps s th) (hS : s.resetting = true → s.arch = some false) :
    ∀ x ∈ s'.threads, x.op = .reset → x.ph = .finished .ok → x ∈ s.threads ∨ s'.arch = some false := by
  unfold threadSteps at h
  split at h
  all_goals
    aesop (add norm simp [acquire, afterStop, finish, State.setThread, State.dropThread, State.startLoop,
      State.cancelLoop, newLoop, othersIdle])

end Mutagen.Proofs.Lifecycle
