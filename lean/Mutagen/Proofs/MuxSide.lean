/-
What the primitive operations of `Model/Mux.lean` do to a side, seen at one
identifier: `AtEq` at the identifier they act on, `Same` at every other.
-/
import Mutagen.Proofs.MuxTac
import Mutagen.Model.MuxSys
namespace Mutagen.Model.Mux

/-- `s'` looks like `s` at identifier `X` (counters may have moved monotonically). -/
structure Same (s s' : Side) (X : Nat) : Prop where
  streams : s'.streams X = s.streams X
  pendIncr : s'.pendIncr X = s.pendIncr X
  pendCW : s'.pendCW X = s.pendCW X
  pendClose : s'.pendClose X = s.pendClose X
  used : s.used X → s'.used X
  largestIn : s.largestIn ≤ s'.largestIn
  backlog : X ∈ s'.backlog → X ∈ s.backlog
  window : s'.window = s.window

theorem Same.refl (s : Side) (X : Nat) : Same s s X :=
  ⟨rfl, rfl, rfl, rfl, id, Nat.le_refl _, id, rfl⟩

theorem Same.trans {s s' s'' : Side} {X : Nat} (h : Same s s' X) (h' : Same s' s'' X) : Same s s'' X :=
  ⟨h'.streams.trans h.streams, h'.pendIncr.trans h.pendIncr, h'.pendCW.trans h.pendCW,
   h'.pendClose.trans h.pendClose, fun u => h'.used (h.used u), Nat.le_trans h.largestIn h'.largestIn,
   fun b => h.backlog (h'.backlog b), h'.window.trans h.window⟩

theorem AtEq.of_same {s s' s'' : Side} {X : Nat} {st pi pcw pcl}
    (e : AtEq s' X st pi pcw pcl s) (h : Same s' s'' X) (hu : s''.used X ↔ s'.used X)
    (hl : s''.largestIn = s'.largestIn) (hb : s''.backlog = s'.backlog) :
    AtEq s'' X st pi pcw pcl s :=
  ⟨h.streams.trans e.streams, h.pendIncr.trans e.pendIncr, h.pendCW.trans e.pendCW,
   h.pendClose.trans e.pendClose, hu.trans e.used, hl.trans e.largestIn, hb.trans e.backlog,
   h.window.trans e.window⟩

/-- the messages about `X` on a wire -/
theorem onlyAbout_append (X : Nat) (w v : List Msg) :
    onlyAbout X (w ++ v) = onlyAbout X w ++ onlyAbout X v := by
  simp [onlyAbout]

theorem onlyAbout_cons_about {X : Nat} {m : Msg} (w : List Msg) (h : m.about X = true) :
    onlyAbout X (m :: w) = m :: onlyAbout X w := by
  simp [onlyAbout, h]

theorem onlyAbout_cons_other {X : Nat} {m : Msg} (w : List Msg) (h : m.about X = false) :
    onlyAbout X (m :: w) = onlyAbout X w := by
  simp [onlyAbout, h]

theorem onlyAbout_nil (X : Nat) : onlyAbout X [] = [] := rfl

/-! ### setStream -/

theorem setStream_atEq (s : Side) (X : Nat) (st : Stream) :
    AtEq (s.setStream X st) X (some st) (s.pendIncr X) (s.pendCW X) (s.pendClose X) s := by
  constructor <;> simp [Side.setStream, Side.used]

theorem setStream_same (s : Side) {X Y : Nat} (st : Stream) (h : X ≠ Y) : Same s (s.setStream Y st) X := by
  constructor <;> simp [Side.setStream, Side.used, h]

/-! ### the enqueue requests (multiplexer up) -/

theorem enqIncr_same (s : Side) {X Y : Nat} (k : Nat) (h : X ≠ Y) : Same s (s.enqIncr Y k) X := by
  unfold Side.enqIncr
  split
  · exact Same.refl s X
  · constructor <;> simp [Side.used, h]

theorem enqCW_same (s : Side) {X Y : Nat} (h : X ≠ Y) : Same s (s.enqCW Y) X := by
  unfold Side.enqCW
  split
  · exact Same.refl s X
  · constructor <;> simp [Side.used, h]

theorem enqClose_same (s : Side) {X Y : Nat} (h : X ≠ Y) : Same s (s.enqClose Y) X := by
  unfold Side.enqClose
  split
  · exact Same.refl s X
  · constructor <;> simp [Side.used, h]

theorem markClosedWrite_same (s : Side) {X Y : Nat} (h : X ≠ Y) : Same s (s.markClosedWrite Y) X := by
  unfold Side.markClosedWrite
  split
  · exact setStream_same s _ h
  · exact Same.refl s X

theorem markClosed_same (s : Side) {X Y : Nat} (h : X ≠ Y) : Same s (s.markClosed Y) X := by
  unfold Side.markClosed
  split
  · exact setStream_same s _ h
  · exact Same.refl s X

theorem deregister_same (s : Side) {X Y : Nat} (h : X ≠ Y) : Same s (s.deregister Y) X := by
  unfold Side.deregister
  split
  · exact setStream_same s _ h
  · exact Same.refl s X

theorem closeWrite_same (s : Side) {X Y : Nat} (send : Bool) (h : X ≠ Y) : Same s (s.closeWrite Y send) X := by
  unfold Side.closeWrite
  split
  · split
    · exact Same.refl s X
    · split
      · exact (markClosedWrite_same s h).trans (enqCW_same _ h)
      · exact markClosedWrite_same s h
  · exact Same.refl s X

theorem closeBegin_same (s : Side) {X Y : Nat} (send : Bool) (h : X ≠ Y) : Same s (s.closeBegin Y send) X := by
  have h1 := closeWrite_same s false h
  unfold Side.closeBegin
  cases hs : (s.closeWrite Y false).streams Y with
  | none => simpa [hs] using h1
  | some st =>
    by_cases hc : st.closed = true
    · simpa [hs, hc] using h1
    · cases send
      · simpa [hs, hc] using h1.trans (markClosed_same _ h)
      · simpa [hs, hc] using h1.trans ((markClosed_same _ h).trans (enqClose_same _ h))

theorem close_same (s : Side) {X Y : Nat} (send : Bool) (h : X ≠ Y) : Same s (s.close Y send) X := by
  unfold Side.close
  split
  · split
    · exact Same.refl s X
    · exact (closeBegin_same s send h).trans (deregister_same _ h)
  · exact Same.refl s X

/-! ### at the identifier itself -/

theorem closeWrite_atEq (s : Side) (Y : Nat) (st : Stream) (hs : s.streams Y = some st)
    (hcw : st.closedWrite = false) (hm : s.closedMux = false) :
    AtEq (s.closeWrite Y true) Y (some { st with closedWrite := true }) (s.pendIncr Y) true
      (s.pendClose Y) s := by
  constructor <;>
    simp [Side.closeWrite, hs, hcw, Side.markClosedWrite, Side.enqCW, hm, Side.setStream, Side.used]

theorem closeBegin_atEq (s : Side) (Y : Nat) (st : Stream) (hs : s.streams Y = some st)
    (hc : st.closed = false) (hm : s.closedMux = false) :
    AtEq (s.closeBegin Y true) Y (some { st with closedWrite := true, closed := true }) none false true s := by
  by_cases hcw : st.closedWrite = true
  · constructor <;>
      simp [Side.closeBegin, Side.closeWrite, hs, hc, hcw, Side.markClosed, Side.enqClose, hm,
        Side.setStream, Side.used]
  · simp only [Bool.not_eq_true] at hcw
    constructor <;>
      simp [Side.closeBegin, Side.closeWrite, hs, hc, hcw, Side.markClosedWrite, Side.markClosed,
        Side.enqClose, hm, Side.setStream, Side.used]

theorem deregister_atEq (s : Side) (Y : Nat) (st : Stream) (hs : s.streams Y = some st) :
    AtEq (s.deregister Y) Y (some { st with registered := false }) (s.pendIncr Y) (s.pendCW Y)
      (s.pendClose Y) s := by
  constructor <;> simp [Side.deregister, hs, Side.setStream, Side.used]

end Mutagen.Model.Mux
