import Mutagen.Proofs.ExecHistory
import Mutagen.Proofs.EndpointValid
import Mutagen.Proofs.ReconcileValid
import Mutagen.Proofs.PhantomWF
import Mutagen.Proofs.PropagateWF
/-!
The invariant of C18's histories (`HInv`: valid synchronizable ancestor, valid
endpoint contents, phantom-free with Mutagen-style ignores) is preserved by a
fully applied cycle — reify, propagate, reconcile, apply both plans, ancestor
update — and by the user's edits. This discharges `CyclesPreserveValid`; it
rests on core-exec's `plan_application_valid` / `apply_valid_of_shape`
(Proofs/EndpointValid) and `ancestor_update_valid` (C05).
-/
open Mutagen.Model Mutagen.Model.ExecHistory Mutagen.Proofs.ExecHistory Mutagen.Proofs.Executability
  Mutagen.Proofs.Phantom Mutagen.Proofs.PhantomWF Mutagen.Proofs.PropagateWF

namespace Mutagen.Proofs.ExecHistoryValid

/-- The invariant of histories: the ancestor is a valid synchronizable tree,
both endpoint contents are valid (genuine maps passing `EnsureValid`), and —
with Mutagen-style ignores, where scans never report phantom directories — both
are phantom-free. -/
def HInv (docker : Bool) (s : State) : Prop :=
  ValidSync s.anc ∧ Valid s.P ∧ Valid s.N ∧ (docker = false → onoPhantom s.P = true ∧ onoPhantom s.N = true)

theorem inv_validState {docker : Bool} {s : State} (h : HInv docker s) : ValidState s :=
  ⟨h.1.2, h.2.1.2, h.2.2.1.2⟩

/-- The reified contents are valid and phantom-free. -/
theorem reified_wf (nAlpha docker : Bool) (s : State) (h : HInv docker s) :
    (Valid (reified nAlpha docker s).1 ∧ onoPhantom (reified nAlpha docker s).1 = true) ∧
    (Valid (reified nAlpha docker s).2 ∧ onoPhantom (reified nAlpha docker s).2 = true) := by
  obtain ⟨_, hP, hN, hph⟩ := h
  cases docker with
  | false => simp only [reified, Bool.false_eq_true, if_false]; exact ⟨⟨hP, (hph rfl).1⟩, ⟨hN, (hph rfl).2⟩⟩
  | true =>
    cases nAlpha with
    | true =>
      simp only [reified, if_true]
      have hw := reify_wf s.anc s.N s.P hN hP
      have hv := reify_valid s.anc s.N s.P hN.2 hP.2
      exact ⟨⟨⟨hw.2.1, hv.2⟩, hw.2.2⟩, ⟨⟨hw.1.1, hv.1⟩, hw.1.2⟩⟩
    | false =>
      simp only [reified, if_true, Bool.false_eq_true, if_false]
      have hw := reify_wf s.anc s.P s.N hP hN
      have hv := reify_valid s.anc s.P s.N hP.2 hN.2
      exact ⟨⟨⟨hw.1.1, hv.1⟩, hw.1.2⟩, ⟨⟨hw.2.1, hv.2⟩, hw.2.2⟩⟩

theorem validSync_osync_getPath {T : Option Entry} (hT : Valid T) (rel : Path) : ValidSync (osync (getPath T rel)) :=
  ⟨(hT.getPath rel).osync.1, Mutagen.Proofs.ReconcileValid.osync_valid _ (hT.getPath rel).2⟩

theorem applied_wf {S S0 : Option Entry} {r : Except ApplyErr (Option Entry)}
    (h0 : Valid S0 ∧ onoPhantom S0 = true) (h : ∀ S', r = .ok S' → Valid S' ∧ onoPhantom S' = true) :
    Valid (ExecHistory.applied S0 r) ∧ onoPhantom (ExecHistory.applied S0 r) = true := by
  cases r with
  | error e => exact h0
  | ok S' => exact h S' rfl

/-- `CyclesPreserveValid`, discharged: a fully applied cycle (reify, propagate,
reconcile, apply both plans exactly, ancestor update with ideal results) keeps
the invariant, and leaves both endpoints phantom-free. -/
theorem cycle_inv (mode : Mode) (nAlpha docker : Bool) (s : State) (h : HInv docker s) :
    HInv docker (ExecHistory.cycleStep mode nAlpha docker s) := by
  have hA := h.1
  obtain ⟨⟨hPr, hpP⟩, ⟨hNr, hpN⟩⟩ := reified_wf nAlpha docker s h
  obtain ⟨hN', hpN'⟩ := valid_prop s.anc (reified nAlpha docker s).1 (reified nAlpha docker s).2 hNr hpN
  cases nAlpha with
  | true =>
    simp only [ExecHistory.cycleStep, planOf, if_true]
    have hplan := plan_application_valid mode s.anc _ _ hN' hPr hpN' hpP
    have hshape := reconcile_changes_shape mode [] s.anc _ _ hN' hPr hpN' hpP
    have hPnew := applied_wf (S := none) ⟨hPr, hpP⟩ hplan.2
    have hNnew : Valid (ExecHistory.applied (reified true docker s).2 (apply (reified true docker s).2
          (Reconcile s.anc (propagateExecutability s.anc (reified true docker s).1 (reified true docker s).2)
            (reified true docker s).1 mode).alpha)) ∧ onoPhantom (ExecHistory.applied (reified true docker s).2
          (apply (reified true docker s).2 (Reconcile s.anc (propagateExecutability s.anc (reified true docker s).1
            (reified true docker s).2) (reified true docker s).1 mode).alpha)) = true := by
      refine applied_wf (S := none) ⟨hNr, hpN⟩ ?_
      intro S' hS'
      refine apply_valid_of_shape hNr hpN hPr hpP (reconcile_pairwise_alpha mode s.anc _ _) ?_ hS'
      intro c hc
      obtain ⟨rel, h1, h2, h3⟩ := hshape.1 c hc
      exact ⟨rel, h1, (dirParent_prop _ _ _ rel).mp h2, h3⟩
    obtain ⟨A', hA', hvA', _⟩ := ancestor_update_valid mode s.anc _ _
      ((Reconcile s.anc (propagateExecutability s.anc (reified true docker s).1 (reified true docker s).2)
        (reified true docker s).1 mode).alpha.map resultChange)
      ((Reconcile s.anc (propagateExecutability s.anc (reified true docker s).1 (reified true docker s).2)
        (reified true docker s).1 mode).beta.map resultChange) hA hN' hPr hpN' hpP
      (by
        intro c hc
        rcases List.mem_append.mp hc with hc | hc
        · obtain ⟨c0, hc0, rfl⟩ := List.mem_map.mp hc
          obtain ⟨rel, _, _, h3⟩ := hshape.1 c0 hc0
          simp only [resultChange]; rw [h3]; exact validSync_osync_getPath hPr rel
        · obtain ⟨c0, hc0, rfl⟩ := List.mem_map.mp hc
          obtain ⟨rel, _, _, h3⟩ := hshape.2 c0 hc0
          simp only [resultChange]; rw [h3]; exact validSync_osync_getPath hN' rel)
      (by simp [List.map_map, Function.comp_def, resultChange])
      (by simp [List.map_map, Function.comp_def, resultChange])
    refine ⟨?_, hPnew.1, hNnew.1, fun _ => ⟨hPnew.2, hNnew.2⟩⟩
    rw [List.append_assoc, hA']
    exact hvA'
  | false =>
    simp only [ExecHistory.cycleStep, planOf, Bool.false_eq_true, if_false]
    have hplan := plan_application_valid mode s.anc _ _ hPr hN' hpP hpN'
    have hshape := reconcile_changes_shape mode [] s.anc _ _ hPr hN' hpP hpN'
    have hPnew := applied_wf (S := none) ⟨hPr, hpP⟩ hplan.1
    have hNnew : Valid (ExecHistory.applied (reified false docker s).2 (apply (reified false docker s).2
          (Reconcile s.anc (reified false docker s).1 (propagateExecutability s.anc (reified false docker s).1
            (reified false docker s).2) mode).beta)) ∧ onoPhantom (ExecHistory.applied (reified false docker s).2
          (apply (reified false docker s).2 (Reconcile s.anc (reified false docker s).1
            (propagateExecutability s.anc (reified false docker s).1 (reified false docker s).2) mode).beta)) = true := by
      refine applied_wf (S := none) ⟨hNr, hpN⟩ ?_
      intro S' hS'
      refine apply_valid_of_shape hNr hpN hPr hpP (reconcile_pairwise_beta mode s.anc _ _) ?_ hS'
      intro c hc
      obtain ⟨rel, h1, h2, h3⟩ := hshape.2 c hc
      exact ⟨rel, h1, (dirParent_prop _ _ _ rel).mp h2, h3⟩
    obtain ⟨A', hA', hvA', _⟩ := ancestor_update_valid mode s.anc _ _
      ((Reconcile s.anc (reified false docker s).1 (propagateExecutability s.anc (reified false docker s).1
        (reified false docker s).2) mode).alpha.map resultChange)
      ((Reconcile s.anc (reified false docker s).1 (propagateExecutability s.anc (reified false docker s).1
        (reified false docker s).2) mode).beta.map resultChange) hA hPr hN' hpP hpN'
      (by
        intro c hc
        rcases List.mem_append.mp hc with hc | hc
        · obtain ⟨c0, hc0, rfl⟩ := List.mem_map.mp hc
          obtain ⟨rel, _, _, h3⟩ := hshape.1 c0 hc0
          simp only [resultChange]; rw [h3]; exact validSync_osync_getPath hN' rel
        · obtain ⟨c0, hc0, rfl⟩ := List.mem_map.mp hc
          obtain ⟨rel, _, _, h3⟩ := hshape.2 c0 hc0
          simp only [resultChange]; rw [h3]; exact validSync_osync_getPath hPr rel)
      (by simp [List.map_map, Function.comp_def, resultChange])
      (by simp [List.map_map, Function.comp_def, resultChange])
    refine ⟨?_, hPnew.1, hNnew.1, fun _ => ⟨hPnew.2, hNnew.2⟩⟩
    rw [List.append_assoc, hA']
    exact hvA'

/-! ## The user's edits keep the invariant -/

theorem setFile_nodup (t : Option Entry) (q : Path) (f : Props → Props) (ht : Valid t) :
    onodupKeys (setFile t q f) = true := by
  unfold setFile
  cases hg : getPath t q with
  | none => exact ht.1
  | some e =>
    obtain ⟨p, cs⟩ := e
    simp only
    split
    · cases ha : apply t [{ path := q, old := none, new := some (Entry.mk (f p) cs) }] with
      | error _ => exact ht.1
      | ok t' =>
        refine apply_nodupKeys ht.1 ?_ ha
        intro c hc
        simp only [List.mem_cons, List.not_mem_nil, or_false] at hc
        subst hc
        have := (ht.getPath q).1
        rw [hg] at this
        simpa [onodupKeys, Entry.nodupKeys] using this
    · exact ht.1

theorem setFile_Valid (t : Option Entry) (q : Path) (f : Props → Props) (ht : Valid t)
    (hf : ∀ p cs, (Entry.mk p cs).ensureValid false = true → p.kind = .file → (Entry.mk (f p) cs).ensureValid false = true) :
    Valid (setFile t q f) :=
  ⟨setFile_nodup t q f ht, setFile_valid false t q f ht.2 hf⟩

theorem setFile_noPhantom (t : Option Entry) (q : Path) (f : Props → Props) (ht : Valid t) (hp : onoPhantom t = true)
    (hf : ∀ p cs, (Entry.mk p cs).ensureValid false = true → p.kind = .file → (Entry.mk (f p) cs).ensureValid false = true)
    (hfk : ∀ p, (f p).kind = p.kind) :
    onoPhantom (setFile t q f) = true := by
  have hpw := pwE_of_valid ht hp
  have hres : PW NodeOkE (setFile t q f) := by
    unfold setFile
    cases hg : getPath t q with
    | none => exact hpw
    | some e =>
      obtain ⟨p, cs⟩ := e
      simp only
      split
      · rename_i hk
        have hk' : p.kind = .file := by simpa using hk
        have hvq : (Entry.mk p cs).ensureValid false = true := by
          have := (ht.getPath q).2
          rw [hg] at this; exact this
        obtain ⟨hcs, _, _⟩ := Mutagen.Proofs.Valid.valid_file false p cs hvq hk'
        subst hcs
        have hnewv := hf p [] hvq hk'
        have hnok : NodeOkE (f p) := (nodeOkE_of_ensureValid hnewv (by rw [hfk, hk']; simp)).1
        have hpq : pget t q = some p := by simp [pget, hg, Entry.props]
        have hnew : PW NodeOkE (some (Entry.mk (f p) [])) := by
          intro q' pr hq'
          cases q' with
          | nil =>
            simp only [pget, getPath, Option.map_some, Entry.props, Option.some.injEq] at hq'
            subst hq'
            exact ⟨hnok, Or.inl rfl⟩
          | cons n r =>
            simp [pget, getPath, contents, Entry.children, lookup, Mutagen.Proofs.Executability.getPath_none] at hq'
        obtain ⟨r', h1, _, h3⟩ := applyChange_pw NodeOkE t
          { path := q, old := none, new := some (Entry.mk (f p) []) } hpw hnew (hpw q p hpq).2
        simp only [apply, h1]
        exact h3
      · exact hpw
  exact (valid_of_pwE (setFile_nodup t q f ht) hres).2

/-- The user's steps that keep states in the invariant: N is replaced by valid
content (phantom-free with Mutagen-style ignores), and new file content has a
non-empty digest. -/
def StepOK (docker : Bool) : Step → Prop
  | .editN t => Valid t ∧ (docker = false → onoPhantom t = true)
  | .editP _ d => d ≠ []
  | _ => True

theorem chmod_ok (p : Props) (cs : Contents) (hv : (Entry.mk p cs).ensureValid false = true) (hk : p.kind = .file) :
    (Entry.mk { p with executable := !p.executable } cs).ensureValid false = true := by
  unfold Entry.ensureValid at hv ⊢
  simp only [hk] at hv ⊢
  exact hv

theorem editP_ok (d : List UInt8) (hd : d ≠ []) (p : Props) (cs : Contents)
    (hv : (Entry.mk p cs).ensureValid false = true) (hk : p.kind = .file) :
    (Entry.mk { p with digest := d } cs).ensureValid false = true := by
  unfold Entry.ensureValid at hv ⊢
  simp only [hk, Bool.and_eq_true] at hv ⊢
  exact ⟨hv.1, by simpa using hd⟩

theorem step_inv (mode : Mode) (nAlpha docker : Bool) (s : State) (x : Step) (hs : HInv docker s)
    (hx : StepOK docker x) : HInv docker (step mode nAlpha docker s x) := by
  cases x with
  | cycle => exact cycle_inv mode nAlpha docker s hs
  | editN t => exact ⟨hs.1, hs.2.1, hx.1, fun hd => ⟨(hs.2.2.2 hd).1, hx.2 hd⟩⟩
  | chmodP q =>
    refine ⟨hs.1, setFile_Valid s.P q _ hs.2.1 chmod_ok, hs.2.2.1, fun hd => ⟨?_, (hs.2.2.2 hd).2⟩⟩
    exact setFile_noPhantom s.P q _ hs.2.1 (hs.2.2.2 hd).1 chmod_ok (fun _ => rfl)
  | editP q d =>
    refine ⟨hs.1, setFile_Valid s.P q _ hs.2.1 (editP_ok d hx), hs.2.2.1, fun hd => ⟨?_, (hs.2.2.2 hd).2⟩⟩
    exact setFile_noPhantom s.P q _ hs.2.1 (hs.2.2.2 hd).1 (editP_ok d hx) (fun _ => rfl)

theorem run_inv (mode : Mode) (nAlpha docker : Bool) (steps : List Step) :
    ∀ (s : State), HInv docker s → (∀ x ∈ steps, StepOK docker x) →
    ∀ pre, pre <+: steps → HInv docker (run mode nAlpha docker s pre) := by
  induction steps with
  | nil => intro s hs _ pre hpre; simp at hpre; subst hpre; exact hs
  | cons x rest ih =>
    intro s hs hx pre hpre
    cases pre with
    | nil => exact hs
    | cons y pre' =>
      have hy : y = x ∧ pre' <+: rest := by simpa [List.cons_prefix_cons] using hpre
      obtain ⟨rfl, hp'⟩ := hy
      have := ih (step mode nAlpha docker s y) (step_inv mode nAlpha docker s y hs (hx y (List.mem_cons_self ..)))
        (fun z hz => hx z (List.mem_cons_of_mem _ hz)) pre' hp'
      simpa [run] using this

/-- `CyclesPreserveValid` holds for the invariant's notion of validity. -/
theorem cycles_preserve_inv (mode : Mode) (nAlpha docker : Bool) :
    ∀ s, HInv docker s → HInv docker (ExecHistory.cycleStep mode nAlpha docker s) :=
  cycle_inv mode nAlpha docker

end Mutagen.Proofs.ExecHistoryValid
