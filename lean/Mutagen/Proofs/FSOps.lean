import Mutagen.Proofs.FSLemmas
/-!
Specifications of the primitive operations of `Mutagen.Model.TFS` (`fsMkdir`,
`fsSymlink`, `fsChmod`, `fsRmdir`, `fsUnlink`, `fsPut`): what must hold at the
target position for the operation to succeed, what is there afterwards, and
the frame.
-/
namespace Mutagen.Proofs.FS
open Mutagen.Model Mutagen.Model.TFS Mutagen.Proofs.Assoc

theorem get_child (top : Node) (h : Handle) (p : Nat) (cs : Kids) (hh : top.get h = some (.dir p cs)) (n : Name) :
    top.get (h ++ [n]) = aget n cs := by
  simp only [get_append, hh, Option.bind_some, get_cons_dir]
  cases aget n cs <;> simp [get_nil]

/-- The frame every primitive shares. -/
def Frame (top top' : Node) (q0 : List Name) : Prop :=
  ∀ q, ¬ q0 <+: q → sget top' q = sget top q

theorem localAt_aset (name : Name) (g : Kids → Option Node) :
    LocalAt name (fun cs => (g cs).map fun v => aset name v cs) := by
  intro cs cs' h m hm
  simp only [Option.map_eq_some_iff] at h
  obtain ⟨v, _, rfl⟩ := h
  exact aget_aset_ne name m v cs (Ne.symm hm)

theorem fsMkdir_spec (top top' : Node) (h : Handle) (n : Name) (hu : fsMkdir top h n = some top') :
    top.get (h ++ [n]) = none ∧ top'.get (h ++ [n]) = some (.dir 0o700 []) ∧ Frame top top' (h ++ [n]) := by
  unfold fsMkdir at hu
  obtain ⟨p, cs, cs', h1, h2, h3⟩ := updDir_at _ _ _ _ hu
  have hloc : LocalAt n (fun cs => if (n == "") = true then none else
      match aget n cs with | some _ => none | none => some (aset n (Node.dir 0o700 []) cs)) := by
    intro a b hab m hm
    dsimp only at hab
    grind [aget_aset, aget_adel]
  refine ⟨?_, ?_, fun q hq => updDir_frame _ _ _ n _ hu hloc q hq⟩
  · rw [get_child top h p cs h1]
    split at h2
    · simp at h2
    · split at h2
      · simp at h2
      · assumption
  · rw [get_child top' h p cs' h3]
    split at h2
    · simp at h2
    · split at h2
      · simp at h2
      · simp only [Option.some.injEq] at h2; subst h2
        exact aget_aset_self _ _ _

theorem fsSymlink_spec (top top' : Node) (h : Handle) (n : Name) (t : String) (hu : fsSymlink top h n t = some top') :
    top.get (h ++ [n]) = none ∧ top'.get (h ++ [n]) = some (.symlink t) ∧ Frame top top' (h ++ [n]) := by
  unfold fsSymlink at hu
  obtain ⟨p, cs, cs', h1, h2, h3⟩ := updDir_at _ _ _ _ hu
  have hloc : LocalAt n (fun cs => if (n == "" || t == "") = true then none else
      match aget n cs with | some _ => none | none => some (aset n (Node.symlink t) cs)) := by
    intro a b hab m hm
    dsimp only at hab
    grind [aget_aset, aget_adel]
  refine ⟨?_, ?_, fun q hq => updDir_frame _ _ _ n _ hu hloc q hq⟩
  · rw [get_child top h p cs h1]
    split at h2
    · simp at h2
    · split at h2
      · simp at h2
      · assumption
  · rw [get_child top' h p cs' h3]
    split at h2
    · simp at h2
    · split at h2
      · simp at h2
      · simp only [Option.some.injEq] at h2; subst h2
        exact aget_aset_self _ _ _

theorem fsUnlink_spec (top top' : Node) (h : Handle) (n : Name) (hu : fsUnlink top h n = some top') :
    (∃ nd, top.get (h ++ [n]) = some nd ∧ nd.isDir = false) ∧ top'.get (h ++ [n]) = none ∧
      Frame top top' (h ++ [n]) := by
  unfold fsUnlink at hu
  obtain ⟨p, cs, cs', h1, h2, h3⟩ := updDir_at _ _ _ _ hu
  have hloc : LocalAt n (fun cs => match aget n cs with
      | some (Node.dir _ _) => none | some _ => some (adel n cs) | none => none) := by
    intro a b hab m hm
    dsimp only at hab
    grind [aget_aset, aget_adel]
  refine ⟨?_, ?_, fun q hq => updDir_frame _ _ _ n _ hu hloc q hq⟩
  · rw [get_child top h p cs h1]
    split at h2
    · simp at h2
    · rename_i nd hnd hget
      refine ⟨nd, hget, ?_⟩
      cases nd with
      | dir p k => exact absurd rfl (hnd p k)
      | _ => rfl
    · simp at h2
  · rw [get_child top' h p cs' h3]
    split at h2
    · simp at h2
    · simp only [Option.some.injEq] at h2; subst h2
      exact aget_adel_self _ _
    · simp at h2

theorem fsRmdir_spec (top top' : Node) (h : Handle) (n : Name) (hu : fsRmdir top h n = some top') :
    (∃ p, top.get (h ++ [n]) = some (.dir p [])) ∧ top'.get (h ++ [n]) = none ∧ Frame top top' (h ++ [n]) := by
  unfold fsRmdir at hu
  obtain ⟨p, cs, cs', h1, h2, h3⟩ := updDir_at _ _ _ _ hu
  have hloc : LocalAt n (fun cs => match aget n cs with
      | some (Node.dir _ []) => some (adel n cs) | _ => none) := by
    intro a b hab m hm
    dsimp only at hab
    grind [aget_aset, aget_adel]
  refine ⟨?_, ?_, fun q hq => updDir_frame _ _ _ n _ hu hloc q hq⟩
  · rw [get_child top h p cs h1]
    split at h2
    · rename_i p' hget
      exact ⟨p', hget⟩
    · simp at h2
  · rw [get_child top' h p cs' h3]
    split at h2
    · simp only [Option.some.injEq] at h2; subst h2
      exact aget_adel_self _ _
    · simp at h2

theorem fsPut_spec (top top' : Node) (h : Handle) (n : Name) (node : Node) (replace : Bool)
    (hu : fsPut top h n node replace = some top') :
    (top.get (h ++ [n]) = none ∨ (replace = true ∧ ∃ nd, top.get (h ++ [n]) = some nd ∧ nd.isDir = false)) ∧
      top'.get (h ++ [n]) = some node ∧ Frame top top' (h ++ [n]) := by
  unfold fsPut at hu
  obtain ⟨p, cs, cs', h1, h2, h3⟩ := updDir_at _ _ _ _ hu
  have hloc : LocalAt n (fun cs => if (n == "") = true then none else
      match aget n cs with
      | none => some (aset n node cs)
      | some (Node.dir _ _) => none
      | some _ => if replace = true then some (aset n node cs) else none) := by
    intro a b hab m hm
    dsimp only at hab
    grind [aget_aset, aget_adel]
  refine ⟨?_, ?_, fun q hq => updDir_frame _ _ _ n _ hu hloc q hq⟩
  · rw [get_child top h p cs h1]
    split at h2
    · simp at h2
    · split at h2
      · left; assumption
      · simp at h2
      · rename_i nd hnd hget
        split at h2
        · rename_i hr
          right
          refine ⟨hr, nd, hget, ?_⟩
          cases nd with
          | dir p k => exact absurd rfl (hnd p k)
          | _ => rfl
        · simp at h2
  · rw [get_child top' h p cs' h3]
    split at h2
    · simp at h2
    · split at h2
      · simp only [Option.some.injEq] at h2; subst h2; exact aget_aset_self _ _ _
      · simp at h2
      · split at h2
        · simp only [Option.some.injEq] at h2; subst h2; exact aget_aset_self _ _ _
        · simp at h2

/-- `fsChmod` changes only the permission bits of the node itself: every other
position (also below a directory) keeps its shallow node. -/
theorem fsChmod_spec (top top' : Node) (h : Handle) (n : Name) (perm : Nat) (hu : fsChmod top h n perm = some top') :
    (∃ nd, top.get (h ++ [n]) = some nd) ∧ (∀ q, q ≠ h ++ [n] → sget top' q = sget top q) ∧
    (∀ p, sget top (h ++ [n]) = some (.dir p) → sget top' (h ++ [n]) = some (.dir perm)) ∧
    (∀ d p m i, sget top (h ++ [n]) = some (.file d p m i) → sget top' (h ++ [n]) = some (.file d perm m i)) := by
  unfold fsChmod at hu
  obtain ⟨p, cs, cs', h1, h2, h3⟩ := updDir_at _ _ _ _ hu
  have hloc : LocalAt n (fun cs => match aget n cs with
      | some (Node.dir _ k) => some (aset n (Node.dir perm k) cs)
      | some (Node.file d _ m i) => some (aset n (Node.file d perm m i) cs)
      | _ => none) := by
    intro a b hab m hm
    dsimp only at hab
    grind [aget_aset, aget_adel]
  have hframe := fun q hq => updDir_frame _ _ _ n _ hu hloc q hq
  have g1 := get_child top h p cs h1 n
  have g2 := get_child top' h p cs' h3 n
  split at h2
  · -- directory
    rename_i p0 k hget
    simp only [Option.some.injEq] at h2; subst h2
    rw [aget_aset_self] at g2
    refine ⟨⟨_, by rw [g1]; exact hget⟩, ?_, ?_, ?_⟩
    · intro q hq
      by_cases hp : (h ++ [n]) <+: q
      · obtain ⟨r, rfl⟩ := hp
        cases r with
        | nil => simp at hq
        | cons m r =>
          simp only [sget, get_append (a := h ++ [n]), g1, g2, hget, Option.bind_some, get_cons_dir]
      · exact hframe q hp
    · intro p' _
      simp [sget, g2, shallow]
    · intro d p' m i hs
      simp [sget, g1, hget, shallow] at hs
  · -- file
    rename_i d p0 m i hget
    simp only [Option.some.injEq] at h2; subst h2
    rw [aget_aset_self] at g2
    refine ⟨⟨_, by rw [g1]; exact hget⟩, ?_, ?_, ?_⟩
    · intro q hq
      by_cases hp : (h ++ [n]) <+: q
      · obtain ⟨r, rfl⟩ := hp
        cases r with
        | nil => simp at hq
        | cons m' r =>
          simp only [sget, get_append (a := h ++ [n]), g1, g2, hget, Option.bind_some, Node.get]
      · exact hframe q hp
    · intro p' hs
      simp [sget, g1, hget, shallow] at hs
    · intro d' p' m' i' hs
      simp only [sget, g1, hget, Option.map_some, shallow, Option.some.injEq, Shallow.file.injEq] at hs
      obtain ⟨rfl, _, rfl, rfl⟩ := hs
      simp [sget, g2, shallow]
  · simp at h2

end Mutagen.Proofs.FS
