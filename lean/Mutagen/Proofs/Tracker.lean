import Mutagen.Model.Tracker
/-!
Invariants of the Tracker model and their preservation by every step
(helper lemmas for `Mutagen.Properties.C30`).
-/
namespace Mutagen.Proofs.Tracker
open Mutagen.Model.Tracker

theorem upd_same {α : Type} (f : Nat → α) (k : Nat) (v : α) : upd f k v k = v := by
  simp [upd]

theorem upd_other {α : Type} (f : Nat → α) (k : Nat) (v : α) (i : Nat) (h : i ≠ k) :
    upd f k v i = f i := by
  simp [upd, h]

theorem nextIndex_ne_zero (i : Nat) : nextIndex i ≠ 0 := by
  unfold nextIndex
  split <;> simp_all

theorem nextIndex_lt (i : Nat) : nextIndex i < wrap := by
  unfold nextIndex
  split
  · decide
  · exact Nat.mod_lt _ (by decide)

theorem nextIndex_eq (i : Nat) (h : i + 1 < wrap) : nextIndex i = i + 1 := by
  unfold nextIndex
  rw [Nat.mod_eq_of_lt h]
  simp

/-- The safety invariant. -/
structure Inv (s : State) : Prop where
  idx_pos : s.index ≠ 0
  idx_lt : s.index < wrap
  /-- no lost wakeup: an answerable registered request implies a runnable tracking goroutine -/
  wake : ∀ w p, s.reqs w = some p → (s.terminated = true ∨ p ≠ s.index) → s.track = .runnable
  term_wake : s.terminated = true → s.track ≠ .exited → s.track = .runnable
  exited : s.track = .exited → s.terminated = true ∧ ∀ w, s.reqs w = none
  req_pc : ∀ w p, s.reqs w = some p → s.pc w = .pollWait p ∧ s.chan w = none
  chan_pc : ∀ w r, s.chan w = some r →
    ∃ p, s.pc w = .pollWait p ∧ (r.terminated = true ∨ r.index ≠ p) ∧ r.index ≠ 0 ∧
      (r.terminated = true → s.terminated = true)
  wait_live : ∀ w p, s.pc w = .pollWait p → s.reqs w = some p ∨ ∃ r, s.chan w = some r
  termwait : ∀ w, s.pc w = .termWait → s.terminated = true
  done_pos : ∀ w r, s.pc w = .done (some r) → r.index ≠ 0

theorem inv_init : Inv init := by
  constructor <;> simp [init, wrap]

/-- `signal` only ever changes `track`, from `waiting` to `runnable`. -/
theorem signal_fields (s : State) :
    (signal s).index = s.index ∧ (signal s).terminated = s.terminated ∧ (signal s).reqs = s.reqs ∧
    (signal s).chan = s.chan ∧ (signal s).pc = s.pc ∧ (signal s).cancelled = s.cancelled ∧
    (signal s).tlHolder = s.tlHolder := by
  unfold signal; split <;> simp

theorem signal_track (s : State) :
    (s.track = .waiting ∧ (signal s).track = .runnable) ∨ (s.track ≠ .waiting ∧ (signal s).track = s.track) := by
  unfold signal
  split
  · left; simp_all
  · right; simp_all

theorem signal_not_waiting (s : State) : (signal s).track ≠ .waiting := by
  rcases signal_track s with ⟨_, h⟩ | ⟨h1, h2⟩
  · simp [h]
  · rw [h2]; exact h1

theorem signal_exited (s : State) : (signal s).track = .exited ↔ s.track = .exited := by
  rcases signal_track s with ⟨h1, h2⟩ | ⟨_, h2⟩
  · simp [h1, h2]
  · rw [h2]

/-- After a signal, the tracking goroutine is runnable unless it has exited. -/
theorem signal_runnable (s : State) (h : s.track ≠ .exited) : (signal s).track = .runnable := by
  have h1 := signal_not_waiting s
  have h2 : (signal s).track ≠ .exited := fun e => h ((signal_exited s).mp e)
  cases h3 : (signal s).track <;> simp_all

/-- Changing only a caller's program counter to a value that is neither
`pollWait` nor relevant to the registry keeps the invariant, provided the
caller has no registered request and no buffered response. -/
theorem inv_setPc (s : State) (w : Nat) (q : Pc) (hi : Inv s)
    (hreq : s.reqs w = none) (hchan : s.chan w = none)
    (hq1 : ∀ p, q ≠ .pollWait p)
    (hq2 : q = .termWait → s.terminated = true)
    (hq3 : ∀ r, q = .done (some r) → r.index ≠ 0) : Inv (s.setPc w q) := by
  constructor
  · exact hi.idx_pos
  · exact hi.idx_lt
  · exact hi.wake
  · exact hi.term_wake
  · exact hi.exited
  · intro w' p h
    have hne : w' ≠ w := by intro e; subst e; simp [State.setPc] at h; rw [hreq] at h; cases h
    have := hi.req_pc w' p h
    simpa [State.setPc, upd_other _ _ _ _ hne] using this
  · intro w' r h
    have hne : w' ≠ w := by intro e; subst e; simp [State.setPc] at h; rw [hchan] at h; cases h
    have := hi.chan_pc w' r h
    simpa [State.setPc, upd_other _ _ _ _ hne] using this
  · intro w' p h
    by_cases hne : w' = w
    · subst hne; simp [State.setPc, upd_same] at h; exact absurd h (hq1 p)
    · simp [State.setPc, upd_other _ _ _ _ hne] at h; exact hi.wait_live w' p h
  · intro w' h
    by_cases hne : w' = w
    · subst hne; simp [State.setPc, upd_same] at h; exact hq2 h
    · simp [State.setPc, upd_other _ _ _ _ hne] at h; exact hi.termwait w' h
  · intro w' r h
    by_cases hne : w' = w
    · subst hne; simp [State.setPc, upd_same] at h; exact hq3 r h
    · simp [State.setPc, upd_other _ _ _ _ hne] at h; exact hi.done_pos w' r h

/-- A caller that is not in the select has neither a request nor a response. -/
theorem no_req_of_pc (s : State) (hi : Inv s) (w : Nat) (h : ∀ p, s.pc w ≠ .pollWait p) :
    s.reqs w = none ∧ s.chan w = none := by
  constructor
  · cases hr : s.reqs w with
    | none => rfl
    | some p => exact absurd (hi.req_pc w p hr).1 (h p)
  · cases hc : s.chan w with
    | none => rfl
    | some r =>
      obtain ⟨p, hp, _⟩ := hi.chan_pc w r hc
      exact absurd hp (h p)

/-- `cancelled` and `tlHolder` are not mentioned by the invariant. -/
theorem inv_aux (s : State) (c : Nat → Bool) (t : Option Nat) (h : Inv s) :
    Inv { s with cancelled := c, tlHolder := t } :=
  ⟨h.idx_pos, h.idx_lt, h.wake, h.term_wake, h.exited, h.req_pc, h.chan_pc, h.wait_live, h.termwait, h.done_pos⟩

/-- The invariant survives a signal. -/
theorem inv_signal (s : State) (h : Inv s) : Inv (signal s) := by
  obtain ⟨e1, e2, e3, e4, e5, _, _⟩ := signal_fields s
  constructor
  · rw [e1]; exact h.idx_pos
  · rw [e1]; exact h.idx_lt
  · intro w p hr ha
    rw [e3] at hr; rw [e1, e2] at ha
    have := h.wake w p hr ha
    rcases signal_track s with ⟨h1, _⟩ | ⟨_, h2⟩
    · rw [this] at h1; cases h1
    · rw [h2]; exact this
  · intro ht hne
    exact signal_runnable s (fun e => hne ((signal_exited s).mpr e))
  · intro he
    rw [e2, e3]; exact h.exited ((signal_exited s).mp he)
  · intro w p hr; rw [e3] at hr; rw [e5, e4]; exact h.req_pc w p hr
  · intro w r hc; rw [e4] at hc; rw [e5, e2]; exact h.chan_pc w r hc
  · intro w p hp; rw [e5] at hp; rw [e3, e4]; exact h.wait_live w p hp
  · intro w hp; rw [e5] at hp; rw [e2]; exact h.termwait w hp
  · intro w r hp; rw [e5] at hp; exact h.done_pos w r hp

/-- NotifyOfChange's index update followed by the signal. -/
theorem inv_bump (s : State) (h : Inv s) (hnt : s.terminated = false) :
    Inv (signal { s with index := nextIndex s.index }) := by
  have hs := signal_fields { s with index := nextIndex s.index }
  obtain ⟨e1, e2, e3, e4, e5, _, _⟩ := hs
  simp only at e1 e2 e3 e4 e5
  have hex : (signal { s with index := nextIndex s.index }).track = .exited ↔ s.track = .exited :=
    signal_exited _
  have hnex : s.track ≠ .exited := by
    intro e; have := (h.exited e).1; rw [hnt] at this; cases this
  constructor
  · rw [e1]; exact nextIndex_ne_zero _
  · rw [e1]; exact nextIndex_lt _
  · intro w p _ _
    exact signal_runnable _ hnex
  · intro ht; rw [e2, hnt] at ht; cases ht
  · intro he; exact absurd (hex.mp he) hnex
  · intro w p hr; rw [e3] at hr; rw [e5, e4]; exact h.req_pc w p hr
  · intro w r hc; rw [e4] at hc; rw [e5, e2]; exact h.chan_pc w r hc
  · intro w p hp; rw [e5] at hp; rw [e3, e4]; exact h.wait_live w p hp
  · intro w hp; rw [e5] at hp; rw [e2]; exact h.termwait w hp
  · intro w r hp; rw [e5] at hp; exact h.done_pos w r hp

/-- Terminate's flag write followed by the signal. -/
theorem inv_term (s : State) (h : Inv s) : Inv (signal { s with terminated := true }) := by
  obtain ⟨e1, e2, e3, e4, e5, _, _⟩ := signal_fields { s with terminated := true }
  simp only at e1 e2 e3 e4 e5
  have hex : (signal { s with terminated := true }).track = .exited ↔ s.track = .exited :=
    signal_exited _
  constructor
  · rw [e1]; exact h.idx_pos
  · rw [e1]; exact h.idx_lt
  · intro w p hr _
    rw [e3] at hr
    by_cases he : s.track = .exited
    · have := (h.exited he).2 w; rw [this] at hr; cases hr
    · exact signal_runnable _ he
  · intro _ hne
    exact signal_runnable _ (fun e => hne (hex.mpr e))
  · intro he; rw [e2, e3]; exact ⟨rfl, (h.exited (hex.mp he)).2⟩
  · intro w p hr; rw [e3] at hr; rw [e5, e4]; exact h.req_pc w p hr
  · intro w r hc; rw [e4] at hc; rw [e5, e2]
    obtain ⟨p, h1, h2, h3, _⟩ := h.chan_pc w r hc
    exact ⟨p, h1, h2, h3, fun _ => rfl⟩
  · intro w p hp; rw [e5] at hp; rw [e3, e4]; exact h.wait_live w p hp
  · intro w _; rw [e2]
  · intro w r hp; rw [e5] at hp; exact h.done_pos w r hp

/-- Registration of a poll request followed by the signal (tracking not terminated). -/
theorem inv_register (s : State) (h : Inv s) (w prev : Nat) (hnt : s.terminated = false)
    (hpc : s.pc w = .pollPre prev) :
    Inv ((signal { s with reqs := upd s.reqs w (some prev), chan := upd s.chan w none }).setPc w (.pollWait prev)) := by
  obtain ⟨e1, e2, e3, e4, e5, _, _⟩ :=
    signal_fields { s with reqs := upd s.reqs w (some prev), chan := upd s.chan w none }
  simp only at e1 e2 e3 e4 e5
  have hex := signal_exited { s with reqs := upd s.reqs w (some prev), chan := upd s.chan w none }
  simp only at hex
  have hnex : s.track ≠ .exited := by
    intro e; have := (h.exited e).1; rw [hnt] at this; cases this
  have hno := no_req_of_pc s h w (by intro p; rw [hpc]; simp)
  constructor
  · show (signal _).index ≠ 0; rw [e1]; exact h.idx_pos
  · show (signal _).index < wrap; rw [e1]; exact h.idx_lt
  · intro w' p _ _
    show (signal _).track = _
    exact signal_runnable _ hnex
  · intro ht
    have : (signal { s with reqs := upd s.reqs w (some prev), chan := upd s.chan w none }).terminated = true := ht
    rw [e2, hnt] at this; cases this
  · intro he
    have : (signal { s with reqs := upd s.reqs w (some prev), chan := upd s.chan w none }).track = .exited := he
    exact absurd (hex.mp this) hnex
  · intro w' p hr
    have hr' : (signal { s with reqs := upd s.reqs w (some prev), chan := upd s.chan w none }).reqs w' = some p := hr
    rw [e3] at hr'
    show upd (signal _).pc w (.pollWait prev) w' = _ ∧ (signal _).chan w' = none
    rw [e4, e5]
    by_cases hw : w' = w
    · subst hw; rw [upd_same] at hr'; cases hr'
      exact ⟨upd_same _ _ _, upd_same _ _ _⟩
    · rw [upd_other _ _ _ _ hw] at hr' ⊢
      rw [upd_other _ _ _ _ hw]
      exact h.req_pc w' p hr'
  · intro w' r hc
    have hc' : (signal { s with reqs := upd s.reqs w (some prev), chan := upd s.chan w none }).chan w' = some r := hc
    rw [e4] at hc'
    show ∃ p, upd (signal _).pc w (.pollWait prev) w' = _ ∧ _ ∧ _ ∧ ((r.terminated = true) → (signal _).terminated = true)
    rw [e5, e2]
    by_cases hw : w' = w
    · subst hw; rw [upd_same] at hc'; cases hc'
    · rw [upd_other _ _ _ _ hw] at hc' ⊢
      exact h.chan_pc w' r hc'
  · intro w' p hp
    have hp' : upd (signal { s with reqs := upd s.reqs w (some prev), chan := upd s.chan w none }).pc w (.pollWait prev) w' = .pollWait p := hp
    rw [e5] at hp'
    show (signal _).reqs w' = some p ∨ ∃ r, (signal _).chan w' = some r
    rw [e3, e4]
    by_cases hw : w' = w
    · subst hw; rw [upd_same] at hp'; cases hp'
      left; exact upd_same _ _ _
    · rw [upd_other _ _ _ _ hw] at hp'
      rw [upd_other _ _ _ _ hw, upd_other _ _ _ _ hw]
      exact h.wait_live w' p hp'
  · intro w' hp
    have hp' : upd (signal { s with reqs := upd s.reqs w (some prev), chan := upd s.chan w none }).pc w (.pollWait prev) w' = .termWait := hp
    rw [e5] at hp'
    show (signal _).terminated = true
    rw [e2]
    by_cases hw : w' = w
    · subst hw; rw [upd_same] at hp'; cases hp'
    · rw [upd_other _ _ _ _ hw] at hp'; exact h.termwait w' hp'
  · intro w' r hp
    have hp' : upd (signal { s with reqs := upd s.reqs w (some prev), chan := upd s.chan w none }).pc w (.pollWait prev) w' = .done (some r) := hp
    rw [e5] at hp'
    by_cases hw : w' = w
    · subst hw; rw [upd_same] at hp'; cases hp'
    · rw [upd_other _ _ _ _ hw] at hp'; exact h.done_pos w' r hp'

theorem hit_iff (s : State) (w : Nat) :
    hit s w = true ↔ ∃ p, s.reqs w = some p ∧ (s.terminated = true ∨ p ≠ s.index) := by
  unfold hit
  cases h : s.reqs w with
  | none => simp
  | some p => simp

/-- One pass of the tracking loop keeps the invariant. -/
theorem inv_trackBody (s : State) (h : Inv s) : Inv (trackBody s) := by
  constructor
  · exact h.idx_pos
  · exact h.idx_lt
  · intro w p hr ha
    simp only [trackBody] at hr ha
    by_cases hh : hit s w = true
    · simp [hh] at hr
    · simp [hh] at hr
      exact absurd ((hit_iff s w).mpr ⟨p, hr, ha⟩) hh
  · intro ht hne
    simp only [trackBody] at ht hne
    simp [ht] at hne
  · intro he
    simp only [trackBody] at he ⊢
    have ht : s.terminated = true := by
      cases hb : s.terminated with
      | true => rfl
      | false => simp [hb] at he
    refine ⟨ht, fun w => ?_⟩
    by_cases hh : hit s w = true
    · simp [hh]
    · simp [hh]
      cases hr : s.reqs w with
      | none => rfl
      | some p => exact absurd ((hit_iff s w).mpr ⟨p, hr, Or.inl ht⟩) hh
  · intro w p hr
    simp only [trackBody] at hr ⊢
    by_cases hh : hit s w = true
    · simp [hh] at hr
    · simp [hh] at hr ⊢
      exact h.req_pc w p hr
  · intro w r hc
    simp only [trackBody] at hc ⊢
    by_cases hh : hit s w = true
    · simp [hh] at hc
      obtain ⟨p, hr, ha⟩ := (hit_iff s w).mp hh
      refine ⟨p, (h.req_pc w p hr).1, ?_, ?_, ?_⟩
      · subst hc
        rcases ha with ha | ha
        · left; exact ha
        · right; exact fun e => ha e.symm
      · subst hc; exact h.idx_pos
      · subst hc; exact fun e => e
    · simp [hh] at hc
      exact h.chan_pc w r hc
  · intro w p hp
    simp only [trackBody] at hp ⊢
    rcases h.wait_live w p hp with hr | ⟨r, hc⟩
    · by_cases hh : hit s w = true
      · right; simp [hh]
      · left; simp [hh]; exact hr
    · have hnone : s.reqs w = none := by
        cases hr : s.reqs w with
        | none => rfl
        | some q => have := (h.req_pc w q hr).2; rw [hc] at this; cases this
      have hh : hit s w = false := by unfold hit; rw [hnone]
      right; exact ⟨r, by simp [hh, hc]⟩
  · exact h.termwait
  · exact h.done_pos

/-- Deregistration after cancellation. -/
theorem inv_cancelCs (s : State) (h : Inv s) (w p : Nat) (hpc : s.pc w = .pollWait p) :
    Inv ({ s with reqs := upd s.reqs w none, chan := upd s.chan w none }.setPc w
      (.done (some ⟨s.index, .canceled⟩))) := by
  constructor
  · exact h.idx_pos
  · exact h.idx_lt
  · intro w' q hr ha
    simp only [State.setPc] at hr ha ⊢
    by_cases hw : w' = w
    · subst hw; rw [upd_same] at hr; cases hr
    · rw [upd_other _ _ _ _ hw] at hr; exact h.wake w' q hr ha
  · exact h.term_wake
  · intro he
    simp only [State.setPc] at he ⊢
    refine ⟨(h.exited he).1, fun w' => ?_⟩
    by_cases hw : w' = w
    · subst hw; exact upd_same _ _ _
    · rw [upd_other _ _ _ _ hw]; exact (h.exited he).2 w'
  · intro w' q hr
    simp only [State.setPc] at hr ⊢
    by_cases hw : w' = w
    · subst hw; rw [upd_same] at hr; cases hr
    · rw [upd_other _ _ _ _ hw] at hr ⊢; rw [upd_other _ _ _ _ hw]; exact h.req_pc w' q hr
  · intro w' r hc
    simp only [State.setPc] at hc ⊢
    by_cases hw : w' = w
    · subst hw; rw [upd_same] at hc; cases hc
    · rw [upd_other _ _ _ _ hw] at hc ⊢; exact h.chan_pc w' r hc
  · intro w' q hp
    simp only [State.setPc] at hp ⊢
    by_cases hw : w' = w
    · subst hw; rw [upd_same] at hp; cases hp
    · rw [upd_other _ _ _ _ hw] at hp ⊢; rw [upd_other _ _ _ _ hw]; exact h.wait_live w' q hp
  · intro w' hp
    simp only [State.setPc] at hp ⊢
    by_cases hw : w' = w
    · subst hw; rw [upd_same] at hp; cases hp
    · rw [upd_other _ _ _ _ hw] at hp; exact h.termwait w' hp
  · intro w' r hp
    simp only [State.setPc] at hp
    by_cases hw : w' = w
    · subst hw; rw [upd_same] at hp; cases hp; exact h.idx_pos
    · rw [upd_other _ _ _ _ hw] at hp; exact h.done_pos w' r hp

/-- The select takes the response branch. -/
theorem inv_recv (s : State) (h : Inv s) (w p : Nat) (r : Resp) (hpc : s.pc w = .pollWait p)
    (hc : s.chan w = some r) :
    Inv ({ s with chan := upd s.chan w none }.setPc w
      (.done (some ⟨r.index, if r.terminated then .terminated else .ok⟩))) := by
  have hnone : s.reqs w = none := by
    cases hr : s.reqs w with
    | none => rfl
    | some q => have := (h.req_pc w q hr).2; rw [hc] at this; cases this
  obtain ⟨_, _, _, hr0, _⟩ := h.chan_pc w r hc
  constructor
  · exact h.idx_pos
  · exact h.idx_lt
  · exact h.wake
  · exact h.term_wake
  · exact h.exited
  · intro w' q hr
    simp only [State.setPc] at hr ⊢
    have hw : w' ≠ w := by intro e; subst e; rw [hnone] at hr; cases hr
    rw [upd_other _ _ _ _ hw, upd_other _ _ _ _ hw]; exact h.req_pc w' q hr
  · intro w' r' hc'
    simp only [State.setPc] at hc' ⊢
    by_cases hw : w' = w
    · subst hw; rw [upd_same] at hc'; cases hc'
    · rw [upd_other _ _ _ _ hw] at hc' ⊢; exact h.chan_pc w' r' hc'
  · intro w' q hp
    simp only [State.setPc] at hp ⊢
    by_cases hw : w' = w
    · subst hw; rw [upd_same] at hp; cases hp
    · rw [upd_other _ _ _ _ hw] at hp ⊢; exact h.wait_live w' q hp
  · intro w' hp
    simp only [State.setPc] at hp ⊢
    by_cases hw : w' = w
    · subst hw; rw [upd_same] at hp; cases hp
    · rw [upd_other _ _ _ _ hw] at hp; exact h.termwait w' hp
  · intro w' r' hp
    simp only [State.setPc] at hp
    by_cases hw : w' = w
    · subst hw; rw [upd_same] at hp; cases hp; exact hr0
    · rw [upd_other _ _ _ _ hw] at hp; exact h.done_pos w' r' hp

/-- Every critical section keeps the invariant. -/
theorem inv_csStep (s s' : State) (w : Nat) (h : Inv s) (hs : csStep s w = some s') : Inv s' := by
  unfold csStep at hs
  split at hs
  · -- notify
    rename_i hpc
    have hno := no_req_of_pc s h w (by intro p; rw [hpc]; simp)
    split at hs
    · cases hs
      exact inv_setPc s w _ h hno.1 hno.2 (by simp) (by simp) (by simp)
    · rename_i hnt
      cases hs
      have hb := inv_bump s h (by simpa using hnt)
      obtain ⟨_, _, e3, e4, _, _, _⟩ := signal_fields { s with index := nextIndex s.index }
      exact inv_setPc _ w _ hb (by rw [e3]; exact hno.1) (by rw [e4]; exact hno.2) (by simp) (by simp) (by simp)
  · -- poll0
    rename_i hpc
    have hno := no_req_of_pc s h w (by intro p; rw [hpc]; simp)
    cases hs
    exact inv_setPc s w _ h hno.1 hno.2 (by simp) (by simp)
      (by intro r hr; cases hr; exact h.idx_pos)
  · -- pollPre
    rename_i prev hpc
    have hno := no_req_of_pc s h w (by intro p; rw [hpc]; simp)
    split at hs
    · cases hs
      exact inv_setPc s w _ h hno.1 hno.2 (by simp) (by simp)
        (by intro r hr; cases hr; exact h.idx_pos)
    · rename_i hnt
      cases hs
      exact inv_register s h w prev (by simpa using hnt) hpc
  · -- pollWait, cancellation
    rename_i p hpc
    split at hs
    · cases hs
      exact inv_cancelCs s h w p hpc
    · cases hs
  · -- term
    rename_i hpc
    have hno := no_req_of_pc s h w (by intro p; rw [hpc]; simp)
    cases hs
    have hb := inv_term s h
    obtain ⟨_, e2, e3, e4, _, _, _⟩ := signal_fields { s with terminated := true }
    exact inv_setPc _ w _ hb (by rw [e3]; exact hno.1) (by rw [e4]; exact hno.2) (by simp)
      (by intro _; rw [e2]) (by simp)
  · cases hs

/-- Every step keeps the invariant. -/
theorem inv_step (s s' : State) (a : Action) (h : Inv s) (hs : step s a = some s') : Inv s' := by
  cases a with
  | call w op =>
    simp only [step] at hs
    split at hs
    · rename_i hpc
      cases hs
      have hno := no_req_of_pc s h w (by intro p; rw [hpc]; simp)
      have := inv_setPc s w (entry op) h hno.1 hno.2
        (by intro p; cases op <;> simp [entry]; split <;> simp)
        (by cases op <;> simp [entry]; split <;> simp)
        (by intro r; cases op <;> simp [entry]; split <;> simp)
      exact inv_aux _ _ _ this
    · cases hs
  | cancel w =>
    simp only [step] at hs
    cases hs
    exact inv_aux s _ _ h
  | cs w => exact inv_csStep s s' w h hs
  | track =>
    simp only [step] at hs
    split at hs
    · cases hs; exact inv_trackBody s h
    · cases hs
  | recv w =>
    simp only [step] at hs
    split at hs
    · rename_i p r hpc hc
      cases hs
      exact inv_recv s h w p r hpc hc
    · cases hs
  | termDone w =>
    simp only [step] at hs
    split at hs
    · rename_i hpc _
      cases hs
      have hno := no_req_of_pc s h w (by intro p; rw [hpc]; simp)
      exact inv_setPc s w _ h hno.1 hno.2 (by simp) (by simp) (by simp)
    · cases hs
  | tlAcq w =>
    simp only [step] at hs
    split at hs
    · rename_i hpc _
      cases hs
      have hno := no_req_of_pc s h w (by intro p; rw [hpc]; simp)
      have h1 : Inv { s with tlHolder := some w } := inv_aux s s.cancelled (some w) h
      exact inv_setPc _ w _ h1 hno.1 hno.2 (by simp) (by simp) (by simp)
    · cases hs
  | tlRel w =>
    simp only [step] at hs
    split at hs
    · rename_i n hpc
      have hno := no_req_of_pc s h w (by intro p; rw [hpc]; simp)
      split at hs
      · cases hs
        have h1 : Inv { s with tlHolder := none } := inv_aux s s.cancelled none h
        exact inv_setPc _ w _ h1 hno.1 hno.2 (by intro p; cases n <;> simp)
          (by cases n <;> simp) (by intro r; cases n <;> simp)
      · cases hs
    · cases hs
  | ret w =>
    simp only [step] at hs
    split at hs
    · rename_i r hpc
      cases hs
      have hno := no_req_of_pc s h w (by intro p; rw [hpc]; simp)
      exact inv_setPc s w _ h hno.1 hno.2 (by simp) (by simp) (by simp)
    · cases hs

theorem inv_run (s s' : State) (as : List Action) (h : Inv s) (hr : run s as = some s') : Inv s' := by
  induction as generalizing s with
  | nil => simp [run] at hr; subst hr; exact h
  | cons a as ih =>
    simp only [run] at hr
    cases hstep : step s a with
    | none => simp [hstep] at hr
    | some s1 =>
      simp [hstep] at hr
      exact ih s1 (inv_step s s1 a h hstep) hr

theorem inv_reachable (s : State) (h : Reachable s) : Inv s := by
  obtain ⟨as, hr⟩ := h
  exact inv_run init s as inv_init hr

/-! ### How the index, buffered responses and results evolve -/

theorem setPc_fields (s : State) (w : Nat) (q : Pc) :
    (s.setPc w q).index = s.index ∧ (s.setPc w q).terminated = s.terminated ∧
    (s.setPc w q).track = s.track ∧ (s.setPc w q).reqs = s.reqs ∧ (s.setPc w q).chan = s.chan :=
  ⟨rfl, rfl, rfl, rfl, rfl⟩

/-- A step leaves the index alone or advances it with `nextIndex`; it advances
it only in the critical section of a notification while tracking is live. -/
theorem step_index (s s' : State) (a : Action) (hs : step s a = some s') :
    s'.index = s.index ∨
      (s'.index = nextIndex s.index ∧ s.terminated = false ∧ ∃ w, a = .cs w ∧ s.pc w = .notify) := by
  cases a with
  | call w op => simp only [step] at hs; split at hs <;> cases hs; left; rfl
  | cancel w => simp only [step] at hs; cases hs; left; rfl
  | cs w =>
    simp only [step, csStep] at hs
    split at hs
    · rename_i hpc
      split at hs
      · cases hs; left; rfl
      · rename_i hnt
        cases hs
        right
        refine ⟨?_, by simpa using hnt, w, rfl, hpc⟩
        show (signal _).index = _
        rw [(signal_fields _).1]
    · cases hs; left; rfl
    · split at hs
      · cases hs; left; rfl
      · cases hs; left; show (signal _).index = _; rw [(signal_fields _).1]
    · split at hs
      · cases hs; left; rfl
      · cases hs
    · cases hs; left; show (signal _).index = _; rw [(signal_fields _).1]
    · cases hs
  | track => simp only [step] at hs; split at hs <;> cases hs; left; rfl
  | recv w => simp only [step] at hs; split at hs <;> cases hs; left; rfl
  | termDone w => simp only [step] at hs; split at hs <;> cases hs; left; rfl
  | tlAcq w => simp only [step] at hs; split at hs <;> cases hs; left; rfl
  | tlRel w =>
    simp only [step] at hs
    split at hs
    · split at hs <;> cases hs; left; rfl
    · cases hs
  | ret w => simp only [step] at hs; split at hs <;> cases hs; left; rfl

theorem step_index_mono (s s' : State) (a : Action) (hs : step s a = some s')
    (hw : s.index + 1 < wrap) : s.index ≤ s'.index ∧ s'.index ≤ s.index + 1 := by
  rcases step_index s s' a hs with h | ⟨h, _⟩
  · omega
  · rw [h, nextIndex_eq _ hw]; omega

theorem run_index_mono (s s' : State) (as : List Action) (hr : run s as = some s')
    (hw : s.index + as.length < wrap) : s.index ≤ s'.index ∧ s'.index ≤ s.index + as.length := by
  induction as generalizing s with
  | nil => simp [run] at hr; subst hr; simp
  | cons a as ih =>
    simp only [run] at hr
    cases hstep : step s a with
    | none => simp [hstep] at hr
    | some s1 =>
      simp [hstep] at hr
      simp only [List.length_cons] at hw ⊢
      have h1 := step_index_mono s s1 a hstep (by omega)
      have h2 := ih s1 hr (by omega)
      omega

/-- Where a buffered response comes from: it was there before, or it was just
produced by the tracking goroutine from the current index. -/
theorem step_chan (s s' : State) (a : Action) (hs : step s a = some s') (w : Nat) (r : Resp)
    (hc : s'.chan w = some r) : s.chan w = some r ∨ (r.index = s.index ∧ s'.index = s.index) := by
  cases a with
  | call w0 op => simp only [step] at hs; split at hs <;> cases hs; left; exact hc
  | cancel w0 => simp only [step] at hs; cases hs; left; exact hc
  | cs w0 =>
    simp only [step, csStep] at hs
    split at hs
    · split at hs
      · cases hs; left; exact hc
      · cases hs; left
        have : (signal { s with index := nextIndex s.index }).chan w = some r := hc
        rw [(signal_fields _).2.2.2.1] at this; exact this
    · cases hs; left; exact hc
    · split at hs
      · cases hs; left; exact hc
      · cases hs
        have : (signal { s with reqs := upd s.reqs w0 (some _), chan := upd s.chan w0 none }).chan w = some r := hc
        rw [(signal_fields _).2.2.2.1] at this
        simp only at this
        by_cases hw : w = w0
        · subst hw; rw [upd_same] at this; cases this
        · rw [upd_other _ _ _ _ hw] at this; left; exact this
    · split at hs
      · cases hs
        have : upd s.chan w0 none w = some r := hc
        by_cases hw : w = w0
        · subst hw; rw [upd_same] at this; cases this
        · rw [upd_other _ _ _ _ hw] at this; left; exact this
      · cases hs
    · cases hs; left
      have : (signal { s with terminated := true }).chan w = some r := hc
      rw [(signal_fields _).2.2.2.1] at this; exact this
    · cases hs
  | track =>
    simp only [step] at hs
    split at hs
    · cases hs
      simp only [trackBody] at hc
      by_cases hh : hit s w = true
      · simp [hh] at hc; right; subst hc; exact ⟨rfl, rfl⟩
      · simp [hh] at hc; left; exact hc
    · cases hs
  | recv w0 =>
    simp only [step] at hs
    split at hs
    · cases hs
      have : upd s.chan w0 none w = some r := hc
      by_cases hw : w = w0
      · subst hw; rw [upd_same] at this; cases this
      · rw [upd_other _ _ _ _ hw] at this; left; exact this
    · cases hs
  | termDone w0 => simp only [step] at hs; split at hs <;> cases hs; left; exact hc
  | tlAcq w0 => simp only [step] at hs; split at hs <;> cases hs; left; exact hc
  | tlRel w0 =>
    simp only [step] at hs
    split at hs
    · split at hs <;> cases hs; left; exact hc
    · cases hs
  | ret w0 => simp only [step] at hs; split at hs <;> cases hs; left; exact hc

/-- Where a result comes from: it was there before, it is the current index,
or it is the index of the response that was buffered for the caller. -/
theorem step_done (s s' : State) (a : Action) (hs : step s a = some s') (w : Nat) (r : Result)
    (hd : s'.pc w = .done (some r)) :
    s.pc w = .done (some r) ∨ (r.index = s.index ∧ s'.index = s.index) ∨
      ∃ r0, s.chan w = some r0 ∧ r0.index = r.index := by
  have other : ∀ (w0 : Nat) (q : Pc) (f : Nat → Pc), f = upd s.pc w0 q → f w = .done (some r) → w ≠ w0 →
      s.pc w = .done (some r) := by
    intro w0 q f hf h hw; subst hf; rw [upd_other _ _ _ _ hw] at h; exact h
  cases a with
  | call w0 op =>
    simp only [step] at hs
    split at hs
    · cases hs
      have : upd s.pc w0 (entry op) w = .done (some r) := hd
      by_cases hw : w = w0
      · subst hw; rw [upd_same] at this
        cases op <;> simp [entry] at this
        split at this <;> cases this
      · left; rw [upd_other _ _ _ _ hw] at this; exact this
    · cases hs
  | cancel w0 => simp only [step] at hs; cases hs; left; exact hd
  | cs w0 =>
    simp only [step, csStep] at hs
    split at hs
    · split at hs
      · cases hs
        have : upd s.pc w0 (.done none) w = .done (some r) := hd
        by_cases hw : w = w0
        · subst hw; rw [upd_same] at this; cases this
        · left; rw [upd_other _ _ _ _ hw] at this; exact this
      · cases hs
        have : upd (signal { s with index := nextIndex s.index }).pc w0 (.done none) w = .done (some r) := hd
        rw [(signal_fields _).2.2.2.2.1] at this
        by_cases hw : w = w0
        · subst hw; rw [upd_same] at this; cases this
        · left; rw [upd_other _ _ _ _ hw] at this; exact this
    · cases hs
      have : upd s.pc w0 (.done (some ⟨s.index, if s.terminated then .terminated else .ok⟩)) w = .done (some r) := hd
      by_cases hw : w = w0
      · subst hw; rw [upd_same] at this; cases this; right; left; exact ⟨rfl, rfl⟩
      · left; rw [upd_other _ _ _ _ hw] at this; exact this
    · split at hs
      · cases hs
        have : upd s.pc w0 (.done (some ⟨s.index, .terminated⟩)) w = .done (some r) := hd
        by_cases hw : w = w0
        · subst hw; rw [upd_same] at this; cases this; right; left; exact ⟨rfl, rfl⟩
        · left; rw [upd_other _ _ _ _ hw] at this; exact this
      · cases hs
        rename_i prev _ _
        have : upd (signal { s with reqs := upd s.reqs w0 (some prev), chan := upd s.chan w0 none }).pc w0 (.pollWait prev) w = .done (some r) := hd
        rw [(signal_fields _).2.2.2.2.1] at this
        by_cases hw : w = w0
        · subst hw; rw [upd_same] at this; cases this
        · left; rw [upd_other _ _ _ _ hw] at this; exact this
    · split at hs
      · cases hs
        have : upd s.pc w0 (.done (some ⟨s.index, .canceled⟩)) w = .done (some r) := hd
        by_cases hw : w = w0
        · subst hw; rw [upd_same] at this; cases this; right; left; exact ⟨rfl, rfl⟩
        · left; rw [upd_other _ _ _ _ hw] at this; exact this
      · cases hs
    · cases hs
      have : upd (signal { s with terminated := true }).pc w0 .termWait w = .done (some r) := hd
      rw [(signal_fields _).2.2.2.2.1] at this
      by_cases hw : w = w0
      · subst hw; rw [upd_same] at this; cases this
      · left; rw [upd_other _ _ _ _ hw] at this; exact this
    · cases hs
  | track =>
    simp only [step] at hs
    split at hs
    · cases hs; left; exact hd
    · cases hs
  | recv w0 =>
    simp only [step] at hs
    split at hs
    · rename_i p r0 hpc hc
      cases hs
      have : upd s.pc w0 (.done (some ⟨r0.index, if r0.terminated then .terminated else .ok⟩)) w = .done (some r) := hd
      by_cases hw : w = w0
      · subst hw; rw [upd_same] at this; cases this
        right; right; exact ⟨r0, hc, rfl⟩
      · left; rw [upd_other _ _ _ _ hw] at this; exact this
    · cases hs
  | termDone w0 =>
    simp only [step] at hs
    split at hs
    · cases hs
      have : upd s.pc w0 (.done none) w = .done (some r) := hd
      by_cases hw : w = w0
      · subst hw; rw [upd_same] at this; cases this
      · left; rw [upd_other _ _ _ _ hw] at this; exact this
    · cases hs
  | tlAcq w0 =>
    simp only [step] at hs
    split at hs
    · cases hs
      have : upd s.pc w0 (.done none) w = .done (some r) := hd
      by_cases hw : w = w0
      · subst hw; rw [upd_same] at this; cases this
      · left; rw [upd_other _ _ _ _ hw] at this; exact this
    · cases hs
  | tlRel w0 =>
    simp only [step] at hs
    split at hs
    · rename_i n _
      split at hs
      · cases hs
        have : upd s.pc w0 (if n then Pc.notify else .done none) w = .done (some r) := hd
        by_cases hw : w = w0
        · subst hw; rw [upd_same] at this; cases n <;> simp at this
        · left; rw [upd_other _ _ _ _ hw] at this; exact this
      · cases hs
    · cases hs
  | ret w0 =>
    simp only [step] at hs
    split at hs
    · cases hs
      have : upd s.pc w0 .idle w = .done (some r) := hd
      by_cases hw : w = w0
      · subst hw; rw [upd_same] at this; cases this
      · left; rw [upd_other _ _ _ _ hw] at this; exact this
    · cases hs

/-- Upper bound: every buffered response and every result is at most the current index. -/
def Bounded (s : State) : Prop :=
  (∀ w r, s.chan w = some r → r.index ≤ s.index) ∧ (∀ w r, s.pc w = .done (some r) → r.index ≤ s.index)

theorem bounded_init : Bounded init := by
  constructor <;> simp [init]

theorem bounded_step (s s' : State) (a : Action) (hb : Bounded s) (hs : step s a = some s')
    (hm : s.index ≤ s'.index) : Bounded s' := by
  constructor
  · intro w r hc
    rcases step_chan s s' a hs w r hc with h | ⟨h, _⟩
    · have := hb.1 w r h; omega
    · omega
  · intro w r hd
    rcases step_done s s' a hs w r hd with h | ⟨h, _⟩ | ⟨r0, h, e⟩
    · have := hb.2 w r h; omega
    · omega
    · have := hb.1 w r0 h; omega

theorem bounded_run (s s' : State) (as : List Action) (hb : Bounded s) (hr : run s as = some s')
    (hw : s.index + as.length < wrap) : Bounded s' := by
  induction as generalizing s with
  | nil => simp [run] at hr; subst hr; exact hb
  | cons a as ih =>
    simp only [run] at hr
    cases hstep : step s a with
    | none => simp [hstep] at hr
    | some s1 =>
      simp [hstep] at hr
      simp only [List.length_cons] at hw
      have h1 := step_index_mono s s1 a hstep (by omega)
      exact ih s1 (bounded_step s s1 a hb hstep h1.1) hr (by omega)

/-- Lower bound for one caller: the index, its buffered response and its result are at least `L`. -/
def LowerBound (L w : Nat) (s : State) : Prop :=
  L ≤ s.index ∧ (∀ r, s.chan w = some r → L ≤ r.index) ∧ (∀ r, s.pc w = .done (some r) → L ≤ r.index)

theorem lower_step (L w : Nat) (s s' : State) (a : Action) (hl : LowerBound L w s)
    (hs : step s a = some s') (hm : s.index ≤ s'.index) : LowerBound L w s' := by
  obtain ⟨h1, h2, h3⟩ := hl
  refine ⟨by omega, ?_, ?_⟩
  · intro r hc
    rcases step_chan s s' a hs w r hc with h | ⟨h, _⟩
    · exact h2 r h
    · omega
  · intro r hd
    rcases step_done s s' a hs w r hd with h | ⟨h, _⟩ | ⟨r0, h, e⟩
    · exact h3 r h
    · omega
    · have := h2 r0 h; omega

theorem lower_run (L w : Nat) (s s' : State) (as : List Action) (hl : LowerBound L w s)
    (hr : run s as = some s') (hw : s.index + as.length < wrap) : LowerBound L w s' := by
  induction as generalizing s with
  | nil => simp [run] at hr; subst hr; exact hl
  | cons a as ih =>
    simp only [run] at hr
    cases hstep : step s a with
    | none => simp [hstep] at hr
    | some s1 =>
      simp [hstep] at hr
      simp only [List.length_cons] at hw
      have h1 := step_index_mono s s1 a hstep (by omega)
      exact ih s1 (lower_step L w s s1 a hl hstep h1.1) hr (by omega)

theorem run_append (s : State) (as bs : List Action) :
    run s (as ++ bs) = (run s as).bind fun s' => run s' bs := by
  induction as generalizing s with
  | nil => simp [run]
  | cons a as ih =>
    simp only [List.cons_append, run]
    cases step s a with
    | none => simp
    | some s1 => simp [ih]

/-! ### Who can move a caller's program counter -/

/-- The caller an action belongs to (`none` for the tracking goroutine). -/
def actor : Action → Option Nat
  | .call w _ => some w
  | .cancel _ => none
  | .cs w => some w
  | .track => none
  | .recv w => some w
  | .termDone w => some w
  | .tlAcq w => some w
  | .tlRel w => some w
  | .ret w => some w

theorem step_pc_other (s s' : State) (a : Action) (w : Nat) (hs : step s a = some s')
    (ha : actor a ≠ some w) : s'.pc w = s.pc w := by
  have key : ∀ (t : State) (w0 : Nat) (q : Pc), w0 ≠ w → upd t.pc w0 q w = t.pc w := by
    intro t w0 q h; exact upd_other _ _ _ _ (fun e => h e.symm)
  cases a with
  | call w0 op =>
    have hw : w0 ≠ w := by intro e; subst e; exact ha rfl
    simp only [step] at hs; split at hs <;> cases hs; exact key s w0 _ hw
  | cancel w0 => simp only [step] at hs; cases hs; rfl
  | cs w0 =>
    have hw : w0 ≠ w := by intro e; subst e; exact ha rfl
    simp only [step, csStep] at hs
    split at hs
    · split at hs
      · cases hs; exact key s w0 _ hw
      · cases hs
        show upd (signal _).pc w0 _ w = _
        rw [(signal_fields _).2.2.2.2.1]; exact key s w0 _ hw
    · cases hs; exact key s w0 _ hw
    · split at hs
      · cases hs; exact key s w0 _ hw
      · cases hs
        show upd (signal _).pc w0 _ w = _
        rw [(signal_fields _).2.2.2.2.1]; exact key s w0 _ hw
    · split at hs
      · cases hs; exact key s w0 _ hw
      · cases hs
    · cases hs
      show upd (signal _).pc w0 _ w = _
      rw [(signal_fields _).2.2.2.2.1]; exact key s w0 _ hw
    · cases hs
  | track => simp only [step] at hs; split at hs <;> cases hs; rfl
  | recv w0 =>
    have hw : w0 ≠ w := by intro e; subst e; exact ha rfl
    simp only [step] at hs; split at hs <;> cases hs; exact key s w0 _ hw
  | termDone w0 =>
    have hw : w0 ≠ w := by intro e; subst e; exact ha rfl
    simp only [step] at hs; split at hs <;> cases hs; exact key s w0 _ hw
  | tlAcq w0 =>
    have hw : w0 ≠ w := by intro e; subst e; exact ha rfl
    simp only [step] at hs; split at hs <;> cases hs; exact key s w0 _ hw
  | tlRel w0 =>
    have hw : w0 ≠ w := by intro e; subst e; exact ha rfl
    simp only [step] at hs
    split at hs
    · split at hs <;> cases hs; exact key s w0 _ hw
    · cases hs
  | ret w0 =>
    have hw : w0 ≠ w := by intro e; subst e; exact ha rfl
    simp only [step] at hs; split at hs <;> cases hs; exact key s w0 _ hw

/-- `terminated` is never reset. -/
theorem step_terminated (s s' : State) (a : Action) (hs : step s a = some s')
    (ht : s.terminated = true) : s'.terminated = true := by
  cases a with
  | call w op => simp only [step] at hs; split at hs <;> cases hs; exact ht
  | cancel w => simp only [step] at hs; cases hs; exact ht
  | cs w =>
    simp only [step, csStep] at hs
    split at hs
    · split at hs
      · cases hs; exact ht
      · rename_i hnt; exact absurd ht hnt
    · cases hs; exact ht
    · split at hs
      · cases hs; exact ht
      · rename_i hnt; exact absurd ht hnt
    · split at hs
      · cases hs; exact ht
      · cases hs
    · cases hs; show (signal _).terminated = true; rw [(signal_fields _).2.1]
    · cases hs
  | track => simp only [step] at hs; split at hs <;> cases hs; exact ht
  | recv w => simp only [step] at hs; split at hs <;> cases hs; exact ht
  | termDone w => simp only [step] at hs; split at hs <;> cases hs; exact ht
  | tlAcq w => simp only [step] at hs; split at hs <;> cases hs; exact ht
  | tlRel w =>
    simp only [step] at hs
    split at hs
    · split at hs <;> cases hs; exact ht
    · cases hs
  | ret w => simp only [step] at hs; split at hs <;> cases hs; exact ht

/-- Progress of one `TrackingLock.Unlock()` by caller `w` that started when the index was at least `i0`. -/
def UnlockPhase (i0 w : Nat) (s : State) : Prop :=
  ((s.pc w = .tlUnlock true ∨ s.pc w = .notify) ∧ i0 ≤ s.index) ∨ (i0 < s.index ∨ s.terminated = true)

theorem unlockPhase_step (i0 w : Nat) (s s' : State) (a : Action) (hp : UnlockPhase i0 w s)
    (hs : step s a = some s') (hw : s.index + 1 < wrap) : UnlockPhase i0 w s' := by
  have hm := step_index_mono s s' a hs hw
  rcases hp with ⟨hpc, hi⟩ | hdone
  · by_cases ha : actor a = some w
    · -- w itself moves
      cases a with
      | cancel _ => cases ha
      | track => cases ha
      | call w0 op =>
        simp only [actor, Option.some.injEq] at ha; subst ha
        simp only [step] at hs
        split at hs
        · rename_i hidle; rcases hpc with h | h <;> rw [hidle] at h <;> cases h
        · cases hs
      | recv w0 =>
        simp only [actor, Option.some.injEq] at ha; subst ha
        simp only [step] at hs
        split at hs
        · rename_i hpw _; rcases hpc with h | h <;> rw [hpw] at h <;> cases h
        · cases hs
      | termDone w0 =>
        simp only [actor, Option.some.injEq] at ha; subst ha
        simp only [step] at hs
        split at hs
        · rename_i hpw _; rcases hpc with h | h <;> rw [hpw] at h <;> cases h
        · cases hs
      | tlAcq w0 =>
        simp only [actor, Option.some.injEq] at ha; subst ha
        simp only [step] at hs
        split at hs
        · rename_i hpw _; rcases hpc with h | h <;> rw [hpw] at h <;> cases h
        · cases hs
      | ret w0 =>
        simp only [actor, Option.some.injEq] at ha; subst ha
        simp only [step] at hs
        split at hs
        · rename_i hpw; rcases hpc with h | h <;> rw [hpw] at h <;> cases h
        · cases hs
      | tlRel w0 =>
        simp only [actor, Option.some.injEq] at ha; subst ha
        simp only [step] at hs
        split at hs
        · rename_i n hpw
          split at hs
          · cases hs
            rcases hpc with h | h
            · rw [hpw] at h; cases h
              left; exact ⟨Or.inr (by simp [State.setPc, upd_same]), hi⟩
            · rw [hpw] at h; cases h
          · cases hs
        · cases hs
      | cs w0 =>
        simp only [actor, Option.some.injEq] at ha; subst ha
        rcases hpc with h | h
        · simp only [step, csStep, h] at hs; cases hs
        · simp only [step, csStep, h] at hs
          split at hs
          · rename_i ht; cases hs; right; right; exact ht
          · cases hs
            right; left
            show i0 < (signal _).index
            rw [(signal_fields _).1]
            show i0 < nextIndex s.index
            rw [nextIndex_eq _ hw]; omega
    · left
      rw [step_pc_other s s' a w hs ha]
      exact ⟨hpc, by omega⟩
  · right
    rcases hdone with h | h
    · left; omega
    · right; exact step_terminated s s' a hs h

theorem unlockPhase_run (i0 w : Nat) (s s' : State) (as : List Action) (hp : UnlockPhase i0 w s)
    (hr : run s as = some s') (hw : s.index + as.length < wrap) : UnlockPhase i0 w s' := by
  induction as generalizing s with
  | nil => simp [run] at hr; subst hr; exact hp
  | cons a as ih =>
    simp only [run] at hr
    cases hstep : step s a with
    | none => simp [hstep] at hr
    | some s1 =>
      simp [hstep] at hr
      simp only [List.length_cons] at hw
      have h1 := step_index_mono s s1 a hstep (by omega)
      exact ih s1 (unlockPhase_step i0 w s s1 a hp hstep (by omega)) hr (by omega)

end Mutagen.Proofs.Tracker
