import Mutagen.Model.Store
import Mutagen.Proofs.Assoc
/-!
Invariant of the content-addressed store: whatever sits at a storage location
hashes to the digest that names the location.
-/
namespace Mutagen.Proofs.Store
open Mutagen.Model.Store Mutagen.Model.TFS Mutagen.Proofs.Assoc

/-- Every file at a storage location has content hashing to the location's digest. -/
def StoreInv (P : Params) (s : State) : Prop := ∀ loc c, fileAt s loc = some c → P.H c = loc.1

theorem fileAt_removeTemp (s : State) (id : Nat) (loc : Loc) :
    fileAt { s with root := removeTemp s.root id } loc = fileAt s loc := by
  unfold fileAt removeTemp
  cases s.root <;> simp

theorem inv_initialize (P : Params) (s : State) (h : StoreInv P s) : StoreInv P (storeInitialize s).2 := by
  intro loc c
  unfold StoreInv fileAt at h
  unfold storeInitialize fileAt
  grind [aget]

theorem inv_allocate (P : Params) (s : State) (h : StoreInv P s) : StoreInv P (allocate s).2.2 := by
  intro loc c
  unfold StoreInv fileAt at h
  unfold allocate fileAt
  grind

theorem inv_write (P : Params) (s : State) (id : Nat) (d : Bytes) (h : StoreInv P s) :
    StoreInv P (write s id d).2 := by
  intro loc c
  unfold StoreInv fileAt at h
  unfold write fileAt
  grind

theorem inv_commit (P : Params) (s : State) (id : Nat) (path : String) (f : Bool) (h : StoreInv P s) :
    StoreInv P (commit P s id path f).2 := by
  intro loc c
  unfold commit
  unfold StoreInv fileAt at h
  unfold fileAt
  grind [aget_aset, removeTemp]

theorem inv_discard (P : Params) (s : State) (id : Nat) (h : StoreInv P s) : StoreInv P (Mutagen.Model.Store.discard s id).2 := by
  intro loc c
  unfold StoreInv fileAt at h
  unfold Mutagen.Model.Store.discard fileAt
  grind [removeTemp]

theorem inv_finalize (P : Params) (s : State) : StoreInv P (storeFinalize s).2 := by
  intro loc c
  simp [storeFinalize, fileAt]

theorem inv_exec (P : Params) (s : State) (cmd : Cmd) (h : StoreInv P s) : StoreInv P (exec P s cmd) := by
  cases cmd with
  | init => exact inv_initialize P s h
  | allocate => exact inv_allocate P s h
  | write id d => exact inv_write P s id d h
  | commit id p f => exact inv_commit P s id p f h
  | discard id => exact inv_discard P s id h
  | contains p d => exact h
  | path p d => exact h
  | fin => exact inv_finalize P s
  | block b =>
    intro loc c
    unfold StoreInv fileAt at h
    unfold exec fileAt
    grind
  | rootFile =>
    intro loc c
    unfold StoreInv fileAt at h
    unfold exec fileAt
    grind

theorem inv_run (P : Params) (s : State) (cmds : List Cmd) (h : StoreInv P s) : StoreInv P (run P s cmds) := by
  induction cmds generalizing s with
  | nil => exact h
  | cons c cs ih => exact ih (exec P s c) (inv_exec P s c h)

theorem inv_patchBlocks (P : Params) (base : Bytes) (bs ls blocks id : Nat) (n : Nat) :
    ∀ (s : State) (pos idx : Nat), StoreInv P s → StoreInv P (patchBlocks base bs ls blocks id s pos idx n).2 := by
  induction n with
  | zero => intro s pos idx h; simpa [patchBlocks] using h
  | succ n ih =>
    intro s pos idx h
    unfold patchBlocks
    have hw := inv_write P s id ((base.drop pos).take (if idx + 1 == blocks then ls else bs)) h
    grind

theorem inv_patch (P : Params) (base : Bytes) (bs ls blocks id : Nat) (s : State) (data : Bytes) (start count : Nat)
    (h : StoreInv P s) : StoreInv P (patch base bs ls blocks id s data start count).2 := by
  unfold patch
  have hw := inv_write P s id data h
  have hb := inv_patchBlocks P base bs ls blocks id count s (start * bs) start h
  grind

theorem inv_sinkClose (P : Params) (s : State) (id : Nat) (path : String) (f : Bool) (h : StoreInv P s) :
    StoreInv P (sinkClose P s id path f) := inv_commit P s id path f h

theorem inv_receive (P : Params) (r : Recv) (s : State) (m : Msg) (f : Bool) (h : StoreInv P s) :
    StoreInv P (receive P r s m f).2.2 := by
  unfold receive
  split
  · exact h
  · split
    · exact h
    · rename_i file _
      cases m with
      | done =>
        simp only
        cases ht : r.target with
        | some id => simpa using inv_sinkClose P s id file.path f h
        | none =>
          simp only
          split
          · have ha := inv_allocate P s h
            split
            · rename_i e id s' heq
              have : s' = (allocate s).2.2 := by rw [heq]
              subst this
              exact inv_sinkClose P _ id file.path f ha
            · rename_i e s' heq
              have : s' = (allocate s).2.2 := by rw [heq]
              subst this
              exact ha
          · exact h
      | op data start count =>
        simp only
        split
        · exact h
        · have ha := inv_allocate P s h
          -- the state after opening base and sink satisfies the invariant
          split
          · rename_i hopen
            -- `opened = none`
            exact h
          · rename_i id s' hopen
            have hs' : StoreInv P s' := by
              revert hopen
              cases r.target with
              | some id0 => simp; rintro rfl rfl; exact h
              | none =>
                simp only
                split
                · simp
                · split
                  · rename_i e id1 s1 heq
                    have : s1 = (allocate s).2.2 := by rw [heq]
                    subst this
                    simp; rintro rfl rfl; exact ha
                  · simp
            have hp := inv_patch P (file.base.getD []) file.blockSize file.lastBlockSize file.blocks id s' data start count hs'
            split
            · rename_i s2 heq
              have : s2 = (patch (file.base.getD []) file.blockSize file.lastBlockSize file.blocks id s' data start count).2 := by
                rw [heq]
              subst this
              exact hp
            · rename_i s2 heq
              have : s2 = (patch (file.base.getD []) file.blockSize file.lastBlockSize file.blocks id s' data start count).2 := by
                rw [heq]
              subst this
              exact inv_sinkClose P _ id file.path f hp

theorem inv_recvFinalize (P : Params) (r : Recv) (s : State) (f : Bool) (h : StoreInv P s) :
    StoreInv P (recvFinalize P r s f).2 := by
  unfold recvFinalize
  split
  · exact inv_sinkClose P s _ _ f h
  · exact h

theorem inv_receiveAll (P : Params) (msgs : List (Msg × Bool)) :
    ∀ (r : Recv) (s : State), StoreInv P s → StoreInv P (receiveAll P r s msgs).2 := by
  induction msgs with
  | nil => intro r s h; simpa [receiveAll] using inv_recvFinalize P r s false h
  | cons m rest ih =>
    intro r s h
    obtain ⟨m, f⟩ := m
    unfold receiveAll
    split
    · exact inv_recvFinalize P r s false h
    · have hr := inv_receive P r s m f h
      split
      · rename_i r' s' heq
        have : s' = (receive P r s m f).2.2 := by rw [heq]
        subst this
        exact inv_recvFinalize P _ _ false hr
      · rename_i r' s' heq
        have : s' = (receive P r s m f).2.2 := by rw [heq]
        subst this
        exact ih _ _ hr

end Mutagen.Proofs.Store
