import Mutagen.Model.Coalescer
/-!
Invariant of the coalescer's timed automaton (helper lemmas for
`Mutagen.Properties.C31`).
-/
namespace Mutagen.Proofs.Coalescer
open Mutagen.Model.Coalescer

/-- Where the loop is relative to the most recent strobe. -/
def Phase (s : State) : Prop :=
  -- no strobe yet
  (s.lastStrobe = none ∧ s.deadline = none ∧ s.fired = false ∧ s.delivers = 0) ∨
  -- armed: the timer will expire `window` after the last strobe
  (∃ t0, s.lastStrobe = some t0 ∧ s.deadline = some (t0 + s.window) ∧ s.fired = false ∧
      s.delivers = 0 ∧ s.now ≤ t0 + s.window ∧ s.exited = false) ∨
  -- expired, value waiting in timer.C
  (∃ t0, s.lastStrobe = some t0 ∧ s.deadline = none ∧ s.fired = true ∧ s.delivers = 0 ∧
      t0 + s.window ≤ s.now ∧ s.exited = false) ∨
  -- the timer branch has run
  (∃ t0, s.lastStrobe = some t0 ∧ s.deadline = none ∧ s.fired = false ∧ s.delivers = 1 ∧
      t0 + s.window ≤ s.now) ∨
  -- the loop has returned
  (s.exited = true ∧ s.deadline = none ∧ s.fired = false ∧ s.delivers ≤ 1)

structure Inv (w : Nat) (s : State) : Prop where
  window : s.window = w
  sig_le : s.sig ≤ signalCap
  phase : Phase s
  /-- every signal sent, and the one still pending, is owed to a distinct strobe burst -/
  budget : s.sends + (if s.deadline.isSome ∨ s.fired = true then 1 else 0) ≤ s.strobes
  exit_cancel : s.exited = true → s.cancelled = true

theorem inv_init (w : Nat) : Inv w (init w) := by
  constructor <;> simp [init, Phase, signalCap]

theorem inv_step (w : Nat) (s s' : State) (a : Action) (h : Inv w s) (hs : step s a = some s') :
    Inv w s' := by
  obtain ⟨hw, hsig, hph, hbud, hex⟩ := h
  cases a with
  | strobe =>
    simp only [step] at hs
    split at hs
    · cases hs
    · rename_i hne
      cases hs
      refine ⟨hw, hsig, ?_, ?_, ?_⟩
      · right; left
        exact ⟨s.now, rfl, rfl, rfl, rfl, Nat.le_add_right _ _, by simpa using hne⟩
      · simp only [Option.isSome_some, true_or, if_true]
        have : s.sends ≤ s.strobes := by
          split at hbud <;> omega
        omega
      · intro h; simp only at h; exact absurd h hne
  | strobeDone =>
    simp only [step] at hs
    split at hs
    · cases hs; exact ⟨hw, hsig, hph, hbud, hex⟩
    · cases hs
  | tick d =>
    simp only [step] at hs
    split at hs
    · rename_i t hd
      split at hs
      · rename_i hle
        cases hs
        refine ⟨hw, hsig, ?_, hbud, hex⟩
        rcases hph with ⟨h1, h2, _⟩ | ⟨t0, h1, h2, h3, h4, h5, h6⟩ | ⟨t0, h1, h2, _⟩ | ⟨t0, h1, h2, _⟩ | ⟨h1, h2, _⟩
        · rw [hd] at h2; cases h2
        · rw [hd] at h2; cases h2
          right; left
          exact ⟨t0, h1, hd, h3, h4, hle, h6⟩
        · rw [hd] at h2; cases h2
        · rw [hd] at h2; cases h2
        · rw [hd] at h2; cases h2
      · cases hs
    · rename_i hd
      cases hs
      refine ⟨hw, hsig, ?_, hbud, hex⟩
      rcases hph with ⟨h1, h2, h3, h4⟩ | ⟨t0, h1, h2, _⟩ | ⟨t0, h1, h2, h3, h4, h5, h6⟩ | ⟨t0, h1, h2, h3, h4, h5⟩ | ⟨h1, h2, h3, h4⟩
      · left; exact ⟨h1, h2, h3, h4⟩
      · rw [hd] at h2; cases h2
      · right; right; left; exact ⟨t0, h1, h2, h3, h4, Nat.le_trans h5 (Nat.le_add_right _ _), h6⟩
      · right; right; right; left; exact ⟨t0, h1, h2, h3, h4, Nat.le_trans h5 (Nat.le_add_right _ _)⟩
      · right; right; right; right; exact ⟨h1, h2, h3, h4⟩
  | expire =>
    simp only [step] at hs
    split at hs
    · rename_i t hd
      split at hs
      · rename_i hle
        cases hs
        refine ⟨hw, hsig, ?_, ?_, hex⟩
        · rcases hph with ⟨h1, h2, _⟩ | ⟨t0, h1, h2, h3, h4, h5, h6⟩ | ⟨t0, h1, h2, _⟩ | ⟨t0, h1, h2, _⟩ | ⟨h1, h2, _⟩
          · rw [hd] at h2; cases h2
          · rw [hd] at h2; cases h2
            right; right; left
            exact ⟨t0, h1, rfl, rfl, h4, hle, h6⟩
          · rw [hd] at h2; cases h2
          · rw [hd] at h2; cases h2
          · rw [hd] at h2; cases h2
        · simp only [hd, Option.isSome_some, true_or, if_true] at hbud
          simp only [Option.isSome_none, Bool.false_eq_true, false_or, if_true]
          exact hbud
      · cases hs
    · cases hs
  | deliver =>
    simp only [step] at hs
    split at hs
    · rename_i hg
      obtain ⟨hf, hne⟩ := hg
      have hph' : ∃ t0, s.lastStrobe = some t0 ∧ s.deadline = none ∧ s.delivers = 0 ∧ t0 + s.window ≤ s.now := by
        rcases hph with ⟨_, _, h3, _⟩ | ⟨t0, _, _, h3, _⟩ | ⟨t0, h1, h2, _, h4, h5, _⟩ | ⟨t0, _, _, h3, _⟩ | ⟨_, _, h3, _⟩
        · rw [hf] at h3; cases h3
        · rw [hf] at h3; cases h3
        · exact ⟨t0, h1, h2, h4, h5⟩
        · rw [hf] at h3; cases h3
        · rw [hf] at h3; cases h3
      obtain ⟨t0, h1, h2, h4, h5⟩ := hph'
      have hb : s.sends + 1 ≤ s.strobes := by simpa [hf] using hbud
      split at hs
      · rename_i hlt
        cases hs
        refine ⟨hw, by simp only [signalCap] at hlt ⊢; omega, ?_, ?_, hex⟩
        · right; right; right; left
          exact ⟨t0, h1, h2, rfl, by simp only [h4], h5⟩
        · simp only [h2, Option.isSome_none, Bool.false_eq_true, or_self, if_false]
          omega
      · cases hs
        refine ⟨hw, hsig, ?_, ?_, hex⟩
        · right; right; right; left
          exact ⟨t0, h1, h2, rfl, by simp only [h4], h5⟩
        · simp only [h2, Option.isSome_none, Bool.false_eq_true, or_self, if_false]
          omega
    · cases hs
  | recv =>
    simp only [step] at hs
    split at hs
    · cases hs
      exact ⟨hw, by simp only; omega, hph, hbud, hex⟩
    · cases hs
  | terminate =>
    simp only [step] at hs
    cases hs
    exact ⟨hw, hsig, hph, hbud, fun _ => rfl⟩
  | exit =>
    simp only [step] at hs
    split at hs
    · rename_i hg
      cases hs
      refine ⟨hw, hsig, ?_, ?_, fun _ => hg.1⟩
      · right; right; right; right
        refine ⟨rfl, rfl, rfl, ?_⟩
        rcases hph with ⟨_, _, _, h4⟩ | ⟨_, _, _, _, h4, _⟩ | ⟨_, _, _, _, h4, _⟩ | ⟨_, _, _, _, h4, _⟩ | ⟨_, _, _, h4⟩
        all_goals (simp only; omega)
      · simp only [Option.isSome_none, Bool.false_eq_true, or_self, if_false]
        split at hbud <;> omega
    · cases hs

/-- The loop's timer branch is enabled whenever the expired timer's value is waiting. -/
theorem deliver_enabled (s : State) (hf : s.fired = true) (hne : s.exited = false) :
    ∃ s', step s .deliver = some s' := by
  simp only [step, hf, hne]
  by_cases h : s.sig < signalCap
  · simp [h]
  · simp [h]

theorem inv_run (w : Nat) (s s' : State) (as : List Action) (h : Inv w s) (hr : run s as = some s') :
    Inv w s' := by
  induction as generalizing s with
  | nil => simp [run] at hr; subst hr; exact h
  | cons a as ih =>
    simp only [run] at hr
    cases hstep : step s a with
    | none => simp [hstep] at hr
    | some s1 =>
      simp [hstep] at hr
      exact ih s1 (inv_step w s s1 a h hstep) hr

theorem inv_reachable (w : Nat) (s : State) (h : Reachable w s) : Inv w s := by
  obtain ⟨as, hr⟩ := h
  exact inv_run w (init w) s as (inv_init w) hr

end Mutagen.Proofs.Coalescer
