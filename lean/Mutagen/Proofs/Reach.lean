import Mutagen.Proofs.Fixpoint6
/-!
Lifting statements about the disagreement handler to `reconcile`: the notion
"the recursion reaches a disagreement at `rel`" (`Reaches`), the effective
ancestor passed down to it (`effAnc`, equal to the ancestor's own sub-tree for
valid trees: `effAnc_eq_getPath`), and the two inclusion lemmas between the
handler's plan there and the whole plan (`reconcile_sub`, `reconcile_sub_exact`).
-/
namespace Mutagen.Model

/-! ## Where the recursion reaches a disagreement -/

/-- The ancestor the reconciler passes down to the node `rel` (reconcile.go:114:
below a "both modified same" node the old ancestor contents are dropped). -/
def effAnc : Option Entry → Option Entry → Path → Option Entry
  | a, _, [] => a
  | a, al, n :: rel => effAnc (lookup n (contents (ancestorForRecursion a al))) (lookup n (contents al)) rel

/-- The recursion of `reconcile` over `(al, be)` descends along `rel` (at every
proper prefix neither side is problematic, not both are absent/untracked, and
they agree shallowly) and finds a disagreement at `rel`. -/
def Reaches : Option Entry → Option Entry → Path → Prop
  | al, be, [] => Disagree al be
  | al, be, n :: rel =>
    (isKind al .problematic = false ∧ isKind be .problematic = false ∧
      ((al.isNone || isKind al .untracked) && (be.isNone || isKind be .untracked)) = false ∧
      shallowEq al be = true) ∧
    Reaches (lookup n (contents al)) (lookup n (contents be)) rel

theorem Reaches.not_both_none : ∀ {rel : Path}, ¬ Reaches none none rel := by
  intro rel h
  cases rel with
  | nil => have := h.notBothAbsent; simp at this
  | cons n rel => have := h.1.2.2.1; simp at this

theorem reconcile_eq_recurse' (mode : Mode) (path : Path) (a al be : Option Entry)
    (h1 : isKind al .problematic = false) (h2 : isKind be .problematic = false)
    (h3 : ((al.isNone || isKind al .untracked) && (be.isNone || isKind be .untracked)) = false)
    (h4 : shallowEq al be = true) :
    reconcile mode path a al be =
      (if !shallowEq a al then Plan.ancChange { path := path, new := ocopy .slim al } else {}) ++
      Plan.concat ((nameUnion [contents (ancestorForRecursion a al), contents al, contents be]).map fun n =>
        reconcile mode (path ++ [n]) (lookup n (contents (ancestorForRecursion a al)))
          (lookup n (contents al)) (lookup n (contents be))) := by
  rw [reconcile_eq]
  simp only [h1, h2, h3, h4, Bool.false_eq_true, ↓reduceIte]

/-- The plan of the handler at a reached disagreement is part of the whole plan. -/
theorem reconcile_sub (mode : Mode) : ∀ (rel path : Path) (a al be : Option Entry), Reaches al be rel →
    (∀ c ∈ (handleDisagreement mode (path ++ rel) (effAnc a al rel) (getPath al rel) (getPath be rel)).alpha,
      c ∈ (reconcile mode path a al be).alpha) ∧
    (∀ c ∈ (handleDisagreement mode (path ++ rel) (effAnc a al rel) (getPath al rel) (getPath be rel)).beta,
      c ∈ (reconcile mode path a al be).beta) ∧
    (∀ c ∈ (handleDisagreement mode (path ++ rel) (effAnc a al rel) (getPath al rel) (getPath be rel)).conflicts,
      c ∈ (reconcile mode path a al be).conflicts) := by
  intro rel
  induction rel with
  | nil =>
    intro path a al be hr
    have := reconcile_eq_handler mode path a al be (by simp [hr.alphaOk]) (by simp [hr.betaOk])
      (by simp [hr.notBothAbsent]) (by simp [hr.differ])
    simp only [List.append_nil, effAnc, getPath]
    rw [this]
    exact ⟨fun c h => h, fun c h => h, fun c h => h⟩
  | cons n rel ih =>
    intro path a al be hr
    obtain ⟨⟨h1, h2, h3, h4⟩, hr'⟩ := hr
    have hn : n ∈ nameUnion [contents (ancestorForRecursion a al), contents al, contents be] := by
      apply Classical.byContradiction
      intro hn
      obtain ⟨_, l2, l3⟩ := lookup_none_of_not_mem_union3 hn
      rw [l2, l3] at hr'
      exact Reaches.not_both_none hr'
    have := ih (path ++ [n]) (lookup n (contents (ancestorForRecursion a al))) (lookup n (contents al))
      (lookup n (contents be)) hr'
    simp only [List.append_assoc, List.singleton_append] at this
    rw [reconcile_eq_recurse' mode path a al be h1 h2 h3 h4]
    simp only [effAnc, getPath]
    have hh : ∀ (X : Plan), X = (if (!shallowEq a al) = true then Plan.ancChange { path := path, new := ocopy .slim al } else {}) →
        X.alpha = [] ∧ X.beta = [] ∧ X.conflicts = [] := by
      intro X hX; subst hX; split <;> exact ⟨rfl, rfl, rfl⟩
    obtain ⟨e1, e2, e3⟩ := hh _ rfl
    refine ⟨fun c hc => ?_, fun c hc => ?_, fun c hc => ?_⟩
    · simp only [Plan.append_alpha, e1, List.nil_append, Plan.concat_alpha, List.flatMap_map, List.mem_flatMap]
      exact ⟨n, hn, this.1 c hc⟩
    · simp only [Plan.append_beta, e2, List.nil_append, Plan.concat_beta, List.flatMap_map, List.mem_flatMap]
      exact ⟨n, hn, this.2.1 c hc⟩
    · simp only [Plan.append_conflicts, e3, List.nil_append, Plan.concat_conflicts, List.flatMap_map,
        List.mem_flatMap]
      exact ⟨n, hn, this.2.2 c hc⟩

/-- Conversely, every change of the whole plan at a path comparable with a
reached disagreement is a change planned by the handler there. -/
theorem reconcile_sub_exact (mode : Mode) : ∀ (rel path : Path) (a al be : Option Entry), Reaches al be rel →
    (∀ c ∈ (reconcile mode path a al be).alpha, ¬ incomparable c.path (path ++ rel) →
      c ∈ (handleDisagreement mode (path ++ rel) (effAnc a al rel) (getPath al rel) (getPath be rel)).alpha) ∧
    (∀ c ∈ (reconcile mode path a al be).beta, ¬ incomparable c.path (path ++ rel) →
      c ∈ (handleDisagreement mode (path ++ rel) (effAnc a al rel) (getPath al rel) (getPath be rel)).beta) := by
  intro rel
  induction rel with
  | nil =>
    intro path a al be hr
    have := reconcile_eq_handler mode path a al be (by simp [hr.alphaOk]) (by simp [hr.betaOk])
      (by simp [hr.notBothAbsent]) (by simp [hr.differ])
    simp only [List.append_nil, effAnc, getPath]
    rw [this]
    exact ⟨fun c h _ => h, fun c h _ => h⟩
  | cons n rel ih =>
    intro path a al be hr
    obtain ⟨⟨h1, h2, h3, h4⟩, hr'⟩ := hr
    have := ih (path ++ [n]) (lookup n (contents (ancestorForRecursion a al))) (lookup n (contents al))
      (lookup n (contents be)) hr'
    simp only [List.append_assoc, List.singleton_append] at this
    rw [reconcile_eq_recurse' mode path a al be h1 h2 h3 h4]
    simp only [effAnc, getPath]
    have hh : ∀ (X : Plan), X = (if (!shallowEq a al) = true then Plan.ancChange { path := path, new := ocopy .slim al } else {}) →
        X.alpha = [] ∧ X.beta = [] := by
      intro X hX; subst hX; split <;> exact ⟨rfl, rfl⟩
    obtain ⟨e1, e2⟩ := hh _ rfl
    constructor
    · intro c hc hcomp
      simp only [Plan.append_alpha, e1, List.nil_append, Plan.concat_alpha, List.flatMap_map,
        List.mem_flatMap] at hc
      obtain ⟨m, _, hcm⟩ := hc
      by_cases hmn : m = n
      · subst hmn; exact this.1 c hcm hcomp
      · exact absurd (incomparable_of_children hmn (reconcile_alpha_under mode _ _ _ _ c hcm)
          prefix_snoc_of_prefix_cons) hcomp
    · intro c hc hcomp
      simp only [Plan.append_beta, e2, List.nil_append, Plan.concat_beta, List.flatMap_map,
        List.mem_flatMap] at hc
      obtain ⟨m, _, hcm⟩ := hc
      by_cases hmn : m = n
      · subst hmn; exact this.2 c hcm hcomp
      · exact absurd (incomparable_of_children hmn (reconcile_beta_under mode _ _ _ _ c hcm)
          prefix_snoc_of_prefix_cons) hcomp

/-- A conflict root is incomparable with the path of every planned change. -/
theorem conflict_excludes_changes (mode : Mode) (path : Path) (a al be : Option Entry) :
    ∀ c ∈ (reconcile mode path a al be).conflicts,
      (∀ x ∈ (reconcile mode path a al be).alpha, incomparable x.path c.root) ∧
      (∀ x ∈ (reconcile mode path a al be).beta, incomparable x.path c.root) := by
  intro c hc
  have := (reconcile_actions mode path a al be).2
  simp only [Plan.actionPaths, List.pairwise_append] at this
  obtain ⟨_, _, hcross⟩ := this
  have hr : c.root ∈ (reconcile mode path a al be).conflicts.map (·.root) := List.mem_map.mpr ⟨c, hc, rfl⟩
  exact ⟨fun x hx => hcross x.path (List.mem_append.mpr (Or.inl (List.mem_map.mpr ⟨x, hx, rfl⟩))) c.root hr,
         fun x hx => hcross x.path (List.mem_append.mpr (Or.inr (List.mem_map.mpr ⟨x, hx, rfl⟩))) c.root hr⟩

/-- An alpha change and a beta change of one plan are at incomparable paths. -/
theorem alpha_beta_incomparable (mode : Mode) (path : Path) (a al be : Option Entry) :
    ∀ x ∈ (reconcile mode path a al be).alpha, ∀ y ∈ (reconcile mode path a al be).beta,
      incomparable x.path y.path := by
  intro x hx y hy
  have := (reconcile_actions mode path a al be).2
  simp only [Plan.actionPaths, List.pairwise_append] at this
  exact this.1.2.2 x.path (List.mem_map.mpr ⟨x, hx, rfl⟩) y.path (List.mem_map.mpr ⟨y, hy, rfl⟩)

theorem effAnc_none (_ : Option Entry) (rel : Path) : ∀ al : Option Entry, effAnc none al rel = none := by
  induction rel with
  | nil => intro _; rfl
  | cons n rel ih =>
    intro al
    simp only [effAnc]
    have : ancestorForRecursion none al = none := by unfold ancestorForRecursion; split <;> rfl
    rw [this]
    exact ih _

/-- The scalar fields of a valid directory are fixed. -/
theorem dir_props_eq {p q : Props} {cs ds : Contents} {s t : Bool}
    (hp : (Entry.mk p cs).ensureValid s = true) (hq : (Entry.mk q ds).ensureValid t = true)
    (hkp : p.kind = .directory) (hkq : q.kind = .directory) : p = q := by
  unfold Entry.ensureValid at hp hq
  simp only [hkp, hkq, Bool.and_eq_true] at hp hq
  cases p; cases q
  simp_all

/-- For a valid synchronizable ancestor and valid phantom-free endpoints, the
ancestor the reconciler passes down to a reached disagreement is the ancestor's
own sub-tree there. -/
theorem effAnc_eq_getPath : ∀ (rel : Path) (A al be : Option Entry), ValidSync A → Valid al → Valid be →
    onoPhantom al = true → onoPhantom be = true → Reaches al be rel → effAnc A al rel = getPath A rel := by
  intro rel
  induction rel with
  | nil => intro A al be _ _ _ _ _ _; rfl
  | cons n rel ih =>
    intro A al be hA hal hbe hpα hpβ hr
    obtain ⟨⟨h1, h2, h3, h4⟩, hr'⟩ := hr
    simp only [effAnc, getPath]
    have hAv : Valid A := Valid.of_validSync hA
    by_cases hs : shallowEq A al = true
    · have : ancestorForRecursion A al = A := by simp [ancestorForRecursion, hs]
      rw [this]
      have hAl : ValidSync (lookup n (contents A)) := by
        have hv := vsp_of_validSync hA
        cases A with
        | none => exact ⟨rfl, rfl⟩
        | some x =>
          cases x with
          | mk p cs =>
            cases hl : lookup n cs with
            | none => simp only [contents, Entry.children, hl]; exact ⟨rfl, rfl⟩
            | some c =>
              simp only [contents, Entry.children, hl]
              have hk := (Entry.nodupKeys_mk_iff (p := p)).mp hA.1
              exact validSync_of_vsp (Entry.nodupKeysL_lookup hk.2 hl) (vsp_child hv hl).2.2
      exact ih _ _ _ hAl (hal.lookup n) (hbe.lookup n) (onoPhantom_lookup hpα n) (onoPhantom_lookup hpβ n) hr'
    · have : ancestorForRecursion A al = none := by simp [ancestorForRecursion, hs]
      rw [this]
      have e1 : effAnc (lookup n (contents none)) (lookup n (contents al)) rel = none := effAnc_none none rel _
      rw [e1]
      -- the endpoints are directories here (they have a child `n`), the ancestor is not
      have hchild : n ∈ keys (contents al) ∨ n ∈ keys (contents be) := by
        apply Classical.byContradiction
        intro hno
        have l1 : lookup n (contents al) = none := lookup_eq_none_iff.mpr (fun h => hno (Or.inl h))
        have l2 : lookup n (contents be) = none := lookup_eq_none_iff.mpr (fun h => hno (Or.inr h))
        rw [l1, l2] at hr'
        exact Reaches.not_both_none hr'
      have hAnone : lookup n (contents A) = none := by
        cases A with
        | none => rfl
        | some x =>
          cases x with
          | mk p cs =>
            have hvm := Entry.ensureValid_mk (p := p) (s := true) hA.2
            have hnp : p.kind ≠ .phantom := by
              intro hk
              have := hA.2
              simp [oensureValid, Entry.ensureValid, hk] at this
            by_cases hd : p.kind = .directory
            · exfalso
              apply hs
              -- al is a valid directory as well
              cases al with
              | none =>
                cases be with
                | none => simp at h3
                | some b => simp [shallowEq] at h4
              | some y =>
                cases y with
                | mk q ds =>
                  have hqd : q.kind = .directory := by
                    rcases hchild with hc | hc
                    · exact (valid_dir_child hal (by
                        have := isKind_phantom_of_noPhantom hpα
                        intro hk; simp [isKind, Entry.kind, Entry.props, hk] at this)
                        (by simpa [contents, Entry.children] using hc)).1
                    · cases be with
                      | none => simp [contents, keys] at hc
                      | some b =>
                        cases b with
                        | mk pb bs =>
                          have hb : q = pb := by
                            simp only [shallowEq, Entry.props, beq_iff_eq] at h4; exact h4
                          subst hb
                          exact (valid_dir_child hbe (by
                            have := isKind_phantom_of_noPhantom hpβ
                            intro hk; simp [isKind, Entry.kind, Entry.props, hk] at this)
                            (by simpa [contents, Entry.children] using hc)).1
                  have := dir_props_eq hA.2 hal.2 hd hqd
                  simp [shallowEq, Entry.props, this]
            · have := hvm.2.2 hd hnp
              subst this
              rfl
      rw [hAnone]
      exact (getPath_none rel).symm

end Mutagen.Model
