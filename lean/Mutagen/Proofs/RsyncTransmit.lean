import Mutagen.Proofs.RsyncWF
/-!
C20, Transmit: what the receiver has obtained when `Transmit` reports success.
-/
namespace Mutagen.Proofs.Rsync
open Mutagen.Model.Rsync

/-! ## Transmit: what the receiver has obtained when `Transmit` reports success -/

/-- The messages the `transmit` closure of `Transmit` produces for a list of
operations: the first carries the file size, the others `0`. -/
def closureMsgs (size : Nat) : List Operation → List Msg
  | [] => []
  | o :: os => .op size o :: os.map (.op 0)

theorem closureMsgs_zero (os : List Operation) : closureMsgs 0 os = os.map (.op 0) := by
  cases os <;> simp [closureMsgs]

theorem runOps_closure_log (fails : Nat → Bool) (ops : List Operation) (s : TState)
    (h : (runOps (transmitClosure fails) ops s).2 = false) :
    (runOps (transmitClosure fails) ops s).1.rx.revLog =
      ((closureMsgs s.fileSize ops).map (·, true)).reverse ++ s.rx.revLog := by
  induction ops generalizing s with
  | nil => simp [runOps, closureMsgs]
  | cons o os ih =>
    simp only [runOps] at h ⊢
    by_cases hx : (transmitClosure fails o s).2 = true
    · simp [hx] at h
    · simp only [hx, Bool.false_eq_true, if_false] at h ⊢
      rw [ih _ h]
      have hf : fails s.rx.calls = false := by simpa [transmitClosure, Rx.receive] using hx
      have hsz : (transmitClosure fails o s).1.fileSize = 0 := rfl
      rw [hsz, closureMsgs_zero]
      simp [transmitClosure, Rx.receive, hf, closureMsgs]

section
variable {D : Type} [DecidableEq D] (H : List UInt8 → D)

/-- The message stream of a complete transfer: per file, its operations (the
plan of `Deltify` with the default size limit) followed by a done message; an
unopenable file is reported by a done message carrying an error. -/
def expectedMsgs : List (Option (List UInt8) × Signature D) → List Msg
  | [] => []
  | (none, _) :: rest => .done true :: expectedMsgs rest
  | (some file, sig) :: rest =>
    closureMsgs file.length (plan H file sig 0).1 ++ [.done ((plan H file sig 0).2 != .ok)] ++ expectedMsgs rest

theorem transmitLoop_log (fails : Nat → Bool) (ff : Bool)
    (files : List (Option (List UInt8) × Signature D)) (rx : Rx)
    (h : (transmitLoop H true fails ff files rx).2 = false) :
    (transmitLoop H true fails ff files rx).1.revLog =
      ((expectedMsgs H files).map (·, true)).reverse ++ rx.revLog := by
  induction files generalizing rx with
  | nil => simp [transmitLoop, Rx.finalize, expectedMsgs]
  | cons f rest ih =>
    obtain ⟨file, sig⟩ := f
    cases file with
    | none =>
      simp only [transmitLoop] at h ⊢
      by_cases hx : (rx.receive fails (.done true)).2 = true
      · simp [hx] at h
      · simp only [hx, Bool.false_eq_true, if_false] at h ⊢
        rw [ih _ h]
        have hf : fails rx.calls = false := by simpa [Rx.receive] using hx
        simp [Rx.receive, hf, expectedMsgs]
    | some file =>
      simp only [transmitLoop] at h ⊢
      rw [deltify_eq_runOps] at h ⊢
      obtain ⟨c1, c2, c3⟩ := runOps_closure fails (plan H file sig 0).1
        { rx := rx, fileSize := file.length, transmitError := false }
      have c2 := c2 rfl
      by_cases hx : (runOps (transmitClosure fails) (plan H file sig 0).1
          { rx := rx, fileSize := file.length, transmitError := false }).2 = true
      · simp [c2, hx] at h
      · simp only [c2, hx, Bool.false_eq_true, if_false] at h ⊢
        have hlog := runOps_closure_log fails (plan H file sig 0).1
          { rx := rx, fileSize := file.length, transmitError := false } (by simpa using hx)
        simp only at hlog
        generalize (runOps (transmitClosure fails) (plan H file sig 0).1
          { rx := rx, fileSize := file.length, transmitError := false }).1.rx = rx1 at h hlog ⊢
        by_cases hy : (rx1.receive fails (.done ((plan H file sig 0).2 != Exit.ok))).2 = true
        · simp [hy] at h
        · simp only [hy, Bool.false_eq_true, if_false] at h ⊢
          rw [ih _ h]
          have hf : fails rx1.calls = false := by simpa [Rx.receive] using hy
          simp [Rx.receive, hf, expectedMsgs, hlog]

end
end Mutagen.Proofs.Rsync
