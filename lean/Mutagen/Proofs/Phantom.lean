import Mutagen.Model.Phantom
import Mutagen.Proofs.Valid
import Mutagen.Proofs.Executability
/-!
Lemmas about `reify` (phantom.go) used by `Properties/C18`: reification keeps
snapshots valid, and a chain of directory kinds that ends in a file on both
sides becomes a chain of directories with the files untouched.
-/
namespace Mutagen.Proofs.Phantom
open Mutagen.Model Mutagen.Proofs.Valid Mutagen.Proofs.Executability

/-- Every proper prefix of `q` is a directory or a phantom directory. -/
def dirKindsAbove : Option Entry → Path → Bool
  | _, [] => true
  | t, n :: r => isDirectoryKind t && dirKindsAbove (lookup n (contents t)) r

theorem findResult_map (n : Name) (l : List Name) (f : Name → Reified) (h : n ∈ l) :
    findResult n (l.map fun m => (m, f m)) = some (f n) := by
  induction l with
  | nil => simp at h
  | cons m t ih =>
    simp only [List.map_cons, findResult]
    by_cases hm : m = n
    · simp [hm]
    · simp only [hm, if_false]
      exact ih (by simpa [Ne.symm hm] using h)

theorem findResult_map_some (n : Name) (l : List Name) (f : Name → Reified) (r : Reified)
    (h : findResult n (l.map fun m => (m, f m)) = some r) : n ∈ l ∧ r = f n := by
  induction l with
  | nil => simp [findResult] at h
  | cons m t ih =>
    simp only [List.map_cons, findResult] at h
    by_cases hm : m = n
    · simp only [hm, if_true, Option.some.injEq] at h
      exact ⟨by simp [hm], h.symm⟩
    · simp only [hm, if_false] at h
      obtain ⟨h1, h2⟩ := ih h
      exact ⟨List.mem_cons_of_mem _ h1, h2⟩

theorem lookup_reifiedKids (n : Name) (results : List (Name × Reified)) (pick : Reified → Option Entry)
    (cs : Contents) :
    lookup n (reifiedKids results pick cs) =
      (lookup n cs).map fun c => ((findResult n results).bind pick).getD c := by
  induction cs with
  | nil => simp [reifiedKids, lookup]
  | cons hd t ih =>
    obtain ⟨m, c⟩ := hd
    simp only [reifiedKids, List.map_cons, lookup] at ih ⊢
    by_cases hm : m = n
    · simp [hm]
    · simp only [hm, if_false]; exact ih

/-- The recursive results of `reify`, as a plain map over the name union. -/
def reifyResults (a α β : Option Entry) : List (Name × Reified) :=
  (nameUnion [contents α, contents β]).map fun n =>
    (n, reify (lookup n (contents a)) (lookup n (contents α)) (lookup n (contents β)))

/-- Unfolding of `reify` in the directory-kind branch. -/
theorem reify_dir (a α β : Option Entry) (h : (!isDirectoryKind α && !isDirectoryKind β) = false) :
    reify a α β =
      let results := reifyResults a α β
      let toTracked := (results.any fun r => r.2.tracked) || isKind a .directory
      let ra := reifyNode toTracked (reifiedKids results (·.alpha) (contents α)) α
      let rb := reifyNode toTracked (reifiedKids results (·.beta) (contents β)) β
      { alpha := ra.1, beta := rb.1,
        tracked := decide ((results.map fun r => r.2.alphaCount).sum + ra.2 ≥ 1) ||
          decide ((results.map fun r => r.2.betaCount).sum + rb.2 ≥ 1),
        alphaCount := (results.map fun r => r.2.alphaCount).sum + ra.2,
        betaCount := (results.map fun r => r.2.betaCount).sum + rb.2 } := by
  rw [reify]
  simp only [h, Bool.false_eq_true, if_false, reifyResults]
  have : ((nameUnion [contents α, contents β]).attach.map fun n =>
      (n.1, reify (lookup n.1 (contents a)) (lookup n.1 (contents α)) (lookup n.1 (contents β)))) =
      (nameUnion [contents α, contents β]).map fun n =>
        (n, reify (lookup n (contents a)) (lookup n (contents α)) (lookup n (contents β))) :=
    List.attach_map_val (l := nameUnion [contents α, contents β])
      (f := fun n => (n, reify (lookup n (contents a)) (lookup n (contents α)) (lookup n (contents β))))
  rw [this]
  rfl

theorem reify_leaf (a α β : Option Entry) (h : (!isDirectoryKind α && !isDirectoryKind β) = true) :
    reify a α β = { alpha := α, beta := β, tracked := isTrackedKind α || isTrackedKind β } := by
  rw [reify]; simp [h]

theorem isDirectoryKind_some {x : Option Entry} (h : isDirectoryKind x = true) :
    ∃ p cs, x = some (.mk p cs) ∧ (p.kind = .directory ∨ p.kind = .phantom) := by
  cases x with
  | none => simp [isDirectoryKind, isKind] at h
  | some e =>
    obtain ⟨p, cs⟩ := e
    refine ⟨p, cs, rfl, ?_⟩
    simpa [isDirectoryKind, isKind, Entry.kind, Entry.props] using h

theorem mem_keys_of_lookup_some {n : Name} {cs : Contents} {c : Entry} (h : lookup n cs = some c) :
    n ∈ keys cs := by
  induction cs with
  | nil => simp [lookup] at h
  | cons hd t ih =>
    obtain ⟨m, e⟩ := hd
    simp only [lookup] at h
    simp only [keys, List.map_cons, List.mem_cons]
    split at h
    · rename_i hm; left; exact hm.symm
    · right; exact ih h

/-- A file (more generally: a tracked entry that is not a directory kind). -/
def isFileAt (t : Option Entry) (q : Path) : Bool := isKind (getPath t q) .file

/-- Below a chain of directory kinds on both sides that ends in a file on both
sides, reification turns every node of the chain into a directory and leaves
the files alone. -/
theorem reify_chain (q : Path) : ∀ (a α β : Option Entry),
    dirKindsAbove α q = true → dirKindsAbove β q = true → isFileAt α q = true → isFileAt β q = true →
    (reify a α β).tracked = true ∧
      dirsAbove (reify a α β).alpha q = true ∧ dirsAbove (reify a α β).beta q = true ∧
      getPath (reify a α β).alpha q = getPath α q ∧ getPath (reify a α β).beta q = getPath β q := by
  induction q with
  | nil =>
    intro a α β _ _ hα hβ
    simp only [isFileAt, getPath] at hα hβ
    have hdα : isDirectoryKind α = false := by
      cases α with
      | none => simp [isKind] at hα
      | some e => simp [isKind] at hα; simp [isDirectoryKind, isKind, hα]
    have hdβ : isDirectoryKind β = false := by
      cases β with
      | none => simp [isKind] at hβ
      | some e => simp [isKind] at hβ; simp [isDirectoryKind, isKind, hβ]
    rw [reify_leaf a α β (by simp [hdα, hdβ])]
    refine ⟨?_, rfl, rfl, rfl, rfl⟩
    cases α with
    | none => simp [isKind] at hα
    | some e => simp [isKind] at hα; simp [isTrackedKind, hα]
  | cons n r ih =>
    intro a α β hdα hdβ hα hβ
    simp only [dirKindsAbove, Bool.and_eq_true] at hdα hdβ
    obtain ⟨pα, csα, rfl, hkα⟩ := isDirectoryKind_some hdα.1
    obtain ⟨pβ, csβ, rfl, hkβ⟩ := isDirectoryKind_some hdβ.1
    simp only [isFileAt, getPath, contents, Entry.children] at hα hβ hdα hdβ
    -- the recursive call for `n`
    have ihn := ih (lookup n (contents a)) (lookup n csα) (lookup n csβ) hdα.2 hdβ.2
      (by simpa [isFileAt] using hα) (by simpa [isFileAt] using hβ)
    obtain ⟨it, ida, idb, iga, igb⟩ := ihn
    have hsomeα : ∃ c, lookup n csα = some c := by
      cases hl : lookup n csα with
      | none => rw [hl] at hα; simp [Mutagen.Proofs.Executability.getPath_none, isKind] at hα
      | some c => exact ⟨c, rfl⟩
    have hsomeβ : ∃ c, lookup n csβ = some c := by
      cases hl : lookup n csβ with
      | none => rw [hl] at hβ; simp [Mutagen.Proofs.Executability.getPath_none, isKind] at hβ
      | some c => exact ⟨c, rfl⟩
    obtain ⟨cα, hcα⟩ := hsomeα
    obtain ⟨cβ, hcβ⟩ := hsomeβ
    have hmem : n ∈ nameUnion [contents (some (Entry.mk pα csα)), contents (some (Entry.mk pβ csβ))] :=
      mem_nameUnion.mpr ⟨csα, by simp [contents, Entry.children], mem_keys_of_lookup_some hcα⟩
    have hfind : findResult n (reifyResults a (some (Entry.mk pα csα)) (some (Entry.mk pβ csβ))) =
        some (reify (lookup n (contents a)) (lookup n csα) (lookup n csβ)) :=
      findResult_map n _ (fun m => reify (lookup m (contents a))
        (lookup m (contents (some (Entry.mk pα csα)))) (lookup m (contents (some (Entry.mk pβ csβ))))) hmem
    have hany : ((reifyResults a (some (Entry.mk pα csα)) (some (Entry.mk pβ csβ))).any fun r => r.2.tracked) = true := by
      rw [List.any_eq_true]
      refine ⟨(n, reify (lookup n (contents a)) (lookup n csα) (lookup n csβ)), ?_, it⟩
      exact List.mem_map.mpr ⟨n, hmem, rfl⟩
    have hnot : (!isDirectoryKind (some (Entry.mk pα csα)) && !isDirectoryKind (some (Entry.mk pβ csβ))) = false := by
      simp [hdα.1]
    rw [reify_dir a _ _ hnot]
    simp only [hany, Bool.true_or]
    have hnα : ∀ kids, reifyNode true kids (some (Entry.mk pα csα)) = (some (Entry.mk { pα with kind := .directory } kids), 1) := by
      intro kids; rcases hkα with h | h <;> simp [reifyNode, h]
    have hnβ : ∀ kids, reifyNode true kids (some (Entry.mk pβ csβ)) = (some (Entry.mk { pβ with kind := .directory } kids), 1) := by
      intro kids; rcases hkβ with h | h <;> simp [reifyNode, h]
    simp only [hnα, hnβ]
    -- the children after reification
    have hrα : (reify (lookup n (contents a)) (lookup n csα) (lookup n csβ)).alpha ≠ none := by
      intro h0; rw [h0, Mutagen.Proofs.Executability.getPath_none] at iga
      rw [← iga] at hα; simp [isKind] at hα
    have hrβ : (reify (lookup n (contents a)) (lookup n csα) (lookup n csβ)).beta ≠ none := by
      intro h0; rw [h0, Mutagen.Proofs.Executability.getPath_none] at igb
      rw [← igb] at hβ; simp [isKind] at hβ
    have hlα : lookup n (reifiedKids (reifyResults a (some (Entry.mk pα csα)) (some (Entry.mk pβ csβ))) (·.alpha) csα) =
        (reify (lookup n (contents a)) (lookup n csα) (lookup n csβ)).alpha := by
      rw [lookup_reifiedKids, hfind, hcα]
      cases hx : (reify (lookup n (contents a)) (lookup n csα) (lookup n csβ)).alpha with
      | none => exact absurd hx hrα
      | some x => simp [hcα] at hx ⊢; simp [hx]
    have hlβ : lookup n (reifiedKids (reifyResults a (some (Entry.mk pα csα)) (some (Entry.mk pβ csβ))) (·.beta) csβ) =
        (reify (lookup n (contents a)) (lookup n csα) (lookup n csβ)).beta := by
      rw [lookup_reifiedKids, hfind, hcβ]
      cases hx : (reify (lookup n (contents a)) (lookup n csα) (lookup n csβ)).beta with
      | none => exact absurd hx hrβ
      | some x => simp [hcβ] at hx ⊢; simp [hx]
    refine ⟨by simp, ?_, ?_, ?_, ?_⟩
    · simp only [dirsAbove, isKind, Entry.kind, Entry.props, contents, Entry.children, beq_self_eq_true, Bool.true_and]
      rw [hlα]; exact ida
    · simp only [dirsAbove, isKind, Entry.kind, Entry.props, contents, Entry.children, beq_self_eq_true, Bool.true_and]
      rw [hlβ]; exact idb
    · simp only [getPath, contents, Entry.children]
      rw [hlα]; exact iga
    · simp only [getPath, contents, Entry.children]
      rw [hlβ]; exact igb


theorem kids_valid (results : List (Name × Reified)) (pick : Reified → Option Entry) (cs : Contents)
    (hcs : Entry.ensureValidL false cs = true)
    (hr : ∀ n r, findResult n results = some r → oensureValid false (pick r) = true) :
    Entry.ensureValidL false (reifiedKids results pick cs) = true := by
  induction cs with
  | nil => simp [reifiedKids, Entry.ensureValidL]
  | cons hd t ih =>
    obtain ⟨n, c⟩ := hd
    simp only [Entry.ensureValidL, Bool.and_eq_true] at hcs
    simp only [reifiedKids, List.map_cons, Entry.ensureValidL, Bool.and_eq_true]
    refine ⟨⟨hcs.1.1, ?_⟩, ih hcs.2⟩
    cases hf : findResult n results with
    | none => simpa using hcs.1.2
    | some r =>
      cases hp : pick r with
      | none => simpa [hp] using hcs.1.2
      | some x =>
        have := hr n r hf
        rw [hp] at this
        simpa [hp, oensureValid] using this

theorem reifyNode_valid (t : Bool) (results : List (Name × Reified)) (pick : Reified → Option Entry)
    (x : Option Entry) (hx : oensureValid false x = true)
    (hk : Entry.ensureValidL false (reifiedKids results pick (contents x)) = true) :
    oensureValid false (reifyNode t (reifiedKids results pick (contents x)) x).1 = true := by
  cases x with
  | none => simp [reifyNode, oensureValid]
  | some e =>
    obtain ⟨p, cs⟩ := e
    simp only [contents, Entry.children] at hk
    have hemp : (reifiedKids results pick cs).isEmpty = cs.isEmpty := by
      cases cs <;> simp [reifiedKids]
    simp only [oensureValid] at hx
    unfold Entry.ensureValid at hx
    simp only [reifyNode, contents, Entry.children]
    cases hkind : p.kind <;> simp only [hkind] at hx <;>
      cases t <;> simp [oensureValid, Entry.ensureValid, hkind, hk, hemp] <;> simp_all

/-- Reification keeps both snapshots valid. -/
theorem reify_valid (a α β : Option Entry) :
    oensureValid false α = true → oensureValid false β = true →
    oensureValid false (reify a α β).alpha = true ∧ oensureValid false (reify a α β).beta = true := by
  induction a, α, β using reify.induct with
  | case1 a α β h => intro hα hβ; rw [reify_leaf a α β h]; exact ⟨hα, hβ⟩
  | case2 a α β h results trackedLower toTracked _ _ _ _ _ _ ih =>
    intro hα hβ
    have hnot : (!isDirectoryKind α && !isDirectoryKind β) = false := eq_false_of_ne_true h
    rw [reify_dir a α β hnot]
    have hres : ∀ n r, findResult n (reifyResults a α β) = some r →
        oensureValid false r.alpha = true ∧ oensureValid false r.beta = true := by
      intro n r hf
      obtain ⟨hmem, hr⟩ := findResult_map_some n _ (fun m => reify (lookup m (contents a))
        (lookup m (contents α)) (lookup m (contents β))) r hf
      rw [hr]
      exact ih ⟨n, hmem⟩ (ovalid_lookup false α n hα) (ovalid_lookup false β n hβ)
    have hcα : Entry.ensureValidL false (contents α) = true := by
      cases α with
      | none => rfl
      | some e =>
        obtain ⟨p, cs⟩ := e
        simp only [oensureValid] at hα
        unfold Entry.ensureValid at hα
        cases hk : p.kind <;> simp only [hk, Bool.and_eq_true] at hα <;>
          simp_all [contents, Entry.children, Entry.ensureValidL]
    have hcβ : Entry.ensureValidL false (contents β) = true := by
      cases β with
      | none => rfl
      | some e =>
        obtain ⟨p, cs⟩ := e
        simp only [oensureValid] at hβ
        unfold Entry.ensureValid at hβ
        cases hk : p.kind <;> simp only [hk, Bool.and_eq_true] at hβ <;>
          simp_all [contents, Entry.children, Entry.ensureValidL]
    exact ⟨reifyNode_valid _ _ _ α hα (kids_valid _ _ _ hcα (fun n r hf => (hres n r hf).1)),
      reifyNode_valid _ _ _ β hβ (kids_valid _ _ _ hcβ (fun n r hf => (hres n r hf).2))⟩

end Mutagen.Proofs.Phantom
