import Mutagen.Proofs.Executability
import Mutagen.Proofs.EndpointValid
/-!
`PropagateExecutability` keeps a valid, phantom-free tree valid and
phantom-free (it only rewrites executable bits of files), and does not move
the directories changes sit in.
-/
namespace Mutagen.Proofs.PropagateWF
open Mutagen.Model Mutagen.Proofs.Executability

/-! ## `propagate` keeps trees valid and phantom-free -/

mutual
theorem nodupKeys_propagate : ∀ (e : Entry) (a s : Option Entry), e.nodupKeys = true → (e.propagate a s).nodupKeys = true
  | .mk p cs, a, s, h => by
    have hc := propagate_children p cs a s
    cases he : Entry.propagate a s (Entry.mk p cs) with
    | mk p' cs' =>
      rw [he] at hc
      simp only [Entry.children] at hc
      simp only [Entry.nodupKeys, Bool.and_eq_true] at h ⊢
      rw [hc]
      split
      · rw [keys_propagateL]
        exact ⟨h.1, nodupKeysL_propagateL cs (contents a) (contents s) h.2⟩
      · exact h
theorem nodupKeysL_propagateL : ∀ (cs : Contents) (ac sc : Contents), Entry.nodupKeysL cs = true →
    Entry.nodupKeysL (Entry.propagateL ac sc cs) = true
  | [], _, _, _ => by simp [Entry.propagateL, Entry.nodupKeysL]
  | (n, c) :: r, ac, sc, h => by
    simp only [Entry.nodupKeysL, Bool.and_eq_true] at h
    simp only [Entry.propagateL, Entry.nodupKeysL, Bool.and_eq_true]
    exact ⟨nodupKeys_propagate c _ _ h.1, nodupKeysL_propagateL r ac sc h.2⟩
end

theorem ruleAt_kind (A S T : Option Entry) (q : Path) (p : Props) : (ruleAt A S T q p).kind = p.kind := by
  unfold ruleAt; split <;> rfl

theorem nodeOkE_ruleAt (A S T : Option Entry) (q : Path) (p : Props) (h : NodeOkE p) : NodeOkE (ruleAt A S T q p) := by
  unfold ruleAt
  split
  · rename_i hc
    have hk : p.kind = .file := by
      simp only [Bool.and_eq_true, beq_iff_eq] at hc; exact hc.1
    left; right; left
    rcases h with h | h | h
    · rcases h with h | h | h
      · rw [hk] at h; simp at h
      · exact ⟨hk, h.2.1, h.2.2.1, h.2.2.2⟩
      · rw [hk] at h; simp at h
    · rw [hk] at h; simp at h
    · rw [hk] at h; simp at h
  · exact h

theorem pget_prop (A S T : Option Entry) (q : Path) :
    pget (propagateExecutability A S T) q = (pget T q).map (ruleAt A S T q) := by
  cases T with
  | none => simp [propagateExecutability, pget, Mutagen.Proofs.Executability.getPath_none]
  | some t => exact propsAt_propagate q t A S

theorem dirParent_prop (A S T : Option Entry) (q : Path) :
    DirParent (propagateExecutability A S T) q ↔ DirParent T q := by
  unfold DirParent
  constructor
  · rintro (h | ⟨⟨pr, hp, hk⟩, hn⟩)
    · exact Or.inl h
    · right
      refine ⟨?_, hn⟩
      rw [pget_prop] at hp
      cases hq : pget T q.dropLast with
      | none => simp [hq] at hp
      | some p0 =>
        simp only [hq, Option.map_some, Option.some.injEq] at hp
        exact ⟨p0, rfl, by rw [← ruleAt_kind A S T q.dropLast p0, hp]; exact hk⟩
  · rintro (h | ⟨⟨pr, hp, hk⟩, hn⟩)
    · exact Or.inl h
    · right
      refine ⟨⟨ruleAt A S T q.dropLast pr, by rw [pget_prop, hp]; rfl, by rw [ruleAt_kind]; exact hk⟩, hn⟩

theorem pw_prop (A S T : Option Entry) (h : PW NodeOkE T) : PW NodeOkE (propagateExecutability A S T) := by
  intro q pr hq
  rw [pget_prop] at hq
  cases hT : pget T q with
  | none => simp [hT] at hq
  | some p0 =>
    simp only [hT, Option.map_some, Option.some.injEq] at hq
    subst hq
    exact ⟨nodeOkE_ruleAt A S T q p0 (h q p0 hT).1, (dirParent_prop A S T q).mpr (h q p0 hT).2⟩

theorem onodupKeys_prop (A S T : Option Entry) (h : onodupKeys T = true) :
    onodupKeys (propagateExecutability A S T) = true := by
  cases T with
  | none => rfl
  | some t => exact nodupKeys_propagate t A S h

/-- Propagation keeps a valid phantom-free tree valid and phantom-free. -/
theorem valid_prop (A S T : Option Entry) (hv : Valid T) (hp : onoPhantom T = true) :
    Valid (propagateExecutability A S T) ∧ onoPhantom (propagateExecutability A S T) = true :=
  valid_of_pwE (onodupKeys_prop A S T hv.1) (pw_prop A S T (pwE_of_valid hv hp))

end Mutagen.Proofs.PropagateWF
