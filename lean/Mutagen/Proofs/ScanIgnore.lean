import Mutagen.Model.IgnoreCore
/-! Lemmas about the ignore-related part of `scanner.directory` (core Lean only). -/
namespace Mutagen.Proofs.ScanIgnore
open Mutagen.Model.IgnoreCore

theorem scanChild_file (ign : IgnoreFn) (p : Str) (mask : Bool) :
    scanChild ign p mask .file =
      if (childDecision (ign p false).1 (ign p false).2 mask).isSome then .file else .untracked := by
  simp only [scanChild]
  generalize ign p false = r
  obtain ⟨a, b⟩ := r
  cases childDecision a b mask <;> rfl

theorem scanChild_link (ign : IgnoreFn) (p : Str) (mask : Bool) :
    scanChild ign p mask .link =
      if (childDecision (ign p false).1 (ign p false).2 mask).isSome then .link else .untracked := by
  simp only [scanChild]
  generalize ign p false = r
  obtain ⟨a, b⟩ := r
  cases childDecision a b mask <;> rfl

theorem scanChild_dir (ign : IgnoreFn) (p : Str) (mask : Bool) (cs : List (Str × Node)) :
    scanChild ign p mask (.dir cs) =
      match childDecision (ign p true).1 (ign p true).2 mask with
      | none => .untracked
      | some mk => .dir mk (scanChildren ign p mk cs) := by
  simp only [scanChild]
  generalize ign p true = r
  obtain ⟨a, b⟩ := r
  cases childDecision a b mask <;> rfl

/-- Without continuation and without a mask, the only decisions are "untracked"
(ignored) and "proceed without a mask". -/
theorem decision_no_continue (st : Status) :
    childDecision st false false = (if st = .ignored then none else some false) := by
  cases st <;> simp [childDecision]

mutual
/-- A scan driven by an ignorer that never asks to continue traversal produces
no phantom directory. -/
theorem scanChild_noPhantom (ign : IgnoreFn) (hc : ∀ p d, (ign p d).2 = false) :
    ∀ (node : Node) (p : Str), noPhantom (scanChild ign p false node) = true
  | .other, p => by simp [scanChild, noPhantom]
  | .file, p => by
    rw [scanChild_file]; split <;> simp [noPhantom]
  | .link, p => by
    rw [scanChild_link]; split <;> simp [noPhantom]
  | .dir cs, p => by
    rw [scanChild_dir, hc p true, decision_no_continue]
    by_cases hst : (ign p true).1 = .ignored
    · simp [hst, noPhantom]
    · simp only [hst, if_false, noPhantom, Bool.not_false, Bool.true_and]
      exact scanChildren_noPhantom ign hc cs p
theorem scanChildren_noPhantom (ign : IgnoreFn) (hc : ∀ p d, (ign p d).2 = false) :
    ∀ (cs : List (Str × Node)) (path : Str), noPhantomChildren (scanChildren ign path false cs) = true
  | [], path => by simp [scanChildren, noPhantomChildren]
  | (name, node) :: rest, path => by
    simp only [scanChildren, noPhantomChildren, Bool.and_eq_true]
    exact ⟨scanChild_noPhantom ign hc node (joinable path ++ name), scanChildren_noPhantom ign hc rest path⟩
end

end Mutagen.Proofs.ScanIgnore
