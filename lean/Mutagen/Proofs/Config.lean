import Mutagen.Model.Config
/-!
Helper lemmas for C37 (core Lean only).
-/
namespace Mutagen.Proofs.Config
open Mutagen.Model.Config Mutagen.Facts

theorem firstError_ok_iff {ε : Type} (l : List (Bool × ε)) :
    firstError l = .ok () ↔ ∀ p ∈ l, p.1 = false := by
  induction l with
  | nil => simp [firstError]
  | cons p rest ih =>
    obtain ⟨bad, e⟩ := p
    cases bad with
    | true => simp [firstError]
    | false => simp [firstError, ih]

theorem tag_ok {α : Type} (s : Stage) (r : Except CErr α) (a : α) : tag s r = .ok a ↔ r = .ok a := by
  cases r <;> simp [tag]

/-- Session-level acceptance is the conjunction of its five checks. -/
theorem sessionAccepts_ok_iff (B : Build) (c ca cb : Configuration) :
    sessionAccepts B c ca cb = .ok () ↔
      ensureValid B false c = .ok () ∧ ensureValid B true ca = .ok () ∧ ensureValid B true cb = .ok () ∧
      ensureValid B false (merge c ca) = .ok () ∧ ensureValid B false (merge c cb) = .ok () := by
  unfold sessionAccepts
  cases h1 : ensureValid B false c with
  | error e => simp [tag, bind, Except.bind]
  | ok u1 =>
    cases h2 : ensureValid B true ca with
    | error e => simp [tag, bind, Except.bind]
    | ok u2 =>
      cases h3 : ensureValid B true cb with
      | error e => simp [tag, bind, Except.bind]
      | ok u3 =>
        cases h4 : ensureValid B false (merge c ca) with
        | error e => simp [tag, bind, Except.bind]
        | ok u4 =>
          cases h5 : ensureValid B false (merge c cb) with
          | error e => simp [tag, bind, Except.bind]
          | ok u5 => simp [tag, bind, Except.bind]

theorem sessionAcceptsOriginal_ok_iff (B : Build) (c ca cb : Configuration) :
    sessionAcceptsOriginal B c ca cb = .ok () ↔
      ensureValid B false c = .ok () ∧ ensureValid B true ca = .ok () ∧ ensureValid B true cb = .ok () := by
  unfold sessionAcceptsOriginal
  cases h1 : ensureValid B false c with
  | error e => simp [tag, bind, Except.bind]
  | ok u1 =>
    cases h2 : ensureValid B true ca with
    | error e => simp [tag, bind, Except.bind]
    | ok u2 =>
      cases h3 : ensureValid B true cb with
      | error e => simp [tag, bind, Except.bind]
      | ok u3 => simp [tag, bind, Except.bind]

/-! ## What validity says, check by check -/

/-- Validity of a session-wide configuration, spelled out. -/
structure ValidSession (B : Build) (c : Configuration) : Prop where
  sync : modeOK synchronizationModes c.synchronizationMode = true
  hash : c.hashingAlgorithm = 0 ∨ hashingStatus B c.hashingAlgorithm = .supported
  probe : modeOK probeModes c.probeMode = true
  scan : modeOK scanModes c.scanMode = true
  stage : modeOK stageModes c.stageMode = true
  symlink : modeOK symbolicLinkModes c.symbolicLinkMode = true
  watch : modeOK watchModes c.watchMode = true
  syntaxOK : modeOK ignoreSyntaxes c.ignoreSyntax = true
  vcs : modeOK ignoreVCSModes c.ignoreVCSMode = true
  perm : modeOK permissionsModes c.permissionsMode = true
  fileBits : c.defaultFileMode = 0 ∨ nonPermissionBits c.defaultFileMode = false
  fileExec : c.defaultFileMode = 0 ∨ effectivePermissionsMode false c ≠ cfgPermPortable ∨
    anyExecutableBitSet c.defaultFileMode = false
  dirBits : c.defaultDirectoryMode = 0 ∨ nonPermissionBits c.defaultDirectoryMode = false
  owner : c.defaultOwner = [] ∨ ownershipIdentifierValid c.defaultOwner = true
  group : c.defaultGroup = [] ∨ ownershipIdentifierValid c.defaultGroup = true
  compress : c.compressionAlgorithm = 0 ∨ compressionStatus B c.compressionAlgorithm = .supported

theorem status_supported {s : SupportStatus} (h1 : (s == .unsupported) = false) (h2 : (s == .requiresLicense) = false) :
    s = .supported := by
  cases s <;> simp_all

theorem ensureValid_session_iff (B : Build) (c : Configuration) :
    ensureValid B false c = .ok () ↔ ValidSession B c := by
  unfold ensureValid
  rw [firstError_ok_iff]
  constructor
  · intro h
    have mem : ∀ p, p ∈ checks B false c → p.1 = false := h
    have hsync := mem (!false && !modeOK synchronizationModes c.synchronizationMode, .syncUnsupported) (by simp [checks])
    have hh1 := mem (!false && c.hashingAlgorithm != 0 && hashingStatus B c.hashingAlgorithm == .unsupported, .hashUnsupported) (by simp [checks])
    have hh2 := mem (!false && c.hashingAlgorithm != 0 && hashingStatus B c.hashingAlgorithm == .requiresLicense, .hashLicense) (by simp [checks])
    have hprobe := mem (!modeOK probeModes c.probeMode, .probe) (by simp [checks])
    have hscan := mem (!modeOK scanModes c.scanMode, .scan) (by simp [checks])
    have hstage := mem (!modeOK stageModes c.stageMode, .stage) (by simp [checks])
    have hsym := mem (!false && !modeOK symbolicLinkModes c.symbolicLinkMode, .symlinkUnsupported) (by simp [checks])
    have hwatch := mem (!modeOK watchModes c.watchMode, .watch) (by simp [checks])
    have hsyn := mem (!false && !modeOK ignoreSyntaxes c.ignoreSyntax, .syntaxUnsupported) (by simp [checks])
    have hvcs := mem (!false && !modeOK ignoreVCSModes c.ignoreVCSMode, .vcsUnsupported) (by simp [checks])
    have hperm := mem (!false && !modeOK permissionsModes c.permissionsMode, .permUnsupported) (by simp [checks])
    have hfb := mem (c.defaultFileMode != 0 && nonPermissionBits c.defaultFileMode, .fileModeBits) (by simp [checks])
    have hfe := mem (c.defaultFileMode != 0 && effectivePermissionsMode false c == cfgPermPortable
      && anyExecutableBitSet c.defaultFileMode, .fileModeExec) (by simp [checks])
    have hdb := mem (c.defaultDirectoryMode != 0 && nonPermissionBits c.defaultDirectoryMode, .directoryModeBits) (by simp [checks])
    have how := mem (!c.defaultOwner.isEmpty && !ownershipIdentifierValid c.defaultOwner, .owner) (by simp [checks])
    have hgr := mem (!c.defaultGroup.isEmpty && !ownershipIdentifierValid c.defaultGroup, .group) (by simp [checks])
    have hc1 := mem (c.compressionAlgorithm != 0 && compressionStatus B c.compressionAlgorithm == .unsupported, .compressUnsupported) (by simp [checks])
    have hc2 := mem (c.compressionAlgorithm != 0 && compressionStatus B c.compressionAlgorithm == .requiresLicense, .compressLicense) (by simp [checks])
    simp only [Bool.not_false, Bool.true_and, Bool.not_eq_eq_eq_not, Bool.not_true, Bool.not_eq_false] at hsync hprobe hscan hstage hsym hwatch hsyn hvcs hperm
    simp only [Bool.not_false, Bool.true_and, Bool.and_eq_false_imp, bne_iff_ne, ne_eq] at hh1 hh2 hfb hfe hdb hc1 hc2
    refine ⟨hsync, ?_, hprobe, hscan, hstage, hsym, hwatch, hsyn, hvcs, hperm, ?_, ?_, ?_, ?_, ?_, ?_⟩
    · by_cases h0 : c.hashingAlgorithm = 0
      · exact Or.inl h0
      · exact Or.inr (status_supported (by simpa using hh1 h0) (by simpa using hh2 h0))
    · by_cases h0 : c.defaultFileMode = 0
      · exact Or.inl h0
      · exact Or.inr (by simpa using hfb h0)
    · by_cases h0 : c.defaultFileMode = 0
      · exact Or.inl h0
      · by_cases h1 : effectivePermissionsMode false c = cfgPermPortable
        · exact Or.inr (Or.inr (hfe (by simp [h0, h1])))
        · exact Or.inr (Or.inl h1)
    · by_cases h0 : c.defaultDirectoryMode = 0
      · exact Or.inl h0
      · exact Or.inr (by simpa using hdb h0)
    · by_cases h0 : c.defaultOwner = []
      · exact Or.inl h0
      · exact Or.inr (by simpa [h0] using how)
    · by_cases h0 : c.defaultGroup = []
      · exact Or.inl h0
      · exact Or.inr (by simpa [h0] using hgr)
    · by_cases h0 : c.compressionAlgorithm = 0
      · exact Or.inl h0
      · exact Or.inr (status_supported (by simpa using hc1 h0) (by simpa using hc2 h0))
  · intro v p hp
    simp only [checks, List.mem_cons, List.mem_nil_iff, or_false] at hp
    rcases hp with rfl | rfl | rfl | rfl | rfl | rfl | rfl | rfl | rfl | rfl | rfl | rfl | rfl | rfl | rfl | rfl |
      rfl | rfl | rfl | rfl | rfl | rfl | rfl | rfl | rfl | rfl
    all_goals simp
    · exact v.sync
    · rcases v.hash with h | h <;> simp [h]
    · rcases v.hash with h | h <;> simp [h]
    · exact v.probe
    · exact v.scan
    · exact v.stage
    · exact v.symlink
    · exact v.watch
    · exact v.syntaxOK
    · exact v.vcs
    · exact v.perm
    · rcases v.fileBits with h | h <;> simp [h]
    · rcases v.fileExec with h | h | h <;> simp [h]
    · rcases v.dirBits with h | h <;> simp [h]
    · rcases v.owner with h | h <;> simp [h]
    · rcases v.group with h | h <;> simp [h]
    · rcases v.compress with h | h <;> simp [h]
    · rcases v.compress with h | h <;> simp [h]

/-- Validity of an endpoint-specific configuration, spelled out (what is used of it). -/
structure ValidEndpoint (B : Build) (e : Configuration) : Prop where
  sync : e.synchronizationMode = 0
  hash : e.hashingAlgorithm = 0
  probe : modeOK probeModes e.probeMode = true
  scan : modeOK scanModes e.scanMode = true
  stage : modeOK stageModes e.stageMode = true
  symlink : e.symbolicLinkMode = 0
  watch : modeOK watchModes e.watchMode = true
  syntaxOK : e.ignoreSyntax = 0
  defaultIgnores : e.defaultIgnores = []
  ignores : e.ignores = []
  vcs : e.ignoreVCSMode = 0
  perm : e.permissionsMode = 0
  fileBits : e.defaultFileMode = 0 ∨ nonPermissionBits e.defaultFileMode = false
  dirBits : e.defaultDirectoryMode = 0 ∨ nonPermissionBits e.defaultDirectoryMode = false
  owner : e.defaultOwner = [] ∨ ownershipIdentifierValid e.defaultOwner = true
  group : e.defaultGroup = [] ∨ ownershipIdentifierValid e.defaultGroup = true
  compress : e.compressionAlgorithm = 0 ∨ compressionStatus B e.compressionAlgorithm = .supported

theorem ensureValid_endpoint (B : Build) (e : Configuration) (h : ensureValid B true e = .ok ()) :
    ValidEndpoint B e := by
  unfold ensureValid at h
  rw [firstError_ok_iff] at h
  have mem : ∀ p, p ∈ checks B true e → p.1 = false := h
  have hsync := mem (true && e.synchronizationMode != 0, .syncEndpointSpecific) (by simp [checks])
  have hhash := mem (true && e.hashingAlgorithm != 0, .hashEndpointSpecific) (by simp [checks])
  have hprobe := mem (!modeOK probeModes e.probeMode, .probe) (by simp [checks])
  have hscan := mem (!modeOK scanModes e.scanMode, .scan) (by simp [checks])
  have hstage := mem (!modeOK stageModes e.stageMode, .stage) (by simp [checks])
  have hsym := mem (true && e.symbolicLinkMode != 0, .symlinkEndpointSpecific) (by simp [checks])
  have hwatch := mem (!modeOK watchModes e.watchMode, .watch) (by simp [checks])
  have hsyn := mem (true && e.ignoreSyntax != 0, .syntaxEndpointSpecific) (by simp [checks])
  have hdi := mem (true && !e.defaultIgnores.isEmpty, .defaultIgnoresEndpointSpecific) (by simp [checks])
  have hig := mem (true && !e.ignores.isEmpty, .ignoresEndpointSpecific) (by simp [checks])
  have hvcs := mem (true && e.ignoreVCSMode != 0, .vcsEndpointSpecific) (by simp [checks])
  have hperm := mem (true && e.permissionsMode != 0, .permEndpointSpecific) (by simp [checks])
  have hfb := mem (e.defaultFileMode != 0 && nonPermissionBits e.defaultFileMode, .fileModeBits) (by simp [checks])
  have hdb := mem (e.defaultDirectoryMode != 0 && nonPermissionBits e.defaultDirectoryMode, .directoryModeBits) (by simp [checks])
  have how := mem (!e.defaultOwner.isEmpty && !ownershipIdentifierValid e.defaultOwner, .owner) (by simp [checks])
  have hgr := mem (!e.defaultGroup.isEmpty && !ownershipIdentifierValid e.defaultGroup, .group) (by simp [checks])
  have hc1 := mem (e.compressionAlgorithm != 0 && compressionStatus B e.compressionAlgorithm == .unsupported, .compressUnsupported) (by simp [checks])
  have hc2 := mem (e.compressionAlgorithm != 0 && compressionStatus B e.compressionAlgorithm == .requiresLicense, .compressLicense) (by simp [checks])
  simp only [Bool.true_and, bne_eq_false_iff_eq] at hsync hhash hsym hsyn hvcs hperm
  simp only [Bool.true_and, Bool.not_eq_eq_eq_not, Bool.not_false, List.isEmpty_iff] at hdi hig
  simp only [Bool.not_eq_eq_eq_not, Bool.not_false] at hprobe hscan hstage hwatch
  simp only [Bool.and_eq_false_imp, bne_iff_ne, ne_eq] at hfb hdb hc1 hc2
  refine ⟨hsync, hhash, hprobe, hscan, hstage, hsym, hwatch, hsyn, hdi, hig, hvcs, hperm, ?_, ?_, ?_, ?_, ?_⟩
  · by_cases h0 : e.defaultFileMode = 0
    · exact Or.inl h0
    · exact Or.inr (by simpa using hfb h0)
  · by_cases h0 : e.defaultDirectoryMode = 0
    · exact Or.inl h0
    · exact Or.inr (by simpa using hdb h0)
  · by_cases h0 : e.defaultOwner = []
    · exact Or.inl h0
    · exact Or.inr (by simpa [h0] using how)
  · by_cases h0 : e.defaultGroup = []
    · exact Or.inl h0
    · exact Or.inr (by simpa [h0] using hgr)
  · by_cases h0 : e.compressionAlgorithm = 0
    · exact Or.inl h0
    · exact Or.inr (status_supported (by simpa using hc1 h0) (by simpa using hc2 h0))

theorem pick_zero_left (l : Nat) : pick 0 l = l := by simp [pick]

theorem pick_cases (h l : Nat) : (h ≠ 0 ∧ pick h l = h) ∨ (h = 0 ∧ pick h l = l) := by
  by_cases hh : h = 0 <;> simp [pick, hh]

theorem modeOK_pick {t : ModeTable} {h l : Nat} (hh : modeOK t h = true) (hl : modeOK t l = true) :
    modeOK t (pick h l) = true := by
  rcases pick_cases h l with ⟨_, e⟩ | ⟨_, e⟩ <;> rw [e] <;> assumption

theorem pickStr_cases (h l : Str) : (h ≠ [] ∧ pickStr h l = h) ∨ (h = [] ∧ pickStr h l = l) := by
  by_cases hh : h = [] <;> simp [pickStr, hh]

/-- Validity of a merged configuration, given that both parts are valid on their own: everything
carries over except the executable bits of an endpoint-specific default file mode, which
have to be judged against the session's effective permissions mode. -/
theorem merged_valid_iff (B : Build) (c e : Configuration)
    (hc : ensureValid B false c = .ok ()) (he : ensureValid B true e = .ok ()) :
    ensureValid B false (merge c e) = .ok () ↔
      (e.defaultFileMode = 0 ∨ effectivePermissionsMode false c ≠ cfgPermPortable ∨
        anyExecutableBitSet e.defaultFileMode = false) := by
  have vc := (ensureValid_session_iff B c).mp hc
  have ve := ensureValid_endpoint B e he
  rw [ensureValid_session_iff]
  have hperm : (merge c e).permissionsMode = c.permissionsMode := by simp [merge, ve.perm, pick_zero_left]
  have heff : effectivePermissionsMode false (merge c e) = effectivePermissionsMode false c := by
    simp [effectivePermissionsMode, hperm]
  constructor
  · intro vm
    have := vm.fileExec
    rw [heff] at this
    rcases pick_cases e.defaultFileMode c.defaultFileMode with ⟨hne, hp⟩ | ⟨h0, _⟩
    · have hfm : (merge c e).defaultFileMode = e.defaultFileMode := by simp [merge, hp]
      rw [hfm] at this
      exact this
    · exact Or.inl h0
  · intro hcond
    refine
      { sync := by simp [merge, ve.sync, pick_zero_left, vc.sync]
        hash := by simp only [merge, ve.hash, pick_zero_left]; exact vc.hash
        probe := by simp only [merge]; exact modeOK_pick ve.probe vc.probe
        scan := by simp only [merge]; exact modeOK_pick ve.scan vc.scan
        stage := by simp only [merge]; exact modeOK_pick ve.stage vc.stage
        symlink := by simp [merge, ve.symlink, pick_zero_left, vc.symlink]
        watch := by simp only [merge]; exact modeOK_pick ve.watch vc.watch
        syntaxOK := by simp [merge, ve.syntaxOK, pick_zero_left, vc.syntaxOK]
        vcs := by simp [merge, ve.vcs, pick_zero_left, vc.vcs]
        perm := by rw [hperm]; exact vc.perm
        fileBits := ?_, fileExec := ?_, dirBits := ?_, owner := ?_, group := ?_, compress := ?_ }
    · simp only [merge]
      rcases pick_cases e.defaultFileMode c.defaultFileMode with ⟨_, hp⟩ | ⟨_, hp⟩ <;> rw [hp]
      · exact ve.fileBits
      · exact vc.fileBits
    · rw [heff]
      simp only [merge]
      rcases pick_cases e.defaultFileMode c.defaultFileMode with ⟨_, hp⟩ | ⟨_, hp⟩ <;> rw [hp]
      · exact hcond
      · exact vc.fileExec
    · simp only [merge]
      rcases pick_cases e.defaultDirectoryMode c.defaultDirectoryMode with ⟨_, hp⟩ | ⟨_, hp⟩ <;> rw [hp]
      · exact ve.dirBits
      · exact vc.dirBits
    · simp only [merge]
      rcases pickStr_cases e.defaultOwner c.defaultOwner with ⟨_, hp⟩ | ⟨_, hp⟩ <;> rw [hp]
      · exact ve.owner
      · exact vc.owner
    · simp only [merge]
      rcases pickStr_cases e.defaultGroup c.defaultGroup with ⟨_, hp⟩ | ⟨_, hp⟩ <;> rw [hp]
      · exact ve.group
      · exact vc.group
    · simp only [merge]
      rcases pick_cases e.compressionAlgorithm c.compressionAlgorithm with ⟨_, hp⟩ | ⟨_, hp⟩ <;> rw [hp]
      · exact ve.compress
      · exact vc.compress

/-! ## For concrete examples -/

instance exceptDecEq {ε α : Type} [DecidableEq ε] [DecidableEq α] : DecidableEq (Except ε α) := fun a b =>
  match a, b with
  | .ok x, .ok y => if h : x = y then isTrue (by rw [h]) else isFalse (by intro e; injection e with e; exact h e)
  | .error x, .error y => if h : x = y then isTrue (by rw [h]) else isFalse (by intro e; injection e with e; exact h e)
  | .ok _, .error _ => isFalse (by intro e; cases e)
  | .error _, .ok _ => isFalse (by intro e; cases e)

/-- The build without SSPL-licensed code. -/
def plainBuild : Build := { xxh128 := .unsupported, zstandard := .unsupported }

def emptyConfiguration : Configuration :=
  { synchronizationMode := 0, hashingAlgorithm := 0, maximumEntryCount := 0, maximumStagingFileSize := 0,
    probeMode := 0, scanMode := 0, stageMode := 0, symbolicLinkMode := 0, watchMode := 0,
    watchPollingInterval := 0, ignoreSyntax := 0, defaultIgnores := [], ignores := [], ignoreVCSMode := 0,
    permissionsMode := 0, defaultFileMode := 0, defaultDirectoryMode := 0, defaultOwner := [],
    defaultGroup := [], compressionAlgorithm := 0 }

end Mutagen.Proofs.Config
