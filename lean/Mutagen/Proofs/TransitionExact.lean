import Mutagen.Proofs.TransitionSafe
/-!
Exactness of the transition model (C09): what every function leaves on disk
is what it reports, for every fault oracle, cancellation point and sibling
order.  Also yields the digest of every file moved into the root (C10).

`RepAt X top q p e`: the entry `e` is the synchronizable description of what
the tree `top` holds at position `q` (synchronization path `p`) — the entry a
cold scan reports there, after dropping unsynchronizable content.
-/
namespace Mutagen.Proofs.FS
open Mutagen.Model Mutagen.Model.TFS Mutagen.Proofs.Assoc

/-- No component is the name of an intermediate temporary file. -/
def TempFree (q : List Name) : Prop := ∀ n ∈ q, isTemporaryName n = false

/-- Changes are confined to the subtree at `q0` and to temporary files. -/
def FrameT (fs fs' : Node) (q0 : List Name) : Prop :=
  ∀ q, TempFree q → ¬ q0 <+: q → sget fs' q = sget fs q

/-- Nothing but temporary files changed. -/
def Unch (fs fs' : Node) : Prop := ∀ q, TempFree q → sget fs' q = sget fs q

theorem Unch.refl (fs : Node) : Unch fs fs := fun _ _ => rfl
theorem Unch.trans {a b c : Node} (h1 : Unch a b) (h2 : Unch b c) : Unch a c :=
  fun q hq => (h2 q hq).trans (h1 q hq)
theorem Unch.frame {a b : Node} (h : Unch a b) (q0 : List Name) : FrameT a b q0 := fun q hq _ => h q hq
theorem Unch.of_eq {a b : Node} (h : b = a) : Unch a b := by subst h; exact Unch.refl _

theorem FrameT.refl (fs : Node) (q0 : List Name) : FrameT fs fs q0 := fun _ _ _ => rfl
theorem FrameT.trans {a b c : Node} {q0 : List Name} (h1 : FrameT a b q0) (h2 : FrameT b c q0) : FrameT a c q0 :=
  fun q hq hp => (h2 q hq hp).trans (h1 q hq hp)
theorem FrameT.of_frame {a b : Node} {q0 : List Name} (h : Frame a b q0) : FrameT a b q0 := fun q _ hp => h q hp
theorem FrameT.weaken {a b : Node} {q0 q1 : List Name} (h : FrameT a b q0) (hp : q1 <+: q0) : FrameT a b q1 :=
  fun q hq hn => h q hq (fun hc => hn (List.IsPrefix.trans hp hc))
theorem FrameT.unch_left {a b c : Node} {q0 : List Name} (h1 : Unch a b) (h2 : FrameT b c q0) : FrameT a c q0 :=
  FrameT.trans (h1.frame q0) h2
theorem FrameT.unch_right {a b c : Node} {q0 : List Name} (h1 : FrameT a b q0) (h2 : Unch b c) : FrameT a c q0 :=
  FrameT.trans h1 (h2.frame q0)

/-- What a scan shows for a link (`none`: untracked or problematic). -/
def linkShown (env : Env) (p : Path) (t : String) : Option String :=
  match env.slMode with
  | .ignore => none
  | .portable => env.norm p t
  | .posixRaw => if t = "" then none else some t

def execOf (perm : Nat) : Bool := perm &&& 0o111 != 0

structure XCtx where
  env : Env
  H : List UInt8 → List UInt8

/-- Nothing synchronizable at the position. -/
def UnsyncAt (X : XCtx) (top : Node) (q : List Name) (p : Path) : Prop :=
  match sget top q with
  | none => True
  | some .other => True
  | some (.symlink t) => linkShown X.env p t = none
  | _ => False

inductive RepAt (X : XCtx) (top : Node) : List Name → Path → Entry → Prop
  | file (q : List Name) (p : Path) (d : List UInt8) (perm m i : Nat) :
      sget top q = some (.file d perm m i) →
      RepAt X top q p (.mk { kind := .file, executable := execOf perm, digest := X.H d } [])
  | symlink (q : List Name) (p : Path) (t t' : String) :
      sget top q = some (.symlink t) → linkShown X.env p t = some t' →
      RepAt X top q p (.mk { kind := .symlink, target := t' } [])
  | dir (q : List Name) (p : Path) (perm : Nat) (cs : Contents) :
      sget top q = some (.dir perm) →
      (∀ n ce, lookup n cs = some ce → isTemporaryName n = false) →
      (∀ n ce, lookup n cs = some ce → RepAt X top (q ++ [n]) (p ++ [n]) ce) →
      (∀ n, isTemporaryName n = false → lookup n cs = none → UnsyncAt X top (q ++ [n]) (p ++ [n])) →
      RepAt X top q p (.mk { kind := .directory } cs)

/-- The optional version: `none` = nothing synchronizable there. -/
def RepO (X : XCtx) (top : Node) (q : List Name) (p : Path) : Option Entry → Prop
  | none => UnsyncAt X top q p
  | some e => RepAt X top q p e

theorem tempFree_append {a b : List Name} (ha : TempFree a) (hb : TempFree b) : TempFree (a ++ b) := by
  intro n hn
  rcases List.mem_append.mp hn with h | h
  · exact ha n h
  · exact hb n h

theorem tempFree_cons {n : Name} {r : List Name} (hn : isTemporaryName n = false) (hr : TempFree r) :
    TempFree (n :: r) := by
  intro m hm
  rcases List.mem_cons.mp hm with h | h
  · subst h; exact hn
  · exact hr m h

/-- Agreement of two trees on the temp-free part of a subtree. -/
def SameBelow (top top' : Node) (q : List Name) : Prop := ∀ r, TempFree r → sget top' (q ++ r) = sget top (q ++ r)

theorem SameBelow.child {top top' : Node} {q : List Name} (h : SameBelow top top' q) (n : Name)
    (hn : isTemporaryName n = false) : SameBelow top top' (q ++ [n]) := by
  intro r hr
  have := h (n :: r) (tempFree_cons hn hr)
  simpa using this

theorem SameBelow.here {top top' : Node} {q : List Name} (h : SameBelow top top' q) : sget top' q = sget top q := by
  have := h [] (by intro n hn; cases hn)
  simpa using this

theorem unsync_same (X : XCtx) (top top' : Node) (q : List Name) (p : Path) (hs : sget top' q = sget top q)
    (h : UnsyncAt X top q p) : UnsyncAt X top' q p := by
  unfold UnsyncAt at h ⊢
  rw [hs]; exact h

/-- A description only depends on the temp-free part of the subtree. -/
theorem rep_same (X : XCtx) (top top' : Node) (q : List Name) (p : Path) (e : Entry)
    (h : RepAt X top q p e) (hs : SameBelow top top' q) : RepAt X top' q p e := by
  induction h with
  | file q p d perm m i hq => exact RepAt.file q p d perm m i (by rw [hs.here]; exact hq)
  | symlink q p t t' hq hl => exact RepAt.symlink q p t t' (by rw [hs.here]; exact hq) hl
  | dir q p perm cs hq ht hk hu ih =>
    refine RepAt.dir q p perm cs (by rw [hs.here]; exact hq) ht ?_ ?_
    · intro n ce hl
      exact ih n ce hl (hs.child n (ht n ce hl))
    · intro n hn hl
      exact unsync_same X top top' _ _ (hs.child n hn).here (hu n hn hl)

theorem repO_same (X : XCtx) (top top' : Node) (q : List Name) (p : Path) (e : Option Entry)
    (h : RepO X top q p e) (hs : SameBelow top top' q) : RepO X top' q p e := by
  cases e with
  | none => exact unsync_same X top top' q p hs.here h
  | some e => exact rep_same X top top' q p e h hs

/-- A frame at `q0` leaves every temp-free subtree that is not comparable with `q0` alone. -/
theorem sameBelow_of_frame (fs fs' : Node) (q0 q : List Name) (hf : FrameT fs fs' q0) (hq : TempFree q)
    (h1 : ¬ q0 <+: q) (h2 : ¬ q <+: q0) : SameBelow fs fs' q := by
  intro r hr
  apply hf _ (tempFree_append hq hr)
  intro hp
  -- q0 is a prefix of q ++ r: then q0 and q are comparable
  rcases List.prefix_or_prefix_of_prefix hp (List.prefix_append q r) with h | h
  · exact h1 h
  · exact h2 h

theorem sameBelow_of_unch (fs fs' : Node) (q : List Name) (hu : Unch fs fs') (hq : TempFree q) : SameBelow fs fs' q :=
  fun r hr => hu _ (tempFree_append hq hr)

/-! ## Effects of the leaf operations -/

@[simp] theorem problem_staged (st : St) (p : Path) (c : String) : (st.problem p c).staged = st.staged := rfl

/-- The operation recorded no problem and left the staging area alone. -/
def Quiet (st st' : St) : Prop := st'.problems = st.problems ∧ st'.staged = st.staged

theorem Quiet.refl (st : St) : Quiet st st := ⟨rfl, rfl⟩
theorem Quiet.trans {a b c : St} (h1 : Quiet a b) (h2 : Quiet b c) : Quiet a c :=
  ⟨h2.1.trans h1.1, h2.2.trans h1.2⟩

theorem hook_quiet (env : Env) (st : St) (op : Op) (n : Name) : Quiet st (hook env st op n).2 := ⟨rfl, rfl⟩

theorem nameExists_quiet (env : Env) (st : St) (name : Name) (h : Handle) : Quiet st (nameExists env st name h).2 := by
  unfold nameExists hook Quiet
  grind

theorem walkLoop_quiet (env : Env) (comps : List Name) :
    ∀ (h : Handle) (st : St), Quiet st (walkLoop env comps h st).2 := by
  induction comps with
  | nil => intro h st; exact Quiet.refl st
  | cons c rest ih =>
    intro h st
    unfold walkLoop
    have hn := nameExists_quiet env st c h
    rcases hne : nameExists env st c h with ⟨r, st1⟩
    rw [hne] at hn
    simp only at hn
    rcases hh : hook env st1 .opendir c with ⟨a, st2⟩
    have h2 : Quiet st1 st2 := by
      have := hook_quiet env st1 .opendir c
      rw [hh] at this; exact this
    have ih' := ih (h ++ [c]) st2
    unfold Quiet at *
    grind

theorem walkToParent_quiet (env : Env) (st : St) (path : Path) (v : Bool) :
    Quiet st (walkToParent env st path v).2 := by
  unfold walkToParent
  cases hl : path.getLast? with
  | none => exact Quiet.refl st
  | some leaf =>
    simp only
    have hw := walkLoop_quiet env path.dropLast [env.rootName] st
    rcases hwl : walkLoop env path.dropLast [env.rootName] st with ⟨r, st1⟩
    rw [hwl] at hw
    simp only at hw
    cases r with
    | none => unfold Quiet at *; grind
    | some h =>
      have hn := nameExists_quiet env st1 leaf h
      rcases hne : nameExists env st1 leaf h with ⟨r2, st2⟩
      rw [hne] at hn
      simp only at hn
      unfold Quiet at *
      grind

theorem opUnlink_eff (env : Env) (st : St) (parent : Handle) (name : Name) (r : Bool) (st' : St)
    (h : opUnlink env st parent name = (r, st')) :
    Quiet st st' ∧ ((r = true ∧ fsUnlink st.fs parent name = some st'.fs) ∨ (r = false ∧ st'.fs = st.fs)) := by
  unfold opUnlink hook at h
  unfold Quiet
  grind

theorem opChmod_eff (env : Env) (st : St) (parent : Handle) (name : Name) (mode : Nat) (r : Bool) (st' : St)
    (h : opChmod env st parent name mode = (r, st')) :
    Quiet st st' ∧
      ((r = true ∧ mode % 512 = 0 ∧ st'.fs = st.fs) ∨
       (r = true ∧ mode % 512 ≠ 0 ∧ fsChmod st.fs parent name (mode % 512) = some st'.fs) ∨
       (r = false ∧ st'.fs = st.fs)) := by
  unfold opChmod hook at h
  unfold Quiet
  grind

theorem ensureExpectedFile_quiet (env : Env) (st : St) (parent : Handle) (name : Name) (path : Path)
    (expected : Entry) : Quiet st (ensureExpectedFile env st parent name path expected).2 := by
  unfold ensureExpectedFile hook Quiet
  grind

theorem ensureExpectedSymbolicLink_quiet (env : Env) (st : St) (parent : Handle) (name : Name) (path : Path)
    (expected : Entry) : Quiet st (ensureExpectedSymbolicLink env st parent name path expected).2 := by
  unfold ensureExpectedSymbolicLink hook Quiet
  grind

theorem removeFile_eff (env : Env) (st : St) (parent : Handle) (name : Name) (path : Path) (expected : Entry)
    (r : Option String) (st' : St) (h : removeFile env st parent name path expected = (r, st')) :
    Quiet st st' ∧ ((r = none ∧ fsUnlink st.fs parent name = some st'.fs) ∨ (r ≠ none ∧ st'.fs = st.fs)) := by
  unfold removeFile at h
  have hq := ensureExpectedFile_quiet env st parent name path expected
  rcases hc : ensureExpectedFile env st parent name path expected with ⟨r1, st1⟩
  have hfs := (ensureExpectedFile_spec env st parent name path expected r1 st1 hc).1
  rw [hc] at h hq
  simp only at hq
  cases r1 with
  | some e => simp only [Prod.mk.injEq] at h; obtain ⟨rfl, rfl⟩ := h; exact ⟨hq, Or.inr ⟨by simp, hfs⟩⟩
  | none =>
    simp only at h
    rcases hu : opUnlink env st1 parent name with ⟨b, st2⟩
    obtain ⟨hq2, hu2⟩ := opUnlink_eff env st1 parent name b st2 hu
    rw [hu] at h
    unfold Quiet at *
    grind

theorem removeSymbolicLink_eff (env : Env) (st : St) (parent : Handle) (name : Name) (path : Path) (expected : Entry)
    (r : Option String) (st' : St) (h : removeSymbolicLink env st parent name path expected = (r, st')) :
    Quiet st st' ∧ ((r = none ∧ fsUnlink st.fs parent name = some st'.fs) ∨ (r ≠ none ∧ st'.fs = st.fs)) := by
  unfold removeSymbolicLink at h
  split at h
  · simp only [Prod.mk.injEq] at h; obtain ⟨rfl, rfl⟩ := h; exact ⟨Quiet.refl _, Or.inr ⟨by simp, rfl⟩⟩
  · have hq := ensureExpectedSymbolicLink_quiet env st parent name path expected
    rcases hc : ensureExpectedSymbolicLink env st parent name path expected with ⟨r1, st1⟩
    have hfs := (ensureExpectedSymbolicLink_spec env st parent name path expected r1 st1 hc).1
    rw [hc] at h hq
    simp only at hq
    cases r1 with
    | some e => simp only [Prod.mk.injEq] at h; obtain ⟨rfl, rfl⟩ := h; exact ⟨hq, Or.inr ⟨by simp, hfs⟩⟩
    | none =>
      simp only at h
      rcases hu : opUnlink env st1 parent name with ⟨b, st2⟩
      obtain ⟨hq2, hu2⟩ := opUnlink_eff env st1 parent name b st2 hu
      rw [hu] at h
      unfold Quiet at *
      grind

/-- A change confined to a temporary sibling is invisible. -/
theorem unch_of_frame_tmp (a b : Node) (parent : Handle) (tmp : Name) (ht : isTemporaryName tmp = true)
    (hf : Frame a b (parent ++ [tmp])) : Unch a b := by
  intro q hq
  apply hf
  rintro ⟨r, rfl⟩
  have := hq tmp (by simp)
  rw [ht] at this
  cases this

theorem unch_of_chmod_tmp (a b : Node) (parent : Handle) (tmp : Name) (perm : Nat) (ht : isTemporaryName tmp = true)
    (hc : fsChmod a parent tmp perm = some b) : Unch a b := by
  obtain ⟨_, hf, _, _⟩ := fsChmod_spec a b parent tmp perm hc
  intro q hq
  apply hf
  rintro rfl
  have := hq tmp (by simp)
  rw [ht] at this
  cases this

theorem sget_of_get (top : Node) (q : List Name) (nd : Node) (h : top.get q = some nd) :
    sget top q = some (shallow nd) := by
  simp [sget, h]

theorem snoc_prefix_snoc {α : Type} (a : List α) (x y : α) (r : List α) (h : (a ++ [x]) <+: (a ++ [y] ++ r)) : x = y := by
  obtain ⟨t, ht⟩ := h
  have : a ++ (x :: t) = a ++ (y :: r) := by simpa using ht
  have := List.append_cancel_left this
  exact (List.cons.inj this).1

theorem not_prefix_sibling {α : Type} (a : List α) (x y : α) (h : x ≠ y) : ¬ (a ++ [x]) <+: (a ++ [y]) := by
  intro hp
  exact h (snoc_prefix_snoc a x y [] (by simpa using hp))

/-- What happens to the staging area: an entry either stays (its content
untouched) or disappears. -/
def StagedShrinks (st st' : St) : Prop :=
  ∀ k f, aget k st'.staged = some f → ∃ f0, aget k st.staged = some f0 ∧ f.data = f0.data

theorem StagedShrinks.refl (st : St) : StagedShrinks st st := fun _ f h => ⟨f, h, rfl⟩
theorem StagedShrinks.of_eq {st st' : St} (h : st'.staged = st.staged) : StagedShrinks st st' := by
  intro k f hk; rw [h] at hk; exact ⟨f, hk, rfl⟩
theorem StagedShrinks.trans {a b c : St} (h1 : StagedShrinks a b) (h2 : StagedShrinks b c) : StagedShrinks a c := by
  intro k f hk
  obtain ⟨f1, hk1, hd1⟩ := h2 k f hk
  obtain ⟨f0, hk0, hd0⟩ := h1 k f1 hk1
  exact ⟨f0, hk0, hd1.trans hd0⟩

/-- The successful outcome of moving a staged file to `parent/name`. -/
def Moved (st st' : St) (parent : Handle) (name : Name) (data : List UInt8) (mode : Nat) (replace : Bool) : Prop :=
  ∃ perm m i, sget st'.fs (parent ++ [name]) = some (.file data perm m i) ∧
    (mode % 512 ≠ 0 → perm = mode % 512) ∧ FrameT st.fs st'.fs (parent ++ [name]) ∧
    (replace = false → sget st.fs (parent ++ [name]) = none)

theorem crossDevice_eff (env : Env) (htmp : ∀ k l, isTemporaryName (env.tmpName k l) = true)
    (st : St) (key : Path × List UInt8) (sf : SFile) (mode : Nat) (parent : Handle)
    (name : Name) (hname : isTemporaryName name = false) (replace : Bool) (r : Option String) (st' : St)
    (h : crossDevice env st key sf mode parent name replace = (r, st')) :
    st'.problems = st.problems ∧ (st'.staged = st.staged ∨ st'.staged = adel key st.staged) ∧
    (r ≠ none → Unch st.fs st'.fs) ∧ (r = none → Moved st st' parent name sf.data mode replace) := by
  unfold crossDevice at h
  rcases hh : hook env st .mktemp tmpPattern with ⟨a, st1⟩
  have h1 : st1.fs = st.fs := by have := hook_fs env st .mktemp tmpPattern; rw [hh] at this; exact this
  have hq1 : Quiet st st1 := by have := hook_quiet env st .mktemp tmpPattern; rw [hh] at this; exact this
  rw [hh] at h
  simp only at h
  split at h
  · simp only [Prod.mk.injEq] at h; obtain ⟨rfl, rfl⟩ := h
    exact ⟨hq1.1, Or.inl hq1.2, fun _ => Unch.of_eq h1, fun hc => by simp at hc⟩
  · cases hd : dirAt st1.fs parent with
    | none =>
      rw [hd] at h; simp only [Prod.mk.injEq] at h; obtain ⟨rfl, rfl⟩ := h
      exact ⟨hq1.1, Or.inl hq1.2, fun _ => Unch.of_eq h1, fun hc => by simp at hc⟩
    | some cs =>
      rw [hd] at h
      simp only at h
      have htt := htmp st1.tmpCount (akeys cs)
      generalize htmpn : env.tmpName st1.tmpCount (akeys cs) = tmp at h htt
      have hne : name ≠ tmp := by rintro rfl; rw [hname] at htt; cases htt
      split at h
      · -- the copy is preempted: the partial temporary is removed again
        cases hp : fsPut st1.fs parent tmp (Node.file (sf.data.take copyPreemptionBytes) 0o600 0 0) false with
        | none =>
          rw [hp] at h; simp only [Prod.mk.injEq] at h; obtain ⟨rfl, rfl⟩ := h
          exact ⟨hq1.1, Or.inl hq1.2, fun _ => Unch.of_eq h1, fun hc => by simp at hc⟩
        | some fs2 =>
          rw [hp] at h
          simp only at h
          obtain ⟨_, _, hf2⟩ := fsPut_spec st1.fs fs2 parent tmp _ false hp
          have hu2 : Unch st.fs fs2 := by rw [← h1]; exact unch_of_frame_tmp _ _ parent tmp htt hf2
          rcases hu : opUnlink env { st1 with fs := fs2, tmpCount := st1.tmpCount + 1 } parent tmp with ⟨b2, st4⟩
          obtain ⟨hq4, hu4⟩ := opUnlink_eff env _ parent tmp b2 st4 hu
          rw [hu] at h
          simp only [Prod.mk.injEq] at h; obtain ⟨rfl, rfl⟩ := h
          refine ⟨by rw [hq4.1]; exact hq1.1, Or.inl (by rw [hq4.2]; exact hq1.2), fun _ => ?_, fun hc => by simp at hc⟩
          rcases hu4 with ⟨_, hfs⟩ | ⟨_, hfs⟩
          · obtain ⟨_, _, hfr⟩ := fsUnlink_spec _ _ _ _ hfs
            exact hu2.trans (unch_of_frame_tmp _ _ parent tmp htt hfr)
          · simp only at hfs; rw [hfs]; exact hu2
      cases hp : fsPut st1.fs parent tmp (Node.file sf.data 0o600 0 0) false with
      | none =>
        rw [hp] at h; simp only [Prod.mk.injEq] at h; obtain ⟨rfl, rfl⟩ := h
        exact ⟨hq1.1, Or.inl hq1.2, fun _ => Unch.of_eq h1, fun hc => by simp at hc⟩
      | some fs2 =>
        rw [hp] at h
        simp only at h
        obtain ⟨_, hget2, hf2⟩ := fsPut_spec st1.fs fs2 parent tmp _ false hp
        have hu2 : Unch st.fs fs2 := by rw [← h1]; exact unch_of_frame_tmp _ _ parent tmp htt hf2
        have hs2 : sget fs2 (parent ++ [name]) = sget st.fs (parent ++ [name]) := by
          rw [← h1]; exact hf2 _ (not_prefix_sibling parent tmp name (Ne.symm hne))
        rcases hc : opChmod env { st1 with fs := fs2, tmpCount := st1.tmpCount + 1 } parent tmp mode with ⟨b, st3⟩
        obtain ⟨hq3, hc3⟩ := opChmod_eff env _ parent tmp mode b st3 hc
        rw [hc] at h
        -- the temporary file after the permission change
        have hst3 : Unch st.fs st3.fs ∧ sget st3.fs (parent ++ [name]) = sget st.fs (parent ++ [name]) ∧
            (b = true → ∃ perm, sget st3.fs (parent ++ [tmp]) = some (.file sf.data perm 0 0) ∧
              (mode % 512 ≠ 0 → perm = mode % 512)) := by
          rcases hc3 with ⟨hb, hm, hfs⟩ | ⟨hb, hm, hfs⟩ | ⟨hb, hfs⟩
          · simp only at hfs
            refine ⟨by rw [hfs]; exact hu2, by rw [hfs]; exact hs2, fun _ => ⟨0o600, ?_, fun hc => absurd hm hc⟩⟩
            rw [hfs]; exact sget_of_get _ _ _ hget2
          · simp only at hfs
            obtain ⟨_, hfr, _, hfile⟩ := fsChmod_spec fs2 st3.fs parent tmp (mode % 512) hfs
            refine ⟨hu2.trans (unch_of_chmod_tmp _ _ parent tmp _ htt hfs), ?_, fun _ => ⟨mode % 512, ?_, fun _ => rfl⟩⟩
            · rw [hfr _ (by intro hc; exact hne (List.append_cancel_left hc |> List.cons.inj |>.1))]; exact hs2
            · exact hfile sf.data 0o600 0 0 (sget_of_get _ _ _ hget2)
          · simp only at hfs
            refine ⟨by rw [hfs]; exact hu2, by rw [hfs]; exact hs2, fun hc => by rw [hb] at hc; cases hc⟩
        have hprob3 : st3.problems = st.problems := by rw [hq3.1]; exact hq1.1
        have hstag3 : st3.staged = st.staged := by rw [hq3.2]; exact hq1.2
        cases b with
        | false =>
          simp only at h
          rcases hu : opUnlink env st3 parent tmp with ⟨b2, st4⟩
          obtain ⟨hq4, hu4⟩ := opUnlink_eff env st3 parent tmp b2 st4 hu
          rw [hu] at h
          simp only [Prod.mk.injEq] at h; obtain ⟨rfl, rfl⟩ := h
          refine ⟨by rw [hq4.1]; exact hprob3, Or.inl (by rw [hq4.2]; exact hstag3), fun _ => ?_, fun hc => by simp at hc⟩
          rcases hu4 with ⟨_, hfs⟩ | ⟨_, hfs⟩
          · obtain ⟨_, _, hfr⟩ := fsUnlink_spec _ _ _ _ hfs
            exact hst3.1.trans (unch_of_frame_tmp _ _ parent tmp htt hfr)
          · rw [hfs]; exact hst3.1
        | true =>
          obtain ⟨perm, hperm, hpm⟩ := hst3.2.2 rfl
          simp only at h
          rcases hh5 : hook env st3 .rename name with ⟨a5, st5⟩
          have h5 : st5.fs = st3.fs := by have := hook_fs env st3 .rename name; rw [hh5] at this; exact this
          have hq5 : Quiet st3 st5 := by have := hook_quiet env st3 .rename name; rw [hh5] at this; exact this
          rw [hh5] at h
          simp only at h
          split at h
          · -- the intermediate file could not be moved
            rcases hu : opUnlink env st5 parent tmp with ⟨b2, st6⟩
            obtain ⟨hq6, hu6⟩ := opUnlink_eff env st5 parent tmp b2 st6 hu
            rw [hu] at h
            simp only [Prod.mk.injEq] at h; obtain ⟨rfl, rfl⟩ := h
            refine ⟨by rw [hq6.1, hq5.1]; exact hprob3, Or.inl (by rw [hq6.2, hq5.2]; exact hstag3), fun _ => ?_,
              fun hc => by simp at hc⟩
            rcases hu6 with ⟨_, hfs⟩ | ⟨_, hfs⟩
            · obtain ⟨_, _, hfr⟩ := fsUnlink_spec _ _ _ _ hfs
              rw [h5] at hfr
              exact hst3.1.trans (unch_of_frame_tmp _ _ parent tmp htt hfr)
            · rw [hfs, h5]; exact hst3.1
          · rename_i fs7 hmoved
            simp only [Prod.mk.injEq] at h; obtain ⟨rfl, rfl⟩ := h
            refine ⟨by simp only; rw [hq5.1]; exact hprob3, Or.inr (by simp only; rw [hq5.2, hstag3]),
              fun hc => by simp at hc, fun _ => ?_⟩
            split at hmoved
            · simp at hmoved
            · cases hnode : (dirAt st5.fs parent).bind (aget tmp) with
              | none => rw [hnode] at hmoved; simp at hmoved
              | some node =>
                rw [hnode] at hmoved
                simp only at hmoved
                cases hp2 : fsPut st5.fs parent name node replace with
                | none => rw [hp2] at hmoved; simp at hmoved
                | some fs6 =>
                  rw [hp2] at hmoved
                  simp only [Option.bind_some] at hmoved
                  have hnode' := sget_of_get _ _ _ (get_of_dirAt_bind _ _ _ _ hnode)
                  rw [h5, hperm] at hnode'
                  simp only [Option.some.injEq] at hnode'
                  obtain ⟨hpre, hget6, hf6⟩ := fsPut_spec st5.fs fs6 parent name node replace hp2
                  obtain ⟨_, _, hf7⟩ := fsUnlink_spec fs6 fs7 parent tmp hmoved
                  refine ⟨perm, 0, 0, ?_, hpm, ?_, ?_⟩
                  · rw [hf7 _ (not_prefix_sibling parent tmp name (Ne.symm hne)), sget_of_get _ _ _ hget6, ← hnode']
                  · have h56 : FrameT st5.fs fs6 (parent ++ [name]) := FrameT.of_frame hf6
                    have h67 : Unch fs6 fs7 := unch_of_frame_tmp _ _ parent tmp htt hf7
                    rw [h5] at h56
                    exact FrameT.unch_right (FrameT.unch_left hst3.1 h56) h67
                  · intro hr
                    rcases hpre with hpre | ⟨hr', _⟩
                    · rw [← hst3.2.1, ← h5]; simp [sget, hpre]
                    · rw [hr] at hr'; cases hr'

/-- The permission mode given to a file created for `target`. -/
def fileModeOf (env : Env) (target : Entry) : Nat :=
  if target.props.executable then markExecutableForReaders env.fileMode else env.fileMode

theorem stagedShrinks_aset (st : St) (key : Path × List UInt8) (sf0 sf : SFile) (h0 : aget key st.staged = some sf0)
    (hd : sf.data = sf0.data) (st' : St) (hs : st'.staged = aset key sf st.staged ∨ st'.staged = adel key (aset key sf st.staged)) :
    StagedShrinks st st' := by
  intro k f hk
  rcases hs with hs | hs
  · rw [hs, aget_aset] at hk
    split at hk
    · rename_i he; subst he
      simp only [Option.some.injEq] at hk; subst hk
      exact ⟨sf0, h0, hd⟩
    · exact ⟨f, hk, rfl⟩
  · rw [hs, aget_adel] at hk
    split at hk
    · simp at hk
    · rename_i hne
      rw [aget_aset_ne _ _ _ _ hne] at hk
      exact ⟨f, hk, rfl⟩

theorem ite_perm_data (c : Bool) (sf0 : SFile) (p : Nat) :
    (if c = true then ({ sf0 with perm := p } : SFile) else sf0).data = sf0.data := by
  split <;> rfl

theorem findAndMove_eff (env : Env) (htmp : ∀ k l, isTemporaryName (env.tmpName k l) = true)
    (st : St) (path : Path) (target : Entry) (parent : Handle) (name : Name) (hname : isTemporaryName name = false)
    (replace : Bool) (r : Option String) (st' : St)
    (h : findAndMove env st path target parent name replace = (r, st')) :
    st'.problems = st.problems ∧ StagedShrinks st st' ∧
    (r ≠ none → Unch st.fs st'.fs) ∧
    (r = none → ∃ sf, aget (path, target.props.digest) st.staged = some sf ∧
      Moved st st' parent name sf.data (fileModeOf env target) replace) ∧
    (aget (path, target.props.digest) st.staged = none → env.provideErr path target.props.digest = false →
      r ≠ none ∧ (fileModeOf env target % 512 ≠ 0 → st'.missing = true)) := by
  unfold findAndMove at h
  simp only at h
  split at h
  · rename_i hpe
    simp only [Prod.mk.injEq] at h; obtain ⟨rfl, rfl⟩ := h
    exact ⟨rfl, StagedShrinks.refl _, fun _ => Unch.refl _, fun hc => by simp at hc, fun _ hc => by rw [hpe] at hc; cases hc⟩
  · split at h
    · -- no staged file
      rename_i hnone
      simp only [hook] at h
      refine ⟨?_, ?_, ?_, ?_, ?_⟩
      · grind
      · apply StagedShrinks.of_eq; grind
      · intro _; apply Unch.of_eq; grind
      · grind
      · intro _ _
        unfold fileModeOf
        grind
    · rename_i sf0 hsf
      split at h
      · simp only [Prod.mk.injEq] at h; obtain ⟨rfl, rfl⟩ := h
        refine ⟨rfl, ?_, fun _ => Unch.refl _, fun hc => by simp at hc, fun hc => by rw [hsf] at hc; cases hc⟩
        apply stagedShrinks_aset st _ sf0 _ hsf _ _ (Or.inl rfl)
        exact ite_perm_data _ _ _
      · generalize hmode : (if target.props.executable = true then markExecutableForReaders env.fileMode
            else env.fileMode) = mode at h
        have hmode' : fileModeOf env target = mode := by unfold fileModeOf; exact hmode
        generalize hsfv : (if mode % 512 != 0 then ({ sf0 with perm := mode % 512 } : SFile) else sf0) = sf at h
        have hsfd : sf.data = sf0.data := by rw [← hsfv]; split <;> rfl
        have hsfp : mode % 512 ≠ 0 → sf.perm = mode % 512 := by
          intro hm; rw [← hsfv]; simp [hm]
        rcases hh : hook env { st with staged := aset (path, target.props.digest) sf st.staged } .rename name
          with ⟨a, st1⟩
        have h1 : st1.fs = st.fs := by
          have := hook_fs env { st with staged := aset (path, target.props.digest) sf st.staged } .rename name
          rw [hh] at this; exact this
        have hq1 : Quiet { st with staged := aset (path, target.props.digest) sf st.staged } st1 := by
          have := hook_quiet env { st with staged := aset (path, target.props.digest) sf st.staged } .rename name
          rw [hh] at this; exact this
        have hp1 : st1.problems = st.problems := hq1.1
        have hs1 : st1.staged = aset (path, target.props.digest) sf st.staged := hq1.2
        rw [hh] at h
        simp only at h
        have hfail : ∀ e, (some e, st1) = (r, st') →
            st'.problems = st.problems ∧ StagedShrinks st st' ∧ (r ≠ none → Unch st.fs st'.fs) ∧
            (r = none → ∃ sf, aget (path, target.props.digest) st.staged = some sf ∧
              Moved st st' parent name sf.data (fileModeOf env target) replace) ∧
            (aget (path, target.props.digest) st.staged = none → env.provideErr path target.props.digest = false →
              r ≠ none ∧ (fileModeOf env target % 512 ≠ 0 → st'.missing = true)) := by
          intro e he
          simp only [Prod.mk.injEq] at he; obtain ⟨rfl, rfl⟩ := he
          exact ⟨hp1, stagedShrinks_aset st _ sf0 sf hsf hsfd _ (Or.inl hs1), fun _ => Unch.of_eq h1,
            fun hc => by simp at hc, fun hc => by rw [hsf] at hc; cases hc⟩
        have hok : ∀ fs2, fsPut st1.fs parent name sf.toNode replace = some fs2 →
            (none, { st1 with fs := fs2, staged := adel (path, target.props.digest) st1.staged }) = (r, st') →
            st'.problems = st.problems ∧ StagedShrinks st st' ∧ (r ≠ none → Unch st.fs st'.fs) ∧
            (r = none → ∃ sf, aget (path, target.props.digest) st.staged = some sf ∧
              Moved st st' parent name sf.data (fileModeOf env target) replace) ∧
            (aget (path, target.props.digest) st.staged = none → env.provideErr path target.props.digest = false →
              r ≠ none ∧ (fileModeOf env target % 512 ≠ 0 → st'.missing = true)) := by
          intro fs2 hp he
          simp only [Prod.mk.injEq] at he; obtain ⟨rfl, rfl⟩ := he
          obtain ⟨hpre, hget, hf⟩ := fsPut_spec st1.fs fs2 parent name _ replace hp
          refine ⟨hp1, stagedShrinks_aset st _ sf0 sf hsf hsfd _ (Or.inr (by simp only; rw [hs1])),
            fun hc => by simp at hc, fun _ => ⟨sf0, hsf, sf.perm, sf.mtime, sf.ino, ?_, ?_, ?_, ?_⟩,
            fun hc => by rw [hsf] at hc; cases hc⟩
          · rw [sget_of_get _ _ _ hget, ← hsfd]; rfl
          · rw [hmode']; exact hsfp
          · rw [← h1]; exact FrameT.of_frame hf
          · intro hr
            rcases hpre with hpre | ⟨hr', _⟩
            · rw [← h1]; simp [sget, hpre]
            · rw [hr] at hr'; cases hr'
        cases a with
        | exdev =>
          simp only at h
          obtain ⟨c1, c2, c3, c4⟩ := crossDevice_eff env htmp st1 _ sf mode parent name hname replace r st' h
          refine ⟨by rw [c1]; exact hp1, ?_, fun hr => by rw [← h1]; exact c3 hr, fun hr => ⟨sf0, hsf, ?_⟩,
            fun hc => by rw [hsf] at hc; cases hc⟩
          · apply stagedShrinks_aset st _ sf0 sf hsf hsfd
            rcases c2 with c2 | c2
            · left; rw [c2]; exact hs1
            · right; rw [c2, hs1]
          · obtain ⟨perm, m, i, g1, g2, g3, g4⟩ := c4 hr
            refine ⟨perm, m, i, by rw [← hsfd]; exact g1, by rw [hmode']; exact g2, by rw [← h1]; exact g3,
              fun hr => by rw [← h1]; exact g4 hr⟩
        | fail => exact hfail _ h
        | pass =>
          simp only at h
          cases hp : fsPut st1.fs parent name sf.toNode replace with
          | none => rw [hp] at h; exact hfail _ h
          | some fs2 => rw [hp] at h; exact hok fs2 hp h
        | cancel =>
          simp only at h
          cases hp : fsPut st1.fs parent name sf.toNode replace with
          | none => rw [hp] at h; exact hfail _ h
          | some fs2 => rw [hp] at h; exact hok fs2 hp h

/-! ## Directories: the description of a directory as a record -/

structure DirRep (X : XCtx) (fs : Node) (dirQ : List Name) (path : Path) (cur : Contents) : Prop where
  isDir : ∃ perm, sget fs dirQ = some (.dir perm)
  keys : ∀ n ce, lookup n cur = some ce → isTemporaryName n = false
  kids : ∀ n ce, lookup n cur = some ce → RepAt X fs (dirQ ++ [n]) (path ++ [n]) ce
  rest : ∀ n, isTemporaryName n = false → lookup n cur = none → UnsyncAt X fs (dirQ ++ [n]) (path ++ [n])

theorem dirRep_of_rep (X : XCtx) (fs : Node) (dirQ : List Name) (path : Path) (cur : Contents)
    (h : RepAt X fs dirQ path (.mk { kind := .directory } cur)) : DirRep X fs dirQ path cur := by
  cases h with
  | dir q p perm cs hq ht hk hu => exact ⟨⟨perm, hq⟩, ht, hk, hu⟩

theorem rep_of_dirRep (X : XCtx) (fs : Node) (dirQ : List Name) (path : Path) (cur : Contents)
    (h : DirRep X fs dirQ path cur) : RepAt X fs dirQ path (.mk { kind := .directory } cur) := by
  obtain ⟨⟨perm, hq⟩, ht, hk, hu⟩ := h
  exact RepAt.dir dirQ path perm cur hq ht hk hu

theorem tempFree_snoc {q : List Name} {n : Name} (hq : TempFree q) (hn : isTemporaryName n = false) :
    TempFree (q ++ [n]) := by
  apply tempFree_append hq
  intro m hm
  simp only [List.mem_singleton] at hm
  subst hm; exact hn

theorem not_prefix_snoc_self {α : Type} (a : List α) (x : α) : ¬ (a ++ [x]) <+: a := by
  intro h
  have := h.length_le
  simp at this
  omega

/-- The effect of a change confined to the child `c` on the description of the directory. -/
theorem DirRep.frame_child {X : XCtx} {fs fs1 : Node} {dirQ : List Name} {path : Path} {cur : Contents}
    (h : DirRep X fs dirQ path cur) (hq : TempFree dirQ) (c : Name) (hf : FrameT fs fs1 (dirQ ++ [c])) :
    (∃ perm, sget fs1 dirQ = some (.dir perm)) ∧
    (∀ n ce, n ≠ c → lookup n cur = some ce → RepAt X fs1 (dirQ ++ [n]) (path ++ [n]) ce) ∧
    (∀ n, n ≠ c → isTemporaryName n = false → lookup n cur = none → UnsyncAt X fs1 (dirQ ++ [n]) (path ++ [n])) := by
  refine ⟨?_, ?_, ?_⟩
  · obtain ⟨perm, hp⟩ := h.isDir
    exact ⟨perm, by rw [hf dirQ hq (not_prefix_snoc_self dirQ c)]; exact hp⟩
  · intro n ce hne hl
    have hn := h.keys n ce hl
    apply rep_same X fs fs1 _ _ ce (h.kids n ce hl)
    apply sameBelow_of_frame fs fs1 (dirQ ++ [c]) (dirQ ++ [n]) hf (tempFree_snoc hq hn)
    · exact not_prefix_sibling dirQ c n (Ne.symm hne)
    · exact not_prefix_sibling dirQ n c hne
  · intro n hne hn hl
    apply unsync_same X fs fs1 _ _ _ (h.rest n hn hl)
    exact hf _ (tempFree_snoc hq hn) (not_prefix_sibling dirQ c n (Ne.symm hne))

theorem unsync_of_none (X : XCtx) (fs : Node) (q : List Name) (p : Path) (h : sget fs q = none) : UnsyncAt X fs q p := by
  unfold UnsyncAt; rw [h]; trivial

/-- The child `c` has been removed. -/
theorem DirRep.child_removed {X : XCtx} {fs fs1 : Node} {dirQ : List Name} {path : Path} {cur : Contents}
    (h : DirRep X fs dirQ path cur) (hq : TempFree dirQ) (c : Name) (hf : FrameT fs fs1 (dirQ ++ [c]))
    (hnone : sget fs1 (dirQ ++ [c]) = none) : DirRep X fs1 dirQ path (erase c cur) := by
  obtain ⟨h1, h2, h3⟩ := h.frame_child hq c hf
  refine ⟨h1, ?_, ?_, ?_⟩
  · intro n ce hl
    rw [lookup_erase] at hl
    split at hl
    · cases hl
    · exact h.keys n ce hl
  · intro n ce hl
    rw [lookup_erase] at hl
    split at hl
    · cases hl
    · rename_i hne
      exact h2 n ce (Ne.symm hne) hl
  · intro n hn hl
    rw [lookup_erase] at hl
    split at hl
    · rename_i he; subst he
      exact unsync_of_none X fs1 _ _ hnone
    · rename_i hne
      exact h3 n (Ne.symm hne) hn hl

/-- The child `c` is now described by `ce'`. -/
theorem DirRep.child_replaced {X : XCtx} {fs fs1 : Node} {dirQ : List Name} {path : Path} {cur : Contents}
    (h : DirRep X fs dirQ path cur) (hq : TempFree dirQ) (c : Name) (hc : isTemporaryName c = false)
    (hf : FrameT fs fs1 (dirQ ++ [c])) (ce' : Entry)
    (hrep : RepAt X fs1 (dirQ ++ [c]) (path ++ [c]) ce') : DirRep X fs1 dirQ path (upsert c ce' cur) := by
  obtain ⟨h1, h2, h3⟩ := h.frame_child hq c hf
  refine ⟨h1, ?_, ?_, ?_⟩
  · intro n ce hl
    rw [lookup_upsert] at hl
    split at hl
    · rename_i he; subst he; exact hc
    · exact h.keys n ce hl
  · intro n ce hl
    rw [lookup_upsert] at hl
    split at hl
    · rename_i he; subst he; cases hl; exact hrep
    · rename_i hne
      exact h2 n ce (Ne.symm hne) hl
  · intro n hn hl
    rw [lookup_upsert] at hl
    split at hl
    · cases hl
    · rename_i hne
      exact h3 n (Ne.symm hne) hn hl

theorem DirRep.same_fs {X : XCtx} {fs fs1 : Node} {dirQ : List Name} {path : Path} {cur : Contents}
    (h : DirRep X fs dirQ path cur) (he : fs1 = fs) : DirRep X fs1 dirQ path cur := by subst he; exact h

/-- What `removeDirectory` must guarantee for its content loop (exactness). -/
def RmX (X : XCtx) (rec : RmRec) : Prop :=
  ∀ st h n p e, TempFree (h ++ [n]) → e.kind = .directory → RepAt X st.fs (h ++ [n]) p e →
    FrameT st.fs (rec st h n p e).2.2.fs (h ++ [n]) ∧ (rec st h n p e).2.2.staged = st.staged ∧
    ((rec st h n p e).1 = true → sget (rec st h n p e).2.2.fs (h ++ [n]) = none) ∧
    ((rec st h n p e).1 = false → RepAt X (rec st h n p e).2.2.fs (h ++ [n]) p (rec st h n p e).2.1)

theorem kind_dir_props (e : Entry) (cs : Contents) (p : Props) (h : e = .mk p cs) (hk : e.kind = .directory)
    (X : XCtx) (fs : Node) (q : List Name) (path : Path) (hr : RepAt X fs q path e) :
    p = { kind := .directory } := by
  subst h
  cases hr with
  | file q pp d perm m i hq => simp [Entry.kind, Entry.props] at hk
  | symlink q pp t t' hq hl => simp [Entry.kind, Entry.props] at hk
  | dir q pp perm cs hq ht hkk hu => rfl

theorem removeLoop_exact (X : XCtx) (rec : RmRec) (hrec : RmX X rec) (dirQ : List Name) (path : Path)
    (hq : TempFree dirQ) (names : List Name) :
    ∀ (fl : RmFlags) (cur : Contents) (st : St) (visited : List Name),
      DirRep X st.fs dirQ path cur →
      ((fl.cancelled = false ∧ fl.failed = false) → ∀ n ∈ visited, lookup n cur = none) →
      DirRep X (removeLoop X.env rec dirQ path names fl cur st).2.2.fs dirQ path
        (removeLoop X.env rec dirQ path names fl cur st).2.1 ∧
      (((removeLoop X.env rec dirQ path names fl cur st).1.cancelled = false ∧
        (removeLoop X.env rec dirQ path names fl cur st).1.failed = false) →
        ∀ n ∈ visited ++ names, lookup n (removeLoop X.env rec dirQ path names fl cur st).2.1 = none) ∧
      FrameT st.fs (removeLoop X.env rec dirQ path names fl cur st).2.2.fs dirQ ∧
      (removeLoop X.env rec dirQ path names fl cur st).2.2.staged = st.staged := by
  induction names with
  | nil =>
    intro fl cur st visited hI hV
    simp only [removeLoop, List.append_nil]
    exact ⟨hI, hV, FrameT.refl _ _, trivial⟩
  | cons c rest ih =>
    intro fl cur st visited hI hV
    have happ : ∀ n, n ∈ visited ++ c :: rest ↔ n ∈ (visited ++ [c]) ++ rest := by intro n; simp
    unfold removeLoop
    split
    · -- cancelled
      exact ⟨hI, fun hc => by simp at hc, FrameT.refl _ _, by first | rfl | trivial⟩
    · cases hl : lookup c cur with
      | none =>
        simp only
        have := ih { fl with unknown := true } cur (st.problem (path ++ [c]) "unknown-content") (visited ++ [c]) hI
          (fun hf n hn => by
            rcases List.mem_append.mp hn with h | h
            · exact hV hf n h
            · simp only [List.mem_singleton] at h; subst h; exact hl)
        obtain ⟨r1, r2, r3, r4⟩ := this
        exact ⟨r1, fun hf n hn => r2 hf n ((happ n).mp hn), r3, r4⟩
      | some entry =>
        have hcn := hI.keys c entry hl
        have hrep := hI.kids c entry hl
        have hqc : TempFree (dirQ ++ [c]) := tempFree_snoc hq hcn
        -- the continuation after a successful removal of `c`
        have hsucc : ∀ (fl1 : RmFlags) (st1 : St), fl1 = fl → FrameT st.fs st1.fs (dirQ ++ [c]) →
            sget st1.fs (dirQ ++ [c]) = none → st1.staged = st.staged →
            DirRep X (removeLoop X.env rec dirQ path rest fl1 (erase c cur) st1).2.2.fs dirQ path
              (removeLoop X.env rec dirQ path rest fl1 (erase c cur) st1).2.1 ∧
            (((removeLoop X.env rec dirQ path rest fl1 (erase c cur) st1).1.cancelled = false ∧
              (removeLoop X.env rec dirQ path rest fl1 (erase c cur) st1).1.failed = false) →
              ∀ n ∈ visited ++ c :: rest, lookup n (removeLoop X.env rec dirQ path rest fl1 (erase c cur) st1).2.1 = none) ∧
            FrameT st.fs (removeLoop X.env rec dirQ path rest fl1 (erase c cur) st1).2.2.fs dirQ ∧
            (removeLoop X.env rec dirQ path rest fl1 (erase c cur) st1).2.2.staged = st.staged := by
          intro fl1 st1 hfl hf hnone hst
          subst hfl
          have := ih fl1 (erase c cur) st1 (visited ++ [c]) (hI.child_removed hq c hf hnone)
            (fun hfl n hn => by
              rw [lookup_erase]
              split
              · rfl
              · rcases List.mem_append.mp hn with h | h
                · exact hV hfl n h
                · simp only [List.mem_singleton] at h; subst h; rename_i hne; exact absurd rfl hne)
          obtain ⟨r1, r2, r3, r4⟩ := this
          exact ⟨r1, fun hf' n hn => r2 hf' n ((happ n).mp hn),
            FrameT.trans (hf.weaken (List.prefix_append dirQ [c])) r3, by rw [r4, hst]⟩
        -- the continuation after a failure that left the tree alone
        have hfail : ∀ (st1 : St), st1.fs = st.fs → st1.staged = st.staged →
            DirRep X (removeLoop X.env rec dirQ path rest { fl with failed := true } cur st1).2.2.fs dirQ path
              (removeLoop X.env rec dirQ path rest { fl with failed := true } cur st1).2.1 ∧
            (((removeLoop X.env rec dirQ path rest { fl with failed := true } cur st1).1.cancelled = false ∧
              (removeLoop X.env rec dirQ path rest { fl with failed := true } cur st1).1.failed = false) →
              ∀ n ∈ visited ++ c :: rest,
                lookup n (removeLoop X.env rec dirQ path rest { fl with failed := true } cur st1).2.1 = none) ∧
            FrameT st.fs (removeLoop X.env rec dirQ path rest { fl with failed := true } cur st1).2.2.fs dirQ ∧
            (removeLoop X.env rec dirQ path rest { fl with failed := true } cur st1).2.2.staged = st.staged := by
          intro st1 hfs hst
          have := ih { fl with failed := true } cur st1 (visited ++ [c]) (hI.same_fs hfs)
            (fun hfl => by simp at hfl)
          obtain ⟨r1, r2, r3, r4⟩ := this
          exact ⟨r1, fun hf' n hn => r2 hf' n ((happ n).mp hn), by rw [← hfs]; exact r3, by rw [r4, hst]⟩
        simp only
        split
        · -- directory
          rename_i hk
          have hkd : entry.kind = .directory := by simpa using hk
          have hr := hrec st dirQ c (path ++ [c]) entry hqc hkd hrep
          rcases hrc : rec st dirQ c (path ++ [c]) entry with ⟨ok, entry', st1⟩
          rw [hrc] at hr
          simp only at hr
          obtain ⟨hf, hst, hok, hno⟩ := hr
          cases ok with
          | true => exact hsucc fl st1 rfl hf (hok rfl) hst
          | false =>
            simp only
            have := ih { fl with failed := true } (upsert c entry' cur) st1 (visited ++ [c])
              (hI.child_replaced hq c hcn hf entry' (hno rfl)) (fun hfl => by simp at hfl)
            obtain ⟨r1, r2, r3, r4⟩ := this
            exact ⟨r1, fun hf' n hn => r2 hf' n ((happ n).mp hn),
              FrameT.trans (hf.weaken (List.prefix_append dirQ [c])) r3, by rw [r4, hst]⟩
        · split
          · -- file
            rcases hrf : removeFile X.env st dirQ c (path ++ [c]) entry with ⟨r, st1⟩
            obtain ⟨hqt, heff⟩ := removeFile_eff X.env st dirQ c (path ++ [c]) entry r st1 hrf
            rcases heff with ⟨hr, hu⟩ | ⟨hr, hfs⟩
            · subst hr
              obtain ⟨_, hnone, hfr⟩ := fsUnlink_spec _ _ _ _ hu
              exact hsucc fl st1 rfl (FrameT.of_frame hfr) (by simp [sget, hnone]) hqt.2
            · cases r with
              | none => exact absurd rfl hr
              | some e => exact hfail _ (by simpa using hfs) (by simpa using hqt.2)
          · split
            · -- symbolic link
              rcases hrf : removeSymbolicLink X.env st dirQ c (path ++ [c]) entry with ⟨r, st1⟩
              obtain ⟨hqt, heff⟩ := removeSymbolicLink_eff X.env st dirQ c (path ++ [c]) entry r st1 hrf
              rcases heff with ⟨hr, hu⟩ | ⟨hr, hfs⟩
              · subst hr
                obtain ⟨_, hnone, hfr⟩ := fsUnlink_spec _ _ _ _ hu
                exact hsucc fl st1 rfl (FrameT.of_frame hfr) (by simp [sget, hnone]) hqt.2
              · cases r with
                | none => exact absurd rfl hr
                | some e => exact hfail _ (by simpa using hfs) (by simpa using hqt.2)
            · exact hfail _ rfl rfl

/-- The content loop never invents expected entries: whatever the result map
holds was in the map before or belongs to a name of the listing. -/
theorem removeLoop_keys (env : Env) (rec : RmRec) (dirH : Handle) (path : Path) (names : List Name) :
    ∀ (fl : RmFlags) (cur : Contents) (st : St) (n : Name),
      lookup n (removeLoop env rec dirH path names fl cur st).2.1 ≠ none → lookup n cur ≠ none ∨ n ∈ names := by
  induction names with
  | nil => intro fl cur st n h; left; simpa [removeLoop] using h
  | cons c rest ih =>
    intro fl cur st n h
    unfold removeLoop at h
    have hstep : ∀ fl1 cur1 st1, (∀ m, lookup m cur1 ≠ none → lookup m cur ≠ none ∨ m = c) →
        lookup n (removeLoop env rec dirH path rest fl1 cur1 st1).2.1 ≠ none →
        lookup n cur ≠ none ∨ n ∈ c :: rest := by
      intro fl1 cur1 st1 hsub hn
      rcases ih fl1 cur1 st1 n hn with h1 | h1
      · rcases hsub n h1 with h2 | h2
        · exact Or.inl h2
        · exact Or.inr (by simp [h2])
      · exact Or.inr (by simp [h1])
    have hsame : ∀ m, lookup m cur ≠ none → lookup m cur ≠ none ∨ m = c := fun m hm => Or.inl hm
    have herase : ∀ m, lookup m (erase c cur) ≠ none → lookup m cur ≠ none ∨ m = c := by
      intro m hm; rw [lookup_erase] at hm; split at hm
      · exact absurd rfl hm
      · exact Or.inl hm
    have hupsert : ∀ e', ∀ m, lookup m (upsert c e' cur) ≠ none → lookup m cur ≠ none ∨ m = c := by
      intro e' m hm; rw [lookup_upsert] at hm; split at hm
      · rename_i he; exact Or.inr he.symm
      · exact Or.inl hm
    split at h
    · exact Or.inl h
    · cases hl : lookup c cur with
      | none => rw [hl] at h; exact hstep _ _ _ hsame h
      | some entry =>
        rw [hl] at h
        simp only at h
        split at h
        · rcases hrc : rec st dirH c (path ++ [c]) entry with ⟨ok, entry', st1⟩
          rw [hrc] at h
          cases ok with
          | true => exact hstep _ _ _ herase h
          | false => exact hstep _ _ _ (hupsert entry') h
        · split at h
          · rcases hrf : removeFile env st dirH c (path ++ [c]) entry with ⟨r, st1⟩
            rw [hrf] at h
            cases r with
            | none => exact hstep _ _ _ herase h
            | some e => exact hstep _ _ _ hsame h
          · split at h
            · rcases hrf : removeSymbolicLink env st dirH c (path ++ [c]) entry with ⟨r, st1⟩
              rw [hrf] at h
              cases r with
              | none => exact hstep _ _ _ herase h
              | some e => exact hstep _ _ _ hsame h
            · exact hstep _ _ _ hsame h

theorem rep_nonempty (X : XCtx) (fs : Node) (q : List Name) (p : Path) (e : Entry) (h : RepAt X fs q p e) :
    sget fs q ≠ none := by
  cases h <;> simp_all

theorem mem_keys_of_child (fs : Node) (q : List Name) (cs : Kids) (n : Name) (hd : dirAt fs q = some cs)
    (hn : sget fs (q ++ [n]) ≠ none) : n ∈ akeys cs := by
  obtain ⟨p, hp⟩ := (dirAt_eq fs q cs).mp hd
  rw [sget, get_child fs q p cs hp] at hn
  apply (aget_isSome_iff_mem_keys n cs).mp
  cases h : aget n cs with
  | none => simp [h] at hn
  | some v => rfl

/-- Sibling orders that visit every name (every permutation does). -/
def OrdComplete (env : Env) : Prop := ∀ l n, n ∈ l → n ∈ env.ord l

theorem removeDirectory_exact (X : XCtx) (hord : OrdComplete X.env) (fuel : Nat) :
    RmX X (removeDirectory X.env fuel) := by
  induction fuel with
  | zero =>
    intro st h n p e _ _ hrep
    simp only [removeDirectory]
    exact ⟨FrameT.refl _ _, rfl, fun hc => (by cases hc), fun _ => hrep⟩
  | succ fuel ih =>
    intro st parent name path expected hq hkind hrep
    have hprops : expected.props = { kind := .directory } := by
      cases expected with
      | mk props cs => exact kind_dir_props _ cs props rfl hkind X st.fs _ path hrep
    have hexp : expected = Entry.mk { kind := .directory } expected.children := by
      cases expected with
      | mk props cs => simp only [Entry.props] at hprops; subst hprops; rfl
    have hI0 := dirRep_of_rep X st.fs _ path expected.children (hexp ▸ hrep)
    generalize hcs : expected.children = cs at hI0
    unfold removeDirectory
    rw [hprops, hcs]
    rcases hh : hook X.env st .opendir name with ⟨a, st1⟩
    have h1 : st1.fs = st.fs := by have := hook_fs X.env st .opendir name; rw [hh] at this; exact this
    have hs1 : st1.staged = st.staged := by have := hook_staged X.env st .opendir name; rw [hh] at this; exact this
    simp only
    -- a refusal that leaves everything as it is
    have hrefuse : ∀ (st' : St) (cls : String), st'.fs = st.fs → st'.staged = st.staged →
        FrameT st.fs (st'.problem path cls).fs (parent ++ [name]) ∧ (st'.problem path cls).staged = st.staged ∧
        (false = true → sget (st'.problem path cls).fs (parent ++ [name]) = none) ∧
        (false = false → RepAt X (st'.problem path cls).fs (parent ++ [name]) path expected) := by
      intro st' cls hfs hst
      refine ⟨by simp [hfs, FrameT.refl], by simpa using hst, fun hc => (by cases hc), fun _ => ?_⟩
      simp only [problem_fs, hfs]; exact hrep
    split
    · exact hrefuse st1 _ h1 hs1
    · cases hda : dirAt st1.fs (parent ++ [name]) with
      | none => exact hrefuse st1 _ h1 hs1
      | some cs0 =>
        simp only
        rcases hh2 : hook X.env st1 .readdir "" with ⟨a2, st2⟩
        have h2 : st2.fs = st.fs := by
          have := hook_fs X.env st1 .readdir ""; rw [hh2] at this; rw [this]; exact h1
        have hs2 : st2.staged = st.staged := by
          have := hook_staged X.env st1 .readdir ""; rw [hh2] at this; rw [this]; exact hs1
        simp only
        split
        · exact hrefuse st2 _ h2 hs2
        · cases hdb : dirAt st2.fs (parent ++ [name]) with
          | none => exact hrefuse st2 _ h2 hs2
          | some csd =>
            simp only
            have hI2 : DirRep X st2.fs (parent ++ [name]) path cs := hI0.same_fs h2
            have hloop := removeLoop_exact X (removeDirectory X.env fuel) ih (parent ++ [name]) path hq
              (X.env.ord (akeys csd)) {} cs st2 [] hI2 (fun _ n hn => by cases hn)
            have hkeys := removeLoop_keys X.env (removeDirectory X.env fuel) (parent ++ [name]) path
              (X.env.ord (akeys csd)) {} cs st2
            rcases hrl : removeLoop X.env (removeDirectory X.env fuel) (parent ++ [name]) path
              (X.env.ord (akeys csd)) {} cs st2 with ⟨fl, cur, st3⟩
            rw [hrl] at hloop hkeys
            simp only [List.nil_append] at hloop hkeys
            obtain ⟨hI3, hV3, hF3, hS3⟩ := hloop
            -- every name the expected map knows is in the listing
            have hlisted : ∀ n, lookup n cs ≠ none → n ∈ X.env.ord (akeys csd) := by
              intro n hn
              cases hl : lookup n cs with
              | none => exact absurd hl hn
              | some ce =>
                apply hord
                exact mem_keys_of_child st2.fs _ csd n hdb (rep_nonempty X _ _ _ ce (hI2.kids n ce hl))
            -- with no failure and no cancellation the remaining map is empty
            have hempty : fl.cancelled = false ∧ fl.failed = false → ∀ n, lookup n cur = none := by
              intro hfl n
              cases hl : lookup n cur with
              | none => rfl
              | some ce =>
                have hmem : n ∈ X.env.ord (akeys csd) := by
                  rcases hkeys n (by rw [hl]; simp) with h | h
                  · exact hlisted n h
                  · exact h
                have := hV3 hfl n hmem
                rw [hl] at this; cases this
            have hI3' : DirRep X st3.fs (parent ++ [name]) path (if (!fl.cancelled && !fl.failed) = true then [] else cur) := by
              split
              · rename_i hc
                have hfl : fl.cancelled = false ∧ fl.failed = false := by
                  simp only [Bool.and_eq_true, Bool.not_eq_true'] at hc; exact hc
                refine ⟨hI3.isDir, fun n ce hl => (by cases hl), fun n ce hl => (by cases hl), ?_⟩
                intro n hn _
                exact hI3.rest n hn (hempty hfl n)
              · exact hI3
            have hF : FrameT st.fs st3.fs (parent ++ [name]) := by rw [← h2]; exact hF3
            have hS : st3.staged = st.staged := by rw [hS3]; exact hs2
            split
            · rcases hh3 : hook X.env st3 .rmdir name with ⟨a3, st4⟩
              have h4 : st4.fs = st3.fs := by have := hook_fs X.env st3 .rmdir name; rw [hh3] at this; exact this
              have hs4 : st4.staged = st3.staged := by
                have := hook_staged X.env st3 .rmdir name; rw [hh3] at this; exact this
              simp only
              have hfailed : ∀ cls, FrameT st.fs (st4.problem path cls).fs (parent ++ [name]) ∧
                  (st4.problem path cls).staged = st.staged ∧
                  (false = true → sget (st4.problem path cls).fs (parent ++ [name]) = none) ∧
                  (false = false → RepAt X (st4.problem path cls).fs (parent ++ [name]) path
                    (Entry.mk { kind := .directory } (if (!fl.cancelled && !fl.failed) = true then [] else cur))) := by
                intro cls
                refine ⟨by simp only [problem_fs, h4]; exact hF, by simp [hs4, hS], fun hc => (by cases hc), fun _ => ?_⟩
                simp only [problem_fs, h4]
                exact rep_of_dirRep X _ _ _ _ hI3'
              split
              · exact hfailed _
              · cases hrm : fsRmdir st4.fs parent name with
                | none => exact hfailed _
                | some fs' =>
                  simp only
                  obtain ⟨_, hnone, hfr⟩ := fsRmdir_spec st4.fs fs' parent name hrm
                  refine ⟨?_, by simp [hs4, hS], fun _ => by simp [sget, hnone], fun hc => (by cases hc)⟩
                  rw [h4] at hfr
                  exact FrameT.trans hF (FrameT.of_frame hfr)
            · exact ⟨hF, hS, fun hc => (by cases hc), fun _ => rep_of_dirRep X _ _ _ _ hI3'⟩

/-! ## Creation -/

/-- The staged files hash to the digests they are staged under. -/
def Honest (X : XCtx) (st : St) : Prop := ∀ k f, aget k st.staged = some f → X.H f.data = k.2

theorem Honest.shrinks {X : XCtx} {st st' : St} (h : Honest X st) (hs : StagedShrinks st st') : Honest X st' := by
  intro k f hk
  obtain ⟨f0, hk0, hd⟩ := hs k f hk
  rw [hd]; exact h k f0 hk0

theorem Honest.of_eq {X : XCtx} {st st' : St} (h : Honest X st) (hs : st'.staged = st.staged) : Honest X st' :=
  h.shrinks (StagedShrinks.of_eq hs)

/-- The permission mode of created files reflects the executability of the
entry (`execOf`), and is not zero. -/
def FileModeOK (env : Env) : Prop :=
  ∀ b : Bool, execOf ((if b then markExecutableForReaders env.fileMode else env.fileMode) % 512) = b ∧
    (if b then markExecutableForReaders env.fileMode else env.fileMode) % 512 ≠ 0

/-- Entries a plan may create: the shape `EnsureValid` enforces, and no
temporary names. -/
inductive GoodNew : Entry → Prop
  | file (e : Bool) (d : List UInt8) : GoodNew (.mk { kind := .file, executable := e, digest := d } [])
  | symlink (t : String) : GoodNew (.mk { kind := .symlink, target := t } [])
  | dir (cs : Contents) : (∀ n c, lookup n cs = some c → isTemporaryName n = false) →
      (∀ n c, lookup n cs = some c → GoodNew c) → GoodNew (.mk { kind := .directory } cs)
  | other (e : Entry) : e.kind ≠ .directory → e.kind ≠ .file → e.kind ≠ .symlink → GoodNew e

theorem fsSymlink_target_ne (top top' : Node) (h : Handle) (n : Name) (t : String) (hu : fsSymlink top h n t = some top') :
    t ≠ "" := by
  unfold fsSymlink at hu
  obtain ⟨p, cs, cs', h1, h2, h3⟩ := updDir_at _ _ _ _ hu
  intro ht
  subst ht
  simp at h2

theorem createSymbolicLink_eff (env : Env) (st : St) (parent : Handle) (name : Name) (path : Path) (target : Entry)
    (r : Option String) (st' : St) (h : createSymbolicLink env st parent name path target = (r, st')) :
    st'.staged = st.staged ∧ (r ≠ none → st'.fs = st.fs) ∧
    (r = none → fsSymlink st.fs parent name target.props.target = some st'.fs ∧
      linkShown env path target.props.target = some target.props.target) := by
  unfold createSymbolicLink at h
  split at h
  · simp only [Prod.mk.injEq] at h; obtain ⟨rfl, rfl⟩ := h; exact ⟨rfl, fun _ => rfl, fun hc => by cases hc⟩
  · rename_i hign
    split at h
    · simp only [Prod.mk.injEq] at h; obtain ⟨rfl, rfl⟩ := h; exact ⟨rfl, fun _ => rfl, fun hc => by cases hc⟩
    · rename_i hport
      split at h
      · simp only [Prod.mk.injEq] at h; obtain ⟨rfl, rfl⟩ := h; exact ⟨rfl, fun _ => rfl, fun hc => by cases hc⟩
      · rcases hh : hook env st .symlink name with ⟨a, st1⟩
        have h1 : st1.fs = st.fs := by have := hook_fs env st .symlink name; rw [hh] at this; exact this
        have hs1 : st1.staged = st.staged := by have := hook_staged env st .symlink name; rw [hh] at this; exact this
        rw [hh] at h
        simp only at h
        split at h
        · simp only [Prod.mk.injEq] at h; obtain ⟨rfl, rfl⟩ := h; exact ⟨hs1, fun _ => h1, fun hc => by cases hc⟩
        · cases hs : fsSymlink st1.fs parent name target.props.target with
          | none =>
            rw [hs] at h; simp only [Prod.mk.injEq] at h; obtain ⟨rfl, rfl⟩ := h
            exact ⟨hs1, fun _ => h1, fun hc => by cases hc⟩
          | some fs2 =>
            rw [hs] at h
            simp only at h
            have hch : ∀ b st3, opChmod env { st1 with fs := fs2 } parent name 0 = (b, st3) →
                st3.fs = fs2 ∧ st3.staged = st1.staged := by
              intro b st3 hc
              unfold opChmod hook at hc
              grind
            rcases hc : opChmod env { st1 with fs := fs2 } parent name 0 with ⟨b, st3⟩
            obtain ⟨h3, hs3⟩ := hch b st3 hc
            rw [hc] at h
            have hshown : linkShown env path target.props.target = some target.props.target := by
              unfold linkShown
              have hne := fsSymlink_target_ne _ _ _ _ _ hs
              cases hm : env.slMode with
              | ignore => rw [hm] at hign; simp at hign
              | portable =>
                rw [hm] at hport
                simp only [beq_self_eq_true, Bool.true_and, bne_iff_ne, ne_eq, Decidable.not_not] at hport
                simpa using hport
              | posixRaw => simp [hne]
            have hres : r = none ∧ st'.fs = fs2 ∧ st'.staged = st.staged := by
              cases b <;> (simp only [Prod.mk.injEq] at h; obtain ⟨rfl, rfl⟩ := h; simp [h3, hs3, hs1])
            obtain ⟨hr, hfs, hst⟩ := hres
            refine ⟨hst, fun hc => absurd hr hc, fun _ => ⟨?_, hshown⟩⟩
            rw [hfs, ← h1]; exact hs

/-- A description of a directory survives changes that only concern temporaries. -/
theorem DirRep.unch {X : XCtx} {fs fs1 : Node} {dirQ : List Name} {path : Path} {cur : Contents}
    (h : DirRep X fs dirQ path cur) (hq : TempFree dirQ) (hu : Unch fs fs1) : DirRep X fs1 dirQ path cur := by
  have := rep_same X fs fs1 dirQ path _ (rep_of_dirRep X fs dirQ path cur h) (sameBelow_of_unch fs fs1 dirQ hu hq)
  exact dirRep_of_rep X fs1 dirQ path cur this

/-- What `createDirectory` must guarantee for its content loop (exactness). -/
def MkX (X : XCtx) (rec : MkRec) : Prop :=
  ∀ st h n p e, TempFree (h ++ [n]) → GoodNew e → e.kind = .directory → Honest X st →
    StagedShrinks st (rec st h n p e).2 ∧
    ((rec st h n p e).1 = none → Unch st.fs (rec st h n p e).2.fs) ∧
    (∀ ce, (rec st h n p e).1 = some ce → sget st.fs (h ++ [n]) = none ∧
      RepAt X (rec st h n p e).2.fs (h ++ [n]) p ce ∧ FrameT st.fs (rec st h n p e).2.fs (h ++ [n]))

theorem goodNew_file_shape (e : Entry) (hg : GoodNew e) (hk : e.kind = .file) :
    ∃ x d, e = .mk { kind := .file, executable := x, digest := d } [] := by
  cases hg with
  | file x d => exact ⟨x, d, rfl⟩
  | symlink t => simp [Entry.kind, Entry.props] at hk
  | dir cs h1 h2 => simp [Entry.kind, Entry.props] at hk
  | other e h1 h2 h3 => exact absurd hk h2

theorem goodNew_symlink_shape (e : Entry) (hg : GoodNew e) (hk : e.kind = .symlink) :
    ∃ t, e = .mk { kind := .symlink, target := t } [] := by
  cases hg with
  | file x d => simp [Entry.kind, Entry.props] at hk
  | symlink t => exact ⟨t, rfl⟩
  | dir cs h1 h2 => simp [Entry.kind, Entry.props] at hk
  | other e h1 h2 h3 => exact absurd hk h3

theorem goodNew_dir_shape (e : Entry) (hg : GoodNew e) (hk : e.kind = .directory) :
    ∃ cs, e = .mk { kind := .directory } cs ∧ (∀ n c, lookup n cs = some c → isTemporaryName n = false) ∧
      (∀ n c, lookup n cs = some c → GoodNew c) := by
  cases hg with
  | file x d => simp [Entry.kind, Entry.props] at hk
  | symlink t => simp [Entry.kind, Entry.props] at hk
  | dir cs h1 h2 => exact ⟨cs, rfl, h1, h2⟩
  | other e h1 h2 h3 => exact absurd hk h1

/-- A file created for a well-formed file entry is described by that entry. -/
theorem rep_of_moved (X : XCtx) (hmode : FileModeOK X.env) (st st' : St) (parent : Handle) (name : Name) (path : Path)
    (x : Bool) (d : List UInt8) (sf : SFile) (replace : Bool)
    (hh : X.H sf.data = d)
    (hm : Moved st st' parent name sf.data
      (fileModeOf X.env (.mk { kind := .file, executable := x, digest := d } [])) replace) :
    RepAt X st'.fs (parent ++ [name]) path (.mk { kind := .file, executable := x, digest := d } []) := by
  have hfm : fileModeOf X.env (.mk { kind := .file, executable := x, digest := d } []) =
      (if x then markExecutableForReaders X.env.fileMode else X.env.fileMode) := rfl
  rw [hfm] at hm
  obtain ⟨perm, m, i, hs, hp, _, _⟩ := hm
  have hmo := hmode x
  have hperm := hp hmo.2
  have := RepAt.file (X := X) (top := st'.fs) (parent ++ [name]) path sf.data perm m i hs
  rw [hh, hperm, hmo.1] at this
  exact this

theorem createLoop_exact (X : XCtx) (htmp : ∀ k l, isTemporaryName (X.env.tmpName k l) = true)
    (hmode : FileModeOK X.env) (rec : MkRec) (hrec : MkX X rec) (dirQ : List Name) (path : Path)
    (hq : TempFree dirQ) (target : Contents)
    (hkeys : ∀ n c, lookup n target = some c → isTemporaryName n = false)
    (hgood : ∀ n c, lookup n target = some c → GoodNew c) (names : List Name) :
    ∀ (acc : Contents) (st : St), DirRep X st.fs dirQ path acc → Honest X st →
      DirRep X (createLoop X.env rec dirQ path target names acc st).2.fs dirQ path
        (createLoop X.env rec dirQ path target names acc st).1 ∧
      StagedShrinks st (createLoop X.env rec dirQ path target names acc st).2 ∧
      FrameT st.fs (createLoop X.env rec dirQ path target names acc st).2.fs dirQ := by
  induction names with
  | nil => intro acc st hI _; simpa [createLoop] using ⟨hI, StagedShrinks.refl _, FrameT.refl _ _⟩
  | cons n rest ih =>
    intro acc st hI hH
    unfold createLoop
    split
    · exact ⟨hI, StagedShrinks.of_eq rfl, FrameT.refl _ _⟩
    · cases hl : lookup n target with
      | none => exact ih acc st hI hH
      | some entry =>
        have hn := hkeys n entry hl
        have hg := hgood n entry hl
        have hqn : TempFree (dirQ ++ [n]) := tempFree_snoc hq hn
        -- continuation when nothing but temporaries changed
        have hskip : ∀ st1 : St, Unch st.fs st1.fs → StagedShrinks st st1 →
            DirRep X (createLoop X.env rec dirQ path target rest acc st1).2.fs dirQ path
              (createLoop X.env rec dirQ path target rest acc st1).1 ∧
            StagedShrinks st (createLoop X.env rec dirQ path target rest acc st1).2 ∧
            FrameT st.fs (createLoop X.env rec dirQ path target rest acc st1).2.fs dirQ := by
          intro st1 hu hs
          obtain ⟨r1, r2, r3⟩ := ih acc st1 (hI.unch hq hu) (hH.shrinks hs)
          exact ⟨r1, hs.trans r2, FrameT.unch_left hu r3⟩
        -- continuation when the child was created
        have hmade : ∀ (st1 : St) (ce : Entry), FrameT st.fs st1.fs (dirQ ++ [n]) → StagedShrinks st st1 →
            RepAt X st1.fs (dirQ ++ [n]) (path ++ [n]) ce →
            DirRep X (createLoop X.env rec dirQ path target rest (upsert n ce acc) st1).2.fs dirQ path
              (createLoop X.env rec dirQ path target rest (upsert n ce acc) st1).1 ∧
            StagedShrinks st (createLoop X.env rec dirQ path target rest (upsert n ce acc) st1).2 ∧
            FrameT st.fs (createLoop X.env rec dirQ path target rest (upsert n ce acc) st1).2.fs dirQ := by
          intro st1 ce hf hs hrep
          obtain ⟨r1, r2, r3⟩ := ih (upsert n ce acc) st1 (hI.child_replaced hq n hn hf ce hrep) (hH.shrinks hs)
          exact ⟨r1, hs.trans r2, FrameT.trans (hf.weaken (List.prefix_append dirQ [n])) r3⟩
        simp only
        split
        · -- directory
          rename_i hk
          have hkd : entry.kind = .directory := by simpa using hk
          have hr := hrec st dirQ n (path ++ [n]) entry hqn hg hkd hH
          rcases hrc : rec st dirQ n (path ++ [n]) entry with ⟨c, st1⟩
          rw [hrc] at hr
          simp only at hr
          obtain ⟨hs, hnone, hsome⟩ := hr
          cases c with
          | none => exact hskip st1 (hnone rfl) hs
          | some ce =>
            obtain ⟨_, hrep, hf⟩ := hsome ce rfl
            exact hmade st1 ce hf hs hrep
        · split
          · -- file
            rename_i hk
            have hkf : entry.kind = .file := by simpa using hk
            obtain ⟨x, d, hshape⟩ := goodNew_file_shape entry hg hkf
            rcases hf : findAndMove X.env st (path ++ [n]) entry dirQ n false with ⟨r, st1⟩
            obtain ⟨_, hs, hfail, hok, _⟩ := findAndMove_eff X.env htmp st (path ++ [n]) entry dirQ n hn false r st1 hf
            cases r with
            | some e => exact hskip (st1.problem (path ++ [n]) ("mkfile:" ++ e)) (hfail (by simp)) hs
            | none =>
              obtain ⟨sf, hsf, hm⟩ := hok rfl
              have hd : X.H sf.data = d := by
                have := hH _ sf hsf
                rw [this, hshape]
                rfl
              have hrep : RepAt X st1.fs (dirQ ++ [n]) (path ++ [n]) entry := by
                rw [hshape] at hm ⊢
                exact rep_of_moved X hmode st st1 dirQ n (path ++ [n]) x d sf false hd hm
              obtain ⟨_, _, _, _, _, hfr, _⟩ := hm
              exact hmade st1 entry hfr hs hrep
          · split
            · -- symbolic link
              rename_i hk
              have hkl : entry.kind = .symlink := by simpa using hk
              obtain ⟨t, hshape⟩ := goodNew_symlink_shape entry hg hkl
              rcases hf : createSymbolicLink X.env st dirQ n (path ++ [n]) entry with ⟨r, st1⟩
              obtain ⟨hst, hfail, hok⟩ := createSymbolicLink_eff X.env st dirQ n (path ++ [n]) entry r st1 hf
              cases r with
              | some e =>
                exact hskip (st1.problem (path ++ [n]) ("mklink:" ++ e)) (Unch.of_eq (hfail (by simp)))
                  (StagedShrinks.of_eq hst)
              | none =>
                obtain ⟨hsl, hshown⟩ := hok rfl
                obtain ⟨_, hget, hfr⟩ := fsSymlink_spec _ _ _ _ _ hsl
                have hrep : RepAt X st1.fs (dirQ ++ [n]) (path ++ [n]) entry := by
                  rw [hshape] at hshown hget ⊢
                  exact RepAt.symlink _ _ t t (sget_of_get _ _ _ hget) hshown
                exact hmade st1 entry (FrameT.of_frame hfr) (StagedShrinks.of_eq hst) hrep
            · exact hskip (st.problem (path ++ [n]) "create-unknown-type") (Unch.refl _) (StagedShrinks.of_eq rfl)

/-- A directory that was just created, and whose mode may just have been set,
is described by the empty directory entry. -/
theorem dirRep_fresh (X : XCtx) (fs : Node) (q : List Name) (path : Path) (perm : Nat)
    (h : fs.get q = some (.dir perm [])) : DirRep X fs q path [] := by
  refine ⟨⟨perm, sget_of_get _ _ _ h⟩, fun n ce hl => (by cases hl), fun n ce hl => (by cases hl), ?_⟩
  intro n _ _
  apply unsync_of_none
  simp [sget, get_append, h, get_cons_dir, aget]

theorem createDirectory_exact (X : XCtx) (htmp : ∀ k l, isTemporaryName (X.env.tmpName k l) = true)
    (hmode : FileModeOK X.env) (fuel : Nat) : MkX X (createDirectory X.env fuel) := by
  induction fuel with
  | zero =>
    intro st h n p e _ _ _ _
    simp only [createDirectory]
    exact ⟨StagedShrinks.of_eq rfl, fun _ => Unch.refl _, fun ce hc => (by cases hc)⟩
  | succ fuel ih =>
    intro st parent name path target hq hg hkind hH
    obtain ⟨cs, hshape, hkeys, hgood⟩ := goodNew_dir_shape target hg hkind
    have hprops : target.props = { kind := .directory } := by rw [hshape]; rfl
    have hkids : target.children = cs := by rw [hshape]; rfl
    unfold createDirectory
    rw [hprops, hkids]
    -- a refusal that leaves everything as it is
    have hrefuse : ∀ (st' : St) (cls : String), st'.fs = st.fs → st'.staged = st.staged →
        StagedShrinks st ((none : Option Entry), st'.problem path cls).2 ∧
        (((none : Option Entry), st'.problem path cls).1 = none → Unch st.fs ((none : Option Entry), st'.problem path cls).2.fs) ∧
        (∀ ce, ((none : Option Entry), st'.problem path cls).1 = some ce → sget st.fs (parent ++ [name]) = none ∧
          RepAt X ((none : Option Entry), st'.problem path cls).2.fs (parent ++ [name]) path ce ∧
          FrameT st.fs ((none : Option Entry), st'.problem path cls).2.fs (parent ++ [name])) := by
      intro st' cls hfs hst
      exact ⟨StagedShrinks.of_eq (by simpa using hst), fun _ => Unch.of_eq (by simpa using hfs), fun ce hc => (by cases hc)⟩
    split
    · exact hrefuse st _ rfl rfl
    · rcases hh : hook X.env st .mkdir name with ⟨a, st1⟩
      have h1 : st1.fs = st.fs := by have := hook_fs X.env st .mkdir name; rw [hh] at this; exact this
      have hs1 : st1.staged = st.staged := by have := hook_staged X.env st .mkdir name; rw [hh] at this; exact this
      simp only
      split
      · exact hrefuse st1 _ h1 hs1
      · cases hm : fsMkdir st1.fs parent name with
        | none => exact hrefuse st1 _ h1 hs1
        | some fs2 =>
          simp only
          obtain ⟨hnone, hget2, hfr2⟩ := fsMkdir_spec st1.fs fs2 parent name hm
          rw [h1] at hnone hfr2
          have hpre : sget st.fs (parent ++ [name]) = none := by simp [sget, hnone]
          rcases hc : opChmod X.env { st1 with fs := fs2 } parent name X.env.dirMode with ⟨b, st3⟩
          obtain ⟨hq3, hc3⟩ := opChmod_eff X.env _ parent name _ b st3 hc
          -- after the permission call the new directory is still empty
          have hst3 : ∃ perm, st3.fs.get (parent ++ [name]) = some (.dir perm []) ∧
              Frame st.fs st3.fs (parent ++ [name]) := by
            rcases hc3 with ⟨_, _, hfs⟩ | ⟨_, _, hfs⟩ | ⟨_, hfs⟩
            · simp only at hfs; exact ⟨0o700, by rw [hfs]; exact hget2, by rw [hfs]; exact hfr2⟩
            · simp only at hfs
              unfold fsChmod at hfs
              obtain ⟨p, k, k', g1, g2, g3⟩ := updDir_at _ _ _ _ hfs
              have gc := get_child fs2 parent p k g1 name
              rw [hget2] at gc
              rw [← gc] at g2
              simp only [Option.some.injEq] at g2
              obtain ⟨_, hfr, _, _⟩ := fsChmod_spec fs2 st3.fs parent name _ (by unfold fsChmod; exact hfs)
              refine ⟨X.env.dirMode % 512, ?_, ?_⟩
              · rw [get_child st3.fs parent p k' g3 name, ← g2, aget_aset_self]
              · intro q hqq
                rw [hfr q (by rintro rfl; exact hqq (List.prefix_refl _))]
                exact hfr2 q hqq
            · simp only at hfs; exact ⟨0o700, by rw [hfs]; exact hget2, by rw [hfs]; exact hfr2⟩
          obtain ⟨perm3, hget3, hfr3⟩ := hst3
          have hs3 : st3.staged = st.staged := by rw [hq3.2]; exact hs1
          have hI3 : DirRep X st3.fs (parent ++ [name]) path [] := dirRep_fresh X st3.fs _ path perm3 hget3
          -- the directory exists: it is reported, with whatever was created in it
          have hdone : ∀ (st' : St), st'.fs = st3.fs → st'.staged = st.staged →
              StagedShrinks st (some (Entry.mk { kind := .directory } []), st').2 ∧
              ((some (Entry.mk { kind := .directory } []), st').1 = none → Unch st.fs st'.fs) ∧
              (∀ ce, (some (Entry.mk { kind := .directory } []), st').1 = some ce →
                sget st.fs (parent ++ [name]) = none ∧ RepAt X st'.fs (parent ++ [name]) path ce ∧
                FrameT st.fs st'.fs (parent ++ [name])) := by
            intro st' hfs hst
            refine ⟨StagedShrinks.of_eq hst, fun hc => (by cases hc), fun ce hce => ?_⟩
            simp only [Option.some.injEq] at hce; subst hce
            exact ⟨hpre, by rw [hfs]; exact rep_of_dirRep X _ _ _ _ hI3, by rw [hfs]; exact FrameT.of_frame hfr3⟩
          cases b with
          | false => exact hdone _ (by simp) (by simpa using hs3)
          | true =>
            simp only
            split
            · exact hdone st3 rfl hs3
            · rcases hh4 : hook X.env st3 .opendir name with ⟨a4, st4⟩
              have h4 : st4.fs = st3.fs := by have := hook_fs X.env st3 .opendir name; rw [hh4] at this; exact this
              have hs4 : st4.staged = st.staged := by
                have := hook_staged X.env st3 .opendir name; rw [hh4] at this; rw [this]; exact hs3
              simp only
              split
              · exact hdone _ (by simpa using h4) (by simpa using hs4)
              · cases hd : dirAt st4.fs (parent ++ [name]) with
                | none => exact hdone _ (by simpa using h4) (by simpa using hs4)
                | some csd =>
                  simp only
                  have hH4 : Honest X st4 := hH.of_eq hs4
                  have hloop := createLoop_exact X htmp hmode (createDirectory X.env fuel) ih (parent ++ [name]) path hq
                    cs hkeys hgood (X.env.ord (keys cs)) [] st4 (hI3.same_fs h4) hH4
                  rcases hcl : createLoop X.env (createDirectory X.env fuel) (parent ++ [name]) path cs
                    (X.env.ord (keys cs)) [] st4 with ⟨acc, st5⟩
                  rw [hcl] at hloop
                  simp only at hloop
                  obtain ⟨hI5, hS5, hF5⟩ := hloop
                  refine ⟨(StagedShrinks.of_eq hs4).trans hS5, fun hc => (by cases hc), fun ce hce => ?_⟩
                  simp only [Option.some.injEq] at hce; subst hce
                  refine ⟨hpre, rep_of_dirRep X _ _ _ _ hI5, ?_⟩
                  rw [h4] at hF5
                  exact FrameT.trans (FrameT.of_frame hfr3) hF5

/-! ## One transition -/

/-- The standing hypotheses of the exactness theorems. -/
structure XHyp (X : XCtx) : Prop where
  tmp : ∀ k l, isTemporaryName (X.env.tmpName k l) = true
  mode : FileModeOK X.env
  ord : OrdComplete X.env
  root : isTemporaryName X.env.rootName = false

theorem tempFree_root {X : XCtx} (hx : XHyp X) {path : Path} (hp : TempFree path) : TempFree (X.env.rootName :: path) :=
  tempFree_cons hx.root hp

theorem last_not_temp {h : Handle} {name : Name} {q : List Name} (he : h ++ [name] = q) (hq : TempFree q) :
    isTemporaryName name = false := by
  apply hq
  rw [← he]; simp

theorem unsync_unch (X : XCtx) (fs fs' : Node) (q : List Name) (p : Path) (hq : TempFree q) (hu : Unch fs fs')
    (h : UnsyncAt X fs q p) : UnsyncAt X fs' q p :=
  unsync_same X fs fs' q p (hu q hq) h

theorem rep_unch (X : XCtx) (fs fs' : Node) (q : List Name) (p : Path) (e : Entry) (hq : TempFree q) (hu : Unch fs fs')
    (h : RepAt X fs q p e) : RepAt X fs' q p e :=
  rep_same X fs fs' q p e h (sameBelow_of_unch fs fs' q hu hq)

theorem remove_exact (X : XCtx) (hx : XHyp X) (st : St) (path : Path) (old : Option Entry) (hp : TempFree path)
    (hrep : RepO X st.fs (X.env.rootName :: path) path old) :
    (remove X.env st path old).2.staged = st.staged ∧
    FrameT st.fs (remove X.env st path old).2.fs (X.env.rootName :: path) ∧
    RepO X (remove X.env st path old).2.fs (X.env.rootName :: path) path (remove X.env st path old).1 := by
  have hq0 := tempFree_root hx hp
  cases old with
  | none => simp only [remove]; exact ⟨trivial, FrameT.refl _ _, hrep⟩
  | some e =>
    have hrep' : RepAt X st.fs (X.env.rootName :: path) path e := hrep
    unfold remove
    have hws := walkToParent_spec X.env st path true
    have hwq := walkToParent_quiet X.env st path true
    rcases hwk : walkToParent X.env st path true with ⟨w, st1⟩
    rw [hwk] at hws hwq
    simp only at hws hwq
    have hrep1 : RepAt X st1.fs (X.env.rootName :: path) path e := by rw [hws.1]; exact hrep'
    cases w with
    | none =>
      simp only
      exact ⟨hwq.2, by simp [hws.1, FrameT.refl], by simpa [RepO] using hrep1⟩
    | some hn =>
      obtain ⟨parent, name⟩ := hn
      have hq := hws.2 parent name rfl
      simp only
      split
      · rename_i hk
        have hkd : e.kind = .directory := by simpa using hk
        have hr := removeDirectory_exact X hx.ord e.size st1 parent name path e (by rw [hq]; exact hq0) hkd
          (by rw [hq]; exact hrep1)
        rcases hrd : removeDirectory X.env e.size st1 parent name path e with ⟨ok, red, st2⟩
        rw [hrd] at hr
        simp only at hr
        obtain ⟨hf, hs, hok, hno⟩ := hr
        rw [hq, hws.1] at hf
        rw [hq] at hok hno
        cases ok with
        | true =>
          exact ⟨by rw [hs]; exact hwq.2, hf, unsync_of_none X _ _ _ (hok rfl)⟩
        | false => exact ⟨by rw [hs]; exact hwq.2, hf, hno rfl⟩
      · split
        · rcases hrf : removeFile X.env st1 parent name path e with ⟨r, st2⟩
          obtain ⟨hqt, heff⟩ := removeFile_eff X.env st1 parent name path e r st2 hrf
          rcases heff with ⟨hr, hu⟩ | ⟨hr, hfs⟩
          · subst hr
            obtain ⟨_, hnone, hfr⟩ := fsUnlink_spec _ _ _ _ hu
            rw [hq] at hnone hfr
            rw [hws.1] at hfr
            exact ⟨by rw [hqt.2]; exact hwq.2, FrameT.of_frame hfr, unsync_of_none X _ _ _ (by simp [sget, hnone])⟩
          · cases r with
            | none => exact absurd rfl hr
            | some err =>
              refine ⟨by simp [hqt.2, hwq.2], by simp [hfs, hws.1, FrameT.refl], ?_⟩
              simp only [RepO, problem_fs, hfs]; exact hrep1
        · split
          · rcases hrf : removeSymbolicLink X.env st1 parent name path e with ⟨r, st2⟩
            obtain ⟨hqt, heff⟩ := removeSymbolicLink_eff X.env st1 parent name path e r st2 hrf
            rcases heff with ⟨hr, hu⟩ | ⟨hr, hfs⟩
            · subst hr
              obtain ⟨_, hnone, hfr⟩ := fsUnlink_spec _ _ _ _ hu
              rw [hq] at hnone hfr
              rw [hws.1] at hfr
              exact ⟨by rw [hqt.2]; exact hwq.2, FrameT.of_frame hfr, unsync_of_none X _ _ _ (by simp [sget, hnone])⟩
            · cases r with
              | none => exact absurd rfl hr
              | some err =>
                refine ⟨by simp [hqt.2, hwq.2], by simp [hfs, hws.1, FrameT.refl], ?_⟩
                simp only [RepO, problem_fs, hfs]; exact hrep1
          · refine ⟨by simp [hwq.2], by simp [hws.1, FrameT.refl], ?_⟩
            simp only [RepO, problem_fs]; exact hrep1

theorem create_exact (X : XCtx) (hx : XHyp X) (st : St) (path : Path) (target : Option Entry) (hp : TempFree path)
    (hg : ∀ e, target = some e → GoodNew e) (hH : Honest X st)
    (hun : UnsyncAt X st.fs (X.env.rootName :: path) path) :
    StagedShrinks st (create X.env st path target).2 ∧
    FrameT st.fs (create X.env st path target).2.fs (X.env.rootName :: path) ∧
    RepO X (create X.env st path target).2.fs (X.env.rootName :: path) path (create X.env st path target).1 := by
  have hq0 := tempFree_root hx hp
  cases target with
  | none => simp only [create]; exact ⟨StagedShrinks.refl _, FrameT.refl _ _, hun⟩
  | some e =>
    have hge := hg e rfl
    unfold create
    have hws := walkToParent_spec X.env st path false
    have hwq := walkToParent_quiet X.env st path false
    rcases hwk : walkToParent X.env st path false with ⟨w, st1⟩
    rw [hwk] at hws hwq
    simp only at hws hwq
    have hun1 : UnsyncAt X st1.fs (X.env.rootName :: path) path := by rw [hws.1]; exact hun
    have hH1 : Honest X st1 := hH.of_eq hwq.2
    have hS1 : StagedShrinks st st1 := StagedShrinks.of_eq hwq.2
    -- nothing but temporaries changed, nothing is reported
    have hnothing : ∀ st2 : St, Unch st1.fs st2.fs → StagedShrinks st1 st2 →
        StagedShrinks st st2 ∧ FrameT st.fs st2.fs (X.env.rootName :: path) ∧
        RepO X st2.fs (X.env.rootName :: path) path none := by
      intro st2 hu hs
      refine ⟨hS1.trans hs, ?_, unsync_unch X _ _ _ _ hq0 hu hun1⟩
      rw [← hws.1]; exact hu.frame _
    cases w with
    | none => simp only; exact hnothing _ (by simp [Unch.refl]) (StagedShrinks.of_eq (by simp))
    | some hn =>
      obtain ⟨parent, name⟩ := hn
      have hq := hws.2 parent name rfl
      have hname := last_not_temp hq hq0
      simp only
      split
      · rename_i hk
        have hkd : e.kind = .directory := by simpa using hk
        have hr := createDirectory_exact X hx.tmp hx.mode e.size st1 parent name path e (by rw [hq]; exact hq0) hge hkd hH1
        rcases hcd : createDirectory X.env e.size st1 parent name path e with ⟨c, st2⟩
        rw [hcd] at hr
        simp only at hr
        obtain ⟨hs, hnone, hsome⟩ := hr
        cases c with
        | none => exact hnothing st2 (hnone rfl) hs
        | some ce =>
          obtain ⟨_, hrep, hf⟩ := hsome ce rfl
          rw [hq] at hrep hf
          rw [hws.1] at hf
          exact ⟨hS1.trans hs, hf, hrep⟩
      · split
        · rename_i hk
          have hkf : e.kind = .file := by simpa using hk
          obtain ⟨x, d, hshape⟩ := goodNew_file_shape e hge hkf
          rcases hf : findAndMove X.env st1 path e parent name false with ⟨r, st2⟩
          obtain ⟨_, hs, hfail, hok, _⟩ := findAndMove_eff X.env hx.tmp st1 path e parent name hname false r st2 hf
          cases r with
          | some err => exact hnothing _ (by simpa using hfail (by simp)) (by intro k f hk; exact hs k f (by simpa using hk))
          | none =>
            obtain ⟨sf, hsf, hm⟩ := hok rfl
            have hd : X.H sf.data = d := by
              have := hH1 _ sf hsf
              rw [this, hshape]; rfl
            have hrep : RepAt X st2.fs (parent ++ [name]) path e := by
              rw [hshape] at hm ⊢
              exact rep_of_moved X hx.mode st1 st2 parent name path x d sf false hd hm
            obtain ⟨_, _, _, _, _, hfr, _⟩ := hm
            rw [hq] at hrep hfr
            rw [hws.1] at hfr
            exact ⟨hS1.trans hs, hfr, hrep⟩
        · split
          · rename_i hk
            have hkl : e.kind = .symlink := by simpa using hk
            obtain ⟨t, hshape⟩ := goodNew_symlink_shape e hge hkl
            rcases hf : createSymbolicLink X.env st1 parent name path e with ⟨r, st2⟩
            obtain ⟨hst, hfail, hok⟩ := createSymbolicLink_eff X.env st1 parent name path e r st2 hf
            cases r with
            | some err =>
              exact hnothing _ (Unch.of_eq (by simpa using hfail (by simp))) (StagedShrinks.of_eq (by simpa using hst))
            | none =>
              obtain ⟨hsl, hshown⟩ := hok rfl
              obtain ⟨_, hget, hfr⟩ := fsSymlink_spec _ _ _ _ _ hsl
              have hrep : RepAt X st2.fs (parent ++ [name]) path e := by
                rw [hshape] at hshown hget ⊢
                exact RepAt.symlink _ _ t t (sget_of_get _ _ _ hget) hshown
              rw [hq] at hrep hfr
              rw [hws.1] at hfr
              exact ⟨hS1.trans (StagedShrinks.of_eq hst), FrameT.of_frame hfr, hrep⟩
          · exact hnothing _ (by simp [Unch.refl]) (StagedShrinks.of_eq (by simp))

theorem rep_file_shape (X : XCtx) (fs : Node) (q : List Name) (p : Path) (e : Entry) (h : RepAt X fs q p e)
    (hk : e.kind = .file) :
    ∃ d perm m i, sget fs q = some (.file d perm m i) ∧
      e = .mk { kind := .file, executable := execOf perm, digest := X.H d } [] := by
  cases h with
  | file q p d perm m i hq => exact ⟨d, perm, m, i, hq, rfl⟩
  | symlink q p t t' hq hl => simp [Entry.kind, Entry.props] at hk
  | dir q p perm cs hq ht hkk hu => simp [Entry.kind, Entry.props] at hk

theorem swap_exact (X : XCtx) (hx : XHyp X) (st : St) (path : Path) (oldE newE : Entry) (hp : TempFree path)
    (hko : oldE.kind = .file) (hkn : newE.kind = .file) (hg : GoodNew newE) (hH : Honest X st)
    (hrep : RepAt X st.fs (X.env.rootName :: path) path oldE) :
    StagedShrinks st (swapFile X.env st path oldE newE).2 ∧
    FrameT st.fs (swapFile X.env st path oldE newE).2.fs (X.env.rootName :: path) ∧
    ((swapFile X.env st path oldE newE).1 ≠ none →
      RepAt X (swapFile X.env st path oldE newE).2.fs (X.env.rootName :: path) path oldE) ∧
    ((swapFile X.env st path oldE newE).1 = none →
      RepAt X (swapFile X.env st path oldE newE).2.fs (X.env.rootName :: path) path newE) := by
  have hq0 := tempFree_root hx hp
  obtain ⟨x, dn, hshape⟩ := goodNew_file_shape newE hg hkn
  obtain ⟨d0, perm0, m0, i0, hs0, hoshape⟩ := rep_file_shape X _ _ _ _ hrep hko
  unfold swapFile
  have hws := walkToParent_spec X.env st path true
  have hwq := walkToParent_quiet X.env st path true
  rcases hwk : walkToParent X.env st path true with ⟨w, st1⟩
  rw [hwk] at hws hwq
  simp only at hws hwq
  have hS1 : StagedShrinks st st1 := StagedShrinks.of_eq hwq.2
  -- a failure that changed nothing but temporaries
  have hfailed : ∀ (e : String) (st2 : St), Unch st.fs st2.fs → StagedShrinks st st2 →
      StagedShrinks st ((some e : Option String), st2).2 ∧
      FrameT st.fs ((some e : Option String), st2).2.fs (X.env.rootName :: path) ∧
      (((some e : Option String), st2).1 ≠ none → RepAt X ((some e : Option String), st2).2.fs (X.env.rootName :: path) path oldE) ∧
      (((some e : Option String), st2).1 = none → RepAt X ((some e : Option String), st2).2.fs (X.env.rootName :: path) path newE) := by
    intro e st2 hu hs
    exact ⟨hs, hu.frame _, fun _ => rep_unch X _ _ _ _ _ hq0 hu hrep, fun hc => (by cases hc)⟩
  cases w with
  | none => exact hfailed _ st1 (Unch.of_eq hws.1) hS1
  | some hn =>
    obtain ⟨parent, name⟩ := hn
    have hq := hws.2 parent name rfl
    have hname := last_not_temp hq hq0
    simp only
    have hcq := ensureExpectedFile_quiet X.env st1 parent name path oldE
    rcases hc : ensureExpectedFile X.env st1 parent name path oldE with ⟨r1, st2⟩
    have hfs := (ensureExpectedFile_spec X.env st1 parent name path oldE r1 st2 hc).1
    rw [hc] at hcq
    simp only at hcq
    have h2 : st2.fs = st.fs := by rw [hfs]; exact hws.1
    have hS2 : StagedShrinks st st2 := hS1.trans (StagedShrinks.of_eq hcq.2)
    have hH2 : Honest X st2 := hH.shrinks hS2
    cases r1 with
    | some e => exact hfailed e st2 (Unch.of_eq h2) hS2
    | none =>
      simp only
      split
      · -- same content: only the permission bits change
        rename_i hdig
        have hdig' : oldE.props.digest = newE.props.digest := by simpa using hdig
        have hmo := hx.mode newE.props.executable
        rcases hcm : opChmod X.env st2 parent name
            (if newE.props.executable = true then markExecutableForReaders X.env.fileMode else X.env.fileMode)
          with ⟨b, st3⟩
        obtain ⟨hq3, hc3⟩ := opChmod_eff X.env st2 parent name _ b st3 hcm
        have hS3 : StagedShrinks st st3 := hS2.trans (StagedShrinks.of_eq hq3.2)
        rcases hc3 with ⟨hb, hm, _⟩ | ⟨hb, hm, hch⟩ | ⟨hb, hfs3⟩
        · exact absurd hm hmo.2
        · subst hb
          simp only
          obtain ⟨_, hfr, _, hfile⟩ := fsChmod_spec st2.fs st3.fs parent name _ hch
          rw [hq, h2] at hfile hfr
          have hnew := hfile d0 perm0 m0 i0 hs0
          refine ⟨hS3, ?_, fun hc => absurd rfl hc, fun _ => ?_⟩
          · intro q _ hnp
            rw [hfr q (by rintro rfl; exact hnp (List.prefix_refl _))]
          · have := RepAt.file (X := X) (top := st3.fs) (X.env.rootName :: path) path d0 _ m0 i0 hnew
            rw [hmo.1] at this
            rw [hshape]
            rw [hshape] at hdig'
            rw [hoshape] at hdig'
            simp only [Entry.props] at hdig'
            rw [hdig'] at this
            rw [hshape] at this
            exact this
        · subst hb
          simp only
          exact hfailed _ st3 (Unch.of_eq (by rw [hfs3]; exact h2)) hS3
      · -- different content: move the staged file over the old one
        rcases hf : findAndMove X.env st2 path newE parent name true with ⟨r, st3⟩
        obtain ⟨_, hs, hfail, hok, _⟩ := findAndMove_eff X.env hx.tmp st2 path newE parent name hname true r st3 hf
        cases r with
        | some err =>
          have hu : Unch st.fs st3.fs := by rw [← h2]; exact hfail (by simp)
          exact hfailed err st3 hu (hS2.trans hs)
        | none =>
          obtain ⟨sf, hsf, hm⟩ := hok rfl
          have hd : X.H sf.data = dn := by
            have := hH2 _ sf hsf
            rw [this, hshape]; rfl
          have hrepn : RepAt X st3.fs (parent ++ [name]) path newE := by
            rw [hshape] at hm ⊢
            exact rep_of_moved X hx.mode st2 st3 parent name path x dn sf true hd hm
          obtain ⟨_, _, _, _, _, hfr, _⟩ := hm
          rw [hq] at hrepn hfr
          rw [h2] at hfr
          exact ⟨hS2.trans hs, hfr, fun hc => absurd rfl hc, fun _ => hrepn⟩

/-- Exactness of one iteration of `Transition`. -/
theorem step_exact (X : XCtx) (hx : XHyp X) (st : St) (t : Change) (hp : TempFree t.path)
    (hg : ∀ e, t.new = some e → GoodNew e) (hH : Honest X st)
    (hrep : RepO X st.fs (X.env.rootName :: t.path) t.path t.old) :
    StagedShrinks st (step X.env st t).2 ∧
    FrameT st.fs (step X.env st t).2.fs (X.env.rootName :: t.path) ∧
    RepO X (step X.env st t).2.fs (X.env.rootName :: t.path) t.path (step X.env st t).1 := by
  unfold step
  split
  · exact ⟨StagedShrinks.of_eq rfl, FrameT.refl _ _, hrep⟩
  · have hgen : ∀ o, o = t.old →
        StagedShrinks st (match remove X.env st t.path o with
          | (some r, st) => (some r, st)
          | (none, st) => create X.env st t.path t.new).2 ∧
        FrameT st.fs (match remove X.env st t.path o with
          | (some r, st) => (some r, st)
          | (none, st) => create X.env st t.path t.new).2.fs (X.env.rootName :: t.path) ∧
        RepO X (match remove X.env st t.path o with
          | (some r, st) => (some r, st)
          | (none, st) => create X.env st t.path t.new).2.fs (X.env.rootName :: t.path) t.path
          (match remove X.env st t.path o with
          | (some r, st) => (some r, st)
          | (none, st) => create X.env st t.path t.new).1 := by
      intro o ho
      subst ho
      obtain ⟨hs1, hf1, hr1⟩ := remove_exact X hx st t.path t.old hp hrep
      rcases hr : remove X.env st t.path t.old with ⟨r, st1⟩
      rw [hr] at hs1 hf1 hr1
      simp only at hs1 hf1 hr1
      cases r with
      | some e => exact ⟨StagedShrinks.of_eq hs1, hf1, hr1⟩
      | none =>
        obtain ⟨hs2, hf2, hr2⟩ := create_exact X hx st1 t.path t.new hp hg (hH.of_eq hs1) hr1
        exact ⟨(StagedShrinks.of_eq hs1).trans hs2, FrameT.trans hf1 hf2, hr2⟩
    split
    · rename_i o n ho hn
      split
      · rename_i hkinds
        have hko : o.kind = .file := by
          simp only [Bool.and_eq_true, beq_iff_eq] at hkinds; exact hkinds.1
        have hkn : n.kind = .file := by
          simp only [Bool.and_eq_true, beq_iff_eq] at hkinds; exact hkinds.2
        have hrepo : RepAt X st.fs (X.env.rootName :: t.path) t.path o := by rw [ho] at hrep; exact hrep
        obtain ⟨hs, hf, hfail, hok⟩ := swap_exact X hx st t.path o n hp hko hkn (hg n hn) hH hrepo
        rcases hsw : swapFile X.env st t.path o n with ⟨r, st1⟩
        rw [hsw] at hs hf hfail hok
        simp only at hs hf hfail hok
        cases r with
        | some e =>
          exact ⟨fun k f hk => hs k f (by simpa using hk), by simpa using hf, by simpa [RepO] using hfail (by simp)⟩
        | none => exact ⟨hs, hf, hok rfl⟩
      · have := hgen (some o) ho.symm
        rw [hn] at this
        exact this
    · exact hgen t.old rfl

/-! ## The whole plan -/

/-- Neither path is a prefix of the other. -/
def Incomparable (a b : Path) : Prop := ¬ a <+: b ∧ ¬ b <+: a

theorem SameBelow.trans {a b c : Node} {q : List Name} (h1 : SameBelow a b q) (h2 : SameBelow b c q) :
    SameBelow a c q := fun r hr => (h2 r hr).trans (h1 r hr)

theorem SameBelow.refl (a : Node) (q : List Name) : SameBelow a a q := fun _ _ => rfl

theorem cons_prefix_cons_iff {α : Type} (x : α) (a b : List α) : (x :: a) <+: (x :: b) ↔ a <+: b := by
  simp [List.cons_prefix_cons]

/-- Pointwise relation of two lists of the same length. -/
inductive Forall2 {α β : Type} (R : α → β → Prop) : List α → List β → Prop
  | nil : Forall2 R [] []
  | cons {a : α} {b : β} {as : List α} {bs : List β} : R a b → Forall2 R as bs → Forall2 R (a :: as) (b :: bs)

theorem Forall2.get {α β : Type} {R : α → β → Prop} {as : List α} {bs : List β} (h : Forall2 R as bs) :
    ∀ (i : Nat) (a : α) (b : β), as[i]? = some a → bs[i]? = some b → R a b := by
  induction h with
  | nil => intro i a b ha; simp at ha
  | cons hab _ ih =>
    intro i a b ha hb
    cases i with
    | zero => simp at ha hb; subst ha; subst hb; exact hab
    | succ i => simp at ha hb; exact ih i a b ha hb

/-- The hypotheses of exactness about one transition in a state. -/
def StepPre (X : XCtx) (fs : Node) (t : Change) : Prop :=
  TempFree t.path ∧ (∀ e, t.new = some e → GoodNew e) ∧ RepO X fs (X.env.rootName :: t.path) t.path t.old

theorem transition_exact (X : XCtx) (hx : XHyp X) (plan : List Change) :
    ∀ (st : St), Honest X st → (∀ t ∈ plan, StepPre X st.fs t) →
      List.Pairwise (fun a b : Change => Incomparable a.path b.path) plan →
      Forall2 (fun (t : Change) (r : Option Entry) =>
          RepO X (transition X.env st plan).2.fs (X.env.rootName :: t.path) t.path r)
        plan (transition X.env st plan).1 ∧
      (∀ p, TempFree p → (∀ t ∈ plan, Incomparable p t.path) →
        SameBelow st.fs (transition X.env st plan).2.fs (X.env.rootName :: p)) := by
  induction plan with
  | nil =>
    intro st _ _ _
    simp only [transition]
    exact ⟨Forall2.nil, fun p _ _ => SameBelow.refl _ _⟩
  | cons t ts ih =>
    intro st hH hpre hpw
    obtain ⟨hpt, hgt, hrt⟩ := hpre t (by simp)
    obtain ⟨hs1, hf1, hr1⟩ := step_exact X hx st t hpt hgt hH hrt
    rw [List.pairwise_cons] at hpw
    obtain ⟨hinc, hpw'⟩ := hpw
    unfold transition
    rcases hstep : step X.env st t with ⟨r, st1⟩
    rw [hstep] at hs1 hf1 hr1
    simp only at hs1 hf1 hr1
    -- the step leaves every incomparable path alone
    have hother : ∀ p, TempFree p → Incomparable p t.path → SameBelow st.fs st1.fs (X.env.rootName :: p) := by
      intro p hp hi
      apply sameBelow_of_frame st.fs st1.fs (X.env.rootName :: t.path) (X.env.rootName :: p) hf1 (tempFree_root hx hp)
      · rw [cons_prefix_cons_iff]; exact hi.2
      · rw [cons_prefix_cons_iff]; exact hi.1
    have hpre1 : ∀ t' ∈ ts, StepPre X st1.fs t' := by
      intro t' ht'
      obtain ⟨h1, h2, h3⟩ := hpre t' (by simp [ht'])
      refine ⟨h1, h2, repO_same X st.fs st1.fs _ _ _ h3 (hother t'.path h1 ?_)⟩
      have := hinc t' ht'
      exact ⟨this.2, this.1⟩
    obtain ⟨ih1, ih2⟩ := ih st1 (hH.shrinks hs1) hpre1 hpw'
    rcases htr : transition X.env st1 ts with ⟨rs, st2⟩
    rw [htr] at ih1 ih2
    simp only at ih1 ih2
    simp only [htr]
    refine ⟨Forall2.cons ?_ ih1, ?_⟩
    · apply repO_same X st1.fs st2.fs _ _ _ hr1
      exact ih2 t.path hpt (fun t' ht' => hinc t' ht')
    · intro p hp hall
      exact (hother p hp (hall t (by simp))).trans (ih2 p hp (fun t' ht' => hall t' (by simp [ht'])))

end Mutagen.Proofs.FS
