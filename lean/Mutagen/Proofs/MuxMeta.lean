/-
What local actions and deliveries do to the fields of a side that are not
per identifier: configuration, counters, backlog, the closed flag.
-/
import Mutagen.Proofs.MuxSide2
namespace Mutagen.Model.Mux

/-- Configuration and liveness of a side are untouched. -/
structure Meta (s s' : Side) : Prop where
  even : s'.even = s.even
  window : s'.window = s.window
  backlogCap : s'.backlogCap = s.backlogCap
  largestIn : s'.largestIn = s.largestIn
  closedMux : s'.closedMux = s.closedMux
  internalErr : s'.internalErr = s.internalErr

theorem Meta.refl (s : Side) : Meta s s := ⟨rfl, rfl, rfl, rfl, rfl, rfl⟩

theorem Meta.trans {s s' s'' : Side} (h : Meta s s') (h' : Meta s' s'') : Meta s s'' :=
  ⟨h'.even.trans h.even, h'.window.trans h.window, h'.backlogCap.trans h.backlogCap,
   h'.largestIn.trans h.largestIn, h'.closedMux.trans h.closedMux, h'.internalErr.trans h.internalErr⟩

theorem setStream_meta (s : Side) (Y : Nat) (st : Stream) : Meta s (s.setStream Y st) :=
  ⟨rfl, rfl, rfl, rfl, rfl, rfl⟩

theorem enqIncr_meta (s : Side) (Y k : Nat) : Meta s (s.enqIncr Y k) := by
  unfold Side.enqIncr; split <;> exact ⟨rfl, rfl, rfl, rfl, rfl, rfl⟩
theorem enqCW_meta (s : Side) (Y : Nat) : Meta s (s.enqCW Y) := by
  unfold Side.enqCW; split <;> exact ⟨rfl, rfl, rfl, rfl, rfl, rfl⟩
theorem enqClose_meta (s : Side) (Y : Nat) : Meta s (s.enqClose Y) := by
  unfold Side.enqClose; split <;> exact ⟨rfl, rfl, rfl, rfl, rfl, rfl⟩
theorem markClosedWrite_meta (s : Side) (Y : Nat) : Meta s (s.markClosedWrite Y) := by
  unfold Side.markClosedWrite; split <;> exact ⟨rfl, rfl, rfl, rfl, rfl, rfl⟩
theorem markClosed_meta (s : Side) (Y : Nat) : Meta s (s.markClosed Y) := by
  unfold Side.markClosed; split <;> exact ⟨rfl, rfl, rfl, rfl, rfl, rfl⟩
theorem deregister_meta (s : Side) (Y : Nat) : Meta s (s.deregister Y) := by
  unfold Side.deregister; split <;> exact ⟨rfl, rfl, rfl, rfl, rfl, rfl⟩

theorem closeWrite_meta (s : Side) (Y : Nat) (send : Bool) : Meta s (s.closeWrite Y send) := by
  unfold Side.closeWrite
  split
  · split
    · exact Meta.refl s
    · split
      · exact (markClosedWrite_meta s Y).trans (enqCW_meta _ Y)
      · exact markClosedWrite_meta s Y
  · exact Meta.refl s

theorem closeBegin_meta (s : Side) (Y : Nat) (send : Bool) : Meta s (s.closeBegin Y send) := by
  have h1 := closeWrite_meta s Y false
  unfold Side.closeBegin
  cases hs : (s.closeWrite Y false).streams Y with
  | none => simpa [hs] using h1
  | some st =>
    by_cases hc : st.closed = true
    · simpa [hs, hc] using h1
    · cases send
      · simpa [hs, hc] using h1.trans (markClosed_meta _ Y)
      · simpa [hs, hc] using h1.trans ((markClosed_meta _ Y).trans (enqClose_meta _ Y))

theorem close_meta (s : Side) (Y : Nat) (send : Bool) : Meta s (s.close Y send) := by
  unfold Side.close
  split
  · split
    · exact Meta.refl s
    · exact (closeBegin_meta s Y send).trans (deregister_meta _ Y)
  · exact Meta.refl s

/-- The other non-per-identifier fields. -/
structure Counters (s s' : Side) : Prop where
  nextOut : s'.nextOut = s.nextOut
  backlog : s'.backlog = s.backlog

theorem Counters.refl (s : Side) : Counters s s := ⟨rfl, rfl⟩
theorem Counters.trans {s s' s'' : Side} (h : Counters s s') (h' : Counters s' s'') : Counters s s'' :=
  ⟨h'.nextOut.trans h.nextOut, h'.backlog.trans h.backlog⟩

theorem setStream_counters (s : Side) (Y : Nat) (st : Stream) : Counters s (s.setStream Y st) := ⟨rfl, rfl⟩
theorem enqIncr_counters (s : Side) (Y k : Nat) : Counters s (s.enqIncr Y k) := by
  unfold Side.enqIncr; split <;> exact ⟨rfl, rfl⟩
theorem enqCW_counters (s : Side) (Y : Nat) : Counters s (s.enqCW Y) := by
  unfold Side.enqCW; split <;> exact ⟨rfl, rfl⟩
theorem enqClose_counters (s : Side) (Y : Nat) : Counters s (s.enqClose Y) := by
  unfold Side.enqClose; split <;> exact ⟨rfl, rfl⟩
theorem markClosedWrite_counters (s : Side) (Y : Nat) : Counters s (s.markClosedWrite Y) := by
  unfold Side.markClosedWrite; split <;> exact ⟨rfl, rfl⟩
theorem markClosed_counters (s : Side) (Y : Nat) : Counters s (s.markClosed Y) := by
  unfold Side.markClosed; split <;> exact ⟨rfl, rfl⟩
theorem deregister_counters (s : Side) (Y : Nat) : Counters s (s.deregister Y) := by
  unfold Side.deregister; split <;> exact ⟨rfl, rfl⟩

theorem closeWrite_counters (s : Side) (Y : Nat) (send : Bool) : Counters s (s.closeWrite Y send) := by
  unfold Side.closeWrite
  split
  · split
    · exact Counters.refl s
    · split
      · exact (markClosedWrite_counters s Y).trans (enqCW_counters _ Y)
      · exact markClosedWrite_counters s Y
  · exact Counters.refl s

theorem closeBegin_counters (s : Side) (Y : Nat) (send : Bool) : Counters s (s.closeBegin Y send) := by
  have h1 := closeWrite_counters s Y false
  unfold Side.closeBegin
  cases hs : (s.closeWrite Y false).streams Y with
  | none => simpa [hs] using h1
  | some st =>
    by_cases hc : st.closed = true
    · simpa [hs, hc] using h1
    · cases send
      · simpa [hs, hc] using h1.trans (markClosed_counters _ Y)
      · simpa [hs, hc] using h1.trans ((markClosed_counters _ Y).trans (enqClose_counters _ Y))

theorem close_counters (s : Side) (Y : Nat) (send : Bool) : Counters s (s.close Y send) := by
  unfold Side.close
  split
  · split
    · exact Counters.refl s
    · exact (closeBegin_counters s Y send).trans (deregister_counters _ Y)
  · exact Counters.refl s

/-- A local action leaves configuration and liveness alone. -/
theorem act_meta (s : Side) (a : SAct) : Meta s (s.act a).1 := by
  cases a with
  | openStream =>
    simp only [Side.act, Side.openStream]
    split
    · exact Meta.refl s
    · split
      · exact Meta.refl s
      · exact ⟨rfl, rfl, rfl, rfl, rfl, rfl⟩
  | openWait Y c =>
    simp only [Side.act]
    split
    · unfold Side.openWait
      cases hs : s.streams Y with
      | none => exact Meta.refl s
      | some st =>
        simp only
        split
        · exact Meta.refl s
        · split
          · exact close_meta s Y true
          · split
            · exact close_meta s Y true
            · split
              · exact close_meta s Y true
              · exact Meta.refl s
    · exact Meta.refl s
  | accept g =>
    simp only [Side.act, Side.acceptOne]
    cases hb : s.backlog with
    | nil => simp only; split <;> (try split) <;> exact Meta.refl s
    | cons Y rest =>
      simp only
      have h0 : Meta s { s with backlog := rest } := ⟨rfl, rfl, rfl, rfl, rfl, rfl⟩
      split
      · exact h0
      · split
        · exact h0.trans (close_meta _ Y true)
        · exact h0.trans (setStream_meta _ Y _)
  | acceptAbort =>
    simp only [Side.act, Side.acceptAbort]
    cases hb : s.backlog with
    | nil => exact Meta.refl s
    | cons Y rest =>
      have h0 : Meta s { s with backlog := rest } := ⟨rfl, rfl, rfl, rfl, rfl, rfl⟩
      exact h0.trans (close_meta _ Y true)
  | read Y k now =>
    simp only [Side.act]
    split
    · unfold Side.read
      cases hs : s.streams Y with
      | none => exact Meta.refl s
      | some st =>
        simp only
        split
        · exact Meta.refl s
        · split
          · exact Meta.refl s
          · split
            · exact Meta.refl s
            · split
              · exact setStream_meta s Y _
              · split
                · simp only
                  split
                  · exact (setStream_meta s Y _).trans (enqIncr_meta _ Y _)
                  · exact setStream_meta s Y _
                · split <;> exact Meta.refl s
    · exact Meta.refl s
  | writeChunk Y data =>
    simp only [Side.act]
    split
    · unfold Side.writeChunk
      cases hs : s.streams Y with
      | none => exact Meta.refl s
      | some st =>
        simp only
        split
        · exact Meta.refl s
        · exact setStream_meta s Y _
    · exact Meta.refl s
  | closeWrite Y =>
    simp only [Side.act]
    split
    · exact closeWrite_meta s Y true
    · exact Meta.refl s
  | closeBegin Y =>
    simp only [Side.act]
    split
    · exact closeBegin_meta s Y true
    · exact Meta.refl s
  | deregister Y =>
    simp only [Side.act]
    split
    · exact deregister_meta s Y
    · exact Meta.refl s
  | flushIncr Y =>
    simp only [Side.act, Side.flushIncr]
    split <;> exact ⟨rfl, rfl, rfl, rfl, rfl, rfl⟩
  | flushCW Y =>
    simp only [Side.act, Side.flushCW]
    split <;> exact ⟨rfl, rfl, rfl, rfl, rfl, rfl⟩
  | flushClose Y =>
    simp only [Side.act, Side.flushClose]
    split <;> exact ⟨rfl, rfl, rfl, rfl, rfl, rfl⟩
  | setReadDeadline Y d =>
    simp only [Side.act]
    split
    · unfold Side.setReadDeadline
      cases hs : s.streams Y with
      | none => exact Meta.refl s
      | some st => simp only; split <;> exact ⟨rfl, rfl, rfl, rfl, rfl, rfl⟩
    · exact Meta.refl s
  | setWriteDeadline Y d =>
    simp only [Side.act]
    split
    · unfold Side.setWriteDeadline
      cases hs : s.streams Y with
      | none => exact Meta.refl s
      | some st => simp only; split <;> exact ⟨rfl, rfl, rfl, rfl, rfl, rfl⟩
    · exact Meta.refl s

/-- `nextOut` only moves in `openStream`; the backlog only loses its head. -/
theorem act_counters (s : Side) (a : SAct) :
    ((s.act a).1.nextOut = s.nextOut ∨
      (a = .openStream ∧ s.nextOut ≠ 0 ∧ (s.act a).1.nextOut = if maxU64 - s.nextOut < 2 then 0 else s.nextOut + 2)) ∧
    ((s.act a).1.backlog = s.backlog ∨ ∃ Y, s.backlog = Y :: (s.act a).1.backlog) := by
  cases a with
  | openStream =>
    simp only [Side.act, Side.openStream]
    split
    · exact ⟨Or.inl rfl, Or.inl rfl⟩
    · split
      · exact ⟨Or.inl rfl, Or.inl rfl⟩
      · rename_i h1 h2
        exact ⟨Or.inr ⟨trivial, h2, rfl⟩, Or.inl rfl⟩
  | openWait Y c =>
    simp only [Side.act]
    split
    · have : Counters s (s.openWait Y c).1 := by
        unfold Side.openWait
        cases hs : s.streams Y with
        | none => exact Counters.refl s
        | some st =>
          simp only
          split
          · exact Counters.refl s
          · split
            · exact close_counters s Y true
            · split
              · exact close_counters s Y true
              · split
                · exact close_counters s Y true
                · exact Counters.refl s
      exact ⟨Or.inl this.nextOut, Or.inl this.backlog⟩
    · exact ⟨Or.inl rfl, Or.inl rfl⟩
  | accept g =>
    simp only [Side.act, Side.acceptOne]
    cases hb : s.backlog with
    | nil => simp only; split <;> (try split) <;> exact ⟨Or.inl rfl, Or.inl hb⟩
    | cons Y rest =>
      simp only
      split
      · exact ⟨Or.inl rfl, Or.inr ⟨Y, rfl⟩⟩
      · split
        · have := close_counters ({ s with backlog := rest }) Y true
          exact ⟨Or.inl this.nextOut, Or.inr ⟨Y, by rw [this.backlog]⟩⟩
        · exact ⟨Or.inl rfl, Or.inr ⟨Y, rfl⟩⟩
  | acceptAbort =>
    simp only [Side.act, Side.acceptAbort]
    cases hb : s.backlog with
    | nil => exact ⟨Or.inl rfl, Or.inl hb⟩
    | cons Y rest =>
      have := close_counters ({ s with backlog := rest }) Y true
      exact ⟨Or.inl this.nextOut, Or.inr ⟨Y, by rw [this.backlog]⟩⟩
  | read Y k now =>
    simp only [Side.act]
    split
    · have : Counters s (s.read Y k now).1 := by
        unfold Side.read
        cases hs : s.streams Y with
        | none => exact Counters.refl s
        | some st =>
          simp only
          split
          · exact Counters.refl s
          · split
            · exact Counters.refl s
            · split
              · exact Counters.refl s
              · split
                · exact setStream_counters s Y _
                · split
                  · simp only
                    split
                    · exact (setStream_counters s Y _).trans (enqIncr_counters _ Y _)
                    · exact setStream_counters s Y _
                  · split <;> exact Counters.refl s
      exact ⟨Or.inl this.nextOut, Or.inl this.backlog⟩
    · exact ⟨Or.inl rfl, Or.inl rfl⟩
  | writeChunk Y data =>
    simp only [Side.act]
    split
    · have : Counters s (s.writeChunk Y data).1 := by
        unfold Side.writeChunk
        cases hs : s.streams Y with
        | none => exact Counters.refl s
        | some st =>
          simp only
          split
          · exact Counters.refl s
          · exact setStream_counters s Y _
      exact ⟨Or.inl this.nextOut, Or.inl this.backlog⟩
    · exact ⟨Or.inl rfl, Or.inl rfl⟩
  | closeWrite Y =>
    simp only [Side.act]
    split
    · have := closeWrite_counters s Y true
      exact ⟨Or.inl this.nextOut, Or.inl this.backlog⟩
    · exact ⟨Or.inl rfl, Or.inl rfl⟩
  | closeBegin Y =>
    simp only [Side.act]
    split
    · have := closeBegin_counters s Y true
      exact ⟨Or.inl this.nextOut, Or.inl this.backlog⟩
    · exact ⟨Or.inl rfl, Or.inl rfl⟩
  | deregister Y =>
    simp only [Side.act]
    split
    · have := deregister_counters s Y
      exact ⟨Or.inl this.nextOut, Or.inl this.backlog⟩
    · exact ⟨Or.inl rfl, Or.inl rfl⟩
  | flushIncr Y =>
    simp only [Side.act, Side.flushIncr]
    split <;> exact ⟨Or.inl rfl, Or.inl rfl⟩
  | flushCW Y =>
    simp only [Side.act, Side.flushCW]
    split <;> exact ⟨Or.inl rfl, Or.inl rfl⟩
  | flushClose Y =>
    simp only [Side.act, Side.flushClose]
    split <;> exact ⟨Or.inl rfl, Or.inl rfl⟩
  | setReadDeadline Y d =>
    simp only [Side.act]
    split
    · have : Counters s (s.setReadDeadline Y d).1 := by
        unfold Side.setReadDeadline
        cases hs : s.streams Y with
        | none => exact Counters.refl s
        | some st => simp only; split <;> exact ⟨rfl, rfl⟩
      exact ⟨Or.inl this.nextOut, Or.inl this.backlog⟩
    · exact ⟨Or.inl rfl, Or.inl rfl⟩
  | setWriteDeadline Y d =>
    simp only [Side.act]
    split
    · have : Counters s (s.setWriteDeadline Y d).1 := by
        unfold Side.setWriteDeadline
        cases hs : s.streams Y with
        | none => exact Counters.refl s
        | some st => simp only; split <;> exact ⟨rfl, rfl⟩
      exact ⟨Or.inl this.nextOut, Or.inl this.backlog⟩
    · exact ⟨Or.inl rfl, Or.inl rfl⟩

/-- The messages a local action emits: never a heartbeat; an open only from
`openStream`, carrying the identifier `nextOut`. -/
theorem act_msgs (s : Side) (a : SAct) :
    Msg.heartbeat ∉ (s.act a).2 ∧
    ∀ id win, Msg.open id win ∈ (s.act a).2 →
      a = .openStream ∧ s.nextOut ≠ 0 ∧ id = s.nextOut ∧ (s.act a).2 = [.open id win] := by
  cases a with
  | openStream =>
    simp only [Side.act, Side.openStream]
    split
    · simp
    · split
      · simp
      · rename_i h1 h2
        refine ⟨by simp, ?_⟩
        intro id win hm
        simp only [List.mem_singleton, Msg.open.injEq] at hm
        obtain ⟨rfl, rfl⟩ := hm
        exact ⟨trivial, h2, rfl, rfl⟩
  | openWait Y c => simp only [Side.act]; split <;> simp
  | accept g =>
    simp only [Side.act, Side.acceptOne]
    cases hb : s.backlog with
    | nil => simp only; split <;> (try split) <;> simp
    | cons Y rest =>
      simp only
      split
      · simp
      · split <;> simp
  | acceptAbort => simp [Side.act]
  | read Y k now => simp only [Side.act]; split <;> simp
  | writeChunk Y data =>
    simp only [Side.act]
    split
    · unfold Side.writeChunk
      cases hs : s.streams Y with
      | none => simp
      | some st => simp only; split <;> simp
    · simp
  | closeWrite Y => simp only [Side.act]; split <;> simp
  | closeBegin Y => simp only [Side.act]; split <;> simp
  | deregister Y => simp only [Side.act]; split <;> simp
  | flushIncr Y => simp only [Side.act, Side.flushIncr]; split <;> simp
  | flushCW Y => simp only [Side.act, Side.flushCW]; split <;> simp
  | flushClose Y => simp only [Side.act, Side.flushClose]; split <;> simp
  | setReadDeadline Y d => simp only [Side.act]; split <;> simp
  | setWriteDeadline Y d => simp only [Side.act]; split <;> simp

end Mutagen.Model.Mux
