import Mutagen.Model.Framing
import Mathlib.Tactic.Ring
/-!
Helper definitions and lemmas for `Mutagen.Properties.C22`.

The chunked reader model is refined to a *flat* specification on plain byte
strings (`…F` functions): every reader operation of the model commutes with
`flatten`. Fragmentation independence is then immediate, and the round-trip
theorems are proved once, on the flat specification.
-/
set_option linter.unusedSimpArgs false
namespace Mutagen.Proofs.Framing
open Mutagen.Model.Framing

-- Flat specification ------------------------------------------------------------

def readUvarintF : Nat → Nat → Nat → Nat → Bytes → Bytes × Except ReadErr Nat
  | 0, _, _, _, bs => (bs, .error .overflow)
  | fuel + 1, i, x, s, bs =>
    match bs with
    | [] => ([], .error (if i > 0 then .ueof else .eof))
    | b :: rest =>
      if b.toNat < 0x80 then
        if i = maxVarintLen64 - 1 ∧ b.toNat > 1 then (rest, .error .overflow)
        else (rest, .ok (x + b.toNat * 2 ^ s))
      else readUvarintF fuel (i + 1) (x + (b.toNat % 128) * 2 ^ s) (s + 7) rest

def readFullF (bs : Bytes) (n : Nat) : Bytes × Except ReadErr Bytes :=
  if (bs.take n).length = n then (bs.drop n, .ok (bs.take n))
  else if (bs.take n).length = 0 then (bs.drop n, .error .eof)
  else (bs.drop n, .error .ueof)

def decodeF {α : Type} (unmarshal : Bytes → Option α) (bs : Bytes) : Bytes × Except DecErr α :=
  match readUvarintF maxVarintLen64 0 0 0 bs with
  | (bs, .error .eof) => (bs, .error .lenEof)
  | (bs, .error .ueof) => (bs, .error .lenUeof)
  | (bs, .error .overflow) => (bs, .error .lenOverflow)
  | (bs, .ok length) =>
    if length > maxMessageSize then (bs, .error .tooLarge) else
    match readFullF bs length with
    | (bs, .error .eof) => (bs, .error .msgEof)
    | (bs, .error _) => (bs, .error .msgUeof)
    | (bs, .ok messageBytes) =>
      match unmarshal messageBytes with
      | none => (bs, .error .unmarshal)
      | some m => (bs, .ok m)

def decodeManyF {α : Type} (unmarshal : Bytes → Option α) : Nat → Bytes → List α → List α × DecErr × Bytes
  | 0, bs, acc => (acc.reverse, .lenEof, bs)
  | fuel + 1, bs, acc =>
    match decodeF unmarshal bs with
    | (bs', .ok m) => decodeManyF unmarshal fuel bs' (m :: acc)
    | (bs', .error e) => (acc.reverse, e, bs')

def decodeAllF {α : Type} (unmarshal : Bytes → Option α) (bs : Bytes) : List α × DecErr × Bytes :=
  decodeManyF unmarshal (bs.length + 1) bs []

-- Refinement: chunked model → flat specification -----------------------------------

theorem readByteL_flat (cs : List Bytes) :
    match readByteL cs with
    | none => cs.flatten = []
    | some (b, cs') => cs.flatten = b :: cs'.flatten := by
  induction cs with
  | nil => simp [readByteL]
  | cons c cs ih =>
    cases c with
    | nil => simpa [readByteL] using ih
    | cons b c => simp [readByteL]

theorem readUvarintLoop_flat (fuel i x s : Nat) (cs : List Bytes) :
    ((readUvarintLoop fuel i x s ⟨cs⟩).1.chunks.flatten, (readUvarintLoop fuel i x s ⟨cs⟩).2)
      = readUvarintF fuel i x s cs.flatten := by
  induction fuel generalizing i x s cs with
  | zero => simp [readUvarintLoop, readUvarintF]
  | succ fuel ih =>
    have hb := readByteL_flat cs
    simp only [readUvarintLoop, Src.readByte]
    cases h : readByteL cs with
    | none =>
      rw [h] at hb
      simp [hb, readUvarintF]
    | some p =>
      obtain ⟨b, cs'⟩ := p
      rw [h] at hb
      simp only [Option.map_some, hb, readUvarintF]
      by_cases h1 : b.toNat < 0x80
      · by_cases h2 : i = maxVarintLen64 - 1 ∧ b.toNat > 1 <;> simp [h1, h2]
      · simp only [h1, if_false]
        exact ih (i + 1) _ _ cs'

theorem readFullL_flat (cs : List Bytes) (n : Nat) :
    (readFullL cs n).1 = cs.flatten.take n ∧ (readFullL cs n).2.flatten = cs.flatten.drop n := by
  induction cs generalizing n with
  | nil => simp [readFullL]
  | cons c cs ih =>
    simp only [readFullL]
    by_cases h0 : n = 0
    · simp [h0]
    · by_cases h1 : c.length ≤ n
      · have := ih (n - c.length)
        simp only [h0, h1, if_true, if_false, List.flatten_cons]
        rw [List.take_append, List.drop_append]
        simp [this.1, this.2, List.take_of_length_le h1, List.drop_of_length_le h1]
      · have h2 : n ≤ c.length := by omega
        simp only [h0, h1, if_false, List.flatten_cons]
        rw [List.take_append_of_le_length h2, List.drop_append_of_le_length h2]
        simp

theorem readFull_flat (cs : List Bytes) (n : Nat) :
    ((Src.readFull ⟨cs⟩ n).1.chunks.flatten, (Src.readFull ⟨cs⟩ n).2) = readFullF cs.flatten n := by
  have h := readFullL_flat cs n
  simp only [Src.readFull, readFullF]
  rw [← h.1, ← h.2]
  cases hr : readFullL cs n with
  | mk got rest =>
    by_cases a : got.length = n
    · simp [a]
    · by_cases b : got.length = 0
      · have : ¬ 0 = n := fun e => a (by omega)
        simp [a, b, this]
      · simp [a, b]

theorem decode_flat {α : Type} (um : Bytes → Option α) (cs : List Bytes) :
    ((decode um ⟨cs⟩).1.chunks.flatten, (decode um ⟨cs⟩).2) = decodeF um cs.flatten := by
  have h := readUvarintLoop_flat maxVarintLen64 0 0 0 cs
  simp only [decode, decodeF, readUvarint]
  rw [← h]
  cases hr : readUvarintLoop maxVarintLen64 0 0 0 ⟨cs⟩ with
  | mk src res =>
    obtain ⟨cs'⟩ := src
    cases res with
    | error e => cases e <;> simp
    | ok len =>
      simp only []
      by_cases hl : len > maxMessageSize
      · simp [hl]
      · simp only [hl, if_false]
        have h2 := readFull_flat cs' len
        rw [← h2]
        cases hf : Src.readFull ⟨cs'⟩ len with
        | mk src2 res2 =>
          cases res2 with
          | error e => cases e <;> simp
          | ok mb =>
            simp only []
            cases um mb <;> simp

theorem decodeMany_flat {α : Type} (um : Bytes → Option α) (fuel : Nat) (cs : List Bytes) (acc : List α) :
    let r := decodeMany um fuel ⟨cs⟩ acc
    (r.1, r.2.1, r.2.2.chunks.flatten) = decodeManyF um fuel cs.flatten acc := by
  induction fuel generalizing cs acc with
  | zero => simp [decodeMany, decodeManyF]
  | succ fuel ih =>
    have h := decode_flat um cs
    simp only [decodeMany, decodeManyF]
    rw [← h]
    cases hd : decode um ⟨cs⟩ with
    | mk src res =>
      obtain ⟨cs'⟩ := src
      cases res with
      | error e => simp
      | ok m => simpa using ih cs' (m :: acc)

theorem decodeAll_flat {α : Type} (um : Bytes → Option α) (cs : List Bytes) :
    let r := decodeAll um ⟨cs⟩
    (r.1, r.2.1, r.2.2.chunks.flatten) = decodeAllF um cs.flatten := by
  simpa [decodeAll, decodeAllF, Src.size] using decodeMany_flat um (cs.flatten.length + 1) cs []

def decodeNF {α : Type} (unmarshal : Bytes → Option α) : Nat → Bytes → List α → List α × Option DecErr × Bytes
  | 0, bs, acc => (acc.reverse, none, bs)
  | n + 1, bs, acc =>
    match decodeF unmarshal bs with
    | (bs', .ok m) => decodeNF unmarshal n bs' (m :: acc)
    | (bs', .error e) => (acc.reverse, some e, bs')

theorem decodeN_flat {α : Type} (um : Bytes → Option α) (n : Nat) (cs : List Bytes) (acc : List α) :
    let r := decodeN um n ⟨cs⟩ acc
    (r.1, r.2.1, r.2.2.chunks.flatten) = decodeNF um n cs.flatten acc := by
  induction n generalizing cs acc with
  | zero => simp [decodeN, decodeNF]
  | succ n ih =>
    have h := decode_flat um cs
    simp only [decodeN, decodeNF]
    rw [← h]
    cases hd : decode um ⟨cs⟩ with
    | mk src res =>
      obtain ⟨cs'⟩ := src
      cases res with
      | error e => simp
      | ok m => simpa using ih cs' (m :: acc)

-- The flat specification inverts the encoder ----------------------------------------

theorem readUvarintF_append (v : Nat) : ∀ (i x : Nat) (tail : Bytes), i < 10 → v < 2 ^ (64 - 7 * i) →
    readUvarintF (10 - i) i x (7 * i) (appendVarint v ++ tail) = (tail, .ok (x + v * 2 ^ (7 * i))) := by
  induction v using Nat.strongRecOn with
  | _ v ih =>
    intro i x tail hi hv
    obtain ⟨f, hf⟩ : ∃ f, 10 - i = f + 1 := ⟨9 - i, by omega⟩
    rw [appendVarint]
    by_cases h : v < 128
    · have hb : (UInt8.ofNat v).toNat = v := by simp; omega
      have h9 : ¬ (i = maxVarintLen64 - 1 ∧ v > 1) := by
        rintro ⟨e, g⟩
        simp [maxVarintLen64] at e
        subst e
        simp at hv
        omega
      simp [h, hf, readUvarintF, hb, h9]
    · have hb : (UInt8.ofNat (v % 128 + 128)).toNat = v % 128 + 128 := by simp; omega
      have hi' : i + 1 < 10 := by
        by_contra hc
        have : i = 9 := by omega
        subst this
        simp at hv
        omega
      have hv' : v / 128 < 2 ^ (64 - 7 * (i + 1)) := by
        have : 2 ^ (64 - 7 * i) = 128 * 2 ^ (64 - 7 * (i + 1)) := by
          rw [show 64 - 7 * i = (64 - 7 * (i + 1)) + 7 by omega, pow_add]; ring
        rw [this] at hv
        exact Nat.div_lt_of_lt_mul hv
      have hf' : f = 10 - (i + 1) := by omega
      have := ih (v / 128) (by omega) (i + 1) (x + (v % 128) * 2 ^ (7 * i)) tail hi' hv'
      simp only [h, dite_false, hf, List.cons_append, readUvarintF, hb]
      have hge : ¬ (v % 128 + 128 < 0x80) := by omega
      simp only [hge, if_false]
      rw [hf', show 7 * i + 7 = 7 * (i + 1) by ring, show (v % 128 + 128) % 128 = v % 128 by omega, this]
      congr 2
      have e := Nat.div_add_mod v 128
      rw [show 7 * (i + 1) = 7 * i + 7 by ring, pow_add]
      calc x + v % 128 * 2 ^ (7 * i) + v / 128 * (2 ^ (7 * i) * 2 ^ 7)
          = x + (128 * (v / 128) + v % 128) * 2 ^ (7 * i) := by ring
        _ = x + v * 2 ^ (7 * i) := by rw [e]

theorem maxMessageSize_lt : maxMessageSize < 2 ^ 64 := by decide

theorem readUvarintF_varint (v : Nat) (tail : Bytes) (hv : v < 2 ^ 64) :
    readUvarintF maxVarintLen64 0 0 0 (appendVarint v ++ tail) = (tail, .ok v) := by
  simpa [maxVarintLen64] using readUvarintF_append v 0 0 tail (by omega) (by simpa using hv)

theorem readFullF_append (p tail : Bytes) : readFullF (p ++ tail) p.length = (tail, .ok p) := by
  simp [readFullF]

theorem decodeF_frame {α : Type} (um : Bytes → Option α) (p tail : Bytes) (m : α)
    (hum : um p = some m) (hl : p.length ≤ maxMessageSize) :
    decodeF um (frame p ++ tail) = (tail, .ok m) := by
  have hv : p.length < 2 ^ 64 := Nat.lt_of_le_of_lt hl maxMessageSize_lt
  simp only [decodeF, frame, List.append_assoc, readUvarintF_varint _ _ hv]
  simp [Nat.not_lt.mpr hl, readFullF_append, hum]

theorem decodeF_nil {α : Type} (um : Bytes → Option α) : decodeF um [] = ([], .error .lenEof) := by
  simp [decodeF, readUvarintF, maxVarintLen64]

/-- The byte stream produced by encoding the messages one after the other. -/
def frames {α : Type} (marshal : α → Bytes) (ms : List α) : Bytes :=
  (ms.map fun m => frame (marshal m)).flatten

/-- `unmarshal` inverts `marshal` on these messages and none exceeds the size limit. -/
def Codec {α : Type} (marshal : α → Bytes) (um : Bytes → Option α) (ms : List α) : Prop :=
  ∀ m ∈ ms, um (marshal m) = some m ∧ (marshal m).length ≤ maxMessageSize

theorem frames_cons {α : Type} (marshal : α → Bytes) (m : α) (ms : List α) :
    frames marshal (m :: ms) = frame (marshal m) ++ frames marshal ms := by
  simp [frames]

theorem frames_append {α : Type} (marshal : α → Bytes) (a b : List α) :
    frames marshal (a ++ b) = frames marshal a ++ frames marshal b := by
  simp [frames]

theorem appendVarint_length_pos (v : Nat) : 1 ≤ (appendVarint v).length := by
  rw [appendVarint]; split <;> simp

theorem frames_length_ge {α : Type} (marshal : α → Bytes) (ms : List α) :
    ms.length ≤ (frames marshal ms).length := by
  induction ms with
  | nil => simp [frames]
  | cons m ms ih =>
    rw [frames_cons]
    have := appendVarint_length_pos (marshal m).length
    simp [frame]; omega

theorem decodeNF_frames {α : Type} (marshal : α → Bytes) (um : Bytes → Option α) (ms : List α)
    (tail : Bytes) (acc : List α) (hc : Codec marshal um ms) :
    decodeNF um ms.length (frames marshal ms ++ tail) acc = (acc.reverse ++ ms, none, tail) := by
  induction ms generalizing acc with
  | nil => simp [decodeNF, frames]
  | cons m ms ih =>
    have hm := hc m (by simp)
    have hc' : Codec marshal um ms := fun x hx => hc x (by simp [hx])
    simp only [List.length_cons, decodeNF, frames_cons, List.append_assoc,
      decodeF_frame um _ _ m hm.1 hm.2]
    rw [ih (m :: acc) hc']
    simp

theorem decodeManyF_frames {α : Type} (marshal : α → Bytes) (um : Bytes → Option α) (ms : List α)
    (k : Nat) (tail : Bytes) (acc : List α) (hc : Codec marshal um ms) :
    decodeManyF um (ms.length + k) (frames marshal ms ++ tail) acc
      = decodeManyF um k tail (ms.reverse ++ acc) := by
  induction ms generalizing acc with
  | nil => simp [frames]
  | cons m ms ih =>
    have hm := hc m (by simp)
    have hc' : Codec marshal um ms := fun x hx => hc x (by simp [hx])
    rw [show (m :: ms).length + k = (ms.length + k) + 1 by simp; omega]
    simp only [decodeManyF, frames_cons, List.append_assoc, decodeF_frame um _ _ m hm.1 hm.2]
    rw [ih (m :: acc) hc']
    simp

theorem decodeAllF_frames {α : Type} (marshal : α → Bytes) (um : Bytes → Option α) (ms : List α)
    (hc : Codec marshal um ms) :
    decodeAllF um (frames marshal ms) = (ms, .lenEof, []) := by
  have hge := frames_length_ge marshal ms
  obtain ⟨k, hk⟩ : ∃ k, (frames marshal ms).length + 1 = ms.length + (k + 1) :=
    ⟨(frames marshal ms).length - ms.length, by omega⟩
  have := decodeManyF_frames marshal um ms (k + 1) [] [] hc
  simp only [List.append_nil] at this
  rw [decodeAllF, hk, this]
  simp [decodeManyF, decodeF_nil]

-- The outbound pipeline ------------------------------------------------------------------

/-- What the sending side does: encode a message into the top of the pipeline, or
flush it with the multi-flusher. -/
inductive Op (α : Type) | encode (m : α) | flush

def step {α : Type} (marshal : α → Bytes) (p : TxPipe) : Op α → TxPipe
  | .encode m => p.write (frame (marshal m))
  | .flush => p.flush.1

def run {α : Type} (marshal : α → Bytes) (p : TxPipe) (ops : List (Op α)) : TxPipe :=
  ops.foldl (step marshal) p

/-- The messages encoded by a script, in order. -/
def encoded {α : Type} : List (Op α) → List α
  | [] => []
  | .encode m :: ops => m :: encoded ops
  | .flush :: ops => encoded ops

theorem flush_eq (p : TxPipe) :
    p.flush = ({ outbound := [], compressor := [], compressedOutbound := [],
                 wire := p.wire ++ p.pending }, none) := by
  simp [TxPipe.flush, multiFlush, flushOutbound, flushCompressor, flushCompressedOutbound, TxPipe.pending]

/-- Nothing is lost or reordered: delivered bytes followed by buffered bytes are
always exactly what was written. -/
theorem run_conserves {α : Type} (marshal : α → Bytes) (ops : List (Op α)) (p : TxPipe) :
    (run marshal p ops).wire ++ (run marshal p ops).pending
      = p.wire ++ p.pending ++ frames marshal (encoded ops) := by
  induction ops generalizing p with
  | nil => simp [run, encoded, frames]
  | cons op ops ih =>
    have := ih (step marshal p op)
    simp only [run, List.foldl_cons] at this ⊢
    rw [this]
    cases op with
    | encode m => simp [step, TxPipe.write, TxPipe.pending, encoded, frames_cons]
    | flush => simp [step, flush_eq, TxPipe.pending, encoded]

theorem multiFlush_append_ok {σ ε : Type} (fs₁ fs₂ : List (σ → σ × Option ε)) (s t : σ)
    (h : multiFlush fs₁ s = (t, none)) : multiFlush (fs₁ ++ fs₂) s = multiFlush fs₂ t := by
  induction fs₁ generalizing s with
  | nil => simp [multiFlush] at h; simp [h]
  | cons f fs ih =>
    simp only [List.cons_append, multiFlush] at h ⊢
    cases hf : f s with
    | mk s' r =>
      cases r with
      | some e => simp [hf] at h
      | none => simp only [hf] at h ⊢; exact ih s' h

end Mutagen.Proofs.Framing
