import Mutagen.Proofs.ReconcileShape
import Mutagen.Model.SyncCycle
import Mutagen.Proofs.Executability
/-!
Lemmas for `Properties/C11`: changes below the root leave the root's
existence and kind alone; the changes `Reconcile` plans at the root path.
-/
namespace Mutagen.Proofs.RootSafety
open Mutagen.Model Mutagen.Proofs.ReconcileShape Mutagen.Proofs.Executability

/-- Existence and scalar fields. -/
def oprops (e : Option Entry) : Option Props := e.map Entry.props

theorem shallowEq_iff (a b : Option Entry) : shallowEq a b = true ↔ oprops a = oprops b := by
  cases a <;> cases b <;> simp [shallowEq, oprops]

theorem diff_isEmpty_props {path : Path} {x y : Option Entry} (h : (diff path x y).isEmpty = true) :
    oprops y = oprops x := by
  rw [diff] at h
  by_cases hs : shallowEq y x = true
  · exact (shallowEq_iff y x).mp hs
  · simp [hs] at h

theorem diff_nil_props {path : Path} {x y : Option Entry} (h : diff path x y = []) :
    oprops y = oprops x := diff_isEmpty_props (path := path) (by rw [h]; rfl)

/-- The change `handleDisagreement` plans for an endpoint (if any) is the only
one, and its `Old` has the existence and scalar fields of that endpoint's
content at the node. -/
theorem handleDisagreement_old (mode : Mode) (path : Path) (a α β : Option Entry) (toAlpha : Bool)
    (c : Change) (hc : c ∈ side toAlpha (handleDisagreement mode path a α β)) :
    side toAlpha (handleDisagreement mode path a α β) = [c] ∧
      oprops c.old = oprops (if toAlpha then α else β) := by
  cases toAlpha <;> cases mode <;>
    simp only [side, handleDisagreement, handleBidirectional, handleOneWaySafe, handleOneWayReplica,
      Bool.false_eq_true, if_false, if_true] at hc ⊢ <;>
    (repeat' split at hc) <;>
    simp_all [Plan.conflict, Plan.betaChange, Plan.alphaChange, Plan.ancChange]
  all_goals
    first
      | exact (diff_nil_props (by assumption)).symm
      | exact ((diff_nil_props (by assumption)).symm.trans (diff_nil_props (by assumption)).symm)

/-! ## `Apply` below the root -/

theorem applyAt_props (new : Option Entry) (e : Entry) (n : Name) (rest : List Name) (e' : Entry)
    (h : e.applyAt new n rest = .ok e') : e'.props = e.props := by
  obtain ⟨p, cs⟩ := e
  cases rest with
  | nil =>
    cases new <;> simp [Entry.applyAt] at h <;> subst h <;> rfl
  | cons m rest =>
    simp only [Entry.applyAt] at h
    split at h
    · simp at h
    · split at h
      · simp at h
      · simp at h; subst h; rfl

/-- A change below the root neither deletes nor retypes the root. -/
theorem applyChange_nonroot (r r' : Option Entry) (c : Change) (hp : c.path ≠ [])
    (h : applyChange r c = .ok r') : oprops r' = oprops r ∧ r.isSome = true := by
  unfold applyChange at h
  cases hpath : c.path with
  | nil => exact absurd hpath hp
  | cons n rest =>
    simp only [hpath] at h
    cases r with
    | none => simp at h
    | some e =>
      simp only at h
      split at h
      · simp at h
      · rename_i e' he
        simp at h; subst h
        exact ⟨by simp [oprops, applyAt_props _ _ _ _ _ he], rfl⟩

theorem apply_nonroot (cs : List Change) (hp : ∀ c ∈ cs, c.path ≠ []) :
    ∀ (r r' : Option Entry), apply r cs = .ok r' → oprops r' = oprops r := by
  induction cs with
  | nil => intro r r' h; simp [apply] at h; subst h; rfl
  | cons c cs ih =>
    intro r r' h
    simp only [apply] at h
    split at h
    · simp at h
    · rename_i r1 h1
      have := applyChange_nonroot r r1 c (hp c (List.mem_cons_self ..)) h1
      rw [ih (fun c hc => hp c (List.mem_cons_of_mem _ hc)) r1 r' h, this.1]

/-- The changes planned for one endpoint at the top level: none, or all below
the root, or a single change at the root whose `Old` has the existence and
scalar fields of the endpoint's root. -/
theorem reconcile_root_cases (mode : Mode) (A α β : Option Entry) (toAlpha : Bool) :
    (∀ c ∈ side toAlpha (reconcile mode [] A α β), c.path ≠ []) ∨
    (∃ c, side toAlpha (reconcile mode [] A α β) = [c] ∧ c.path = [] ∧
      oprops c.old = oprops (if toAlpha then α else β)) := by
  by_cases h1 : isKind α .problematic = true
  · left; intro c hc; rw [reconcile] at hc; cases toAlpha <;> simp [h1, side] at hc
  by_cases h2 : isKind β .problematic = true
  · left; intro c hc; rw [reconcile] at hc; cases toAlpha <;> simp [h1, h2, side] at hc
  by_cases h3 : bothAbsent α β = true
  · left; intro c hc; rw [reconcile] at hc
    simp only [bothAbsent] at h3
    cases toAlpha <;> simp only [h1, h2, h3, side, if_true, if_false, Bool.false_eq_true] at hc <;>
      split at hc <;> simp [Plan.ancChange] at hc
  have h1' := eq_false_of_ne_true h1
  have h2' := eq_false_of_ne_true h2
  have h3' := eq_false_of_ne_true h3
  by_cases h4 : shallowEq α β = true
  · left
    intro c hc
    rw [reconcile_rec mode [] A α β h1' h2' h3' h4] at hc
    have hhere : side toAlpha (if !shallowEq A α then Plan.ancChange { path := [], new := ocopy .slim α } else {}) = [] := by
      cases toAlpha <;> simp [side] <;> split <;> simp [Plan.ancChange]
    have : c ∈ side toAlpha (Plan.concat ((nameUnion [contents (ancestorForRecursion A α), contents α, contents β]).map fun n =>
        reconcile mode ([] ++ [n]) (lookup n (contents (ancestorForRecursion A α)))
          (lookup n (contents α)) (lookup n (contents β)))) := by
      cases toAlpha <;> simp only [side, append_alpha, append_beta, Bool.false_eq_true, if_false, if_true] at hc hhere ⊢ <;>
        (rw [hhere, List.nil_append] at hc; exact hc)
    obtain ⟨p, hp, hcp⟩ := (mem_concat_side toAlpha _ c).mp this
    obtain ⟨n, hn, rfl⟩ := List.mem_map.mp hp
    have hpre := reconcile_path_prefix mode toAlpha _ _ _ _ c hcp
    intro he
    rw [he] at hpre
    simp at hpre
  · have h4' := eq_false_of_ne_true h4
    rw [reconcile_disagree mode [] A α β h1' h2' h3' h4']
    cases hs : side toAlpha (handleDisagreement mode [] A α β) with
    | nil => left; intro c hc; simp at hc
    | cons c rest =>
      right
      have hc : c ∈ side toAlpha (handleDisagreement mode [] A α β) := by rw [hs]; exact List.mem_cons_self ..
      obtain ⟨h5, h6⟩ := handleDisagreement_old mode [] A α β toAlpha c hc
      exact ⟨c, by rw [← hs, h5], handleDisagreement_path mode [] A α β toAlpha c hc, h6⟩

/-! ## Executability propagation and the emptied-root check -/

theorem isKind_propagate (A S x : Option Entry) (k : Kind) :
    isKind (propagateExecutability A S x) k = isKind x k := by
  cases x with
  | none => rfl
  | some e =>
    obtain ⟨p, cs⟩ := e
    simp only [propagateExecutability, isKind, Entry.kind, propagate_props]
    split <;> rfl

theorem length_propagateL (ac sc cs : Contents) : (Entry.propagateL ac sc cs).length = cs.length := by
  have := congrArg List.length (keys_propagateL ac sc cs)
  simpa [keys] using this

theorem contents_length_propagate (A S x : Option Entry) :
    (contents (propagateExecutability A S x)).length = (contents x).length := by
  cases x with
  | none => rfl
  | some e =>
    obtain ⟨p, cs⟩ := e
    show ((Entry.mk p cs).propagate A S).children.length = cs.length
    rw [propagate_children]
    split
    · exact length_propagateL _ _ _
    · rfl

/-- Executability propagation does not affect the emptied-root check. -/
theorem emptied_check_ignores_propagation (portable : Bool) (A : Option Entry) (α β : Scan) :
    oneEndpointEmptiedRoot A (propagateStep portable A α β).1 (propagateStep portable A α β).2 =
      oneEndpointEmptiedRoot A α.content β.content := by
  unfold propagateStep
  split
  · split
    · simp only [oneEndpointEmptiedRoot, isKind_propagate, contents_length_propagate]
    · split
      · simp only [oneEndpointEmptiedRoot, isKind_propagate, contents_length_propagate]
      · rfl
  · rfl

end Mutagen.Proofs.RootSafety
