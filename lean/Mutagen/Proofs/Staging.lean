import Mutagen.Model.Staging
/-!
Helper lemmas about the staging model (for `Mutagen.Properties.C41`).
-/
namespace Mutagen.Proofs.Staging
open Mutagen.Model.Staging

/-- The digest under which a copy from the root would be committed: the
*current* content of the cached path the reverse lookup map holds for `k`. -/
def copied (root : Children) (cache : List (String × Nat)) (hint : Nat → Option String) (k : Nat) : Option Nat :=
  match lookupDigest cache hint k with
  | none => none
  | some src =>
    match nodeAt root src with
    | some (.file k') => some k'
    | _ => none

/-- Content is available without transfer: already staged for this path, or a
file with this digest is known to the cache *and still has that digest*. -/
def avail (root : Children) (cache : List (String × Nat)) (hint : Nat → Option String)
    (store : List (String × Nat)) (p : String) (k : Nat) : Bool :=
  staged store p k || copied root cache hint k == some k

theorem staged_cons (st : List (String × Nat)) (q : String) (kq : Nat) (p : String) (k : Nat) :
    staged ((q, kq) :: st) p k = ((q == p && kq == k) || staged st p k) := by
  simp [staged]

theorem stageFromRoot_eq (root : Children) (cache : List (String × Nat)) (hint : Nat → Option String)
    (store : List (String × Nat)) (p : String) (k : Nat) :
    stageFromRoot root cache hint store p k =
      match copied root cache hint k with
      | none => (store, false)
      | some k' => ((p, k') :: store, staged ((p, k') :: store) p k) := by
  unfold stageFromRoot copied
  cases h1 : lookupDigest cache hint k with
  | none => rfl
  | some src =>
    simp only
    cases h2 : nodeAt root src with
    | none => rfl
    | some t =>
      cases t with
      | file k' => rfl
      | dir cs => rfl

/-- One iteration of the filter loop, in terms of `copied`. -/
theorem stageLoop_cons (root : Children) (cache : List (String × Nat)) (hint : Nat → Option String)
    (store : List (String × Nat)) (p : String) (k : Nat) (rest : List (String × Nat)) :
    stageLoop root cache hint store ((p, k) :: rest) =
      if staged store p k then stageLoop root cache hint store rest
      else match copied root cache hint k with
        | none => ((stageLoop root cache hint store rest).1, p :: (stageLoop root cache hint store rest).2)
        | some k' =>
          if k' = k then stageLoop root cache hint ((p, k') :: store) rest
          else ((stageLoop root cache hint ((p, k') :: store) rest).1,
                p :: (stageLoop root cache hint ((p, k') :: store) rest).2) := by
  rw [stageLoop]
  split
  · rfl
  · rename_i hst
    rw [stageFromRoot_eq]
    cases hc : copied root cache hint k with
    | none => simp
    | some k' =>
      simp only [staged_cons]
      by_cases hk : k' = k
      · simp [hk]
      · have : (k' == k) = false := by simp [hk]
        simp [this, hk, hst]

theorem stageLoop_sublist (root : Children) (cache : List (String × Nat)) (hint : Nat → Option String)
    (store : List (String × Nat)) (req : List (String × Nat)) :
    (stageLoop root cache hint store req).2.Sublist (req.map (·.1)) := by
  induction req generalizing store with
  | nil => simp [stageLoop]
  | cons e rest ih =>
    obtain ⟨p, k⟩ := e
    rw [stageLoop_cons]
    split
    · exact (ih store).cons _
    · split
      · exact (ih store).cons_cons _
      · split
        · exact (ih _).cons _
        · exact (ih _).cons_cons _

theorem stageLoop_store_mono (root : Children) (cache : List (String × Nat)) (hint : Nat → Option String)
    (store : List (String × Nat)) (req : List (String × Nat)) (q : String) (kq : Nat)
    (h : staged store q kq = true) : staged (stageLoop root cache hint store req).1 q kq = true := by
  induction req generalizing store with
  | nil => simpa [stageLoop] using h
  | cons e rest ih =>
    obtain ⟨p, k⟩ := e
    rw [stageLoop_cons]
    split
    · exact ih store h
    · split
      · exact ih store h
      · have h' : ∀ k', staged ((p, k') :: store) q kq = true := by
          intro k'; rw [staged_cons]; simp [h]
        split
        · exact ih _ (h' _)
        · exact ih _ (h' _)

/-- Staging for other paths does not change what is staged for `q`. -/
theorem staged_cons_other (st : List (String × Nat)) (p q : String) (k' kq : Nat) (h : p ≠ q) :
    staged ((p, k') :: st) q kq = staged st q kq := by
  rw [staged_cons]; simp [h]

theorem avail_cons_other (root : Children) (cache : List (String × Nat)) (hint : Nat → Option String)
    (st : List (String × Nat)) (p q : String) (k' kq : Nat) (h : p ≠ q) :
    avail root cache hint ((p, k') :: st) q kq = avail root cache hint st q kq := by
  simp [avail, staged_cons_other st p q k' kq h]

theorem filter_congr_avail (root : Children) (cache : List (String × Nat)) (hint : Nat → Option String)
    (st st' : List (String × Nat)) (rest : List (String × Nat))
    (h : ∀ e ∈ rest, avail root cache hint st' e.1 e.2 = avail root cache hint st e.1 e.2) :
    rest.filter (fun e => !avail root cache hint st' e.1 e.2) = rest.filter (fun e => !avail root cache hint st e.1 e.2) := by
  apply List.filter_congr
  intro e he
  rw [h e he]

/-- **The filter, exactly** (distinct request paths): a path is returned iff its
content is not available. -/
theorem stageLoop_exact (root : Children) (cache : List (String × Nat)) (hint : Nat → Option String)
    (store : List (String × Nat)) (req : List (String × Nat)) (hnd : (req.map (·.1)).Nodup) :
    (stageLoop root cache hint store req).2 =
      (req.filter fun e => !avail root cache hint store e.1 e.2).map (·.1) := by
  induction req generalizing store with
  | nil => simp [stageLoop]
  | cons e rest ih =>
    obtain ⟨p, k⟩ := e
    simp only [List.map_cons, List.nodup_cons] at hnd
    obtain ⟨hp, hnd'⟩ := hnd
    have hother : ∀ k', ∀ e ∈ rest, avail root cache hint ((p, k') :: store) e.1 e.2 = avail root cache hint store e.1 e.2 := by
      intro k' e he
      apply avail_cons_other
      intro heq
      apply hp
      rw [heq]
      exact List.mem_map_of_mem he
    rw [stageLoop_cons]
    by_cases hst : staged store p k = true
    · simp only [hst, if_true]
      rw [ih store hnd']
      simp [List.filter_cons, avail, hst]
    · simp only [hst]
      cases hc : copied root cache hint k with
      | none =>
        simp only [Bool.false_eq_true, if_false]
        rw [ih store hnd']
        simp [List.filter_cons, avail, hst, hc]
      | some k' =>
        simp only [Bool.false_eq_true, if_false]
        by_cases hk : k' = k
        · simp only [hk, if_true]
          rw [ih _ hnd', filter_congr_avail root cache hint store _ rest (hother k)]
          simp [List.filter_cons, avail, hst, hc, hk]
        · simp only [hk, if_false]
          rw [ih _ hnd', filter_congr_avail root cache hint store _ rest (hother k')]
          have : (some k' == some k) = false := by simp [hk]
          simp [List.filter_cons, avail, hst, hc, this]

/-- Everything that is requested and not returned is in the store afterwards. -/
theorem stageLoop_omitted_staged (root : Children) (cache : List (String × Nat)) (hint : Nat → Option String)
    (store : List (String × Nat)) (req : List (String × Nat)) (hnd : (req.map (·.1)).Nodup)
    (p : String) (k : Nat) (hmem : (p, k) ∈ req) (hout : p ∉ (stageLoop root cache hint store req).2) :
    staged (stageLoop root cache hint store req).1 p k = true := by
  induction req generalizing store with
  | nil => simp at hmem
  | cons e rest ih =>
    obtain ⟨p0, k0⟩ := e
    simp only [List.map_cons, List.nodup_cons] at hnd
    obtain ⟨hp0, hnd'⟩ := hnd
    rw [stageLoop_cons] at hout ⊢
    rcases List.mem_cons.mp hmem with heq | hrest
    · -- the head itself
      simp only [Prod.mk.injEq] at heq
      obtain ⟨e1, e2⟩ := heq
      subst e1
      subst e2
      by_cases hst : staged store p k = true
      · simp only [hst, if_true] at hout ⊢
        exact stageLoop_store_mono root cache hint store rest p k hst
      · simp only [hst] at hout ⊢
        cases hc : copied root cache hint k with
        | none =>
          simp only [hc, Bool.false_eq_true, if_false] at hout
          simp at hout
        | some k' =>
          simp only [hc, Bool.false_eq_true, if_false] at hout ⊢
          by_cases hk : k' = k
          · simp only [hk, if_true] at hout ⊢
            apply stageLoop_store_mono
            rw [staged_cons]; simp
          · simp only [hk, if_false] at hout
            simp at hout
    · have hne : p0 ≠ p := by
        intro heq
        apply hp0
        rw [heq]
        exact List.mem_map_of_mem hrest (f := (·.1))
      by_cases hst : staged store p0 k0 = true
      · simp only [hst, if_true] at hout ⊢
        exact ih store hnd' hrest hout
      · simp only [hst] at hout ⊢
        cases hc : copied root cache hint k0 with
        | none =>
          simp only [hc, Bool.false_eq_true, if_false] at hout ⊢
          simp only [List.mem_cons, not_or] at hout
          exact ih store hnd' hrest hout.2
        | some k' =>
          simp only [hc, Bool.false_eq_true, if_false] at hout ⊢
          by_cases hk : k' = k0
          · simp only [hk, if_true] at hout ⊢
            exact ih _ hnd' hrest hout
          · simp only [hk, if_false] at hout ⊢
            simp only [List.mem_cons, not_or] at hout
            exact ih _ hnd' hrest hout.2

theorem zip_map_fst {α β : Type} (l : List α) (m : List β) (h : l.length = m.length) :
    (l.zip m).map (·.1) = l := by
  induction l generalizing m with
  | nil => simp
  | cons a l ih =>
    cases m with
    | nil => simp at h
    | cons b m => simp at h; simp [ih m h]

end Mutagen.Proofs.Staging
