import Mutagen.Proofs.FSOps
/-!
The protection invariant of C08.

`Ctx` fixes the tree at the start of the transition (`f1`), the environment and
what the plan expects (`ExpP path props`: some transition's old entry has a
node with these scalar fields at this path).  A position of `f1` is *guarded*
when nothing in the plan can justify touching it:

* nothing is expected at its path, or
* it is a regular file whose (type, mode, size, mtime, inode) does not equal
  the cache entry of its path (or has none), or
* it is a symbolic link whose target no expected entry at its path accepts.

`Inv C fs`: every guarded position still holds the same shallow node as in
`f1`.  This file proves that every primitive, executed under the conditions
the transition code establishes before calling it, preserves `Inv`.
-/
namespace Mutagen.Proofs.FS
open Mutagen.Model Mutagen.Model.TFS Mutagen.Proofs.Assoc

structure Ctx where
  env : Env
  f1 : Node
  ExpP : Path → Props → Prop

/-- The cache entry of `p` equals the metadata of the file. -/
def cacheMatches (cache : Cache) (p : Path) (d : List UInt8) (perm mtime ino : Nat) : Prop :=
  ∃ c, aget p cache = some c ∧ c.mode = S_IFREG + perm ∧ c.mtime = mtime ∧ c.size = d.length ∧ c.ino = ino

/-- The check of `ensureExpectedSymbolicLink` on a link with target `t`. -/
def linkAccepted (env : Env) (p : Path) (t : String) (pr : Props) : Prop :=
  (if env.slMode = .portable then env.norm p t else some t) = some pr.target

def Guarded (C : Ctx) (p : Path) : Shallow → Prop
  | .file d perm m i => (∀ pr, ¬ C.ExpP p pr) ∨ ¬ cacheMatches C.env.cache p d perm m i
  | .symlink t => (∀ pr, ¬ C.ExpP p pr) ∨ ∀ pr, C.ExpP p pr → ¬ linkAccepted C.env p t pr
  | _ => ∀ pr, ¬ C.ExpP p pr

/-- Guarded positions (paths from the top of the tree). -/
def G (C : Ctx) (q : List Name) : Prop :=
  ∃ p s, q = C.env.rootName :: p ∧ sget C.f1 q = some s ∧ Guarded C p s

/-- Every guarded position holds what it held when the transition started. -/
def Inv (C : Ctx) (fs : Node) : Prop := ∀ q, G C q → sget fs q = sget C.f1 q

theorem inv_refl (C : Ctx) : Inv C C.f1 := fun _ _ => rfl

theorem G_nonempty (C : Ctx) (q : List Name) (h : G C q) : sget C.f1 q ≠ none := by
  obtain ⟨p, s, _, hs, _⟩ := h
  simp [hs]

/-- A position that is empty in a state satisfying the invariant is not
guarded, and neither is anything below it. -/
theorem free_of_none (C : Ctx) (fs : Node) (q0 : List Name) (hi : Inv C fs) (h0 : fs.get q0 = none) :
    ∀ q, q0 <+: q → ¬ G C q := by
  rintro q ⟨r, rfl⟩ hg
  have := hi _ hg
  rw [sget, get_none_of_prefix fs q0 r h0] at this
  exact G_nonempty C _ hg this.symm

theorem free_below_nondir (C : Ctx) (fs : Node) (q0 : List Name) (nd : Node) (hi : Inv C fs)
    (h0 : fs.get q0 = some nd) (hd : nd.isDir = false) (hg0 : ¬ G C q0) : ∀ q, q0 <+: q → ¬ G C q := by
  rintro q ⟨r, rfl⟩ hg
  cases r with
  | nil => exact hg0 (by simpa using hg)
  | cons m r =>
    have := hi _ hg
    rw [sget, get_below_nondir fs nd q0 m r h0 hd] at this
    exact G_nonempty C _ hg this.symm

theorem free_below_emptydir (C : Ctx) (fs : Node) (q0 : List Name) (p : Nat) (hi : Inv C fs)
    (h0 : fs.get q0 = some (.dir p [])) (hg0 : ¬ G C q0) : ∀ q, q0 <+: q → ¬ G C q := by
  rintro q ⟨r, rfl⟩ hg
  cases r with
  | nil => exact hg0 (by simpa using hg)
  | cons m r =>
    have := hi _ hg
    have hnone : fs.get (q0 ++ m :: r) = none := by
      simp [get_append, h0, get_cons_dir, aget]
    rw [sget, hnone] at this
    exact G_nonempty C _ hg this.symm

/-- A change confined to an unguarded subtree preserves the invariant. -/
theorem inv_of_frame (C : Ctx) (fs fs' : Node) (q0 : List Name) (hi : Inv C fs) (hf : Frame fs fs' q0)
    (hfree : ∀ q, q0 <+: q → ¬ G C q) : Inv C fs' := by
  intro q hg
  by_cases hp : q0 <+: q
  · exact absurd hg (hfree q hp)
  · rw [hf q hp]; exact hi q hg

theorem inv_fsMkdir (C : Ctx) (fs fs' : Node) (h : Handle) (n : Name) (hi : Inv C fs)
    (hu : fsMkdir fs h n = some fs') : Inv C fs' ∧ ¬ G C (h ++ [n]) := by
  obtain ⟨h0, _, hf⟩ := fsMkdir_spec fs fs' h n hu
  have hfree := free_of_none C fs _ hi h0
  exact ⟨inv_of_frame C fs fs' _ hi hf hfree, hfree _ (List.prefix_refl _)⟩

theorem inv_fsSymlink (C : Ctx) (fs fs' : Node) (h : Handle) (n : Name) (t : String) (hi : Inv C fs)
    (hu : fsSymlink fs h n t = some fs') : Inv C fs' := by
  obtain ⟨h0, _, hf⟩ := fsSymlink_spec fs fs' h n t hu
  exact inv_of_frame C fs fs' _ hi hf (free_of_none C fs _ hi h0)

theorem inv_fsUnlink (C : Ctx) (fs fs' : Node) (h : Handle) (n : Name) (hi : Inv C fs)
    (hg : ¬ G C (h ++ [n])) (hu : fsUnlink fs h n = some fs') : Inv C fs' := by
  obtain ⟨⟨nd, h0, hd⟩, _, hf⟩ := fsUnlink_spec fs fs' h n hu
  exact inv_of_frame C fs fs' _ hi hf (free_below_nondir C fs _ nd hi h0 hd hg)

theorem inv_fsRmdir (C : Ctx) (fs fs' : Node) (h : Handle) (n : Name) (hi : Inv C fs)
    (hg : ¬ G C (h ++ [n])) (hu : fsRmdir fs h n = some fs') : Inv C fs' := by
  obtain ⟨⟨p, h0⟩, _, hf⟩ := fsRmdir_spec fs fs' h n hu
  exact inv_of_frame C fs fs' _ hi hf (free_below_emptydir C fs _ p hi h0 hg)

/-- `fsPut`: without `replace` unconditionally, with `replace` when the target
position is not guarded. -/
theorem inv_fsPut (C : Ctx) (fs fs' : Node) (h : Handle) (n : Name) (node : Node) (replace : Bool) (hi : Inv C fs)
    (hg : replace = true → ¬ G C (h ++ [n])) (hu : fsPut fs h n node replace = some fs') :
    Inv C fs' ∧ ¬ G C (h ++ [n]) := by
  obtain ⟨h0, _, hf⟩ := fsPut_spec fs fs' h n node replace hu
  rcases h0 with h0 | ⟨hr, nd, h0, hd⟩
  · have hfree := free_of_none C fs _ hi h0
    exact ⟨inv_of_frame C fs fs' _ hi hf hfree, hfree _ (List.prefix_refl _)⟩
  · exact ⟨inv_of_frame C fs fs' _ hi hf (free_below_nondir C fs _ nd hi h0 hd (hg hr)), hg hr⟩

theorem inv_fsChmod (C : Ctx) (fs fs' : Node) (h : Handle) (n : Name) (perm : Nat) (hi : Inv C fs)
    (hg : ¬ G C (h ++ [n])) (hu : fsChmod fs h n perm = some fs') : Inv C fs' := by
  obtain ⟨_, hf, _, _⟩ := fsChmod_spec fs fs' h n perm hu
  intro q hq
  by_cases he : q = h ++ [n]
  · subst he; exact absurd hq hg
  · rw [hf q he]; exact hi q hq

/-- Every cache entry describes a regular file (as every entry a scan writes does). -/
def CacheRegular (cache : Cache) : Prop :=
  ∀ p c, aget p cache = some c → S_IFREG ≤ c.mode ∧ c.mode < S_IFREG + 0o10000

/-- A node that passes the metadata comparison of `ensureExpectedFile` at an
expected path is not guarded. -/
theorem notG_of_fileCheck (C : Ctx) (hreg : CacheRegular C.env.cache) (fs : Node) (q0 : List Name) (path : Path)
    (node : Node) (cached : CEntry) (pr : Props)
    (hi : Inv C fs) (hq : q0 = C.env.rootName :: path) (hn : fs.get q0 = some node)
    (hc : aget path C.env.cache = some cached)
    (h1 : node.stat.mode = cached.mode) (h2 : node.stat.mtime = cached.mtime) (h3 : node.stat.size = cached.size)
    (h4 : node.stat.ino = cached.ino) (he : C.ExpP path pr) : ¬ G C q0 := by
  rintro ⟨p, s, hp, hs, hgd⟩
  have hpp : p = path := by rw [hq] at hp; exact (List.cons.inj hp).2.symm
  subst hpp
  have hinv := hi q0 ⟨p, s, hp, hs, hgd⟩
  rw [hs, sget, hn] at hinv
  simp only [Option.map_some, Option.some.injEq] at hinv
  obtain ⟨hlo, hhi⟩ := hreg p cached hc
  cases node with
  | dir perm cs =>
    simp only [shallow] at hinv; subst hinv
    exact hgd pr he
  | file d perm m i =>
    simp only [shallow] at hinv; subst hinv
    rcases hgd with hgd | hgd
    · exact hgd pr he
    · apply hgd
      simp only [Node.stat] at h1 h2 h3 h4
      exact ⟨cached, hc, h1.symm, h2.symm, h3.symm, h4.symm⟩
  | symlink t =>
    simp only [Node.stat, S_IFLNK, S_IFREG] at h1 hlo hhi
    omega
  | other =>
    simp only [Node.stat, S_IFIFO, S_IFREG] at h1 hlo hhi
    omega

/-- A link that passes the comparison of `ensureExpectedSymbolicLink` at an
expected path is not guarded. -/
theorem notG_of_linkCheck (C : Ctx) (fs : Node) (q0 : List Name) (path : Path) (t : String) (pr : Props)
    (hi : Inv C fs) (hq : q0 = C.env.rootName :: path) (hn : fs.get q0 = some (.symlink t))
    (he : C.ExpP path pr) (ha : linkAccepted C.env path t pr) : ¬ G C q0 := by
  rintro ⟨p, s, hp, hs, hgd⟩
  have hpp : p = path := by rw [hq] at hp; exact (List.cons.inj hp).2.symm
  subst hpp
  have hinv := hi q0 ⟨p, s, hp, hs, hgd⟩
  rw [hs, sget, hn] at hinv
  simp only [Option.map_some, Option.some.injEq, shallow] at hinv
  subst hinv
  rcases hgd with hgd | hgd
  · exact hgd pr he
  · exact hgd pr he ha

/-- A directory at an expected path is not guarded. -/
theorem notG_of_dir (C : Ctx) (fs : Node) (q0 : List Name) (path : Path) (p0 : Nat) (cs : Kids) (pr : Props)
    (hi : Inv C fs) (hq : q0 = C.env.rootName :: path) (hn : fs.get q0 = some (.dir p0 cs))
    (he : C.ExpP path pr) : ¬ G C q0 := by
  rintro ⟨p, s, hp, hs, hgd⟩
  have hpp : p = path := by rw [hq] at hp; exact (List.cons.inj hp).2.symm
  subst hpp
  have hinv := hi q0 ⟨p, s, hp, hs, hgd⟩
  rw [hs, sget, hn] at hinv
  simp only [Option.map_some, Option.some.injEq, shallow] at hinv
  subst hinv
  exact hgd pr he

end Mutagen.Proofs.FS
