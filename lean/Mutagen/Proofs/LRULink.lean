import Mutagen.Proofs.LRUAdd
import Mutagen.Proofs.LRUSpec
/-!
C45: glue between the pointer-level invariant and the specification-level one.
-/
namespace Mutagen.Proofs.LRU
open Mutagen.Model.LRU

/-- A well-formed cache represents a specification state satisfying `SpecInv`. -/
theorem wf_specInv (c : Cache) (h : c.WF) : SpecInv c.toSpec := by
  refine ⟨?_, ?_, ?_⟩
  · show ((c.order.map (kv c.heap)).map Prod.fst).Nodup
    rw [List.map_map, List.Nodup, List.pairwise_map]
    refine List.Pairwise.imp_of_mem ?_ h.nodup
    intro a b ha hb hab hkeys
    apply hab
    have h1 := (h.index ((kv c.heap a).1) a).mpr ⟨ha, rfl⟩
    have h2 := (h.index ((kv c.heap a).1) b).mpr ⟨hb, hkeys.symm⟩
    rw [h1] at h2
    exact Option.some.inj h2
  · intro hp
    show ((c.order.map (kv c.heap)).length : Int) ≤ c.maxEntries
    rw [List.length_map]; exact h.capPos hp
  · intro hn
    show c.order.map (kv c.heap) = []
    rw [h.capNeg hn]; rfl

theorem spec_step_cap (s : Spec) (op : Op) : (s.step op).1.cap = s.cap := by
  cases op with
  | add k v => rfl
  | get k =>
    simp only [Spec.step]
    cases s.items.find? (fun e => e.1 = k) <;> rfl
  | remove k => rfl
  | len => rfl

theorem step_maxEntries (c : Cache) (h : c.WF) (op : Op) : (c.step op).1.maxEntries = c.maxEntries := by
  obtain ⟨_, href⟩ := step_refines c h op
  have hst : (c.step op).1.toSpec = (c.toSpec.step op).1 := by rw [← href]
  have := spec_step_cap c.toSpec op
  rw [← hst] at this
  exact this

theorem run_maxEntries (ops : List Op) : ∀ (c : Cache), c.WF → (c.run ops).1.toSpec.cap = c.maxEntries := by
  induction ops with
  | nil => intro c _; rfl
  | cons op ops ih =>
    intro c h
    have := ih (c.step op).1 (step_refines c h op).1
    rw [step_maxEntries c h op] at this
    exact this

end Mutagen.Proofs.LRU
