import Mutagen.Model.Staging
/-!
Read-only (one-way alpha) endpoints: lemmas for `Mutagen.Properties.C02`
(`readOnly_refuses`). The model is `Mutagen.Model.Staging` (tied to
`endpoint/local` by the C41 stream and by its `-ro` variant run under C02).
-/
namespace Mutagen.Proofs.Staging
open Mutagen.Model.Staging

/-- The external edits contained in a call sequence, in order. -/
def editsOf : List Op → List Edit
  | [] => []
  | .edit e :: r => e :: editsOf r
  | _ :: r => editsOf r

theorem stage_readOnly (s : St) (h : s.readOnly = true) (ps : List String) (ds : List Nat)
    (hint : Nat → Option String) : stage s ps ds hint = (s, .err .readOnly) := by
  unfold stage; simp [h]

theorem transition_readOnly (s : St) (h : s.readOnly = true) (ts : List Change) :
    transition s ts = (s, .err .readOnly) := by
  unfold transition; simp [h]

theorem scan_readOnly_root (s : St) : (scan s).1.readOnly = s.readOnly ∧ (scan s).1.root = s.root := by
  unfold scan; simp only []; split <;> simp

/-- One call on a read-only endpoint keeps it read-only and changes the root
only if the call is an external edit. -/
theorem stepOp_readOnly (s : St) (h : s.readOnly = true) (op : Op) :
    (stepOp s op).readOnly = true ∧
    (stepOp s op).root = (match op with | .edit e => applyEdit s.root e | _ => s.root) := by
  cases op with
  | scan => simp only [stepOp]; have := scan_readOnly_root s; exact ⟨this.1 ▸ h, this.2⟩
  | stage ps ds hint => simp only [stepOp, stage_readOnly s h]; exact ⟨h, trivial⟩
  | supply items => simp only [stepOp, supply]; exact ⟨h, trivial⟩
  | transition ts => simp only [stepOp, transition_readOnly s h]; exact ⟨h, trivial⟩
  | edit e => simp only [stepOp]; exact ⟨h, trivial⟩

/-- Any call sequence on a read-only endpoint: still read-only, and the root
is the initial root with exactly the external edits applied. -/
theorem runOps_readOnly (ops : List Op) : ∀ (s : St), s.readOnly = true →
    (runOps s ops).readOnly = true ∧ (runOps s ops).root = (editsOf ops).foldl applyEdit s.root := by
  induction ops with
  | nil => intro s h; exact ⟨h, rfl⟩
  | cons op r ih =>
    intro s h
    have hs := stepOp_readOnly s h op
    have := ih (stepOp s op) hs.1
    simp only [runOps, List.foldl_cons] at this ⊢
    refine ⟨this.1, ?_⟩
    rw [this.2, hs.2]
    cases op <;> simp [editsOf]

end Mutagen.Proofs.Staging
