import Mutagen.Model.Reconcile
/-!
Structural lemmas about the `reconcile` model shared by `Properties/C11`,
`C18` and `C21`: where the planned changes come from (the recursion only
concatenates the plans of the children; every alpha/beta change is emitted by
`handleDisagreement` at the node it is about), and what they carry.
-/
namespace Mutagen.Proofs.ReconcileShape
open Mutagen.Model

/-! ## Plans -/

@[simp] theorem append_alpha (a b : Plan) : (a ++ b).alpha = a.alpha ++ b.alpha := rfl
@[simp] theorem append_beta (a b : Plan) : (a ++ b).beta = a.beta ++ b.beta := rfl
@[simp] theorem append_anc (a b : Plan) : (a ++ b).anc = a.anc ++ b.anc := rfl
@[simp] theorem append_conflicts (a b : Plan) : (a ++ b).conflicts = a.conflicts ++ b.conflicts := rfl

theorem mem_concat_beta (ps : List Plan) (c : Change) :
    c ∈ (Plan.concat ps).beta ↔ ∃ p ∈ ps, c ∈ p.beta := by
  induction ps with
  | nil => simp [Plan.concat]
  | cons p ps ih => simp [Plan.concat, ih]

theorem mem_concat_alpha (ps : List Plan) (c : Change) :
    c ∈ (Plan.concat ps).alpha ↔ ∃ p ∈ ps, c ∈ p.alpha := by
  induction ps with
  | nil => simp [Plan.concat]
  | cons p ps ih => simp [Plan.concat, ih]

/-- The side of a plan meant for one endpoint. -/
def side (toAlpha : Bool) (p : Plan) : List Change := if toAlpha then p.alpha else p.beta

theorem mem_concat_side (toAlpha : Bool) (ps : List Plan) (c : Change) :
    c ∈ side toAlpha (Plan.concat ps) ↔ ∃ p ∈ ps, c ∈ side toAlpha p := by
  cases toAlpha
  · simpa [side] using mem_concat_beta ps c
  · simpa [side] using mem_concat_alpha ps c

/-! ## Unfolding `reconcile` -/

/-- reconcile.go:61: both sides absent or untracked. -/
def bothAbsent (alpha beta : Option Entry) : Bool :=
  (alpha.isNone || isKind alpha .untracked) && (beta.isNone || isKind beta .untracked)

/-- The recursion branch of `reconcile` (reconcile.go:72-135). -/
theorem reconcile_rec (mode : Mode) (path : Path) (a α β : Option Entry)
    (h1 : isKind α .problematic = false) (h2 : isKind β .problematic = false)
    (h3 : bothAbsent α β = false) (h4 : shallowEq α β = true) :
    reconcile mode path a α β =
      (if !shallowEq a α then Plan.ancChange { path := path, new := ocopy .slim α } else {}) ++
      Plan.concat ((nameUnion [contents (ancestorForRecursion a α), contents α, contents β]).map fun n =>
        reconcile mode (path ++ [n]) (lookup n (contents (ancestorForRecursion a α)))
          (lookup n (contents α)) (lookup n (contents β))) := by
  rw [reconcile]
  simp only [bothAbsent] at h3
  simp only [h1, h2, h3, h4, Bool.false_eq_true, if_false, if_true]
  congr 2
  rw [List.attach_map_val (l := nameUnion [contents (ancestorForRecursion a α), contents α, contents β])
    (f := fun n => reconcile mode (path ++ [n]) (lookup n (contents (ancestorForRecursion a α)))
      (lookup n (contents α)) (lookup n (contents β)))]

/-- The disagreement branch of `reconcile` (reconcile.go:158-169). -/
theorem reconcile_disagree (mode : Mode) (path : Path) (a α β : Option Entry)
    (h1 : isKind α .problematic = false) (h2 : isKind β .problematic = false)
    (h3 : bothAbsent α β = false) (h4 : shallowEq α β = false) :
    reconcile mode path a α β = handleDisagreement mode path a α β := by
  rw [reconcile]
  simp only [bothAbsent] at h3
  simp [h1, h2, h3, h4]

/-! ## Where changes are emitted -/

/-- Every change `handleDisagreement` plans for an endpoint is at the node's own path. -/
theorem handleDisagreement_path (mode : Mode) (path : Path) (a α β : Option Entry) (toAlpha : Bool)
    (c : Change) (hc : c ∈ side toAlpha (handleDisagreement mode path a α β)) : c.path = path := by
  cases toAlpha <;> cases mode <;>
    simp only [side, handleDisagreement, handleBidirectional, handleOneWaySafe, handleOneWayReplica,
      Bool.false_eq_true, if_false, if_true] at hc <;>
    (repeat' split at hc) <;>
    simp_all [Plan.conflict, Plan.betaChange, Plan.alphaChange, Plan.ancChange]

/-- Every alpha/beta change of `reconcile mode path …` lies at or below `path`. -/
theorem reconcile_path_prefix (mode : Mode) (toAlpha : Bool) (path : Path) (a α β : Option Entry) :
    ∀ c ∈ side toAlpha (reconcile mode path a α β), path <+: c.path := by
  induction path, a, α, β using reconcile.induct with
  | case1 path a α β h => intro c hc; rw [reconcile] at hc; cases toAlpha <;> simp [h, side] at hc
  | case2 path a α β h1 h2 => intro c hc; rw [reconcile] at hc; cases toAlpha <;> simp [h1, h2, side] at hc
  | case3 path a α β h1 h2 h3 h4 =>
    intro c hc; rw [reconcile] at hc
    cases toAlpha <;> simp [h1, h2, h3, h4, side, Plan.ancChange] at hc
  | case4 path a α β h1 h2 h3 h4 =>
    intro c hc; rw [reconcile] at hc
    cases toAlpha <;> simp [h1, h2, h3, h4, side] at hc
  | case5 path a α β h1 h2 h3 h4 a' ih =>
    intro c hc
    have hb : bothAbsent α β = false := eq_false_of_ne_true h3
    rw [reconcile_rec mode path a α β (by simpa using h1) (by simpa using h2) hb h4] at hc
    have hhere : side toAlpha (if !shallowEq a α then Plan.ancChange { path := path, new := ocopy .slim α } else {}) = [] := by
      cases toAlpha <;> simp [side] <;> split <;> simp [Plan.ancChange]
    have : c ∈ side toAlpha (Plan.concat ((nameUnion [contents (ancestorForRecursion a α), contents α, contents β]).map fun n =>
        reconcile mode (path ++ [n]) (lookup n (contents (ancestorForRecursion a α)))
          (lookup n (contents α)) (lookup n (contents β)))) := by
      cases toAlpha <;> simp only [side, append_alpha, append_beta, Bool.false_eq_true, if_false, if_true] at hc hhere ⊢ <;>
        (rw [hhere, List.nil_append] at hc; exact hc)
    obtain ⟨p, hp, hcp⟩ := (mem_concat_side toAlpha _ c).mp this
    obtain ⟨n, hn, rfl⟩ := List.mem_map.mp hp
    have := ih ⟨n, hn⟩ c hcp
    exact (List.prefix_append path [n]).trans this
  | case6 path a α β h1 h2 h3 h4 =>
    intro c hc
    have hb : bothAbsent α β = false := eq_false_of_ne_true h3
    rw [reconcile_disagree mode path a α β (by simpa using h1) (by simpa using h2) hb (by simpa using h4)] at hc
    rw [handleDisagreement_path mode path a α β toAlpha c hc]
    exact List.prefix_refl _

/-! ## Descending to a node -/

/-- Both sides are shallowly equal directories all the way down `q`, and the
ancestor's contents are the ones the recursion uses. -/
def Along : Option Entry → Option Entry → Option Entry → Path → Prop
  | _, _, _, [] => True
  | a, α, β, n :: r =>
    isKind α .directory = true ∧ isKind β .directory = true ∧ shallowEq α β = true ∧
    contents (ancestorForRecursion a α) = contents a ∧
    Along (lookup n (contents a)) (lookup n (contents α)) (lookup n (contents β)) r

theorem isKind_directory_facts {x : Option Entry} (h : isKind x .directory = true) :
    isKind x .problematic = false ∧ x.isNone = false ∧ isKind x .untracked = false := by
  cases x with
  | none => simp [isKind] at h
  | some e =>
    simp only [isKind, beq_iff_eq] at h
    simp [isKind, h]

theorem singleton_prefix_cons {m n : Name} {r : List Name} (h : [m] <+: n :: r) : m = n := by
  obtain ⟨t, ht⟩ := h
  simp at ht
  exact ht.1

/-- The changes of a plan that concern a path `q` below a chain of shallowly
equal directories are those planned at the node `q` itself. -/
theorem reconcile_descend (mode : Mode) (toAlpha : Bool) (q : Path) :
    ∀ (path : Path) (a α β : Option Entry), Along a α β q →
      ∀ c ∈ side toAlpha (reconcile mode path a α β),
        (c.path <+: path ++ q ∨ path ++ q <+: c.path) →
        c ∈ side toAlpha (reconcile mode (path ++ q) (getPath a q) (getPath α q) (getPath β q)) := by
  induction q with
  | nil => intro path a α β _ c hc _; simpa [getPath] using hc
  | cons n r ih =>
    intro path a α β hal c hc hrel
    obtain ⟨hα, hβ, hs, hanc, hrest⟩ := hal
    obtain ⟨h1, h1n, h1u⟩ := isKind_directory_facts hα
    obtain ⟨h2, _, _⟩ := isKind_directory_facts hβ
    have h3 : bothAbsent α β = false := by simp [bothAbsent, h1n, h1u]
    rw [reconcile_rec mode path a α β h1 h2 h3 hs] at hc
    have hhere : side toAlpha (if !shallowEq a α then Plan.ancChange { path := path, new := ocopy .slim α } else {}) = [] := by
      cases toAlpha <;> simp [side] <;> split <;> simp [Plan.ancChange]
    have hc' : c ∈ side toAlpha (Plan.concat ((nameUnion [contents (ancestorForRecursion a α), contents α, contents β]).map fun n =>
        reconcile mode (path ++ [n]) (lookup n (contents (ancestorForRecursion a α)))
          (lookup n (contents α)) (lookup n (contents β)))) := by
      cases toAlpha <;> simp only [side, append_alpha, append_beta, Bool.false_eq_true, if_false, if_true] at hc hhere ⊢ <;>
        (rw [hhere, List.nil_append] at hc; exact hc)
    obtain ⟨p, hp, hcp⟩ := (mem_concat_side toAlpha _ c).mp hc'
    obtain ⟨m, hm, rfl⟩ := List.mem_map.mp hp
    have hpre := reconcile_path_prefix mode toAlpha _ _ _ _ c hcp
    have hmn : m = n := by
      rcases hrel with hrel | hrel
      · have := hpre.trans hrel
        rw [List.prefix_append_right_inj] at this
        exact singleton_prefix_cons this
      · have h1 : path ++ [n] <+: c.path := by
          have : path ++ [n] <+: path ++ n :: r := by
            rw [List.prefix_append_right_inj]; exact ⟨r, rfl⟩
          exact this.trans hrel
        have := List.prefix_of_prefix_length_le hpre h1 (by simp)
        rw [List.prefix_append_right_inj] at this
        exact singleton_prefix_cons this
    subst hmn
    rw [hanc] at hcp
    have hrel' : c.path <+: (path ++ [m]) ++ r ∨ (path ++ [m]) ++ r <+: c.path := by
      simpa [List.append_assoc] using hrel
    have := ih (path ++ [m]) _ _ _ hrest c hcp hrel'
    simpa [List.append_assoc, getPath] using this

end Mutagen.Proofs.ReconcileShape
