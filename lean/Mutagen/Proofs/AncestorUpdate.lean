import Mutagen.Proofs.Conflict
/-!
Helper lemmas for the C05 theorem "the ancestor update keeps the saved state
valid": a path-wise characterisation of `EnsureValid(true)` (`VSP`), its
preservation by one change of `Apply` whose parent is a directory, and the
invariant carried through the recursion of `reconcile` while its ancestor
changes are applied.
-/
namespace Mutagen.Model


/-! ## `EnsureValid(true)` described path by path -/

/-- The scalar fields are those of a valid directory, file or symbolic link. -/
def NodeOk (p : Props) : Prop :=
  (p.kind = .directory ∧ p.digest = [] ∧ p.executable = false ∧ p.target = "" ∧ p.problem = "") ∨
  (p.kind = .file ∧ p.target = "" ∧ p.problem = "" ∧ p.digest ≠ []) ∨
  (p.kind = .symlink ∧ p.digest = [] ∧ p.executable = false ∧ p.problem = "" ∧ p.target ≠ "")

/-- `q` is the root, or its last name is valid and its parent is a directory of `e`. -/
def DirParent (e : Option Entry) (q : Path) : Prop :=
  q = [] ∨ ((∃ pr, pget e q.dropLast = some pr ∧ pr.kind = .directory) ∧
            ∃ n, q.getLast? = some n ∧ validName n = true)

/-- Path-wise form of `EnsureValid(true)`: every entry is a valid directory,
file or symbolic link, has a valid name and sits in a directory. -/
def VSP (e : Option Entry) : Prop := ∀ q pr, pget e q = some pr → NodeOk pr ∧ DirParent e q

theorem nodeOk_of_ensureValid {p : Props} {cs : Contents} (h : (Entry.mk p cs).ensureValid true = true) :
    NodeOk p ∧ (p.kind ≠ .directory → cs = []) ∧ (p.kind = .directory → Entry.ensureValidL true cs = true) := by
  unfold Entry.ensureValid at h
  cases hk : p.kind <;> simp [hk] at h
  · refine ⟨Or.inl ⟨hk, ?_, ?_, ?_, ?_⟩, by simp, fun _ => h.2⟩ <;> simp_all
  · refine ⟨Or.inr (Or.inl ⟨hk, ?_, ?_, ?_⟩), fun _ => ?_, by simp⟩ <;> simp_all
  · refine ⟨Or.inr (Or.inr ⟨hk, ?_, ?_, ?_, ?_⟩), fun _ => ?_, by simp⟩ <;> simp_all

theorem ensureValidL_mem {s : Bool} {cs : Contents} (h : Entry.ensureValidL s cs = true) {n : Name} {c : Entry}
    (hl : lookup n cs = some c) : validName n = true ∧ c.ensureValid s = true := by
  induction cs with
  | nil => simp [lookup] at hl
  | cons hd t ih =>
    obtain ⟨m, d⟩ := hd
    simp only [Entry.ensureValidL, Bool.and_eq_true] at h
    simp only [lookup] at hl
    split at hl
    · rename_i hm; cases hl; subst hm; exact ⟨h.1.1, h.1.2⟩
    · exact ih h.2 hl

theorem getLast?_cons_cons {α} (a b : α) (l : List α) : (a :: b :: l).getLast? = (b :: l).getLast? := by
  simp [List.getLast?_cons_cons]

/-- `EnsureValid(true)` implies the path-wise form. -/
theorem Entry.vsp_of_ensureValid (q : Path) :
    ∀ (e : Entry), e.ensureValid true = true → ∀ pr, pget (some e) q = some pr →
      NodeOk pr ∧ (q = [] ∨ ((∃ pp, pget (some e) q.dropLast = some pp ∧ pp.kind = .directory) ∧
        ∃ n, q.getLast? = some n ∧ validName n = true)) := by
  induction q with
  | nil =>
    intro e hv pr hq
    cases e with
    | mk p cs =>
      simp only [pget, getPath, Option.map_some, Option.some.injEq, Entry.props] at hq
      subst hq
      exact ⟨(nodeOk_of_ensureValid hv).1, Or.inl rfl⟩
  | cons n q ih =>
    intro e hv pr hq
    cases e with
    | mk p cs =>
      obtain ⟨hok, hleaf, hdir⟩ := nodeOk_of_ensureValid hv
      rw [pget_some_cons, Entry.children] at hq
      cases hl : lookup n cs with
      | none => rw [hl] at hq; simp at hq
      | some c =>
        rw [hl] at hq
        have hkd : p.kind = .directory := by
          by_cases hk : p.kind = .directory
          · exact hk
          · have := hleaf hk; subst this; simp [lookup] at hl
        obtain ⟨hn, hc⟩ := ensureValidL_mem (hdir hkd) hl
        obtain ⟨h1, h2⟩ := ih c hc pr hq
        refine ⟨h1, Or.inr ?_⟩
        rcases h2 with rfl | ⟨⟨pp, hpp, hppk⟩, ⟨m, hm, hmv⟩⟩
        · exact ⟨⟨p, by simp [pget, getPath, Entry.props], hkd⟩, ⟨n, by simp, hn⟩⟩
        · cases q with
          | nil => simp at hm
          | cons x q' =>
            refine ⟨⟨pp, ?_, hppk⟩, ⟨m, ?_, hmv⟩⟩
            · rw [List.dropLast_cons_cons, pget_some_cons, Entry.children, hl]; exact hpp
            · rw [List.getLast?_cons_cons]; exact hm

theorem vsp_of_validSync {e : Option Entry} (h : ValidSync e) : VSP e := by
  cases e with
  | none => intro q pr hq; simp at hq
  | some e =>
    intro q pr hq
    obtain ⟨h1, h2⟩ := Entry.vsp_of_ensureValid q e h.2 pr hq
    exact ⟨h1, h2⟩


theorem vsp_child {p : Props} {cs : Contents} {n : Name} {c : Entry} (h : VSP (some (.mk p cs)))
    (hl : lookup n cs = some c) : validName n = true ∧ p.kind = .directory ∧ VSP (some c) := by
  have h1 := h [n] c.props (by simp [pget, getPath, contents, Entry.children, hl])
  rcases h1.2 with h0 | ⟨⟨pr, hpr, hprk⟩, ⟨m, hm, hmv⟩⟩
  · cases h0
  · simp only [List.dropLast_singleton, pget, getPath, Option.map_some, Option.some.injEq, Entry.props] at hpr
    subst hpr
    simp only [List.getLast?_singleton, Option.some.injEq] at hm
    subst hm
    refine ⟨hmv, hprk, ?_⟩
    intro q pr hq
    have h2 := h (n :: q) pr (by rw [pget_some_cons, Entry.children, hl]; exact hq)
    refine ⟨h2.1, ?_⟩
    cases q with
    | nil => exact Or.inl rfl
    | cons x q' =>
      rcases h2.2 with h0 | ⟨⟨pp, hpp, hppk⟩, ⟨m, hm, hmv'⟩⟩
      · cases h0
      · right
        refine ⟨⟨pp, ?_, hppk⟩, ⟨m, ?_, hmv'⟩⟩
        · rw [List.dropLast_cons_cons, pget_some_cons, Entry.children, hl] at hpp; exact hpp
        · rw [List.getLast?_cons_cons] at hm; exact hm

mutual
theorem Entry.ensureValid_of_vsp (e : Entry) (hn : e.nodupKeys = true) (h : VSP (some e)) :
    e.ensureValid true = true :=
  match e with
  | .mk p cs => by
    have hk := Entry.nodupKeys_mk_iff.mp hn
    have hok := (h [] p (by simp [pget, getPath, Entry.props])).1
    have hchild : ∀ n c, (n, c) ∈ cs → validName n = true ∧ p.kind = .directory ∧ VSP (some c) :=
      fun n c hm => vsp_child h (lookup_of_mem_nodup hk.1 hm)
    have hL := Entry.ensureValidL_of_vsp cs hk.2 (fun n c hm => ⟨(hchild n c hm).1, (hchild n c hm).2.2⟩)
    have hleaf : p.kind ≠ .directory → cs = [] := by
      intro hne
      cases cs with
      | nil => rfl
      | cons hd t =>
        obtain ⟨n, c⟩ := hd
        exact absurd (hchild n c (by simp)).2.1 hne
    unfold Entry.ensureValid
    rcases hok with ⟨h1, h2, h3, h4, h5⟩ | ⟨h1, h2, h3, h4⟩ | ⟨h1, h2, h3, h4, h5⟩
    · simp [h1, h2, h3, h4, h5, hL]
    · have := hleaf (by rw [h1]; decide)
      subst this
      simp [h1, h2, h3, h4]
    · have := hleaf (by rw [h1]; decide)
      subst this
      simp [h1, h2, h3, h4, h5]
theorem Entry.ensureValidL_of_vsp (cs : Contents) (hn : Entry.nodupKeysL cs = true)
    (h : ∀ n c, (n, c) ∈ cs → validName n = true ∧ VSP (some c)) : Entry.ensureValidL true cs = true :=
  match cs with
  | [] => rfl
  | (n, c) :: r => by
    simp only [Entry.nodupKeysL, Bool.and_eq_true] at hn
    have h1 := h n c (by simp)
    have i1 := Entry.ensureValid_of_vsp c hn.1 h1.2
    have i2 := Entry.ensureValidL_of_vsp r hn.2 (fun m d hm => h m d (by simp [hm]))
    simp [Entry.ensureValidL, h1.1, i1, i2]
end

theorem validSync_of_vsp {e : Option Entry} (hn : onodupKeys e = true) (h : VSP e) : ValidSync e := by
  cases e with
  | none => exact ⟨rfl, rfl⟩
  | some e => exact ⟨hn, Entry.ensureValid_of_vsp e hn h⟩


/-! ## `Apply` preserves the path-wise validity -/

theorem DirParent.parentExists {r : Option Entry} {p : Path} (h : DirParent r p) : ParentExists r p := by
  rcases h with h | ⟨⟨pr, hpr, _⟩, _⟩
  · exact Or.inl h
  · exact Or.inr (by rw [hpr]; rfl)

theorem getLast?_append_ne_nil {α} (l t : List α) (ht : t ≠ []) : (l ++ t).getLast? = t.getLast? := by
  induction l with
  | nil => rfl
  | cons a l ih =>
    cases hlt : l ++ t with
    | nil => simp at hlt; exact absurd hlt.2 ht
    | cons b m => rw [List.cons_append, hlt, List.getLast?_cons_cons, ← hlt, ih]

theorem applyChange_vsp (r : Option Entry) (c : Change) (hr : VSP r) (hnew : VSP c.new)
    (hp : DirParent r c.path) :
    ∃ r', applyChange r c = .ok r' ∧
      (∀ q, pget r' q = if c.path <+: q then pget c.new (q.drop c.path.length) else pget r q) ∧ VSP r' := by
  obtain ⟨r', h1, h2⟩ := applyChange_spec r c hp.parentExists
  refine ⟨r', h1, h2, ?_⟩
  intro q pr hq
  rw [h2] at hq
  by_cases hpre : c.path <+: q
  · obtain ⟨t, rfl⟩ := hpre
    simp only [List.prefix_append, ↓reduceIte, List.drop_left] at hq
    obtain ⟨hok, hdp⟩ := hnew t pr hq
    refine ⟨hok, ?_⟩
    cases t with
    | nil =>
      simp only [List.append_nil]
      rcases hp with h0 | ⟨⟨pp, hpp, hppk⟩, hname⟩
      · exact Or.inl h0
      · right
        refine ⟨⟨pp, ?_, hppk⟩, hname⟩
        rw [h2]
        have : ¬ c.path <+: c.path.dropLast := by
          intro hh
          have hl1 := hh.length_le
          have hl2 : c.path.dropLast.length = c.path.length - 1 := List.length_dropLast
          have hne : c.path ≠ [] := by
            intro h0; rw [h0] at hname; obtain ⟨n, hn, _⟩ := hname; simp at hn
          have hl3 : 0 < c.path.length := List.length_pos_iff.mpr hne
          omega
        simp [this, hpp]
    | cons x t' =>
      rcases hdp with h0 | ⟨⟨pp, hpp, hppk⟩, ⟨n, hn, hnv⟩⟩
      · cases h0
      · right
        refine ⟨⟨pp, ?_, hppk⟩, ⟨n, ?_, hnv⟩⟩
        · rw [List.dropLast_append_of_ne_nil (by simp), h2]
          simp [hpp]
        · rw [getLast?_append_ne_nil _ _ (by simp)]; exact hn
  · simp only [hpre, ↓reduceIte] at hq
    obtain ⟨hok, hdp⟩ := hr q pr hq
    refine ⟨hok, ?_⟩
    rcases hdp with h0 | ⟨⟨pp, hpp, hppk⟩, hname⟩
    · exact Or.inl h0
    · right
      refine ⟨⟨pp, ?_, hppk⟩, hname⟩
      rw [h2]
      have : ¬ c.path <+: q.dropLast := fun hh => hpre (hh.trans (List.dropLast_prefix q))
      simp [this, hpp]

/-! ## The ancestor update keeps the ancestor valid -/

theorem dirParent_snoc {r : Option Entry} {path : Path} {n : Name} :
    DirParent r (path ++ [n]) ↔ (∃ pr, pget r path = some pr ∧ pr.kind = .directory) ∧ validName n = true := by
  unfold DirParent
  simp only [List.append_eq_nil_iff, List.cons_ne_self, and_false, false_or, List.dropLast_concat,
    List.getLast?_concat, Option.some.injEq, exists_eq_left']

theorem DirParent.of_outside {r r' : Option Entry} {p : Path} (h : DirParent r p)
    (ho : pget r' p.dropLast = pget r p.dropLast) : DirParent r' p := by
  rcases h with h0 | ⟨⟨pr, hpr, hk⟩, hn⟩
  · exact Or.inl h0
  · exact Or.inr ⟨⟨pr, by rw [ho]; exact hpr, hk⟩, hn⟩

theorem vsp_none : VSP none := by intro q pr hq; simp at hq

theorem apply_delete_vsp (r : Option Entry) (path : Path) (hr : VSP r) (hp : DirParent r path) :
    ∃ r', apply r [{ path := path }] = .ok r' ∧ (∀ q, ¬ path <+: q → pget r' q = pget r q) ∧ VSP r' := by
  obtain ⟨r', h1, h2, h3⟩ := applyChange_vsp r { path := path } hr vsp_none hp
  exact ⟨r', by simp [apply, h1], fun q hq => by rw [h2]; simp [hq], h3⟩

theorem not_prefix_dropLast_self {path : Path} (hne : path ≠ []) : ¬ path <+: path.dropLast := by
  intro hpre
  have hl1 := hpre.length_le
  have hl2 : path.dropLast.length = path.length - 1 := List.length_dropLast
  have hl3 : 0 < path.length := List.length_pos_iff.mpr hne
  omega

theorem DirParent.after_change_at {r r' : Option Entry} {path : Path} (h : DirParent r path)
    (ho : ∀ q, ¬ path <+: q → pget r' q = pget r q) : DirParent r' path := by
  by_cases hne : path = []
  · exact Or.inl hne
  · exact h.of_outside (ho _ (not_prefix_dropLast_self hne))

theorem anc_children_vsp (path : Path) (f : Name → Plan) (xc : Contents) (ns : List Name) (hnd : ns.Nodup)
    (hunder : ∀ n ∈ ns, ∀ p ∈ (f n).changePaths, (path ++ [n]) <+: p)
    (ih : ∀ n ∈ ns, ∀ r, VSP r → DirParent r (path ++ [n]) →
      (∀ q, pget r (path ++ n :: q) = pget (lookup n xc) q) →
      ∃ r', apply r (f n).anc = .ok r' ∧ (∀ q, ¬ (path ++ [n]) <+: q → pget r' q = pget r q) ∧ VSP r' ∧
        (∀ p ∈ (f n).changePaths, DirParent r' p)) :
    ∀ r, VSP r → (∀ n ∈ ns, DirParent r (path ++ [n])) →
      (∀ n ∈ ns, ∀ q, pget r (path ++ n :: q) = pget (lookup n xc) q) →
      ∃ r', apply r (ns.flatMap fun n => (f n).anc) = .ok r' ∧
        (∀ q, (∀ n ∈ ns, ¬ (path ++ [n]) <+: q) → pget r' q = pget r q) ∧ VSP r' ∧
        (∀ n ∈ ns, ∀ p ∈ (f n).changePaths, DirParent r' p) := by
  induction ns with
  | nil => intro r hv _ _; exact ⟨r, by simp [apply], fun _ _ => rfl, hv, fun n hn => by cases hn⟩
  | cons n ns ihns =>
    intro r hv hdp hx
    have hnd' := List.nodup_cons.mp hnd
    obtain ⟨r1, h1, h1o, h1v, h1p⟩ := ih n (by simp) r hv (hdp n (by simp)) (hx n (by simp))
    have hdp1 : ∀ m ∈ ns, DirParent r1 (path ++ [m]) := by
      intro m hm
      refine (hdp m (by simp [hm])).of_outside ?_
      rw [List.dropLast_concat]
      exact h1o path (not_snoc_prefix_self path n)
    have hx1 : ∀ m ∈ ns, ∀ q, pget r1 (path ++ m :: q) = pget (lookup m xc) q := by
      intro m hm q
      have hne : ¬ n = m := fun h => hnd'.1 (h ▸ hm)
      have : ¬ (path ++ [n]) <+: (path ++ m :: q) := by
        rw [List.prefix_append_right_inj]; simp [hne]
      rw [h1o _ this]
      exact hx m (by simp [hm]) q
    obtain ⟨r2, h2, h2o, h2v, h2p⟩ := ihns hnd'.2 (fun m hm => hunder m (by simp [hm]))
      (fun m hm => ih m (by simp [hm])) r1 h1v hdp1 hx1
    refine ⟨r2, ?_, ?_, h2v, ?_⟩
    · simp only [List.flatMap_cons]
      rw [apply_append, h1]
      exact h2
    · intro q hq
      rw [h2o q (fun m hm => hq m (by simp [hm])), h1o q (hq n (by simp))]
    · intro m hm p hp
      rcases List.mem_cons.mp hm with rfl | hm'
      · refine (h1p p hp).of_outside ?_
        have hpre := hunder m (by simp) p hp
        have hnot : ∀ k ∈ ns, ¬ (path ++ [k]) <+: p.dropLast := by
          intro k hk hpk
          have hne : m ≠ k := fun h => hnd'.1 (h ▸ hk)
          exact (incomparable_of_children hne hpre (hpk.trans (List.dropLast_prefix p))).1
            (List.prefix_refl p)
        exact h2o _ hnot
      · exact h2p m hm' p hp

theorem valid_dir_child {p : Props} {cs : Contents} {n : Name} (hv : Valid (some (.mk p cs)))
    (hp : p.kind ≠ .phantom) (hn : n ∈ keys cs) : p.kind = .directory ∧ validName n = true := by
  have hvm := Entry.ensureValid_mk (p := p) (s := false) hv.2
  have hd : p.kind = .directory := by
    by_cases hd : p.kind = .directory
    · exact hd
    · have := hvm.2.2 hd hp
      subst this
      simp [keys] at hn
  obtain ⟨c, hc⟩ := Option.isSome_iff_exists.mp (lookup_isSome_iff.mpr hn)
  exact ⟨hd, (ensureValidL_mem (hvm.1 hd).2 hc).1⟩

theorem nodeOk_of_valid {p : Props} {cs : Contents} (hv : Valid (some (.mk p cs)))
    (h1 : p.kind ≠ .problematic) (h2 : p.kind ≠ .untracked) (h3 : p.kind ≠ .phantom) : NodeOk p := by
  have := hv.2
  simp only [oensureValid, Entry.ensureValid] at this
  unfold NodeOk
  cases hk : p.kind <;> simp_all

theorem vsp_leaf {p : Props} (h : NodeOk p) : VSP (some (.mk p [])) := by
  intro q pr hq
  cases q with
  | nil =>
    simp only [pget, getPath, Option.map_some, Option.some.injEq, Entry.props] at hq
    subst hq
    exact ⟨h, Or.inl rfl⟩
  | cons n q' => simp [pget, getPath, contents, Entry.children, lookup] at hq

/-- Applying the ancestor changes of a (sub-)plan keeps the tree path-wise
valid and leaves every planned endpoint change with a directory parent and a
valid name. -/
theorem reconcile_anc_vsp (mode : Mode) (path : Path) (a al be : Option Entry) :
    Valid al → Valid be → onoPhantom al = true → onoPhantom be = true →
    ∀ r, VSP r → DirParent r path → (∀ q, pget r (path ++ q) = pget a q) →
      ∃ r', apply r (reconcile mode path a al be).anc = .ok r' ∧
        (∀ q, ¬ path <+: q → pget r' q = pget r q) ∧ VSP r' ∧
        (∀ p ∈ (reconcile mode path a al be).changePaths, DirParent r' p) := by
  fun_induction reconcile mode path a al be with
  | case1 => intro _ _ _ _ r hv _ _; exact ⟨r, rfl, fun _ _ => rfl, hv, fun p hp => by cases hp⟩
  | case2 => intro _ _ _ _ r hv _ _; exact ⟨r, rfl, fun _ _ => rfl, hv, fun p hp => by cases hp⟩
  | case3 path ancestor alpha beta h1 h2 h3 h4 =>
    intro _ _ _ _ r hv hdp _
    obtain ⟨r', h1, h2, h3⟩ := apply_delete_vsp r path hv hdp
    exact ⟨r', h1, h2, h3, fun p hp => by cases hp⟩
  | case4 => intro _ _ _ _ r hv _ _; exact ⟨r, rfl, fun _ _ => rfl, hv, fun p hp => by cases hp⟩
  | case5 path ancestor alpha beta h1 h2 h3 h4 here anc' ih =>
    intro hα hβ hpα hpβ r hv hdp hx
    have hαsome : ∃ e, alpha = some e := by
      cases alpha with
      | some e => exact ⟨e, rfl⟩
      | none =>
        cases beta with
        | none => simp at h3
        | some b => simp [shallowEq] at h4
    obtain ⟨ae, rfl⟩ := hαsome
    cases ae with
    | mk p cs =>
    have hk1 : p.kind ≠ .problematic := by
      intro hk; exact h1 (by simp [isKind, Entry.kind, Entry.props, hk])
    have hk3 : p.kind ≠ .phantom := by
      have := isKind_phantom_of_noPhantom hpα
      intro hk; simp [isKind, Entry.kind, Entry.props, hk] at this
    have hk2 : p.kind ≠ .untracked := by
      intro hk
      apply h3
      cases beta with
      | none => simp [shallowEq] at h4
      | some b =>
        cases b with
        | mk pb ds =>
          have hb : pb = p := by
            simp only [shallowEq, Entry.props, beq_iff_eq] at h4; exact h4.symm
          simp [isKind, Entry.kind, Entry.props, hk, hb]
    have hok : NodeOk p := nodeOk_of_valid hα hk1 hk2 hk3
    -- Step 1: the change at `path` itself (if any).
    have step1 : ∃ r0, apply r here.anc = .ok r0 ∧ (∀ q, ¬ path <+: q → pget r0 q = pget r q) ∧ VSP r0 ∧
        pget r0 path = some p ∧
        (∀ n q, pget r0 (path ++ n :: q) = pget (lookup n (contents anc')) q) := by
      by_cases hs : shallowEq ancestor (some (.mk p cs)) = true
      · refine ⟨r, by simp [here, hs, apply], fun _ _ => rfl, hv, ?_, ?_⟩
        · have := hx []
          simp only [List.append_nil] at this
          rw [this]
          cases ancestor with
          | none => simp [shallowEq] at hs
          | some x =>
            cases x with
            | mk px xs =>
              simp only [shallowEq, Entry.props, beq_iff_eq] at hs
              simp [pget, getPath, Entry.props, hs]
        · intro n q
          have : anc' = ancestor := by simp [anc', ancestorForRecursion, hs]
          rw [this, hx (n :: q), pget_cons]
      · obtain ⟨r0, h1, h1q, h1v⟩ := applyChange_vsp r
          { path := path, new := ocopy .slim (some (.mk p cs)) } hv
          (by simpa [ocopy, Entry.copy] using vsp_leaf hok) hdp
        have hanc : anc' = none := by simp [anc', ancestorForRecursion, hs]
        refine ⟨r0, by simp [here, hs, Plan.ancChange, apply, h1], ?_, h1v, ?_, ?_⟩
        · intro q hq; rw [h1q]; simp [hq]
        · rw [h1q]; simp [ocopy, Entry.copy, pget, getPath, Entry.props]
        · intro n q
          rw [h1q, hanc]
          simp [ocopy, Entry.copy, pget, getPath, contents, Entry.children, lookup]
    obtain ⟨r0, h0, h0o, h0v, h0n, h0x⟩ := step1
    -- Every child name is valid and sits in a directory.
    have hdpc : ∀ n ∈ nameUnion [contents anc', contents (some (Entry.mk p cs)), contents beta],
        DirParent r0 (path ++ [n]) := by
      intro n hn
      obtain ⟨m, hm, hk⟩ := mem_nameUnion.mp hn
      simp only [List.mem_cons, List.not_mem_nil, or_false] at hm
      rcases hm with rfl | rfl | rfl
      · obtain ⟨c, hc⟩ := Option.isSome_iff_exists.mp (lookup_isSome_iff.mpr hk)
        have := h0x n []
        rw [hc] at this
        exact (h0v (path ++ [n]) c.props (by simpa [pget, getPath] using this)).2
      · rw [dirParent_snoc]
        obtain ⟨hd, hvn⟩ := valid_dir_child hα hk3 (by simpa [contents, Entry.children] using hk)
        exact ⟨⟨p, h0n, hd⟩, hvn⟩
      · rw [dirParent_snoc]
        cases beta with
        | none => simp [contents, keys] at hk
        | some b =>
          cases b with
          | mk pb ds =>
            have hb : pb = p := by
              simp only [shallowEq, Entry.props, beq_iff_eq] at h4; exact h4.symm
            subst hb
            obtain ⟨hd, hvn⟩ := valid_dir_child hβ hk3 (by simpa [contents, Entry.children] using hk)
            exact ⟨⟨pb, h0n, hd⟩, hvn⟩
    -- Step 2: the children.
    let f : Name → Plan := fun n =>
      reconcile mode (path ++ [n]) (lookup n (contents anc')) (lookup n (contents (some (Entry.mk p cs))))
        (lookup n (contents beta))
    have hch := anc_children_vsp path f (contents anc')
      (nameUnion [contents anc', contents (some (Entry.mk p cs)), contents beta]) (nodup_nameUnion _)
      (fun n _ p hp => reconcile_changePaths_under mode (path ++ [n]) _ _ _ p hp)
      (fun n hn r hvr hdr hxn => by
        have := ih ⟨n, hn⟩ (hα.lookup n) (hβ.lookup n) (onoPhantom_lookup hpα n) (onoPhantom_lookup hpβ n)
          r hvr hdr (fun q => by simpa using hxn q)
        exact this)
      r0 h0v hdpc (fun n _ q => h0x n q)
    obtain ⟨r', h1', h1o, h1v, h1p⟩ := hch
    have hanc : (here ++ Plan.concat
        ((nameUnion [contents anc', contents (some (Entry.mk p cs)), contents beta]).attach.map fun n =>
          reconcile mode (path ++ [n.1]) (lookup n.1 (contents anc'))
            (lookup n.1 (contents (some (Entry.mk p cs)))) (lookup n.1 (contents beta)))).anc =
        here.anc ++ (nameUnion [contents anc', contents (some (Entry.mk p cs)), contents beta]).flatMap
          (fun n => (f n).anc) := by
      simp only [Plan.append_anc, Plan.concat_anc, List.flatMap_map]
      congr 1
      exact flatMap_attach_val _ (fun n => (f n).anc)
    refine ⟨r', ?_, ?_, h1v, ?_⟩
    · rw [hanc, apply_append, h0]; exact h1'
    · intro q hq
      rw [h1o q (fun n _ => not_prefix_of_not_prefix n hq), h0o q hq]
    · intro pp hp
      have hh1 : here.alpha = [] := by simp only [here]; split <;> rfl
      have hh2 : here.beta = [] := by simp only [here]; split <;> rfl
      simp only [Plan.changePaths, Plan.append_alpha, Plan.append_beta, hh1, hh2, List.nil_append,
        Plan.concat_alpha, Plan.concat_beta, List.flatMap_map, List.mem_append, List.mem_map,
        List.mem_flatMap, List.mem_attach, true_and] at hp
      rcases hp with ⟨c, ⟨n, hc⟩, rfl⟩ | ⟨c, ⟨n, hc⟩, rfl⟩
      · exact h1p n.1 n.2 c.path (by
          simp only [Plan.changePaths, List.mem_append, List.mem_map]; exact Or.inl ⟨c, hc, rfl⟩)
      · exact h1p n.1 n.2 c.path (by
          simp only [Plan.changePaths, List.mem_append, List.mem_map]; exact Or.inr ⟨c, hc, rfl⟩)
  | case6 path ancestor alpha beta h1 h2 h3 h4 =>
    intro _ _ _ _ r hv hdp _
    have hcp := handleDisagreement_changePaths mode path ancestor alpha beta
    rcases handleDisagreement_anc mode path ancestor alpha beta with h | h
    · rw [h]
      exact ⟨r, rfl, fun _ _ => rfl, hv, fun p hp => by rw [hcp p hp]; exact hdp⟩
    · rw [h]
      obtain ⟨r', h1, h2, h3⟩ := apply_delete_vsp r path hv hdp
      exact ⟨r', h1, h2, h3, fun p hp => by rw [hcp p hp]; exact hdp.after_change_at h2⟩

/-- Valid entries installed at pairwise incomparable paths with directory
parents keep the tree path-wise valid. -/
theorem apply_incomparable_vsp (cs : List Change) :
    ∀ r, List.Pairwise (fun a b : Change => incomparable a.path b.path) cs → VSP r →
      (∀ c ∈ cs, DirParent r c.path ∧ VSP c.new) → ∃ r', apply r cs = .ok r' ∧ VSP r' := by
  induction cs with
  | nil => intro r _ hv _; exact ⟨r, rfl, hv⟩
  | cons c cs ih =>
    intro r hp hv hc
    rw [List.pairwise_cons] at hp
    obtain ⟨r1, h1, h1q, h1v⟩ := applyChange_vsp r c hv (hc c (by simp)).2 (hc c (by simp)).1
    have hc1 : ∀ d ∈ cs, DirParent r1 d.path ∧ VSP d.new := by
      intro d hd
      refine ⟨(hc d (by simp [hd])).1.of_outside ?_, (hc d (by simp [hd])).2⟩
      rw [h1q]
      have hinc := hp.1 d hd
      have : ¬ c.path <+: d.path.dropLast := fun hpre =>
        hinc.1 (hpre.trans (List.dropLast_prefix _))
      simp [this]
    obtain ⟨r', h', hv'⟩ := ih r1 hp.2 h1v hc1
    exact ⟨r', by simp [apply, h1, h'], hv'⟩

theorem handleDisagreement_anc_new (mode : Mode) (path : Path) (a al be : Option Entry) :
    ∀ c ∈ (handleDisagreement mode path a al be).anc, c.new = none := by
  intro c hc
  rcases handleDisagreement_anc mode path a al be with h | h
  · rw [h] at hc; cases hc
  · rw [h] at hc; simp at hc; subst hc; rfl

theorem reconcile_anc_new_nodup (mode : Mode) (path : Path) (a al be : Option Entry) :
    ∀ c ∈ (reconcile mode path a al be).anc, onodupKeys c.new = true := by
  fun_induction reconcile mode path a al be with
  | case1 => exact forall_mem_of_eq_nil rfl
  | case2 => exact forall_mem_of_eq_nil rfl
  | case3 => intro c hc; simp [Plan.ancChange] at hc; subst hc; rfl
  | case4 => exact forall_mem_of_eq_nil rfl
  | case5 path ancestor alpha beta h1 h2 h3 h4 here anc' ih =>
    intro c hc
    simp only [Plan.append_anc, Plan.concat_anc, List.flatMap_map, List.mem_append, List.mem_flatMap,
      List.mem_attach, true_and] at hc
    rcases hc with hc | ⟨n, hn⟩
    · simp only [here] at hc
      split at hc
      · simp [Plan.ancChange] at hc
        subst hc
        cases alpha with
        | none => rfl
        | some e => cases e; simp [ocopy, Entry.copy, onodupKeys, Entry.nodupKeys, Entry.nodupKeysL, keys]
      · cases hc
    · exact ih n c hn
  | case6 path ancestor alpha beta h1 h2 h3 h4 =>
    intro c hc
    rw [handleDisagreement_anc_new mode path ancestor alpha beta c hc]
    rfl

/-- **Valid and faithful**: for a valid synchronizable ancestor, valid endpoint
trees without phantom directories and *every* family of valid synchronizable
result entries, the controller's ancestor update succeeds, the new ancestor
passes `EnsureValid(true)` (and is a genuine map at every level), and it
records at each transitioned path exactly the reported entry. -/
theorem ancestor_update_valid (mode : Mode) (A alpha beta : Option Entry) (resα resβ : List Change)
    (hA : ValidSync A) (hal : Valid alpha) (hbe : Valid beta)
    (hpα : onoPhantom alpha = true) (hpβ : onoPhantom beta = true)
    (hres : ∀ c ∈ resα ++ resβ, ValidSync c.new)
    (hα : resα.map (·.path) = (Reconcile A alpha beta mode).alpha.map (·.path))
    (hβ : resβ.map (·.path) = (Reconcile A alpha beta mode).beta.map (·.path)) :
    ∃ A', apply A ((Reconcile A alpha beta mode).anc ++ (resα ++ resβ)) = .ok A' ∧ ValidSync A' ∧
      ∀ c ∈ resα ++ resβ, SameTree (getPath A' c.path) c.new := by
  obtain ⟨r1, h1, _, h1v, h1p⟩ := reconcile_anc_vsp mode [] A alpha beta hal hbe hpα hpβ A
    (vsp_of_validSync hA) (Or.inl rfl) (fun q => rfl)
  have hpaths : (resα ++ resβ).map (·.path) = (Reconcile A alpha beta mode).changePaths := by
    simp [Plan.changePaths, hα, hβ]
  have hinc : List.Pairwise (fun a b : Change => incomparable a.path b.path) (resα ++ resβ) := by
    have := (reconcile_actions mode [] A alpha beta).2.sublist
      (Plan.changePaths_sublist (Reconcile A alpha beta mode))
    rw [← hpaths] at this
    exact List.pairwise_map.mp this
  obtain ⟨A', h2, h2v⟩ := apply_incomparable_vsp (resα ++ resβ) r1 hinc h1v (fun c hc => by
    have hm : c.path ∈ (Reconcile A alpha beta mode).changePaths := by
      rw [← hpaths]; exact List.mem_map.mpr ⟨c, hc, rfl⟩
    exact ⟨h1p c.path hm, vsp_of_validSync (hres c hc)⟩)
  have happ : apply A ((Reconcile A alpha beta mode).anc ++ (resα ++ resβ)) = .ok A' := by
    rw [apply_append]
    have : apply A (Reconcile A alpha beta mode).anc = .ok r1 := h1
    rw [this]
    exact h2
  have hnd : onodupKeys A' = true := by
    apply apply_nodupKeys hA.1 _ happ
    intro c hc
    rcases List.mem_append.mp hc with hc | hc
    · exact reconcile_anc_new_nodup mode [] A alpha beta c hc
    · exact (hres c hc).1
  exact ⟨A', happ, validSync_of_vsp hnd h2v,
    ancestor_update_faithful mode A alpha beta resα resβ hα hβ A' happ⟩

end Mutagen.Model
