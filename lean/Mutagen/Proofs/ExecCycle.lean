import Mutagen.Proofs.Executability
import Mutagen.Proofs.ReconcileShape
import Mutagen.Proofs.ReconcileLeaf
import Mutagen.Proofs.ApplyAt
import Mutagen.Proofs.Valid
/-!
The ideal cycle at a path where both endpoints hold a file, one endpoint (P)
preserving executability and the other (N) not: what the preserving side
records at that path after `PropagateExecutability`, `Reconcile` and `Apply`.
-/
namespace Mutagen.Proofs.ExecCycle
open Mutagen.Model Mutagen.Proofs.Executability Mutagen.Proofs.ReconcileShape Mutagen.Proofs.ReconcileLeaf
  Mutagen.Proofs.Valid

/-- The non-preserving side's content after propagation, as a function on `Option`. -/
def prop (a p n : Option Entry) : Option Entry := n.map fun e => e.propagate a p

theorem prop_eq (A P N : Option Entry) : propagateExecutability A P N = prop A P N := by
  cases N <;> rfl

theorem isKind_dir_some {x : Option Entry} (h : isKind x .directory = true) :
    ∃ e, x = some e ∧ e.kind = .directory := by
  cases x with
  | none => simp [isKind] at h
  | some e => exact ⟨e, rfl, by simpa [isKind] using h⟩

/-- Below a directory, propagation commutes with looking a name up. -/
theorem lookup_prop (a p n : Option Entry) (k : Name) (hn : isKind n .directory = true) :
    lookup k (contents (prop a p n)) =
      prop (lookup k (contents a)) (lookup k (contents p)) (lookup k (contents n)) := by
  obtain ⟨e, rfl, hk⟩ := isKind_dir_some hn
  obtain ⟨pe, cs⟩ := e
  have hk' : (pe.kind == Kind.directory) = true := by simpa [Entry.kind, Entry.props] using hk
  show lookup k ((Entry.mk pe cs).propagate a p).children =
    (lookup k cs).map (fun e => e.propagate (lookup k (contents a)) (lookup k (contents p)))
  rw [propagate_children]
  simp only [hk', if_true]
  exact lookup_propagateL k (contents a) (contents p) cs

theorem props_prop_dir (a p : Option Entry) (e : Entry) (hk : e.kind = .directory) :
    (e.propagate a p).props = e.props := by
  obtain ⟨pe, cs⟩ := e
  have : (pe.kind == Kind.file) = false := by
    simp only [Entry.kind, Entry.props] at hk; simp [hk]
  rw [propagate_props]
  simp [this, Entry.props]

/-- The ancestor's contents survive `ancestorForRecursion` next to a valid directory. -/
theorem contents_ancestorForRecursion (a : Option Entry) (e : Entry)
    (ha : oensureValid true a = true) (hp : e.props = { kind := .directory }) :
    contents (ancestorForRecursion a (some e)) = contents a := by
  unfold ancestorForRecursion
  split
  · rfl
  · rename_i hs
    cases a with
    | none => rfl
    | some ea =>
      by_cases hk : ea.kind = .directory
      · exfalso
        apply hs
        have := valid_dir_props true ea ha hk
        simp [shallowEq, this, hp]
      · simp [contents, valid_sync_nondir_children ea ha hk]

/-- Propagation onto a childless file. -/
theorem propagate_leaf (a p : Option Entry) (pN : Props) (hkN : pN.kind = .file) :
    propagateExecutability a p (leaf pN) = leaf { pN with executable := execRule a p pN } := by
  simp only [propagateExecutability, leaf]
  have hp := propagate_props pN [] a p
  have hc := propagate_children pN [] a p
  have hf : (pN.kind == Kind.file) = true := by simp [hkN]
  have hd : (pN.kind == Kind.directory) = false := by simp [hkN]
  simp only [hf, hd, if_true, Bool.false_eq_true, if_false] at hp hc
  cases he : Entry.propagate a p (Entry.mk pN []) with
  | mk p' cs' =>
    rw [he] at hp hc
    simp only [Entry.props, Entry.children] at hp hc
    rw [hp, hc]

/-- The chain of shallowly equal directories from the roots down to `q`, in
either orientation, and what the non-preserving side holds at `q` after
propagation. -/
theorem along_prop (q : Path) : ∀ (a p n : Option Entry),
    oensureValid true a = true → oensureValid false p = true → oensureValid false n = true →
    dirsAbove p q = true → dirsAbove n q = true →
    Along a p (prop a p n) q ∧ Along a (prop a p n) p q ∧
      getPath (prop a p n) q = prop (getPath a q) (getPath p q) (getPath n q) := by
  induction q with
  | nil => intro a p n _ _ _ _ _; exact ⟨trivial, trivial, rfl⟩
  | cons k r ih =>
    intro a p n ha hp hn hdp hdn
    simp only [dirsAbove, Bool.and_eq_true] at hdp hdn
    obtain ⟨ep, rfl, hkp⟩ := isKind_dir_some hdp.1
    obtain ⟨en, rfl, hkn⟩ := isKind_dir_some hdn.1
    have hpp := valid_dir_props false ep hp hkp
    have hnp := valid_dir_props false en hn hkn
    have hn'p : (en.propagate a (some ep)).props = { kind := .directory } := by
      rw [props_prop_dir _ _ _ hkn, hnp]
    have hkn' : isKind (prop a (some ep) (some en)) .directory = true := by
      simp [prop, isKind, Entry.kind, hn'p]
    have hlk := lookup_prop a (some ep) (some en) k hdn.1
    obtain ⟨i1, i2, i3⟩ := ih (lookup k (contents a)) (lookup k (contents (some ep))) (lookup k (contents (some en)))
      (ovalid_lookup true a k ha) (ovalid_lookup false _ k hp) (ovalid_lookup false _ k hn) hdp.2 hdn.2
    refine ⟨⟨hdp.1, hkn', ?_, contents_ancestorForRecursion a ep ha hpp, ?_⟩,
      ⟨hkn', hdp.1, ?_, contents_ancestorForRecursion a _ ha hn'p, ?_⟩, ?_⟩
    · simp [prop, shallowEq, hpp, hn'p]
    · rw [hlk]; exact i1
    · simp [prop, shallowEq, hpp, hn'p]
    · rw [hlk]; exact i2
    · show getPath (lookup k (contents (prop a (some ep) (some en)))) r = _
      rw [hlk]; exact i3

/-- What P records at `q` after the cycle: what it recorded before, or the file
N holds after propagation — the latter only when `reconcile` emits a change
for P at the node. -/
structure After (mode : Mode) (nAlpha : Bool) (a : Option Entry) (pP pN' : Props) (o : Option Props) : Prop where
  cases : o = some pP ∨
    (o = some pN' ∧
      (if nAlpha then
        shallowEq (leaf pN') (leaf pP) = false ∧ emitted mode false (shallowEq (leaf pN') a) (shallowEq (leaf pP) a)
      else
        shallowEq (leaf pP) (leaf pN') = false ∧ emitted mode true (shallowEq (leaf pP) a) (shallowEq (leaf pN') a)))

/-- The entry of a valid tree at a path where it records a file. -/
theorem file_at (t : Option Entry) (q : Path) (p : Props) (hv : oensureValid false t = true)
    (h : propsAt t q = some p) (hk : p.kind = .file) :
    getPath t q = leaf p ∧ p.target = "" ∧ p.problem = "" := by
  have hv' := ovalid_getPath false q t hv
  simp only [propsAt] at h
  cases hg : getPath t q with
  | none => simp [hg] at h
  | some e =>
    obtain ⟨pe, cs⟩ := e
    simp only [hg, Option.map_some, Entry.props, Option.some.injEq] at h
    subst h
    rw [hg] at hv'
    obtain ⟨h1, h2, h3⟩ := valid_file false pe cs hv' hk
    subst h1
    exact ⟨rfl, h2, h3⟩

/-- The main lemma: the scalar fields P records at `q` after the ideal cycle. -/
theorem after_cycle (mode : Mode) (A P N : Option Entry) (nAlpha : Bool) (q : Path) (pP pN : Props)
    (hA : oensureValid true A = true) (hP : oensureValid false P = true) (hN : oensureValid false N = true)
    (hdP : dirsAbove P q = true) (hdN : dirsAbove N q = true)
    (hPq : propsAt P q = some pP) (hkP : pP.kind = .file)
    (hNq : propsAt N q = some pN) (hkN : pN.kind = .file) (P' : Option Entry)
    (happ : apply P (if nAlpha then (Reconcile A (propagateExecutability A P N) P mode).beta
                      else (Reconcile A P (propagateExecutability A P N) mode).alpha) = .ok P') :
    After mode nAlpha (getPath A q) pP
      { pN with executable := execRule (getPath A q) (leaf pP) pN } (propsAt P' q) := by
  obtain ⟨hPl, _, _⟩ := file_at P q pP hP hPq hkP
  obtain ⟨hNl, _, _⟩ := file_at N q pN hN hNq hkN
  obtain ⟨al1, al2, hN'q⟩ := along_prop q A P N hA hP hN hdP hdN
  rw [prop_eq] at happ
  -- what N holds at q after propagation
  have hN'l : getPath (prop A P N) q = leaf { pN with executable := execRule (getPath A q) (leaf pP) pN } := by
    rw [hN'q, hNl, hPl]
    simp only [prop, leaf, Option.map_some]
    have hp := propagate_props pN [] (getPath A q) (some (Entry.mk pP []))
    have hc := propagate_children pN [] (getPath A q) (some (Entry.mk pP []))
    have hf : (pN.kind == Kind.file) = true := by simp [hkN]
    have hd : (pN.kind == Kind.directory) = false := by simp [hkN]
    simp only [hf, hd, if_true, Bool.false_eq_true, if_false] at hp hc
    cases he : Entry.propagate (getPath A q) (some (Entry.mk pP [])) (Entry.mk pN []) with
    | mk p' cs' =>
      rw [he] at hp hc
      simp only [Entry.props, Entry.children] at hp hc
      rw [hp, hc]
  have hAleaf : isKind (getPath A q) .file = true → contents (getPath A q) = [] := by
    intro hk
    have hv := ovalid_getPath true q A hA
    cases hg : getPath A q with
    | none => rfl
    | some e =>
      rw [hg] at hv hk
      have : e.kind ≠ .directory := by
        simp only [isKind, beq_iff_eq] at hk; simp [hk]
      simp [contents, valid_sync_nondir_children e hv this]
  have hkN' : ({ pN with executable := execRule (getPath A q) (leaf pP) pN } : Props).kind = .file := hkN
  refine ApplyAt.apply_preserves (After mode nAlpha (getPath A q) pP _) q _ ?_ P P' ?_ happ
  · intro c hc hpre
    cases nAlpha with
    | true =>
      simp only [if_true] at hc
      have hc' : c ∈ side false (reconcile mode [] A (prop A P N) P) := by simpa [side, Reconcile] using hc
      have := reconcile_descend mode false q [] A (prop A P N) P al2 c hc' (Or.inl (by simpa using hpre))
      simp only [List.nil_append, hN'l, hPl] at this
      obtain ⟨h1, h2, h3, h4⟩ := reconcile_leaf mode false q (getPath A q) _ pP hkN' hkP hAleaf c this
      rw [h1, h2]
      simp only [List.drop_length, getPath, Bool.false_eq_true, if_false, leaf, Option.map_some, Entry.props]
      exact ⟨Or.inr ⟨rfl, by simpa using ⟨h3, h4⟩⟩⟩
    | false =>
      simp only [Bool.false_eq_true, if_false] at hc
      have hc' : c ∈ side true (reconcile mode [] A P (prop A P N)) := by simpa [side, Reconcile] using hc
      have := reconcile_descend mode true q [] A P (prop A P N) al1 c hc' (Or.inl (by simpa using hpre))
      simp only [List.nil_append, hN'l, hPl] at this
      obtain ⟨h1, h2, h3, h4⟩ := reconcile_leaf mode true q (getPath A q) pP _ hkP hkN' hAleaf c this
      rw [h1, h2]
      simp only [List.drop_length, getPath, if_true, leaf, Option.map_some, Entry.props]
      exact ⟨Or.inr ⟨rfl, by simpa using ⟨h3, h4⟩⟩⟩
  · exact ⟨Or.inl hPq⟩

/-! ## When the bit survives -/

/-- Documented deviation 1 (`alpha-nonpreserving-wins`): the non-preserving
side is alpha in a mode where alpha wins, and its content at the path differs
from both the preserving side's and the ancestor's. -/
def AlphaNonpreservingWins (mode : Mode) (nAlpha : Bool) (a : Option Entry) (pP pN : Props) : Prop :=
  nAlpha = true ∧ (mode = .twoWayResolved ∨ mode = .oneWayReplica) ∧ pN.digest ≠ pP.digest ∧
    fileWithDigest a pN.digest = false

/-- Documented deviation 2 (`replica-reverts-to-ancestor`): one-way-replica
with the non-preserving side as alpha, which still holds the ancestor's
content while the preserving side modified it. -/
def ReplicaRevertsToAncestor (mode : Mode) (nAlpha : Bool) (a : Option Entry) (pP pN : Props) : Prop :=
  nAlpha = true ∧ mode = .oneWayReplica ∧ pN.digest ≠ pP.digest ∧ fileWithDigest a pN.digest = true

theorem shallowEq_leaf_iff (p : Props) (a : Option Entry) :
    shallowEq (leaf p) a = true ↔ ∃ cs, a = some (.mk p cs) := by
  cases a with
  | none => simp [shallowEq, leaf]
  | some e =>
    obtain ⟨pe, cs⟩ := e
    simp only [shallowEq, leaf, Entry.props, beq_iff_eq, Option.some.injEq, Entry.mk.injEq]
    constructor
    · intro h; exact ⟨cs, h.symm, rfl⟩
    · rintro ⟨cs', h, _⟩; exact h.symm

/-- From `After` to the executable bit: outside the two documented deviations
the preserving side keeps a file with its own bit. -/
theorem exec_of_after (mode : Mode) (nAlpha : Bool) (a : Option Entry) (pP pN : Props) (o : Option Props)
    (ha : oensureValid true a = true) (hkP : pP.kind = .file) (hkN : pN.kind = .file)
    (hNt : pN.target = "" ∧ pN.problem = "")
    (h : After mode nAlpha a pP { pN with executable := execRule a (leaf pP) pN } o)
    (h1 : ¬ AlphaNonpreservingWins mode nAlpha a pP pN)
    (h2 : ¬ ReplicaRevertsToAncestor mode nAlpha a pP pN) :
    ∃ p', o = some p' ∧ p'.kind = .file ∧ p'.executable = pP.executable := by
  rcases h.cases with h | ⟨ho, hcond⟩
  · exact ⟨pP, h, hkP, rfl⟩
  refine ⟨_, ho, hkN, ?_⟩
  show execRule a (leaf pP) pN = pP.executable
  by_cases r1 : fileWithDigest (leaf pP) pN.digest = true
  · unfold execRule; rw [if_pos r1]; rfl
  have hdig : pN.digest ≠ pP.digest := by
    intro e; apply r1; simp [fileWithDigest, leaf, Entry.kind, Entry.props, hkP, e]
  by_cases r2 : fileWithDigest a pN.digest = true
  · -- N still holds the ancestor's content: after propagation it *is* the ancestor's file
    exfalso
    have hx : execRule a (leaf pP) pN = oexec a := by unfold execRule; rw [if_neg r1, if_pos r2]
    rw [hx] at hcond
    obtain ⟨ea, rfl, hka, hda⟩ : ∃ ea, a = some ea ∧ ea.kind = .file ∧ ea.props.digest = pN.digest := by
      cases a with
      | none => simp [fileWithDigest] at r2
      | some ea => exact ⟨ea, rfl, by simpa [fileWithDigest] using r2⟩
    obtain ⟨pa, cs⟩ := ea
    simp only [Entry.kind, Entry.props] at hka hda
    obtain ⟨_, hat, hap⟩ := valid_file true pa cs ha hka
    have hN'a : shallowEq (leaf { pN with executable := oexec (some (Entry.mk pa cs)) }) (some (Entry.mk pa cs)) = true := by
      rw [shallowEq_leaf_iff]
      refine ⟨cs, ?_⟩
      obtain ⟨k, x, d, t, pr⟩ := pa
      obtain ⟨k', x', d', t', pr'⟩ := pN
      simp_all [oexec, Entry.props]
    cases nAlpha with
    | true =>
      simp only [if_true, hN'a] at hcond
      obtain ⟨hne, hem⟩ := hcond
      have heb : shallowEq (leaf pP) (some (Entry.mk pa cs)) = false := by
        cases hb : shallowEq (leaf pP) (some (Entry.mk pa cs)) with
        | false => rfl
        | true =>
          exfalso
          obtain ⟨cs1, e1⟩ := (shallowEq_leaf_iff _ _).mp hb
          obtain ⟨cs2, e2⟩ := (shallowEq_leaf_iff _ _).mp hN'a
          have e1' : pa = pP := by injection e1 with e1; injection e1 with x _
          have e2' : pa = { pN with executable := oexec (some (Entry.mk pa cs)) } := by
            injection e2 with e2; injection e2 with x _
          rw [← e2', e1'] at hne
          simp [shallowEq, leaf] at hne
      rw [heb] at hem
      cases mode <;> simp [emitted] at hem
      exact h2 ⟨rfl, rfl, hdig, r2⟩
    | false =>
      simp only [Bool.false_eq_true, if_false, hN'a] at hcond
      simp [emitted] at hcond
  by_cases r3 : sourceUnmodified a (leaf pP) = true
  · unfold execRule; rw [if_neg r1, if_neg r2, if_pos r3]; rfl
  -- both sides modified the content: neither is the ancestor's file
  exfalso
  have hx : execRule a (leaf pP) pN = pN.executable := by
    unfold execRule; rw [if_neg r1, if_neg r2, if_neg r3]
  rw [hx] at hcond
  have hea : shallowEq (leaf pP) a = false := by
    cases hb : shallowEq (leaf pP) a with
    | false => rfl
    | true =>
      exfalso; apply r3
      obtain ⟨cs1, e1⟩ := (shallowEq_leaf_iff _ _).mp hb
      subst e1
      simp [sourceUnmodified, leaf, Entry.kind, Entry.props, hkP]
  have heb : shallowEq (leaf { pN with executable := pN.executable }) a = false := by
    cases hb : shallowEq (leaf { pN with executable := pN.executable }) a with
    | false => rfl
    | true =>
      exfalso; apply r2
      obtain ⟨cs1, e1⟩ := (shallowEq_leaf_iff _ _).mp hb
      subst e1
      simp [fileWithDigest, Entry.kind, Entry.props, hkN]
  cases nAlpha with
  | true =>
    simp only [if_true, hea, heb] at hcond
    obtain ⟨_, hem⟩ := hcond
    cases mode <;> simp [emitted] at hem
    · exact h1 ⟨rfl, Or.inl rfl, hdig, by simpa using r2⟩
    · exact h1 ⟨rfl, Or.inr rfl, hdig, by simpa using r2⟩
  | false =>
    simp only [Bool.false_eq_true, if_false, hea, heb] at hcond
    simp [emitted] at hcond

end Mutagen.Proofs.ExecCycle
