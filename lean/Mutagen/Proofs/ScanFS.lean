import Mutagen.Model.ScanFS
/-!
Specification-side definitions and lemmas for the scan model (C12).
-/
namespace Mutagen.Proofs.ScanFS
open Mutagen.Model Mutagen.Model.ScanFS

/-! ## What is counted in an entry tree -/

def isDirKind (k : Kind) : Bool := k == .directory || k == .phantom

mutual
/-- Number of entries whose kind satisfies `f`. -/
def countKind (f : Kind → Bool) : Entry → Nat
  | .mk p cs => (if f p.kind then 1 else 0) + countKindL f cs
def countKindL (f : Kind → Bool) : Contents → Nat
  | [] => 0
  | (_, c) :: r => countKind f c + countKindL f r
end

/-- Directories as the scanner counts them: tracked and phantom. -/
def nDirs (e : Entry) : Nat := countKind isDirKind e
def nFiles (e : Entry) : Nat := countKind (· == .file) e
def nLinks (e : Entry) : Nat := countKind (· == .symlink) e

mutual
/-- Every name at every level satisfies `P`. -/
def allNames (P : Name → Bool) : Entry → Bool
  | .mk _ cs => allNamesL P cs
def allNamesL (P : Name → Bool) : Contents → Bool
  | [] => true
  | (n, c) :: r => P n && allNames P c && allNamesL P r
end

/-- The name does not start with `filesystem.TemporaryNamePrefix`. -/
def noTemporaryPrefix (n : Name) : Bool :=
  !(Mutagen.Facts.scanTemporaryNamePrefix.toList.isPrefixOf n.toList)

/-! ## The name under which scan records a directory entry -/

/-- scan.go:398-435: `none` for temporary names (skipped), otherwise the name
of the entry in the content map. -/
def entryName (cfg : Cfg) (raw : Bytes) : Option Name :=
  if hasTemporaryPrefix raw then none else
  match cfg.utf8 raw with
  | none => some (cfg.escape raw ++ " (non-UTF-8)")
  | some s => some (if cfg.decomposes then cfg.nfc s else s)

def entryNames (cfg : Cfg) (cs : Children) : List Name := cs.filterMap fun c => entryName cfg c.1

mutual
/-- Hypothesis on the tree and the abstract name functions: every recorded
name satisfies `P`, and within one directory the recorded names are pairwise
different (no two directory entries collapse to the same map key). -/
def NamesOK (cfg : Cfg) (P : Name → Bool) : Node → Prop
  | .dir _ cs => (entryNames cfg cs).Nodup ∧ NamesOKL cfg P cs
  | _ => True
def NamesOKL (cfg : Cfg) (P : Name → Bool) : Children → Prop
  | [] => True
  | (raw, n) :: r => (∀ s, entryName cfg raw = some s → P s = true) ∧ NamesOK cfg P n ∧ NamesOKL cfg P r
end

/-! ## Scanner state invariant: size = sum over the new cache, one cache entry per file -/

def cacheSizes (c : Cache) : Nat := (c.map (·.2.size)).sum

def StInv (st : St) : Prop := st.size = cacheSizes st.newCache ∧ st.newCache.length = st.files

/-! ## Lemmas about content maps -/

theorem lookup_none_of_not_mem {n : Name} {cs : Contents} (h : n ∉ keys cs) : lookup n cs = none := by
  induction cs with
  | nil => rfl
  | cons hd t ih =>
    obtain ⟨m, e⟩ := hd
    simp only [keys, List.map_cons, List.mem_cons, not_or] at h
    simp only [lookup]
    rw [if_neg (fun hh => h.1 hh.symm)]
    exact ih (by simpa [keys] using h.2)

theorem keys_upsert (n : Name) (e : Entry) (cs : Contents) (h : n ∉ keys cs) :
    keys (upsert n e cs) = keys cs ++ [n] := by
  induction cs with
  | nil => rfl
  | cons hd t ih =>
    obtain ⟨m, c⟩ := hd
    simp only [keys, List.map_cons, List.mem_cons, not_or] at h
    simp only [upsert]
    rw [if_neg (fun hh => h.1 hh.symm)]
    simp only [keys, List.map_cons, List.cons_append, List.cons.injEq, true_and]
    exact ih (by simpa [keys] using h.2)

theorem countKindL_upsert (f : Kind → Bool) (n : Name) (e : Entry) (cs : Contents) (h : n ∉ keys cs) :
    countKindL f (upsert n e cs) = countKindL f cs + countKind f e := by
  induction cs with
  | nil => simp [upsert, countKindL]
  | cons hd t ih =>
    obtain ⟨m, c⟩ := hd
    simp only [keys, List.map_cons, List.mem_cons, not_or] at h
    simp only [upsert]
    rw [if_neg (fun hh => h.1 hh.symm)]
    simp only [countKindL]
    rw [ih (by simpa [keys] using h.2)]
    omega

theorem ensureValidL_upsert (n : Name) (e : Entry) (cs : Contents)
    (hn : validName n = true) (he : e.ensureValid false = true) (hcs : Entry.ensureValidL false cs = true) :
    Entry.ensureValidL false (upsert n e cs) = true := by
  induction cs with
  | nil => simp [upsert, Entry.ensureValidL, hn, he]
  | cons hd t ih =>
    obtain ⟨m, c⟩ := hd
    simp only [Entry.ensureValidL, Bool.and_eq_true] at hcs
    simp only [upsert]
    split
    · simp [Entry.ensureValidL, hn, he, hcs.2]
    · simp [Entry.ensureValidL, hcs.1.1, hcs.1.2, ih hcs.2]

theorem allNamesL_upsert (P : Name → Bool) (n : Name) (e : Entry) (cs : Contents)
    (hn : P n = true) (he : allNames P e = true) (hcs : allNamesL P cs = true) :
    allNamesL P (upsert n e cs) = true := by
  induction cs with
  | nil => simp [upsert, allNamesL, hn, he]
  | cons hd t ih =>
    obtain ⟨m, c⟩ := hd
    simp only [allNamesL, Bool.and_eq_true] at hcs
    simp only [upsert]
    split
    · simp [allNamesL, hn, he, hcs.2]
    · simp [allNamesL, hcs.1.1, hcs.1.2, ih hcs.2]

/-! ## Handler postconditions -/

/-- What a handler guarantees about the entry it returns and the scanner state. -/
structure Good (P : Name → Bool) (st st' : St) (e : Entry) : Prop where
  valid : e.ensureValid false = true
  names : allNames P e = true
  dirs : st'.dirs = st.dirs + nDirs e
  files : st'.files = st.files + nFiles e
  links : st'.links = st.links + nLinks e
  inv : StInv st → StInv st'

/-- Postcondition of a handler call. -/
def ResGood (P : Name → Bool) (st : St) : Res × St → Prop
  | (.entry e, st') => Good P st st' e
  | (.notExist, st') => st' = st
  | (.abort, _) => True

theorem good_leaf0 (P : Name → Bool) (st : St) (e : Entry) (hv : e.ensureValid false = true)
    (hk : e.children = []) (hkind : e.kind = .untracked ∨ e.kind = .problematic) : Good P st st e := by
  obtain ⟨p, cs⟩ := e
  simp only [Entry.children] at hk
  subst hk
  simp only [Entry.kind, Entry.props] at hkind
  refine ⟨hv, by simp [allNames, allNamesL], ?_, ?_, ?_, id⟩ <;>
    rcases hkind with h | h <;> simp [nDirs, nFiles, nLinks, countKind, countKindL, h, isDirKind]

theorem good_problematic (P : Name → Bool) (st : St) (msg : String) (h : msg ≠ "") :
    Good P st st (problematic msg) := by
  apply good_leaf0
  · simp [problematic, Entry.ensureValid, h]
  · rfl
  · right; rfl

theorem good_untracked (P : Name → Bool) (st : St) : Good P st st untracked := by
  apply good_leaf0
  · simp [untracked, Entry.ensureValid]
  · rfl
  · left; rfl

theorem fileDigest_error (cfg : Cfg) (path : String) (isRoot : Bool) (content : Bytes) (size : Nat)
    (cached : Option CacheEntry) (m : Bool) (r : Res)
    (h : fileDigest cfg path isRoot content size cached m = .error r) :
    r = .notExist ∨ ∃ msg, msg ≠ "" ∧ r = .entry (problematic msg) := by
  unfold fileDigest at h
  generalize (if isRoot = true then Fault.none else cfg.openFileFault path) = f at h
  have key : ∀ (x : Except Res Bytes), x = .error r →
      (x = .error .notExist ∨ x = .error (.entry (problematic "unable to open file")) ∨
       x = .error (.entry (problematic "hashed size mismatch")) ∨ ∃ d, x = .ok d) →
      r = .notExist ∨ ∃ msg, msg ≠ "" ∧ r = .entry (problematic msg) := by
    intro x hx hcases
    subst hx
    rcases hcases with h | h | h | ⟨d, h⟩
    · cases h; left; rfl
    · cases h; right; exact ⟨_, by decide, rfl⟩
    · cases h; right; exact ⟨_, by decide, rfl⟩
    · cases h
  apply key _ h
  cases cached <;> cases m <;> cases f <;> simp <;> (try split) <;> simp_all

theorem fileDigest_ok_cold (cfg : Cfg) (path : String) (isRoot : Bool) (content : Bytes) (size : Nat)
    (m : Bool) (d : Bytes)
    (h : fileDigest cfg path isRoot content size none m = .ok d) :
    d = cfg.hash content ∧ content.length = size := by
  unfold fileDigest at h
  generalize (if isRoot = true then Fault.none else cfg.openFileFault path) = f at h
  cases f <;> simp at h
  by_cases hl : content.length = size
  · simp [hl] at h; exact ⟨h.symm, hl⟩
  · simp [hl] at h

theorem fileCacheEntry_cold (reusable : Bool) (mode : Nat) (mtime : MTime) (size ino : Nat) (digest : Bytes) (ce : CacheEntry)
    (h : fileCacheEntry none reusable mode mtime size ino digest = some ce) :
    ce = { mode := mode, mtime := mtime, size := size, fileID := ino, digest := digest } := by
  unfold fileCacheEntry at h
  simp at h
  exact h.2.symm

theorem scanFile_good (cfg : Cfg) (acc : Accel) (P : Name → Bool) (hc : acc.cache = [])
    (hH : ∀ c, cfg.hash c ≠ [])
    (path : String) (isRoot : Bool) (content : Bytes) (perm : Nat) (mtime : MTime) (size ino : Nat) (st : St) :
    ResGood P st (scanFile cfg acc path isRoot content perm mtime size ino st) := by
  unfold scanFile
  simp only [hc, alookup]
  split
  · rename_i r hr
    rcases fileDigest_error _ _ _ _ _ _ _ _ hr with h | ⟨msg, hm, h⟩
    · subst h; rfl
    · subst h; exact good_problematic P st msg hm
  · rename_i digest hd
    obtain ⟨hdig, _⟩ := fileDigest_ok_cold _ _ _ _ _ _ _ hd
    split
    · exact good_problematic P st _ (by decide)
    · rename_i ce hce
      have hsz := fileCacheEntry_cold _ _ _ _ _ _ _ hce
      refine ⟨?_, by simp [allNames, allNamesL], ?_, ?_, ?_, ?_⟩
      · simp [Entry.ensureValid, hdig, hH]
      · simp [nDirs, countKind, countKindL, isDirKind]
      · simp [nFiles, countKind, countKindL]
      · simp [nLinks, countKind, countKindL]
      · intro ⟨h1, h2⟩
        subst hsz
        constructor
        · simp [cacheSizes] at *; omega
        · simp [h2]

theorem linkTarget_error (cfg : Cfg) (path target : String) (portable : Bool) (e : Entry)
    (h : linkTarget cfg path target portable = .error e) : ∃ msg, msg ≠ "" ∧ e = problematic msg := by
  unfold linkTarget at h
  cases portable
  · by_cases ht : target = ""
    · simp [ht] at h; exact ⟨_, by decide, h.symm⟩
    · simp [ht] at h
  · simp at h
    split at h
    · cases h; exact ⟨_, by decide, rfl⟩
    · cases h

theorem linkTarget_ok (cfg : Cfg) (hN : ∀ p t t', cfg.normalize p t = some t' → t' ≠ "")
    (path target : String) (portable : Bool) (t : String)
    (h : linkTarget cfg path target portable = .ok t) : t ≠ "" := by
  unfold linkTarget at h
  cases portable
  · by_cases h0 : target = ""
    · simp [h0] at h
    · simp [h0] at h; rw [← h]; exact h0
  · simp at h
    split at h
    · cases h
    · rename_i t' hn; cases h; exact hN _ _ _ hn

theorem scanSymlink_good (cfg : Cfg) (P : Name → Bool)
    (hN : ∀ p t t', cfg.normalize p t = some t' → t' ≠ "")
    (path : String) (link : Fault × String) (portable : Bool) (st : St) :
    ResGood P st (scanSymlink cfg path link portable st) := by
  unfold scanSymlink
  split
  · rfl
  · exact good_problematic P st _ (by decide)
  · split
    · rename_i e he
      obtain ⟨msg, hm, rfl⟩ := linkTarget_error _ _ _ _ _ he
      exact good_problematic P st msg hm
    · rename_i t ht
      have hne := linkTarget_ok cfg hN _ _ _ _ ht
      refine ⟨?_, by simp [allNames, allNamesL], ?_, ?_, ?_, ?_⟩
      · simp [Entry.ensureValid, hne]
      · simp [nDirs, countKind, countKindL, isDirKind]
      · simp [nFiles, countKind, countKindL]
      · simp [nLinks, countKind, countKindL]
      · intro h; exact h

theorem preDispatch_skip (cfg : Cfg) (acc : Accel) (pfx : String) (mask : Bool) (raw : Bytes) (node : Node)
    (h : preDispatch cfg acc pfx mask raw node = .skip) : entryName cfg raw = none := by
  unfold preDispatch at h
  unfold entryName
  by_cases ht : hasTemporaryPrefix raw = true
  · simp [ht]
  · simp only [ht] at h
    exfalso
    revert h
    cases cfg.utf8 raw <;> simp
    cases node <;> simp <;> split <;> simp

theorem preDispatch_put (cfg : Cfg) (acc : Accel) (pfx : String) (mask : Bool) (raw : Bytes) (node : Node)
    (name : Name) (e : Entry) (ign : Option ((String × Bool) × IgnoreVal))
    (h : preDispatch cfg acc pfx mask raw node = .put name e ign) :
    entryName cfg raw = some name ∧ (e = untracked ∨ e = problematic "non-UTF-8 filename") := by
  unfold preDispatch at h
  unfold entryName
  by_cases ht : hasTemporaryPrefix raw = true
  · simp [ht] at h
  · simp only [ht] at h
    simp only [ht]
    revert h
    cases cfg.utf8 raw with
    | none =>
      simp
      intro h1 h2 _
      refine ⟨h1, ?_⟩
      cases mask <;> simp at h2 <;> simp [h2]
    | some d =>
      simp
      cases node <;> simp <;> (try split) <;> (try simp) <;> intros <;> subst_vars <;> simp_all

theorem preDispatch_go (cfg : Cfg) (acc : Accel) (pfx : String) (mask : Bool) (raw : Bytes) (node : Node)
    (name decoded cp : String) (isDir : Bool) (ign : (String × Bool) × IgnoreVal) (cm : Bool)
    (h : preDispatch cfg acc pfx mask raw node = .go name decoded cp isDir ign cm) :
    entryName cfg raw = some name := by
  unfold preDispatch at h
  unfold entryName
  by_cases ht : hasTemporaryPrefix raw = true
  · simp [ht] at h
  · simp only [ht] at h
    simp only [ht]
    revert h
    cases cfg.utf8 raw with
    | none => simp
    | some d =>
      simp
      cases node <;> simp <;> (try split) <;> (try simp) <;> intros <;> subst_vars <;> first | rfl | assumption | simp_all

/-- What the children loop guarantees: from `(cs, st)` to `(cs', st')`. -/
structure GoodL (P : Name → Bool) (st st' : St) (cs cs' : Contents) : Prop where
  valid : Entry.ensureValidL false cs = true → Entry.ensureValidL false cs' = true
  names : allNamesL P cs = true → allNamesL P cs' = true
  dirs : st'.dirs + countKindL isDirKind cs = st.dirs + countKindL isDirKind cs'
  files : st'.files + countKindL (· == .file) cs = st.files + countKindL (· == .file) cs'
  links : st'.links + countKindL (· == .symlink) cs = st.links + countKindL (· == .symlink) cs'
  inv : StInv st → StInv st'

theorem GoodL.refl (P : Name → Bool) (st : St) (cs : Contents) : GoodL P st st cs cs :=
  ⟨id, id, rfl, rfl, rfl, id⟩

theorem GoodL.trans {P : Name → Bool} {s1 s2 s3 : St} {c1 c2 c3 : Contents}
    (a : GoodL P s1 s2 c1 c2) (b : GoodL P s2 s3 c2 c3) : GoodL P s1 s3 c1 c3 :=
  ⟨fun h => b.valid (a.valid h), fun h => b.names (a.names h),
   by have := a.dirs; have := b.dirs; omega, by have := a.files; have := b.files; omega,
   by have := a.links; have := b.links; omega, fun h => b.inv (a.inv h)⟩

/-- Recording a good entry under a fresh, acceptable name. -/
theorem GoodL.put {P : Name → Bool} (hP : ∀ n, P n = true → validName n = true)
    {st st' : St} {e : Entry} (g : Good P st st' e) (n : Name) (hn : P n = true) (cs : Contents)
    (hfresh : n ∉ keys cs) : GoodL P st st' cs (upsert n e cs) := by
  refine ⟨fun h => ensureValidL_upsert n e cs (hP n hn) g.valid h, fun h => allNamesL_upsert P n e cs hn g.names h, ?_, ?_, ?_, g.inv⟩
  · rw [countKindL_upsert _ _ _ _ hfresh]; have := g.dirs; simp only [nDirs] at this; omega
  · rw [countKindL_upsert _ _ _ _ hfresh]; have := g.files; simp only [nFiles] at this; omega
  · rw [countKindL_upsert _ _ _ _ hfresh]; have := g.links; simp only [nLinks] at this; omega

theorem good_ignoreOnly (P : Name → Bool) (st : St) (ign : IgnoreCache) (e : Entry) (g : Good P st st e) :
    Good P st { st with newIgnore := ign } e :=
  ⟨g.valid, g.names, g.dirs, g.files, g.links, fun h => h⟩

theorem Good.ofIgnore {P : Name → Bool} {st st' : St} {e : Entry} (ign : IgnoreCache)
    (g : Good P { st with newIgnore := ign } st' e) : Good P st st' e :=
  ⟨g.valid, g.names, g.dirs, g.files, g.links, fun h => g.inv h⟩

theorem childBaseline_none (isDir : Bool) (name : Name) : childBaseline none isDir name = none := by
  unfold childBaseline; cases isDir <;> rfl

theorem reuseDecision_none (cfg : Cfg) (acc : Accel) (p : String) : reuseDecision cfg acc p none = none := rfl

set_option linter.unusedSectionVars false

section
variable (cfg : Cfg) (acc : Accel) (P : Name → Bool)
variable (hc : acc.cache = []) (hH : ∀ c, cfg.hash c ≠ [])
variable (hN : ∀ p t t', cfg.normalize p t = some t' → t' ≠ "")
variable (hP : ∀ n, P n = true → validName n = true)
include hc hH hN hP

mutual
theorem scanNode_good : (node : Node) → (path : String) → (isRoot mask : Bool) → (link : Fault × String) → (st : St) →
    NamesOK cfg P node → ResGood P st (scanNode cfg acc path isRoot none mask link node st)
  | .file content perm mtime size ino, path, isRoot, mask, link, st, _ => by
    unfold scanNode
    exact scanFile_good cfg acc P hc hH path isRoot content perm mtime size ino st
  | .symlink t, path, isRoot, mask, link, st, _ => by
    unfold scanNode
    cases cfg.symlinkMode
    · exact good_untracked P st
    · exact scanSymlink_good cfg P hN path link true st
    · exact scanSymlink_good cfg P hN path link false st
  | .other t, path, isRoot, mask, link, st, _ => by
    unfold scanNode
    exact good_untracked P st
  | .dir dev children, path, isRoot, mask, link, st, hok => by
    unfold scanNode
    simp only [NamesOK] at hok
    by_cases hdev : dev ≠ cfg.deviceID
    · rw [if_pos hdev]; simp only [ResGood]; refine good_problematic P st _ ?_; decide
    · rw [if_neg hdev]
      generalize (if isRoot = true then Fault.none else cfg.openDirFault path) = opened
      cases opened
      · simp only
        by_cases hrd : cfg.readDirFault path = true
        · rw [if_pos hrd]; simp only [ResGood]; refine good_problematic P st _ ?_; decide
        · rw [if_neg hrd]
          have ih := scanChildren_good children (if children.isEmpty then "" else joinable path) children mask [] st
            hok.2 hok.1 (by simp [keys])
          cases hs : scanChildren cfg acc (if children.isEmpty then "" else joinable path) children children none mask [] st with
          | none => simp [ResGood]
          | some r =>
            obtain ⟨contents, st'⟩ := r
            rw [hs] at ih
            simp only at ih
            refine ⟨?_, ?_, ?_, ?_, ?_, ?_⟩
            · have hv := ih.valid (by simp [Entry.ensureValidL])
              cases mask <;> simp [Entry.ensureValid, hv]
            · simpa [allNames] using ih.names (by simp [allNamesL])
            · have := ih.dirs
              cases mask <;> simp [nDirs, countKind, isDirKind, countKindL] at * <;> omega
            · have := ih.files
              cases mask <;> simp [nFiles, countKind, countKindL] at * <;> omega
            · have := ih.links
              cases mask <;> simp [nLinks, countKind, countKindL] at * <;> omega
            · intro h; exact ih.inv h
      · simp only [ResGood]; refine good_problematic P st _ ?_; decide
      · rfl
theorem scanChildren_good : (cs : Children) → (pfx : String) → (all : Children) → (mask : Bool) → (contents : Contents) → (st : St) →
    NamesOKL cfg P cs → (entryNames cfg cs).Nodup → (∀ n ∈ keys contents, n ∉ entryNames cfg cs) →
    match scanChildren cfg acc pfx all cs none mask contents st with
    | none => True
    | some (cs', st') => GoodL P st st' contents cs'
  | [], pfx, all, mask, contents, st, _, _, _ => by
    unfold scanChildren
    exact GoodL.refl P st contents
  | (raw, node) :: rest, pfx, all, mask, contents, st, hok, hnd, hfresh => by
    unfold scanChildren
    simp only [NamesOKL] at hok
    obtain ⟨hname, hnode, hrest⟩ := hok
    cases hpre : preDispatch cfg acc pfx mask raw node with
    | skip =>
      simp only
      have hn := preDispatch_skip _ _ _ _ _ _ hpre
      have e1 : entryNames cfg ((raw, node) :: rest) = entryNames cfg rest := by
        simp [entryNames, hn]
      rw [e1] at hnd hfresh
      exact scanChildren_good rest pfx all mask contents st hrest hnd hfresh
    | put name e ign =>
      simp only
      obtain ⟨hn, he⟩ := preDispatch_put _ _ _ _ _ _ _ _ _ hpre
      have e1 : entryNames cfg ((raw, node) :: rest) = name :: entryNames cfg rest := by
        simp [entryNames, hn]
      rw [e1] at hnd hfresh
      have hPn := hname name hn
      have hfr : name ∉ keys contents := fun hm => hfresh name hm (by simp)
      have g0 : Good P st st e := by
        rcases he with rfl | rfl
        · exact good_untracked P st
        · exact good_problematic P st _ (by decide)
      have g1 : GoodL P st { st with newIgnore := ign.toList ++ st.newIgnore } contents (upsert name e contents) :=
        GoodL.put hP (good_ignoreOnly P st _ e g0) name hPn contents hfr
      have ih := scanChildren_good rest pfx all mask (upsert name e contents)
        { st with newIgnore := ign.toList ++ st.newIgnore } hrest (List.nodup_cons.mp hnd).2
        (by
          intro n hn'
          rw [keys_upsert _ _ _ hfr] at hn'
          simp only [List.mem_append, List.mem_singleton] at hn'
          rcases hn' with h | h
          · exact fun hm => hfresh n h (by simp [hm])
          · subst h; exact (List.nodup_cons.mp hnd).1)
      split at ih
      · trivial
      · exact g1.trans ih
    | go name decoded cp isDir ign cm =>
      simp only
      have hn := preDispatch_go _ _ _ _ _ _ _ _ _ _ _ _ hpre
      have e1 : entryNames cfg ((raw, node) :: rest) = name :: entryNames cfg rest := by
        simp [entryNames, hn]
      rw [e1] at hnd hfresh
      have hPn := hname name hn
      have hfr : name ∉ keys contents := fun hm => hfresh name hm (by simp)
      simp only [childBaseline_none, reuseDecision_none]
      generalize linkFor all decoded name node = link
      have hnode' := scanNode_good node cp false cm link { st with newIgnore := ign :: st.newIgnore } hnode
      cases hs : scanNode cfg acc cp false none cm link node { st with newIgnore := ign :: st.newIgnore } with
      | mk res st1 =>
      rw [hs] at hnode'
      cases res with
      | abort => trivial
      | notExist =>
        simp only [ResGood] at hnode'
        subst hnode'
        simp only
        have ih := scanChildren_good rest pfx all mask contents { st with newIgnore := ign :: st.newIgnore } hrest
          (List.nodup_cons.mp hnd).2 (fun n hn' hm => hfresh n hn' (by simp [hm]))
        split at ih
        · trivial
        · exact ⟨ih.valid, ih.names, ih.dirs, ih.files, ih.links, fun h => ih.inv h⟩
      | entry e =>
        simp only [ResGood] at hnode'
        simp only
        have g1 : GoodL P st st1 contents (upsert name e contents) :=
          GoodL.put hP (Good.ofIgnore _ hnode') name hPn contents hfr
        have ih := scanChildren_good rest pfx all mask (upsert name e contents) st1 hrest (List.nodup_cons.mp hnd).2
          (by
            intro n hn'
            rw [keys_upsert _ _ _ hfr] at hn'
            simp only [List.mem_append, List.mem_singleton] at hn'
            rcases hn' with h | h
            · exact fun hm => hfresh n h (by simp [hm])
            · subst h; exact (List.nodup_cons.mp hnd).1)
        split at ih
        · trivial
        · exact g1.trans ih
end
end

theorem entryName_dev (cfg : Cfg) (d : Nat) (raw : Bytes) :
    entryName { cfg with deviceID := d } raw = entryName cfg raw := rfl

theorem entryNames_dev (cfg : Cfg) (d : Nat) (cs : Children) :
    entryNames { cfg with deviceID := d } cs = entryNames cfg cs := rfl

mutual
theorem NamesOK_dev (cfg : Cfg) (d : Nat) (P : Name → Bool) : (n : Node) → NamesOK cfg P n → NamesOK { cfg with deviceID := d } P n
  | .dir _ cs, h => by
    simp only [NamesOK] at h ⊢
    exact ⟨by rw [entryNames_dev]; exact h.1, NamesOKL_dev cfg d P cs h.2⟩
  | .file .., _ => by simp [NamesOK]
  | .symlink _, _ => by simp [NamesOK]
  | .other _, _ => by simp [NamesOK]
theorem NamesOKL_dev (cfg : Cfg) (d : Nat) (P : Name → Bool) : (cs : Children) → NamesOKL cfg P cs → NamesOKL { cfg with deviceID := d } P cs
  | [], _ => by simp [NamesOKL]
  | (raw, n) :: r, h => by
    simp only [NamesOKL] at h ⊢
    exact ⟨by rw [entryName_dev]; exact h.1, NamesOK_dev cfg d P n h.2.1, NamesOKL_dev cfg d P r h.2.2⟩
end

theorem scanCold_file (cfg : Cfg) (content : Bytes) (perm : Nat) (mtime : MTime) (size ino : Nat) :
    scanCold cfg (some (.file content perm mtime size ino)) =
      outOf cfg (scanNode cfg {} "" true none false (.none, "") (.file content perm mtime size ino) {}) := by
  rfl

theorem scanCold_dir (cfg : Cfg) (dev : Nat) (children : Children) :
    scanCold cfg (some (.dir dev children)) =
      outOf cfg (scanNode { cfg with deviceID := dev } {} "" true none false (.none, "") (.dir dev children) {}) := by
  rfl

/-- Everything the C12 theorems say about a successful cold scan, in one statement. -/
theorem scanCold_good (cfg : Cfg) (P : Name → Bool)
    (hH : ∀ c, cfg.hash c ≠ [])
    (hN : ∀ p t t', cfg.normalize p t = some t' → t' ≠ "")
    (hP : ∀ n, P n = true → validName n = true)
    (root : Node) (hok : NamesOK cfg P root) (out : Out)
    (h : scanCold cfg (some root) = .ok out) :
    ∃ e, out.snapshot.content = some e ∧ Good P {}
      (St.mk out.cache out.ignoreCache out.snapshot.dirs out.snapshot.files out.snapshot.links out.snapshot.size) e := by
  cases root with
  | symlink t => simp [scanCold, scan] at h
  | other t => simp [scanCold, scan] at h
  | file content perm mtime size ino =>
    rw [scanCold_file] at h
    have g := scanNode_good cfg {} P rfl hH hN hP (.file content perm mtime size ino) "" true false (.none, "") {} hok
    revert h g
    cases scanNode cfg {} "" true none false (.none, "") (.file content perm mtime size ino) {} with
    | mk res st =>
    cases res with
    | entry e =>
      intro h g
      simp [outOf] at h
      subst h
      exact ⟨e, rfl, g⟩
    | notExist => intro h; simp [outOf] at h
    | abort => intro h; simp [outOf] at h
  | dir dev children =>
    rw [scanCold_dir] at h
    have g := scanNode_good { cfg with deviceID := dev } {} P rfl hH hN hP (.dir dev children) "" true false (.none, "") {}
      (NamesOK_dev cfg dev P _ hok)
    revert h g
    cases scanNode { cfg with deviceID := dev } {} "" true none false (.none, "") (.dir dev children) {} with
    | mk res st =>
    cases res with
    | entry e =>
      intro h g
      simp [outOf] at h
      subst h
      exact ⟨e, rfl, g⟩
    | notExist => intro h; simp [outOf] at h
    | abort => intro h; simp [outOf] at h

/-! ## Concrete instances for non-vacuity examples and counterexamples -/

/-- A concrete configuration: names decode through a given table, one-byte digests. -/
def exCfg (dec : Bytes → Option String) : Cfg :=
  { ignorer := fun _ _ => { status := .nominal, cont := false }
    symlinkMode := .portable, permsMode := .portable, preservesExec := true, decomposes := false
    nfc := id, hash := fun c => [UInt8.ofNat c.length], utf8 := dec, escape := fun _ => "x"
    normalize := fun _ t => if t = "" then none else some t
    openFileFault := fun _ => .none, openDirFault := fun _ => .none, readDirFault := fun _ => false
    readlinkFault := fun _ => .none, deviceID := 0, linux := true }

/-- `a`, `b` decode to themselves, everything else is invalid UTF-8. -/
def decAB : Bytes → Option String
  | [97] => some "a"
  | [98] => some "b"
  | _ => none

/-- A decoder that collapses `a` and `b` (stands for two on-disk names that are
recorded under the same map key). -/
def decCollapse : Bytes → Option String
  | [97] => some "a"
  | [98] => some "a"
  | _ => none

/-- `a` (an executable file of 3 bytes), `b/` (an empty directory), a FIFO, a
temporary file and a link. -/
def exTree : Node :=
  .dir 7 [([97], .file [1, 2, 3] 0o755 { sec := 0, nsec := 0 } 3 10), ([98], .dir 7 []),
          ([255], .other 4096),
          (temporaryPrefixBytes ++ [120], .file [] 0o644 { sec := 0, nsec := 0 } 0 11)]

/-- Two files `a` and `b`. -/
def exTwoFiles : Node :=
  .dir 7 [([97], .file [1] 0o644 { sec := 0, nsec := 0 } 1 10), ([98], .file [2, 2] 0o644 { sec := 0, nsec := 0 } 2 11)]

def filesOf (r : Except ScanErr Out) : Nat := match r with | .ok o => o.snapshot.files | .error _ => 0
def contentFilesOf (r : Except ScanErr Out) : Nat :=
  match r with | .ok o => (o.snapshot.content.map nFiles).getD 0 | .error _ => 0
def isOk (r : Except ScanErr Out) : Bool := match r with | .ok _ => true | .error _ => false

end Mutagen.Proofs.ScanFS
