/-
Preservation of the per-identifier invariant: the opener's enqueue goroutine,
`OpenStream`, and the opener's reader (messages from the acceptor).
-/
import Mutagen.Proofs.MuxStep.FlushIncrO
import Mutagen.Proofs.MuxStep.FlushCWO
import Mutagen.Proofs.MuxStep.FlushCloseO
import Mutagen.Proofs.MuxStep.IrrelevantO
import Mutagen.Proofs.MuxStep.OpenStreamO
import Mutagen.Proofs.MuxStep.DeliverAcceptO
import Mutagen.Proofs.MuxStep.DeliverDataO
import Mutagen.Proofs.MuxStep.DeliverIncrO
import Mutagen.Proofs.MuxStep.DeliverCwO
import Mutagen.Proofs.MuxStep.DeliverCloseO
import Mutagen.Proofs.MuxStep.DropO
