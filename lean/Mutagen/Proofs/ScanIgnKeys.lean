import Mutagen.Proofs.ScanReuse
/-!
C13: which ignore-cache keys the baseline walk carries over, and that a cold
scan produces all of them.
-/
namespace Mutagen.Proofs.ScanIgnKeys
open Mutagen.Model Mutagen.Model.ScanFS Mutagen.Proofs.ScanFrame Mutagen.Proofs.ScanPaths Mutagen.Proofs.ScanFS Mutagen.Proofs.ScanCold Mutagen.Proofs.ScanReuse

/-- scan.go:549: the walk propagates ignore-cache entries for every entry that
is neither untracked nor problematic. -/
def trackedKind (k : Kind) : Bool := k != .untracked && k != .problematic

/-- scan.go:538-539 `entryIsDirectoryKind`. -/
def dirKind (k : Kind) : Bool := k == .directory || k == .phantom

mutual
/-- `TrackedKey p e k`: `k` is the ignore-cache key (path, directory?) of a tracked
entry of the tree `e` placed at path `p` (the root of `e` included), with paths
formed as the walk forms them. -/
def TrackedKey : String → Entry → String × Bool → Prop
  | p, .mk pr cs, k =>
    (trackedKind pr.kind = true ∧ k = (p, dirKind pr.kind)) ∨ TrackedKeyL (if cs.isEmpty then "" else joinable p) cs k
def TrackedKeyL : String → Contents → String × Bool → Prop
  | _, [], _ => False
  | pfx, (n, c) :: r, k => TrackedKey (pfx ++ n) c k ∨ TrackedKeyL pfx r k
end

/-- What the visitor adds to the new ignore cache. -/
theorem reuseVisit_ign (acc : Accel) (p : String) (pr : Props) (kv : (String × Bool) × IgnoreVal) :
    kv ∈ (reuseVisit acc p pr ({}, false)).1.newIgnore ↔
      (trackedKind pr.kind = true ∧ kv.1 = (p, dirKind pr.kind) ∧ alookup kv.1 acc.ignoreCache = some kv.2) := by
  unfold reuseVisit
  obtain ⟨k1, k2⟩ := kv
  cases hk : pr.kind <;> simp [trackedKind, dirKind] <;> (repeat' split) <;> simp_all <;> (first | (intro _; exact eq_comm) | (constructor <;> intro h <;> simp_all) | skip)

mutual
/-- W: the ignore-cache bindings the baseline walk carries over are exactly the old
cache's bindings of the keys of the tracked entries of the baseline sub-tree (its
root included); keys of untracked and problematic entries are dropped. -/
theorem reuseWalk_ign (acc : Accel) : (e : Entry) → (p : String) → (kv : (String × Bool) × IgnoreVal) →
    (kv ∈ (reuseWalk acc p e ({}, false)).1.newIgnore ↔
      TrackedKey p e kv.1 ∧ alookup kv.1 acc.ignoreCache = some kv.2)
  | .mk pr cs, p, kv => by
    unfold reuseWalk
    rw [reuseWalkL_frame acc cs _ (reuseVisit acc p pr ({}, false)).1 (reuseVisit acc p pr ({}, false)).2]
    simp only [add, List.mem_append, TrackedKey]
    rw [reuseWalkL_ign acc cs _ kv, reuseVisit_ign acc p pr kv]
    constructor
    · rintro (⟨h1, h2⟩ | ⟨h1, h2, h3⟩)
      · exact ⟨Or.inr h1, h2⟩
      · exact ⟨Or.inl ⟨h1, h2⟩, h3⟩
    · rintro ⟨⟨h1, h2⟩ | h1, h3⟩
      · exact Or.inr ⟨h1, h2, h3⟩
      · exact Or.inl ⟨h1, h3⟩
theorem reuseWalkL_ign (acc : Accel) : (cs : Contents) → (pfx : String) → (kv : (String × Bool) × IgnoreVal) →
    (kv ∈ (reuseWalkL acc pfx cs ({}, false)).1.newIgnore ↔
      TrackedKeyL pfx cs kv.1 ∧ alookup kv.1 acc.ignoreCache = some kv.2)
  | [], pfx, kv => by simp [reuseWalkL, TrackedKeyL]
  | (n, c) :: r, pfx, kv => by
    unfold reuseWalkL
    rw [reuseWalkL_frame acc r pfx (reuseWalk acc (pfx ++ n) c ({}, false)).1 (reuseWalk acc (pfx ++ n) c ({}, false)).2]
    simp only [add, List.mem_append, TrackedKeyL]
    rw [reuseWalkL_ign acc r pfx kv, reuseWalk_ign acc c (pfx ++ n) kv]
    constructor
    · rintro (⟨h1, h2⟩ | ⟨h1, h2⟩)
      · exact ⟨Or.inr h1, h2⟩
      · exact ⟨Or.inl h1, h2⟩
    · rintro ⟨h1 | h1, h2⟩
      · exact Or.inr ⟨h1, h2⟩
      · exact Or.inl ⟨h1, h2⟩
end

def nodeDir : Node → Bool
  | .dir _ _ => true
  | _ => false

def ikeys (l : IgnoreCache) : List (String × Bool) := l.map (·.1)

/-- The key a `.go` decision adds to the new ignore cache. -/
theorem preDispatch_go_key (cfg : Cfg) (acc : Accel) (pfx : String) (mask : Bool) (raw : Bytes) (node : Node)
    (name decoded cp : String) (isDir : Bool) (ign : (String × Bool) × IgnoreVal) (cm : Bool)
    (h : preDispatch cfg acc pfx mask raw node = .go name decoded cp isDir ign cm) : ign.1 = (cp, nodeDir node) := by
  unfold preDispatch at h
  by_cases ht : hasTemporaryPrefix raw = true
  · simp [ht] at h
  · simp only [ht] at h
    revert h
    cases cfg.utf8 raw with
    | none => simp
    | some d =>
      simp
      cases node <;> simp [nodeDir] <;> (try split) <;> (try simp) <;> intros <;> subst_vars <;> rfl

theorem scanSymlink_kind' (cfg : Cfg) (p : String) (link : Fault × String) (b : Bool) (e : Entry) (d : St)
    (h : scanSymlink cfg p link b {} = (.entry e, d)) : e.kind = .problematic ∨ e.kind = .symlink := by
  unfold scanSymlink at h
  split at h
  · cases h
  · cases h; left; rfl
  · split at h
    · rename_i e' he
      cases h
      obtain ⟨msg, _, rfl⟩ := linkTarget_error _ _ _ _ _ he
      left; rfl
    · cases h; right; rfl

/-- A tracked entry returned by the cold handler is of a directory kind exactly
when the node is a directory. -/
theorem cold_kind_dir (cfg : Cfg) (p : String) (isRoot mask : Bool) (link : Fault × String) (n : Node) (e : Entry)
    (h : (cold cfg p isRoot mask link n).1 = .entry e) (ht : trackedKind e.kind = true) : dirKind e.kind = nodeDir n := by
  cases n with
  | dir d cs =>
    rcases cold_dir cfg p isRoot mask link d cs with ⟨_, h1⟩ | ⟨contents, dL, _, h2⟩
    · rcases h1 with h1 | h1 | ⟨msg, h1⟩
      · rw [h1] at h; cases h
      · rw [h1] at h; cases h
      · rw [h1] at h; cases h; simp [problematic, Entry.kind, Entry.props, trackedKind] at ht
    · rw [h2] at h
      cases h
      cases mask <;> simp [Entry.kind, Entry.props, dirKind, nodeDir]
  | file content perm mtime size ino =>
    rcases cold_file cfg p isRoot mask link content perm mtime size ino with ⟨_, h1⟩ | ⟨_, _, _, h2⟩
    · rcases h1 with h1 | ⟨msg, h1⟩
      · rw [h1] at h; cases h
      · rw [h1] at h; cases h; simp [problematic, Entry.kind, Entry.props, trackedKind] at ht
    · rw [h2] at h; cases h; simp [Entry.kind, Entry.props, dirKind, nodeDir]
  | symlink t =>
    simp only [cold] at h
    unfold scanNode at h
    revert h
    cases cfg.symlinkMode with
    | ignore => intro h; cases h; simp [untracked, Entry.kind, Entry.props, trackedKind] at ht
    | portable =>
      intro h
      rcases scanSymlink_kind' cfg p link true e _ (Prod.ext h rfl) with h1 | h1
      · rw [h1] at ht; simp [trackedKind] at ht
      · rw [h1]; rfl
    | posixRaw =>
      intro h
      rcases scanSymlink_kind' cfg p link false e _ (Prod.ext h rfl) with h1 | h1
      · rw [h1] at ht; simp [trackedKind] at ht
      · rw [h1]; rfl
  | other k =>
    simp only [cold] at h
    unfold scanNode at h
    cases h
    simp [untracked, Entry.kind, Entry.props, trackedKind] at ht

theorem trackedKeyL_upsert (pfx : String) (n : Name) (e : Entry) (cs : Contents) (k : String × Bool)
    (h : TrackedKeyL pfx (upsert n e cs) k) : TrackedKeyL pfx cs k ∨ TrackedKey (pfx ++ n) e k := by
  induction cs with
  | nil =>
    simp only [upsert, TrackedKeyL] at h
    rcases h with h | h
    · exact Or.inr h
    · cases h
  | cons hd t ih =>
    obtain ⟨m, c⟩ := hd
    simp only [upsert] at h
    split at h
    · simp only [TrackedKeyL] at h ⊢
      rcases h with h | h
      · exact Or.inr h
      · exact Or.inl (Or.inr h)
    · simp only [TrackedKeyL] at h ⊢
      rcases h with h | h
      · exact Or.inl (Or.inl h)
      · rcases ih h with h' | h'
        · exact Or.inl (Or.inr h')
        · exact Or.inr h'

theorem trackedKey_leaf (p : String) (pr : Props) (k : String × Bool)
    (hk : pr.kind = .untracked ∨ pr.kind = .problematic) : ¬ TrackedKey p (.mk pr []) k := by
  intro h
  simp only [TrackedKey, TrackedKeyL, or_false] at h
  rcases hk with hk | hk <;> simp [hk, trackedKind] at h

theorem scanSymlink_children (cfg : Cfg) (p : String) (link : Fault × String) (b : Bool) (e : Entry) (d : St)
    (h : scanSymlink cfg p link b {} = (.entry e, d)) : e.children = [] := by
  unfold scanSymlink at h
  split at h
  · cases h
  · cases h; rfl
  · split at h
    · rename_i e' he
      cases h
      obtain ⟨msg, _, rfl⟩ := linkTarget_error _ _ _ _ _ he
      rfl
    · cases h; rfl

/-- Entries returned for files, links and special files have no contents. -/
theorem cold_leaf_children (cfg : Cfg) (p : String) (isRoot mask : Bool) (link : Fault × String) (n : Node) (e : Entry)
    (hn : nodeDir n = false) (h : (cold cfg p isRoot mask link n).1 = .entry e) : e.children = [] := by
  cases n with
  | dir d cs => simp [nodeDir] at hn
  | file content perm mtime size ino =>
    rcases cold_file cfg p isRoot mask link content perm mtime size ino with ⟨_, h1⟩ | ⟨_, _, _, h2⟩
    · rcases h1 with h1 | ⟨msg, h1⟩
      · rw [h1] at h; cases h
      · rw [h1] at h; cases h; rfl
    · rw [h2] at h; cases h; rfl
  | symlink t =>
    simp only [cold] at h
    unfold scanNode at h
    revert h
    cases cfg.symlinkMode with
    | ignore => intro h; cases h; rfl
    | portable => intro h; exact scanSymlink_children cfg p link true e _ (Prod.ext h rfl)
    | posixRaw => intro h; exact scanSymlink_children cfg p link false e _ (Prod.ext h rfl)
  | other k =>
    simp only [cold] at h
    unfold scanNode at h
    cases h
    rfl

/-- L, for one node: the key of every tracked entry of the tree the cold handler
returns is the node's own key (recorded by the parent's loop) or among the keys
the handler added to the new ignore cache. -/
def ColdKeys (cfg : Cfg) (n : Node) : Prop :=
  ∀ (p : String) (isRoot mask : Bool) (link : Fault × String) (e : Entry),
    (cold cfg p isRoot mask link n).1 = .entry e →
    ∀ k, TrackedKey p e k → k = (p, nodeDir n) ∨ k ∈ ikeys (cold cfg p isRoot mask link n).2.newIgnore

theorem ikeys_add (st d : St) (k : String × Bool) : k ∈ ikeys (add st d).newIgnore ↔ k ∈ ikeys d.newIgnore ∨ k ∈ ikeys st.newIgnore := by
  simp [ikeys, add, List.mem_append]

/-- L, for the loop. -/
theorem coldKeys_loop (cfg : Cfg) (pfx : String) (all : Children) (mask : Bool) :
    ∀ (cs : Children) (contents cs' : Contents) (d : St),
      (∀ rn ∈ cs, ColdKeys cfg rn.2) →
      scanChildren cfg {} pfx all cs none mask contents {} = some (cs', d) →
      ∀ k, TrackedKeyL pfx cs' k → TrackedKeyL pfx contents k ∨ k ∈ ikeys d.newIgnore := by
  intro cs
  induction cs with
  | nil =>
    intro contents cs' d _ h k hk
    simp [scanChildren] at h
    obtain ⟨rfl, _⟩ := h
    exact Or.inl hk
  | cons c rest ih =>
    obtain ⟨raw1, node1⟩ := c
    intro contents cs' d hR h k hk
    have hR' : ∀ rn ∈ rest, ColdKeys cfg rn.2 := fun rn hrn => hR rn (List.mem_cons_of_mem _ hrn)
    rw [scanChildren_cons] at h
    cases hpre : preDispatch cfg {} pfx mask raw1 node1 with
    | skip =>
      rw [hpre] at h
      exact ih contents cs' d hR' h k hk
    | put name1 e1 ign1 =>
      rw [hpre] at h
      simp only at h
      obtain ⟨d'', hr, hd⟩ := andThen_some _ _ _ _ h
      obtain ⟨_, he⟩ := preDispatch_put _ _ _ _ _ _ _ _ _ hpre
      rcases ih _ cs' d'' hR' hr k hk with h1 | h1
      · rcases trackedKeyL_upsert pfx name1 e1 contents k h1 with h2 | h2
        · exact Or.inl h2
        · exfalso
          rcases he with rfl | rfl
          · exact trackedKey_leaf _ _ k (Or.inl rfl) h2
          · exact trackedKey_leaf _ _ k (Or.inr rfl) h2
      · right; rw [hd, ikeys_add]; exact Or.inl h1
    | go name1 decoded1 cp1 isDir1 ign1 cm1 =>
      rw [hpre] at h
      simp only [childBaseline_none, reuseDecision_none] at h
      have hcp1 := preDispatch_go_link _ _ _ _ _ _ _ _ _ _ _ _ hpre
      have hkey := preDispatch_go_key _ _ _ _ _ _ _ _ _ _ _ _ hpre
      cases hsn : scanNode cfg {} cp1 false none cm1 (linkFor all decoded1 name1 node1) node1 {} with
      | mk r dn =>
        rw [hsn] at h
        cases r with
        | abort => simp at h
        | notExist =>
          simp only at h
          obtain ⟨d'', hr, hd⟩ := andThen_some _ _ _ _ h
          rcases ih _ cs' d'' hR' hr k hk with h1 | h1
          · exact Or.inl h1
          · right; rw [hd, ikeys_add]; exact Or.inl h1
        | entry e1 =>
          simp only at h
          obtain ⟨d'', hr, hd⟩ := andThen_some _ _ _ _ h
          rcases ih _ cs' d'' hR' hr k hk with h1 | h1
          · rcases trackedKeyL_upsert pfx name1 e1 contents k h1 with h2 | h2
            · exact Or.inl h2
            · right
              rw [hd, ikeys_add]
              right
              rw [ikeys_add]
              have := hR (raw1, node1) List.mem_cons_self cp1 false cm1 (linkFor all decoded1 name1 node1) e1
                (by simp only [cold]; rw [hsn]) k (by rw [hcp1]; exact h2)
              simp only [cold] at this
              rw [hsn] at this
              rcases this with h3 | h3
              · right
                simp only [ikeys, ignSt, List.map_cons, List.map_nil, List.mem_singleton]
                rw [hkey, h3]
              · exact Or.inl h3
          · right; rw [hd, ikeys_add]; exact Or.inl h1

mutual
theorem coldKeys_node (cfg : Cfg) : (n : Node) → ColdKeys cfg n
  | .dir dev cs => by
    intro p isRoot mask link e he k hk
    rcases cold_dir cfg p isRoot mask link dev cs with ⟨_, h1⟩ | ⟨contents, dL, hs, h2⟩
    · rcases h1 with h1 | h1 | ⟨msg, h1⟩
      · rw [h1] at he; cases he
      · rw [h1] at he; cases he
      · rw [h1] at he; cases he
        exact absurd hk (trackedKey_leaf _ _ k (Or.inr rfl))
    · rw [h2] at he ⊢
      cases he
      simp only [TrackedKey] at hk
      rcases hk with ⟨_, hk⟩ | hk
      · left
        rw [hk]
        cases mask <;> simp [dirKind, nodeDir]
      · right
        have hne : contents.isEmpty = false := by
          cases contents with
          | nil => simp [TrackedKeyL] at hk
          | cons _ _ => rfl
        have hcs : cs.isEmpty = false := by
          cases cs with
          | nil => simp [scanChildren] at hs; rw [hs.1] at hne; simp at hne
          | cons _ _ => rfl
        simp only [hne, hcs, Bool.false_eq_true, if_false] at hk hs
        rcases coldKeys_loop cfg (joinable p) cs mask cs [] contents dL (coldKeys_list cfg cs) hs k hk with h3 | h3
        · simp [TrackedKeyL] at h3
        · exact h3
  | .file content perm mtime size ino => by
    intro p isRoot mask link e he k hk
    have hc := cold_leaf_children cfg p isRoot mask link _ e rfl he
    obtain ⟨pr, cs⟩ := e
    simp only [Entry.children] at hc
    subst hc
    simp only [TrackedKey, TrackedKeyL, or_false] at hk
    left
    rw [hk.2]
    have := cold_kind_dir cfg p isRoot mask link _ _ he hk.1
    simp only [Entry.kind, Entry.props] at this
    rw [this]
  | .symlink t => by
    intro p isRoot mask link e he k hk
    have hc := cold_leaf_children cfg p isRoot mask link _ e rfl he
    obtain ⟨pr, cs⟩ := e
    simp only [Entry.children] at hc
    subst hc
    simp only [TrackedKey, TrackedKeyL, or_false] at hk
    left
    rw [hk.2]
    have := cold_kind_dir cfg p isRoot mask link _ _ he hk.1
    simp only [Entry.kind, Entry.props] at this
    rw [this]
  | .other t => by
    intro p isRoot mask link e he k hk
    have hc := cold_leaf_children cfg p isRoot mask link _ e rfl he
    obtain ⟨pr, cs⟩ := e
    simp only [Entry.children] at hc
    subst hc
    simp only [TrackedKey, TrackedKeyL, or_false] at hk
    left
    rw [hk.2]
    have := cold_kind_dir cfg p isRoot mask link _ _ he hk.1
    simp only [Entry.kind, Entry.props] at this
    rw [this]
theorem coldKeys_list (cfg : Cfg) : (cs : Children) → ∀ rn ∈ cs, ColdKeys cfg rn.2
  | [], rn, h => by cases h
  | (r, n) :: rest, rn, h => by
    rcases List.mem_cons.mp h with rfl | h
    · exact coldKeys_node cfg n
    · exact coldKeys_list cfg rest rn h
end

theorem alookup_some_key (l : IgnoreCache) (k : String × Bool) (v : IgnoreVal) (h : alookup k l = some v) : k ∈ ikeys l := by
  induction l with
  | nil => cases h
  | cons hd t ih =>
    obtain ⟨k', v'⟩ := hd
    simp only [alookup] at h
    split at h
    · rename_i hk
      simp [ikeys, hk]
    · have := ih h
      simp only [ikeys, List.map_cons, List.mem_cons] at this ⊢
      exact Or.inr this

theorem key_alookup (l : IgnoreCache) (k : String × Bool) (h : k ∈ ikeys l) : ∃ v, alookup k l = some v := by
  induction l with
  | nil => cases h
  | cons hd t ih =>
    obtain ⟨k', v'⟩ := hd
    simp only [alookup]
    split
    · exact ⟨v', rfl⟩
    · rename_i hk
      simp only [ikeys, List.map_cons, List.mem_cons] at h
      rcases h with h | h
      · exact absurd h.symm hk
      · exact ih h

/-- Two caches that hold only the ignorer's answers: key inclusion is binding inclusion. -/
theorem submap_of_keys (cfg : Cfg) (a c : IgnoreCache) (ha : IgnOK cfg a) (hc : IgnOK cfg c)
    (hk : ∀ k, k ∈ ikeys a → k ∈ ikeys c) (k : String × Bool) (v : IgnoreVal) (h : alookup k a = some v) :
    alookup k c = some v := by
  obtain ⟨v', hv'⟩ := key_alookup c k (hk k (alookup_some_key a k v h))
  rw [hv', ignOK_lookup cfg a ha k v h, ignOK_lookup cfg c hc k v' hv']

theorem preDispatch_put_key (cfg : Cfg) (acc : Accel) (pfx : String) (mask : Bool) (raw : Bytes) (node : Node)
    (name : Name) (e : Entry) (kv : (String × Bool) × IgnoreVal)
    (h : preDispatch cfg acc pfx mask raw node = .put name e (some kv)) : kv.1.1 = pfx ++ name := by
  unfold preDispatch at h
  by_cases ht : hasTemporaryPrefix raw = true
  · simp [ht] at h
  · simp only [ht] at h
    revert h
    cases cfg.utf8 raw with
    | none => simp
    | some d =>
      simp
      cases node <;> simp <;> (try split) <;> (try simp) <;> intros <;> subst_vars <;> rfl

theorem under_join (p name : String) : Under (p ++ "/" ++ name) p :=
  ⟨"/" ++ name, by simp [String.append_assoc], Or.inr (by simp [String.toList_append])⟩

/-- The keys the cold handler at `p` adds to the new ignore cache are paths below `p`. -/
def IgnUnder (cfg : Cfg) (n : Node) : Prop :=
  ∀ (p : String) (isRoot mask : Bool) (link : Fault × String), p ≠ "" →
    ∀ k, k ∈ ikeys (cold cfg p isRoot mask link n).2.newIgnore → Under k.1 p

theorem ignUnder_loop (cfg : Cfg) (p : String) (hp : p ≠ "") (all : Children) (mask : Bool) :
    ∀ (cs : Children) (contents cs' : Contents) (d : St),
      (∀ rn ∈ cs, IgnUnder cfg rn.2) →
      scanChildren cfg {} (joinable p) all cs none mask contents {} = some (cs', d) →
      ∀ k, k ∈ ikeys d.newIgnore → Under k.1 p := by
  intro cs
  induction cs with
  | nil =>
    intro contents cs' d _ h k hk
    simp [scanChildren] at h
    obtain ⟨_, rfl⟩ := h
    simp [ikeys] at hk
  | cons c rest ih =>
    obtain ⟨raw1, node1⟩ := c
    intro contents cs' d hR h k hk
    have hR' : ∀ rn ∈ rest, IgnUnder cfg rn.2 := fun rn hrn => hR rn (List.mem_cons_of_mem _ hrn)
    have hj : ∀ name : String, joinable p ++ name = p ++ "/" ++ name := by intro name; simp [joinable, hp]
    rw [scanChildren_cons] at h
    cases hpre : preDispatch cfg {} (joinable p) mask raw1 node1 with
    | skip =>
      rw [hpre] at h
      exact ih contents cs' d hR' h k hk
    | put name1 e1 ign1 =>
      rw [hpre] at h
      simp only at h
      obtain ⟨d'', hr, hd⟩ := andThen_some _ _ _ _ h
      rw [hd, ikeys_add] at hk
      rcases hk with hk | hk
      · exact ih _ cs' d'' hR' hr k hk
      · cases ign1 with
        | none => simp [ikeys, ignSt] at hk
        | some kv =>
          have hkey := preDispatch_put_key _ _ _ _ _ _ _ _ _ hpre
          simp only [ikeys, ignSt, Option.toList, List.map_cons, List.map_nil, List.mem_singleton] at hk
          rw [hk, hkey, hj]
          exact under_join p name1
    | go name1 decoded1 cp1 isDir1 ign1 cm1 =>
      rw [hpre] at h
      simp only [childBaseline_none, reuseDecision_none] at h
      have hcp1 := preDispatch_go_link _ _ _ _ _ _ _ _ _ _ _ _ hpre
      have hkey := preDispatch_go_key _ _ _ _ _ _ _ _ _ _ _ _ hpre
      rw [hj] at hcp1
      have hcpne : cp1 ≠ "" := by rw [hcp1, String.append_assoc]; exact ne_empty_append p _ hp
      have hnode : ∀ dn, scanNode cfg {} cp1 false none cm1 (linkFor all decoded1 name1 node1) node1 {} = dn →
          ∀ k, k ∈ ikeys (add (ignSt [ign1]) dn.2).newIgnore → Under k.1 p := by
        intro dn hdn k hk
        rw [ikeys_add] at hk
        rcases hk with hk | hk
        · have := hR (raw1, node1) List.mem_cons_self cp1 false cm1 (linkFor all decoded1 name1 node1) hcpne k
            (by simp only [cold]; rw [hdn]; exact hk)
          rw [hcp1] at this
          exact under_trans_join _ _ _ this
        · simp only [ikeys, ignSt, List.map_cons, List.map_nil, List.mem_singleton] at hk
          rw [hk, hkey, hcp1]
          exact under_join p name1
      cases hsn : scanNode cfg {} cp1 false none cm1 (linkFor all decoded1 name1 node1) node1 {} with
      | mk r dn =>
        rw [hsn] at h
        have hnode' := hnode _ hsn
        cases r with
        | abort => simp at h
        | notExist =>
          simp only at h
          obtain ⟨d'', hr, hd⟩ := andThen_some _ _ _ _ h
          rw [hd, ikeys_add] at hk
          rcases hk with hk | hk
          · exact ih _ cs' d'' hR' hr k hk
          · exact hnode' k hk
        | entry e1 =>
          simp only at h
          obtain ⟨d'', hr, hd⟩ := andThen_some _ _ _ _ h
          rw [hd, ikeys_add] at hk
          rcases hk with hk | hk
          · exact ih _ cs' d'' hR' hr k hk
          · exact hnode' k hk

theorem scanSymlink_ign (cfg : Cfg) (p : String) (link : Fault × String) (b : Bool) :
    (scanSymlink cfg p link b {}).2.newIgnore = [] := by
  unfold scanSymlink
  repeat' split
  all_goals rfl

mutual
theorem ignUnder_node (cfg : Cfg) : (n : Node) → IgnUnder cfg n
  | .dir dev cs => by
    intro p isRoot mask link hp k hk
    rcases cold_dir cfg p isRoot mask link dev cs with ⟨h1, _⟩ | ⟨contents, dL, hs, h2⟩
    · rw [h1] at hk; simp [ikeys] at hk
    · rw [h2] at hk
      simp only at hk
      cases cs with
      | nil =>
        simp [scanChildren] at hs
        obtain ⟨_, rfl⟩ := hs
        simp [ikeys] at hk
      | cons c rest =>
        simp only [List.isEmpty_cons, Bool.false_eq_true, if_false] at hs
        exact ignUnder_loop cfg p hp _ mask _ [] contents dL (ignUnder_list cfg (c :: rest)) hs k hk
  | .file content perm mtime size ino => by
    intro p isRoot mask link hp k hk
    rcases cold_file cfg p isRoot mask link content perm mtime size ino with ⟨h1, _⟩ | ⟨_, _, _, h2⟩
    · rw [h1] at hk; simp [ikeys] at hk
    · rw [h2] at hk; simp [ikeys] at hk
  | .symlink t => by
    intro p isRoot mask link hp k hk
    simp only [cold] at hk
    unfold scanNode at hk
    revert hk
    cases cfg.symlinkMode <;> simp [ikeys, scanSymlink_ign]
  | .other t => by
    intro p isRoot mask link hp k hk
    simp only [cold] at hk
    unfold scanNode at hk
    simp [ikeys] at hk
theorem ignUnder_list (cfg : Cfg) : (cs : Children) → ∀ rn ∈ cs, IgnUnder cfg rn.2
  | [], rn, h => by cases h
  | (r, n) :: rest, rn, h => by
    rcases List.mem_cons.mp h with rfl | h
    · exact ignUnder_node cfg n
    · exact ignUnder_list cfg rest rn h
end

/-- `BaseAt E₀ p e`: the baseline tree `E₀` has the entry `e` at path `p` (paths formed as
the scan forms them). -/
inductive BaseAt (E₀ : Entry) : String → Entry → Prop
  | root : BaseAt E₀ "" E₀
  | child (p : String) (bb : Entry) (name : Name) (e : Entry) :
      BaseAt E₀ p bb → lookup name bb.children = some e → BaseAt E₀ (joinable p ++ name) e

theorem trackedKeyL_of_lookup (pfx : String) (name : Name) (e : Entry) (k : String × Bool) :
    ∀ cs : Contents, lookup name cs = some e → TrackedKey (pfx ++ name) e k → TrackedKeyL pfx cs k
  | [], h, _ => by cases h
  | (m, c) :: r, h, hk => by
    simp only [lookup] at h
    simp only [TrackedKeyL]
    split at h
    · rename_i hm
      cases h
      subst hm
      exact Or.inl hk
    · exact Or.inr (trackedKeyL_of_lookup pfx name e k r h hk)

/-- The key of a tracked entry of a sub-tree of the baseline is the key of a tracked
entry of the baseline. -/
theorem trackedKey_lift (E₀ : Entry) (p : String) (e : Entry) (k : String × Bool) (h : BaseAt E₀ p e)
    (hk : TrackedKey p e k) : TrackedKey "" E₀ k := by
  induction h with
  | root => exact hk
  | child p bb name e _ hl ih =>
    apply ih
    obtain ⟨pr, cs⟩ := bb
    simp only [Entry.children] at hl
    simp only [TrackedKey]
    right
    have hne : cs.isEmpty = false := by
      cases cs with
      | nil => cases hl
      | cons _ _ => rfl
    simp only [hne, Bool.false_eq_true, if_false]
    exact trackedKeyL_of_lookup (joinable p) name e k cs hl hk

theorem under_empty (cp : String) (h : Under "" cp) : cp = "" := by
  obtain ⟨s, hs, _⟩ := h
  have := congrArg String.toList hs
  simp only [String.toList_append] at this
  have h2 : cp.toList = [] := by
    cases hc : cp.toList with
    | nil => rfl
    | cons a t => rw [hc] at this; simp at this
  simpa using h2

end Mutagen.Proofs.ScanIgnKeys
