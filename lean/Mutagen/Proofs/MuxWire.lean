/-
Wire predicates used by the multiplexer invariant (C24) and their behaviour
under the two things that happen to a wire: a message is appended at the
back (sent) or removed at the front (delivered).
-/
import Mutagen.Model.Mux
namespace Mutagen.Model.Mux

def Msg.isOpenOf (X : Nat) : Msg → Bool
  | .open id _ => id == X
  | _ => false

def Msg.isAcceptOf (X : Nat) : Msg → Bool
  | .accept id _ => id == X
  | _ => false

def Msg.isDataOf (X : Nat) : Msg → Bool
  | .data id _ => id == X
  | _ => false

def Msg.isIncrOf (X : Nat) : Msg → Bool
  | .incr id _ => id == X
  | _ => false

def Msg.isCWOf (X : Nat) : Msg → Bool
  | .closeWrite id => id == X
  | _ => false

def Msg.isCloseOf (X : Nat) : Msg → Bool
  | .close id => id == X
  | _ => false

/-- the message is a non-heartbeat message about stream `X` -/
def Msg.about (X : Nat) : Msg → Bool
  | .heartbeat => false
  | m => m.id == X

/-- Bytes of stream `X` in flight. -/
def dataBytes (X : Nat) : List Msg → Nat
  | [] => 0
  | .data id bs :: w => (if id = X then bs.length else 0) + dataBytes X w
  | _ :: w => dataBytes X w

/-- Window credit of stream `X` in flight. -/
def incrSum (X : Nat) : List Msg → Nat
  | [] => 0
  | .incr id a :: w => (if id = X then a else 0) + incrSum X w
  | _ :: w => incrSum X w

/-- No `q`-message behind a `p`-message. -/
def NoAfter (p q : Msg → Bool) : List Msg → Prop
  | [] => True
  | m :: w => (p m = true → ∀ m' ∈ w, q m' = false) ∧ NoAfter p q w

/-- The first message about `X`, if any, is `good`. -/
def FirstOK (X : Nat) (good : Msg → Bool) : List Msg → Prop
  | [] => True
  | m :: w => if m.about X then good m = true else FirstOK X good w

/-- Open messages carry strictly increasing identifiers above `lo`. -/
def OpensOK (lo : Nat) : List Msg → Prop
  | [] => True
  | .open id _ :: w => lo < id ∧ OpensOK id w
  | _ :: w => OpensOK lo w

/-! ### append -/

theorem dataBytes_append (X : Nat) (w v : List Msg) : dataBytes X (w ++ v) = dataBytes X w + dataBytes X v := by
  induction w with
  | nil => simp [dataBytes]
  | cons m w ih => cases m <;> simp [dataBytes, ih] <;> omega

theorem incrSum_append (X : Nat) (w v : List Msg) : incrSum X (w ++ v) = incrSum X w + incrSum X v := by
  induction w with
  | nil => simp [incrSum]
  | cons m w ih => cases m <;> simp [incrSum, ih] <;> omega

theorem noAfter_append_one (p q : Msg → Bool) (w : List Msg) (m : Msg) :
    NoAfter p q (w ++ [m]) ↔ NoAfter p q w ∧ (q m = true → ∀ m' ∈ w, p m' = false) := by
  induction w with
  | nil => simp [NoAfter]
  | cons x w ih =>
    simp only [List.cons_append, NoAfter, ih, List.mem_append, List.mem_cons]
    grind

theorem firstOK_append_one (X : Nat) (good : Msg → Bool) (w : List Msg) (m : Msg) :
    FirstOK X good (w ++ [m]) ↔
      FirstOK X good w ∧ ((∀ m' ∈ w, m'.about X = false) → m.about X = true → good m = true) := by
  induction w with
  | nil => simp [FirstOK]
  | cons x w ih =>
    simp only [List.cons_append, FirstOK, List.mem_cons, ih]
    grind

theorem opensOK_append_other (lo : Nat) (w : List Msg) (m : Msg) (h : ∀ id win, m ≠ .open id win) :
    OpensOK lo (w ++ [m]) ↔ OpensOK lo w := by
  induction w generalizing lo with
  | nil => cases m <;> simp_all [OpensOK]
  | cons x w ih => cases x <;> simp [OpensOK, ih]

theorem opensOK_append_open (lo : Nat) (w : List Msg) (id win : Nat) :
    OpensOK lo (w ++ [.open id win]) ↔
      OpensOK lo w ∧ lo < id ∧ ∀ id' win', .open id' win' ∈ w → id' < id := by
  induction w generalizing lo with
  | nil => simp [OpensOK]
  | cons x w ih =>
    cases x with
    | «open» i v =>
      simp only [List.cons_append, OpensOK, ih, List.mem_cons, Msg.open.injEq]
      constructor
      · rintro ⟨h1, h2, h3, h4⟩
        refine ⟨⟨h1, h2⟩, by omega, fun id' win' h => ?_⟩
        rcases h with ⟨rfl, _⟩ | h
        · exact h3
        · exact h4 id' win' h
      · rintro ⟨⟨h1, h2⟩, h3, h4⟩
        exact ⟨h1, h2, h4 i v (Or.inl ⟨rfl, rfl⟩), fun id' win' h => h4 id' win' (Or.inr h)⟩
    | _ =>
      simp only [List.cons_append, OpensOK, ih, List.mem_cons]
      simp

/-- In an increasing sequence above `lo` every open identifier exceeds `lo`. -/
theorem opensOK_gt (lo : Nat) (w : List Msg) (h : OpensOK lo w) :
    ∀ id win, .open id win ∈ w → lo < id := by
  induction w generalizing lo with
  | nil => simp
  | cons x w ih =>
    intro id win hm
    cases x with
    | «open» i v =>
      simp only [OpensOK] at h
      rcases List.mem_cons.mp hm with he | hm
      · cases he; exact h.1
      · have := ih i h.2 id win hm; omega
    | _ =>
      simp only [OpensOK] at h
      rcases List.mem_cons.mp hm with he | hm
      · cases he
      · exact ih lo h id win hm

theorem opensOK_mono (lo lo' : Nat) (w : List Msg) (hle : lo' ≤ lo) (h : OpensOK lo w) : OpensOK lo' w := by
  induction w generalizing lo lo' with
  | nil => trivial
  | cons x w ih =>
    cases x with
    | «open» i v => simp only [OpensOK] at h ⊢; exact ⟨by omega, h.2⟩
    | _ => simp only [OpensOK] at h ⊢; exact ih lo lo' hle h

theorem dataBytes_eq_zero_of_none (X : Nat) (w : List Msg) (h : ∀ m ∈ w, m.isDataOf X = false) :
    dataBytes X w = 0 := by
  induction w with
  | nil => rfl
  | cons m w ih =>
    have hm := h m (List.mem_cons_self)
    have ih' := ih fun m' hm' => h m' (List.mem_cons_of_mem _ hm')
    cases m <;> simp_all [dataBytes, Msg.isDataOf]

theorem incrSum_eq_zero_of_none (X : Nat) (w : List Msg) (h : ∀ m ∈ w, m.isIncrOf X = false) :
    incrSum X w = 0 := by
  induction w with
  | nil => rfl
  | cons m w ih =>
    have hm := h m (List.mem_cons_self)
    have ih' := ih fun m' hm' => h m' (List.mem_cons_of_mem _ hm')
    cases m <;> simp_all [incrSum, Msg.isIncrOf]

end Mutagen.Model.Mux
