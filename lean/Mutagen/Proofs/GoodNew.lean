import Mutagen.Proofs.TransitionExact
import Mutagen.Proofs.Expected
/-!
`GoodNew` (the hypothesis of the exactness theorems about new entries) follows
from what the code already enforces on every plan: `EnsureValid(true)`, plus
the absence of temporary names.
-/
namespace Mutagen.Proofs.FS
open Mutagen.Model Mutagen.Model.TFS

/-- No content name of the entry is a temporary name. -/
inductive NoTempNames : Entry → Prop
  | mk (p : Props) (cs : Contents) : (∀ n c, lookup n cs = some c → isTemporaryName n = false) →
      (∀ n c, lookup n cs = some c → NoTempNames c) → NoTempNames (.mk p cs)

theorem lookup_mem (n : Name) (cs : Contents) (c : Entry) (h : lookup n cs = some c) : (n, c) ∈ cs := by
  induction cs with
  | nil => simp [lookup] at h
  | cons hd tl ih =>
    obtain ⟨m, e⟩ := hd
    simp only [lookup] at h
    split at h
    · rename_i hm; subst hm; simp only [Option.some.injEq] at h; subst h; simp
    · simp [ih h]

theorem ensureValidL_mem (sync : Bool) (cs : Contents) (n : Name) (c : Entry) (h : Entry.ensureValidL sync cs = true)
    (hm : (n, c) ∈ cs) : c.ensureValid sync = true := by
  induction cs with
  | nil => cases hm
  | cons hd tl ih =>
    obtain ⟨m, e⟩ := hd
    simp only [Entry.ensureValidL, Bool.and_eq_true] at h
    rcases List.mem_cons.mp hm with h1 | h1
    · simp only [Prod.mk.injEq] at h1; obtain ⟨_, rfl⟩ := h1; exact h.1.2
    · exact ih h.2 h1

/-- A synchronizable-valid entry without temporary names is a `GoodNew` entry. -/
theorem goodNew_of_valid : ∀ (k : Nat) (e : Entry), e.size ≤ k → e.ensureValid true = true → NoTempNames e → GoodNew e := by
  intro k
  induction k with
  | zero => intro e hs; have := Entry.size_pos e; omega
  | succ k ih =>
    intro e hs hv hn
    cases e with
    | mk p cs =>
      cases hn with
      | mk _ _ hnames hkids =>
        obtain ⟨kind, exec, digest, target, problem⟩ := p
        cases kind with
        | directory =>
          simp only [Entry.ensureValid, Bool.and_eq_true, List.isEmpty_iff, Bool.not_eq_true', beq_iff_eq] at hv
          obtain ⟨⟨⟨⟨hd, he⟩, ht⟩, hp⟩, hl⟩ := hv
          subst hd; subst he; subst ht; subst hp
          refine GoodNew.dir cs hnames ?_
          intro n c hc
          apply ih c
          · have := lookup_size_lt n cs c hc
            simp only [Entry.size] at hs; omega
          · exact ensureValidL_mem true cs n c hl (lookup_mem n cs c hc)
          · exact hkids n c hc
        | file =>
          simp only [Entry.ensureValid, Bool.and_eq_true, List.isEmpty_iff, beq_iff_eq] at hv
          obtain ⟨⟨⟨hc, ht⟩, hp⟩, _⟩ := hv
          subst hc; subst ht; subst hp
          exact GoodNew.file exec digest
        | symlink =>
          simp only [Entry.ensureValid, Bool.and_eq_true, List.isEmpty_iff, Bool.not_eq_true', beq_iff_eq] at hv
          obtain ⟨⟨⟨⟨hc, hd⟩, he⟩, hp⟩, _⟩ := hv
          subst hc; subst hd; subst he; subst hp
          exact GoodNew.symlink target
        | untracked => exact GoodNew.other _ (by simp [Entry.kind, Entry.props]) (by simp [Entry.kind, Entry.props]) (by simp [Entry.kind, Entry.props])
        | problematic => exact GoodNew.other _ (by simp [Entry.kind, Entry.props]) (by simp [Entry.kind, Entry.props]) (by simp [Entry.kind, Entry.props])
        | phantom => exact GoodNew.other _ (by simp [Entry.kind, Entry.props]) (by simp [Entry.kind, Entry.props]) (by simp [Entry.kind, Entry.props])
        | unknown => exact GoodNew.other _ (by simp [Entry.kind, Entry.props]) (by simp [Entry.kind, Entry.props]) (by simp [Entry.kind, Entry.props])

end Mutagen.Proofs.FS
