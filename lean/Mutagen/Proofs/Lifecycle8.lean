import Mutagen.Proofs.Lifecycle4
/-!
Lifecycle model: the flush bookkeeping (ghost fields of the caller of the
request being served).
-/
namespace Mutagen.Proofs.Lifecycle
open Mutagen.Model.Lifecycle

/-- What the ghost fields of the caller `x` say while the loop `l` serves its request. -/
def Bits (l : Loop) (x : Thread) : Prop :=
  (l.pc = .scan → l.forced = true ∧ (1 ≤ l.a → x.fullA = true) ∧ (1 ≤ l.b → x.fullB = true) ∧
      (l.scanOk = true → (l.a = 2 → x.okA = true) ∧ (l.b = 2 → x.okB = true))) ∧
  ((l.pc = .stageA ∨ l.pc = .supB ∨ l.pc = .stageB ∨ l.pc = .supA ∨ l.pc = .trans) →
      x.fullA = true ∧ x.fullB = true ∧ x.okA = true ∧ x.okB = true)

structure InvF (s : State) : Prop where
  ans : ∀ x ∈ s.threads, x.answered = true →
    x.fullA = true ∧ x.fullB = true ∧ x.okA = true ∧ x.okB = true
  serving : ∀ l t, s.loop = some l → l.req = some t → ∀ x ∈ s.threads, x.id = t → Bits l x
  done : ∀ x ∈ s.threads, x.op = .flush true → x.ph = .finished .ok → x.answered = true
  used_thr : ∀ x ∈ s.threads, x.id ∈ s.used
  used_q : ∀ t, s.flushQ = some t → t ∈ s.used
  used_req : ∀ l t, s.loop = some l → l.req = some t → t ∈ s.used

theorem invF_init (w : Bool) : InvF (init w) := by
  constructor <;> simp [init]

set_option maxHeartbeats 64000000 in
set_option maxRecDepth 10000 in
theorem serving_scan {s : State} {l : Loop} {lab : Label} {s' : State} (hpc : l.pc = .scan)
    (h : (lab, s') ∈ loopSteps s l)
    (i2' : ∀ t, l.req = some t → ∀ x ∈ s.threads, x.id = t → Bits l x) :
    ∀ l' t, s'.loop = some l' → l'.req = some t → ∀ x ∈ s'.threads, x.id = t → Bits l' x := by
  unfold loopSteps at h
  simp only [hpc] at h
  simp only [List.mem_append, List.mem_cons, List.mem_flatMap, List.not_mem_nil, or_false,
      bothSides, List.mem_ite_nil_right, Prod.mk.injEq] at h
  cases hreq : l.req with
  | none =>
    intro l' t hl' hr'
    exfalso
    rcases h with ⟨sd, _, h | h⟩ | h
    all_goals
      aesop (add norm simp [State.noteScan, setProg, enterExit])
  | some t0 =>
    have hb := i2' t0 hreq
    clear i2'
    unfold Bits at *
    rcases h with ⟨sd, hsd, h | h⟩ | h
    · obtain ⟨h0, rfl, rfl⟩ := h
      rcases hsd with rfl | rfl
      all_goals
        simp only [State.noteScan, hreq, State.updThread, setProg, sideProg] at *
        intro l' t hl' hr' x hx hid
        simp only [Option.some.injEq] at hl'
        subst hl'
        simp only [hreq, Option.some.injEq] at hr'
        subst hr'
        simp only [List.mem_map] at hx
        obtain ⟨y, hy, rfl⟩ := hx
        have hby := hb y hy
        simp only [hpc, true_implies] at hby ⊢
        split at hid <;> split <;> simp_all
    · obtain ⟨h1, h | h⟩ := h
      · obtain ⟨rfl, rfl⟩ := h
        rcases hsd with rfl | rfl
        all_goals
          simp only [State.noteScan, hreq, State.updThread, setProg, sideProg] at *
          intro l' t hl' hr' x hx hid
          simp only [Option.some.injEq] at hl'
          subst hl'
          simp only [hreq, Option.some.injEq] at hr'
          subst hr'
          simp only [List.mem_map] at hx
          obtain ⟨y, hy, rfl⟩ := hx
          have hby := hb y hy
          simp only [hpc, true_implies] at hby ⊢
          split at hid <;> split <;> simp_all
      · obtain ⟨rfl, rfl⟩ := h
        rcases hsd with rfl | rfl
        all_goals
          simp only [setProg, sideProg] at *
          intro l' t hl' hr' x hx hid
          simp only [Option.some.injEq] at hl'
          subst hl'
          simp only [hreq, Option.some.injEq] at hr'
          subst hr'
          have hby := hb x hx hid
          simp only [hpc, true_implies] at hby ⊢
          simp_all
    · obtain ⟨h1, h | h⟩ := h
      · obtain ⟨hok, rfl, rfl⟩ := h
        intro l' t hl' hr' x hx hid
        simp only [Option.some.injEq] at hl'
        subst hl'
        simp only [hreq, Option.some.injEq] at hr'
        subst hr'
        have hby := hb x hx hid
        simp only [hpc, true_implies] at hby
        simp_all
      · obtain ⟨_, rfl, rfl⟩ := h
        intro l' t hl' hr'
        simp only [Option.some.injEq] at hl'
        subst hl'
        simp [enterExit] at hr'

set_option maxHeartbeats 64000000 in
set_option maxRecDepth 10000 in
theorem invF_loop {s : State} {l : Loop} {lab : Label} {s' : State} (hl : s.loop = some l)
    (h : (lab, s') ∈ loopSteps s l) (i : InvF s) : InvF s' := by
  obtain ⟨i1, i2, i3, i4, i5, i6⟩ := i
  have i2' := i2 l
  have i6' := i6 l
  simp only [hl, true_implies] at i2' i6'
  clear i2 i6
  refine ⟨?_, ?_, ?_, ?_, ?_, ?_⟩
  case refine_2 =>
    by_cases hpc : l.pc = .scan
    · exact serving_scan hpc h i2'
    · unfold loopSteps at h
      split at h
      all_goals
        simp only [List.mem_append, List.mem_cons, List.mem_flatMap, List.not_mem_nil, or_false,
          bothSides, List.mem_ite_nil_right, Prod.mk.injEq] at h
      all_goals
        first
        | (rename_i heq; exact absurd heq hpc)
        | aesop (add norm simp [Bits, State.updThread, State.noteScan, enterPoll, enterScan, enterExit, setProg, sideProg])
            (add safe forward i1) (add safe forward i3) (add safe forward i4)
  all_goals
    unfold loopSteps at h
    split at h
    all_goals
      simp only [List.mem_append, List.mem_cons, List.mem_flatMap, List.not_mem_nil, or_false,
        bothSides, List.mem_ite_nil_right, Prod.mk.injEq] at h
    all_goals
      aesop (add norm simp [Bits, State.updThread, State.noteScan, enterPoll, enterScan, enterExit, setProg, sideProg])
        (add safe forward i1) (add safe forward i3) (add safe forward i4)

end Mutagen.Proofs.Lifecycle
