import Mutagen.Proofs.TransitionExact
/-!
The link between `RepAt` (the declarative "this entry describes that position")
and the model of a cold scan (`describe` followed by the synchronizable
filter): the scan's synchronizable view is a description, and descriptions are
unique up to the order of directory contents.
-/
namespace Mutagen.Proofs.FS
open Mutagen.Model Mutagen.Model.TFS Mutagen.Proofs.Assoc

/-- The scan configuration that goes with an exactness context. -/
def scOf (X : XCtx) : ScanCfg := { slMode := X.env.slMode, norm := X.env.norm, H := X.H }

/-- Directory tables have distinct names. -/
inductive WFNode : Node → Prop
  | dir (p : Nat) (cs : Kids) : (akeys cs).Nodup → (∀ n c, (n, c) ∈ cs → WFNode c) → WFNode (.dir p cs)
  | file (d : List UInt8) (p m i : Nat) : WFNode (.file d p m i)
  | symlink (t : String) : WFNode (.symlink t)
  | other : WFNode .other

theorem aget_none_of_not_mem (n : Name) (cs : Kids) (h : n ∉ akeys cs) : aget n cs = none := by
  cases hg : aget n cs with
  | none => rfl
  | some v =>
    exfalso; apply h
    exact (aget_isSome_iff_mem_keys n cs).mp (by simp [hg])

/-- The contents a scan reports for a directory table, after the
synchronizable filter, as a lookup function. -/
theorem lookup_scan_kids (sc : ScanCfg) (p : Path) (cs : Kids) (hnd : (akeys cs).Nodup) (n : Name) :
    lookup n (Entry.synchronizableL (describeKids sc p cs)) =
      if isTemporaryName n then none
      else (aget n cs).bind fun c => (describe sc (p ++ [n]) c).synchronizable := by
  induction cs with
  | nil => simp [describeKids, Entry.synchronizableL, lookup, aget]
  | cons hd tl ih =>
    obtain ⟨m, c⟩ := hd
    have hnd' : (akeys tl).Nodup := by
      simp only [akeys, List.map_cons, List.nodup_cons] at hnd; exact hnd.2
    have hm : m ∉ akeys tl := by
      simp only [akeys, List.map_cons, List.nodup_cons] at hnd; exact hnd.1
    have ih' := ih hnd'
    simp only [describeKids]
    by_cases hmn : m = n
    · subst hmn
      simp only [aget, if_true, Option.bind_some]
      split
      · rename_i htmp
        rw [ih']; simp [htmp]
      · rename_i htmp
        simp only [Entry.synchronizableL]
        split
        · rename_i hs
          rw [ih', aget_none_of_not_mem m tl hm]
          simp [htmp, hs]
        · rename_i c' hs
          simp [lookup, htmp, hs]
    · simp only [aget, hmn, if_false]
      split
      · exact ih'
      · simp only [Entry.synchronizableL]
        split
        · exact ih'
        · simp only [lookup, hmn, if_false]; exact ih'

theorem sync_dir (cs : Contents) :
    (Entry.mk { kind := .directory } cs).synchronizable = some (.mk { kind := .directory } (Entry.synchronizableL cs)) := by
  simp only [Entry.synchronizable, Kind.synchronizable]
  cases cs with
  | nil => simp [Entry.synchronizableL]
  | cons h t => simp

/-- **The scan's synchronizable view is a description** of what is on disk. -/
theorem describe_rep (X : XCtx) : ∀ (k : Nat) (node : Node) (fs : Node) (q : List Name) (p : Path),
    sizeOf node ≤ k → WFNode node → fs.get q = some node →
    RepO X fs q p (describe (scOf X) p node).synchronizable := by
  intro k
  induction k with
  | zero => intro node fs q p hs; cases node <;> simp at hs <;> omega
  | succ k ih =>
    intro node fs q p hs hwf hget
    have hsg := sget_of_get fs q node hget
    cases node with
    | file d perm m i =>
      simp only [describe, Entry.synchronizable, Kind.synchronizable]
      simp only [RepO, shallow] at hsg ⊢
      exact RepAt.file q p d perm m i hsg
    | other =>
      simp only [describe, Entry.synchronizable, Kind.synchronizable]
      simp [RepO, UnsyncAt, hsg, shallow]
    | symlink t =>
      simp only [shallow] at hsg
      simp only [describe, scOf]
      cases hm : X.env.slMode with
      | ignore =>
        simp only [Entry.synchronizable, Kind.synchronizable]
        simp [RepO, UnsyncAt, hsg, linkShown, hm]
      | portable =>
        simp only
        cases hn : X.env.norm p t with
        | none =>
          simp only [Entry.synchronizable, Kind.synchronizable]
          simp [RepO, UnsyncAt, hsg, linkShown, hm, hn]
        | some t' =>
          simp only [Entry.synchronizable, Kind.synchronizable]
          exact RepAt.symlink q p t t' hsg (by simp [linkShown, hm, hn])
      | posixRaw =>
        simp only
        by_cases ht : t = ""
        · simp only [ht, beq_self_eq_true, if_true, Entry.synchronizable, Kind.synchronizable]
          subst ht
          simp [RepO, UnsyncAt, hsg, linkShown, hm]
        · have : (t == "") = false := by simp [ht]
          simp only [this, Entry.synchronizable, Kind.synchronizable]
          exact RepAt.symlink q p t t hsg (by simp [linkShown, hm, ht])
    | dir perm cs =>
      simp only [shallow] at hsg
      cases hwf with
      | dir _ _ hnd hkids =>
        simp only [describe]
        rw [sync_dir]
        simp only [RepO]
        have hlk := lookup_scan_kids (scOf X) p cs hnd
        -- every child is smaller
        have hsmall : ∀ n c, aget n cs = some c → sizeOf c ≤ k := by
          intro n c hc
          have hm := aget_some_mem n c cs hc
          have h1 : sizeOf c < sizeOf cs := by
            have := List.sizeOf_lt_of_mem hm
            simp only [Prod.mk.sizeOf_spec] at this
            omega
          simp only [Node.dir.sizeOf_spec] at hs
          omega
        have hchild : ∀ n c, aget n cs = some c →
            RepO X fs (q ++ [n]) (p ++ [n]) (describe (scOf X) (p ++ [n]) c).synchronizable := by
          intro n c hc
          apply ih c fs (q ++ [n]) (p ++ [n]) (hsmall n c hc) (hkids n c (aget_some_mem n c cs hc))
          rw [get_child fs q perm cs hget]; exact hc
        refine RepAt.dir q p perm _ hsg ?_ ?_ ?_
        · intro n ce hl
          rw [hlk] at hl
          split at hl
          · cases hl
          · rename_i h; simpa using h
        · intro n ce hl
          rw [hlk] at hl
          split at hl
          · cases hl
          · cases hc : aget n cs with
            | none => rw [hc] at hl; cases hl
            | some c =>
              rw [hc] at hl
              simp only [Option.bind_some] at hl
              have := hchild n c hc
              rw [hl] at this
              exact this
        · intro n hn hl
          rw [hlk] at hl
          simp only [hn, Bool.false_eq_true, if_false] at hl
          cases hc : aget n cs with
          | none =>
            apply unsync_of_none
            rw [sget, get_child fs q perm cs hget, hc]; rfl
          | some c =>
            rw [hc] at hl
            simp only [Option.bind_some] at hl
            have := hchild n c hc
            rw [hl] at this
            exact this

/-- Equality of entries up to the order of directory contents. -/
inductive EqE : Entry → Entry → Prop
  | mk (p : Props) (cs1 cs2 : Contents) :
      (∀ n, lookup n cs1 = none ↔ lookup n cs2 = none) →
      (∀ n a b, lookup n cs1 = some a → lookup n cs2 = some b → EqE a b) → EqE (.mk p cs1) (.mk p cs2)

/-- Equality of optional entries up to the order of directory contents. -/
def EqO : Option Entry → Option Entry → Prop
  | none, none => True
  | some a, some b => EqE a b
  | _, _ => False

theorem unsync_rep_absurd (X : XCtx) (fs : Node) (q : List Name) (p : Path) (e : Entry)
    (hu : UnsyncAt X fs q p) (hr : RepAt X fs q p e) : False := by
  unfold UnsyncAt at hu
  cases hr with
  | file q p d perm m i hq => simp [hq] at hu
  | symlink q p t t' hq hl => simp [hq, hl] at hu
  | dir q p perm cs hq ht hk hu' => simp [hq] at hu

/-- **Descriptions are unique** up to the order of directory contents. -/
theorem rep_unique (X : XCtx) (fs : Node) (q : List Name) (p : Path) (e1 e2 : Entry)
    (h1 : RepAt X fs q p e1) (h2 : RepAt X fs q p e2) : EqE e1 e2 := by
  induction h1 generalizing e2 with
  | file q p d perm m i hq =>
    cases h2 with
    | file _ _ d' perm' m' i' hq' =>
      rw [hq] at hq'; simp only [Option.some.injEq, Shallow.file.injEq] at hq'
      obtain ⟨rfl, rfl, _, _⟩ := hq'
      exact EqE.mk _ [] [] (fun n => Iff.rfl) (fun n a b ha => by cases ha)
    | symlink _ _ t t' hq' hl => rw [hq] at hq'; cases hq'
    | dir _ _ perm' cs hq' ht hk hu => rw [hq] at hq'; cases hq'
  | symlink q p t t' hq hl =>
    cases h2 with
    | file _ _ d' perm' m' i' hq' => rw [hq] at hq'; cases hq'
    | symlink _ _ t2 t2' hq' hl' =>
      rw [hq] at hq'; simp only [Option.some.injEq, Shallow.symlink.injEq] at hq'
      subst hq'
      rw [hl] at hl'; simp only [Option.some.injEq] at hl'
      subst hl'
      exact EqE.mk _ [] [] (fun n => Iff.rfl) (fun n a b ha => by cases ha)
    | dir _ _ perm' cs hq' ht hk hu => rw [hq] at hq'; cases hq'
  | dir q p perm cs hq ht hk hu ih =>
    cases h2 with
    | file _ _ d' perm' m' i' hq' => rw [hq] at hq'; cases hq'
    | symlink _ _ t t' hq' hl => rw [hq] at hq'; cases hq'
    | dir _ _ perm' cs' hq' ht' hk' hu' =>
      refine EqE.mk _ cs cs' ?_ ?_
      · intro n
        constructor
        · intro hn
          cases hc : lookup n cs' with
          | none => rfl
          | some c' =>
            exfalso
            exact unsync_rep_absurd X fs _ _ c' (hu n (ht' n c' hc) hn) (hk' n c' hc)
        · intro hn
          cases hc : lookup n cs with
          | none => rfl
          | some c =>
            exfalso
            exact unsync_rep_absurd X fs _ _ c (hu' n (ht n c hc) hn) (hk n c hc)
      · intro n a b ha hb
        exact ih n a ha b (hk' n b hb)

theorem repO_unique (X : XCtx) (fs : Node) (q : List Name) (p : Path) (r1 r2 : Option Entry)
    (h1 : RepO X fs q p r1) (h2 : RepO X fs q p r2) : EqO r1 r2 := by
  cases r1 with
  | none =>
    cases r2 with
    | none => trivial
    | some b => exact unsync_rep_absurd X fs q p b h1 h2
  | some a =>
    cases r2 with
    | none => exact unsync_rep_absurd X fs q p a h2 h1
    | some b => exact rep_unique X fs q p a b h1 h2

/-- The description of an empty position. -/
theorem repO_absent (X : XCtx) (fs : Node) (q : List Name) (p : Path) (h : fs.get q = none) : RepO X fs q p none := by
  apply unsync_of_none; simp [sget, h]

end Mutagen.Proofs.FS
