import Mutagen.Proofs.History
/-!
Exact application of a reconciliation plan keeps endpoint trees valid: a
generic path-wise well-formedness predicate (`PW ok`, of which `VSP` is the
instance for synchronizable trees), its equivalence with `Valid ∧ onoPhantom`
for `ok = NodeOkE`, its preservation by `Apply` and by the synchronizable
filter, where planned changes sit and what they install
(`reconcile_changes_shape`), and `plan_application_valid`.
-/
namespace Mutagen.Model

/-! ## Path-wise validity of endpoint trees (with unsynchronizable content, without phantoms) -/

/-- Generic path-wise well-formedness: every entry satisfies `ok`, has a valid
name and sits in a directory. (`VSP = PW NodeOk`.) -/
def PW (ok : Props → Prop) (e : Option Entry) : Prop :=
  ∀ q pr, pget e q = some pr → ok pr ∧ DirParent e q

/-- Scalar fields of a valid entry of any kind except phantom directory. -/
def NodeOkE (p : Props) : Prop :=
  NodeOk p ∨
  (p.kind = .untracked ∧ p.digest = [] ∧ p.executable = false ∧ p.target = "" ∧ p.problem = "") ∨
  (p.kind = .problematic ∧ p.digest = [] ∧ p.executable = false ∧ p.target = "" ∧ p.problem ≠ "")

theorem pw_none (ok : Props → Prop) : PW ok none := by intro q pr hq; simp at hq

theorem PW.mono {ok ok' : Props → Prop} (h : ∀ p, ok p → ok' p) {e : Option Entry} (he : PW ok e) : PW ok' e :=
  fun q pr hq => ⟨h pr (he q pr hq).1, (he q pr hq).2⟩

theorem vsp_iff_pw (e : Option Entry) : VSP e ↔ PW NodeOk e := Iff.rfl

theorem applyChange_pw (ok : Props → Prop) (r : Option Entry) (c : Change) (hr : PW ok r) (hnew : PW ok c.new)
    (hp : DirParent r c.path) :
    ∃ r', applyChange r c = .ok r' ∧
      (∀ q, pget r' q = if c.path <+: q then pget c.new (q.drop c.path.length) else pget r q) ∧ PW ok r' := by
  obtain ⟨r', h1, h2⟩ := applyChange_spec r c hp.parentExists
  refine ⟨r', h1, h2, ?_⟩
  intro q pr hq
  rw [h2] at hq
  by_cases hpre : c.path <+: q
  · obtain ⟨t, rfl⟩ := hpre
    simp only [List.prefix_append, ↓reduceIte, List.drop_left] at hq
    obtain ⟨hok, hdp⟩ := hnew t pr hq
    refine ⟨hok, ?_⟩
    cases t with
    | nil =>
      simp only [List.append_nil]
      rcases hp with h0 | ⟨⟨pp, hpp, hppk⟩, hname⟩
      · exact Or.inl h0
      · right
        refine ⟨⟨pp, ?_, hppk⟩, hname⟩
        rw [h2]
        have hne : c.path ≠ [] := by
          intro h0; rw [h0] at hname; obtain ⟨n, hn, _⟩ := hname; simp at hn
        simp [not_prefix_dropLast_self hne, hpp]
    | cons x t' =>
      rcases hdp with h0 | ⟨⟨pp, hpp, hppk⟩, ⟨n, hn, hnv⟩⟩
      · cases h0
      · right
        refine ⟨⟨pp, ?_, hppk⟩, ⟨n, ?_, hnv⟩⟩
        · rw [List.dropLast_append_of_ne_nil (by simp), h2]
          simp [hpp]
        · rw [getLast?_append_ne_nil _ _ (by simp)]; exact hn
  · simp only [hpre, ↓reduceIte] at hq
    obtain ⟨hok, hdp⟩ := hr q pr hq
    refine ⟨hok, ?_⟩
    rcases hdp with h0 | ⟨⟨pp, hpp, hppk⟩, hname⟩
    · exact Or.inl h0
    · right
      refine ⟨⟨pp, ?_, hppk⟩, hname⟩
      rw [h2]
      have : ¬ c.path <+: q.dropLast := fun hh => hpre (hh.trans (List.dropLast_prefix q))
      simp [this, hpp]

theorem apply_incomparable_pw (ok : Props → Prop) (cs : List Change) :
    ∀ r, List.Pairwise (fun a b : Change => incomparable a.path b.path) cs → PW ok r →
      (∀ c ∈ cs, DirParent r c.path ∧ PW ok c.new) → ∃ r', apply r cs = .ok r' ∧ PW ok r' := by
  induction cs with
  | nil => intro r _ hv _; exact ⟨r, rfl, hv⟩
  | cons c cs ih =>
    intro r hp hv hc
    rw [List.pairwise_cons] at hp
    obtain ⟨r1, h1, h1q, h1v⟩ := applyChange_pw ok r c hv (hc c (by simp)).2 (hc c (by simp)).1
    have hc1 : ∀ d ∈ cs, DirParent r1 d.path ∧ PW ok d.new := by
      intro d hd
      refine ⟨(hc d (by simp [hd])).1.of_outside ?_, (hc d (by simp [hd])).2⟩
      rw [h1q]
      have hinc := hp.1 d hd
      have : ¬ c.path <+: d.path.dropLast := fun hpre =>
        hinc.1 (hpre.trans (List.dropLast_prefix _))
      simp [this]
    obtain ⟨r', h', hv'⟩ := ih r1 hp.2 h1v hc1
    exact ⟨r', by simp [apply, h1, h'], hv'⟩

theorem nodeOkE_of_ensureValid {p : Props} {cs : Contents} (h : (Entry.mk p cs).ensureValid false = true)
    (hp : p.kind ≠ .phantom) :
    NodeOkE p ∧ (p.kind ≠ .directory → cs = []) ∧ (p.kind = .directory → Entry.ensureValidL false cs = true) := by
  unfold Entry.ensureValid at h
  unfold NodeOkE NodeOk
  cases hk : p.kind <;> simp [hk] at h hp ⊢
  · exact ⟨⟨h.1.1.1.1, h.1.1.1.2, h.1.1.2, h.1.2⟩, h.2⟩
  · exact ⟨⟨h.1.1.2, h.1.2, h.2⟩, h.1.1.1⟩
  · exact ⟨⟨h.1.1.1.2, h.1.1.2, h.1.2, h.2⟩, h.1.1.1.1⟩
  · exact ⟨⟨h.1.1.1.2, h.1.1.2, h.1.2, h.2⟩, h.1.1.1.1⟩
  · exact ⟨⟨h.1.1.1.2, h.1.1.2, h.1.2, h.2⟩, h.1.1.1.1⟩

/-- `EnsureValid(false)` without phantom directories implies the path-wise form. -/
theorem Entry.pwE_of_valid (q : Path) :
    ∀ (e : Entry), e.ensureValid false = true → e.noPhantom = true → ∀ pr, pget (some e) q = some pr →
      NodeOkE pr ∧ DirParent (some e) q := by
  induction q with
  | nil =>
    intro e hv hp pr hq
    cases e with
    | mk p cs =>
      simp only [pget, getPath, Option.map_some, Option.some.injEq, Entry.props] at hq
      subst hq
      have hph : p.kind ≠ .phantom := by
        simp only [Entry.noPhantom, Bool.and_eq_true, bne_iff_ne, ne_eq] at hp; exact hp.1
      exact ⟨(nodeOkE_of_ensureValid hv hph).1, Or.inl rfl⟩
  | cons n q ih =>
    intro e hv hp pr hq
    cases e with
    | mk p cs =>
      have hph : p.kind ≠ .phantom := by
        simp only [Entry.noPhantom, Bool.and_eq_true, bne_iff_ne, ne_eq] at hp; exact hp.1
      obtain ⟨hok, hleaf, hdir⟩ := nodeOkE_of_ensureValid hv hph
      rw [pget_some_cons, Entry.children] at hq
      cases hl : lookup n cs with
      | none => rw [hl] at hq; simp at hq
      | some c =>
        rw [hl] at hq
        have hkd : p.kind = .directory := by
          by_cases hk : p.kind = .directory
          · exact hk
          · have := hleaf hk; subst this; simp [lookup] at hl
        obtain ⟨hn, hc⟩ := ensureValidL_mem (hdir hkd) hl
        have hcp : c.noPhantom = true := by
          have := onoPhantom_lookup (e := some (.mk p cs)) hp n
          simpa [contents, Entry.children, hl, onoPhantom] using this
        obtain ⟨h1, h2⟩ := ih c hc hcp pr hq
        refine ⟨h1, Or.inr ?_⟩
        rcases h2 with rfl | ⟨⟨pp, hpp, hppk⟩, ⟨m, hm, hmv⟩⟩
        · exact ⟨⟨p, by simp [pget, getPath, Entry.props], hkd⟩, ⟨n, by simp, hn⟩⟩
        · cases q with
          | nil => simp at hm
          | cons x q' =>
            refine ⟨⟨pp, ?_, hppk⟩, ⟨m, ?_, hmv⟩⟩
            · rw [List.dropLast_cons_cons, pget_some_cons, Entry.children, hl]; exact hpp
            · rw [List.getLast?_cons_cons]; exact hm

theorem pwE_of_valid {e : Option Entry} (hv : Valid e) (hp : onoPhantom e = true) : PW NodeOkE e := by
  cases e with
  | none => exact pw_none _
  | some e => exact fun q pr hq => Entry.pwE_of_valid q e hv.2 hp pr hq

theorem pw_child {ok : Props → Prop} {p : Props} {cs : Contents} {n : Name} {c : Entry}
    (h : PW ok (some (.mk p cs))) (hl : lookup n cs = some c) :
    validName n = true ∧ p.kind = .directory ∧ PW ok (some c) := by
  have h1 := h [n] c.props (by simp [pget, getPath, contents, Entry.children, hl])
  rcases h1.2 with h0 | ⟨⟨pr, hpr, hprk⟩, ⟨m, hm, hmv⟩⟩
  · cases h0
  · simp only [List.dropLast_singleton, pget, getPath, Option.map_some, Option.some.injEq, Entry.props] at hpr
    subst hpr
    simp only [List.getLast?_singleton, Option.some.injEq] at hm
    subst hm
    refine ⟨hmv, hprk, ?_⟩
    intro q pr hq
    have h2 := h (n :: q) pr (by rw [pget_some_cons, Entry.children, hl]; exact hq)
    refine ⟨h2.1, ?_⟩
    cases q with
    | nil => exact Or.inl rfl
    | cons x q' =>
      rcases h2.2 with h0 | ⟨⟨pp, hpp, hppk⟩, ⟨m, hm, hmv'⟩⟩
      · cases h0
      · right
        refine ⟨⟨pp, ?_, hppk⟩, ⟨m, ?_, hmv'⟩⟩
        · rw [List.dropLast_cons_cons, pget_some_cons, Entry.children, hl] at hpp; exact hpp
        · rw [List.getLast?_cons_cons] at hm; exact hm

mutual
theorem Entry.valid_of_pwE (e : Entry) (hn : e.nodupKeys = true) (h : PW NodeOkE (some e)) :
    e.ensureValid false = true ∧ e.noPhantom = true :=
  match e with
  | .mk p cs => by
    have hk := Entry.nodupKeys_mk_iff.mp hn
    have hok := (h [] p (by simp [pget, getPath, Entry.props])).1
    have hchild : ∀ n c, (n, c) ∈ cs → validName n = true ∧ p.kind = .directory ∧ PW NodeOkE (some c) :=
      fun n c hm => pw_child h (lookup_of_mem_nodup hk.1 hm)
    have hL := Entry.validL_of_pwE cs hk.2 (fun n c hm => ⟨(hchild n c hm).1, (hchild n c hm).2.2⟩)
    have hleaf : p.kind ≠ .directory → cs = [] := by
      intro hne
      cases cs with
      | nil => rfl
      | cons hd t =>
        obtain ⟨n, c⟩ := hd
        exact absurd (hchild n c (by simp)).2.1 hne
    unfold Entry.ensureValid Entry.noPhantom
    rcases hok with (⟨h1, h2, h3, h4, h5⟩ | ⟨h1, h2, h3, h4⟩ | ⟨h1, h2, h3, h4, h5⟩) |
      ⟨h1, h2, h3, h4, h5⟩ | ⟨h1, h2, h3, h4, h5⟩
    · simp [h1, h2, h3, h4, h5, hL.1, hL.2]
    · have := hleaf (by rw [h1]; decide)
      subst this
      simp [h1, h2, h3, h4, Entry.noPhantomL]
    · have := hleaf (by rw [h1]; decide)
      subst this
      simp [h1, h2, h3, h4, h5, Entry.noPhantomL]
    · have := hleaf (by rw [h1]; decide)
      subst this
      simp [h1, h2, h3, h4, h5, Entry.noPhantomL]
    · have := hleaf (by rw [h1]; decide)
      subst this
      simp [h1, h2, h3, h4, h5, Entry.noPhantomL]
theorem Entry.validL_of_pwE (cs : Contents) (hn : Entry.nodupKeysL cs = true)
    (h : ∀ n c, (n, c) ∈ cs → validName n = true ∧ PW NodeOkE (some c)) :
    Entry.ensureValidL false cs = true ∧ Entry.noPhantomL cs = true :=
  match cs with
  | [] => ⟨rfl, rfl⟩
  | (n, c) :: r => by
    simp only [Entry.nodupKeysL, Bool.and_eq_true] at hn
    have h1 := h n c (by simp)
    have i1 := Entry.valid_of_pwE c hn.1 h1.2
    have i2 := Entry.validL_of_pwE r hn.2 (fun m d hm => h m d (by simp [hm]))
    simp [Entry.ensureValidL, Entry.noPhantomL, h1.1, i1.1, i1.2, i2.1, i2.2]
end

theorem valid_of_pwE {e : Option Entry} (hn : onodupKeys e = true) (h : PW NodeOkE e) :
    Valid e ∧ onoPhantom e = true := by
  cases e with
  | none => exact ⟨⟨rfl, rfl⟩, rfl⟩
  | some e => exact ⟨⟨hn, (Entry.valid_of_pwE e hn h).1⟩, (Entry.valid_of_pwE e hn h).2⟩

/-! ### The synchronizable part keeps path-wise validity -/

theorem syncAlong_dropLast (q : Path) : ∀ e : Option Entry, syncAlong e q = true → syncAlong e q.dropLast = true := by
  induction q with
  | nil => intro e h; exact h
  | cons n q ih =>
    intro e h
    cases e with
    | none => simp [syncAlong] at h
    | some x =>
      cases q with
      | nil =>
        simp only [syncAlong, Bool.and_eq_true] at h
        simpa [syncAlong] using h.1
      | cons m r =>
        simp only [syncAlong, Bool.and_eq_true] at h
        rw [List.dropLast_cons_cons]
        simp only [syncAlong, Bool.and_eq_true]
        exact ⟨h.1, ih _ h.2⟩

theorem pw_osync {ok : Props → Prop} {e : Option Entry} (hv : Valid e) (h : PW ok e) : PW ok (osync e) := by
  intro q pr hq
  rw [sync_pget e hv q] at hq
  by_cases hs : syncAlong e q = true
  · simp only [hs, ↓reduceIte] at hq
    obtain ⟨h1, h2⟩ := h q pr hq
    refine ⟨h1, ?_⟩
    rcases h2 with h0 | ⟨⟨pp, hpp, hk⟩, hn⟩
    · exact Or.inl h0
    · right
      refine ⟨⟨pp, ?_, hk⟩, hn⟩
      rw [sync_pget e hv q.dropLast, syncAlong_dropLast q e hs]
      simpa using hpp
  · simp [hs] at hq

theorem onoPhantom_getPath {e : Option Entry} (h : onoPhantom e = true) (q : Path) :
    onoPhantom (getPath e q) = true := by
  induction q generalizing e with
  | nil => exact h
  | cons n q ih => exact ih (onoPhantom_lookup h n)

/-! ### Where the planned changes sit and what they install -/

theorem reconcile_absent_endpoints (mode : Mode) (path : Path) (a : Option Entry) :
    (reconcile mode path a none none).alpha = [] ∧ (reconcile mode path a none none).beta = [] := by
  rw [reconcile_eq]
  simp only [isKind, Bool.false_eq_true, ↓reduceIte, Option.isNone_none, Bool.true_or, Bool.and_self]
  split <;> exact ⟨rfl, rfl⟩

theorem both_dirs_of_child {al be : Option Entry} {n : Name} (hal : Valid al) (hbe : Valid be)
    (hpα : onoPhantom al = true) (hpβ : onoPhantom be = true) (h4 : shallowEq al be = true)
    (hn : n ∈ keys (contents al) ∨ n ∈ keys (contents be)) :
    (∃ pp, pget al [] = some pp ∧ pp.kind = .directory) ∧ (∃ pp, pget be [] = some pp ∧ pp.kind = .directory) ∧
      validName n = true := by
  cases al with
  | none =>
    cases be with
    | none => simp [contents, keys] at hn
    | some b => simp [shallowEq] at h4
  | some x =>
    cases be with
    | none => simp [shallowEq] at h4
    | some y =>
      cases x with
      | mk p cs =>
        cases y with
        | mk pb ds =>
          have hb : p = pb := by simp only [shallowEq, Entry.props, beq_iff_eq] at h4; exact h4
          subst hb
          have hk1 : p.kind ≠ .phantom := by
            have := isKind_phantom_of_noPhantom hpα
            intro hk; simp [isKind, Entry.kind, Entry.props, hk] at this
          have key : p.kind = .directory ∧ validName n = true := by
            rcases hn with hn | hn
            · exact valid_dir_child hal hk1 (by simpa [contents, Entry.children] using hn)
            · exact valid_dir_child hbe hk1 (by simpa [contents, Entry.children] using hn)
          exact ⟨⟨p, by simp [pget, getPath, Entry.props], key.1⟩, ⟨p, by simp [pget, getPath, Entry.props], key.1⟩,
            key.2⟩

theorem DirParent.cons {e : Option Entry} {n : Name} {rel : Path} (hne : rel ≠ [])
    (h : DirParent (lookup n (contents e)) rel) : DirParent e (n :: rel) := by
  rcases h with h0 | ⟨⟨pp, hpp, hk⟩, ⟨m, hm, hv⟩⟩
  · exact absurd h0 hne
  · right
    cases rel with
    | nil => exact absurd rfl hne
    | cons x r =>
      refine ⟨⟨pp, ?_, hk⟩, ⟨m, ?_, hv⟩⟩
      · rw [List.dropLast_cons_cons, pget_cons]; exact hpp
      · rw [List.getLast?_cons_cons]; exact hm

/-- Every planned alpha change sits in a directory of alpha (with a valid name)
and installs beta's synchronizable part at its path; symmetrically for beta. -/
theorem reconcile_changes_shape (mode : Mode) (path : Path) (a al be : Option Entry) :
    Valid al → Valid be → onoPhantom al = true → onoPhantom be = true →
    (∀ c ∈ (reconcile mode path a al be).alpha,
      ∃ rel, c.path = path ++ rel ∧ DirParent al rel ∧ c.new = osync (getPath be rel)) ∧
    (∀ c ∈ (reconcile mode path a al be).beta,
      ∃ rel, c.path = path ++ rel ∧ DirParent be rel ∧ c.new = osync (getPath al rel)) := by
  fun_induction reconcile mode path a al be with
  | case1 => intro _ _ _ _; exact ⟨forall_mem_of_eq_nil rfl, forall_mem_of_eq_nil rfl⟩
  | case2 => intro _ _ _ _; exact ⟨forall_mem_of_eq_nil rfl, forall_mem_of_eq_nil rfl⟩
  | case3 => intro _ _ _ _; exact ⟨forall_mem_of_eq_nil rfl, forall_mem_of_eq_nil rfl⟩
  | case4 => intro _ _ _ _; exact ⟨forall_mem_of_eq_nil rfl, forall_mem_of_eq_nil rfl⟩
  | case5 path ancestor alpha beta h1 h2 h3 h4 here anc' ih =>
    intro hal hbe hpα hpβ
    have hh1 : here.alpha = [] := by simp only [here]; split <;> rfl
    have hh2 : here.beta = [] := by simp only [here]; split <;> rfl
    have hkeys : ∀ (n : { x // x ∈ nameUnion [contents anc', contents alpha, contents beta] }) (c : Change),
        (c ∈ (reconcile mode (path ++ [n.1]) (lookup n.1 (contents anc')) (lookup n.1 (contents alpha))
              (lookup n.1 (contents beta))).alpha ∨
         c ∈ (reconcile mode (path ++ [n.1]) (lookup n.1 (contents anc')) (lookup n.1 (contents alpha))
              (lookup n.1 (contents beta))).beta) →
        n.1 ∈ keys (contents alpha) ∨ n.1 ∈ keys (contents beta) := by
      intro n c hc
      apply Classical.byContradiction
      intro hno
      have l1 : lookup n.1 (contents alpha) = none := lookup_eq_none_iff.mpr (fun h => hno (Or.inl h))
      have l2 : lookup n.1 (contents beta) = none := lookup_eq_none_iff.mpr (fun h => hno (Or.inr h))
      rw [l1, l2] at hc
      have := reconcile_absent_endpoints mode (path ++ [n.1]) (lookup n.1 (contents anc'))
      rw [this.1, this.2] at hc
      rcases hc with hc | hc <;> cases hc
    constructor
    · intro c hc
      simp only [Plan.append_alpha, hh1, List.nil_append, Plan.concat_alpha, List.flatMap_map,
        List.mem_flatMap, List.mem_attach, true_and] at hc
      obtain ⟨n, hn⟩ := hc
      obtain ⟨rel, hp, hd, hnew⟩ := (ih n (hal.lookup n.1) (hbe.lookup n.1) (onoPhantom_lookup hpα n.1)
        (onoPhantom_lookup hpβ n.1)).1 c hn
      obtain ⟨d1, _, hvn⟩ := both_dirs_of_child hal hbe hpα hpβ h4 (hkeys n c (Or.inl hn))
      refine ⟨n.1 :: rel, by simp [hp], ?_, hnew⟩
      by_cases hr : rel = []
      · subst hr
        exact Or.inr ⟨by simpa using d1, ⟨n.1, by simp, hvn⟩⟩
      · exact DirParent.cons hr hd
    · intro c hc
      simp only [Plan.append_beta, hh2, List.nil_append, Plan.concat_beta, List.flatMap_map,
        List.mem_flatMap, List.mem_attach, true_and] at hc
      obtain ⟨n, hn⟩ := hc
      obtain ⟨rel, hp, hd, hnew⟩ := (ih n (hal.lookup n.1) (hbe.lookup n.1) (onoPhantom_lookup hpα n.1)
        (onoPhantom_lookup hpβ n.1)).2 c hn
      obtain ⟨_, d2, hvn⟩ := both_dirs_of_child hal hbe hpα hpβ h4 (hkeys n c (Or.inr hn))
      refine ⟨n.1 :: rel, by simp [hp], ?_, hnew⟩
      by_cases hr : rel = []
      · subst hr
        exact Or.inr ⟨by simpa using d2, ⟨n.1, by simp, hvn⟩⟩
      · exact DirParent.cons hr hd
  | case6 path ancestor alpha beta h1 h2 h3 h4 =>
    intro hal hbe hpα hpβ
    have hd : Disagree alpha beta :=
      ⟨Bool.eq_false_iff.mpr h1, Bool.eq_false_iff.mpr h2, Bool.eq_false_iff.mpr h3, Bool.eq_false_iff.mpr h4⟩
    rcases handleDisagreement_outcome mode path ancestor alpha beta hal hbe hd with
      ⟨x, y, hP⟩ | ⟨o, hP⟩ | ⟨o, hP⟩ | ⟨hP, _⟩ | ⟨hP, _⟩
    · rw [hP]; exact ⟨forall_mem_of_eq_nil rfl, forall_mem_of_eq_nil rfl⟩
    · rw [hP]
      refine ⟨fun c hc => ?_, forall_mem_of_eq_nil rfl⟩
      simp [Plan.alphaChange] at hc
      subst hc
      exact ⟨[], by simp, Or.inl rfl, rfl⟩
    · rw [hP]
      refine ⟨forall_mem_of_eq_nil rfl, fun c hc => ?_⟩
      simp [Plan.betaChange] at hc
      subst hc
      exact ⟨[], by simp, Or.inl rfl, rfl⟩
    · rw [hP]; exact ⟨forall_mem_of_eq_nil rfl, forall_mem_of_eq_nil rfl⟩
    · rw [hP]; exact ⟨forall_mem_of_eq_nil rfl, forall_mem_of_eq_nil rfl⟩

/-! ### Exact application of a plan keeps the endpoints valid -/

theorem apply_valid_of_shape {S T S' : Option Entry} {cs : List Change} (hS : Valid S) (hpS : onoPhantom S = true)
    (hT : Valid T) (hpT : onoPhantom T = true)
    (hinc : List.Pairwise (fun a b : Change => incomparable a.path b.path) cs)
    (hshape : ∀ c ∈ cs, ∃ rel, c.path = [] ++ rel ∧ DirParent S rel ∧ c.new = osync (getPath T rel))
    (h : apply S cs = .ok S') : Valid S' ∧ onoPhantom S' = true := by
  have hnewv : ∀ c ∈ cs, Valid c.new ∧ PW NodeOkE c.new := by
    intro c hc
    obtain ⟨rel, _, _, hnew⟩ := hshape c hc
    rw [hnew]
    exact ⟨(hT.getPath rel).osync, pw_osync (hT.getPath rel) (pwE_of_valid (hT.getPath rel) (onoPhantom_getPath hpT rel))⟩
  obtain ⟨r', h1, h2⟩ := apply_incomparable_pw NodeOkE cs S hinc (pwE_of_valid hS hpS) (fun c hc => by
    obtain ⟨rel, hp, hd, _⟩ := hshape c hc
    simp only [List.nil_append] at hp
    exact ⟨hp ▸ hd, (hnewv c hc).2⟩)
  rw [h] at h1
  cases h1
  exact valid_of_pwE (apply_nodupKeys hS.1 (fun c hc => (hnewv c hc).1.1) h) h2

/-- **Exact application of a plan preserves endpoint validity** (every mode, any
ancestor): for valid phantom-free endpoint trees, applying the plan's alpha
(beta) changes to alpha (beta) yields a valid phantom-free tree. -/
theorem plan_application_valid (mode : Mode) (A alpha beta : Option Entry)
    (hal : Valid alpha) (hbe : Valid beta) (hpα : onoPhantom alpha = true) (hpβ : onoPhantom beta = true) :
    (∀ α', apply alpha (Reconcile A alpha beta mode).alpha = .ok α' → Valid α' ∧ onoPhantom α' = true) ∧
    (∀ β', apply beta (Reconcile A alpha beta mode).beta = .ok β' → Valid β' ∧ onoPhantom β' = true) := by
  have hs := reconcile_changes_shape mode [] A alpha beta hal hbe hpα hpβ
  exact ⟨fun α' h => apply_valid_of_shape hal hpα hbe hpβ (reconcile_pairwise_alpha mode A alpha beta) hs.1 h,
         fun β' h => apply_valid_of_shape hbe hpβ hal hpα (reconcile_pairwise_beta mode A alpha beta) hs.2 h⟩

end Mutagen.Model
