import Mutagen.Proofs.DockerWalk
/-! C15: the two walks are characterised by the per-path predicates
(core Lean only). -/
namespace Mutagen.Proofs.DockerWalk2
open Mutagen.Model.IgnoreCore Mutagen.Model.IgnoreDocker Mutagen.Model.DockerSpec
open Mutagen.Model.IgnoreMutagen (lastMatchWins loop)
open Mutagen.Proofs.IgnoreMutagen (specStep fold_eq_lastMatch loop_eq_fold negCount)
open Mutagen.Proofs.IgnoreDocker Mutagen.Proofs.DockerWalk

/-- Selection of the leaves an inclusion predicate accepts. -/
def sel (incl : List Str → Str → Bool) (n : NodeAt) : Option Included :=
  if incl n.chain n.path then leafOf n else none

/-! ### Every node below a directory carries that directory's chain as a prefix -/

mutual
theorem nodesOf_chain (p : Str) (chain : List Str) : ∀ (node : Node) (n : NodeAt),
    n ∈ nodesOf p chain node → ∃ extra, n.chain = chain ++ extra
  | .file, n, h => by simp [nodesOf] at h; exact ⟨[], by simp [h]⟩
  | .link, n, h => by simp [nodesOf] at h; exact ⟨[], by simp [h]⟩
  | .other, n, h => by simp [nodesOf] at h; exact ⟨[], by simp [h]⟩
  | .dir cs, n, h => by
    simp only [nodesOf, List.mem_cons] at h
    rcases h with h | h
    · exact ⟨[], by simp [h]⟩
    · obtain ⟨extra, he⟩ := nodesOfChildren_chain p (chain ++ [p]) cs n h
      exact ⟨[p] ++ extra, by simp [he]⟩
theorem nodesOfChildren_chain (path : Str) (chain : List Str) : ∀ (cs : List (Str × Node)) (n : NodeAt),
    n ∈ nodesOfChildren path chain cs → ∃ extra, n.chain = chain ++ extra
  | [], n, h => by simp [nodesOfChildren] at h
  | (name, node) :: rest, n, h => by
    simp only [nodesOfChildren, List.mem_append] at h
    rcases h with h | h
    · exact nodesOf_chain (joinable path ++ name) chain node n h
    · exact nodesOfChildren_chain path chain rest n h
end

/-- Below a directory whose chain already fails `f`, nothing is selected. -/
theorem blocked {f : List Str → Str → Bool} {incl : List Str → Str → Bool}
    (hincl : ∀ chain x, incl chain x = true → allOk f [] chain = true)
    (path : Str) (chain : List Str) (cs : List (Str × Node)) (hb : allOk f [] chain = false) :
    (nodesOfChildren path chain cs).filterMap (sel incl) = [] := by
  rw [List.filterMap_eq_nil_iff]
  intro n hn
  obtain ⟨extra, he⟩ := nodesOfChildren_chain path chain cs n hn
  unfold sel
  cases hi : incl n.chain n.path
  · rfl
  · have := hincl _ _ hi
    rw [he, allOk_append, hb] at this
    simp at this

theorem mutagenIncl_allOk {α : Type} (excl : α → Bool) (text : α → Str) (m : α → Str → Bool) (ps : List α)
    (chain : List Str) (x : Str) (h : mutagenIncl excl text m ps chain x = true) :
    allOk (mutagenEnter excl text m ps) [] chain = true := by
  unfold mutagenIncl at h
  simp only [Bool.and_eq_true] at h
  exact h.1

theorem dockerIncl_allOk {α : Type} (excl : α → Bool) (text : α → Str) (m : α → Str → Bool) (ps : List α)
    (chain : List Str) (x : Str) (h : dockerIncl excl text m ps chain x = true) :
    allOk (dockerEnter excl text m ps) [] chain = true := by
  unfold dockerIncl at h
  simp only [Bool.and_eq_true] at h
  exact h.1

/-! ### Docker's walk -/

theorem mopm_eq_skipAt {α : Type} (excl : α → Bool) (m : α → Str → Bool) (ps : List α) (p : Str) (parents : List Str) :
    matchesOrParentMatches excl m ps p parents = skipAt excl m ps p parents := by
  unfold matchesOrParentMatches skipAt
  rw [mopm_eq_fold excl m p parents ps false .nominal (by simp), lmw_eq_fold]

theorem exclusionPrefix_any {α : Type} (excl : α → Bool) (text : α → Str) (ps : List α) (p : Str)
    (h : exclusionPrefix excl text ps p = true) : ps.any excl = true := by
  unfold exclusionPrefix at h
  obtain ⟨q, hq, hq'⟩ := List.any_eq_true.mp h
  simp only [Bool.and_eq_true] at hq'
  exact List.any_eq_true.mpr ⟨q, hq, hq'.1⟩

mutual
theorem dockerChild_char {α : Type} (excl : α → Bool) (text : α → Str) (m : α → Str → Bool) (ps : List α) :
    ∀ (node : Node) (p : Str) (chain : List Str), allOk (dockerEnter excl text m ps) [] chain = true →
      (dockerChild excl text m ps p chain node).filter isLeaf =
        (nodesOf p chain node).filterMap (sel (dockerIncl excl text m ps))
  | .other, p, chain, _ => by simp [dockerChild, nodesOf, sel, leafOf]
  | .file, p, chain, hc => by
    simp only [dockerChild, nodesOf, mopm_eq_skipAt, List.filterMap_cons, List.filterMap_nil, sel, dockerIncl, hc, Bool.true_and]
    cases skipAt excl m ps p chain <;> simp [isLeaf, leafOf]
  | .link, p, chain, hc => by
    simp only [dockerChild, nodesOf, mopm_eq_skipAt, List.filterMap_cons, List.filterMap_nil, sel, dockerIncl, hc, Bool.true_and]
    cases skipAt excl m ps p chain <;> simp [isLeaf, leafOf]
  | .dir cs, p, chain, hc => by
    have hsnoc : allOk (dockerEnter excl text m ps) [] (chain ++ [p]) = dockerEnter excl text m ps chain p := by
      rw [allOk_snoc, hc, Bool.true_and]
    have hself : sel (dockerIncl excl text m ps) ⟨p, chain, 2⟩ = none := by
      simp [sel, leafOf]
    simp only [dockerChild, nodesOf, mopm_eq_skipAt, List.filterMap_cons, hself]
    cases hs : skipAt excl m ps p chain
    · -- not skipped: the directory is included and walked
      simp only [Bool.false_eq_true, if_false, List.filter_cons, isLeaf]
      have henter : dockerEnter excl text m ps chain p = true := by simp [dockerEnter, hs]
      exact dockerChildren_char excl text m ps cs p (chain ++ [p]) (by rw [hsnoc, henter])
    · simp only [if_true]
      cases hp : exclusionPrefix excl text ps p
      · -- skipped and no exclusion pattern below: pruned
        simp only [Bool.false_eq_true, and_false, if_false, List.filter_nil]
        have hblock : allOk (dockerEnter excl text m ps) [] (chain ++ [p]) = false := by
          rw [hsnoc]; simp [dockerEnter, hs, hp]
        exact (blocked (dockerIncl_allOk excl text m ps) p (chain ++ [p]) cs hblock).symm
      · -- skipped, but an exclusion pattern reaches below: walked, not included
        have hany := exclusionPrefix_any excl text ps p hp
        simp only [hany, and_self, if_true]
        have henter : dockerEnter excl text m ps chain p = true := by simp [dockerEnter, hp]
        exact dockerChildren_char excl text m ps cs p (chain ++ [p]) (by rw [hsnoc, henter])
theorem dockerChildren_char {α : Type} (excl : α → Bool) (text : α → Str) (m : α → Str → Bool) (ps : List α) :
    ∀ (cs : List (Str × Node)) (path : Str) (chain : List Str), allOk (dockerEnter excl text m ps) [] chain = true →
      (dockerChildren excl text m ps path chain cs).filter isLeaf =
        (nodesOfChildren path chain cs).filterMap (sel (dockerIncl excl text m ps))
  | [], path, chain, _ => by simp [dockerChildren, nodesOfChildren]
  | (name, node) :: rest, path, chain, hc => by
    simp only [dockerChildren, nodesOfChildren, List.filter_append, List.filterMap_append]
    rw [dockerChild_char excl text m ps node (joinable path ++ name) chain hc,
      dockerChildren_char excl text m ps rest path chain hc]
end

/-! ### The Mutagen walk (scan with the Docker-style ignorer) -/

theorem ign_status {α : Type} (excl : α → Bool) (text : α → Str) (m : α → Str → Bool) (ps : List α) (p : Str) (d : Bool) :
    (matchesForMutagen excl text m ps p d).1 = statusAt excl m ps p := by
  have hloop : loop excl (fun q => m q p) ps .nominal (ps.filter excl).length = statusAt excl m ps p := by
    have h := loop_eq_fold excl (fun q => m q p) ps .nominal
    unfold negCount at h
    rw [h, fold_eq_lastMatch]
    rfl
  unfold matchesForMutagen
  simp only [hloop]
  split
  · rfl
  · split
    · rfl
    · split <;> rfl

theorem ign_cont_file {α : Type} (excl : α → Bool) (text : α → Str) (m : α → Str → Bool) (ps : List α) (p : Str) :
    (matchesForMutagen excl text m ps p false).2 = false := by
  unfold matchesForMutagen
  simp

theorem ign_cont_dir {α : Type} (excl : α → Bool) (text : α → Str) (m : α → Str → Bool) (ps : List α) (p : Str) :
    (matchesForMutagen excl text m ps p true).2 =
      (decide (statusAt excl m ps p ≠ .unignored) && exclusionPrefix excl text ps p) := by
  have hloop : loop excl (fun q => m q p) ps .nominal (ps.filter excl).length = statusAt excl m ps p := by
    have h := loop_eq_fold excl (fun q => m q p) ps .nominal
    unfold negCount at h
    rw [h, fold_eq_lastMatch]
    rfl
  unfold matchesForMutagen
  simp only [hloop]
  by_cases hu : statusAt excl m ps p = .unignored
  · simp [hu]
  · cases hp : exclusionPrefix excl text ps p
    · simp [hu, hp]
    · have := exclusionPrefix_any excl text ps p hp
      simp [hu, hp, this]

/-- The decision `directory` takes for a sub-directory, in terms of the mask
after it. -/
theorem decision_dir {α : Type} (excl : α → Bool) (text : α → Str) (m : α → Str → Bool) (ps : List α)
    (p : Str) (mask : Bool) :
    childDecision (matchesForMutagen excl text m ps p true).1 (matchesForMutagen excl text m ps p true).2 mask =
      (if maskStep mask (statusAt excl m ps p) && !exclusionPrefix excl text ps p then none
       else some (maskStep mask (statusAt excl m ps p))) := by
  rw [ign_status, ign_cont_dir]
  cases statusAt excl m ps p <;> cases mask <;> cases exclusionPrefix excl text ps p <;>
    simp [childDecision, maskStep]

theorem decision_file {α : Type} (excl : α → Bool) (text : α → Str) (m : α → Str → Bool) (ps : List α)
    (p : Str) (mask : Bool) :
    (childDecision (matchesForMutagen excl text m ps p false).1 (matchesForMutagen excl text m ps p false).2 mask).isSome =
      !maskStep mask (statusAt excl m ps p) := by
  rw [ign_status, ign_cont_file]
  cases statusAt excl m ps p <;> cases mask <;> simp [childDecision, maskStep]

theorem scanChild_file (ign : IgnoreFn) (p : Str) (mask : Bool) :
    scanChild ign p mask .file =
      if (childDecision (ign p false).1 (ign p false).2 mask).isSome then .file else .untracked := by
  simp only [scanChild]
  generalize ign p false = r
  obtain ⟨a, b⟩ := r
  cases childDecision a b mask <;> rfl

theorem scanChild_link (ign : IgnoreFn) (p : Str) (mask : Bool) :
    scanChild ign p mask .link =
      if (childDecision (ign p false).1 (ign p false).2 mask).isSome then .link else .untracked := by
  simp only [scanChild]
  generalize ign p false = r
  obtain ⟨a, b⟩ := r
  cases childDecision a b mask <;> rfl

theorem scanChild_dir (ign : IgnoreFn) (p : Str) (mask : Bool) (cs : List (Str × Node)) :
    scanChild ign p mask (.dir cs) =
      match childDecision (ign p true).1 (ign p true).2 mask with
      | none => .untracked
      | some mk => .dir mk (scanChildren ign p mk cs) := by
  simp only [scanChild]
  generalize ign p true = r
  obtain ⟨a, b⟩ := r
  cases childDecision a b mask <;> rfl

theorem mask_snoc {α : Type} (excl : α → Bool) (m : α → Str → Bool) (ps : List α) (chain : List Str) (p : Str) :
    maskAfter ((chain ++ [p]).map (statusAt excl m ps)) =
      maskStep (maskAfter (chain.map (statusAt excl m ps))) (statusAt excl m ps p) := by
  rw [List.map_append, List.map_cons, List.map_nil, maskAfter_snoc]

mutual
theorem scanChild_char {α : Type} (excl : α → Bool) (text : α → Str) (m : α → Str → Bool) (ps : List α) :
    ∀ (node : Node) (p : Str) (chain : List Str), allOk (mutagenEnter excl text m ps) [] chain = true →
      leavesOf p (scanChild (matchesForMutagen excl text m ps) p (maskAfter (chain.map (statusAt excl m ps))) node) =
        (nodesOf p chain node).filterMap (sel (mutagenIncl excl text m ps))
  | .other, p, chain, _ => by simp [scanChild, nodesOf, sel, leafOf, leavesOf]
  | .file, p, chain, hc => by
    rw [scanChild_file, decision_file]
    simp only [nodesOf, List.filterMap_cons, List.filterMap_nil, sel, mutagenIncl, hc, Bool.true_and, mask_snoc]
    cases maskStep (maskAfter (chain.map (statusAt excl m ps))) (statusAt excl m ps p) <;> simp [leavesOf, leafOf]
  | .link, p, chain, hc => by
    rw [scanChild_link, decision_file]
    simp only [nodesOf, List.filterMap_cons, List.filterMap_nil, sel, mutagenIncl, hc, Bool.true_and, mask_snoc]
    cases maskStep (maskAfter (chain.map (statusAt excl m ps))) (statusAt excl m ps p) <;> simp [leavesOf, leafOf]
  | .dir cs, p, chain, hc => by
    have hsnoc : allOk (mutagenEnter excl text m ps) [] (chain ++ [p]) = mutagenEnter excl text m ps chain p := by
      rw [allOk_snoc, hc, Bool.true_and]
    have hself : sel (mutagenIncl excl text m ps) ⟨p, chain, 2⟩ = none := by
      simp [sel, leafOf]
    rw [scanChild_dir, decision_dir]
    simp only [nodesOf, List.filterMap_cons, hself]
    have henter : mutagenEnter excl text m ps chain p =
        (!(maskStep (maskAfter (chain.map (statusAt excl m ps))) (statusAt excl m ps p)) || exclusionPrefix excl text ps p) := by
      unfold mutagenEnter; rw [mask_snoc]
    cases hm : maskStep (maskAfter (chain.map (statusAt excl m ps))) (statusAt excl m ps p) <;>
      cases hp : exclusionPrefix excl text ps p
    · -- not masked: entered with mask false
      simp only [Bool.false_and, Bool.false_eq_true, if_false, leavesOf]
      have := scanChildren_char excl text m ps cs p (chain ++ [p]) (by rw [hsnoc, henter, hm]; rfl)
      rw [mask_snoc, hm] at this
      exact this
    · simp only [Bool.false_and, Bool.false_eq_true, if_false, leavesOf]
      have := scanChildren_char excl text m ps cs p (chain ++ [p]) (by rw [hsnoc, henter, hm]; rfl)
      rw [mask_snoc, hm] at this
      exact this
    · -- masked and no exclusion pattern below: untracked, nothing beneath is selected
      simp only [Bool.not_false, Bool.and_self, if_true, leavesOf]
      have hblock : allOk (mutagenEnter excl text m ps) [] (chain ++ [p]) = false := by
        rw [hsnoc, henter, hm, hp]; rfl
      exact (blocked (mutagenIncl_allOk excl text m ps) p (chain ++ [p]) cs hblock).symm
    · -- masked, but an exclusion pattern reaches below: a phantom directory
      simp only [Bool.not_true, Bool.and_false, Bool.false_eq_true, if_false, leavesOf]
      have := scanChildren_char excl text m ps cs p (chain ++ [p]) (by rw [hsnoc, henter, hm, hp]; rfl)
      rw [mask_snoc, hm] at this
      exact this
theorem scanChildren_char {α : Type} (excl : α → Bool) (text : α → Str) (m : α → Str → Bool) (ps : List α) :
    ∀ (cs : List (Str × Node)) (path : Str) (chain : List Str), allOk (mutagenEnter excl text m ps) [] chain = true →
      leavesOfChildren path (scanChildren (matchesForMutagen excl text m ps) path (maskAfter (chain.map (statusAt excl m ps))) cs) =
        (nodesOfChildren path chain cs).filterMap (sel (mutagenIncl excl text m ps))
  | [], path, chain, _ => by simp [scanChildren, nodesOfChildren, leavesOfChildren]
  | (name, node) :: rest, path, chain, hc => by
    simp only [scanChildren, nodesOfChildren, leavesOfChildren, List.filterMap_append]
    rw [scanChild_char excl text m ps node (joinable path ++ name) chain hc,
      scanChildren_char excl text m ps rest path chain hc]
end

end Mutagen.Proofs.DockerWalk2
