import Mutagen.Model.LRU
/-!
Helper lemmas for C45: the pointer structure of the LRU cache (heap cells,
linked list of ids, key → id index) represents a most-recently-used list, and
every operation acts on it as the specification does.
-/
namespace Mutagen.Proofs.LRU
open Mutagen.Model.LRU

/-! ### The Go map -/

theorem mapGet_delete (m : List (Nat × Nat)) (k k' : Nat) :
    mapGet (mapDelete m k) k' = if k' = k then none else mapGet m k' := by
  induction m with
  | nil => simp [mapGet, mapDelete]
  | cons p rest ih =>
    obtain ⟨a, id⟩ := p
    by_cases ha : a = k
    · subst ha
      simp only [mapDelete, if_true, ih, mapGet]
      by_cases hk : k' = a
      · simp [hk]
      · have : ¬ a = k' := fun h => hk h.symm
        simp [hk, this]
    · simp only [mapDelete, if_neg ha, mapGet, ih]
      by_cases hk : k' = k
      · subst hk; simp [ha]
      · simp [hk]

theorem mapGet_set (m : List (Nat × Nat)) (k id k' : Nat) :
    mapGet (mapSet m k id) k' = if k' = k then some id else mapGet m k' := by
  simp only [mapSet, mapGet, mapGet_delete]
  by_cases hk : k' = k
  · subst hk; simp
  · have : ¬ k = k' := fun h => hk h.symm
    simp [hk, this]

/-! ### Heap cells -/

/-- The key/value pair stored in cell `id`. -/
def kv (heap : List Entry) (id : Nat) : Nat × Nat :=
  ((heap.getD id ⟨0, 0⟩).key, (heap.getD id ⟨0, 0⟩).val)

theorem abs_eq (c : Cache) : c.abs = c.order.map (kv c.heap) := rfl

theorem deref_key (c : Cache) (id : Nat) : (c.deref id).key = (kv c.heap id).1 := rfl

theorem kv_set (heap : List Entry) (id id' : Nat) (e : Entry) :
    kv (heap.set id e) id' = if id' = id ∧ id < heap.length then (e.key, e.val) else kv heap id' := by
  unfold kv
  rw [List.getD_eq_getElem?_getD, List.getD_eq_getElem?_getD, List.getElem?_set]
  by_cases h : id = id'
  · subst h
    by_cases hl : id < heap.length
    · simp [hl]
    · simp [hl]
  · have : ¬ id' = id := fun h' => h h'.symm
    simp [h, this]

theorem kv_append_left (heap : List Entry) (e : Entry) (id : Nat) (h : id < heap.length) :
    kv (heap ++ [e]) id = kv heap id := by
  unfold kv
  rw [List.getD_eq_getElem?_getD, List.getD_eq_getElem?_getD, List.getElem?_append_left h]

theorem kv_append_new (heap : List Entry) (e : Entry) :
    kv (heap ++ [e]) heap.length = (e.key, e.val) := by
  unfold kv
  rw [List.getD_eq_getElem?_getD, List.getElem?_append_right (Nat.le_refl _)]
  simp

/-! ### Lists of ids with unique keys -/

/-- Erasing the one element with key `k` is filtering out key `k`. -/
theorem map_erase_unique (g : Nat → Nat × Nat) (k id : Nat) (order : List Nat)
    (hn : order.Nodup) (hu : ∀ id' ∈ order, (g id').1 = k → id' = id) (hk : (g id).1 = k) :
    (order.erase id).map g = (order.map g).filter (fun e => e.1 ≠ k) := by
  rw [hn.erase_eq_filter, List.filter_map]
  congr 1
  apply List.filter_congr
  intro x hx
  simp only [Function.comp]
  by_cases hxi : x = id
  · subst hxi; simp [hk]
  · have : (g x).1 ≠ k := fun h => hxi (hu x hx h)
    simp [hxi, this]

theorem find_unique (g : Nat → Nat × Nat) (k id : Nat) (order : List Nat)
    (hm : id ∈ order) (hu : ∀ id' ∈ order, (g id').1 = k → id' = id) (hk : (g id).1 = k) :
    (order.map g).find? (fun e => e.1 = k) = some (g id) := by
  induction order with
  | nil => simp at hm
  | cons x xs ih =>
    simp only [List.map_cons, List.find?_cons]
    by_cases hx : (g x).1 = k
    · have := hu x List.mem_cons_self hx
      subst this
      simp [hx]
    · simp only [hx, decide_false]
      have hm' : id ∈ xs := by
        rcases List.mem_cons.mp hm with h | h
        · subst h; exact absurd hk hx
        · exact h
      exact ih hm' (fun id' h' => hu id' (List.mem_cons_of_mem _ h'))

theorem find_absent (g : Nat → Nat × Nat) (k : Nat) (order : List Nat)
    (hu : ∀ id' ∈ order, (g id').1 ≠ k) :
    (order.map g).find? (fun e => e.1 = k) = none ∧
    (order.map g).filter (fun e => e.1 ≠ k) = order.map g ∧
    (order.map g).filter (fun e => e.1 = k) = [] := by
  refine ⟨?_, ?_, ?_⟩
  · rw [List.find?_eq_none]
    intro e he
    obtain ⟨x, hx, rfl⟩ := List.mem_map.mp he
    simp [hu x hx]
  · rw [List.filter_eq_self]
    intro e he
    obtain ⟨x, hx, rfl⟩ := List.mem_map.mp he
    simp [hu x hx]
  · rw [List.filter_eq_nil_iff]
    intro e he
    obtain ⟨x, hx, rfl⟩ := List.mem_map.mp he
    simp [hu x hx]

theorem filter_eq_unique (g : Nat → Nat × Nat) (k id : Nat) (order : List Nat)
    (hn : order.Nodup) (hm : id ∈ order) (hu : ∀ id' ∈ order, (g id').1 = k → id' = id) (hk : (g id).1 = k) :
    (order.map g).filter (fun e => e.1 = k) = [g id] := by
  induction order with
  | nil => simp at hm
  | cons x xs ih =>
    rw [List.nodup_cons] at hn
    simp only [List.map_cons, List.filter_cons]
    by_cases hx : (g x).1 = k
    · have := hu x List.mem_cons_self hx
      subst this
      simp only [hx, decide_true, if_true]
      congr 1
      exact (find_absent g k xs (fun id' h' hk' => hn.1 (by rw [← hu id' (List.mem_cons_of_mem _ h') hk']; exact h'))).2.2
    · simp only [hx, decide_false]
      have hm' : id ∈ xs := by
        rcases List.mem_cons.mp hm with h | h
        · subst h; exact absurd hk hx
        · exact h
      exact ih hn.2 hm' (fun id' h' => hu id' (List.mem_cons_of_mem _ h'))

/-- In a duplicate-free list, erasing the last element is `dropLast`. -/
theorem erase_last (l : List Nat) (hn : l.Nodup) (x : Nat) (hl : l.getLast? = some x) :
    l.erase x = l.dropLast := by
  obtain ⟨ys, rfl⟩ := List.getLast?_eq_some_iff.mp hl
  rw [List.nodup_append] at hn
  have hx : x ∉ ys := fun h => hn.2.2 x h x (by simp) rfl
  rw [List.erase_append_right _ hx]
  simp

end Mutagen.Proofs.LRU
