/-
Lifting of the per-identifier lemmas to the local actions of a side
(`Side.act`): the side acts as the opener of the identifier `X`.
-/
import Mutagen.Proofs.MuxSide2
import Mutagen.Proofs.MuxStepO1
import Mutagen.Proofs.MuxStepO2
import Mutagen.Proofs.MuxStepP2
namespace Mutagen.Model.Mux

theorem PerId.same {o o' p p' : Side} {w v : List Msg} {X : Nat} (h : PerId o p w v X)
    (ho : Same o o' X) (hp : Same p p' X) : PerId o' p' w v X :=
  h.congr ho.streams ho.pendIncr ho.pendCW ho.pendClose ho.used ho.window hp.streams hp.pendIncr
    hp.pendCW hp.pendClose (fun hx => Nat.le_trans hx hp.largestIn) hp.backlog hp.window

theorem onlyAbout_append_other {X : Nat} (w ms : List Msg) (h : ∀ m ∈ ms, m.about X = false) :
    onlyAbout X (w ++ ms) = onlyAbout X w := by
  rw [onlyAbout_append]
  have : onlyAbout X ms = [] := by
    simp only [onlyAbout, List.filter_eq_nil_iff]
    intro m hm; simp [h m hm]
  simp [this]

theorem onlyAbout_append_one {X : Nat} (w : List Msg) (m : Msg) (h : m.about X = true) :
    onlyAbout X (w ++ [m]) = onlyAbout X w ++ [m] := by
  rw [onlyAbout_append]; simp [onlyAbout, h]

theorem about_of_id_ne {X : Nat} {m : Msg} (h : m.id ≠ X) : m.about X = false := by
  cases m <;> simp_all [Msg.about, Msg.id]

variable {o p : Side} {wop wpo : List Msg} {X : Nat}

/-- Outcome shape used by all cases: the new side is `Same` at `X` and emits
nothing about `X`. -/
theorem PerId.frame_o {o' : Side} {ms : List Msg}
    (h : PerId o p (onlyAbout X wop) (onlyAbout X wpo) X)
    (hs : Same o o' X) (hm : ∀ m ∈ ms, m.about X = false) :
    PerId o' p (onlyAbout X (wop ++ ms)) (onlyAbout X wpo) X := by
  rw [onlyAbout_append_other _ _ hm]
  exact h.same hs (Same.refl p X)

theorem PerId.act_o_openStream (h : PerId o p (onlyAbout X wop) (onlyAbout X wpo) X)
    (hlt : o.nextOut ≠ 0 → p.largestIn < o.nextOut) (hc : o.closedMux = false) :
    PerId (o.act .openStream).1 p (onlyAbout X (wop ++ (o.act .openStream).2)) (onlyAbout X wpo) X := by
  simp only [Side.act, Side.openStream, hc, Bool.false_eq_true, ↓reduceIte]
  by_cases hn : o.nextOut = 0
  · simpa [hn] using h
  · simp only [hn, ↓reduceIte]
    by_cases hx : X = o.nextOut
    · have hu : ¬ o.used X := by simp [Side.used, hx]
      have hns : ¬ X ≤ p.largestIn := by have := hlt hn; omega
      rw [onlyAbout_append_one _ _ (by simp [Msg.about, Msg.id, hx])]
      rw [← hx]
      refine h.openStream_o hu hns o.newStream rfl rfl rfl rfl rfl rfl rfl rfl rfl ?_ ?_ ?_ ?_ ?_ ?_
      · simp [Side.setStream, hx]
      · simp [Side.setStream]
      · simp [Side.setStream]
      · simp [Side.setStream]
      · simp only [Side.used, Side.setStream]
        refine ⟨by omega, ?_⟩
        split
        · left; rfl
        · right; omega
      · simp [Side.setStream]
    · have hs := openStream_same o hx
      have hm := openStream_msgs o hx
      simp only [Side.openStream, hc, hn, Bool.false_eq_true, ↓reduceIte] at hs hm
      exact h.frame_o hs hm

theorem closeBegin_of_closed (s : Side) (Y : Nat) (send : Bool) (st : Stream)
    (hs : s.streams Y = some st) (hc : st.closed = true) (hcw : st.closedWrite = true) :
    s.closeBegin Y send = s := by
  simp [Side.closeBegin, Side.closeWrite, hs, hc, hcw]

/-- `Stream.close(true)` in one go (close message enqueued, stream deregistered). -/
theorem PerId.close_o {w v : List Msg} (h : PerId o p w v X) (st : Stream) (hs : o.streams X = some st)
    (hm : o.closedMux = false) : PerId (o.close X true) p w v X := by
  unfold Side.close
  simp only [hs]
  by_cases hcl : st.closed = true
  · simpa [hcl] using h
  · simp only [hcl, Bool.false_eq_true, ↓reduceIte]
    have hcl' : st.closed = false := by simpa using hcl
    have e1 := closeBegin_atEq o X st hs hcl' hm
    have h1 := h.closeBegin_o st hs hcl' e1
    exact h1.deregister_o _ e1.streams rfl (deregister_atEq _ X _ e1.streams)

theorem hasHandle_iff (s : Side) (Y : Nat) :
    s.hasHandle Y = true ↔ ∃ st, s.streams Y = some st ∧ st.established = true := by
  unfold Side.hasHandle
  cases s.streams Y <;> simp

/-- Every local action of the side that opened `X` preserves the invariant of `X`. -/
theorem PerId.act_o (a : SAct) (h : PerId o p (onlyAbout X wop) (onlyAbout X wpo) X)
    (hlt : o.nextOut ≠ 0 → p.largestIn < o.nextOut) (hc : o.closedMux = false)
    (hbl : X ∉ o.backlog) :
    PerId (o.act a).1 p (onlyAbout X (wop ++ (o.act a).2)) (onlyAbout X wpo) X := by
  have hbl' : ∀ rest, o.backlog ≠ X :: rest := by
    intro rest he; exact hbl (by rw [he]; exact List.mem_cons_self)
  have hnil : PerId o p (onlyAbout X (wop ++ [])) (onlyAbout X wpo) X := by simpa using h
  cases a with
  | openStream => exact h.act_o_openStream hlt hc
  | openWait Y c =>
    simp only [Side.act]
    split
    · by_cases hx : X = Y
      · subst hx
        rcases openWait_at o X c with he | ⟨st, hs, _, he⟩
        · rw [he]; exact hnil
        · rw [he]; simpa using h.close_o st hs hc
      · exact h.frame_o (openWait_same o c hx) (by simp)
    · exact hnil
  | accept g =>
    simp only [Side.act]
    exact h.frame_o (acceptOne_same o g hbl') (acceptOne_msgs o g hbl')
  | acceptAbort =>
    simp only [Side.act]
    exact h.frame_o (acceptAbort_same o hbl') (by simp)
  | read Y k now =>
    simp only [Side.act]
    split
    · rename_i hh
      obtain ⟨st, hs, he⟩ := (hasHandle_iff o Y).mp hh
      by_cases hx : X = Y
      · subst hx
        rcases read_at o X k now st hs hc with he' | ⟨st', hi, e⟩ | ⟨k', got, hk, hle, hcl, e⟩
        · rw [he']; exact hnil
        · simpa using h.irrelevant_o st st' hs hi.1 hi.2 hi.3 hi.4 hi.5 hi.6 hi.7 hi.8 hi.9 e
        · simpa using h.read_o st hs he hcl k' hk hle got e
      · exact h.frame_o (read_same o k now hx) (by simp)
    · exact hnil
  | writeChunk Y data =>
    simp only [Side.act]
    split
    · rename_i hh
      obtain ⟨hh1, hh2⟩ := hh
      obtain ⟨st, hs, he⟩ := (hasHandle_iff o Y).mp hh1
      have hcw : st.closedWrite = false := by simpa [Side.flagOf, hs] using hh2
      by_cases hx : X = Y
      · subst hx
        rcases writeChunk_at o X data st hs with ⟨he', hm⟩ | ⟨bs, hbs, hlen, hm, e⟩
        · rw [he', hm]; exact hnil
        · rw [hm, onlyAbout_append_one _ _ (by simp [Msg.about, Msg.id])]
          exact h.write_o st hs he hcw bs hbs hlen e
      · exact h.frame_o (writeChunk_same o data hx) (writeChunk_msgs o data hx)
    · exact hnil
  | closeWrite Y =>
    simp only [Side.act]
    split
    · rename_i hh
      obtain ⟨st, hs, he⟩ := (hasHandle_iff o Y).mp hh
      by_cases hx : X = Y
      · subst hx
        by_cases hcw : st.closedWrite = true
        · have : o.closeWrite X true = o := by simp [Side.closeWrite, hs, hcw]
          rw [this]; exact hnil
        · have hcw' : st.closedWrite = false := by simpa using hcw
          simpa using h.closeWrite_o st hs he hcw' (closeWrite_atEq o X st hs hcw' hc)
      · exact h.frame_o (closeWrite_same o true hx) (by simp)
    · exact hnil
  | closeBegin Y =>
    simp only [Side.act]
    split
    · rename_i hh
      obtain ⟨st, hs, he⟩ := (hasHandle_iff o Y).mp hh
      by_cases hx : X = Y
      · subst hx
        by_cases hcl : st.closed = true
        · have hcw := (h.flowOP.closed_clean st hs hcl).1
          rw [closeBegin_of_closed o X true st hs hcl hcw]; exact hnil
        · have hcl' : st.closed = false := by simpa using hcl
          simpa using h.closeBegin_o st hs hcl' (closeBegin_atEq o X st hs hcl' hc)
      · exact h.frame_o (closeBegin_same o true hx) (by simp)
    · exact hnil
  | deregister Y =>
    simp only [Side.act]
    split
    · rename_i hh
      by_cases hx : X = Y
      · subst hx
        cases hs : o.streams X with
        | none => simp [Side.flagOf, hs] at hh
        | some st =>
          have hcl : st.closed = true := by simpa [Side.flagOf, hs] using hh
          simpa using h.deregister_o st hs hcl (deregister_atEq o X st hs)
      · exact h.frame_o (deregister_same o hx) (by simp)
    · exact hnil
  | flushIncr Y =>
    simp only [Side.act]
    by_cases hx : X = Y
    · subst hx
      rcases flushIncr_at o X with he | ⟨v, hv, hm, e⟩
      · rw [he]; exact hnil
      · rw [hm, onlyAbout_append_one _ _ (by simp [Msg.about, Msg.id])]
        exact h.flushIncr_o v hv e
    · exact h.frame_o (flushIncr_same o hx) (flush_msgs o hx).1
  | flushCW Y =>
    simp only [Side.act]
    by_cases hx : X = Y
    · subst hx
      rcases flushCW_at o X with he | ⟨hv, hm, e⟩
      · rw [he]; exact hnil
      · rw [hm, onlyAbout_append_one _ _ (by simp [Msg.about, Msg.id])]
        exact h.flushCW_o hv e
    · exact h.frame_o (flushCW_same o hx) (flush_msgs o hx).2.1
  | flushClose Y =>
    simp only [Side.act]
    by_cases hx : X = Y
    · subst hx
      rcases flushClose_at o X with he | ⟨hv, hm, e⟩
      · rw [he]; exact hnil
      · rw [hm, onlyAbout_append_one _ _ (by simp [Msg.about, Msg.id])]
        exact h.flushClose_o hv e
    · exact h.frame_o (flushClose_same o hx) (flush_msgs o hx).2.2
  | setReadDeadline Y d =>
    simp only [Side.act]
    split
    · rename_i hh
      obtain ⟨st, hs, he⟩ := (hasHandle_iff o Y).mp hh
      by_cases hx : X = Y
      · subst hx
        rcases setReadDeadline_at o X d st hs with he' | ⟨st', hi, e⟩
        · rw [he']; exact hnil
        · simpa using h.irrelevant_o st st' hs hi.1 hi.2 hi.3 hi.4 hi.5 hi.6 hi.7 hi.8 hi.9 e
      · exact h.frame_o (setReadDeadline_same o d hx) (by simp)
    · exact hnil
  | setWriteDeadline Y d =>
    simp only [Side.act]
    split
    · rename_i hh
      obtain ⟨st, hs, he⟩ := (hasHandle_iff o Y).mp hh
      by_cases hx : X = Y
      · subst hx
        rcases setWriteDeadline_at o X d st hs with he' | ⟨st', hi, e⟩
        · rw [he']; exact hnil
        · simpa using h.irrelevant_o st st' hs hi.1 hi.2 hi.3 hi.4 hi.5 hi.6 hi.7 hi.8 hi.9 e
      · exact h.frame_o (setWriteDeadline_same o d hx) (by simp)
    · exact hnil

end Mutagen.Model.Mux
