import Mutagen.Model.Forward
/-!
Specification-level definitions and the invariant for C33.

`sent d es` — all bytes the source of direction `d` produces in the script;
`sentUntilEof d es` — those it produces before its first EOF; `hasEof d es`.
`Inv pre c` relates the state `c` reached after the events `pre` to these.
-/
namespace Mutagen.Proofs.Forward
open Mutagen.Model.Forward

/-- Bytes a source of direction `d` produces with this event. -/
def payload (d : Bool) : Event → List UInt8
  | .chunk d' bs _ _ => if d' = d then bs else []
  | _ => []

def isEof (d : Bool) : Event → Bool
  | .eof d' => d' == d
  | _ => false

def sent (d : Bool) : List Event → List UInt8
  | [] => []
  | e :: rest => payload d e ++ sent d rest

def hasEof (d : Bool) (es : List Event) : Bool := es.any (isEof d)

def sentUntilEof (d : Bool) : List Event → List UInt8
  | [] => []
  | e :: rest => if isEof d e then [] else payload d e ++ sentUntilEof d rest

theorem sent_append (d : Bool) (a b : List Event) : sent d (a ++ b) = sent d a ++ sent d b := by
  induction a with
  | nil => rfl
  | cons e rest ih => simp [sent, ih]

theorem sent_snoc (d : Bool) (pre : List Event) (e : Event) : sent d (pre ++ [e]) = sent d pre ++ payload d e := by
  simp [sent_append, sent]

theorem hasEof_snoc (d : Bool) (pre : List Event) (e : Event) :
    hasEof d (pre ++ [e]) = (hasEof d pre || isEof d e) := by
  simp [hasEof]

theorem sentUntilEof_snoc_of_hasEof (d : Bool) (pre : List Event) (e : Event) (h : hasEof d pre = true) :
    sentUntilEof d (pre ++ [e]) = sentUntilEof d pre := by
  induction pre with
  | nil => simp [hasEof] at h
  | cons x rest ih =>
    simp only [List.cons_append, sentUntilEof]
    by_cases hx : isEof d x = true
    · simp [hx]
    · simp only [hx, Bool.false_eq_true, if_false]
      have : hasEof d rest = true := by
        simp only [hasEof, List.any_cons, Bool.or_eq_true] at h
        rcases h with h | h
        · exact absurd h hx
        · exact h
      rw [ih this]

theorem sentUntilEof_snoc_of_not_hasEof (d : Bool) (pre : List Event) (e : Event) (h : hasEof d pre = false) :
    sentUntilEof d (pre ++ [e]) = sent d pre ++ (if isEof d e then [] else payload d e) := by
  induction pre with
  | nil => simp [sentUntilEof, sent]
  | cons x rest ih =>
    simp only [hasEof, List.any_cons, Bool.or_eq_false_iff] at h
    simp only [List.cons_append, sentUntilEof, h.1, Bool.false_eq_true, if_false, sent]
    rw [ih (by simpa [hasEof] using h.2), List.append_assoc]

/-! ## Invariant -/

/-- What is known about one direction after the events `pre`, when the
connection's `returned` flag is `r`. -/
structure DirInv (pre : List Event) (r : Bool) (d : Bool) (x : Dir) : Prop where
  isPrefix : x.delivered <+: sent d pre
  running : r = false → x.status = .running → x.delivered = sent d pre ∧ hasEof d pre = false
  doneNil : x.status = .doneNil → x.delivered = sentUntilEof d pre ∧ hasEof d pre = true
  audited : x.audited = x.delivered.length
  closeWrites : x.closeWrites = if x.status = .doneNil then 1 else 0
  noErr : r = false → x.status ≠ .doneErr

structure Inv (pre : List Event) (c : Conn) : Prop where
  d0 : DirInv pre c.returned false c.d0
  d1 : DirInv pre c.returned true c.d1
  closedYes : c.returned = true → c.closedFirst = 1 ∧ c.closedSecond = 1
  closedNo : c.returned = false → c.closedFirst = 0 ∧ c.closedSecond = 0
  notBoth : c.returned = false → ¬ (c.d0.status = .doneNil ∧ c.d1.status = .doneNil)

theorem Inv.init : Inv [] {} := by
  refine ⟨⟨?_, ?_, ?_, rfl, rfl, ?_⟩, ⟨?_, ?_, ?_, rfl, rfl, ?_⟩, ?_, ?_, ?_⟩ <;> simp [sent, hasEof]

/-- The event is invisible to direction `d` (nothing sent, no EOF) and the
direction's state is unchanged. -/
theorem DirInv.extend_irrelevant {pre r d x} (e : Event) (r' : Bool) (h : DirInv pre r d x)
    (hp : payload d e = []) (he : isEof d e = false) (hr : r' = false → r = false) :
    DirInv (pre ++ [e]) r' d x := by
  refine ⟨?_, ?_, ?_, h.audited, h.closeWrites, fun h' => h.noErr (hr h')⟩
  · rw [sent_snoc, hp, List.append_nil]; exact h.isPrefix
  · intro h1 h2
    rw [sent_snoc, hp, List.append_nil, hasEof_snoc, he, Bool.or_false]
    exact h.running (hr h1) h2
  · intro h1
    obtain ⟨ha, hb⟩ := h.doneNil h1
    rw [sentUntilEof_snoc_of_hasEof d pre e hb, hasEof_snoc, hb]
    exact ⟨ha, rfl⟩

/-- The direction's copy goroutine has finished: later events leave it alone. -/
theorem DirInv.extend_notRunning {pre r d x} (e : Event) (r' : Bool) (h : DirInv pre r d x)
    (hs : x.status ≠ .running) (hr : r' = false → r = false) :
    DirInv (pre ++ [e]) r' d x := by
  refine ⟨?_, fun _ h2 => absurd h2 hs, ?_, h.audited, h.closeWrites, fun h' => h.noErr (hr h')⟩
  · rw [sent_snoc]
    exact List.IsPrefix.trans h.isPrefix (List.prefix_append _ _)
  · intro h1
    obtain ⟨ha, hb⟩ := h.doneNil h1
    rw [sentUntilEof_snoc_of_hasEof d pre e hb, hasEof_snoc, hb]
    exact ⟨ha, rfl⟩

/-- The connection has returned: nothing changes any more. -/
theorem DirInv.extend_returned {pre d x} (e : Event) (h : DirInv pre true d x) :
    DirInv (pre ++ [e]) true d x := by
  refine ⟨?_, nofun, ?_, h.audited, h.closeWrites, nofun⟩
  · rw [sent_snoc]
    exact List.IsPrefix.trans h.isPrefix (List.prefix_append _ _)
  · intro h1
    obtain ⟨ha, hb⟩ := h.doneNil h1
    rw [sentUntilEof_snoc_of_hasEof d pre e hb, hasEof_snoc, hb]
    exact ⟨ha, rfl⟩

/-- A chunk is read by the running direction `d` and written to its destination. -/
theorem DirInv.chunk {pre d x} (bs : List UInt8) (accept : Nat) (werr : Bool) (h : DirInv pre false d x)
    (hs : x.status = .running) :
    let n := min accept bs.length
    let fails : Bool := decide (werr = true ∨ n < bs.length)
    DirInv (pre ++ [.chunk d bs accept werr]) fails d
      { x with delivered := x.delivered ++ bs.take n, audited := x.audited + n,
               status := if fails then .doneErr else .running } := by
  intro n fails
  obtain ⟨hd, he⟩ := h.running rfl hs
  have hcw : x.closeWrites = 0 := by rw [h.closeWrites, hs]; simp
  refine ⟨?_, ?_, ?_, ?_, ?_, ?_⟩
  · simp only [sent_snoc, payload, if_true, hd]
    exact List.prefix_append_right_inj _ |>.mpr (List.take_prefix _ _)
  · intro hf _
    have hn : ¬ (werr = true ∨ n < bs.length) := by simpa [fails] using hf
    have hlen : bs.length ≤ n := by omega
    rw [sent_snoc, hasEof_snoc, he]
    simp [payload, isEof, hd, List.take_of_length_le hlen]
  · intro h1
    by_cases hf : fails = true <;> simp [hf] at h1
  · simp only [List.length_append, List.length_take, h.audited]
    omega
  · by_cases hf : fails = true <;> simp [hf, hcw]
  · intro hf; simp [hf]

/-- The running direction `d` sees EOF: CloseWrite on the destination. -/
theorem DirInv.eof {pre d x} (r' : Bool) (h : DirInv pre false d x) (hs : x.status = .running) :
    DirInv (pre ++ [.eof d]) r' d { x with closeWrites := x.closeWrites + 1, status := .doneNil } := by
  obtain ⟨hd, he⟩ := h.running rfl hs
  have hcw : x.closeWrites = 0 := by rw [h.closeWrites, hs]; simp
  refine ⟨?_, ?_, ?_, h.audited, ?_, ?_⟩
  · simp only [sent_snoc, payload, List.append_nil]; exact h.isPrefix
  · intro _ h2; simp at h2
  · intro _
    rw [sentUntilEof_snoc_of_not_hasEof d pre _ he, hasEof_snoc]
    simp [isEof, hd]
  · simp [hcw]
  · intro _; simp

/-- The running direction `d` sees a read error. -/
theorem DirInv.err {pre d x} (e : Event) (h : DirInv pre false d x) (hs : x.status = .running) :
    DirInv (pre ++ [e]) true d { x with status := .doneErr } := by
  have hcw : x.closeWrites = 0 := by rw [h.closeWrites, hs]; simp
  refine ⟨?_, nofun, ?_, h.audited, ?_, nofun⟩
  · rw [sent_snoc]
    exact List.IsPrefix.trans h.isPrefix (List.prefix_append _ _)
  · intro h1; simp at h1
  · simp [hcw]

theorem payload_other (d : Bool) (bs : List UInt8) (a : Nat) (w : Bool) : payload (!d) (.chunk d bs a w) = [] := by
  cases d <;> simp [payload]

theorem isEof_other (d : Bool) : isEof (!d) (.eof d) = false := by
  cases d <;> simp [isEof]

/-- The invariant is preserved by every event. -/
theorem Inv.step {pre : List Event} {c : Conn} (h : Inv pre c) (e : Event) : Inv (pre ++ [e]) (c.step e) := by
  by_cases hr : c.returned = true
  · -- returned: every event is ignored
    have hstep : c.step e = c := by
      cases e <;> simp [Conn.step, hr]
    rw [hstep]
    have h0 := h.d0; have h1 := h.d1
    rw [hr] at h0 h1
    exact ⟨(by rw [hr]; exact h0.extend_returned e), (by rw [hr]; exact h1.extend_returned e),
      h.closedYes, (fun h' => by rw [hr] at h'; cases h'), (fun h' => by rw [hr] at h'; cases h')⟩
  · have hr : c.returned = false := by simpa using hr
    have h0 := h.d0; have h1 := h.d1
    rw [hr] at h0 h1
    obtain ⟨hc1, hc2⟩ := h.closedNo hr
    have hnb := h.notBoth hr
    cases e with
    | cancel =>
      simp only [Conn.step, hr, Bool.false_eq_true, if_false, Conn.finish]
      exact ⟨h0.extend_irrelevant _ true rfl rfl (nofun),
        h1.extend_irrelevant _ true rfl rfl (nofun),
        (fun _ => by simp [hc1, hc2]), nofun, nofun⟩
    | err d =>
      cases d with
      | false =>
        by_cases hs : c.d0.status = .running
        · simp only [Conn.step, hr, Conn.dir, hs, Conn.setDir, Conn.finish, Bool.false_eq_true, if_false,
            ne_eq, not_true, or_false]
          exact ⟨h0.err _ hs, h1.extend_irrelevant _ true rfl rfl (nofun),
            (fun _ => by simp [hc1, hc2]), nofun, nofun⟩
        · simp only [Conn.step, hr, Conn.dir, hs, Bool.false_eq_true, if_false, ne_eq, not_false_eq_true,
            or_true, if_true]
          exact ⟨(by rw [hr]; exact h0.extend_irrelevant _ false rfl rfl id),
            (by rw [hr]; exact h1.extend_irrelevant _ false rfl rfl id), h.closedYes, h.closedNo, h.notBoth⟩
      | true =>
        by_cases hs : c.d1.status = .running
        · simp only [Conn.step, hr, Conn.dir, hs, Conn.setDir, Conn.finish, Bool.false_eq_true, if_false,
            ne_eq, not_true, or_false, if_true]
          exact ⟨h0.extend_irrelevant _ true rfl rfl (nofun), h1.err _ hs,
            (fun _ => by simp [hc1, hc2]), nofun, nofun⟩
        · simp only [Conn.step, hr, Conn.dir, hs, Bool.false_eq_true, if_false, ne_eq, not_false_eq_true,
            or_true, if_true]
          exact ⟨(by rw [hr]; exact h0.extend_irrelevant _ false rfl rfl id),
            (by rw [hr]; exact h1.extend_irrelevant _ false rfl rfl id), h.closedYes, h.closedNo, h.notBoth⟩
    | eof d =>
      cases d with
      | false =>
        by_cases hs : c.d0.status = .running
        · by_cases ho : c.d1.status = .doneNil
          · simp only [Conn.step, hr, Conn.dir, hs, Conn.setDir, Conn.finish, Bool.false_eq_true, if_false,
              ne_eq, not_true, or_false, Bool.not_false, if_true, ho]
            exact ⟨h0.eof true hs, h1.extend_irrelevant _ true rfl (isEof_other false) (nofun),
              (fun _ => by simp [hc1, hc2]), nofun, nofun⟩
          · simp only [Conn.step, hr, Conn.dir, hs, Conn.setDir, Bool.false_eq_true, if_false,
              ne_eq, not_true, or_false, Bool.not_false, if_true, ho]
            exact ⟨h0.eof false hs, h1.extend_irrelevant _ false rfl (isEof_other false) id,
              (fun h' => by simp [hr] at h'), fun _ => ⟨hc1, hc2⟩, fun _ hb => ho hb.2⟩
        · simp only [Conn.step, hr, Conn.dir, hs, Bool.false_eq_true, if_false, ne_eq, not_false_eq_true,
            or_true, if_true]
          exact ⟨(by rw [hr]; exact h0.extend_notRunning _ false hs id),
            (by rw [hr]; exact h1.extend_irrelevant _ false rfl (isEof_other false) id),
            h.closedYes, h.closedNo, h.notBoth⟩
      | true =>
        by_cases hs : c.d1.status = .running
        · by_cases ho : c.d0.status = .doneNil
          · simp only [Conn.step, hr, Conn.dir, hs, Conn.setDir, Conn.finish, Bool.false_eq_true, if_false,
              ne_eq, not_true, or_false, Bool.not_true, if_true, ho]
            exact ⟨h0.extend_irrelevant _ true rfl (isEof_other true) (nofun), h1.eof true hs,
              (fun _ => by simp [hc1, hc2]), nofun, nofun⟩
          · simp only [Conn.step, hr, Conn.dir, hs, Conn.setDir, Bool.false_eq_true, if_false,
              ne_eq, not_true, or_false, Bool.not_true, if_true, ho]
            exact ⟨h0.extend_irrelevant _ false rfl (isEof_other true) id, h1.eof false hs,
              (fun h' => by simp [hr] at h'), fun _ => ⟨hc1, hc2⟩, fun _ hb => ho hb.1⟩
        · simp only [Conn.step, hr, Conn.dir, hs, Bool.false_eq_true, if_false, ne_eq, not_false_eq_true,
            or_true, if_true]
          exact ⟨(by rw [hr]; exact h0.extend_irrelevant _ false rfl (isEof_other true) id),
            (by rw [hr]; exact h1.extend_notRunning _ false hs id),
            h.closedYes, h.closedNo, h.notBoth⟩
    | chunk d bs accept werr =>
      cases d with
      | false =>
        by_cases hs : c.d0.status = .running
        · have hk := h0.chunk bs accept werr hs
          by_cases hf : (werr = true ∨ min accept bs.length < bs.length)
          · simp only [Conn.step, hr, Conn.dir, hs, Conn.setDir, Conn.finish, Bool.false_eq_true, if_false,
              ne_eq, not_true, or_false, hf, if_true]
            simp only [hf, decide_true, if_true] at hk
            exact ⟨hk, h1.extend_irrelevant _ true (payload_other false bs accept werr) rfl (nofun),
              (fun _ => by simp [hc1, hc2]), nofun, nofun⟩
          · simp only [Conn.step, hr, Conn.dir, hs, Conn.setDir, Bool.false_eq_true, if_false,
              ne_eq, not_true, or_false, hf]
            simp only [hf, decide_false, Bool.false_eq_true, if_false] at hk
            refine ⟨?_, h1.extend_irrelevant _ false (payload_other false bs accept werr) rfl id,
              (fun h' => by simp [hr] at h'), fun _ => ⟨hc1, hc2⟩, (fun _ hb => by simp [hs] at hb)⟩
            exact hk
        · simp only [Conn.step, hr, Conn.dir, hs, Bool.false_eq_true, if_false, ne_eq, not_false_eq_true,
            or_true, if_true]
          exact ⟨(by rw [hr]; exact h0.extend_notRunning _ false hs id),
            (by rw [hr]; exact h1.extend_irrelevant _ false (payload_other false bs accept werr) rfl id),
            h.closedYes, h.closedNo, h.notBoth⟩
      | true =>
        by_cases hs : c.d1.status = .running
        · have hk := h1.chunk bs accept werr hs
          by_cases hf : (werr = true ∨ min accept bs.length < bs.length)
          · simp only [Conn.step, hr, Conn.dir, hs, Conn.setDir, Conn.finish, Bool.false_eq_true, if_false,
              ne_eq, not_true, or_false, hf, if_true]
            simp only [hf, decide_true, if_true] at hk
            exact ⟨h0.extend_irrelevant _ true (payload_other true bs accept werr) rfl (nofun), hk,
              (fun _ => by simp [hc1, hc2]), nofun, nofun⟩
          · simp only [Conn.step, hr, Conn.dir, hs, Conn.setDir, Bool.false_eq_true, if_false,
              ne_eq, not_true, or_false, hf, if_true]
            simp only [hf, decide_false, Bool.false_eq_true, if_false] at hk
            refine ⟨h0.extend_irrelevant _ false (payload_other true bs accept werr) rfl id, ?_,
              (fun h' => by simp [hr] at h'), fun _ => ⟨hc1, hc2⟩, (fun _ hb => by simp [hs] at hb)⟩
            exact hk
        · simp only [Conn.step, hr, Conn.dir, hs, Bool.false_eq_true, if_false, ne_eq, not_false_eq_true,
            or_true, if_true]
          exact ⟨(by rw [hr]; exact h0.extend_irrelevant _ false (payload_other true bs accept werr) rfl id),
            (by rw [hr]; exact h1.extend_notRunning _ false hs id),
            h.closedYes, h.closedNo, h.notBoth⟩

/-- The invariant holds after any script. -/
theorem Inv.foldl (pre : List Event) (c : Conn) (h : Inv pre c) (es : List Event) :
    Inv (pre ++ es) (es.foldl Conn.step c) := by
  induction es generalizing pre c with
  | nil => simpa using h
  | cons e rest ih =>
    have := ih (pre ++ [e]) (c.step e) (h.step e)
    simpa [List.append_assoc] using this

theorem Inv.run (es : List Event) : Inv es (es.foldl Conn.step {}) := by
  simpa using Inv.foldl [] {} Inv.init es

/-! ## Monotonicity of single steps -/

theorem step_of_returned (c : Conn) (e : Event) (h : c.returned = true) : c.step e = c := by
  cases e <;> simp [Conn.step, h]

theorem step_returned_mono (c : Conn) (e : Event) (h : c.returned = true) : (c.step e).returned = true := by
  rw [step_of_returned c e h]; exact h

theorem step_audited_mono (c : Conn) (e : Event) :
    c.d0.audited ≤ (c.step e).d0.audited ∧ c.d1.audited ≤ (c.step e).d1.audited := by
  cases e with
  | cancel => simp only [Conn.step]; split <;> simp [Conn.finish]
  | err d => cases d <;> (simp only [Conn.step]; split <;> simp [Conn.finish, Conn.setDir, Conn.dir])
  | eof d =>
    cases d <;> (simp only [Conn.step]; split <;> try simp) <;>
      (split <;> simp [Conn.finish, Conn.setDir, Conn.dir])
  | chunk d bs a w =>
    cases d <;> (simp only [Conn.step]; split <;> try simp) <;>
      (split <;> simp [Conn.finish, Conn.setDir, Conn.dir])

theorem cancel_returned (c : Conn) : (c.step .cancel).returned = true := by
  simp only [Conn.step]; split <;> simp_all [Conn.finish]

/-! ## The forwarding loop -/

def openCount (cs : List Conn) : Nat := (cs.filter fun c => !c.returned).length
def sumIn (cs : List Conn) : Nat := (cs.map fun c => c.d0.audited).sum
def sumOut (cs : List Conn) : Nat := (cs.map fun c => c.d1.audited).sum

theorem sum_map_set (f : Conn → Nat) : ∀ (l : List Conn) (k : Nat) (a b : Conn), l[k]? = some a → f a ≤ f b →
    ((l.set k b).map f).sum = (l.map f).sum + (f b - f a)
  | [], _, _, _, h, _ => by simp at h
  | x :: xs, 0, a, b, h, hle => by
    simp at h; subst h
    simp only [List.set_cons_zero, List.map_cons, List.sum_cons]; omega
  | x :: xs, k + 1, a, b, h, hle => by
    simp at h
    simp only [List.set_cons_succ, List.map_cons, List.sum_cons, sum_map_set f xs k a b h hle]; omega

theorem openCount_set : ∀ (l : List Conn) (k : Nat) (a b : Conn), l[k]? = some a →
    (a.returned = true → b.returned = true) →
    (openCount (l.set k b) : Int) = openCount l - (if b.returned = true ∧ a.returned = false then 1 else 0)
  | [], _, _, _, h, _ => by simp at h
  | x :: xs, 0, a, b, h, hm => by
    simp at h; subst h
    simp only [openCount, List.set_cons_zero, List.filter_cons]
    cases hx : x.returned <;> cases hb : b.returned <;> simp_all <;> omega
  | x :: xs, k + 1, a, b, h, hm => by
    simp at h
    have ih := openCount_set xs k a b h hm
    simp only [openCount, List.set_cons_succ, List.filter_cons] at ih ⊢
    cases hx : x.returned <;> simp [hx] <;> omega

structure LInv (l : Loop) : Prop where
  total : l.counters.totalConnections = l.conns.length
  opened : l.counters.openConnections = (openCount l.conns : Int)
  inbound : l.counters.inbound + l.pendingIn = sumIn l.conns
  outbound : l.counters.outbound + l.pendingOut = sumOut l.conns
  reach : ∀ c ∈ l.conns, ∃ es, Inv es c
  stopped : l.stopped = true → ∀ c ∈ l.conns, c.returned = true

theorem LInv.init : LInv {} := by
  refine ⟨rfl, rfl, rfl, rfl, ?_, ?_⟩ <;> simp

theorem connStep_conns (l : Loop) (k : Nat) (e : Event) :
    (l.connStep k e).conns = match l.conns[k]? with
      | none => l.conns
      | some c => l.conns.set k (c.step e) := by
  unfold Loop.connStep
  split <;> simp_all

theorem connStep_stopped (l : Loop) (k : Nat) (e : Event) : (l.connStep k e).stopped = l.stopped := by
  unfold Loop.connStep
  split <;> rfl

theorem LInv.connStep {l : Loop} (h : LInv l) (k : Nat) (e : Event) (hs : l.stopped = false) :
    LInv (l.connStep k e) := by
  unfold Loop.connStep
  cases hk : l.conns[k]? with
  | none => simpa using h
  | some c =>
    simp only
    have hmono := step_audited_mono c e
    have hret := step_returned_mono c e
    have hopen := openCount_set l.conns k c (c.step e) hk hret
    refine ⟨?_, ?_, ?_, ?_, ?_, ?_⟩
    · simp [h.total]
    · simp only [hopen, h.opened]
      by_cases h1 : (c.step e).returned = true <;> by_cases h2 : c.returned = true <;> simp [h1, h2]
    · have h1 := sum_map_set (fun c => c.d0.audited) l.conns k c (c.step e) hk hmono.1
      have h2 := h.inbound
      simp only [sumIn] at h2 ⊢
      omega
    · have h1 := sum_map_set (fun c => c.d1.audited) l.conns k c (c.step e) hk hmono.2
      have h2 := h.outbound
      simp only [sumOut] at h2 ⊢
      omega
    · intro c' hc'
      simp only at hc'
      rcases List.mem_or_eq_of_mem_set hc' with hc' | rfl
      · exact h.reach c' hc'
      · obtain ⟨es, hes⟩ := h.reach c (List.mem_of_getElem? hk)
        exact ⟨es ++ [e], hes.step e⟩
    · intro hst; simp [hs] at hst

/-- Cancelling the connections `ks` one after the other. -/
theorem cancel_foldl (ks : List Nat) : ∀ (l : Loop), LInv l → l.stopped = false →
    let l' := ks.foldl (fun l k => l.connStep k .cancel) l
    LInv l' ∧ l'.stopped = false ∧ l'.conns.length = l.conns.length ∧ l'.snaps = l.snaps ∧
      l'.orphanClosed = l.orphanClosed ∧
      (∀ (j : Nat) (c : Conn), l.conns[j]? = some c → c.returned = true → ∃ c' : Conn, l'.conns[j]? = some c' ∧ c'.returned = true) ∧
      (∀ k ∈ ks, ∀ c : Conn, l'.conns[k]? = some c → c.returned = true) := by
  induction ks with
  | nil => intro l h hs; exact ⟨h, hs, rfl, rfl, rfl, fun j c hj hc => ⟨c, hj, hc⟩, by simp⟩
  | cons k rest ih =>
    intro l h hs
    have h1 := h.connStep k .cancel hs
    have hs1 : (l.connStep k .cancel).stopped = false := by rw [connStep_stopped]; exact hs
    obtain ⟨a1, a2, a3, a4, a5, a6, a7⟩ := ih (l.connStep k .cancel) h1 hs1
    have hlen : (l.connStep k .cancel).conns.length = l.conns.length := by
      rw [connStep_conns]; split <;> simp
    have hsn : (l.connStep k .cancel).snaps = l.snaps := by unfold Loop.connStep; split <;> rfl
    have hor : (l.connStep k .cancel).orphanClosed = l.orphanClosed := by unfold Loop.connStep; split <;> rfl
    -- returned connections stay returned across the first step
    have hkeep : ∀ (j : Nat) (c : Conn), l.conns[j]? = some c → c.returned = true →
        ∃ c' : Conn, (l.connStep k .cancel).conns[j]? = some c' ∧ c'.returned = true := by
      intro j c hj hc
      rw [connStep_conns]
      cases hk : l.conns[k]? with
      | none => exact ⟨c, hj, hc⟩
      | some ck =>
        simp only
        by_cases hjk : k = j
        · subst hjk
          rw [hj] at hk; injection hk with hk; subst hk
          refine ⟨c.step .cancel, ?_, cancel_returned c⟩
          have : k < l.conns.length := by
            rcases Nat.lt_or_ge k l.conns.length with h' | h'
            · exact h'
            · rw [List.getElem?_eq_none h'] at hj; cases hj
          simp [List.getElem?_set, this]
        · refine ⟨c, ?_, hc⟩
          rw [List.getElem?_set_ne hjk]; exact hj
    simp only [List.foldl_cons]
    refine ⟨a1, a2, by rw [a3, hlen], by rw [a4, hsn], by rw [a5, hor], ?_, ?_⟩
    · intro j c hj hc
      obtain ⟨c', hj', hc'⟩ := hkeep j c hj hc
      exact a6 j c' hj' hc'
    · intro k' hk' c hc
      simp only [List.mem_cons] at hk'
      rcases hk' with rfl | hk'
      · -- connection k' was cancelled by the first step and stays returned
        have hlt : k' < l.conns.length := by
          rcases Nat.lt_or_ge k' l.conns.length with h' | h'
          · exact h'
          · have : k' ≥ (List.foldl (fun l k => l.connStep k .cancel) (l.connStep k' .cancel) rest).conns.length := by
              rw [a3, hlen]; exact h'
            rw [List.getElem?_eq_none this] at hc; cases hc
        have hget : l.conns[k']? = some l.conns[k'] := List.getElem?_eq_getElem hlt
        have : (l.connStep k' .cancel).conns[k']? = some (l.conns[k'].step .cancel) := by
          rw [connStep_conns, hget]; simp [List.getElem?_set, hlt]
        obtain ⟨c', hc1, hc2⟩ := a6 k' _ this (cancel_returned _)
        rw [hc1] at hc; injection hc with hc; subst hc; exact hc2
      · exact a7 k' hk' c hc

theorem cancelAll_spec (l : Loop) (h : LInv l) (hs : l.stopped = false) :
    LInv l.cancelAll ∧ l.cancelAll.snaps = l.snaps ∧ l.cancelAll.orphanClosed = l.orphanClosed ∧
      ∀ c ∈ l.cancelAll.conns, c.returned = true := by
  obtain ⟨a1, _, a3, a4, a5, _, a7⟩ := cancel_foldl (List.range l.conns.length) l h hs
  refine ⟨a1, a4, a5, ?_⟩
  intro c hc
  obtain ⟨k, hk, hget⟩ := List.getElem_of_mem hc
  have hk' : k < l.conns.length := by simp only [Loop.cancelAll] at hk; rw [a3] at hk; exact hk
  have hk2 : k < (List.foldl (fun l k => l.connStep k Event.cancel) l (List.range l.conns.length)).conns.length := by
    rw [a3]; exact hk'
  exact a7 k (List.mem_range.mpr hk') c (by
    simp only [Loop.cancelAll] at hget
    rw [List.getElem?_eq_getElem hk2, hget])

theorem openCount_of_all_returned (cs : List Conn) (h : ∀ c ∈ cs, c.returned = true) : openCount cs = 0 := by
  simp only [openCount, List.length_eq_zero_iff, List.filter_eq_nil_iff]
  intro c hc; simp [h c hc]

theorem LInv.step {l : Loop} (h : LInv l) (e : LoopEvent) : LInv (l.step e) := by
  cases e with
  | conn k ev =>
    simp only [Loop.step]
    split
    · exact h
    · rename_i hs; exact h.connStep k ev (by simpa using hs)
  | «open» =>
    simp only [Loop.step]
    split
    · exact h
    · refine ⟨?_, ?_, ?_, ?_, ?_, ?_⟩
      · simp [h.total]
      · simp only [openCount, List.filter_append, List.length_append, h.opened]; simp [openCount]
      · have h2 := h.inbound
        simp only [sumIn] at h2
        simp [sumIn, h2]
      · have h2 := h.outbound
        simp only [sumOut] at h2
        simp [sumOut, h2]
      · intro c hc
        simp only [List.mem_append, List.mem_singleton] at hc
        rcases hc with hc | rfl
        · exact h.reach c hc
        · exact ⟨[], Inv.init⟩
      · rename_i hs; intro hst; simp only at hst; simp [hst] at hs
  | openFail =>
    simp only [Loop.step]
    split
    · exact h
    · rename_i hs
      obtain ⟨a1, _, _, a4⟩ := cancelAll_spec l h (by simpa using hs)
      exact ⟨a1.total, a1.opened, a1.inbound, a1.outbound, a1.reach, fun _ => a4⟩
  | stop =>
    simp only [Loop.step]
    split
    · exact h
    · rename_i hs
      obtain ⟨a1, _, _, a4⟩ := cancelAll_spec l h (by simpa using hs)
      exact ⟨a1.total, a1.opened, a1.inbound, a1.outbound, a1.reach, fun _ => a4⟩
  | snap => exact ⟨h.total, h.opened, h.inbound, h.outbound, h.reach, h.stopped⟩

theorem LInv.foldl (es : List LoopEvent) : ∀ l, LInv l → LInv (es.foldl Loop.step l) := by
  induction es with
  | nil => intro l h; exact h
  | cons e rest ih => intro l h; exact ih _ (h.step e)

theorem step_stop_stopped (l : Loop) : (l.step .stop).stopped = true := by
  simp only [Loop.step]; split <;> simp_all

theorem LInv.run (es : List LoopEvent) : LInv (Loop.run es) ∧ (Loop.run es).stopped = true :=
  ⟨(LInv.foldl es {} LInv.init).step .stop, step_stop_stopped _⟩

/-! ## Writes in flight and loop generations -/

theorem connStep_pending (l : Loop) (k : Nat) (e : Event) :
    (l.connStep k e).pendingIn = l.pendingIn ∧ (l.connStep k e).pendingOut = l.pendingOut := by
  unfold Loop.connStep
  split <;> exact ⟨rfl, rfl⟩

theorem cancel_foldl_pending (ks : List Nat) : ∀ l : Loop,
    (ks.foldl (fun l k => l.connStep k .cancel) l).pendingIn = l.pendingIn ∧
    (ks.foldl (fun l k => l.connStep k .cancel) l).pendingOut = l.pendingOut := by
  induction ks with
  | nil => intro l; exact ⟨rfl, rfl⟩
  | cons k rest ih =>
    intro l
    simp only [List.foldl_cons]
    have h1 := ih (l.connStep k .cancel)
    have h2 := connStep_pending l k .cancel
    exact ⟨h1.1.trans h2.1, h1.2.trans h2.2⟩

/-- Ordinary loop events never leave an audit pending. -/
theorem step_pending (l : Loop) (e : LoopEvent) :
    (l.step e).pendingIn = l.pendingIn ∧ (l.step e).pendingOut = l.pendingOut := by
  cases e with
  | conn k ev =>
    simp only [Loop.step]
    split
    · exact ⟨rfl, rfl⟩
    · exact connStep_pending l k ev
  | «open» => simp only [Loop.step]; split <;> exact ⟨rfl, rfl⟩
  | openFail =>
    simp only [Loop.step]
    split
    · exact ⟨rfl, rfl⟩
    · exact cancel_foldl_pending _ l
  | stop =>
    simp only [Loop.step]
    split
    · exact ⟨rfl, rfl⟩
    · exact cancel_foldl_pending _ l
  | snap => exact ⟨rfl, rfl⟩

theorem foldl_step_pending (es : List LoopEvent) : ∀ l : Loop,
    (es.foldl Loop.step l).pendingIn = l.pendingIn ∧ (es.foldl Loop.step l).pendingOut = l.pendingOut := by
  induction es with
  | nil => intro l; exact ⟨rfl, rfl⟩
  | cons e rest ih =>
    intro l
    simp only [List.foldl_cons]
    have h1 := ih (l.step e)
    have h2 := step_pending l e
    exact ⟨h1.1.trans h2.1, h1.2.trans h2.2⟩

/-- A write in flight keeps the invariant: the accepted bytes are accounted for
as pending audits of this loop. -/
theorem LInv.inFlight {l : Loop} (h : LInv l) (k : Nat) (d : Bool) (bs : List UInt8) :
    LInv (l.inFlight k d bs) := by
  unfold Loop.inFlight
  split
  · exact h
  · rename_i hs
    have hs : l.stopped = false := by simpa using hs
    cases hk : l.conns[k]? with
    | none => simpa using h
    | some c =>
      simp only
      have hmono := step_audited_mono c (.chunk d bs bs.length false)
      have hret := step_returned_mono c (.chunk d bs bs.length false)
      -- a complete, error-free write never makes ForwardAndClose return
      have hsame : (c.step (.chunk d bs bs.length false)).returned = c.returned := by
        cases d <;> simp only [Conn.step, Conn.dir, Conn.setDir, Nat.min_self, Nat.lt_irrefl, or_false,
          Bool.false_eq_true, if_false, if_true, ↓reduceIte]
        · by_cases hc : c.returned = true ∨ c.d0.status ≠ Status.running
          · rw [if_pos hc]
          · rw [if_neg hc]
        · by_cases hc : c.returned = true ∨ c.d1.status ≠ Status.running
          · rw [if_pos hc]
          · rw [if_neg hc]
      have hopen := openCount_set l.conns k c (c.step (.chunk d bs bs.length false)) hk hret
      refine ⟨?_, ?_, ?_, ?_, ?_, ?_⟩
      · simp [h.total]
      · simp only [hopen, h.opened, hsame]
        cases c.returned <;> simp
      · have h1 := sum_map_set (fun c => c.d0.audited) l.conns k c _ hk hmono.1
        have h2 := h.inbound
        simp only [sumIn] at h2 ⊢
        omega
      · have h1 := sum_map_set (fun c => c.d1.audited) l.conns k c _ hk hmono.2
        have h2 := h.outbound
        simp only [sumOut] at h2 ⊢
        omega
      · intro c' hc'
        simp only at hc'
        rcases List.mem_or_eq_of_mem_set hc' with hc' | rfl
        · exact h.reach c' hc'
        · obtain ⟨es, hes⟩ := h.reach c (List.mem_of_getElem? hk)
          exact ⟨es ++ [.chunk d bs bs.length false], hes.step _⟩
      · intro hst; simp [hs] at hst

theorem LInv.release {l : Loop} (h : LInv l) : LInv l.release := by
  refine ⟨h.total, h.opened, ?_, ?_, h.reach, h.stopped⟩
  · simpa [Loop.release] using h.inbound
  · simpa [Loop.release] using h.outbound

theorem release_pending (l : Loop) : l.release.pendingIn = 0 ∧ l.release.pendingOut = 0 := ⟨rfl, rfl⟩

/-- Every generation of the controller satisfies the loop invariant. -/
structure CInv (c : Ctl) : Prop where
  cur : LInv c.cur
  past : ∀ g ∈ c.past, LInv g

theorem CInv.init : CInv {} := ⟨LInv.init, by simp⟩

theorem LInv.foldl_inFlight (ws : List (Nat × Bool × List UInt8)) : ∀ l : Loop, LInv l →
    LInv (ws.foldl (fun l w => l.inFlight w.1 w.2.1 w.2.2) l) := by
  induction ws with
  | nil => intro l h; exact h
  | cons w rest ih => intro l h; exact ih _ (h.inFlight _ _ _)

theorem CInv.step {c : Ctl} (h : CInv c) (e : CtlEvent) : CInv (c.step e) := by
  cases e with
  | loop ev => exact ⟨h.cur.step ev, h.past⟩
  | restart ws =>
    refine ⟨LInv.init, ?_⟩
    intro g hg
    simp only [Ctl.step, List.mem_cons] at hg
    rcases hg with rfl | hg
    · exact (LInv.foldl_inFlight _ _ h.cur).step .stop
    · exact h.past g hg
  | release =>
    refine ⟨h.cur.release, ?_⟩
    intro g hg
    simp only [Ctl.step, List.mem_map] at hg
    obtain ⟨g', hg', rfl⟩ := hg
    exact (h.past g' hg').release

theorem CInv.foldl (es : List CtlEvent) : ∀ c, CInv c → CInv (es.foldl Ctl.step c) := by
  induction es with
  | nil => intro c h; exact h
  | cons e rest ih => intro c h; exact ih _ (h.step e)

/-- The current generation evolves independently of the earlier ones. -/
theorem step_cur_congr (c₁ c₂ : Ctl) (e : CtlEvent) (h : c₁.cur = c₂.cur) : (c₁.step e).cur = (c₂.step e).cur := by
  cases e <;> simp [Ctl.step, h]

theorem foldl_cur_congr (es : List CtlEvent) : ∀ c₁ c₂ : Ctl, c₁.cur = c₂.cur →
    (es.foldl Ctl.step c₁).cur = (es.foldl Ctl.step c₂).cur := by
  induction es with
  | nil => intro c₁ c₂ h; exact h
  | cons e rest ih => intro c₁ c₂ h; exact ih _ _ (step_cur_congr c₁ c₂ e h)

/-! ## Further facts about single connections -/

theorem foldl_returned_mono (es : List Event) : ∀ c : Conn, c.returned = true → (es.foldl Conn.step c).returned = true := by
  induction es with
  | nil => intro c h; exact h
  | cons e rest ih => intro c h; exact ih _ (step_returned_mono c e h)

theorem foldl_returned_of_cancel (es : List Event) : ∀ c : Conn, Event.cancel ∈ es →
    (es.foldl Conn.step c).returned = true := by
  induction es with
  | nil => intro c h; simp at h
  | cons e rest ih =>
    intro c h
    simp only [List.mem_cons] at h
    rcases h with h | h
    · subst h; exact foldl_returned_mono rest _ (cancel_returned c)
    · exact ih _ h

/-- Scripts without failures: every chunk is accepted completely and without
error, no read errors, no cancellation. -/
def faultFreeEvent : Event → Bool
  | .chunk _ bs accept werr => !werr && decide (bs.length ≤ accept)
  | .eof _ => true
  | .err _ => false
  | .cancel => false

def faultFree (es : List Event) : Bool := es.all faultFreeEvent

/-- In a fault-free run no copy fails and the function only returns after both half-closes. -/
structure FF (c : Conn) : Prop where
  noErr0 : c.d0.status ≠ .doneErr
  noErr1 : c.d1.status ≠ .doneErr
  ret : c.returned = true → c.d0.status = .doneNil ∧ c.d1.status = .doneNil

theorem FF.step {c : Conn} (h : FF c) (e : Event) (he : faultFreeEvent e = true) : FF (c.step e) := by
  by_cases hr : c.returned = true
  · rw [step_of_returned c e hr]; exact h
  · have hr : c.returned = false := by simpa using hr
    obtain ⟨h0, h1, _⟩ := h
    have hkeep : FF c := ⟨h0, h1, fun h' => by rw [hr] at h'; cases h'⟩
    cases e with
    | cancel => simp [faultFreeEvent] at he
    | err d => simp [faultFreeEvent] at he
    | eof d =>
      cases d with
      | false =>
        by_cases hs : c.d0.status = .running
        · by_cases ho : c.d1.status = .doneNil
          · simp only [Conn.step, hr, Conn.dir, hs, Conn.setDir, Conn.finish, Bool.false_eq_true, if_false,
              ne_eq, not_true, or_false, Bool.not_false, if_true, ho]
            exact ⟨by simp, h1, fun _ => ⟨rfl, ho⟩⟩
          · simp only [Conn.step, hr, Conn.dir, hs, Conn.setDir, Bool.false_eq_true, if_false,
              ne_eq, not_true, or_false, Bool.not_false, if_true, ho]
            exact ⟨by simp, h1, fun h' => by simp [hr] at h'⟩
        · simp only [Conn.step, hr, Conn.dir, hs, Bool.false_eq_true, if_false, ne_eq, not_false_eq_true,
            or_true, if_true]
          exact hkeep
      | true =>
        by_cases hs : c.d1.status = .running
        · by_cases ho : c.d0.status = .doneNil
          · simp only [Conn.step, hr, Conn.dir, hs, Conn.setDir, Conn.finish, Bool.false_eq_true, if_false,
              ne_eq, not_true, or_false, Bool.not_true, if_true, ho]
            exact ⟨h0, by simp, fun _ => ⟨ho, rfl⟩⟩
          · simp only [Conn.step, hr, Conn.dir, hs, Conn.setDir, Bool.false_eq_true, if_false,
              ne_eq, not_true, or_false, Bool.not_true, if_true, ho]
            exact ⟨h0, by simp, fun h' => by simp [hr] at h'⟩
        · simp only [Conn.step, hr, Conn.dir, hs, Bool.false_eq_true, if_false, ne_eq, not_false_eq_true,
            or_true, if_true]
          exact hkeep
    | chunk d bs accept werr =>
      simp only [faultFreeEvent, Bool.and_eq_true, Bool.not_eq_true', decide_eq_true_eq] at he
      have hn : ¬ (werr = true ∨ min accept bs.length < bs.length) := by
        intro h'; rcases h' with h' | h'
        · simp [he.1] at h'
        · omega
      cases d with
      | false =>
        by_cases hs : c.d0.status = .running
        · simp only [Conn.step, hr, Conn.dir, hs, Conn.setDir, Bool.false_eq_true, if_false,
            ne_eq, not_true, or_false, hn]
          exact ⟨by simp [hs], h1, fun h' => by simp [hr] at h'⟩
        · simp only [Conn.step, hr, Conn.dir, hs, Bool.false_eq_true, if_false, ne_eq, not_false_eq_true,
            or_true, if_true]
          exact hkeep
      | true =>
        by_cases hs : c.d1.status = .running
        · simp only [Conn.step, hr, Conn.dir, hs, Conn.setDir, Bool.false_eq_true, if_false,
            ne_eq, not_true, or_false, hn, if_true]
          exact ⟨h0, by simp [hs], fun h' => by simp [hr] at h'⟩
        · simp only [Conn.step, hr, Conn.dir, hs, Bool.false_eq_true, if_false, ne_eq, not_false_eq_true,
            or_true, if_true]
          exact hkeep

theorem FF.foldl (es : List Event) : ∀ c : Conn, FF c → faultFree es = true → FF (es.foldl Conn.step c) := by
  induction es with
  | nil => intro c h _; exact h
  | cons e rest ih =>
    intro c h hf
    simp only [faultFree, List.all_cons, Bool.and_eq_true] at hf
    exact ih _ (h.step e hf.1) hf.2

theorem FF.init : FF {} := ⟨by simp, by simp, by simp⟩

end Mutagen.Proofs.Forward
