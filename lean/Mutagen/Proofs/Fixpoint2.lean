import Mutagen.Proofs.Fixpoint1
/-!
Helper lemmas for the C04 fixpoint theorem, part 2: an endpoint reconciled
against its own synchronizable part plans nothing (`reconcile_alpha_is_sync_beta`,
`reconcile_beta_is_sync_alpha`); the scalar fields of a tree after `Apply`
(`ov`: the last matching change wins) and the sub-trees that `Apply` leaves
literally untouched or installs literally (`apply_getPath_keep`,
`apply_getPath_new`).
-/
namespace Mutagen.Model

/-! ## An endpoint against its own synchronizable part: nothing to do -/

theorem Plan.eq_empty {p : Plan} (h1 : p.anc = []) (h2 : p.alpha = []) (h3 : p.beta = []) (h4 : p.conflicts = []) :
    p = {} := by
  cases p; simp_all

theorem lookup_osync {e : Option Entry} (hv : Valid e) (hp : onoPhantom e = true) (n : Name) :
    lookup n (contents (osync e)) = osync (lookup n (contents e)) := by
  cases e with
  | none => rfl
  | some x =>
    cases x with
    | mk p cs =>
      have hnode := Entry.synchronizable_node hv.1 hv.2
      cases hs : p.kind.synchronizable with
      | false =>
        have hcs : cs = [] := by
          have hvm := Entry.ensureValid_mk (p := p) (s := false) hv.2
          have hph : p.kind ≠ .phantom := by
            have := isKind_phantom_of_noPhantom hp
            intro hk; simp [isKind, Entry.kind, Entry.props, hk] at this
          exact hvm.2.2 (by intro hk; rw [hk] at hs; simp [Kind.synchronizable] at hs) hph
        subst hcs
        simp [osync, hnode.1 hs, contents, Entry.children, lookup]
      | true =>
        obtain ⟨cs', h1, h2⟩ := hnode.2 hs
        simp only [osync, h1, contents, Entry.children, h2]
        cases lookup n cs <;> rfl

theorem osync_root_cases {e : Option Entry} (hv : Valid e) (hp : onoPhantom e = true)
    (hprob : isKind e .problematic = false) :
    (pget (osync e) [] = pget e [] ∧ isKind e .untracked = false) ∨
    (osync e = none ∧ (e.isNone || isKind e .untracked) = true) := by
  have hr := pget_osync_root hv
  cases e with
  | none => right; exact ⟨rfl, rfl⟩
  | some x =>
    cases x with
    | mk p cs =>
      have hk := kind_cases hv (by simpa [isKind, Entry.kind, Entry.props] using hprob)
        (by simpa [isKind, Entry.kind, Entry.props] using isKind_phantom_of_noPhantom hp)
      rcases hk with hk | hk
      · left
        simp only [Entry.kind, Entry.props, hk, ↓reduceIte] at hr
        refine ⟨by rw [hr]; simp [pget, getPath, Entry.props], ?_⟩
        have : p.kind ≠ .untracked := by intro h; rw [h] at hk; simp [Kind.synchronizable] at hk
        simp [isKind, Entry.kind, Entry.props, this]
      · right
        have hs : p.kind.synchronizable = false := by rw [hk]; rfl
        simp only [Entry.kind, Entry.props, hs, Bool.false_eq_true, ↓reduceIte] at hr
        exact ⟨pget_nil_eq_none_iff.mp hr, by simp [isKind, Entry.kind, Entry.props, hk]⟩

theorem SameTree.lookup {a b : Option Entry} (h : SameTree a b) (n : Name) :
    SameTree (lookup n (contents a)) (lookup n (contents b)) :=
  fun q => by have := h (n :: q); rwa [pget_cons, pget_cons] at this

theorem sameTree_none_left {a : Option Entry} (h : SameTree a none) : a = none :=
  pget_nil_eq_none_iff.mp (by simpa using h [])

/-- Alpha holds exactly the synchronizable part of beta (and the ancestor
agrees with it): nothing is planned, in every mode. -/
theorem reconcile_alpha_is_sync_beta (mode : Mode) (path : Path) (a x be : Option Entry) :
    x = osync be → SameTree a x → Valid be → onoPhantom be = true → reconcile mode path a x be = {} := by
  fun_induction reconcile mode path a x be with
  | case1 => intros; rfl
  | case2 => intros; rfl
  | case3 path ancestor alpha beta h1 h2 h3 h4 =>
    intro hx hs hv hp
    exfalso
    have hprob : isKind beta .problematic = false := Bool.eq_false_iff.mpr h2
    rcases osync_root_cases hv hp hprob with ⟨h5, h6⟩ | ⟨h5, _⟩
    · -- beta is tracked, hence so is alpha = osync beta: not both absent
      simp only [Bool.and_eq_true, Bool.or_eq_true, h6, Bool.false_eq_true, or_false] at h3
      have hb : beta = none := by simpa using h3.2
      subst hb
      simp at h4 h3
      have : alpha = none := by rw [hx]; rfl
      subst this
      have := sameTree_none_left hs
      subst this
      simp at h4
    · rw [h5] at hx
      subst hx
      have := sameTree_none_left hs
      subst this
      simp at h4
  | case4 => intros; rfl
  | case5 path ancestor alpha beta h1 h2 h3 h4 here anc' ih =>
    intro hx hs hv hp
    have hsh : shallowEq ancestor alpha = true := shallowEq_iff_pget.mpr (hs [])
    have hhere : here = {} := by simp [here, hsh]
    have hanc : anc' = ancestor := by simp [anc', ancestorForRecursion, hsh]
    rw [hhere]
    have : Plan.concat
        ((nameUnion [contents anc', contents alpha, contents beta]).attach.map fun n =>
          reconcile mode (path ++ [n.1]) (lookup n.1 (contents anc')) (lookup n.1 (contents alpha))
            (lookup n.1 (contents beta))) = {} := by
      apply Plan.concat_empty
      intro p hp'
      simp only [List.mem_map, List.mem_attach, true_and] at hp'
      obtain ⟨n, rfl⟩ := hp'
      have hl : lookup n.1 (contents anc') = lookup n.1 (contents ancestor) :=
        congrArg (fun x => lookup n.1 (contents x)) hanc
      refine ih n ((congrArg (fun y => lookup n.1 (contents y)) hx).trans (lookup_osync hv hp n.1)) ?_ (hv.lookup n.1) (onoPhantom_lookup hp n.1)
      rw [hl]
      exact hs.lookup n.1
    rw [this]
    rfl
  | case6 path ancestor alpha beta h1 h2 h3 h4 =>
    intro hx hs hv hp
    exfalso
    have hprob : isKind beta .problematic = false := Bool.eq_false_iff.mpr h2
    rcases osync_root_cases hv hp hprob with ⟨h5, _⟩ | ⟨h5, h6⟩
    · exact h4 (shallowEq_iff_pget.mpr (by rw [hx]; exact h5))
    · apply h3
      rw [hx, h5, h6]
      rfl

/-- Symmetric: beta holds exactly the synchronizable part of alpha. -/
theorem reconcile_beta_is_sync_alpha (mode : Mode) (path : Path) (a al x : Option Entry) :
    x = osync al → SameTree a x → Valid al → onoPhantom al = true → reconcile mode path a al x = {} := by
  fun_induction reconcile mode path a al x with
  | case1 => intros; rfl
  | case2 => intros; rfl
  | case3 path ancestor alpha beta h1 h2 h3 h4 =>
    intro hx hs hv hp
    exfalso
    have hprob : isKind alpha .problematic = false := Bool.eq_false_iff.mpr h1
    rcases osync_root_cases hv hp hprob with ⟨h5, h6⟩ | ⟨h5, _⟩
    · simp only [Bool.and_eq_true, Bool.or_eq_true, h6, Bool.false_eq_true, or_false] at h3
      have hb : alpha = none := by simpa using h3.1
      subst hb
      have : beta = none := by rw [hx]; rfl
      subst this
      have := sameTree_none_left hs
      subst this
      simp at h4
    · rw [h5] at hx
      subst hx
      have := sameTree_none_left hs
      subst this
      simp at h4
  | case4 => intros; rfl
  | case5 path ancestor alpha beta h1 h2 h3 h4 here anc' ih =>
    intro hx hs hv hp
    have hsh : shallowEq ancestor alpha = true := by
      rw [shallowEq_iff_pget, hs [], hx]
      exact (shallowEq_iff_pget.mp h4).symm ▸ (by rw [← hx])
    have hhere : here = {} := by simp [here, hsh]
    have hanc : anc' = ancestor := by simp [anc', ancestorForRecursion, hsh]
    rw [hhere]
    have : Plan.concat
        ((nameUnion [contents anc', contents alpha, contents beta]).attach.map fun n =>
          reconcile mode (path ++ [n.1]) (lookup n.1 (contents anc')) (lookup n.1 (contents alpha))
            (lookup n.1 (contents beta))) = {} := by
      apply Plan.concat_empty
      intro p hp'
      simp only [List.mem_map, List.mem_attach, true_and] at hp'
      obtain ⟨n, rfl⟩ := hp'
      have hl : lookup n.1 (contents anc') = lookup n.1 (contents ancestor) :=
        congrArg (fun x => lookup n.1 (contents x)) hanc
      refine ih n ((congrArg (fun y => lookup n.1 (contents y)) hx).trans (lookup_osync hv hp n.1)) ?_ (hv.lookup n.1) (onoPhantom_lookup hp n.1)
      rw [hl]
      exact hs.lookup n.1
    rw [this]
    rfl
  | case6 path ancestor alpha beta h1 h2 h3 h4 =>
    intro hx hs hv hp
    exfalso
    have hprob : isKind alpha .problematic = false := Bool.eq_false_iff.mpr h1
    rcases osync_root_cases hv hp hprob with ⟨h5, _⟩ | ⟨h5, h6⟩
    · exact h4 (shallowEq_iff_pget.mpr (by rw [hx]; exact h5.symm))
    · apply h3
      rw [hx, h5, h6]
      rfl


/-! ## Scalar fields after a list of changes: the last matching change wins -/

/-- The scalar fields found at `q` after applying `cs` to a tree that had `d` there. -/
def ov (cs : List Change) (q : Path) (d : Option Props) : Option Props :=
  cs.foldl (fun acc c => if c.path <+: q then pget c.new (q.drop c.path.length) else acc) d

@[simp] theorem ov_nil (q : Path) (d : Option Props) : ov [] q d = d := rfl

theorem ov_cons (c : Change) (cs : List Change) (q : Path) (d : Option Props) :
    ov (c :: cs) q d = ov cs q (if c.path <+: q then pget c.new (q.drop c.path.length) else d) := rfl

theorem ov_append (a b : List Change) (q : Path) (d : Option Props) : ov (a ++ b) q d = ov b q (ov a q d) := by
  simp [ov, List.foldl_append]

theorem ov_no_match {cs : List Change} {q : Path} (h : ∀ c ∈ cs, ¬ c.path <+: q) (d : Option Props) :
    ov cs q d = d := by
  induction cs generalizing d with
  | nil => rfl
  | cons c cs ih =>
    rw [ov_cons, if_neg (h c (by simp))]
    exact ih (fun x hx => h x (by simp [hx])) d

theorem apply_pget_ov {cs : List Change} : ∀ {r r' : Option Entry}, apply r cs = .ok r' →
    ∀ q, pget r' q = ov cs q (pget r q) := by
  induction cs with
  | nil => intro r r' h q; simp only [apply, Except.ok.injEq] at h; subst h; rfl
  | cons c cs ih =>
    intro r r' h q
    simp only [apply] at h
    cases h1 : applyChange r c with
    | error e => simp [h1] at h
    | ok r1 =>
      simp only [h1] at h
      rw [ih h q, ov_cons, applyChange_ok_spec h1 q]

theorem ov_flatMap_none {ns : List Name} {g : Name → List Change} {q : Path}
    (h : ∀ m ∈ ns, ∀ c ∈ g m, ¬ c.path <+: q) (d : Option Props) : ov (ns.flatMap g) q d = d :=
  ov_no_match (by
    intro c hc
    obtain ⟨m, hm, hcm⟩ := List.mem_flatMap.mp hc
    exact h m hm c hcm) d

theorem ov_flatMap_only {ns : List Name} {g : Name → List Change} {q : Path} {n : Name}
    (hnd : ns.Nodup) (hn : n ∈ ns) (h : ∀ m ∈ ns, m ≠ n → ∀ c ∈ g m, ¬ c.path <+: q) (d : Option Props) :
    ov (ns.flatMap g) q d = ov (g n) q d := by
  induction ns generalizing d with
  | nil => cases hn
  | cons m ns ih =>
    have hnd' := List.nodup_cons.mp hnd
    simp only [List.flatMap_cons, ov_append]
    rcases List.mem_cons.mp hn with rfl | hn'
    · exact ov_flatMap_none (fun k hk c hc => h k (by simp [hk]) (fun e => hnd'.1 (e ▸ hk)) c hc) _
    · have hmn : m ≠ n := fun e => hnd'.1 (e ▸ hn')
      rw [ov_no_match (h m (by simp) hmn) d]
      exact ih hnd'.2 hn' (fun k hk => h k (by simp [hk])) d

/-! ## Sub-trees after `Apply`, literally -/

theorem incomparable_cons_cons {n k : Name} {p q : Path} :
    incomparable (n :: p) (k :: q) ↔ n ≠ k ∨ incomparable p q := by
  unfold incomparable
  simp only [List.cons_prefix_cons]
  constructor
  · intro ⟨h1, h2⟩
    by_cases hnk : n = k
    · right; exact ⟨fun h => h1 ⟨hnk, h⟩, fun h => h2 ⟨hnk.symm, h⟩⟩
    · left; exact hnk
  · rintro (h | ⟨h1, h2⟩)
    · exact ⟨fun hh => h hh.1, fun hh => h hh.1.symm⟩
    · exact ⟨fun hh => h1 hh.2, fun hh => h2 hh.2⟩

theorem applyAt_getPath (new : Option Entry) (rest : List Name) :
    ∀ (e : Entry) (n : Name) (e' : Entry), e.applyAt new n rest = .ok e' →
      (∀ q, (n :: rest) <+: q → getPath (some e') q = getPath new (q.drop (rest.length + 1))) ∧
      (∀ q, incomparable (n :: rest) q → getPath (some e') q = getPath (some e) q) := by
  induction rest with
  | nil =>
    intro e n e' h
    cases e with
    | mk p cs =>
      have he' : e' = .mk p (setChild n new cs) := by
        cases new <;> simp [Entry.applyAt, setChild] at h ⊢ <;> exact h.symm
      subst he'
      constructor
      · intro q hq
        obtain ⟨t, rfl⟩ := hq
        simp [getPath, contents, Entry.children, lookup_setChild]
      · intro q hq
        cases q with
        | nil => exact absurd (List.nil_prefix) hq.2
        | cons k t =>
          have hk : n ≠ k := by
            rcases incomparable_cons_cons.mp hq with h | h
            · exact h
            · exact absurd List.nil_prefix h.1
          have : ¬ k = n := fun e => hk e.symm
          simp [getPath, contents, Entry.children, lookup_setChild, this]
  | cons m rest ih =>
    intro e n e' h
    cases e with
    | mk p cs =>
      simp only [Entry.applyAt] at h
      cases hl : lookup n cs with
      | none => simp [hl] at h
      | some c =>
        simp only [hl] at h
        cases hr : Entry.applyAt new c m rest with
        | error err => simp [hr] at h
        | ok c' =>
          simp only [hr, Except.ok.injEq] at h
          subst h
          obtain ⟨i1, i2⟩ := ih c m c' hr
          constructor
          · intro q hq
            obtain ⟨t, rfl⟩ := hq
            have := i1 (m :: rest ++ t) (List.prefix_append _ _)
            simpa [getPath, contents, Entry.children, lookup_upsert] using this
          · intro q hq
            cases q with
            | nil => exact absurd (List.nil_prefix) hq.2
            | cons k t =>
              rcases incomparable_cons_cons.mp hq with hk | hk
              · have : ¬ k = n := fun e => hk e.symm
                simp [getPath, contents, Entry.children, lookup_upsert, this]
              · by_cases hkn : k = n
                · subst hkn
                  have := i2 t hk
                  simpa [getPath, contents, Entry.children, lookup_upsert, hl] using this
                · simp [getPath, contents, Entry.children, lookup_upsert, hkn]

theorem applyChange_getPath {r r' : Option Entry} {c : Change} (h : applyChange r c = .ok r') :
    (∀ q, c.path <+: q → getPath r' q = getPath c.new (q.drop c.path.length)) ∧
    (∀ q, incomparable c.path q → getPath r' q = getPath r q) := by
  unfold applyChange at h
  cases hp : c.path with
  | nil =>
    simp only [hp, Except.ok.injEq] at h
    subst h
    exact ⟨fun q _ => by simp, fun q hq => absurd List.nil_prefix hq.1⟩
  | cons n rest =>
    simp only [hp] at h
    cases r with
    | none => simp at h
    | some e =>
      simp only at h
      cases ha : e.applyAt c.new n rest with
      | error err => simp [ha] at h
      | ok e' =>
        simp only [ha, Except.ok.injEq] at h
        subst h
        have := applyAt_getPath c.new rest e n e' ha
        exact ⟨fun q hq => by simpa using this.1 q hq, this.2⟩

theorem apply_getPath_keep {cs : List Change} : ∀ {r r' : Option Entry}, apply r cs = .ok r' →
    ∀ q, (∀ c ∈ cs, incomparable c.path q) → getPath r' q = getPath r q := by
  induction cs with
  | nil => intro r r' h q _; simp only [apply, Except.ok.injEq] at h; subst h; rfl
  | cons c cs ih =>
    intro r r' h q hq
    simp only [apply] at h
    cases h1 : applyChange r c with
    | error e => simp [h1] at h
    | ok r1 =>
      simp only [h1] at h
      rw [ih h q (fun x hx => hq x (by simp [hx])), (applyChange_getPath h1).2 q (hq c (by simp))]

theorem apply_getPath_new {cs : List Change} : ∀ {r r' : Option Entry}, apply r cs = .ok r' →
    List.Pairwise (fun a b : Change => incomparable a.path b.path) cs →
    ∀ c ∈ cs, getPath r' c.path = c.new := by
  induction cs with
  | nil => intro r r' _ _ c hc; cases hc
  | cons d cs ih =>
    intro r r' h hp c hc
    simp only [apply] at h
    cases h1 : applyChange r d with
    | error e => simp [h1] at h
    | ok r1 =>
      simp only [h1] at h
      rw [List.pairwise_cons] at hp
      rcases List.mem_cons.mp hc with rfl | hmem
      · rw [apply_getPath_keep h c.path (fun x hx => incomparable_symm (hp.1 x hx)),
          (applyChange_getPath h1).1 c.path (List.prefix_refl _)]
        simp [getPath]
      · exact ih h hp.2 c hmem

end Mutagen.Model
