import Mutagen.Proofs.ScanFS
/-!
Definitions and lemmas for C13 (accelerated scans).
-/
namespace Mutagen.Proofs.ScanAccel
open Mutagen.Model Mutagen.Model.ScanFS Mutagen.Proofs.ScanFS

/-- The acceleration arguments a caller builds from a previous result. -/
def prevOf (o : Out) (recheck : List String) : Prev :=
  { baseline := some o.snapshot, recheck := recheck, cache := o.cache, ignoreCache := o.ignoreCache }

/-- A cold scan of `f₀` followed by an accelerated scan of `f₁` that is told
the paths `recheck`. -/
def accelAfter (cfg : Cfg) (f₀ : Node) (recheck : List String) (f₁ : Node) : Except ScanErr Out :=
  match scanCold cfg (some f₀) with
  | .ok o => scan cfg (prevOf o recheck) (some f₁)
  | .error e => .error e

/-- The entry at a name chain. -/
def entryAt : Option Entry → List Name → Option Entry
  | e, [] => e
  | none, _ => none
  | some e, n :: r => entryAt (lookup n e.children) r

def contentOf (r : Except ScanErr Out) : Option Entry :=
  match r with | .ok o => o.snapshot.content | .error _ => none

def digestAt (r : Except ScanErr Out) (chain : List Name) : Option Bytes :=
  (entryAt (contentOf r) chain).map (·.props.digest)

def kindAt (r : Except ScanErr Out) (chain : List Name) : Option Kind :=
  (entryAt (contentOf r) chain).map (·.kind)

/-! ## Concrete trees for the necessity examples -/

def t0 : MTime := { sec := 100, nsec := 0 }

/-- `a` = 3 bytes, `b/` holding `a` = 1 byte. -/
def fsBefore : Node :=
  .dir 7 [([97], .file [1, 2, 3] 0o644 t0 3 10), ([98], .dir 7 [([97], .file [9] 0o644 t0 1 11)])]

/-- `a` rewritten in place with other bytes: same size, same mtime, same inode. -/
def fsStealth : Node :=
  .dir 7 [([97], .file [4, 5, 6] 0o644 t0 3 10), ([98], .dir 7 [([97], .file [9] 0o644 t0 1 11)])]

/-- `a` rewritten with a later modification time. -/
def fsTouched : Node :=
  .dir 7 [([97], .file [4, 5, 6] 0o644 { sec := 101, nsec := 0 } 3 10), ([98], .dir 7 [([97], .file [9] 0o644 t0 1 11)])]

/-- `b/a` replaced by a file of another size (new inode). -/
def fsDeep : Node :=
  .dir 7 [([97], .file [1, 2, 3] 0o644 t0 3 10), ([98], .dir 7 [([97], .file [8, 8] 0o644 t0 2 12)])]

/-- `fsTouched` with the root now on another device (8) while `b/` is still on device 7
(the root was replaced by a directory of another filesystem and the old `b/` is mounted
in it). -/
def fsMoved : Node :=
  .dir 8 [([97], .file [4, 5, 6] 0o644 { sec := 101, nsec := 0 } 3 10), ([98], .dir 7 [([97], .file [9] 0o644 t0 1 11)])]

end Mutagen.Proofs.ScanAccel
