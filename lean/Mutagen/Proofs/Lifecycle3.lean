import Mutagen.Proofs.Lifecycle2
/-!
Lifecycle model: completion of `pause` and `terminate`, terminated sessions.
-/
namespace Mutagen.Proofs.Lifecycle
open Mutagen.Model.Lifecycle

theorem Run.append {s s1 s2 : State} {a b : List Label} (r1 : Run s a s1) (r2 : Run s1 b s2) :
    Run s (a ++ b) s2 := by
  induction r2 with
  | nil => simpa using r1
  | snoc _ st ih => rw [← List.append_assoc]; exact Run.snoc ih st

theorem loop_none_of_not_running {s : State} (i : InvA s) (h : s.running = false) : s.loop = none := by
  cases hl : s.loop with
  | none => rfl
  | some l => have := i.loop_running (by simp [hl]); rw [h] at this; simp at this

set_option maxHeartbeats 16000000 in
set_option maxRecDepth 10000 in
/-- A `pause` call that has completed successfully was already so before the
step, or the step is the end of its critical section: the `Paused` flag is on
disk and the run loop has terminated. -/
theorem threadSteps_pause_done {s : State} {th : Thread} {lab : Label} {s' : State}
    (h : (lab, s') ∈ threadSteps s th) (hln : s.running = false → s.loop = none) :
    ∀ x ∈ s'.threads, x.op = .pause → x.ph = .finished .ok →
      x ∈ s.threads ∨ (s'.sess = some true ∧ s'.loop = none) := by
  unfold threadSteps at h
  split at h
  all_goals
    aesop (add norm simp [acquire, afterStop, finish, State.setThread, State.dropThread, State.startLoop,
      State.cancelLoop, newLoop, othersIdle])

/-- What the state looks like once `terminate`'s critical section is over. -/
def Gone (s : State) : Prop :=
  s.sess = none ∧ s.arch = none ∧ s.running = false ∧ s.loop = none ∧ s.crit = none ∧ s.disabled = true

set_option maxHeartbeats 16000000 in
set_option maxRecDepth 10000 in
/-- Steps of client calls keep a terminated session terminated while the
`terminate` call is in flight (a `create` or a manager restart only proceeds
when no other call is in flight). -/
theorem threadSteps_gone {s : State} {th : Thread} {lab : Label} {s' : State} (hth : th ∈ s.threads)
    (h : (lab, s') ∈ threadSteps s th) (g : Gone s) {x : Thread} (hx : x ∈ s.threads) (hxo : x.op = .terminate)
    (hxp : x.ph = .termDel ∨ x.ph = .finished .ok) :
    Gone s' ∧ (s.entry = false → s'.entry = false) := by
  unfold Gone at *
  obtain ⟨g1, g2, g3, g4, g5, g6⟩ := g
  unfold threadSteps at h
  split at h
  all_goals
    aesop (add norm simp [acquire, afterStop, finish, State.setThread, State.dropThread, State.startLoop,
      State.cancelLoop, newLoop, othersIdle])
      (add safe forward len1)

set_option maxHeartbeats 16000000 in
set_option maxRecDepth 10000 in
/-- A `terminate` call past its critical section was already so before the
step, or the step is the end of its critical section / its unregistration. -/
theorem threadSteps_terminate_done {s : State} {th : Thread} {lab : Label} {s' : State}
    (h : (lab, s') ∈ threadSteps s th) (hln : s.running = false → s.loop = none)
    (hT : th.op = .terminate → th.ph = .termDel → Gone s) :
    ∀ x ∈ s'.threads, x.op = .terminate →
      ((x.ph = .termDel → x ∈ s.threads ∨ Gone s') ∧
       (x.ph = .finished .ok → x ∈ s.threads ∨ (Gone s' ∧ s'.entry = false))) := by
  unfold Gone at *
  unfold threadSteps at h
  split at h
  all_goals
    aesop (add norm simp [acquire, afterStop, finish, State.setThread, State.dropThread, State.startLoop,
      State.cancelLoop, newLoop, othersIdle])

end Mutagen.Proofs.Lifecycle
