import Mutagen.Proofs.ScanReuse
import Mutagen.Proofs.ScanIgnKeys
/-!
C13: an accelerated scan of `f₁` that starts from the cold scan of `f₀` equals
the cold scan of `f₁`.  Definitions (the covering hypothesis) and the
simulation proof.
-/
namespace Mutagen.Proofs.ScanSim
open Mutagen.Model Mutagen.Model.ScanFS Mutagen.Proofs.ScanFrame Mutagen.Proofs.ScanPaths Mutagen.Proofs.ScanFS Mutagen.Proofs.ScanCold Mutagen.Proofs.ScanReuse Mutagen.Proofs.ScanIgnKeys

def isDirNode : Node → Bool
  | .dir _ _ => true
  | _ => false

mutual
/-- `Covers dirty p c₀ c₁`: below path `p`, where the old tree has `c₀` and the new
tree has `c₁`, the dirty paths cover every change:
* a file present in both with the same modification time, size and inode number
  has the same content ("every content change alters size, mtime, identity");
* a directory present in both whose path is **not** dirty is unchanged — or, on
  Linux, was an empty directory (the heuristic of scan.go:509-532 then rescans
  it anyway);
* recursively for the entries of directories present in both (matched by the
  name they are recorded under). -/
def Covers (cfg : Cfg) (dirty : List String) : String → Node → Node → Prop
  | p, c₀, .dir _ cs₁ =>
    match c₀ with
    | .dir _ cs₀ => CoversL cfg dirty (if cs₁.isEmpty then "" else joinable p) cs₀ cs₁
    | _ => True
  | _, c₀, .file content₁ _ mtime₁ size₁ ino₁ =>
    match c₀ with
    | .file content₀ _ mtime₀ size₀ ino₀ => mtime₀ = mtime₁ → size₀ = size₁ → ino₀ = ino₁ → content₀ = content₁
    | _ => True
  | _, _, .symlink _ => True
  | _, _, .other _ => True
def CoversL (cfg : Cfg) (dirty : List String) (pfx : String) (cs₀ : Children) : Children → Prop
  | [] => True
  | (raw₁, c₁) :: rest =>
    (∀ name, entryName cfg raw₁ = some name → ∀ raw₀ c₀, (raw₀, c₀) ∈ cs₀ → entryName cfg raw₀ = some name →
      Covers cfg dirty (pfx ++ name) c₀ c₁ ∧
      (isDirNode c₀ = true → isDirNode c₁ = true → (pfx ++ name) ∉ dirty →
        c₀ = c₁ ∨ (cfg.linux = true ∧ ∃ d, c₀ = .dir d []))) ∧
    CoversL cfg dirty pfx cs₀ rest
end

/-- With an ignore cache that agrees with the ignorer, the cached behaviour is the ignorer's. -/
theorem ignoreBehavior_ok (cfg : Cfg) (acc : Accel) (hign : IgnOK cfg acc.ignoreCache) (key : String × Bool) :
    ignoreBehavior cfg acc key = cfg.ignorer key.1 key.2 := by
  unfold ignoreBehavior
  cases h : alookup key acc.ignoreCache with
  | none => rfl
  | some v => exact ignOK_lookup cfg _ hign key v h

theorem preDispatch_acc (cfg : Cfg) (acc : Accel) (hign : IgnOK cfg acc.ignoreCache) (pfx : String) (mask : Bool)
    (raw : Bytes) (node : Node) : preDispatch cfg acc pfx mask raw node = preDispatch cfg {} pfx mask raw node := by
  unfold preDispatch
  simp only [ignoreBehavior_ok cfg acc hign, ignoreBehavior_ok cfg {} (fun kv hkv => by cases hkv)]

/-- What a `.go` decision records. -/
theorem preDispatch_go_facts (cfg : Cfg) (pfx : String) (mask : Bool) (raw : Bytes) (node : Node)
    (name decoded cp : String) (isDir : Bool) (ign : (String × Bool) × IgnoreVal) (cm : Bool)
    (h : preDispatch cfg {} pfx mask raw node = .go name decoded cp isDir ign cm) :
    isDir = isDirNode node ∧ ign = ((cp, isDir), cfg.ignorer cp isDir) ∧
    ignoreDecision (cfg.ignorer cp isDir) mask = .proceed cm := by
  unfold preDispatch at h
  by_cases ht : hasTemporaryPrefix raw = true
  · simp [ht] at h
  · simp only [ht] at h
    revert h
    cases cfg.utf8 raw with
    | none => simp
    | some d =>
      simp only [ignoreBehavior_ok cfg {} (fun kv hkv => by cases hkv)]
      cases node <;> simp [isDirNode] <;> (try split) <;> (try simp) <;> intros <;> subst_vars <;> simp_all

/-- What a `.put` decision records in the ignore cache. -/
theorem preDispatch_put_ign (cfg : Cfg) (pfx : String) (mask : Bool) (raw : Bytes) (node : Node)
    (name : Name) (e : Entry) (ign : Option ((String × Bool) × IgnoreVal))
    (h : preDispatch cfg {} pfx mask raw node = .put name e ign) : IgnOK cfg ign.toList := by
  unfold preDispatch at h
  by_cases ht : hasTemporaryPrefix raw = true
  · simp [ht] at h
  · simp only [ht] at h
    revert h
    cases cfg.utf8 raw with
    | none => simp; intro _ _ h; subst h; intro kv hkv; cases hkv
    | some d =>
      simp only [ignoreBehavior_ok cfg {} (fun kv hkv => by cases hkv)]
      cases node <;> simp <;> (try split) <;> (try simp) <;> intros <;> subst_vars <;>
        (intro kv hkv; simp at hkv; try (subst hkv; rfl))

/-- The handler of a directory does not look at the link argument. -/
theorem scanNode_dir_link (cfg : Cfg) (acc : Accel) (p : String) (isRoot : Bool) (b : Option Entry) (mask : Bool)
    (link link' : Fault × String) (dev : Nat) (cs : Children) (st : St) :
    scanNode cfg acc p isRoot b mask link (.dir dev cs) st = scanNode cfg acc p isRoot b mask link' (.dir dev cs) st := by
  unfold scanNode
  rfl

theorem scanSymlink_kind (cfg : Cfg) (p : String) (link : Fault × String) (b : Bool) (e : Entry) (d : St)
    (h : scanSymlink cfg p link b {} = (.entry e, d)) : e.kind = .problematic ∨ e.kind = .symlink := by
  unfold scanSymlink at h
  split at h
  · cases h
  · cases h; left; rfl
  · split at h
    · rename_i e' he
      cases h
      obtain ⟨msg, _, rfl⟩ := linkTarget_error _ _ _ _ _ he
      left; rfl
    · cases h; right; rfl

/-- Only a directory node scans to a tracked-directory entry (and then without mask). -/
theorem cold_directory_kind (cfg : Cfg) (p : String) (isRoot mask : Bool) (link : Fault × String) (n : Node) (e : Entry)
    (h : (cold cfg p isRoot mask link n).1 = .entry e) (hk : e.kind = .directory) :
    (∃ d cs, n = .dir d cs) ∧ mask = false := by
  cases n with
  | dir d cs =>
    refine ⟨⟨d, cs, rfl⟩, ?_⟩
    rcases cold_dir cfg p isRoot mask link d cs with ⟨_, h1⟩ | ⟨contents, dL, _, h2⟩
    · rcases h1 with h1 | h1 | ⟨msg, h1⟩
      · rw [h1] at h; cases h
      · rw [h1] at h; cases h
      · rw [h1] at h; cases h; simp [problematic, Entry.kind, Entry.props] at hk
    · rw [h2] at h
      cases h
      cases mask
      · rfl
      · simp [Entry.kind, Entry.props] at hk
  | file content perm mtime size ino =>
    exfalso
    rcases cold_file cfg p isRoot mask link content perm mtime size ino with ⟨_, h1⟩ | ⟨_, _, _, h2⟩
    · rcases h1 with h1 | ⟨msg, h1⟩
      · rw [h1] at h; cases h
      · rw [h1] at h; cases h; simp [problematic, Entry.kind, Entry.props] at hk
    · rw [h2] at h; cases h; simp [Entry.kind, Entry.props] at hk
  | symlink t =>
    exfalso
    simp only [cold] at h
    unfold scanNode at h
    revert h
    cases cfg.symlinkMode with
    | ignore => intro h; cases h; simp [untracked, Entry.kind, Entry.props] at hk
    | portable =>
      intro h
      rcases scanSymlink_kind cfg p link true e _ (Prod.ext h rfl) with h1 | h1 <;> rw [h1] at hk <;> cases hk
    | posixRaw =>
      intro h
      rcases scanSymlink_kind cfg p link false e _ (Prod.ext h rfl) with h1 | h1 <;> rw [h1] at hk <;> cases hk
  | other k =>
    exfalso
    simp only [cold] at h
    unfold scanNode at h
    cases h
    simp [untracked, Entry.kind, Entry.props] at hk

/-- What the digest cache may say about a path for the accelerated scan of a
file there to be right: nothing, or the entry a cold scan created for a file
(at that path in the old tree) which, if it has the same modification time,
size and inode number as the file now, has the same content. -/
def CacheFresh (cfg : Cfg) (acc : Accel) (p : String) (isRoot : Bool) (content : Bytes) (mtime : MTime) (size ino : Nat) : Prop :=
  alookup p acc.cache = none ∨
  ∃ content₀ perm₀ mtime₀ size₀ ino₀,
    alookup p acc.cache = some (freshEntry cfg content₀ perm₀ mtime₀ size₀ ino₀) ∧
    (isRoot = true ∨ cfg.openFileFault p = .none) ∧ content₀.length = size₀ ∧ mtime₀.valid = true ∧
    (mtime₀ = mtime → size₀ = size → ino₀ = ino → content₀ = content)

/-- With a fresh cache the accelerated handler of a file returns exactly what the cold one returns. -/
theorem sim_file (cfg : Cfg) (acc : Accel) (p : String) (isRoot : Bool) (content : Bytes) (perm : Nat) (mtime : MTime)
    (size ino : Nat) (h : CacheFresh cfg acc p isRoot content mtime size ino) (st : St) :
    scanFile cfg acc p isRoot content perm mtime size ino st = scanFile cfg {} p isRoot content perm mtime size ino st := by
  rcases h with h | ⟨content₀, perm₀, mtime₀, size₀, ino₀, hc, hopen, hlen, hvalid, hsame⟩
  · unfold scanFile
    simp only [h, alookup]
  · unfold scanFile
    simp only [hc, alookup]
    by_cases hm : cacheContentMatch (some (freshEntry cfg content₀ perm₀ mtime₀ size₀ ino₀)) (modeTypeFile + perm) mtime size ino = true
    · -- the cached digest is used
      have hm' := hm
      simp only [cacheContentMatch, freshEntry, Bool.and_eq_true, beq_iff_eq] at hm'
      obtain ⟨⟨⟨_, hmt⟩, hsz⟩, hino⟩ := hm'
      have hcontent : content₀ = content := hsame hmt.symm hsz.symm hino.symm
      subst hcontent
      subst hmt
      subst hsz
      subst hino
      have hd : fileDigest cfg p isRoot content₀ size (some (freshEntry cfg content₀ perm₀ mtime size ino)) true
          = .ok (cfg.hash content₀) := by simp [fileDigest, freshEntry]
      have hd0 : fileDigest cfg p isRoot content₀ size none (cacheContentMatch none (modeTypeFile + perm) mtime size ino)
          = .ok (cfg.hash content₀) := by
        simp only [fileDigest]
        rcases hopen with ho | ho <;> simp [ho, hlen]
      rw [hm, hd, hd0]
      simp only
      by_cases hr : cacheEntryReusable (some (freshEntry cfg content₀ perm₀ mtime size ino)) (modeTypeFile + perm) mtime size ino = true
      · have hr' := hr
        simp only [cacheEntryReusable, freshEntry, Bool.and_eq_true, beq_iff_eq] at hr'
        have hmode : modeTypeFile + perm = modeTypeFile + perm₀ := hr'.2
        rw [hr]
        simp [fileCacheEntry, hvalid, freshEntry, hmode]
      · have hr' : cacheEntryReusable (some (freshEntry cfg content₀ perm₀ mtime size ino)) (modeTypeFile + perm) mtime size ino = false := by
          simpa using hr
        rw [hr']
        simp [fileCacheEntry, hvalid]
    · have hm' : cacheContentMatch (some (freshEntry cfg content₀ perm₀ mtime₀ size₀ ino₀)) (modeTypeFile + perm) mtime size ino = false := by
        simpa using hm
      have hr : cacheEntryReusable (some (freshEntry cfg content₀ perm₀ mtime₀ size₀ ino₀)) (modeTypeFile + perm) mtime size ino = false := by
        simp [cacheEntryReusable, hm']
      rw [hm', hr]
      simp [fileDigest, fileCacheEntry]

/-- `k` lies at or below a directory path that is not dirty (the only place where
the accelerated scan may lack a key of the cold scan). -/
def DroppedBelow (acc : Accel) (E₀ : Entry) (k : String × Bool) : Prop :=
  ∃ cp B, cp ≠ "" ∧ cp ∉ acc.dirty ∧ BaseAt E₀ cp B ∧ Under k.1 cp ∧
    ¬ (TrackedKey cp B k ∧ k ∈ ikeys acc.ignoreCache)

/-- The additions `a` (accelerated) and `c` (cold) agree. -/
def SimSt (cfg : Cfg) (acc : Accel) (E₀ : Entry) (a c : St) : Prop :=
  a.newCache = c.newCache ∧ a.dirs = c.dirs ∧ a.files = c.files ∧ a.links = c.links ∧ a.size = c.size ∧ IgnOK cfg a.newIgnore ∧
    (∀ k, k ∈ ikeys a.newIgnore → k ∈ ikeys c.newIgnore) ∧
    (∀ k, k ∈ ikeys c.newIgnore → k ∈ ikeys a.newIgnore ∨ DroppedBelow acc E₀ k)

/-- Handler results agree. -/
def SimRes (cfg : Cfg) (acc : Accel) (E₀ : Entry) (ra rc : Res × St) : Prop := ra.1 = rc.1 ∧ SimSt cfg acc E₀ ra.2 rc.2

/-- Loop results agree. -/
def SimL (cfg : Cfg) (acc : Accel) (E₀ : Entry) (ra rc : Option (Contents × St)) : Prop :=
  match ra, rc with
  | none, none => True
  | some x, some y => x.1 = y.1 ∧ SimSt cfg acc E₀ x.2 y.2
  | _, _ => False

theorem simSt_refl (cfg : Cfg) (acc : Accel) (E₀ : Entry) (d : St) (h : IgnOK cfg d.newIgnore) : SimSt cfg acc E₀ d d := ⟨rfl, rfl, rfl, rfl, rfl, h, fun _ hk => hk, fun _ hk => Or.inl hk⟩

theorem simSt_add (cfg : Cfg) (acc : Accel) (E₀ : Entry) (a c a' c' : St) (h : SimSt cfg acc E₀ a c) (h' : SimSt cfg acc E₀ a' c') : SimSt cfg acc E₀ (add a a') (add c c') := by
  obtain ⟨h1, h2, h3, h4, h5, h6, h7, h8⟩ := h
  obtain ⟨g1, g2, g3, g4, g5, g6, g7, g8⟩ := h'
  refine ⟨by simp [add, h1, g1], by simp [add, h2, g2], by simp [add, h3, g3], by simp [add, h4, g4], by simp [add, h5, g5], ?_, ?_, ?_⟩
  · simp only [add]
    exact ignOK_append cfg _ _ g6 h6
  · intro k hk
    rw [ikeys_add] at hk ⊢
    rcases hk with hk | hk
    · exact Or.inl (g7 k hk)
    · exact Or.inr (h7 k hk)
  · intro k hk
    rw [ikeys_add] at hk
    rcases hk with hk | hk
    · rcases g8 k hk with h | h
      · left; rw [ikeys_add]; exact Or.inl h
      · exact Or.inr h
    · rcases h8 k hk with h | h
      · left; rw [ikeys_add]; exact Or.inr h
      · exact Or.inr h

theorem simL_andThen (cfg : Cfg) (acc : Accel) (E₀ : Entry) (da dc : St) (ra rc : Option (Contents × St)) (hd : SimSt cfg acc E₀ da dc) (h : SimL cfg acc E₀ ra rc) :
    SimL cfg acc E₀ (andThen da ra) (andThen dc rc) := by
  cases ra with
  | none => cases rc with
    | none => trivial
    | some y => cases h
  | some x => cases rc with
    | none => cases h
    | some y =>
      simp only [andThen, Option.map, SimL] at h ⊢
      exact ⟨h.1, simSt_add cfg acc E₀ _ _ _ _ hd h.2⟩

theorem simSt_ign (cfg : Cfg) (ign : (String × Bool) × IgnoreVal) (h : ign.2 = cfg.ignorer ign.1.1 ign.1.2) :
    IgnOK cfg (ignSt [ign]).newIgnore := by
  intro kv hkv
  simp [ignSt] at hkv
  subst hkv
  exact h

theorem reuseDecision_some (cfg : Cfg) (acc : Accel) (cp : String) (db : Option Entry) (b : Entry)
    (h : reuseDecision cfg acc cp db = some b) :
    db = some b ∧ acc.dirty.contains cp = false ∧ (cfg.linux && b.children.isEmpty) = false := by
  unfold reuseDecision at h
  cases db with
  | none => cases h
  | some b' =>
    simp only at h
    split at h
    · cases h
    · rename_i hd
      cases h
      simp only [Bool.or_eq_true, not_or, Bool.not_eq_true] at hd
      exact ⟨rfl, hd.1, hd.2⟩

theorem namesOKL_mem (cfg : Cfg) (P : Name → Bool) : ∀ (cs : Children), NamesOKL cfg P cs → ∀ rn ∈ cs, NamesOK cfg P rn.2
  | [], _, rn, h => by cases h
  | (raw, n) :: rest, hok, rn, h => by
    simp only [NamesOKL] at hok
    rcases List.mem_cons.mp h with rfl | h
    · exact hok.2.1
    · exact namesOKL_mem cfg P rest hok.2.2 rn h

/-- Links and special files add nothing to the digest cache. -/
theorem cold_leaf_cache (cfg : Cfg) (p : String) (isRoot mask : Bool) (link : Fault × String) (n : Node)
    (h : isDirNode n = false) (hf : ∀ c pm mt sz i, n ≠ .file c pm mt sz i) :
    (cold cfg p isRoot mask link n).2.newCache = [] := by
  cases n with
  | dir d cs => simp [isDirNode] at h
  | file c pm mt sz i => exact absurd rfl (hf c pm mt sz i)
  | other k => simp only [cold]; unfold scanNode; rfl
  | symlink t =>
    simp only [cold]
    unfold scanNode
    cases cfg.symlinkMode <;> simp [scanSymlink] <;> (repeat' split) <;> rfl

/-- A directory caches nothing under its own path. -/
theorem cold_dir_no_self_key (cfg : Cfg) (p : String) (isRoot mask : Bool) (link : Fault × String) (dev : Nat) (cs : Children)
    (hok : NamesOK cfg validName (.dir dev cs)) : alookup p (cold cfg p isRoot mask link (.dir dev cs)).2.newCache = none := by
  apply alookup_none_of_keys
  intro x hx
  obtain ⟨cs', d, hs, hxd⟩ := cold_dir_cache cfg p isRoot mask link dev cs x hx
  simp only [NamesOK] at hok
  have hnames : ∀ s ∈ entryNames cfg cs, pathName s :=
    fun s hs' => validName_pathName s (namesOKL_names cfg validName cs hok.2 s hs')
  obtain ⟨name, hmem, hu⟩ := coldL_keys cfg _ cs mask cs [] cs' d hs hnames x hxd
  have hne : cs.isEmpty = false := by
    cases cs with
    | nil => simp [entryNames] at hmem
    | cons _ _ => rfl
  by_cases hp : p = ""
  · subst hp
    simp only [hne, joinable] at hu
    obtain ⟨s, hq, _⟩ := hu
    intro he
    rw [he] at hq
    have := congrArg String.toList hq
    simp [String.toList_append] at this
    exact (hnames name hmem).2 this.1
  · simp only [hne, joinable, hp] at hu
    exact under_join_ne x.1 p name (by simpa [String.append_assoc] using hu)

/-- `q` is at or below `p`; everything is below the root. -/
def UnderP (q p : String) : Prop := p = "" ∨ Under q p

/-- What is known about the old tree at the path `p` where the new tree has a
node (a directory iff `newIsDir`): the digest cache handed in agrees, at and
below `p`, with what the cold scan of the old node `c₀` (if any) cached there. -/
def OldAt (cfg : Cfg) (acc : Accel) (p : String) (isRoot mask newIsDir : Bool) (c₀ : Option Node) (mask₀ : Bool)
    (link₀ : Fault × String) : Prop :=
  (∀ q, UnderP q p → alookup q acc.cache =
    alookup q (match c₀ with | some c => (cold cfg p isRoot mask₀ link₀ c).2.newCache | none => [])) ∧
  (∀ c, c₀ = some c → NamesOK cfg validName c) ∧
  (∀ c, c₀ = some c → isDirNode c = true → newIsDir = true → mask₀ = mask)

/-- The baseline handed to the handler is nothing, or the tracked-directory entry
the cold scan of the old node produced. -/
def BaseOf (cfg : Cfg) (p : String) (isRoot : Bool) (c₀ : Option Node) (mask₀ : Bool) (link₀ : Fault × String)
    (b : Option Entry) : Prop :=
  b = none ∨ ∃ c e, c₀ = some c ∧ (cold cfg p isRoot mask₀ link₀ c).1 = .entry e ∧ e.kind = .directory ∧ b = some e

/-- The simulation statement for one node of the new tree. -/
def SimOK (cfg : Cfg) (acc : Accel) (E₀ : Entry) (n₁ : Node) : Prop :=
  ∀ (p : String) (isRoot mask : Bool) (link : Fault × String) (b : Option Entry) (c₀ : Option Node) (mask₀ : Bool)
    (link₀ : Fault × String),
    NamesOK cfg validName n₁ → OldAt cfg acc p isRoot mask (isDirNode n₁) c₀ mask₀ link₀ → BaseOf cfg p isRoot c₀ mask₀ link₀ b →
    (∀ bb, b = some bb → BaseAt E₀ p bb) →
    (∀ c, c₀ = some c → Covers cfg acc.dirty p c n₁) →
    SimRes cfg acc E₀ (scanNode cfg acc p isRoot b mask link n₁ {}) (cold cfg p isRoot mask link n₁)

theorem childBaseline_some (b : Option Entry) (isDir : Bool) (name : Name) (e : Entry)
    (h : childBaseline b isDir name = some e) :
    isDir = true ∧ ∃ bb, b = some bb ∧ lookup name bb.children = some e ∧ e.kind = .directory := by
  unfold childBaseline at h
  cases isDir with
  | false => simp at h
  | true =>
    simp only [if_true] at h
    cases b with
    | none => cases h
    | some bb =>
      simp only at h
      cases hl : lookup name bb.children with
      | none => rw [hl] at h; cases h
      | some c =>
        rw [hl] at h
        simp only at h
        split at h
        · rename_i hk
          cases h
          exact ⟨rfl, bb, rfl, hl, by simpa using hk⟩
        · cases h

theorem childBaseline_of_none (isDir : Bool) (name : Name) : childBaseline none isDir name = none :=
  childBaseline_none isDir name

theorem ignoreDecision_inj (v : IgnoreVal) (mask cm cm' : Bool) (h : ignoreDecision v mask = .proceed cm)
    (h' : ignoreDecision v mask = .proceed cm') : cm = cm' := by
  rw [h] at h'
  cases h'
  rfl

theorem simL_refl_none (cfg : Cfg) (acc : Accel) (E₀ : Entry) : SimL cfg acc E₀ none none := trivial

theorem mem_entryNames (cfg : Cfg) (cs : Children) (raw : Bytes) (node : Node) (name : Name)
    (hm : (raw, node) ∈ cs) (hn : entryName cfg raw = some name) : name ∈ entryNames cfg cs := by
  simp only [entryNames, List.mem_filterMap]
  exact ⟨(raw, node), hm, hn⟩

/-- What the loop step needs to know about the old tree below the child path. -/
def OldChild (cfg : Cfg) (acc : Accel) (cp : String) (cm : Bool) (c₁ : Node) (db : Option Entry) : Prop :=
  ∃ (c₀ : Option Node) (mask₀ : Bool) (link₀ : Fault × String),
    OldAt cfg acc cp false cm (isDirNode c₁) c₀ mask₀ link₀ ∧ BaseOf cfg cp false c₀ mask₀ link₀ db ∧
    (∀ c, c₀ = some c → NamesOK cfg validName c) ∧
    (∀ c, c₀ = some c → Covers cfg acc.dirty cp c c₁ ∧
      (isDirNode c = true → isDirNode c₁ = true → cp ∉ acc.dirty → c = c₁ ∨ (cfg.linux = true ∧ ∃ d, c = .dir d [])))

section
variable (cfg : Cfg) (acc : Accel) (hign : IgnOK cfg acc.ignoreCache) (pfx : String) (mask : Bool)
variable (cs₀ : Children) (contents₀ : Contents) (dL₀ : St)
variable (hrun₀ : scanChildren cfg {} pfx cs₀ cs₀ none mask [] {} = some (contents₀, dL₀))
variable (hnd₀ : (entryNames cfg cs₀).Nodup) (hok₀ : NamesOKL cfg validName cs₀)
variable (hloc : ∀ name q, pathName name → Under q (pfx ++ name) → alookup q acc.cache = alookup q dL₀.newCache)
include hign hrun₀ hnd₀ hok₀ hloc

set_option linter.unusedSectionVars false

/-- The old child that reaches the handler stage under `name`, seen from the new child. -/
theorem oldChild_of_go (b : Option Entry) (hb : b = none ∨ ∃ pr, b = some (.mk pr contents₀))
    (raw₁ : Bytes) (c₁ : Node) (name decoded cp : String) (isDir : Bool) (ign : (String × Bool) × IgnoreVal) (cm : Bool)
    (hpre : preDispatch cfg {} pfx mask raw₁ c₁ = .go name decoded cp isDir ign cm)
    (hvn : validName name = true)
    (hcov : ∀ raw₀ c₀, (raw₀, c₀) ∈ cs₀ → entryName cfg raw₀ = some name →
      Covers cfg acc.dirty (pfx ++ name) c₀ c₁ ∧
      (isDirNode c₀ = true → isDirNode c₁ = true → (pfx ++ name) ∉ acc.dirty → c₀ = c₁ ∨ (cfg.linux = true ∧ ∃ d, c₀ = .dir d []))) :
    OldChild cfg acc cp cm c₁ (childBaseline b isDir name) := by
  have hcp := preDispatch_go_link _ _ _ _ _ _ _ _ _ _ _ _ hpre
  obtain ⟨hisDir, _, hdec⟩ := preDispatch_go_facts cfg pfx mask raw₁ c₁ name decoded cp isDir ign cm hpre
  have hpn := validName_pathName name hvn
  have hcpne : cp ≠ "" := by rw [hcp]; exact goodPfx_ne pfx name hpn.2
  have hnames₀ : ∀ s ∈ entryNames cfg cs₀, pathName s :=
    fun s hs => validName_pathName s (namesOKL_names cfg validName cs₀ hok₀ s hs)
  -- an old child going as `name`
  have withOld : ∀ raw₀ c₀x decoded₀ cp₀ isDir₀ ign₀ cm₀, (raw₀, c₀x) ∈ cs₀ →
      preDispatch cfg {} pfx mask raw₀ c₀x = .go name decoded₀ cp₀ isDir₀ ign₀ cm₀ →
      (childBaseline b isDir name = none ∨
        ∃ e, (cold cfg cp₀ false cm₀ (linkFor cs₀ decoded₀ name c₀x) c₀x).1 = .entry e ∧ e.kind = .directory ∧
          childBaseline b isDir name = some e) →
      OldChild cfg acc cp cm c₁ (childBaseline b isDir name) := by
    intro raw₀ c₀x decoded₀ cp₀ isDir₀ ign₀ cm₀ hm₀ hpre₀ hbase
    have hcp₀ := preDispatch_go_link _ _ _ _ _ _ _ _ _ _ _ _ hpre₀
    have hcpeq : cp₀ = cp := by rw [hcp₀, hcp]
    subst hcpeq
    obtain ⟨hisDir₀, _, hdec₀⟩ := preDispatch_go_facts cfg pfx mask raw₀ c₀x name decoded₀ cp₀ isDir₀ ign₀ cm₀ hpre₀
    have hn₀ := preDispatch_go _ _ _ _ _ _ _ _ _ _ _ _ hpre₀
    refine ⟨some c₀x, cm₀, linkFor cs₀ decoded₀ name c₀x, ⟨?_, ?_, ?_⟩, ?_, ?_, ?_⟩
    · intro q hq
      have hq' : Under q cp₀ := by
        rcases hq with h | h
        · exact absurd h hcpne
        · exact h
      rw [hloc name q hpn (by rw [← hcp]; exact hq')]
      exact coldL_locEq cfg pfx cs₀ mask cs₀ [] contents₀ dL₀ hrun₀ hnd₀ hnames₀ raw₀ c₀x name decoded₀ cp₀ isDir₀ ign₀ cm₀ hm₀ hpre₀ q hq'
    · intro c hc; cases hc; exact namesOKL_mem cfg validName cs₀ hok₀ (raw₀, c₀x) hm₀
    · intro c hc hd₀ hd₁
      cases hc
      have e0 : isDir₀ = true := by rw [hisDir₀, hd₀]
      have e1 : isDir = true := by rw [hisDir, hd₁]
      rw [e0] at hdec₀
      rw [e1] at hdec
      exact ignoreDecision_inj _ _ _ _ hdec₀ hdec
    · rcases hbase with h | ⟨e, he, hk, h⟩
      · exact Or.inl h
      · exact Or.inr ⟨c₀x, e, rfl, he, hk, h⟩
    · intro c hc; cases hc; exact namesOKL_mem cfg validName cs₀ hok₀ (raw₀, c₀x) hm₀
    · intro c hc
      cases hc
      have := hcov raw₀ c₀x hm₀ hn₀
      rw [← hcp] at this
      exact this
  cases hdb : childBaseline b isDir name with
  | some e' =>
    -- the baseline names the old child
    obtain ⟨_, bb, hbb, hl, hk⟩ := childBaseline_some b isDir name e' hdb
    rcases hb with hb | ⟨pr, hb⟩
    · rw [hb] at hbb; cases hbb
    · rw [hb] at hbb
      cases hbb
      simp only [Entry.children] at hl
      rcases coldL_lookup cfg pfx cs₀ mask cs₀ [] contents₀ dL₀ hrun₀ name e' hl with h | ⟨raw₀, c₀x, ign₀, _, hput⟩ |
        ⟨raw₀, c₀x, decoded₀, cp₀, isDir₀, ign₀, cm₀, hm₀, hpre₀, he₀⟩
      · simp [lookup] at h
      · exfalso
        obtain ⟨_, he⟩ := preDispatch_put _ _ _ _ _ _ _ _ _ hput
        rcases he with rfl | rfl <;> simp [untracked, problematic, Entry.kind, Entry.props] at hk
      · have := withOld raw₀ c₀x decoded₀ cp₀ isDir₀ ign₀ cm₀ hm₀ hpre₀ (Or.inr ⟨e', he₀, hk, hdb⟩)
        rw [hdb] at this
        exact this
  | none =>
    by_cases hex : ∃ raw₀ c₀x decoded₀ cp₀ isDir₀ ign₀ cm₀, (raw₀, c₀x) ∈ cs₀ ∧
        preDispatch cfg {} pfx mask raw₀ c₀x = .go name decoded₀ cp₀ isDir₀ ign₀ cm₀
    · obtain ⟨raw₀, c₀x, decoded₀, cp₀, isDir₀, ign₀, cm₀, hm₀, hpre₀⟩ := hex
      have := withOld raw₀ c₀x decoded₀ cp₀ isDir₀ ign₀ cm₀ hm₀ hpre₀ (Or.inl hdb)
      rw [hdb] at this
      exact this
    · refine ⟨none, false, (.none, ""), ⟨?_, ?_, ?_⟩, Or.inl rfl, ?_, ?_⟩
      · intro q hq
        have hq' : Under q cp := by
          rcases hq with h | h
          · exact absurd h hcpne
          · exact h
        rw [hloc name q hpn (by rw [← hcp]; exact hq')]
        simp only [alookup]
        apply coldL_locNone cfg pfx cs₀ mask cs₀ [] contents₀ dL₀ hrun₀ hnames₀ name hpn
        · intro raw₀ node₀ decoded₀ cp₀ isDir₀ ign₀ cm₀ hm₀ hp₀
          exact hex ⟨raw₀, node₀, decoded₀, cp₀, isDir₀, ign₀, cm₀, hm₀, hp₀⟩
        · rw [← hcp]; exact hq'
      · intro c hc; cases hc
      · intro c hc; cases hc
      · intro c hc; cases hc
      · intro c hc; cases hc
end

theorem cold_empty_dir (cfg : Cfg) (p : String) (isRoot mask : Bool) (link : Fault × String) (d : Nat) (e : Entry)
    (h : (cold cfg p isRoot mask link (.dir d [])).1 = .entry e) (hk : e.kind = .directory) : e.children = [] := by
  rcases cold_dir cfg p isRoot mask link d [] with ⟨_, h1⟩ | ⟨contents, dL, hs, h2⟩
  · rcases h1 with h1 | h1 | ⟨msg, h1⟩
    · rw [h1] at h; cases h
    · rw [h1] at h; cases h
    · rw [h1] at h; cases h; simp [problematic, Entry.kind, Entry.props] at hk
  · simp [scanChildren] at hs
    rw [h2] at h
    cases h
    simp [Entry.children, hs.1]

section
variable (cfg : Cfg) (acc : Accel) (E₀ : Entry) (hign : IgnOK cfg acc.ignoreCache) (pfx : String) (mask : Bool) (all₁ : Children)
variable (cs₀ : Children) (contents₀ : Contents) (dL₀ : St)
variable (hrun₀ : scanChildren cfg {} pfx cs₀ cs₀ none mask [] {} = some (contents₀, dL₀))
variable (hnd₀ : (entryNames cfg cs₀).Nodup) (hok₀ : NamesOKL cfg validName cs₀)
variable (hloc : ∀ name q, pathName name → Under q (pfx ++ name) → alookup q acc.cache = alookup q dL₀.newCache)
variable (b : Option Entry) (hb : b = none ∨ ∃ pr, b = some (.mk pr contents₀))
variable (hat : ∀ bb, b = some bb → ∃ p, pfx = joinable p ∧ BaseAt E₀ p bb)
include hign hrun₀ hnd₀ hok₀ hloc hb hat

set_option linter.unusedSectionVars false

/-- The children loop of the accelerated scan simulates the cold one. -/
theorem sim_loop : ∀ (cs₁ : Children) (contents : Contents),
    (∀ rn ∈ cs₁, SimOK cfg acc E₀ rn.2) → NamesOKL cfg validName cs₁ → CoversL cfg acc.dirty pfx cs₀ cs₁ →
    SimL cfg acc E₀ (scanChildren cfg acc pfx all₁ cs₁ b mask contents {}) (scanChildren cfg {} pfx all₁ cs₁ none mask contents {}) := by
  intro cs₁
  induction cs₁ with
  | nil =>
    intro contents _ _ _
    simp only [scanChildren, SimL]
    exact ⟨trivial, simSt_refl cfg acc E₀ {} (fun kv hkv => by cases hkv)⟩
  | cons c rest ih =>
    obtain ⟨raw₁, c₁⟩ := c
    intro contents hR hok hcov
    simp only [NamesOKL] at hok
    obtain ⟨hname₁, hnode₁, hrest⟩ := hok
    simp only [CoversL] at hcov
    obtain ⟨hcov₁, hcovrest⟩ := hcov
    have hR' : ∀ rn ∈ rest, SimOK cfg acc E₀ rn.2 := fun rn hrn => hR rn (List.mem_cons_of_mem _ hrn)
    rw [scanChildren_cons, scanChildren_cons, preDispatch_acc cfg acc hign]
    cases hpre : preDispatch cfg {} pfx mask raw₁ c₁ with
    | skip => exact ih contents hR' hrest hcovrest
    | put name e ign =>
      simp only
      exact simL_andThen cfg acc E₀ _ _ _ _ (simSt_refl cfg acc E₀ _ (preDispatch_put_ign cfg pfx mask raw₁ c₁ name e ign hpre))
        (ih _ hR' hrest hcovrest)
    | go name decoded cp isDir ign cm =>
      simp only [childBaseline_none, reuseDecision_none]
      have hn := preDispatch_go _ _ _ _ _ _ _ _ _ _ _ _ hpre
      have hvn : validName name = true := hname₁ name hn
      have hcp := preDispatch_go_link _ _ _ _ _ _ _ _ _ _ _ _ hpre
      obtain ⟨hisDir, hignv, hdec⟩ := preDispatch_go_facts cfg pfx mask raw₁ c₁ name decoded cp isDir ign cm hpre
      have hcpne : cp ≠ "" := by rw [hcp]; exact goodPfx_ne pfx name (validName_pathName name hvn).2
      have hignOK : SimSt cfg acc E₀ (ignSt [ign]) (ignSt [ign]) :=
        simSt_refl cfg acc E₀ _ (simSt_ign cfg ign (by rw [hignv]))
      obtain ⟨c₀, mask₀, link₀, hold, hbase, hnames₀c, hcovc⟩ :=
        oldChild_of_go cfg acc hign pfx mask cs₀ contents₀ dL₀ hrun₀ hnd₀ hok₀ hloc b hb raw₁ c₁ name decoded cp isDir ign cm hpre hvn
          (hcov₁ name hn)
      have hatc : ∀ bb, childBaseline b isDir name = some bb → BaseAt E₀ cp bb := by
        intro bb hbb
        obtain ⟨_, b', hb', hl, _⟩ := childBaseline_some b isDir name bb hbb
        obtain ⟨p', hp', hat'⟩ := hat b' hb'
        rw [hcp, hp']
        exact BaseAt.child p' b' name bb hat' hl
      cases hrd : reuseDecision cfg acc cp (childBaseline b isDir name) with
      | none =>
        simp only
        have hsim := hR (raw₁, c₁) List.mem_cons_self cp false cm (linkFor all₁ decoded name c₁) (childBaseline b isDir name)
          c₀ mask₀ link₀ hnode₁ hold hbase hatc (fun c hc => (hcovc c hc).1)
        simp only [cold] at hsim
        cases hra : scanNode cfg acc cp false (childBaseline b isDir name) cm (linkFor all₁ decoded name c₁) c₁ {} with
        | mk ra da =>
        cases hrc : scanNode cfg {} cp false none cm (linkFor all₁ decoded name c₁) c₁ {} with
        | mk rc dc =>
        rw [hra, hrc] at hsim
        obtain ⟨hr, hst⟩ := hsim
        simp only at hr
        subst hr
        cases ra with
        | abort => exact simL_refl_none cfg acc E₀
        | notExist =>
          simp only
          exact simL_andThen cfg acc E₀ _ _ _ _ (simSt_add cfg acc E₀ _ _ _ _ hignOK hst) (ih _ hR' hrest hcovrest)
        | entry e =>
          simp only
          exact simL_andThen cfg acc E₀ _ _ _ _ (simSt_add cfg acc E₀ _ _ _ _ hignOK hst) (ih _ hR' hrest hcovrest)
      | some B =>
        simp only
        obtain ⟨hdb, hnotdirty, hheur⟩ := reuseDecision_some cfg acc cp _ B hrd
        -- the baseline entry is the old child's cold entry
        rcases hbase with hbn | ⟨c₀x, e', hc₀, he', hk', hdb'⟩
        · rw [hdb] at hbn; cases hbn
        · rw [hdb] at hdb'
          cases hdb'
          subst hc₀
          obtain ⟨⟨d₀, cs₀x, hc₀x⟩, hm₀⟩ := cold_directory_kind cfg cp false mask₀ link₀ c₀x B he' hk'
          have hisDirTrue : isDir = true := (childBaseline_some b isDir name B hdb).1
          have hc₁dir : isDirNode c₁ = true := by rw [← hisDir]; exact hisDirTrue
          have hc₀dir : isDirNode c₀x = true := by rw [hc₀x]; rfl
          have hnd : cp ∉ acc.dirty := by
            intro hmem
            have : acc.dirty.contains cp = true := by simpa using hmem
            rw [this] at hnotdirty
            cases hnotdirty
          have hsame : c₀x = c₁ := by
            rcases (hcovc c₀x rfl).2 hc₀dir hc₁dir hnd with h | ⟨hlin, d, hd⟩
            · exact h
            · exfalso
              subst hd
              have := cold_empty_dir cfg cp false mask₀ link₀ d B he' hk'
              simp [hlin, this] at hheur
          subst hsame
          have hmask : mask₀ = cm := hold.2.2 c₀x rfl hc₀dir hc₁dir
          subst hmask
          -- the cold scan of the (unchanged) child returns the baseline entry
          have hcold : scanNode cfg {} cp false none mask₀ (linkFor all₁ decoded name c₀x) c₀x {} =
              (.entry B, (cold cfg cp false mask₀ link₀ c₀x).2) := by
            have h1 : scanNode cfg {} cp false none mask₀ (linkFor all₁ decoded name c₀x) c₀x {} =
                cold cfg cp false mask₀ link₀ c₀x := by
              simp only [cold]
              rw [hc₀x]
              exact scanNode_dir_link cfg {} cp false none mask₀ _ _ d₀ cs₀x {}
            rw [h1]
            exact Prod.ext he' rfl
          rw [hcold]
          simp only
          -- the walk reproduces the cold additions
          have hwalk := reuse_node cfg acc hign c₀x cp mask₀ link₀ hcpne hnode₁
            (fun q hq => by
              have := hold.1 q (Or.inr hq)
              simpa using this)
            B he'
          obtain ⟨w, hw, c1, a1, b1, l1, s1, i1⟩ := hwalk
          rw [hw]
          simp only [Bool.false_eq_true, if_false]
          have hkey := preDispatch_go_key _ _ _ _ _ _ _ _ _ _ _ _ hpre
          have hwk : ∀ k, k ∈ ikeys (add (ignSt [ign]) w).newIgnore →
              k ∈ ikeys (add (ignSt [ign]) (cold cfg cp false mask₀ link₀ c₀x).2).newIgnore := by
            intro k hk
            rw [ikeys_add] at hk ⊢
            rcases hk with hk | hk
            · simp only [ikeys, List.mem_map] at hk
              obtain ⟨kv, hkv, rfl⟩ := hk
              have hw' : w = (reuseWalk acc cp B ({}, false)).1 := by rw [hw]
              rw [hw'] at hkv
              have htk := ((reuseWalk_ign acc B cp kv).mp hkv).1
              rcases coldKeys_node cfg c₀x cp false mask₀ link₀ B he' kv.1 htk with h3 | h3
              · right
                simp only [ikeys, ignSt, List.map_cons, List.map_nil, List.mem_singleton]
                rw [hkey, h3]
              · exact Or.inl h3
            · exact Or.inr hk
          have hstw : SimSt cfg acc E₀ (add (ignSt [ign]) w) (add (ignSt [ign]) (cold cfg cp false mask₀ link₀ c₀x).2) := by
            have := simSt_add cfg acc E₀ _ _ _ _ hignOK (simSt_refl cfg acc E₀ w i1)
            obtain ⟨_, _, _, _, _, g6, _, _⟩ := this
            refine ⟨by simp [add, c1], by simp [add, a1], by simp [add, b1], by simp [add, l1], by simp [add, s1], g6, hwk, ?_⟩
            intro k hk
            rw [ikeys_add] at hk
            rcases hk with hk | hk
            · by_cases hkw : k ∈ ikeys w.newIgnore
              · left; rw [ikeys_add]; exact Or.inl hkw
              · refine Or.inr ⟨cp, B, hcpne, hnd, hatc B hdb, ignUnder_node cfg c₀x cp false mask₀ link₀ hcpne k hk, ?_⟩
                rintro ⟨ht, ho⟩
                obtain ⟨v, hv⟩ := key_alookup _ k ho
                have hw' : w = (reuseWalk acc cp B ({}, false)).1 := by rw [hw]
                apply hkw
                rw [hw']
                simp only [ikeys, List.mem_map]
                exact ⟨(k, v), (reuseWalk_ign acc B cp (k, v)).mpr ⟨ht, hv⟩, rfl⟩
            · left; rw [ikeys_add]; exact Or.inr hk
          exact simL_andThen cfg acc E₀ _ _ _ _ hstw (ih _ hR' hrest hcovrest)
end

theorem underP_refl (p : String) : UnderP p p := by
  by_cases h : p = ""
  · exact Or.inl h
  · exact Or.inr (under_refl p)

/-- A path below a child of the directory at `p` is below `p` and is not `p`. -/
theorem under_child (p name q : String) (hn : pathName name) (h : Under q (joinable p ++ name)) : q ≠ p ∧ UnderP q p := by
  by_cases hp : p = ""
  · subst hp
    refine ⟨?_, Or.inl rfl⟩
    simp only [joinable] at h
    obtain ⟨s, hq, _⟩ := h
    intro he
    rw [he] at hq
    have := congrArg String.toList hq
    simp [String.toList_append] at this
    exact hn.2 this.1
  · simp only [joinable, hp] at h
    have h' : Under q (p ++ "/" ++ name) := h
    exact ⟨under_join_ne q p name h', Or.inr (under_trans_join q p name h')⟩

theorem coversL_nil (cfg : Cfg) (dirty : List String) (pfx : String) : ∀ cs₁, CoversL cfg dirty pfx [] cs₁
  | [] => trivial
  | (raw, c) :: rest => by
    simp only [CoversL]
    exact ⟨(fun _ _ raw₀ c₀ hm => by cases hm), coversL_nil cfg dirty pfx rest⟩

/-- The old tree's loop data for the directory at `p` of the new tree. -/
theorem old_loop (cfg : Cfg) (acc : Accel) (p : String) (isRoot mask : Bool) (dev₁ : Nat) (cs₁ : Children)
    (hne : cs₁.isEmpty = false) (b : Option Entry) (c₀ : Option Node) (mask₀ : Bool) (link₀ : Fault × String)
    (hold : OldAt cfg acc p isRoot mask true c₀ mask₀ link₀) (hbase : BaseOf cfg p isRoot c₀ mask₀ link₀ b)
    (hcov : ∀ c, c₀ = some c → Covers cfg acc.dirty p c (.dir dev₁ cs₁)) :
    ∃ (cs₀ : Children) (contents₀ : Contents) (dL₀ : St),
      scanChildren cfg {} (joinable p) cs₀ cs₀ none mask [] {} = some (contents₀, dL₀) ∧
      (entryNames cfg cs₀).Nodup ∧ NamesOKL cfg validName cs₀ ∧
      (∀ name q, pathName name → Under q (joinable p ++ name) → alookup q acc.cache = alookup q dL₀.newCache) ∧
      (b = none ∨ ∃ pr, b = some (.mk pr contents₀)) ∧
      CoversL cfg acc.dirty (joinable p) cs₀ cs₁ := by
  obtain ⟨hloc, hnames, hmask⟩ := hold
  -- the fallback: nothing is known / nothing was cached below `p`
  have fallback : (∀ name q, pathName name → Under q (joinable p ++ name) → alookup q acc.cache = none) → b = none →
      ∃ (cs₀ : Children) (contents₀ : Contents) (dL₀ : St),
        scanChildren cfg {} (joinable p) cs₀ cs₀ none mask [] {} = some (contents₀, dL₀) ∧
        (entryNames cfg cs₀).Nodup ∧ NamesOKL cfg validName cs₀ ∧
        (∀ name q, pathName name → Under q (joinable p ++ name) → alookup q acc.cache = alookup q dL₀.newCache) ∧
        (b = none ∨ ∃ pr, b = some (.mk pr contents₀)) ∧
        CoversL cfg acc.dirty (joinable p) cs₀ cs₁ := by
    intro hnone hb
    refine ⟨[], [], {}, rfl, by simp [entryNames], trivial, ?_, Or.inl hb, coversL_nil cfg _ _ cs₁⟩
    intro name q hn hq
    rw [hnone name q hn hq]
    rfl
  cases hc₀ : c₀ with
  | none =>
    subst hc₀
    apply fallback
    · intro name q hn hq
      rw [hloc q (under_child p name q hn hq).2]
      rfl
    · rcases hbase with h | ⟨c, e, hc, _⟩
      · exact h
      · cases hc
  | some c =>
    subst hc₀
    have hokc := hnames c rfl
    cases c with
    | dir d₀ cs₀ =>
      rcases cold_dir cfg p isRoot mask₀ link₀ d₀ cs₀ with ⟨h2, h1⟩ | ⟨contents₀, dL₀, hs₀, hcold₀⟩
      · -- the old directory scanned to nothing (problematic, vanished)
        apply fallback
        · intro name q hn hq
          rw [hloc q (under_child p name q hn hq).2]
          simp only [h2]
          rfl
        · rcases hbase with h | ⟨c, e, hc, he, hk, _⟩
          · exact h
          · cases hc
            rcases h1 with h1 | h1 | ⟨msg, h1⟩
            · rw [h1] at he; cases he
            · rw [h1] at he; cases he
            · rw [h1] at he; cases he; simp [problematic, Entry.kind, Entry.props] at hk
      · have hm : mask₀ = mask := hmask _ rfl rfl rfl
        subst hm
        simp only [NamesOK] at hokc
        have hcv := hcov _ rfl
        simp only [Covers, hne] at hcv
        have hb' : b = none ∨ ∃ pr, b = some (.mk pr contents₀) := by
          rcases hbase with h | ⟨c, e, hc, he, _, hbe⟩
          · exact Or.inl h
          · cases hc
            rw [hcold₀] at he
            cases he
            exact Or.inr ⟨_, hbe⟩
        have hlc : ∀ name q, pathName name → Under q (joinable p ++ name) → alookup q acc.cache = alookup q dL₀.newCache := by
          intro name q hn hq
          rw [hloc q (under_child p name q hn hq).2]
          simp only [hcold₀]
        cases hcs₀ : cs₀ with
        | nil =>
          subst hcs₀
          simp [scanChildren] at hs₀
          obtain ⟨rfl, rfl⟩ := hs₀
          exact ⟨[], [], {}, rfl, by simp [entryNames], trivial, hlc, hb', coversL_nil cfg _ _ cs₁⟩
        | cons x xs =>
          subst hcs₀
          simp only [List.isEmpty_cons, Bool.false_eq_true, if_false] at hs₀ hcv
          exact ⟨x :: xs, contents₀, dL₀, hs₀, hokc.1, hokc.2, hlc, hb', hcv⟩
    | file content₀ perm₀ mtime₀ size₀ ino₀ =>
      apply fallback
      · intro name q hn hq
        obtain ⟨hqp, hqu⟩ := under_child p name q hn hq
        rw [hloc q hqu]
        simp only
        rcases cold_file cfg p isRoot mask₀ link₀ content₀ perm₀ mtime₀ size₀ ino₀ with ⟨h2, _⟩ | ⟨_, _, _, h⟩
        · rw [h2]; rfl
        · rw [h]
          simp only [alookup]
          rw [if_neg (fun he => hqp he.symm)]
      · rcases hbase with h | ⟨c, e, hc, he, hk, _⟩
        · exact h
        · cases hc
          obtain ⟨⟨d, cs, hd⟩, _⟩ := cold_directory_kind cfg p isRoot mask₀ link₀ _ e he hk
          cases hd
    | symlink t =>
      apply fallback
      · intro name q hn hq
        rw [hloc q (under_child p name q hn hq).2]
        simp only
        rw [cold_leaf_cache cfg p isRoot mask₀ link₀ (.symlink t) rfl (fun _ _ _ _ _ h => by cases h)]
        rfl
      · rcases hbase with h | ⟨c, e, hc, he, hk, _⟩
        · exact h
        · cases hc
          obtain ⟨⟨d, cs, hd⟩, _⟩ := cold_directory_kind cfg p isRoot mask₀ link₀ _ e he hk
          cases hd
    | other k =>
      apply fallback
      · intro name q hn hq
        rw [hloc q (under_child p name q hn hq).2]
        simp only
        rw [cold_leaf_cache cfg p isRoot mask₀ link₀ (.other k) rfl (fun _ _ _ _ _ h => by cases h)]
        rfl
      · rcases hbase with h | ⟨c, e, hc, he, hk, _⟩
        · exact h
        · cases hc
          obtain ⟨⟨d, cs, hd⟩, _⟩ := cold_directory_kind cfg p isRoot mask₀ link₀ _ e he hk
          cases hd

theorem scanFile_ign (cfg : Cfg) (acc : Accel) (p : String) (isRoot : Bool) (content : Bytes) (perm : Nat) (mtime : MTime)
    (size ino : Nat) (st : St) : (scanFile cfg acc p isRoot content perm mtime size ino st).2.newIgnore = st.newIgnore := by
  unfold scanFile
  simp only
  split
  · rfl
  · split <;> rfl

theorem scanSymlink_ign (cfg : Cfg) (p : String) (link : Fault × String) (b : Bool) (st : St) :
    (scanSymlink cfg p link b st).2.newIgnore = st.newIgnore := by
  unfold scanSymlink
  split
  · rfl
  · rfl
  · split <;> rfl

/-- The digest cache is fresh for a file of the new tree. -/
theorem cacheFresh_of_old (cfg : Cfg) (acc : Accel) (p : String) (isRoot mask : Bool) (content : Bytes) (perm : Nat)
    (mtime : MTime) (size ino : Nat) (c₀ : Option Node) (mask₀ : Bool) (link₀ : Fault × String)
    (hold : OldAt cfg acc p isRoot mask false c₀ mask₀ link₀)
    (hcov : ∀ c, c₀ = some c → Covers cfg acc.dirty p c (.file content perm mtime size ino)) :
    CacheFresh cfg acc p isRoot content mtime size ino := by
  obtain ⟨hloc, hnames, _⟩ := hold
  have hl := hloc p (underP_refl p)
  cases hc₀ : c₀ with
  | none => subst hc₀; left; rw [hl]; rfl
  | some c =>
    subst hc₀
    simp only at hl
    cases c with
    | dir d₀ cs₀ =>
      left
      rw [hl]
      exact cold_dir_no_self_key cfg p isRoot mask₀ link₀ d₀ cs₀ (hnames _ rfl)
    | file content₀ perm₀ mtime₀ size₀ ino₀ =>
      rcases cold_file cfg p isRoot mask₀ link₀ content₀ perm₀ mtime₀ size₀ ino₀ with ⟨h2, _⟩ | ⟨hopen, hlen, hvalid, h⟩
      · left; rw [hl, h2]; rfl
      · right
        refine ⟨content₀, perm₀, mtime₀, size₀, ino₀, ?_, hopen, hlen, hvalid, ?_⟩
        · rw [hl, h]; simp [alookup]
        · have := hcov _ rfl
          simp only [Covers] at this
          exact this
    | symlink t =>
      left
      rw [hl, cold_leaf_cache cfg p isRoot mask₀ link₀ (.symlink t) rfl (fun _ _ _ _ _ h => by cases h)]
      rfl
    | other k =>
      left
      rw [hl, cold_leaf_cache cfg p isRoot mask₀ link₀ (.other k) rfl (fun _ _ _ _ _ h => by cases h)]
      rfl

set_option linter.unusedSectionVars false

section
variable (cfg : Cfg) (acc : Accel) (E₀ : Entry) (hign : IgnOK cfg acc.ignoreCache)
include hign

mutual
/-- The accelerated handler of a node simulates the cold one. -/
theorem sim_node : (n₁ : Node) → SimOK cfg acc E₀ n₁
  | .file content perm mtime size ino => by
    intro p isRoot mask link b c₀ mask₀ link₀ _ hold _ _ hcov
    have hfresh := cacheFresh_of_old cfg acc p isRoot mask content perm mtime size ino c₀ mask₀ link₀ hold hcov
    simp only [cold]
    unfold scanNode
    rw [sim_file cfg acc p isRoot content perm mtime size ino hfresh {}]
    refine ⟨rfl, simSt_refl cfg acc E₀ _ ?_⟩
    rw [scanFile_ign]
    intro kv hkv
    cases hkv
  | .symlink t => by
    intro p isRoot mask link b c₀ mask₀ link₀ _ _ _ _ _
    simp only [cold]
    unfold scanNode
    refine ⟨rfl, simSt_refl cfg acc E₀ _ ?_⟩
    cases cfg.symlinkMode
    · intro kv hkv; cases hkv
    · simp only; rw [scanSymlink_ign]; intro kv hkv; cases hkv
    · simp only; rw [scanSymlink_ign]; intro kv hkv; cases hkv
  | .other k => by
    intro p isRoot mask link b c₀ mask₀ link₀ _ _ _ _ _
    simp only [cold]
    unfold scanNode
    exact ⟨rfl, simSt_refl cfg acc E₀ _ (fun kv hkv => by cases hkv)⟩
  | .dir dev₁ cs₁ => by
    intro p isRoot mask link b c₀ mask₀ link₀ hok hold hbase hatp hcov
    simp only [cold]
    unfold scanNode
    have hinert : ∀ r : Res, SimRes cfg acc E₀ (r, ({} : St)) (r, ({} : St)) :=
      fun r => ⟨rfl, simSt_refl cfg acc E₀ _ (fun kv hkv => by cases hkv)⟩
    by_cases hdev : dev₁ ≠ cfg.deviceID
    · rw [if_pos hdev, if_pos hdev]; exact hinert _
    · rw [if_neg hdev, if_neg hdev]
      generalize (if isRoot = true then Fault.none else cfg.openDirFault p) = opened
      cases opened
      · simp only
        by_cases hrd : cfg.readDirFault p = true
        · rw [if_pos hrd, if_pos hrd]; exact hinert _
        · rw [if_neg hrd, if_neg hrd]
          simp only [NamesOK] at hok
          have hloop : SimL cfg acc E₀ (scanChildren cfg acc (if cs₁.isEmpty then "" else joinable p) cs₁ cs₁ b mask [] {})
              (scanChildren cfg {} (if cs₁.isEmpty then "" else joinable p) cs₁ cs₁ none mask [] {}) := by
            cases hne : cs₁.isEmpty with
            | true =>
              have : cs₁ = [] := by simpa using hne
              subst this
              simp only [scanChildren, SimL]
              exact ⟨trivial, simSt_refl cfg acc E₀ {} (fun kv hkv => by cases hkv)⟩
            | false =>
              simp only [Bool.false_eq_true, if_false]
              obtain ⟨cs₀, contents₀, dL₀, hrun₀, hnd₀, hok₀, hlc, hb, hcv⟩ :=
                old_loop cfg acc p isRoot mask dev₁ cs₁ hne b c₀ mask₀ link₀ hold hbase hcov
              exact sim_loop cfg acc E₀ hign (joinable p) mask cs₁ cs₀ contents₀ dL₀ hrun₀ hnd₀ hok₀ hlc b hb
                (fun bb hbb => ⟨p, rfl, hatp bb hbb⟩) cs₁ []
                (sim_list cs₁) hok.2 hcv
          cases hra : scanChildren cfg acc (if cs₁.isEmpty then "" else joinable p) cs₁ cs₁ b mask [] {} with
          | none =>
            cases hrc : scanChildren cfg {} (if cs₁.isEmpty then "" else joinable p) cs₁ cs₁ none mask [] {} with
            | none => exact hinert _
            | some y => rw [hra, hrc] at hloop; cases hloop
          | some x =>
            cases hrc : scanChildren cfg {} (if cs₁.isEmpty then "" else joinable p) cs₁ cs₁ none mask [] {} with
            | none => rw [hra, hrc] at hloop; cases hloop
            | some y =>
              rw [hra, hrc] at hloop
              simp only [SimL] at hloop
              obtain ⟨hc, h1, h2, h3, h4, h5, h6, h7, h8⟩ := hloop
              obtain ⟨xc, xd⟩ := x
              obtain ⟨yc, yd⟩ := y
              simp only at hc h1 h2 h3 h4 h5 h6 h7 h8 ⊢
              subst hc
              exact ⟨rfl, h1, by simp [h2], h3, h4, h5, h6, h7, h8⟩
      · exact hinert _
      · exact hinert _
theorem sim_list : (cs : Children) → ∀ rn ∈ cs, SimOK cfg acc E₀ rn.2
  | [], rn, h => by cases h
  | (r, n) :: rest, rn, h => by
    rcases List.mem_cons.mp h with rfl | h
    · exact sim_node n
    · exact sim_list rest rn h
end
end

end Mutagen.Proofs.ScanSim
