import Mutagen.Proofs.URLClass
/-!
Round trip of SCP-style SSH URLs through `formatSSH` (core Lean only).
-/
namespace Mutagen.Proofs.URL
open Mutagen.Model.URL

/-- `[user@]host` -/
def tgt (user host : Str) : Str := if user ≠ [] then user ++ '@' :: host else host

/-- What the user-name and host-name loops guarantee about their results. -/
structure SSHHead (user host : Str) : Prop where
  host_ne : host ≠ []
  host_colon : ':' ∉ host
  host_at : user = [] → '@' ∉ host
  user_at : '@' ∉ user
  user_colon : ':' ∉ user

theorem SSHHead.tgt_colon {user host : Str} (h : SSHHead user host) : ':' ∉ tgt user host := by
  unfold tgt
  by_cases hu : user = []
  · simp [hu]; exact h.host_colon
  · simp only [ne_eq, hu, not_false_eq_true, if_true]
    intro hm
    simp only [List.mem_append, List.mem_cons] at hm
    rcases hm with hm | hm | hm
    · exact h.user_colon hm
    · exact absurd hm (by decide)
    · exact h.host_colon hm

theorem SSHHead.tgt_ne {user host : Str} (h : SSHHead user host) : tgt user host ≠ [] := by
  unfold tgt
  by_cases hu : user = []
  · simp [hu]; exact h.host_ne
  · simp [hu]

/-- The two loops split `s` into `[user@]host:rest`. -/
theorem ssh_head_of_parse {s user raw1 host raw2 : Str}
    (h1 : sshUser s = .ok (user, raw1)) (h2 : sshHost raw1 = .ok (host, raw2)) :
    SSHHead user host ∧ s = tgt user host ++ ':' :: raw2 := by
  -- host
  unfold sshHost at h2
  cases hs : splitAt ':' raw1 with
  | none => simp [hs] at h2
  | some p =>
    obtain ⟨hh, r⟩ := p
    cases hh with
    | nil => simp [hs] at h2
    | cons h0 ht =>
      simp [hs] at h2
      obtain ⟨rfl, rfl⟩ := h2
      obtain ⟨e1, hc⟩ := splitAt_some hs
      -- user
      unfold sshUser at h1
      cases hu : splitUser ':' s with
      | none =>
        simp [hu] at h1
        obtain ⟨rfl, rfl⟩ := h1
        refine ⟨⟨by simp, hc, ?_, by simp, by simp⟩, by simp [tgt, e1]⟩
        intro _
        rw [e1] at hu
        exact no_at_of_splitUser_none hc hu
      | some q =>
        obtain ⟨a, b⟩ := q
        cases a with
        | nil => simp [hu] at h1
        | cons a0 at' =>
          simp [hu] at h1
          obtain ⟨rfl, rfl⟩ := h1
          obtain ⟨e2, ha, hcu⟩ := splitUser_some hu
          refine ⟨⟨by simp, hc, by simp, ha, hcu⟩, ?_⟩
          simp [tgt, e2, e1]

/-- …and they find the same split again in `[user@]host:anything`. -/
theorem ssh_head_parse {user host : Str} (h : SSHHead user host) (x : Str) :
    sshUser (tgt user host ++ ':' :: x) = .ok (user, host ++ ':' :: x) ∧
    sshHost (host ++ ':' :: x) = .ok (host, x) := by
  constructor
  · unfold tgt sshUser
    by_cases hu : user = []
    · subst hu
      simp [splitUser_none_of ':' host x (h.host_at rfl)]
    · have := splitUser_append ':' user (host ++ ':' :: x) h.user_at h.user_colon (by decide)
      simp only [ne_eq, hu, not_false_eq_true, if_true, List.append_assoc, List.cons_append, this]
  · unfold sshHost
    rw [splitAt_append ':' host x h.host_colon]
    cases host with
    | nil => exact absurd rfl h.host_ne
    | cons h0 hs => rfl

/-- `parseSCPSSH` after the user and host names. -/
def sshTail (kind : Kind) (user host raw2 : Str) : Except Err URL :=
  if startsWithDash user || startsWithDash host then .error .optionLike else
  match parsePort raw2 with
  | .error e => .error e
  | .ok (port, path) =>
    match sshPathError kind path with
    | some e => .error e
    | none =>
      .ok { kind := kind, protocol := .ssh, user := user, host := host, port := port, path := path,
            environment := [], parameters := [] }

theorem parseSCPSSH_of_head {user host : Str} (h : SSHHead user host) (x : Str) (kind : Kind) :
    parseSCPSSH (tgt user host ++ ':' :: x) kind = sshTail kind user host x := by
  obtain ⟨h1, h2⟩ := ssh_head_parse h x
  simp only [parseSCPSSH, h1, h2, sshTail]
  rfl

theorem parseSCPSSH_ok {s : Str} {kind : Kind} {u : URL} (h : parseSCPSSH s kind = .ok u) :
    ∃ user host raw2, SSHHead user host ∧ s = tgt user host ++ ':' :: raw2 ∧ sshTail kind user host raw2 = .ok u := by
  unfold parseSCPSSH at h
  cases h1 : sshUser s with
  | error e => simp [h1] at h
  | ok p =>
    obtain ⟨user, raw1⟩ := p
    simp only [h1] at h
    cases h2 : sshHost raw1 with
    | error e => simp [h2] at h
    | ok q =>
      obtain ⟨host, raw2⟩ := q
      simp only [h2] at h
      obtain ⟨hh, e⟩ := ssh_head_of_parse h1 h2
      exact ⟨user, host, raw2, hh, e, h⟩

/-- The two ways the port loop succeeds. -/
theorem parsePort_cases {raw : Str} {port : Nat} {path : Str} (h : parsePort raw = .ok (port, path)) :
    (port = 0 ∧ path = raw ∧ ∀ r, (spanDigits raw).2 ≠ ':' :: r) ∨
    (∃ ds, raw = ds ++ ':' :: path ∧ parseUint16 ds = some port) := by
  unfold parsePort at h
  have happ := spanDigits_append raw
  cases hr : (spanDigits raw).2 with
  | nil =>
    simp [hr] at h
    left; exact ⟨h.1.symm, h.2.symm, by simp⟩
  | cons c r =>
    by_cases hc : c = ':'
    · subst hc
      simp only [hr] at h
      cases hp : parseUint16 (spanDigits raw).1 with
      | none => simp [hp] at h
      | some p =>
        simp [hp] at h
        obtain ⟨rfl, rfl⟩ := h
        right
        refine ⟨(spanDigits raw).1, ?_, hp⟩
        rw [hr] at happ
        exact happ.symm
    · have : ∀ r', c :: r ≠ ':' :: r' := by
        intro r' e; simp at e; exact hc e.1
      left
      have h' : parsePort raw = .ok (0, raw) := by
        unfold parsePort
        rw [hr]
        split
        · next r' heq => exact absurd heq (this r')
        · rfl
      unfold parsePort at h'
      rw [h'] at h
      simp at h
      exact ⟨h.1.symm, h.2.symm, this⟩

theorem parsePort_none {raw : Str} (h : ∀ r, (spanDigits raw).2 ≠ ':' :: r) : parsePort raw = .ok (0, raw) := by
  unfold parsePort
  split
  · next r' heq => exact absurd heq (h r')
  · rfl

theorem isDigit_ne_slash {c : Char} (h : isDigit c = true) : c ≠ '/' := by
  intro e; subst e; exact absurd h (by decide)

/-- A forwarding endpoint text contains a colon. -/
theorem colon_mem_of_fwdParse {path : Str} {r : Str × Str} (h : fwdParse path = .ok r) : ':' ∈ path := by
  obtain ⟨a, b⟩ := r
  obtain ⟨e, _, _, _⟩ := fwdParse_ok h
  rw [e]; simp

theorem count_colon_ge_two (t rest : Str) (h : ':' ∈ rest) :
    ¬ ((t ++ ':' :: rest).count ':' < 2) := by
  have : 0 < rest.count ':' := List.count_pos_iff.mpr h
  rw [List.count_append, List.count_cons]
  simp
  omega

/-- The URL built by a successful `sshTail`. -/
def sshURL (kind : Kind) (user host : Str) (port : Nat) (path : Str) : URL :=
  { kind := kind, protocol := .ssh, user := user, host := host, port := port, path := path,
    environment := [], parameters := [] }

theorem sshTail_ok {kind : Kind} {user host raw2 : Str} {u : URL} (h : sshTail kind user host raw2 = .ok u) :
    (startsWithDash user || startsWithDash host) = false ∧
    ∃ port path, parsePort raw2 = .ok (port, path) ∧ sshPathError kind path = none ∧
      u = sshURL kind user host port path := by
  unfold sshTail at h
  by_cases hd : (startsWithDash user || startsWithDash host) = true
  · simp [hd] at h
  · rw [if_neg hd] at h
    cases hp : parsePort raw2 with
    | error e => simp [hp] at h
    | ok pp =>
      obtain ⟨port, path⟩ := pp
      simp only [hp] at h
      cases he : sshPathError kind path with
      | some e => simp [he] at h
      | none =>
        simp only [he] at h
        refine ⟨by simpa using hd, port, path, rfl, he, ?_⟩
        injection h with h
        exact h.symm

theorem sshTail_intro {kind : Kind} {user host x : Str} {port : Nat} {path : Str}
    (hd : (startsWithDash user || startsWithDash host) = false)
    (hp : parsePort x = .ok (port, path)) (he : sshPathError kind path = none) :
    sshTail kind user host x = .ok (sshURL kind user host port path) := by
  simp [sshTail, hd, hp, he, sshURL]

theorem sshPathError_none {kind : Kind} {path : Str} (hk : kind ≠ .unsupported) (h : sshPathError kind path = none) :
    path ≠ [] ∧ (kind = .forwarding → ∃ r, fwdParse path = .ok r) := by
  cases kind with
  | synchronization =>
    simp [sshPathError] at h
    exact ⟨h, by simp⟩
  | forwarding =>
    simp only [sshPathError] at h
    cases hf : fwdParse path with
    | error e => simp [hf] at h
    | ok r =>
      refine ⟨?_, fun _ => ⟨r, rfl⟩⟩
      intro e; subst e; simp [fwdParse] at hf
  | unsupported => exact absurd rfl hk

/-- Re-parsing `[user@]host:x`. -/
theorem ssh_reparse (P : Platform) (hw : P.windows = false) {kind : Kind} (first : Bool) {user host raw2 x : Str} {u : URL}
    (hk : kind ≠ .unsupported) (hh : SSHHead user host) (hraw2 : raw2 ≠ [])
    (hscp : isSCPSSHURL P (tgt user host ++ ':' :: raw2) kind = true)
    (hx : isDockerURL (tgt user host ++ ':' :: x) = false)
    (hcolon : kind = .forwarding → ':' ∈ x)
    (ht : sshTail kind user host x = .ok u) :
    parse P (tgt user host ++ ':' :: x) kind first = .ok u := by
  have hscp' : isSCPSSHURL P (tgt user host ++ ':' :: x) kind = true := by
    cases kind with
    | synchronization =>
      simp only [isSCPSSHURL, hw, Bool.false_and] at hscp ⊢
      simpa [colonBeforeSlash_append (tgt user host) x raw2] using hscp
    | forwarding =>
      simp only [isSCPSSHURL] at hscp ⊢
      cases hf : fwdParse (tgt user host ++ ':' :: raw2) with
      | ok r => simp [hf] at hscp
      | error e =>
        have hv := invalid_protocol_of_error hh.tgt_colon hraw2 hf
        obtain ⟨e', he'⟩ := fwdParse_invalid_protocol (tgt user host) x hh.tgt_colon hv
        simp only [he']
        have := count_colon_ge_two (tgt user host) x (hcolon rfl)
        rw [if_neg this]
    | unsupported => exact absurd rfl hk
  unfold parse
  rw [if_neg hk, if_neg (by simp), hx]
  simp only [Bool.false_eq_true, if_false, hscp', if_true]
  rw [parseSCPSSH_of_head hh x kind, ht]

/-- **SSH URLs round-trip.** -/
theorem ssh_round_trip (P : Platform) (hw : P.windows = false) {s : Str} {kind : Kind} (first : Bool) {u : URL}
    (hk : kind ≠ .unsupported) (hnd : isDockerURL s = false) (hscp : isSCPSSHURL P s kind = true)
    (h : parseSCPSSH s kind = .ok u) :
    ensureValid P u = .ok () ∧ parse P (formatSSH u) kind first = .ok u := by
  obtain ⟨user, host, raw2, hh, es, ht⟩ := parseSCPSSH_ok h
  obtain ⟨hd, port, path, hp, he, hu⟩ := sshTail_ok ht
  obtain ⟨hpath, hfwd⟩ := sshPathError_none hk he
  subst es
  have hraw2 : raw2 ≠ [] := by
    intro e; subst e
    simp [parsePort, spanDigits] at hp
    exact hpath hp.2
  have hcolonpath : kind = .forwarding → ':' ∈ path := fun hk' => by
    obtain ⟨r, hr⟩ := hfwd hk'
    exact colon_mem_of_fwdParse hr
  have hport : port ≤ 65535 := by
    rcases parsePort_cases hp with ⟨h0, _, _⟩ | ⟨ds, _, hds⟩
    · omega
    · exact parseUint16_le hds
  have hd' := hd
  simp only [Bool.or_eq_false_iff] at hd'
  constructor
  · -- validity
    subst hu
    have hvc : validComponents (sshURL kind user host port path) = .ok () := by
      simp [validComponents, sshURL, hh.host_ne, hd'.1, hd'.2]
      omega
    unfold ensureValid
    rw [if_neg (by simpa [sshURL] using hk), hvc]
    cases kind with
    | synchronization => simp [validPath, sshURL, hpath]
    | forwarding =>
      obtain ⟨r, hr⟩ := hfwd rfl
      simp [validPath, sshURL, hr]
    | unsupported => exact absurd rfl hk
  · -- round trip
    have htarget : target u = tgt user host := by subst hu; rfl
    have hupath : u.path = path := by subst hu; rfl
    have huport : u.port = port := by subst hu; rfl
    unfold formatSSH
    rw [htarget, hupath, huport]
    rcases parsePort_cases hp with ⟨h0, hpr, hnc⟩ | ⟨ds, hraw, hds⟩
    · -- no port in the text: the formatted text is the original text
      subst h0 hpr
      have hz : zeroPortRequired (tgt user host) path = false := by
        unfold zeroPortRequired
        rw [hnd]
        split
        · next r heq => exact absurd heq (hnc r)
        · rfl
      simp only [hz, ne_eq, not_true_eq_false, decide_false, Bool.or_self, Bool.false_eq_true, if_false]
      exact ssh_reparse P hw first hk hh hraw2 hscp hnd hcolonpath ht
    · by_cases hz : (decide (port ≠ 0) || zeroPortRequired (tgt user host) path) = true
      · -- the port is written
        rw [if_pos hz]
        have hdec := natToDec_ne_nil port
        cases hdd : natToDec port with
        | nil => exact absurd hdd hdec
        | cons d dr =>
          have hdig : isDigit d = true := natToDec_digits port d (by simp [hdd])
          have hnd' : isDockerURL (tgt user host ++ ':' :: (d :: dr ++ ':' :: path)) = false :=
            not_isDockerURL_of_colon _ d _ hh.tgt_colon (isDigit_ne_slash hdig)
          have hp' : parsePort (natToDec port ++ ':' :: path) = .ok (port, path) := parsePort_natToDec port path hport
          rw [hdd] at hp'
          have ht' := sshTail_intro (kind := kind) (user := user) (host := host) hd hp' he
          rw [← hu] at ht'
          exact ssh_reparse P hw first hk hh hraw2 hscp hnd' (fun _ => by simp) ht'
      · -- zero port, not needed
        rw [if_neg hz]
        simp only [Bool.or_eq_true, decide_eq_true_eq, not_or, Decidable.not_not, Bool.not_eq_true] at hz
        obtain ⟨hp0, hzr⟩ := hz
        subst hp0
        unfold zeroPortRequired at hzr
        simp only [Bool.or_eq_false_iff] at hzr
        have hnc : ∀ r, (spanDigits path).2 ≠ ':' :: r := by
          intro r heq
          have := hzr.2
          rw [heq] at this
          simp at this
        have ht' := sshTail_intro (kind := kind) (user := user) (host := host) hd (parsePort_none hnc) he
        rw [← hu] at ht'
        exact ssh_reparse P hw first hk hh hraw2 hscp hzr.1 hcolonpath ht'

end Mutagen.Proofs.URL
