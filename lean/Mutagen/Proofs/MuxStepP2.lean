/-
Preservation of the per-identifier invariant by the acceptor's reader
(messages from the opener).
-/
import Mutagen.Proofs.MuxStep.OpenAcceptP
import Mutagen.Proofs.MuxStep.OpenRejectP
import Mutagen.Proofs.MuxStep.DeliverDataP
import Mutagen.Proofs.MuxStep.DeliverIncrP
import Mutagen.Proofs.MuxStep.DeliverCwP
import Mutagen.Proofs.MuxStep.DeliverCloseP
import Mutagen.Proofs.MuxStep.DropP
import Mutagen.Proofs.MuxStep.Congr
