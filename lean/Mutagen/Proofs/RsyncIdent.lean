import Mutagen.Proofs.RsyncRecon
/-!
C19, part 5: an unchanged target (`target = base`) is sent without literal data.
No collision hypothesis is needed: whatever block a window is matched to, the
result is a block operation.
-/
namespace Mutagen.Proofs.Rsync
open Mutagen.Model.Rsync

/-- Every `sendData` call carries no bytes. -/
def AllEmpty (evs : List Event) : Prop := ∀ d, Event.data d ∈ evs → d = []

theorem AllEmpty.append {a b : List Event} (ha : AllEmpty a) (hb : AllEmpty b) : AllEmpty (a ++ b) := by
  intro d hd
  rcases List.mem_append.mp hd with h | h
  · exact ha d h
  · exact hb d h

theorem evOps_no_data (maxOp : Nat) (evs : List Event) (co : Co) (h : AllEmpty evs) :
    ∀ op ∈ (evOps maxOp evs co).1, op.data = [] := by
  induction evs generalizing co with
  | nil => simp [evOps]
  | cons e es ih =>
    have hes : AllEmpty es := fun d hd => h d (List.mem_cons_of_mem _ hd)
    cases e with
    | data d =>
      have hd : d = [] := h d (List.mem_cons_self ..)
      subst hd
      intro op hop
      simp only [evOps, dataPre, List.length_nil, Nat.lt_irrefl, false_and, if_false, chunks,
        List.nil_append] at hop
      exact ih _ hes op hop
    | block i =>
      intro op hop
      simp only [evOps, List.mem_append] at hop
      rcases hop with hop | hop
      · unfold blockPre at hop
        by_cases hc : co.count > 0 ∧ co.start + co.count ≠ i
        · rw [if_pos hc] at hop
          simp only [List.mem_singleton] at hop
          subst hop
          rfl
        · simp [hc] at hop
      · exact ih _ hes op hop

theorem flushOps_no_data (co : Co) : ∀ op ∈ flushOps co, op.data = [] := by
  unfold flushOps
  by_cases hc : co.count > 0
  · simp only [hc, if_true, List.mem_singleton]
    intro op hop
    subst hop
    rfl
  · simp [hc]

section
variable {D : Type} [DecidableEq D] (H : List UInt8 → D)

theorem findMatch_complete (full : List (BlockHash D)) (w : UInt32) (win : List UInt8) (k : Nat)
    (hb : BlockHash D) (hk : full[k]? = some hb) (hw : hb.weak = w) (hs : hb.strong = H win) :
    ∃ p, findMatch H full w win = some p := by
  unfold findMatch
  have hmem : (hb, k) ∈ full.zipIdx.filter fun q => q.1.weak == w := by
    simp only [List.mem_filter, beq_iff_eq]
    exact ⟨List.mem_zipIdx_iff_getElem?.mpr hk, hw⟩
  have hne : (full.zipIdx.filter fun q => q.1.weak == w).isEmpty = false := by
    cases hl : full.zipIdx.filter fun q => q.1.weak == w with
    | nil => rw [hl] at hmem; simp at hmem
    | cons _ _ => rfl
  simp only [hne, Bool.false_eq_true, if_false]
  cases hf : (full.zipIdx.filter fun q => q.1.weak == w).find? fun q => decide (q.1.strong = H win) with
  | none =>
    rw [List.find?_eq_none] at hf
    have := hf (hb, k) hmem
    simp [hs] at this
  | some q => exact ⟨q.2, rfl⟩

/-- Number of full-size blocks in the lookup table. -/
theorem fullHashes_length (sig : Signature D) :
    (fullHashes sig).length =
      if sig.lastBlockSize ≠ sig.blockSize then sig.hashes.length - 1 else sig.hashes.length := by
  unfold fullHashes
  by_cases hs : sig.lastBlockSize = sig.blockSize
  · simp [hs]
  · have : (sig.lastBlockSize != sig.blockSize) = true := by simpa using hs
    simp only [this, if_true, List.length_take, ne_eq, hs, not_false_eq_true]
    omega

theorem fullHashes_getElem?_lt (sig : Signature D) (k : Nat) (hk : k < (fullHashes sig).length) :
    (fullHashes sig)[k]? = sig.hashes[k]? := by
  rw [fullHashes_length] at hk
  unfold fullHashes
  by_cases hs : sig.lastBlockSize = sig.blockSize
  · simp [hs]
  · have : (sig.lastBlockSize != sig.blockSize) = true := by simpa using hs
    simp only [ne_eq, hs, not_false_eq_true, if_true] at hk
    simp only [this, if_true, List.getElem?_take, hk]

/-- The bytes left after the full-size blocks: the short last block, or nothing. -/
theorem Geo.tail_length {base : List UInt8} {sig : Signature D} (g : Geo base sig) :
    (base.drop ((fullHashes sig).length * sig.blockSize)).length =
      if sig.lastBlockSize ≠ sig.blockSize then sig.lastBlockSize else 0 := by
  have hlen := g.len
  have hn := g.n_pos
  rw [fullHashes_length]
  by_cases hs : sig.lastBlockSize = sig.blockSize
  · simp only [ne_eq, hs, not_true_eq_false, if_false, List.length_drop]
    have := mul_split sig.hashes.length 1 sig.blockSize hn
    rw [hs] at hlen
    omega
  · simp only [ne_eq, hs, not_false_eq_true, if_true, List.length_drop]
    omega

/-- Reading the base itself block by block: every block is matched, no roll
step happens, every `sendData` call is empty and the buffer ends up holding the
bytes after the last full-size block. -/
theorem loopEvents_identical (base : List UInt8) (sig : Signature D) (cap : Nat)
    (g : Geo base sig) (hh : HashesOf H base sig) (fuel k : Nat) (r1 r2 : UInt32)
    (hk : k ≤ (fullHashes sig).length)
    (hf : (base.drop (k * sig.blockSize)).length < fuel) :
    AllEmpty (loopEvents H sig.blockSize cap (fullHashes sig) fuel (base.drop (k * sig.blockSize)) [] r1 r2).1 ∧
    (loopEvents H sig.blockSize cap (fullHashes sig) fuel (base.drop (k * sig.blockSize)) [] r1 r2).2.1 =
      base.drop ((fullHashes sig).length * sig.blockSize) := by
  induction fuel generalizing k r1 r2 with
  | zero => omega
  | succ fuel ih =>
    have hbs := g.bs_pos
    have hlast := g.last_le
    have hlpos := g.last_pos
    have hlen := g.len
    have hn := g.n_pos
    have hF := fullHashes_length sig
    unfold loopEvents
    simp only [List.isEmpty_nil, if_true]
    by_cases hkF : k = (fullHashes sig).length
    · -- all full blocks consumed: the rest is shorter than a block
      have htail := g.tail_length
      subst hkF
      have hlt : (base.drop ((fullHashes sig).length * sig.blockSize)).length < sig.blockSize := by
        rw [htail]
        by_cases hs : sig.lastBlockSize = sig.blockSize
        · simp [hs]; omega
        · simp only [ne_eq, hs, not_false_eq_true, if_true]; omega
      simp only [hlt, if_true]
      exact ⟨fun d hd => by simp at hd, trivial⟩
    · have hklt : k < (fullHashes sig).length := by omega
      have hkn : k + 1 ≤ sig.hashes.length ∧ (sig.lastBlockSize ≠ sig.blockSize → k + 1 < sig.hashes.length) := by
        rw [hF] at hklt
        by_cases hs : sig.lastBlockSize = sig.blockSize
        · simp only [ne_eq, hs, not_true_eq_false, if_false] at hklt
          exact ⟨by omega, fun h => absurd hs h⟩
        · simp only [ne_eq, hs, not_false_eq_true, if_true] at hklt
          exact ⟨by omega, fun _ => by omega⟩
      -- block `k` is a full block
      have hfit : k * sig.blockSize + sig.blockSize ≤ base.length := by
        by_cases hs : sig.lastBlockSize = sig.blockSize
        · have := g.block_start_le k (by omega)
          omega
        · exact g.full_block_fits k (hkn.2 hs)
      have hnl : ¬ (base.drop (k * sig.blockSize)).length < sig.blockSize := by
        simp only [List.length_drop]; omega
      simp only [hnl, if_false]
      have hblk : (base.drop (k * sig.blockSize)).take sig.blockSize = blockBytes base sig.blockSize k := rfl
      have hblen : (blockBytes base sig.blockSize k).length = sig.blockSize := by
        simp only [blockBytes, List.length_take, List.length_drop]; omega
      -- the lookup table holds its hash at index `k`
      obtain ⟨hb, hhb⟩ : ∃ hb, sig.hashes[k]? = some hb :=
        ⟨sig.hashes[k]'(by omega), List.getElem?_eq_getElem (by omega)⟩
      have hfull : (fullHashes sig)[k]? = some hb := by rw [fullHashes_getElem?_lt sig k hklt, hhb]
      have hhash := hh k hb hhb
      have hwin : (blockBytes base sig.blockSize k).drop
          ((blockBytes base sig.blockSize k).length - sig.blockSize) = blockBytes base sig.blockSize k := by
        rw [hblen, Nat.sub_self, List.drop_zero]
      obtain ⟨p, hp⟩ := findMatch_complete H (fullHashes sig)
        (weakHash (blockBytes base sig.blockSize k) sig.blockSize).1 (blockBytes base sig.blockSize k) k hb hfull
        (by rw [hhash]; rfl) (by rw [hhash]; rfl)
      have hstep : stepEvents H sig.blockSize cap (fullHashes sig) (blockBytes base sig.blockSize k)
          (weakHash (blockBytes base sig.blockSize k) sig.blockSize).1 =
          ([.data [], .block p], []) := by
        unfold stepEvents
        rw [hwin, hp, hblen, Nat.sub_self]
        simp
      rw [hblk, hstep]
      simp only [List.drop_drop]
      rw [show k * sig.blockSize + sig.blockSize = (k + 1) * sig.blockSize by
        rw [Nat.add_mul, Nat.one_mul]]
      obtain ⟨h1, h2⟩ := ih (k + 1) (weakHash (blockBytes base sig.blockSize k) sig.blockSize).2.1
        (weakHash (blockBytes base sig.blockSize k) sig.blockSize).2.2 (by omega)
        (by
          simp only [List.length_drop] at hf ⊢
          rw [Nat.add_mul, Nat.one_mul]
          omega)
      refine ⟨?_, h2⟩
      apply AllEmpty.append
      · intro d hd
        simp only [List.mem_cons, Event.data.injEq, reduceCtorEq, or_false, List.not_mem_nil] at hd
        exact hd
      · exact h1

/-- With `target = base` every closure call of `deltifyCore` carries no data. -/
theorem coreEvents_identical (base : List UInt8) (sig : Signature D) (maxOp : Nat)
    (g : Geo base sig) (hh : HashesOf H base sig) :
    AllEmpty (coreEvents H sig maxOp base).1 := by
  have hn := g.n_pos
  have hlen := g.len
  obtain ⟨h1, h2⟩ := loopEvents_identical H base sig (maxOp + sig.blockSize) g hh (base.length + 1) 0 0 0
    (Nat.zero_le _) (by simp)
  simp only [Nat.zero_mul, List.drop_zero] at h1 h2
  have hex := loopEvents_exit_ok H sig.blockSize (maxOp + sig.blockSize) (fullHashes sig) g.bs_pos
    (base.length + 1) base [] 0 0 (Nat.lt_succ_self _) (Or.inl rfl)
  unfold coreEvents
  simp only [hex, bne_self_eq_false, Bool.false_eq_true, if_false, h2]
  have htail := g.tail_length
  have hF := fullHashes_length sig
  by_cases hs : sig.lastBlockSize = sig.blockSize
  · -- no short block: nothing is left in the buffer
    have hnil : base.drop ((fullHashes sig).length * sig.blockSize) = [] := by
      apply List.eq_nil_of_length_eq_zero
      rw [htail]; simp [hs]
    have hsm : shortMatch H sig [] = false := by
      unfold shortMatch
      simp [hs]
    rw [hnil, hsm]
    simp only [Bool.false_eq_true, if_false]
    apply AllEmpty.append h1
    intro d hd
    simpa using hd
  · -- the short last block is left and matches
    have hFn : (fullHashes sig).length = sig.hashes.length - 1 := by
      rw [hF]; simp [hs]
    have htl : (base.drop ((fullHashes sig).length * sig.blockSize)).length = sig.lastBlockSize := by
      rw [htail]; simp [hs]
    have hbb : base.drop ((fullHashes sig).length * sig.blockSize) =
        blockBytes base sig.blockSize (sig.hashes.length - 1) := by
      rw [hFn, g.blockBytes_last_eq]
    obtain ⟨hb, hhb⟩ : ∃ hb, sig.hashes[sig.hashes.length - 1]? = some hb :=
      ⟨sig.hashes[sig.hashes.length - 1]'(by omega), List.getElem?_eq_getElem (by omega)⟩
    have hhash := hh _ hb hhb
    have hsm : shortMatch H sig (base.drop ((fullHashes sig).length * sig.blockSize)) = true := by
      rw [hbb]
      unfold shortMatch
      have hne : (sig.lastBlockSize != sig.blockSize) = true := by simpa using hs
      have hbl := g.blockBytes_length_last
      simp only [hne, hbl, ge_iff_le, Nat.le_refl, decide_true, Bool.and_self, if_true, Nat.sub_self,
        List.drop_zero, hhb]
      rw [hhash]
      simp [hashBlock]
    rw [hsm]
    simp only [if_true, htl, Nat.sub_self, List.take_zero]
    apply AllEmpty.append h1
    intro d hd
    simp only [List.mem_cons, Event.data.injEq, reduceCtorEq, false_or, List.not_mem_nil, or_false] at hd
    rcases hd with hd | hd <;> exact hd

/-- **An unchanged target is sent without literal data.** -/
theorem plan_identical (base : List UInt8) (bs : Nat) (hbs : 0 < bs) (maxDataOpSize : Nat) :
    ∀ op ∈ (plan H base (signature H base bs) maxDataOpSize).1, op.data = [] := by
  by_cases hb : base = []
  · subst hb
    intro op hop
    unfold plan at hop
    simp [signature_empty, chunksAll] at hop
  · obtain ⟨_, g, hh⟩ := signature_nonempty H base bs hbs hb
    have hn := g.n_pos
    have hne : ¬ (signature H base bs).hashes.length = 0 := by omega
    have hall := coreEvents_identical H base (signature H base bs) (effMaxOp maxDataOpSize) g hh
    intro op hop
    unfold plan at hop
    simp only [hne, if_false] at hop
    by_cases hex : ((coreEvents H (signature H base bs) (effMaxOp maxDataOpSize) base).2 != Exit.ok) = true
    · simp only [hex, if_true] at hop
      exact evOps_no_data _ _ _ hall op hop
    · simp only [hex, Bool.false_eq_true, if_false, List.mem_append] at hop
      rcases hop with hop | hop
      · exact evOps_no_data _ _ _ hall op hop
      · exact flushOps_no_data _ op hop

end

end Mutagen.Proofs.Rsync
