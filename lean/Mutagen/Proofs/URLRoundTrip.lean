import Mutagen.Proofs.URLDocker
/-!
Docker and local round trips, and the combination of the three cases (core Lean only).
-/
namespace Mutagen.Proofs.URL
open Mutagen.Model.URL

theorem dockerTail_ok {P : Platform} {kind : Kind} {first : Bool} {user container path0 : Str} {u : URL}
    (h : dockerTail P kind first user container path0 = .ok u) :
    (startsWithDash user || startsWithDash container) = false ∧
    ∃ path, dockerPath kind path0 = .ok path ∧
      u = { kind := kind, protocol := .docker, user := user, host := container, port := 0, path := path,
            environment := captureEnvironment P kind first, parameters := [] } := by
  unfold dockerTail at h
  by_cases hd : (startsWithDash user || startsWithDash container) = true
  · simp [hd] at h
  · rw [if_neg hd] at h
    cases hp : dockerPath kind path0 with
    | error e => simp [hp] at h
    | ok path =>
      simp only [hp] at h
      refine ⟨by simpa using hd, path, rfl, ?_⟩
      injection h with h
      exact h.symm

theorem drop_prefix (body : Str) : (dockerURLPrefix ++ body).drop dockerURLPrefix.length = body := by
  simp

/-- Parsing `docker://` followed by `[user@]container<split>x`. -/
theorem docker_reparse (P : Platform) {kind : Kind} (first : Bool) {user container : Str}
    (hk : kind ≠ .unsupported) (hh : DockerHead kind user container) (x : Str) :
    parse P (dockerURLPrefix ++ (tgt user container ++ splitCharacter kind :: x)) kind first =
      dockerTail P kind first user container (splitCharacter kind :: x) := by
  unfold parse
  rw [if_neg hk, if_neg (by simp [dockerURLPrefix_eq]), isDockerURL_prefix]
  simp only [if_true]
  unfold parseDocker
  rw [drop_prefix, parseDockerBody_of_head P first hh x]

/-- **Docker URLs round-trip.** -/
theorem docker_round_trip (P : Platform) {s : Str} {kind : Kind} {first : Bool} {u : URL}
    (hk : kind ≠ .unsupported) (h : parseDocker P s kind first = .ok u) :
    ensureValid P u = .ok () ∧ ∃ f, format u [] = some f ∧ parse P f kind first = .ok u := by
  unfold parseDocker at h
  obtain ⟨user, container, rest, hh, ebody, ht⟩ := parseDockerBody_ok h
  obtain ⟨hd, path, hp, hu⟩ := dockerTail_ok ht
  have hd' := hd
  simp only [Bool.or_eq_false_iff] at hd'
  have hvc : validComponents u = .ok () := by
    subst hu
    simp [validComponents, hh.container_ne, hd'.1, hd'.2]
  have htarget : target u = tgt user container := by subst hu; rfl
  cases kind with
  | unsupported => exact absurd rfl hk
  | synchronization =>
    have hsc : splitCharacter .synchronization = '/' := by simp [splitCharacter]
    rw [hsc] at hp ht ebody
    simp only [dockerPath] at hp
    injection hp with hp
    obtain ⟨rest', htext, hsame⟩ := dockerSyncPath_text rest
    rw [hp] at htext
    obtain ⟨hne, hhead⟩ := dockerPathText_some htext
    constructor
    · unfold ensureValid
      rw [if_neg (by subst hu; simp), hvc]
      subst hu
      simp [validPath, hne, hhead]
    · refine ⟨dockerURLPrefix ++ (tgt user container ++ '/' :: rest'), ?_, ?_⟩
      · have hbody : formatDockerBody u = some (tgt user container ++ '/' :: rest') := by
          unfold formatDockerBody
          rw [htarget]
          subst hu
          simp only [htext]
        subst hu
        simp [format, formatDocker, hbody]
      · have := docker_reparse P first hk hh rest'
        rw [hsc] at this
        rw [this]
        unfold dockerTail
        rw [if_neg (by simp [hd])]
        simp only [dockerPath, hsame, hp]
        rw [hu]
  | forwarding =>
    have hsc : splitCharacter .forwarding = ':' := by simp [splitCharacter]
    rw [hsc] at hp ht ebody
    simp only [dockerPath, List.drop_succ_cons, List.drop_zero] at hp
    cases hf : fwdParse rest with
    | error e => simp [hf] at hp
    | ok r =>
      simp only [hf] at hp
      injection hp with hp
      constructor
      · unfold ensureValid
        rw [if_neg (by subst hu; simp), hvc]
        subst hu
        subst hp
        simp [validPath, hf]
      · refine ⟨dockerURLPrefix ++ (tgt user container ++ ':' :: rest), ?_, ?_⟩
        · have hbody : formatDockerBody u = some (tgt user container ++ ':' :: rest) := by
            unfold formatDockerBody
            rw [htarget]
            subst hu
            simp [hp]
          subst hu
          simp [format, formatDocker, hbody]
        · have := docker_reparse P first hk hh rest
          rw [hsc] at this
          rw [this, ht]

/-! ## Local URLs -/

theorem posixIsAbs_cons {n : Str} (h : posixIsAbs n = true) : ∃ r, n = '/' :: r := by
  cases n with
  | nil => simp [posixIsAbs] at h
  | cons c r =>
    by_cases hc : c = '/'
    · exact ⟨r, by rw [hc]⟩
    · unfold posixIsAbs at h
      split at h
      · next heq => simp at heq; exact absurd heq.1 hc
      · exact Bool.noConfusion h

theorem unix_toList : "unix".toList = ['u', 'n', 'i', 'x'] := by decide

/-- **Local URLs round-trip** (POSIX; `filesystem.Normalize` absolute and idempotent). -/
theorem local_round_trip (ext : Bool) (norm env : Str → Option Str) (hN : NormSpec (posix ext norm env))
    {s : Str} {kind : Kind} {first : Bool} {u : URL} (hk : kind ≠ .unsupported) (hne : s ≠ [])
    (hnd : isDockerURL s = false) (hns : isSCPSSHURL (posix ext norm env) s kind = false)
    (h : parseLocal (posix ext norm env) s kind = .ok u) :
    ensureValid (posix ext norm env) u = .ok () ∧
      ∃ f, format u [] = some f ∧ parse (posix ext norm env) f kind first = .ok u := by
  cases kind with
  | unsupported => exact absurd rfl hk
  | synchronization =>
    simp only [parseLocal] at h
    cases hn : (posix ext norm env).normalize s with
    | none => simp [hn] at h
    | some n =>
      simp only [hn] at h
      injection h with h
      obtain ⟨habs, hidem⟩ := hN s n hn
      obtain ⟨r, rfl⟩ := posixIsAbs_cons (by simpa [posix] using habs)
      subst h
      constructor
      · have : (posix ext norm env).isAbs ('/' :: r) = true := habs
        simp [ensureValid, validComponents, validPath, localURL, this]
      · refine ⟨'/' :: r, rfl, ?_⟩
        unfold parse
        rw [if_neg (by simp), if_neg (by simp), not_isDockerURL_slash]
        simp only [Bool.false_eq_true, if_false]
        have : isSCPSSHURL (posix ext norm env) ('/' :: r) .synchronization = false := by
          simp [isSCPSSHURL, posix, colonBeforeSlash]
        rw [this]
        simp only [Bool.false_eq_true, if_false, parseLocal, hidem]
  | forwarding =>
    simp only [parseLocal] at h
    cases hf : fwdParse s with
    | error e => simp [hf] at h
    | ok pa =>
      obtain ⟨proto, addr⟩ := pa
      simp only [hf] at h
      obtain ⟨es, hcol, hv, haddr⟩ := fwdParse_ok hf
      by_cases hunix : proto = "unix".toList
      · rw [if_pos hunix] at h
        subst hunix
        cases hn : (posix ext norm env).normalize addr with
        | none => simp [hn] at h
        | some n =>
          simp only [hn] at h
          injection h with h
          obtain ⟨habs, hidem⟩ := hN addr n hn
          obtain ⟨r, rfl⟩ := posixIsAbs_cons (by simpa [posix] using habs)
          have hfp : fwdParse ("unix".toList ++ ':' :: ('/' :: r)) = .ok ("unix".toList, '/' :: r) :=
            fwdParse_append "unix".toList ('/' :: r) hcol hv (by simp)
          subst h
          constructor
          · have : (posix ext norm env).isAbs ('/' :: r) = true := habs
            have hfp' := hfp
            simp only [unix_toList, List.cons_append, List.nil_append] at hfp'
            simp [ensureValid, validComponents, validPath, localURL, hfp', this]
          · refine ⟨"unix".toList ++ ':' :: ('/' :: r), rfl, ?_⟩
            unfold parse
            have hnd' : isDockerURL ("unix".toList ++ ':' :: ('/' :: r)) = false := by
              rw [unix_toList]
              simp [isDockerURL, dockerURLPrefix_eq, lhp_cons, matchesLower]
            have hns' : isSCPSSHURL (posix ext norm env) ("unix".toList ++ ':' :: ('/' :: r)) .forwarding = false := by
              simp only [isSCPSSHURL, hfp]
            rw [if_neg (by simp), if_neg (by simp), hnd', hns']
            simp only [Bool.false_eq_true, if_false, parseLocal, hfp, if_true, hidem]
      · rw [if_neg hunix] at h
        injection h with h
        subst h
        constructor
        · have hunix' : proto ≠ ['u', 'n', 'i', 'x'] := by rw [← unix_toList]; exact hunix
          simp [ensureValid, validComponents, validPath, localURL, hf, hunix']
        · refine ⟨s, rfl, ?_⟩
          unfold parse
          rw [if_neg (by simp), if_neg hne, hnd, hns]
          simp only [Bool.false_eq_true, if_false, parseLocal, hf, hunix]

/-! ## For concrete examples -/

instance : DecidableEq (Except Err URL) := fun a b =>
  match a, b with
  | .ok x, .ok y => if h : x = y then isTrue (by rw [h]) else isFalse (by intro e; injection e with e; exact h e)
  | .error x, .error y => if h : x = y then isTrue (by rw [h]) else isFalse (by intro e; injection e with e; exact h e)
  | .ok _, .error _ => isFalse (by intro e; cases e)
  | .error _, .ok _ => isFalse (by intro e; cases e)

theorem natToDec_zero : natToDec 0 = ['0'] := by
  unfold natToDec; decide

/-- A platform for examples: nothing normalizes, empty environment. -/
def exampleP : Platform := posix false (fun _ => none) (fun _ => none)

def sshExample (host : String) (port : Nat) (path : String) : URL :=
  { kind := .synchronization, protocol := .ssh, user := [], host := host.toList, port := port,
    path := path.toList, environment := [], parameters := [] }

end Mutagen.Proofs.URL
