import Mutagen.Proofs.ScanSim
import Mutagen.Proofs.ScanAccel
/-!
C13, assembly: the accelerated scan of `f₁` after a cold scan of `f₀` against the
cold scan of `f₁`.
-/
namespace Mutagen.Proofs.ScanAccelMain
open Mutagen.Model Mutagen.Model.ScanFS Mutagen.Proofs.ScanFrame Mutagen.Proofs.ScanPaths Mutagen.Proofs.ScanFS Mutagen.Proofs.ScanCold Mutagen.Proofs.ScanReuse Mutagen.Proofs.ScanSim Mutagen.Proofs.ScanAccel Mutagen.Proofs.ScanIgnKeys

mutual
theorem covers_dev (cfg : Cfg) (d : Nat) (dirty : List String) : (c₁ : Node) → (p : String) → (c₀ : Node) →
    Covers cfg dirty p c₀ c₁ → Covers { cfg with deviceID := d } dirty p c₀ c₁
  | .dir _ cs₁, p, c₀, h => by
    cases c₀ with
    | dir d₀ cs₀ =>
      simp only [Covers] at h ⊢
      exact coversL_dev cfg d dirty cs₁ _ cs₀ h
    | file _ _ _ _ _ => simp [Covers]
    | symlink _ => simp [Covers]
    | other _ => simp [Covers]
  | .file _ _ _ _ _, p, c₀, h => by
    cases c₀ <;> simp only [Covers] at h ⊢ <;> exact h
  | .symlink _, _, _, _ => by simp [Covers]
  | .other _, _, _, _ => by simp [Covers]
theorem coversL_dev (cfg : Cfg) (d : Nat) (dirty : List String) : (cs₁ : Children) → (pfx : String) → (cs₀ : Children) →
    CoversL cfg dirty pfx cs₀ cs₁ → CoversL { cfg with deviceID := d } dirty pfx cs₀ cs₁
  | [], _, _, _ => by simp [CoversL]
  | (raw₁, c₁) :: rest, pfx, cs₀, h => by
    simp only [CoversL] at h ⊢
    refine ⟨?_, coversL_dev cfg d dirty rest pfx cs₀ h.2⟩
    intro name hn raw₀ c₀ hm hn₀
    have := h.1 name hn raw₀ c₀ hm hn₀
    exact ⟨covers_dev cfg d dirty c₁ _ c₀ this.1, this.2⟩
end

/-- The accelerated scan of a directory root with a usable baseline and recheck paths. -/
theorem scan_accel_dir (cfg : Cfg) (s : Snapshot) (recheck : List String) (cache : Cache) (ign : IgnoreCache)
    (dev : Nat) (cs : Children) (E : Entry) (dirty : List String)
    (hc : s.content = some E) (hk : E.kind = .directory) (hx : s.preservesExec = cfg.preservesExec)
    (hd : s.decomposes = cfg.decomposes) (hr : recheck ≠ []) (hdirty : dirtyClosure recheck [] = some dirty) :
    scan cfg { baseline := some s, recheck := recheck, cache := cache, ignoreCache := ign } (some (.dir dev cs)) =
      outOf { cfg with deviceID := dev }
        (scanNode { cfg with deviceID := dev } { dirty := dirty, cache := cache, ignoreCache := ign } "" true (some E) false
          (.none, "") (.dir dev cs) {}) := by
  unfold scan
  cases recheck with
  | nil => exact absurd rfl hr
  | cons r rs =>
    simp [hc, hk, hx, hd, hdirty]

/-- The core of C13. -/
theorem accel_eq_cold_core (cfg : Cfg) (dev : Nat) (cs₀ cs₁ : Children) (recheck dirty : List String) (out₀ : Out) (E₀ : Entry)
    (hok₀ : NamesOK cfg validName (.dir dev cs₀)) (hok₁ : NamesOK cfg validName (.dir dev cs₁))
    (h₀ : scanCold cfg (some (.dir dev cs₀)) = .ok out₀)
    (hroot : out₀.snapshot.content = some E₀) (hrootk : E₀.kind = .directory)
    (hr : recheck ≠ []) (hdirty : dirtyClosure recheck [] = some dirty)
    (hcov : Covers cfg dirty "" (.dir dev cs₀) (.dir dev cs₁)) :
    match scan cfg (prevOf out₀ recheck) (some (.dir dev cs₁)), scanCold cfg (some (.dir dev cs₁)) with
    | .ok w, .ok c => w.snapshot = c.snapshot ∧ w.cache = c.cache ∧ IgnOK cfg w.ignoreCache ∧ IgnOK cfg c.ignoreCache ∧
        (∀ k, k ∈ ikeys w.ignoreCache → k ∈ ikeys c.ignoreCache) ∧
        (∀ k, k ∈ ikeys c.ignoreCache → k ∈ ikeys w.ignoreCache ∨
          ∃ cp B, cp ≠ "" ∧ cp ∉ dirty ∧ BaseAt E₀ cp B ∧ Under k.1 cp ∧
            ¬ (TrackedKey cp B k ∧ k ∈ ikeys out₀.ignoreCache))
    | .error e, .error e' => e = e'
    | _, _ => False := by
  -- the cold scan of the old tree
  rw [scanCold_dir] at h₀
  have hcold₀ : ∃ d₀, scanNode { cfg with deviceID := dev } {} "" true none false (.none, "") (.dir dev cs₀) {} = (.entry E₀, d₀) ∧
      out₀ = { snapshot := { content := some E₀, preservesExec := cfg.preservesExec, decomposes := cfg.decomposes,
                             dirs := d₀.dirs, files := d₀.files, links := d₀.links, size := d₀.size },
               cache := d₀.newCache, ignoreCache := d₀.newIgnore } := by
    cases hs : scanNode { cfg with deviceID := dev } {} "" true none false (.none, "") (.dir dev cs₀) {} with
    | mk r d₀ =>
      rw [hs] at h₀
      cases r with
      | entry e =>
        simp only [outOf] at h₀
        cases h₀
        simp only at hroot
        cases hroot
        exact ⟨d₀, rfl, rfl⟩
      | notExist => simp [outOf] at h₀
      | abort => simp [outOf] at h₀
  obtain ⟨d₀, hs₀, hout₀⟩ := hcold₀
  subst hout₀
  -- its ignore cache agrees with the ignorer
  have hign₀ : IgnOK { cfg with deviceID := dev } d₀.newIgnore := by
    have := sim_node { cfg with deviceID := dev } {} E₀ (fun kv hkv => by cases hkv) (.dir dev cs₀) "" true false (.none, "") none none
      false (.none, "") (NamesOK_dev cfg dev validName _ hok₀)
      ⟨(fun q _ => rfl), (fun c hc => by cases hc), (fun c hc => by cases hc)⟩ (Or.inl rfl) (fun bb hbb => by cases hbb)
      (fun c hc => by cases hc)
    simp only [cold] at this
    rw [hs₀] at this
    exact this.2.2.2.2.2.2.1
  have hign₁ : IgnOK { cfg with deviceID := dev }
      (scanNode { cfg with deviceID := dev } {} "" true none false (.none, "") (.dir dev cs₁) {}).2.newIgnore := by
    have := sim_node { cfg with deviceID := dev } {} E₀ (fun kv hkv => by cases hkv) (.dir dev cs₁) "" true false (.none, "") none none
      false (.none, "") (NamesOK_dev cfg dev validName _ hok₁)
      ⟨(fun q _ => rfl), (fun c hc => by cases hc), (fun c hc => by cases hc)⟩ (Or.inl rfl) (fun bb hbb => by cases hbb)
      (fun c hc => by cases hc)
    simp only [cold] at this
    exact this.2.2.2.2.2.2.1
  -- the accelerated scan
  rw [prevOf, scan_accel_dir cfg _ recheck d₀.newCache d₀.newIgnore dev cs₁ E₀ dirty rfl hrootk rfl rfl hr hdirty, scanCold_dir]
  have hsim := sim_node { cfg with deviceID := dev } { dirty := dirty, cache := d₀.newCache, ignoreCache := d₀.newIgnore } E₀ hign₀
    (.dir dev cs₁) "" true false (.none, "") (some E₀) (some (.dir dev cs₀)) false (.none, "")
    (NamesOK_dev cfg dev validName _ hok₁)
    ⟨(fun q _ => by simp only [cold]; rw [hs₀]), (fun c hc => by cases hc; exact NamesOK_dev cfg dev validName _ hok₀),
      (fun c hc _ _ => rfl)⟩
    (Or.inr ⟨_, E₀, rfl, by simp only [cold]; rw [hs₀], hrootk, rfl⟩)
    (fun bb hbb => by cases hbb; exact BaseAt.root)
    (fun c hc => by cases hc; exact covers_dev cfg dev dirty _ _ _ hcov)
  simp only [cold] at hsim
  cases hra : scanNode { cfg with deviceID := dev } { dirty := dirty, cache := d₀.newCache, ignoreCache := d₀.newIgnore } "" true
      (some E₀) false (.none, "") (.dir dev cs₁) {} with
  | mk ra da =>
  cases hrc : scanNode { cfg with deviceID := dev } {} "" true none false (.none, "") (.dir dev cs₁) {} with
  | mk rc dc =>
  rw [hra, hrc] at hsim
  rw [hrc] at hign₁
  obtain ⟨hr', h1, h2, h3, h4, h5, h6, h7, h8⟩ := hsim
  simp only at hr' h1 h2 h3 h4 h5 h6 h7 h8
  subst hr'
  cases ra with
  | entry e =>
    simp only [outOf]
    refine ⟨?_, h1, h6, hign₁, h7, h8⟩
    simp [h2, h3, h4, h5]
  | notExist => simp [outOf]
  | abort => simp [outOf]

/-! ## Helpers for the non-vacuity example -/

theorem exNames (n : Node) (a : Node) (bkids : Children) (h : n = .dir 7 [([97], a), ([98], .dir 7 bkids)])
    (ha : NamesOK (exCfg decAB) validName a) (hb : NamesOK (exCfg decAB) validName (.dir 7 bkids)) :
    NamesOK (exCfg decAB) validName n := by
  subst h
  have e1 : entryName (exCfg decAB) [97] = some "a" := by decide
  have e2 : entryName (exCfg decAB) [98] = some "b" := by decide
  simp only [NamesOK, NamesOKL, entryNames, List.filterMap, e1, e2]
  refine ⟨by decide, ⟨?_, ha, ?_, ?_, trivial⟩⟩
  · intro s hs; cases hs; decide
  · intro s hs; cases hs; decide
  · simpa [NamesOK, entryNames] using hb

theorem exNamesLeafDir (c : Node) (hc : ∀ d cs, c ≠ .dir d cs) :
    NamesOK (exCfg decAB) validName (.dir 7 [([97], c)]) := by
  have e1 : entryName (exCfg decAB) [97] = some "a" := by decide
  simp only [NamesOK, NamesOKL, entryNames, List.filterMap, e1]
  refine ⟨by decide, ⟨?_, ?_, trivial⟩⟩
  · intro s hs; cases hs; decide
  · cases c <;> simp

theorem scanCold_file (cfg : Cfg) (content : Bytes) (perm : Nat) (mtime : MTime) (size ino : Nat) :
    scanCold cfg (some (.file content perm mtime size ino)) =
      outOf cfg (scanNode cfg {} "" true none false (.none, "") (.file content perm mtime size ino) {}) := by
  rfl

/-- The accelerated scan of a file root with recheck paths: the handler runs with the
old caches (and no directory baseline). -/
theorem scan_accel_file (cfg : Cfg) (s : Snapshot) (recheck : List String) (cache : Cache) (ign : IgnoreCache)
    (content : Bytes) (perm : Nat) (mtime : MTime) (size ino : Nat) (dirty : List String)
    (hr : recheck ≠ []) (hdirty : dirtyClosure recheck [] = some dirty) :
    ∃ X, scan cfg { baseline := some s, recheck := recheck, cache := cache, ignoreCache := ign }
        (some (.file content perm mtime size ino)) =
      outOf cfg (scanNode cfg { dirty := X, cache := cache, ignoreCache := ign } "" true none false
        (.none, "") (.file content perm mtime size ino) {}) := by
  unfold scan
  cases recheck with
  | nil => exact absurd rfl hr
  | cons r rs =>
    cases hc : s.content with
    | none => exact ⟨[], by simp [hc]⟩
    | some c =>
      by_cases hcond : ((c.kind != Kind.file) || s.preservesExec != cfg.preservesExec || s.decomposes != cfg.decomposes) = true
      · refine ⟨[], ?_⟩
        simp at hcond
        simp [hc, hcond]
      · refine ⟨dirty, ?_⟩
        simp at hcond
        simp [hc, hcond, hdirty]

/-- C13 for file roots. -/
theorem accel_eq_cold_file_core (cfg : Cfg) (c₀ : Bytes) (p₀ : Nat) (m₀ : MTime) (s₀ i₀ : Nat)
    (c₁ : Bytes) (p₁ : Nat) (m₁ : MTime) (s₁ i₁ : Nat) (recheck dirty : List String) (out₀ : Out)
    (h₀ : scanCold cfg (some (.file c₀ p₀ m₀ s₀ i₀)) = .ok out₀)
    (hr : recheck ≠ []) (hdirty : dirtyClosure recheck [] = some dirty)
    (hcov : m₀ = m₁ → s₀ = s₁ → i₀ = i₁ → c₀ = c₁) :
    match scan cfg (prevOf out₀ recheck) (some (.file c₁ p₁ m₁ s₁ i₁)), scanCold cfg (some (.file c₁ p₁ m₁ s₁ i₁)) with
    | .ok w, .ok c => w.snapshot = c.snapshot ∧ w.cache = c.cache ∧ w.ignoreCache = [] ∧ c.ignoreCache = []
    | .error e, .error e' => e = e'
    | _, _ => False := by
  rw [scanCold_file] at h₀
  have hcold₀ : ∃ r₀ d₀, scanNode cfg {} "" true none false (.none, "") (.file c₀ p₀ m₀ s₀ i₀) {} = (r₀, d₀) ∧
      out₀.cache = d₀.newCache ∧ out₀.ignoreCache = d₀.newIgnore := by
    cases hs : scanNode cfg {} "" true none false (.none, "") (.file c₀ p₀ m₀ s₀ i₀) {} with
    | mk r d₀ =>
      rw [hs] at h₀
      cases r with
      | entry e =>
        simp only [outOf] at h₀
        cases h₀
        exact ⟨_, d₀, rfl, rfl, rfl⟩
      | notExist => simp [outOf] at h₀
      | abort => simp [outOf] at h₀
  obtain ⟨r₀, d₀, hs₀, hcache₀, hignc₀⟩ := hcold₀
  have hnil₀ : d₀.newIgnore = [] := by
    have := scanFile_ign cfg {} "" true c₀ p₀ m₀ s₀ i₀ {}
    unfold scanNode at hs₀
    rw [hs₀] at this
    exact this
  obtain ⟨X, hX⟩ := scan_accel_file cfg out₀.snapshot recheck out₀.cache out₀.ignoreCache c₁ p₁ m₁ s₁ i₁ dirty hr hdirty
  rw [prevOf, hX, scanCold_file, hcache₀, hignc₀, hnil₀]
  have hsim := sim_node cfg { dirty := X, cache := d₀.newCache, ignoreCache := [] } untracked (fun kv hkv => by cases hkv)
    (.file c₁ p₁ m₁ s₁ i₁) "" true false (.none, "") none (some (.file c₀ p₀ m₀ s₀ i₀)) false (.none, "")
    trivial
    ⟨(fun q _ => by simp only [cold]; rw [hs₀]), (fun c hc => by cases hc; trivial),
      (fun c hc h _ => by cases hc; cases h)⟩
    (Or.inl rfl)
    (fun bb hbb => by cases hbb)
    (fun c hc => by cases hc; exact hcov)
  simp only [cold] at hsim
  have hnil₁ : (scanNode cfg {} "" true none false (.none, "") (.file c₁ p₁ m₁ s₁ i₁) {}).2.newIgnore = [] := by
    unfold scanNode
    exact scanFile_ign cfg {} "" true c₁ p₁ m₁ s₁ i₁ {}
  have hnil₁' : (scanNode cfg { dirty := X, cache := d₀.newCache, ignoreCache := [] } "" true none false (.none, "")
      (.file c₁ p₁ m₁ s₁ i₁) {}).2.newIgnore = [] := by
    unfold scanNode
    exact scanFile_ign cfg _ "" true c₁ p₁ m₁ s₁ i₁ {}
  cases hra : scanNode cfg { dirty := X, cache := d₀.newCache, ignoreCache := [] } "" true none false (.none, "")
      (.file c₁ p₁ m₁ s₁ i₁) {} with
  | mk ra da =>
  cases hrc : scanNode cfg {} "" true none false (.none, "") (.file c₁ p₁ m₁ s₁ i₁) {} with
  | mk rc dc =>
  rw [hra, hrc] at hsim
  rw [hrc] at hnil₁
  rw [hra] at hnil₁'
  obtain ⟨hr', h1, h2, h3, h4, h5, h6, h7, h8⟩ := hsim
  simp only at hr' h1 h2 h3 h4 h5 h6 h7 h8 hnil₁ hnil₁'
  subst hr'
  cases ra with
  | entry e =>
    simp only [outOf]
    refine ⟨?_, h1, hnil₁', hnil₁⟩
    simp [h2, h3, h4, h5]
  | notExist => simp [outOf]
  | abort => simp [outOf]

end Mutagen.Proofs.ScanAccelMain
