import Mutagen.Proofs.Entry
import Mutagen.Proofs.Apply
import Mutagen.Model.Reconcile
/-!
Helper lemmas about the reconciler model (`Mutagen.Model.Reconcile`) for the
theorems of C01–C06.
-/
namespace Mutagen.Model


@[simp] theorem Plan.append_anc (a b : Plan) : (a ++ b).anc = a.anc ++ b.anc := rfl
@[simp] theorem Plan.append_alpha (a b : Plan) : (a ++ b).alpha = a.alpha ++ b.alpha := rfl
@[simp] theorem Plan.append_beta (a b : Plan) : (a ++ b).beta = a.beta ++ b.beta := rfl
@[simp] theorem Plan.append_conflicts (a b : Plan) : (a ++ b).conflicts = a.conflicts ++ b.conflicts := rfl

theorem Plan.concat_alpha (ps : List Plan) : (Plan.concat ps).alpha = ps.flatMap (·.alpha) := by
  induction ps with
  | nil => rfl
  | cons p ps ih => simp [Plan.concat, ih]
theorem Plan.concat_beta (ps : List Plan) : (Plan.concat ps).beta = ps.flatMap (·.beta) := by
  induction ps with
  | nil => rfl
  | cons p ps ih => simp [Plan.concat, ih]
theorem Plan.concat_anc (ps : List Plan) : (Plan.concat ps).anc = ps.flatMap (·.anc) := by
  induction ps with
  | nil => rfl
  | cons p ps ih => simp [Plan.concat, ih]
theorem Plan.concat_conflicts (ps : List Plan) : (Plan.concat ps).conflicts = ps.flatMap (·.conflicts) := by
  induction ps with
  | nil => rfl
  | cons p ps ih => simp [Plan.concat, ih]

theorem handleOneWaySafe_alpha (path : Path) (a al be : Option Entry) :
    (handleOneWaySafe path a al be).alpha = [] := by
  unfold handleOneWaySafe
  simp only []
  repeat' split
  all_goals rfl

theorem handleOneWayReplica_alpha (path : Path) (a al be : Option Entry) :
    (handleOneWayReplica path a al be).alpha = [] := by
  unfold handleOneWayReplica
  simp only []
  repeat' split
  all_goals rfl

theorem reconcile_oneWay_alpha (mode : Mode) (hm : mode = .oneWaySafe ∨ mode = .oneWayReplica)
    (path : Path) (a al be : Option Entry) : (reconcile mode path a al be).alpha = [] := by
  fun_induction reconcile mode path a al be with
  | case1 => rfl
  | case2 => rfl
  | case3 => rfl
  | case4 => rfl
  | case5 path ancestor alpha beta h1 h2 h3 h4 here anc' ih =>
    simp only [Plan.append_alpha, Plan.concat_alpha, List.flatMap_map]
    have hhere : here.alpha = [] := by
      simp only [here]; split <;> rfl
    rw [hhere, List.nil_append]
    apply flatMap_eq_nil_of_forall
    intro n _
    exact ih n
  | case6 path ancestor alpha beta h1 h2 h3 h4 =>
    unfold handleDisagreement
    rcases hm with rfl | rfl
    · exact handleOneWaySafe_alpha _ _ _ _
    · exact handleOneWayReplica_alpha _ _ _ _


/-! ## Paths in diffs and plans -/

theorem diff_path_prefix (path : Path) (x y : Option Entry) : ∀ c ∈ diff path x y, path <+: c.path := by
  fun_induction diff path x y with
  | case1 path base target _ => intro c hc; simp at hc; subst hc; exact List.prefix_refl _
  | case2 path base target _ ih =>
    intro c hc
    simp only [List.mem_flatMap, List.mem_attach, true_and] at hc
    obtain ⟨n, hc⟩ := hc
    exact (List.prefix_append path [n.1]).trans (ih n c hc)

theorem incomparable_symm {p q : Path} (h : incomparable p q) : incomparable q p := ⟨h.2, h.1⟩

/-- Paths below different children of the same node are incomparable. -/
theorem incomparable_of_children {path x y : Path} {n m : Name} (hnm : n ≠ m)
    (hx : (path ++ [n]) <+: x) (hy : (path ++ [m]) <+: y) : incomparable x y := by
  have key : ∀ {x y : Path} {n m : Name}, n ≠ m → (path ++ [n]) <+: x → (path ++ [m]) <+: y → ¬ x <+: y := by
    intro x y n m hnm hx hy hxy
    have h1 : (path ++ [n]) <+: y := hx.trans hxy
    have h2 := List.prefix_of_prefix_length_le h1 hy (by simp)
    have h3 := h2.eq_of_length (by simp)
    have := List.append_cancel_left h3
    simp at this
    exact hnm this
  exact ⟨key hnm hx hy, key (Ne.symm hnm) hy hx⟩

@[simp] theorem Plan.actionPaths_empty : ({} : Plan).actionPaths = [] := rfl

theorem Plan.actionPaths_append_perm (p q : Plan) :
    (p ++ q).actionPaths.Perm (p.actionPaths ++ q.actionPaths) := by
  simp only [Plan.actionPaths, Plan.append_alpha, Plan.append_beta, Plan.append_conflicts, List.map_append]
  -- (a1 ++ a2) ++ (b1 ++ b2) ++ (c1 ++ c2)  ~  (a1 ++ b1 ++ c1) ++ (a2 ++ b2 ++ c2)
  generalize p.alpha.map (·.path) = a1
  generalize q.alpha.map (·.path) = a2
  generalize p.beta.map (·.path) = b1
  generalize q.beta.map (·.path) = b2
  generalize p.conflicts.map (·.root) = c1
  generalize q.conflicts.map (·.root) = c2
  apply List.perm_iff_count.mpr
  intro x
  simp only [List.count_append]
  omega

theorem Plan.actionPaths_concat_perm (ps : List Plan) :
    (Plan.concat ps).actionPaths.Perm (ps.flatMap Plan.actionPaths) := by
  induction ps with
  | nil => simp [Plan.concat]
  | cons p ps ih =>
    simp only [Plan.concat, List.flatMap_cons]
    exact (Plan.actionPaths_append_perm p _).trans (List.Perm.append (List.Perm.refl _) ih)


theorem handleBidirectional_actions (mode : Mode) (path : Path) (a al be : Option Entry) :
    (handleBidirectional mode path a al be).actionPaths = [path] := by
  unfold handleBidirectional
  simp only []
  repeat' split
  all_goals simp [Plan.actionPaths, Plan.conflict, Plan.betaChange, Plan.alphaChange]

theorem handleOneWaySafe_actions (path : Path) (a al be : Option Entry) :
    (handleOneWaySafe path a al be).actionPaths = [path] ∨ (handleOneWaySafe path a al be).actionPaths = [] := by
  unfold handleOneWaySafe
  simp only []
  repeat' split
  all_goals simp [Plan.actionPaths, Plan.conflict, Plan.betaChange, Plan.ancChange]

theorem handleOneWayReplica_actions (path : Path) (a al be : Option Entry) :
    (handleOneWayReplica path a al be).actionPaths = [path] := by
  unfold handleOneWayReplica
  simp only []
  repeat' split
  all_goals simp [Plan.actionPaths, Plan.conflict, Plan.betaChange]

theorem handleDisagreement_actions (mode : Mode) (path : Path) (a al be : Option Entry) :
    (handleDisagreement mode path a al be).actionPaths = [path] ∨
      (handleDisagreement mode path a al be).actionPaths = [] := by
  unfold handleDisagreement
  cases mode
  · exact Or.inl (handleBidirectional_actions _ _ _ _ _)
  · exact Or.inl (handleBidirectional_actions _ _ _ _ _)
  · exact handleOneWaySafe_actions _ _ _ _
  · exact Or.inl (handleOneWayReplica_actions _ _ _ _)

/-- All actions of a (sub-)plan lie at or below the path it was computed for,
and they are pairwise incomparable. -/
theorem reconcile_actions (mode : Mode) (path : Path) (a al be : Option Entry) :
    (∀ x ∈ (reconcile mode path a al be).actionPaths, path <+: x) ∧
      List.Pairwise incomparable (reconcile mode path a al be).actionPaths := by
  fun_induction reconcile mode path a al be with
  | case1 => simp
  | case2 => simp
  | case3 => simp [Plan.actionPaths, Plan.ancChange]
  | case4 => simp
  | case5 path ancestor alpha beta h1 h2 h3 h4 here anc' ih =>
    have hhere : ∀ X : Plan, (here ++ X).actionPaths = X.actionPaths := by
      intro X
      have h1 : here.alpha = [] := by simp only [here]; split <;> rfl
      have h2 : here.beta = [] := by simp only [here]; split <;> rfl
      have h3 : here.conflicts = [] := by simp only [here]; split <;> rfl
      simp [Plan.actionPaths, h1, h2, h3]
    rw [hhere]
    have hperm := Plan.actionPaths_concat_perm
      ((nameUnion [contents anc', contents alpha, contents beta]).attach.map fun n =>
        reconcile mode (path ++ [n.1]) (lookup n.1 (contents anc')) (lookup n.1 (contents alpha))
          (lookup n.1 (contents beta)))
    rw [List.flatMap_map] at hperm
    constructor
    · intro x hx
      have hx' := hperm.subset hx
      simp only [List.mem_flatMap, List.mem_attach, true_and] at hx'
      obtain ⟨n, hn⟩ := hx'
      exact (List.prefix_append path [n.1]).trans ((ih n).1 x hn)
    · refine hperm.symm.pairwise ?_ incomparable_symm
      rw [List.pairwise_flatMap]
      refine ⟨fun n _ => (ih n).2, ?_⟩
      have hnd : (nameUnion [contents anc', contents alpha, contents beta]).attach.Pairwise (· ≠ ·) := by
        have := nodup_nameUnion [contents anc', contents alpha, contents beta]
        rw [← List.attach_map_subtype_val (nameUnion _)] at this
        exact (List.pairwise_map.mp this).imp (fun h heq => h (by rw [heq]))
      refine hnd.imp ?_
      intro n m hnm x hx y hy
      have hne : n.1 ≠ m.1 := fun h => hnm (Subtype.ext h)
      exact incomparable_of_children hne ((ih n).1 x hx) ((ih m).1 y hy)
  | case6 path ancestor alpha beta h1 h2 h3 h4 =>
    rcases handleDisagreement_actions mode path ancestor alpha beta with h | h <;> rw [h] <;> simp


/-! ## Conflicts are well formed (structure) -/

/-- All changes of the list lie at or below `path`. -/
def ChangesUnder (path : Path) (l : List Change) : Prop := ∀ ch ∈ l, path <+: ch.path

theorem mem_nonDeletion {l : List Change} {ch : Change} (h : ch ∈ nonDeletion l) : ch ∈ l :=
  (List.mem_filter.mp h).1

theorem changesUnder_diff (path : Path) (x y : Option Entry) : ChangesUnder path (diff path x y) :=
  diff_path_prefix path x y

theorem changesUnder_nonDeletion (path : Path) (x y : Option Entry) :
    ChangesUnder path (nonDeletion (diff path x y)) :=
  fun ch h => diff_path_prefix path x y ch (mem_nonDeletion h)

theorem changesUnder_single (path : Path) (o n : Option Entry) :
    ChangesUnder path [{ path := path, old := o, new := n }] := by
  intro ch h; simp at h; subst h; exact List.prefix_refl _

/-- A conflict rooted at `path` with a non-empty beta side whose changes all lie at or below the root. -/
def ConflictShape (path : Path) (c : Conflict) : Prop :=
  c.root = path ∧ c.betaChanges ≠ [] ∧ ChangesUnder path c.alphaChanges ∧ ChangesUnder path c.betaChanges

theorem conflictShape_mk {path : Path} {x y : List Change} (hy : y ≠ []) (hx1 : ChangesUnder path x)
    (hy1 : ChangesUnder path y) : ∀ c ∈ (Plan.conflict path x y).conflicts, ConflictShape path c := by
  intro c hc
  simp [Plan.conflict] at hc
  subst hc
  exact ⟨rfl, hy, hx1, hy1⟩

theorem ne_nil_of_not_isEmpty {α} {l : List α} (h : (!l.isEmpty) = true) : l ≠ [] := by
  intro h'; subst h'; simp at h

theorem ne_nil_of_isEmpty_false {α} {l : List α} (h : ¬ l.isEmpty = true) : l ≠ [] := by
  intro h'; subst h'; simp at h


theorem noConflicts_shape (path : Path) (p : Plan) (h : p.conflicts = []) :
    ∀ c ∈ p.conflicts, ConflictShape path c := by
  intro c hc; rw [h] at hc; cases hc

macro "conflict_case" : tactic =>
  `(tactic| first
    | exact noConflicts_shape _ _ rfl
    | (apply conflictShape_mk
       · first
         | (apply ne_nil_of_not_isEmpty; assumption)
         | (apply ne_nil_of_isEmpty_false; assumption)
       · first
         | exact changesUnder_diff _ _ _
         | exact changesUnder_nonDeletion _ _ _
         | exact changesUnder_single _ _ _
       · first
         | exact changesUnder_diff _ _ _
         | exact changesUnder_nonDeletion _ _ _
         | exact changesUnder_single _ _ _))

theorem handleBidirectional_conflicts (mode : Mode) (path : Path) (a al be : Option Entry) :
    ∀ c ∈ (handleBidirectional mode path a al be).conflicts, ConflictShape path c := by
  unfold handleBidirectional
  simp only []
  repeat' split
  all_goals conflict_case


theorem handleOneWaySafe_conflicts (path : Path) (a al be : Option Entry) :
    ∀ c ∈ (handleOneWaySafe path a al be).conflicts, ConflictShape path c := by
  unfold handleOneWaySafe
  simp only []
  repeat' split
  all_goals conflict_case

theorem handleOneWayReplica_conflicts (path : Path) (a al be : Option Entry) :
    ∀ c ∈ (handleOneWayReplica path a al be).conflicts, ConflictShape path c := by
  unfold handleOneWayReplica
  simp only []
  repeat' split
  all_goals conflict_case

theorem handleDisagreement_conflicts (mode : Mode) (path : Path) (a al be : Option Entry) :
    ∀ c ∈ (handleDisagreement mode path a al be).conflicts, ConflictShape path c := by
  unfold handleDisagreement
  cases mode
  · exact handleBidirectional_conflicts _ _ _ _ _
  · exact handleBidirectional_conflicts _ _ _ _ _
  · exact handleOneWaySafe_conflicts _ _ _ _
  · exact handleOneWayReplica_conflicts _ _ _ _

/-- Every conflict of a (sub-)plan is rooted at or below the path the plan was
computed for, has a non-empty beta side, and names only changes at or below
its root. -/
theorem reconcile_conflicts (mode : Mode) (path : Path) (a al be : Option Entry) :
    ∀ c ∈ (reconcile mode path a al be).conflicts, path <+: c.root ∧ ConflictShape c.root c := by
  fun_induction reconcile mode path a al be with
  | case1 => intro c hc; cases hc
  | case2 => intro c hc; cases hc
  | case3 => intro c hc; cases hc
  | case4 => intro c hc; cases hc
  | case5 path ancestor alpha beta h1 h2 h3 h4 here anc' ih =>
    intro c hc
    have h3 : here.conflicts = [] := by simp only [here]; split <;> rfl
    simp only [Plan.append_conflicts, h3, List.nil_append, Plan.concat_conflicts, List.flatMap_map,
      List.mem_flatMap, List.mem_attach, true_and] at hc
    obtain ⟨n, hn⟩ := hc
    have := ih n c hn
    exact ⟨(List.prefix_append path [n.1]).trans this.1, this.2⟩
  | case6 path ancestor alpha beta h1 h2 h3 h4 =>
    intro c hc
    have := handleDisagreement_conflicts mode path ancestor alpha beta c hc
    exact ⟨by rw [this.1]; exact List.prefix_refl _, by rw [this.1]; exact this⟩


/-! ## What an empty (or deletion-only) diff says about the two trees -/

theorem flatMap_eq_nil_iff' {α β} {l : List α} {f : α → List β} :
    l.flatMap f = [] ↔ ∀ a ∈ l, f a = [] := by
  induction l with
  | nil => simp
  | cons a t ih => simp [List.flatMap_cons, ih]

theorem lookup_none_of_not_mem_union {n : Name} {x y : Option Entry}
    (h : n ∉ nameUnion [contents x, contents y]) :
    lookup n (contents x) = none ∧ lookup n (contents y) = none := by
  constructor
  · exact lookup_eq_none_iff.mpr (fun hk => h (mem_nameUnion.mpr ⟨contents x, by simp, hk⟩))
  · exact lookup_eq_none_iff.mpr (fun hk => h (mem_nameUnion.mpr ⟨contents y, by simp, hk⟩))

/-- An empty diff means the trees agree at every path. -/
theorem sameTree_of_diff_nil (path : Path) (x y : Option Entry) (h : diff path x y = []) : SameTree x y := by
  fun_induction diff path x y with
  | case1 path base target _ => simp at h
  | case2 path base target heq ih =>
    have heq' : shallowEq target base = true := by simpa using heq
    rw [flatMap_eq_nil_iff'] at h
    intro q
    cases q with
    | nil => exact pget_shallowEq heq'
    | cons n q' =>
      rw [pget_cons, pget_cons]
      by_cases hn : n ∈ nameUnion [contents base, contents target]
      · exact ih ⟨n, hn⟩ (h ⟨n, hn⟩ (List.mem_attach _ _)) q'
      · obtain ⟨h1, h2⟩ := lookup_none_of_not_mem_union hn
        rw [h1, h2]

/-- A diff without creations/modifications means the target is obtained from
the base by deletions only. -/
theorem deletionsOnly_of_nonDeletion_nil (path : Path) (x y : Option Entry)
    (h : nonDeletion (diff path x y) = []) : DeletionsOnly x y := by
  fun_induction diff path x y with
  | case1 path base target _ =>
    simp only [nonDeletion, List.filter_cons, List.filter_nil] at h
    cases target with
    | none => intro q; left; simp
    | some t => simp at h
  | case2 path base target heq ih =>
    have heq' : shallowEq target base = true := by simpa using heq
    simp only [nonDeletion, List.filter_flatMap] at h
    rw [flatMap_eq_nil_iff'] at h
    intro q
    cases q with
    | nil => right; exact (pget_shallowEq heq').symm
    | cons n q' =>
      rw [pget_cons, pget_cons]
      by_cases hn : n ∈ nameUnion [contents base, contents target]
      · exact ih ⟨n, hn⟩ (h ⟨n, hn⟩ (List.mem_attach _ _)) q'
      · obtain ⟨h1, h2⟩ := lookup_none_of_not_mem_union hn
        rw [h1, h2]; left; simp

theorem DeletionsOnly.of_sameTree {a s : Option Entry} (h : SameTree a s) : DeletionsOnly a s :=
  fun q => Or.inr (h q).symm

theorem DeletionsOnly.trans_same {a s s' : Option Entry} (h : DeletionsOnly a s) (h' : SameTree s s') :
    DeletionsOnly a s' := by
  intro q
  rcases h q with h1 | h1
  · left; rw [← h' q]; exact h1
  · right; rw [← h' q]; exact h1

theorem SameTree.trans {a b c : Option Entry} (h1 : SameTree a b) (h2 : SameTree b c) : SameTree a c :=
  fun q => (h1 q).trans (h2 q)

theorem SameTree.refl (a : Option Entry) : SameTree a a := fun _ => rfl

/-- If nothing was ever synchronized at this path, "deletions only" means the
endpoint holds nothing either — so the statement also holds against any
richer record of the last synchronization. -/
theorem DeletionsOnly.of_none {s : Option Entry} (h : DeletionsOnly none s) (A : Option Entry) :
    DeletionsOnly A s := by
  intro q
  rcases h q with h1 | h1
  · exact Or.inl h1
  · left; rw [h1]; simp


/-! ## Protected sides: what a planned change may overwrite -/

/-- The change is planned at `path`, its `Old` describes the endpoint's current
content `S`, and `S` differs from the last synchronized content `a` by
deletions only. -/
def ProtectedChange (path : Path) (a S : Option Entry) (c : Change) : Prop :=
  c.path = path ∧ SameTree c.old S ∧ DeletionsOnly a S

theorem same_of_isEmpty {path : Path} {x y : Option Entry} (h : (diff path x y).isEmpty = true) :
    SameTree x y := sameTree_of_diff_nil path x y (by simpa using h)

theorem same_of_unsync {path : Path} {x y : Option Entry} (h : ¬ (!(diff path x y).isEmpty) = true) :
    SameTree x y := sameTree_of_diff_nil path x y (by simpa using h)

theorem del_of_isEmpty {path : Path} {x y : Option Entry}
    (h : (nonDeletion (diff path x y)).isEmpty = true) : DeletionsOnly x y :=
  deletionsOnly_of_nonDeletion_nil path x y (by simpa using h)

theorem del_of_and_left {path : Path} {x y : Option Entry} {b : Bool}
    (h : ((nonDeletion (diff path x y)).isEmpty && b) = true) : DeletionsOnly x y :=
  del_of_isEmpty (by simp only [Bool.and_eq_true] at h; exact h.1)

theorem del_of_and_right {path : Path} {x y : Option Entry} {b : Bool}
    (h : (b && (nonDeletion (diff path x y)).isEmpty) = true) : DeletionsOnly x y :=
  del_of_isEmpty (by simp only [Bool.and_eq_true] at h; exact h.2)

macro "prot_fact" : tactic =>
  `(tactic| first
    | exact SameTree.refl _
    | exact same_of_unsync ‹_›
    | exact (same_of_isEmpty ‹_›).trans (same_of_unsync ‹_›)
    | exact DeletionsOnly.of_sameTree ((same_of_isEmpty ‹_›).trans (same_of_unsync ‹_›))
    | exact (del_of_isEmpty ‹_›).trans_same (same_of_unsync ‹_›)
    | exact (del_of_and_left ‹_›).trans_same (same_of_unsync ‹_›)
    | exact (del_of_and_right ‹_›).trans_same (same_of_unsync ‹_›))

macro "prot_case" : tactic =>
  `(tactic| (intro c hc
             simp [Plan.conflict, Plan.alphaChange, Plan.betaChange, Plan.ancChange] at hc
             try (subst hc; refine ⟨rfl, ?_, ?_⟩ <;> prot_fact)))

/-- In both two-way modes a change is planned for alpha only where alpha lost
content at most (relative to the ancestor). -/
theorem handleBidirectional_alpha (mode : Mode) (path : Path) (a al be : Option Entry) :
    ∀ c ∈ (handleBidirectional mode path a al be).alpha, ProtectedChange path a al c := by
  unfold handleBidirectional
  simp only []
  repeat' split
  all_goals prot_case


/-- In two-way-safe mode the same holds for beta. -/
theorem handleBidirectional_beta_safe (path : Path) (a al be : Option Entry) :
    ∀ c ∈ (handleBidirectional .twoWaySafe path a al be).beta, ProtectedChange path a be c := by
  unfold handleBidirectional
  simp only [show (Mode.twoWaySafe == Mode.twoWaySafe) = true from rfl, ↓reduceIte]
  repeat' split
  all_goals prot_case

/-- In one-way-safe mode a change is planned for beta only where beta lost
content at most. -/
theorem handleOneWaySafe_beta (path : Path) (a al be : Option Entry) :
    ∀ c ∈ (handleOneWaySafe path a al be).beta, ProtectedChange path a be c := by
  unfold handleOneWaySafe
  simp only []
  repeat' split
  all_goals prot_case

/-- Which endpoints a mode protects. -/
def Mode.protectsAlpha : Mode → Bool
  | .twoWaySafe | .twoWayResolved => true
  | _ => false   -- one-way modes never change alpha at all

def Mode.protectsBeta : Mode → Bool
  | .twoWaySafe | .oneWaySafe => true
  | _ => false

theorem handleDisagreement_alpha (mode : Mode) (path : Path) (a al be : Option Entry) :
    ∀ c ∈ (handleDisagreement mode path a al be).alpha, ProtectedChange path a al c := by
  unfold handleDisagreement
  cases mode
  · exact handleBidirectional_alpha _ _ _ _ _
  · exact handleBidirectional_alpha _ _ _ _ _
  · intro c hc; rw [handleOneWaySafe_alpha] at hc; cases hc
  · intro c hc; rw [handleOneWayReplica_alpha] at hc; cases hc

theorem handleDisagreement_beta (mode : Mode) (hm : mode.protectsBeta = true) (path : Path)
    (a al be : Option Entry) :
    ∀ c ∈ (handleDisagreement mode path a al be).beta, ProtectedChange path a be c := by
  unfold handleDisagreement
  cases mode
  · exact handleBidirectional_beta_safe _ _ _ _
  · simp [Mode.protectsBeta] at hm
  · exact handleOneWaySafe_beta _ _ _ _
  · simp [Mode.protectsBeta] at hm

/-- The statement carried through the recursion: every change of the list lies
at `path ++ rel` for some `rel`, its `Old` describes the endpoint tree `S`
there, and `S` there differs from the last-synchronized tree `A` there by
deletions only. -/
def ProtectedUnder (path : Path) (A S : Option Entry) (cs : List Change) : Prop :=
  ∀ c ∈ cs, ∃ rel, c.path = path ++ rel ∧ SameTree c.old (getPath S rel) ∧
    DeletionsOnly (getPath A rel) (getPath S rel)

theorem ProtectedUnder.of_handler {path : Path} {a A S : Option Entry} {cs : List Change}
    (ha : a = A ∨ a = none) (h : ∀ c ∈ cs, ProtectedChange path a S c) : ProtectedUnder path A S cs := by
  intro c hc
  obtain ⟨h1, h2, h3⟩ := h c hc
  refine ⟨[], by simp [h1], h2, ?_⟩
  rcases ha with rfl | rfl
  · exact h3
  · exact h3.of_none A

theorem lookup_contents_or {x A : Option Entry} (h : x = A ∨ x = none) (k : Name) :
    lookup k (contents x) = lookup k (contents A) ∨ lookup k (contents x) = none := by
  rcases h with rfl | rfl
  · exact Or.inl rfl
  · exact Or.inr rfl

theorem ancestorForRecursion_or {a A : Option Entry} (al : Option Entry) (h : a = A ∨ a = none) :
    ancestorForRecursion a al = A ∨ ancestorForRecursion a al = none := by
  unfold ancestorForRecursion
  split
  · exact h
  · exact Or.inr rfl

theorem reconcile_protects_alpha (mode : Mode) (path : Path) (a al be : Option Entry) :
    ∀ A, (a = A ∨ a = none) → ProtectedUnder path A al (reconcile mode path a al be).alpha := by
  fun_induction reconcile mode path a al be with
  | case1 => intro A _ c hc; cases hc
  | case2 => intro A _ c hc; cases hc
  | case3 => intro A _ c hc; cases hc
  | case4 => intro A _ c hc; cases hc
  | case5 path ancestor alpha beta h1 h2 h3 h4 here anc' ih =>
    intro A hA c hc
    have hh : here.alpha = [] := by simp only [here]; split <;> rfl
    simp only [Plan.append_alpha, hh, List.nil_append, Plan.concat_alpha, List.flatMap_map,
      List.mem_flatMap, List.mem_attach, true_and] at hc
    obtain ⟨n, hn⟩ := hc
    have hA' := lookup_contents_or (ancestorForRecursion_or alpha hA) n.1
    obtain ⟨rel, hp, hs, hd⟩ := ih n (lookup n.1 (contents A)) hA' c hn
    exact ⟨n.1 :: rel, by simp [hp], hs, hd⟩
  | case6 path ancestor alpha beta h1 h2 h3 h4 =>
    intro A hA
    exact ProtectedUnder.of_handler hA (handleDisagreement_alpha mode path ancestor alpha beta)

theorem reconcile_protects_beta (mode : Mode) (hm : mode.protectsBeta = true) (path : Path) (a al be : Option Entry) :
    ∀ A, (a = A ∨ a = none) → ProtectedUnder path A be (reconcile mode path a al be).beta := by
  fun_induction reconcile mode path a al be with
  | case1 => intro A _ c hc; cases hc
  | case2 => intro A _ c hc; cases hc
  | case3 => intro A _ c hc; cases hc
  | case4 => intro A _ c hc; cases hc
  | case5 path ancestor alpha beta h1 h2 h3 h4 here anc' ih =>
    intro A hA c hc
    have hh : here.beta = [] := by simp only [here]; split <;> rfl
    simp only [Plan.append_beta, hh, List.nil_append, Plan.concat_beta, List.flatMap_map,
      List.mem_flatMap, List.mem_attach, true_and] at hc
    obtain ⟨n, hn⟩ := hc
    have hA' := lookup_contents_or (ancestorForRecursion_or alpha hA) n.1
    obtain ⟨rel, hp, hs, hd⟩ := ih n (lookup n.1 (contents A)) hA' c hn
    exact ⟨n.1 :: rel, by simp [hp], hs, hd⟩
  | case6 path ancestor alpha beta h1 h2 h3 h4 =>
    intro A hA
    exact ProtectedUnder.of_handler hA (handleDisagreement_beta mode hm path ancestor alpha beta)


/-- Top level: every change planned for a protected endpoint targets content
that differs from the last synchronized tree by deletions only, and its `Old`
describes that content. Stated per path: every entry that exists on the
endpoint at or below the change is recorded identically in the ancestor. -/
theorem protected_no_loss {A S : Option Entry} {cs : List Change} (h : ProtectedUnder [] A S cs) :
    ∀ c ∈ cs, SameTree c.old (getPath S c.path) ∧
      ∀ q, c.path <+: q → pget S q = none ∨ pget S q = pget A q := by
  intro c hc
  obtain ⟨rel, hp, hs, hd⟩ := h c hc
  simp only [List.nil_append] at hp
  subst hp
  refine ⟨hs, fun q hq => ?_⟩
  obtain ⟨t, rfl⟩ := hq
  have := hd t
  simpa [pget, getPath_append] using this


/-- Unfolding equation of `reconcile` without `attach`. -/
theorem reconcile_eq (mode : Mode) (path : Path) (ancestor alpha beta : Option Entry) :
    reconcile mode path ancestor alpha beta =
      if isKind alpha .problematic then {}
      else if isKind beta .problematic then {}
      else if (alpha.isNone || isKind alpha .untracked) && (beta.isNone || isKind beta .untracked) then
        if ancestor.isSome then Plan.ancChange { path := path } else {}
      else if shallowEq alpha beta then
        (if !shallowEq ancestor alpha then Plan.ancChange { path := path, new := ocopy .slim alpha } else {}) ++
          Plan.concat ((nameUnion [contents (ancestorForRecursion ancestor alpha), contents alpha,
              contents beta]).map fun n =>
            reconcile mode (path ++ [n]) (lookup n (contents (ancestorForRecursion ancestor alpha)))
              (lookup n (contents alpha)) (lookup n (contents beta)))
      else handleDisagreement mode path ancestor alpha beta := by
  rw [reconcile]
  simp only []
  repeat' split
  all_goals first
    | rfl
    | (congr 2
       exact map_attach_val _
        (fun n => reconcile mode (path ++ [n]) (lookup n (contents (ancestorForRecursion ancestor alpha)))
          (lookup n (contents alpha)) (lookup n (contents beta))))

theorem diff_of_not_shallowEq (path : Path) (x y : Option Entry) (h : shallowEq y x = false) :
    diff path x y = [{ path := path, old := x, new := y }] := by
  rw [diff_eq]; simp [h]

-- A: file1, alpha modified it to file2, beta unchanged: the modification is propagated to beta.
theorem example_modification_propagates :
    (Reconcile (some exampleFile1) (some exampleFile2) (some exampleFile1) .twoWaySafe).beta =
      [{ path := [], old := some exampleFile1, new := some exampleFile2 }] := by
  have hs : osync (some exampleFile2) = some exampleFile2 := by
    simp [osync, Entry.synchronizable, exampleFile2, Kind.synchronizable]
  have hs1 : osync (some exampleFile1) = some exampleFile1 := by
    simp [osync, Entry.synchronizable, exampleFile1, Kind.synchronizable]
  have hne : shallowEq (some exampleFile2) (some exampleFile1) = false := by
    simp [shallowEq, exampleFile1, exampleFile2, Entry.props]
  rw [Reconcile, reconcile_eq]
  have h1 : isKind (some exampleFile2) .problematic = false := by simp [isKind, exampleFile2, Entry.kind, Entry.props]
  have h2 : isKind (some exampleFile1) .problematic = false := by simp [isKind, exampleFile1, Entry.kind, Entry.props]
  have h3 : isKind (some exampleFile2) .untracked = false := by simp [isKind, exampleFile2, Entry.kind, Entry.props]
  simp only [h1, h2, h3, hne, Option.isNone_some, Bool.or_self, Bool.false_and, Bool.false_eq_true, ↓reduceIte,
    handleDisagreement, handleBidirectional, hs, hs1, diff_same _ _ _ rfl,
    List.isEmpty_nil, Bool.not_true, Plan.betaChange]


/-! ## Validity of sub-trees -/

theorem Valid.lookup {e : Option Entry} (hv : Valid e) (n : Name) : Valid (lookup n (contents e)) := by
  cases e with
  | none => exact ⟨rfl, rfl⟩
  | some e =>
    cases e with
    | mk p cs =>
      have hk := Entry.nodupKeys_mk (p := p) hv.1
      have hvm := Entry.ensureValid_mk (p := p) (s := false) hv.2
      have hvl : Entry.ensureValidL false cs = true ∨ cs = [] := by
        by_cases hd : p.kind = .directory
        · exact Or.inl (hvm.1 hd).2
        · by_cases hph : p.kind = .phantom
          · exact Or.inl (hvm.2.1 hph)
          · exact Or.inr (hvm.2.2 hd hph)
      simp only [contents, Entry.children]
      cases hl : Mutagen.Model.lookup n cs with
      | none => exact ⟨rfl, rfl⟩
      | some c =>
        rcases hvl with hvl | hvl
        · exact ⟨Entry.nodupKeysL_lookup hk.2 hl, Entry.ensureValidL_lookup hvl hl⟩
        · subst hvl; simp [Mutagen.Model.lookup] at hl

theorem Valid.getPath {e : Option Entry} (hv : Valid e) (q : Path) : Valid (getPath e q) := by
  induction q generalizing e with
  | nil => exact hv
  | cons n q ih => exact ih (hv.lookup n)

/-! ## A tree that equals its synchronizable part has no unsynchronizable content -/

mutual
theorem Entry.allSync_of_syncAlong (e : Entry) (hn : e.nodupKeys = true)
    (h : ∀ q, pget (some e) q ≠ none → syncAlong (some e) q = true) : e.allSync = true :=
  match e with
  | .mk p cs => by
    have h0 : p.kind.synchronizable = true := by
      have := h [] (by simp [pget, getPath])
      simpa [syncAlong, Entry.kind, Entry.props] using this
    have hk := Entry.nodupKeys_mk_iff.mp hn
    have hL := Entry.allSyncL_of_syncAlong cs hk.2 (fun n c hm q hq => by
      have hl := lookup_of_mem_nodup hk.1 hm
      have := h (n :: q) (by rw [pget_some_cons, Entry.children, hl]; exact hq)
      simp only [syncAlong, Entry.children, hl, Bool.and_eq_true] at this
      exact this.2)
    simp [Entry.allSync, h0, hL]
theorem Entry.allSyncL_of_syncAlong (cs : Contents) (hn : Entry.nodupKeysL cs = true)
    (h : ∀ n c, (n, c) ∈ cs → ∀ q, pget (some c) q ≠ none → syncAlong (some c) q = true) :
    Entry.allSyncL cs = true :=
  match cs with
  | [] => by simp [Entry.allSyncL]
  | (n, c) :: r => by
    simp only [Entry.nodupKeysL, Bool.and_eq_true] at hn
    have h1 := Entry.allSync_of_syncAlong c hn.1 (h n c (by simp))
    have h2 := Entry.allSyncL_of_syncAlong r hn.2 (fun m d hm => h m d (by simp [hm]))
    simp [Entry.allSyncL, h1, h2]
end

theorem allSync_of_sameTree_sync (e : Option Entry) (hv : Valid e) (h : SameTree (osync e) e) :
    oallSync e = true := by
  cases e with
  | none => rfl
  | some e =>
    apply Entry.allSync_of_syncAlong e hv.1
    intro q hq
    have h1 := sync_pget (some e) hv q
    rw [h q] at h1
    cases hs : syncAlong (some e) q with
    | true => rfl
    | false => rw [hs] at h1; simp at h1; exact absurd h1 hq


/-! ## Clean targets: a change is only planned where its endpoint holds no unsynchronizable content -/

/-- The change is planned at `path` and the endpoint content `S` there equals
its own synchronizable part. -/
def CleanChange (path : Path) (S : Option Entry) (c : Change) : Prop :=
  c.path = path ∧ SameTree (osync S) S

theorem forall_mem_of_eq_nil {α} {l : List α} {P : α → Prop} (h : l = []) : ∀ c ∈ l, P c := by
  intro c hc; rw [h] at hc; cases hc

macro "clean_case" : tactic =>
  `(tactic| (intro c hc
             simp [Plan.conflict, Plan.alphaChange, Plan.betaChange, Plan.ancChange] at hc
             try (subst hc; exact ⟨rfl, same_of_unsync ‹_›⟩)))

theorem handleBidirectional_clean (mode : Mode) (path : Path) (a al be : Option Entry) :
    (∀ c ∈ (handleBidirectional mode path a al be).alpha, CleanChange path al c) ∧
    (∀ c ∈ (handleBidirectional mode path a al be).beta, CleanChange path be c) := by
  unfold handleBidirectional
  simp only []
  constructor
  · repeat' split
    all_goals clean_case
  · repeat' split
    all_goals clean_case

theorem handleOneWaySafe_clean (path : Path) (a al be : Option Entry) :
    ∀ c ∈ (handleOneWaySafe path a al be).beta, CleanChange path be c := by
  unfold handleOneWaySafe
  simp only []
  repeat' split
  all_goals clean_case

theorem handleOneWayReplica_clean (path : Path) (a al be : Option Entry) :
    ∀ c ∈ (handleOneWayReplica path a al be).beta, CleanChange path be c := by
  unfold handleOneWayReplica
  simp only []
  repeat' split
  all_goals clean_case

theorem handleDisagreement_clean (mode : Mode) (path : Path) (a al be : Option Entry) :
    (∀ c ∈ (handleDisagreement mode path a al be).alpha, CleanChange path al c) ∧
    (∀ c ∈ (handleDisagreement mode path a al be).beta, CleanChange path be c) := by
  unfold handleDisagreement
  cases mode
  · exact handleBidirectional_clean _ _ _ _ _
  · exact handleBidirectional_clean _ _ _ _ _
  · exact ⟨forall_mem_of_eq_nil (handleOneWaySafe_alpha _ _ _ _), handleOneWaySafe_clean _ _ _ _⟩
  · exact ⟨forall_mem_of_eq_nil (handleOneWayReplica_alpha _ _ _ _), handleOneWayReplica_clean _ _ _ _⟩

/-- Carried through the recursion. -/
def CleanUnder (path : Path) (S : Option Entry) (cs : List Change) : Prop :=
  ∀ c ∈ cs, ∃ rel, c.path = path ++ rel ∧ SameTree (osync (getPath S rel)) (getPath S rel)

theorem reconcile_clean (mode : Mode) (path : Path) (a al be : Option Entry) :
    CleanUnder path al (reconcile mode path a al be).alpha ∧
    CleanUnder path be (reconcile mode path a al be).beta := by
  fun_induction reconcile mode path a al be with
  | case1 => exact ⟨forall_mem_of_eq_nil rfl, forall_mem_of_eq_nil rfl⟩
  | case2 => exact ⟨forall_mem_of_eq_nil rfl, forall_mem_of_eq_nil rfl⟩
  | case3 => exact ⟨forall_mem_of_eq_nil rfl, forall_mem_of_eq_nil rfl⟩
  | case4 => exact ⟨forall_mem_of_eq_nil rfl, forall_mem_of_eq_nil rfl⟩
  | case5 path ancestor alpha beta h1 h2 h3 h4 here anc' ih =>
    have hh1 : here.alpha = [] := by simp only [here]; split <;> rfl
    have hh2 : here.beta = [] := by simp only [here]; split <;> rfl
    constructor
    · intro c hc
      simp only [Plan.append_alpha, hh1, List.nil_append, Plan.concat_alpha, List.flatMap_map,
        List.mem_flatMap, List.mem_attach, true_and] at hc
      obtain ⟨n, hn⟩ := hc
      obtain ⟨rel, hp, hs⟩ := (ih n).1 c hn
      exact ⟨n.1 :: rel, by simp [hp], hs⟩
    · intro c hc
      simp only [Plan.append_beta, hh2, List.nil_append, Plan.concat_beta, List.flatMap_map,
        List.mem_flatMap, List.mem_attach, true_and] at hc
      obtain ⟨n, hn⟩ := hc
      obtain ⟨rel, hp, hs⟩ := (ih n).2 c hn
      exact ⟨n.1 :: rel, by simp [hp], hs⟩
  | case6 path ancestor alpha beta h1 h2 h3 h4 =>
    have := handleDisagreement_clean mode path ancestor alpha beta
    exact ⟨fun c hc => ⟨[], by simp [(this.1 c hc).1], (this.1 c hc).2⟩,
           fun c hc => ⟨[], by simp [(this.2 c hc).1], (this.2 c hc).2⟩⟩

theorem clean_targets {S : Option Entry} {cs : List Change} (hv : Valid S) (h : CleanUnder [] S cs) :
    ∀ c ∈ cs, oallSync (getPath S c.path) = true := by
  intro c hc
  obtain ⟨rel, hp, hs⟩ := h c hc
  simp only [List.nil_append] at hp
  subst hp
  exact allSync_of_sameTree_sync _ (hv.getPath _) hs


theorem shallowEq_of_pget {x y : Option Entry} (h : pget x [] = pget y []) : shallowEq y x = true := by
  cases x <;> cases y <;> simp_all [shallowEq, pget, getPath]

/-- Trees that agree at every path have an empty diff. -/
theorem diff_nil_of_sameTree (path : Path) (x y : Option Entry) (h : SameTree x y) : diff path x y = [] := by
  fun_induction diff path x y with
  | case1 path base target hne =>
    have := shallowEq_of_pget (h [])
    simp [this] at hne
  | case2 path base target heq ih =>
    rw [flatMap_eq_nil_iff']
    intro n _
    exact ih n (fun q => by have := h (n.1 :: q); rwa [pget_cons, pget_cons] at this)

/-! ## `Apply`: success implies the parent existed; faithful results at incomparable paths -/

theorem applyAt_ok_parent (new : Option Entry) (rest : List Name) :
    ∀ (e : Entry) (n : Name) (e' : Entry), e.applyAt new n rest = .ok e' →
      (getPath (some e) ((n :: rest).dropLast)).isSome = true := by
  induction rest with
  | nil => intro e n e' _; simp [getPath]
  | cons m rest ih =>
    intro e n e' h
    cases e with
    | mk p cs =>
      simp only [Entry.applyAt] at h
      cases hl : lookup n cs with
      | none => simp [hl] at h
      | some c =>
        simp only [hl] at h
        cases hr : Entry.applyAt new c m rest with
        | error err => simp [hr] at h
        | ok c' =>
          have := ih c m c' hr
          simpa [List.dropLast_cons_cons, getPath, contents, Entry.children, hl] using this

/-- Semantics of a *successful* loop iteration of `Apply`. -/
theorem applyChange_ok_spec {r r' : Option Entry} {c : Change} (h : applyChange r c = .ok r') :
    ∀ q, pget r' q = if c.path <+: q then pget c.new (q.drop c.path.length) else pget r q := by
  have hpar : c.path = [] ∨ (pget r c.path.dropLast).isSome = true := by
    cases hp : c.path with
    | nil => exact Or.inl rfl
    | cons n rest =>
      right
      unfold applyChange at h
      simp only [hp] at h
      cases r with
      | none => simp at h
      | some e =>
        simp only at h
        cases ha : e.applyAt c.new n rest with
        | error err => simp [ha] at h
        | ok e' =>
          rw [← getPath_isSome_iff_pget]
          exact applyAt_ok_parent c.new rest e n e' ha
  obtain ⟨r'', h1, h2⟩ := applyChange_spec r c hpar
  rw [h] at h1
  cases h1
  exact h2

/-- After a successful `Apply`, a change whose path is incomparable with the
paths of all later changes is still recorded exactly. -/
theorem apply_faithful_last (cs : List Change) :
    ∀ (r r' : Option Entry), apply r cs = .ok r' →
      List.Pairwise (fun a b : Change => incomparable a.path b.path) cs →
      ∀ c ∈ cs, SameTree (getPath r' c.path) c.new := by
  induction cs with
  | nil => intro r r' _ _ c hc; cases hc
  | cons d cs ih =>
    intro r r' h hp c hc
    simp only [apply] at h
    cases h1 : applyChange r d with
    | error err => simp [h1] at h
    | ok r1 =>
      simp only [h1] at h
      rw [List.pairwise_cons] at hp
      rcases List.mem_cons.mp hc with rfl | hmem
      · -- the later changes do not touch anything at or below `c.path`
        have hkeep : ∀ (l : List Change) (s s' : Option Entry), apply s l = .ok s' →
            (∀ x ∈ l, incomparable c.path x.path) → ∀ q, pget s' (c.path ++ q) = pget s (c.path ++ q) := by
          intro l
          induction l with
          | nil => intro s s' hs _ q; simp only [apply, Except.ok.injEq] at hs; rw [hs]
          | cons x l ihl =>
            intro s s' hs hinc q
            simp only [apply] at hs
            cases h2 : applyChange s x with
            | error err => simp [h2] at hs
            | ok s1 =>
              simp only [h2] at hs
              rw [ihl s1 s' hs (fun y hy => hinc y (by simp [hy])) q, applyChange_ok_spec h2]
              have hi := hinc x (by simp)
              have : ¬ x.path <+: (c.path ++ q) := by
                intro hpre
                rcases List.prefix_or_prefix_of_prefix hpre (List.prefix_append c.path q) with h' | h'
                · exact hi.2 h'
                · exact hi.1 h'
              simp [this]
        intro q
        have := hkeep cs r1 r' h hp.1 q
        simp only [pget, getPath_append] at this ⊢
        rw [this]
        have hs := applyChange_ok_spec h1 (c.path ++ q)
        simpa [pget, getPath_append] using hs
      · exact ih r1 r' h hp.2 c hmem


theorem apply_append_ok {r r' : Option Entry} {a b : List Change} (h : apply r (a ++ b) = .ok r') :
    ∃ r1, apply r a = .ok r1 ∧ apply r1 b = .ok r' := by
  rw [apply_append] at h
  cases h1 : apply r a with
  | error e => simp [h1] at h
  | ok r1 => exact ⟨r1, rfl, by simpa [h1] using h⟩

/-- The controller's ancestor update records, at every transitioned path,
exactly the entry the endpoint reported — whatever the reported entries are —
provided `Apply` succeeds. -/
theorem ancestor_update_faithful (mode : Mode) (A alpha beta : Option Entry) (resα resβ : List Change)
    (hα : resα.map (·.path) = (Reconcile A alpha beta mode).alpha.map (·.path))
    (hβ : resβ.map (·.path) = (Reconcile A alpha beta mode).beta.map (·.path))
    (A' : Option Entry)
    (h : apply A ((Reconcile A alpha beta mode).anc ++ (resα ++ resβ)) = .ok A') :
    ∀ c ∈ resα ++ resβ, SameTree (getPath A' c.path) c.new := by
  obtain ⟨A1, _, h2⟩ := apply_append_ok h
  apply apply_faithful_last (resα ++ resβ) A1 A' h2
  have hinc := (reconcile_actions mode [] A alpha beta).2
  have hsub : ((resα ++ resβ).map (·.path)).Sublist (Reconcile A alpha beta mode).actionPaths := by
    simp only [List.map_append, hα, hβ, Plan.actionPaths]
    exact List.sublist_append_left _ _
  have := hinc.sublist hsub
  exact List.pairwise_map.mp this

/-! ## The synchronized state is a fixpoint -/

theorem oallSync_lookup {e : Option Entry} (h : oallSync e = true) (n : Name) :
    oallSync (lookup n (contents e)) = true := by
  cases e with
  | none => rfl
  | some e =>
    cases e with
    | mk p cs =>
      simp only [oallSync, Entry.allSync, Bool.and_eq_true] at h
      simp only [contents, Entry.children]
      have : ∀ cs : Contents, Entry.allSyncL cs = true → oallSync (lookup n cs) = true := by
        intro cs
        induction cs with
        | nil => intro _; rfl
        | cons hd t ih =>
          obtain ⟨m, c⟩ := hd
          intro hh
          simp only [Entry.allSyncL, Bool.and_eq_true] at hh
          simp only [lookup]
          split
          · exact hh.1
          · exact ih hh.2
      exact this cs h.2

theorem Plan.concat_empty (ps : List Plan) (h : ∀ p ∈ ps, p = {}) : Plan.concat ps = {} := by
  induction ps with
  | nil => rfl
  | cons p ps ih =>
    simp only [Plan.concat]
    rw [h p (by simp), ih (fun q hq => h q (by simp [hq]))]
    rfl

/-- When both endpoints hold exactly the (synchronizable) last-synchronized
tree, nothing is planned, in every mode. -/
theorem reconcile_synced (mode : Mode) (path : Path) (a al be : Option Entry) :
    a = al → al = be → oallSync a = true → reconcile mode path a al be = {} := by
  fun_induction reconcile mode path a al be with
  | case1 => intros; rfl
  | case2 => intros; rfl
  | case3 path ancestor alpha beta h1 h2 h3 h4 =>
    intro e1 e2 hs
    subst e1 e2
    exfalso
    cases ancestor with
    | none => simp at h4
    | some e =>
      cases e with
      | mk p cs =>
        simp only [Option.isNone_some, Bool.false_or, Bool.and_self, isKind, Entry.kind, Entry.props,
          beq_iff_eq] at h3
        simp [oallSync, Entry.allSync, h3, Kind.synchronizable] at hs
  | case4 => intros; rfl
  | case5 path ancestor alpha beta h1 h2 h3 h4 here anc' ih =>
    intro e1 e2 hs
    subst e1 e2
    have hhere : here = {} := by simp [here, shallowEq_refl]
    have hanc : anc' = ancestor := by simp [anc', ancestorForRecursion, shallowEq_refl]
    rw [hhere]
    have : Plan.concat
        ((nameUnion [contents anc', contents ancestor, contents ancestor]).attach.map fun n =>
          reconcile mode (path ++ [n.1]) (lookup n.1 (contents anc')) (lookup n.1 (contents ancestor))
            (lookup n.1 (contents ancestor))) = {} := by
      apply Plan.concat_empty
      intro p hp
      simp only [List.mem_map, List.mem_attach, true_and] at hp
      obtain ⟨n, rfl⟩ := hp
      have hl : lookup n.1 (contents anc') = lookup n.1 (contents ancestor) :=
        congrArg (fun x => lookup n.1 (contents x)) hanc
      exact ih n hl rfl (hl ▸ oallSync_lookup hs n.1)
    rw [this]
    rfl
  | case6 path ancestor alpha beta h1 h2 h3 h4 =>
    intro e1 e2 _
    subst e1 e2
    simp [shallowEq_refl] at h4


/-! ## One-way modes install exactly alpha's synchronizable content -/

theorem handleOneWaySafe_new (path : Path) (a al be : Option Entry) :
    ∀ c ∈ (handleOneWaySafe path a al be).beta, c.path = path ∧ c.new = osync al := by
  unfold handleOneWaySafe
  simp only []
  repeat' split
  all_goals (intro c hc; simp [Plan.conflict, Plan.betaChange, Plan.ancChange] at hc; try (subst hc; exact ⟨rfl, rfl⟩))

theorem handleOneWayReplica_new (path : Path) (a al be : Option Entry) :
    ∀ c ∈ (handleOneWayReplica path a al be).beta, c.path = path ∧ c.new = osync al := by
  unfold handleOneWayReplica
  simp only []
  repeat' split
  all_goals (intro c hc; simp [Plan.conflict, Plan.betaChange] at hc; try (subst hc; exact ⟨rfl, rfl⟩))

theorem reconcile_oneWay_new (mode : Mode) (hm : mode = .oneWaySafe ∨ mode = .oneWayReplica)
    (path : Path) (a al be : Option Entry) :
    ∀ c ∈ (reconcile mode path a al be).beta, ∃ rel, c.path = path ++ rel ∧ c.new = osync (getPath al rel) := by
  fun_induction reconcile mode path a al be with
  | case1 => exact forall_mem_of_eq_nil rfl
  | case2 => exact forall_mem_of_eq_nil rfl
  | case3 => exact forall_mem_of_eq_nil rfl
  | case4 => exact forall_mem_of_eq_nil rfl
  | case5 path ancestor alpha beta h1 h2 h3 h4 here anc' ih =>
    intro c hc
    have hh2 : here.beta = [] := by simp only [here]; split <;> rfl
    simp only [Plan.append_beta, hh2, List.nil_append, Plan.concat_beta, List.flatMap_map,
      List.mem_flatMap, List.mem_attach, true_and] at hc
    obtain ⟨n, hn⟩ := hc
    obtain ⟨rel, hp, hs⟩ := ih n c hn
    exact ⟨n.1 :: rel, by simp [hp], hs⟩
  | case6 path ancestor alpha beta h1 h2 h3 h4 =>
    intro c hc
    unfold handleDisagreement at hc
    rcases hm with rfl | rfl
    · obtain ⟨h1, h2⟩ := handleOneWaySafe_new _ _ _ _ c hc
      exact ⟨[], by simp [h1], h2⟩
    · obtain ⟨h1, h2⟩ := handleOneWayReplica_new _ _ _ _ c hc
      exact ⟨[], by simp [h1], h2⟩


/-! ## Conflicts name at least one change on alpha (valid trees, no phantom directories) -/

/-- Scalar fields at the root of the synchronizable part of a valid tree. -/
theorem pget_osync_root {e : Option Entry} (hv : Valid e) :
    pget (osync e) [] = match e with
      | none => none
      | some x => if x.kind.synchronizable then some x.props else none := by
  cases e with
  | none => rfl
  | some x =>
    cases x with
    | mk p cs =>
      have hnode := Entry.synchronizable_node hv.1 hv.2
      cases hs : p.kind.synchronizable with
      | false => simp [osync, hnode.1 hs, Entry.kind, Entry.props, hs]
      | true =>
        obtain ⟨cs', h1, _⟩ := hnode.2 hs
        simp [osync, h1, pget, getPath, Entry.kind, Entry.props, hs]

/-- The situation in which `reconcile` calls a disagreement handler. -/
structure Disagree (al be : Option Entry) : Prop where
  alphaOk : isKind al .problematic = false
  betaOk : isKind be .problematic = false
  notBothAbsent : ((al.isNone || isKind al .untracked) && (be.isNone || isKind be .untracked)) = false
  differ : shallowEq al be = false

theorem kind_cases {p : Props} {cs : Contents} (hv : Valid (some (.mk p cs)))
    (h1 : p.kind ≠ .problematic) (h2 : p.kind ≠ .phantom) :
    p.kind.synchronizable = true ∨ p.kind = .untracked := by
  have := hv.2
  simp only [oensureValid, Entry.ensureValid] at this
  cases hk : p.kind <;> simp_all [Kind.synchronizable]

/-- With valid, phantom-free endpoints that disagree, the synchronizable
parts cannot both agree with the ancestor. -/
theorem not_both_unmodified {a al be : Option Entry} (hα : Valid al) (hβ : Valid be)
    (hpα : isKind al .phantom = false) (hpβ : isKind be .phantom = false) (hd : Disagree al be)
    (h1 : SameTree a (osync al)) (h2 : SameTree a (osync be)) : False := by
  have hroot : pget (osync al) [] = pget (osync be) [] := (h1 []).symm.trans (h2 [])
  rw [pget_osync_root hα, pget_osync_root hβ] at hroot
  obtain ⟨o1, o2, o3, o4⟩ := hd
  cases al with
  | none =>
    cases be with
    | none => simp at o3
    | some y =>
      cases y with
      | mk q ds =>
        have hk := kind_cases hβ (by simpa [isKind, Entry.kind, Entry.props] using o2)
          (by simpa [isKind, Entry.kind, Entry.props] using hpβ)
        rcases hk with hk | hk
        · simp [Entry.kind, Entry.props, hk] at hroot
        · simp [isKind, Entry.kind, Entry.props, hk] at o3
  | some x =>
    cases x with
    | mk p cs =>
      have hkα := kind_cases hα (by simpa [isKind, Entry.kind, Entry.props] using o1)
        (by simpa [isKind, Entry.kind, Entry.props] using hpα)
      cases be with
      | none =>
        rcases hkα with hk | hk
        · simp [Entry.kind, Entry.props, hk] at hroot
        · simp [isKind, Entry.kind, Entry.props, hk] at o3
      | some y =>
        cases y with
        | mk q ds =>
          have hkβ := kind_cases hβ (by simpa [isKind, Entry.kind, Entry.props] using o2)
            (by simpa [isKind, Entry.kind, Entry.props] using hpβ)
          rcases hkα with hk | hk <;> rcases hkβ with hk' | hk'
          · simp only [Entry.kind, Entry.props, hk, hk', ↓reduceIte, Option.some.injEq] at hroot
            simp [shallowEq, Entry.props, hroot] at o4
          · have hq : q.kind.synchronizable = false := by rw [hk']; rfl
            simp [Entry.kind, Entry.props, hk, hq] at hroot
          · have hp : p.kind.synchronizable = false := by rw [hk]; rfl
            simp [Entry.kind, Entry.props, hk', hp] at hroot
          · simp [isKind, Entry.kind, Entry.props, hk, hk'] at o3

theorem ne_nil_of_and_left {α β} {l : List α} {m : List β} (h : ¬ (l.isEmpty && m.isEmpty) = true)
    (hm : m.isEmpty = true) : l ≠ [] := by
  intro hl; subst hl; simp [hm] at h

theorem handleBidirectional_conflict_alpha (mode : Mode) (path : Path) (a al be : Option Entry)
    (hα : Valid al) (hβ : Valid be) (hpα : isKind al .phantom = false) (hpβ : isKind be .phantom = false)
    (hd : Disagree al be) :
    ∀ c ∈ (handleBidirectional mode path a al be).conflicts, c.alphaChanges ≠ [] := by
  have key : (diff path a (osync be)).isEmpty = true → diff path a (osync al) ≠ [] := by
    intro hb hnil
    exact not_both_unmodified hα hβ hpα hpβ hd (sameTree_of_diff_nil path _ _ hnil)
      (same_of_isEmpty hb)
  unfold handleBidirectional
  simp only []
  repeat' split
  all_goals
    (intro c hc
     simp [Plan.conflict, Plan.alphaChange, Plan.betaChange] at hc
     try (subst hc
          first
           | exact ne_nil_of_not_isEmpty ‹_›
           | exact ne_nil_of_isEmpty_false ‹_›
           | exact ne_nil_of_and_left ‹_› ‹_›
           | exact key ‹_›))


theorem onoPhantom_lookup {e : Option Entry} (h : onoPhantom e = true) (n : Name) :
    onoPhantom (lookup n (contents e)) = true := by
  cases e with
  | none => rfl
  | some e =>
    cases e with
    | mk p cs =>
      simp only [onoPhantom, Entry.noPhantom, Bool.and_eq_true] at h
      simp only [contents, Entry.children]
      have : ∀ cs : Contents, Entry.noPhantomL cs = true → onoPhantom (lookup n cs) = true := by
        intro cs
        induction cs with
        | nil => intro _; rfl
        | cons hd t ih =>
          obtain ⟨m, c⟩ := hd
          intro hh
          simp only [Entry.noPhantomL, Bool.and_eq_true] at hh
          simp only [lookup]
          split
          · exact hh.1
          · exact ih hh.2
      exact this cs h.2

theorem isKind_phantom_of_noPhantom {e : Option Entry} (h : onoPhantom e = true) :
    isKind e .phantom = false := by
  cases e with
  | none => rfl
  | some e =>
    cases e with
    | mk p cs =>
      simp only [onoPhantom, Entry.noPhantom, Bool.and_eq_true, bne_iff_ne, ne_eq] at h
      simp [isKind, Entry.kind, Entry.props, h.1]

theorem handleOneWay_conflict_alpha (path : Path) (a alpha beta : Option Entry) :
    (∀ c ∈ (handleOneWaySafe path a alpha beta).conflicts, c.alphaChanges ≠ []) ∧
    (∀ c ∈ (handleOneWayReplica path a alpha beta).conflicts, c.alphaChanges ≠ []) := by
  constructor
  · unfold handleOneWaySafe
    simp only []
    repeat' split
    all_goals (intro c hc; simp [Plan.conflict, Plan.betaChange, Plan.ancChange] at hc; try (subst hc; simp))
  · unfold handleOneWayReplica
    simp only []
    repeat' split
    all_goals (intro c hc; simp [Plan.conflict, Plan.betaChange] at hc; try (subst hc; simp))

/-- Every conflict names at least one change on alpha, for valid endpoint
trees without phantom directories, in every mode. -/
theorem reconcile_conflict_alpha (mode : Mode) (path : Path) (a al be : Option Entry) :
    Valid al → Valid be → onoPhantom al = true → onoPhantom be = true →
    ∀ c ∈ (reconcile mode path a al be).conflicts, c.alphaChanges ≠ [] := by
  fun_induction reconcile mode path a al be with
  | case1 => intro _ _ _ _; exact forall_mem_of_eq_nil rfl
  | case2 => intro _ _ _ _; exact forall_mem_of_eq_nil rfl
  | case3 => intro _ _ _ _; exact forall_mem_of_eq_nil rfl
  | case4 => intro _ _ _ _; exact forall_mem_of_eq_nil rfl
  | case5 path ancestor alpha beta h1 h2 h3 h4 here anc' ih =>
    intro hα hβ hpα hpβ c hc
    have hh : here.conflicts = [] := by simp only [here]; split <;> rfl
    simp only [Plan.append_conflicts, hh, List.nil_append, Plan.concat_conflicts, List.flatMap_map,
      List.mem_flatMap, List.mem_attach, true_and] at hc
    obtain ⟨n, hn⟩ := hc
    exact ih n (hα.lookup n.1) (hβ.lookup n.1) (onoPhantom_lookup hpα n.1) (onoPhantom_lookup hpβ n.1) c hn
  | case6 path ancestor alpha beta h1 h2 h3 h4 =>
    intro hα hβ hpα hpβ
    have hd : Disagree alpha beta :=
      ⟨Bool.eq_false_iff.mpr h1, Bool.eq_false_iff.mpr h2, Bool.eq_false_iff.mpr h3, Bool.eq_false_iff.mpr h4⟩
    unfold handleDisagreement
    cases mode
    · exact handleBidirectional_conflict_alpha _ _ _ _ _ hα hβ (isKind_phantom_of_noPhantom hpα)
        (isKind_phantom_of_noPhantom hpβ) hd
    · exact handleBidirectional_conflict_alpha _ _ _ _ _ hα hβ (isKind_phantom_of_noPhantom hpα)
        (isKind_phantom_of_noPhantom hpβ) hd
    · exact (handleOneWay_conflict_alpha _ _ _ _).1
    · exact (handleOneWay_conflict_alpha _ _ _ _).2


/-! ## The ancestor update never fails to resolve a path -/

/-- `p` is the root or its parent exists in `r`. -/
def ParentExists (r : Option Entry) (p : Path) : Prop := p = [] ∨ (pget r p.dropLast).isSome = true

theorem dropLast_snoc_prefix {path p : Path} {n : Name} (h : (path ++ [n]) <+: p) :
    path <+: p.dropLast := by
  obtain ⟨t, rfl⟩ := h
  cases t with
  | nil => simp
  | cons x t =>
    have : (path ++ [n] ++ x :: t).dropLast = path ++ ([n] ++ (x :: t).dropLast) := by
      simp [List.dropLast_append_of_ne_nil, List.append_assoc]
    rw [this]
    exact List.prefix_append _ _

/-- Changes at pairwise incomparable paths whose parents exist can all be applied. -/
theorem apply_incomparable_ok (cs : List Change) :
    ∀ r, List.Pairwise (fun a b : Change => incomparable a.path b.path) cs →
      (∀ c ∈ cs, ParentExists r c.path) → ∃ r', apply r cs = .ok r' := by
  induction cs with
  | nil => intro r _ _; exact ⟨r, rfl⟩
  | cons c cs ih =>
    intro r hp hpar
    rw [List.pairwise_cons] at hp
    obtain ⟨r1, h1, h1q⟩ := applyChange_spec r c (hpar c (by simp))
    have hpar1 : ∀ d ∈ cs, ParentExists r1 d.path := by
      intro d hd
      rcases hpar d (by simp [hd]) with h | h
      · exact Or.inl h
      · right
        rw [h1q]
        have hinc := hp.1 d hd
        have : ¬ c.path <+: d.path.dropLast := fun hpre =>
          hinc.1 (hpre.trans (List.dropLast_prefix _))
        simp [this, h]
    obtain ⟨r', h'⟩ := ih r1 hp.2 hpar1
    exact ⟨r', by simp [apply, h1, h']⟩


/-- Paths of the endpoint changes of a plan. -/
def Plan.changePaths (p : Plan) : List Path := p.alpha.map (·.path) ++ p.beta.map (·.path)

theorem Plan.changePaths_sublist (p : Plan) : p.changePaths.Sublist p.actionPaths := by
  simp only [Plan.changePaths, Plan.actionPaths]
  exact List.sublist_append_left _ _

/-- Deleting at a path whose parent exists. -/
theorem apply_delete_spec (r : Option Entry) (path : Path) (hpar : ParentExists r path) :
    ∃ r', apply r [{ path := path }] = .ok r' ∧ ∀ q, ¬ path <+: q → pget r' q = pget r q := by
  obtain ⟨r', h1, h2⟩ := applyChange_spec r { path := path } hpar
  exact ⟨r', by simp [apply, h1], fun q hq => by rw [h2]; simp [hq]⟩

theorem anc_children (path : Path) (f : Name → Plan) (xc : Contents) (ns : List Name) (hnd : ns.Nodup)
    (hunder : ∀ n ∈ ns, ∀ p ∈ (f n).changePaths, (path ++ [n]) <+: p)
    (ih : ∀ n ∈ ns, ∀ r, (pget r path).isSome = true →
      (∀ q, pget r (path ++ n :: q) = pget (lookup n xc) q) →
      ∃ r', apply r (f n).anc = .ok r' ∧ (∀ q, ¬ (path ++ [n]) <+: q → pget r' q = pget r q) ∧
        (∀ p ∈ (f n).changePaths, ParentExists r' p)) :
    ∀ r, (pget r path).isSome = true →
      (∀ n ∈ ns, ∀ q, pget r (path ++ n :: q) = pget (lookup n xc) q) →
      ∃ r', apply r (ns.flatMap fun n => (f n).anc) = .ok r' ∧
        (∀ q, (∀ n ∈ ns, ¬ (path ++ [n]) <+: q) → pget r' q = pget r q) ∧
        (∀ n ∈ ns, ∀ p ∈ (f n).changePaths, ParentExists r' p) := by
  induction ns with
  | nil => intro r _ _; exact ⟨r, by simp [apply], fun _ _ => rfl, fun n hn => by cases hn⟩
  | cons n ns ihns =>
    intro r hpar hx
    have hnd' := List.nodup_cons.mp hnd
    obtain ⟨r1, h1, h1o, h1p⟩ := ih n (by simp) r hpar (hx n (by simp))
    have hpar1 : (pget r1 path).isSome = true := by
      rw [h1o path (not_snoc_prefix_self path n)]; exact hpar
    have hx1 : ∀ m ∈ ns, ∀ q, pget r1 (path ++ m :: q) = pget (lookup m xc) q := by
      intro m hm q
      have hne : ¬ n = m := fun h => hnd'.1 (h ▸ hm)
      have : ¬ (path ++ [n]) <+: (path ++ m :: q) := by
        rw [List.prefix_append_right_inj]; simp [hne]
      rw [h1o _ this]
      exact hx m (by simp [hm]) q
    obtain ⟨r2, h2, h2o, h2p⟩ := ihns hnd'.2 (fun m hm => hunder m (by simp [hm]))
      (fun m hm => ih m (by simp [hm])) r1 hpar1 hx1
    refine ⟨r2, ?_, ?_, ?_⟩
    · simp only [List.flatMap_cons]
      rw [apply_append, h1]
      exact h2
    · intro q hq
      rw [h2o q (fun m hm => hq m (by simp [hm])), h1o q (hq n (by simp))]
    · intro m hm p hp
      rcases List.mem_cons.mp hm with rfl | hm'
      · rcases h1p p hp with h | h
        · exact Or.inl h
        · right
          have hpre := hunder m (by simp) p hp
          have hnot : ∀ k ∈ ns, ¬ (path ++ [k]) <+: p.dropLast := by
            intro k hk hpk
            have hne : m ≠ k := fun h => hnd'.1 (h ▸ hk)
            exact (incomparable_of_children hne hpre (hpk.trans (List.dropLast_prefix p))).1
              (List.prefix_refl p)
          rw [h2o _ hnot]
          exact h
      · exact h2p m hm' p hp


theorem handleDisagreement_anc (mode : Mode) (path : Path) (a al be : Option Entry) :
    (handleDisagreement mode path a al be).anc = [] ∨
      (handleDisagreement mode path a al be).anc = [{ path := path }] := by
  unfold handleDisagreement
  cases mode
  · left; unfold handleBidirectional; simp only []; repeat' split
    all_goals rfl
  · left; unfold handleBidirectional; simp only []; repeat' split
    all_goals rfl
  · unfold handleOneWaySafe; simp only []; repeat' split
    all_goals first | (left; rfl) | (right; rfl)
  · left; unfold handleOneWayReplica; simp only []; repeat' split
    all_goals rfl

theorem handleDisagreement_changePaths (mode : Mode) (path : Path) (a al be : Option Entry) :
    ∀ p ∈ (handleDisagreement mode path a al be).changePaths, p = path := by
  intro p hp
  have hc := handleDisagreement_clean mode path a al be
  simp only [Plan.changePaths, List.mem_append, List.mem_map] at hp
  rcases hp with ⟨c, hc1, rfl⟩ | ⟨c, hc1, rfl⟩
  · exact (hc.1 c hc1).1
  · exact (hc.2 c hc1).1

theorem reconcile_changePaths_under (mode : Mode) (path : Path) (a al be : Option Entry) :
    ∀ p ∈ (reconcile mode path a al be).changePaths, path <+: p :=
  fun p hp => (reconcile_actions mode path a al be).1 p ((Plan.changePaths_sublist _).subset hp)

/-- Applying the ancestor changes of a (sub-)plan to a tree that looks like the
ancestor at `path` (and in which the parent of `path` exists) succeeds, changes
nothing outside `path`, and leaves the parent of every planned endpoint change
in place. -/
theorem reconcile_anc_spec (mode : Mode) (path : Path) (a al be : Option Entry) :
    ∀ r, ParentExists r path → (∀ q, pget r (path ++ q) = pget a q) →
      ∃ r', apply r (reconcile mode path a al be).anc = .ok r' ∧
        (∀ q, ¬ path <+: q → pget r' q = pget r q) ∧
        (∀ p ∈ (reconcile mode path a al be).changePaths, ParentExists r' p) := by
  fun_induction reconcile mode path a al be with
  | case1 => intro r _ _; exact ⟨r, rfl, fun _ _ => rfl, fun p hp => by cases hp⟩
  | case2 => intro r _ _; exact ⟨r, rfl, fun _ _ => rfl, fun p hp => by cases hp⟩
  | case3 path ancestor alpha beta h1 h2 h3 h4 =>
    intro r hpar _
    obtain ⟨r', h1, h2⟩ := apply_delete_spec r path hpar
    exact ⟨r', h1, h2, fun p hp => by cases hp⟩
  | case4 => intro r _ _; exact ⟨r, rfl, fun _ _ => rfl, fun p hp => by cases hp⟩
  | case5 path ancestor alpha beta h1 h2 h3 h4 here anc' ih =>
    intro r hpar hx
    -- alpha exists at this path
    have hαsome : ∃ e, alpha = some e := by
      cases alpha with
      | some e => exact ⟨e, rfl⟩
      | none =>
        cases beta with
        | none => simp at h3
        | some b => simp [shallowEq] at h4
    obtain ⟨ae, rfl⟩ := hαsome
    -- Step 1: the change at `path` itself (if any).
    have step1 : ∃ r0, apply r here.anc = .ok r0 ∧ (∀ q, ¬ path <+: q → pget r0 q = pget r q) ∧
        (pget r0 path).isSome = true ∧
        (∀ n q, pget r0 (path ++ n :: q) = pget (lookup n (contents anc')) q) := by
      by_cases hs : shallowEq ancestor (some ae) = true
      · refine ⟨r, by simp [here, hs, apply], fun _ _ => rfl, ?_, ?_⟩
        · have := hx []
          simp only [List.append_nil] at this
          rw [this]
          cases ancestor with
          | none => simp [shallowEq] at hs
          | some x => simp [pget, getPath]
        · intro n q
          have : anc' = ancestor := by simp [anc', ancestorForRecursion, hs]
          rw [this, hx (n :: q), pget_cons]
      · obtain ⟨r0, h1, h1q⟩ := applyChange_spec r
          { path := path, new := ocopy .slim (some ae) } hpar
        have hanc : anc' = none := by simp [anc', ancestorForRecursion, hs]
        refine ⟨r0, by simp [here, hs, Plan.ancChange, apply, h1], ?_, ?_, ?_⟩
        · intro q hq; rw [h1q]; simp [hq]
        · rw [h1q]; simp [ocopy, pget, getPath]
        · intro n q
          rw [h1q, hanc]
          cases ae with
          | mk p cs => simp [ocopy, Entry.copy, pget, getPath, contents, Entry.children, lookup]
    obtain ⟨r0, h0, h0o, h0s, h0x⟩ := step1
    -- Step 2: the children.
    let f : Name → Plan := fun n =>
      reconcile mode (path ++ [n]) (lookup n (contents anc')) (lookup n (contents (some ae)))
        (lookup n (contents beta))
    have hch := anc_children path f (contents anc')
      (nameUnion [contents anc', contents (some ae), contents beta]) (nodup_nameUnion _)
      (fun n _ p hp => reconcile_changePaths_under mode (path ++ [n]) _ _ _ p hp)
      (fun n hn r hs hxn => by
        have := ih ⟨n, hn⟩ r (Or.inr (by simpa using hs)) (fun q => by simpa using hxn q)
        exact this)
      r0 h0s (fun n _ q => h0x n q)
    obtain ⟨r', h1, h1o, h1p⟩ := hch
    have hanc : (here ++ Plan.concat
        ((nameUnion [contents anc', contents (some ae), contents beta]).attach.map fun n =>
          reconcile mode (path ++ [n.1]) (lookup n.1 (contents anc')) (lookup n.1 (contents (some ae)))
            (lookup n.1 (contents beta)))).anc =
        here.anc ++ (nameUnion [contents anc', contents (some ae), contents beta]).flatMap
          (fun n => (f n).anc) := by
      simp only [Plan.append_anc, Plan.concat_anc, List.flatMap_map]
      congr 1
      exact flatMap_attach_val _ (fun n => (f n).anc)
    refine ⟨r', ?_, ?_, ?_⟩
    · rw [hanc, apply_append, h0]; exact h1
    · intro q hq
      rw [h1o q (fun n _ => not_prefix_of_not_prefix n hq), h0o q hq]
    · intro p hp
      have hh1 : here.alpha = [] := by simp only [here]; split <;> rfl
      have hh2 : here.beta = [] := by simp only [here]; split <;> rfl
      simp only [Plan.changePaths, Plan.append_alpha, Plan.append_beta, hh1, hh2, List.nil_append,
        Plan.concat_alpha, Plan.concat_beta, List.flatMap_map, List.mem_append, List.mem_map,
        List.mem_flatMap, List.mem_attach, true_and] at hp
      rcases hp with ⟨c, ⟨n, hc⟩, rfl⟩ | ⟨c, ⟨n, hc⟩, rfl⟩
      · exact h1p n.1 n.2 c.path (by simp only [Plan.changePaths, List.mem_append, List.mem_map]; exact Or.inl ⟨c, hc, rfl⟩)
      · exact h1p n.1 n.2 c.path (by simp only [Plan.changePaths, List.mem_append, List.mem_map]; exact Or.inr ⟨c, hc, rfl⟩)
  | case6 path ancestor alpha beta h1 h2 h3 h4 =>
    intro r hpar _
    have hcp := handleDisagreement_changePaths mode path ancestor alpha beta
    rcases handleDisagreement_anc mode path ancestor alpha beta with h | h
    · rw [h]
      exact ⟨r, rfl, fun _ _ => rfl, fun p hp => by rw [hcp p hp]; exact hpar⟩
    · rw [h]
      obtain ⟨r', h1, h2⟩ := apply_delete_spec r path hpar
      refine ⟨r', h1, h2, fun p hp => ?_⟩
      rw [hcp p hp]
      by_cases hnil : path = []
      · exact Or.inl hnil
      · rcases hpar with hp0 | hp0
        · exact absurd hp0 hnil
        · right
          have : ¬ path <+: path.dropLast := by
            intro hpre
            have hl1 := hpre.length_le
            have hl2 : path.dropLast.length = path.length - 1 := List.length_dropLast
            have hl3 : 0 < path.length := List.length_pos_iff.mpr hnil
            omega
          rw [h2 _ this]; exact hp0


/-- The controller's ancestor update always resolves every path: for every
mode, all trees and *every* family of reported result entries,
`Apply(ancestor, ancestorChanges ++ αResults ++ βResults)` succeeds. -/
theorem ancestor_update_succeeds (mode : Mode) (A alpha beta : Option Entry) (resα resβ : List Change)
    (hα : resα.map (·.path) = (Reconcile A alpha beta mode).alpha.map (·.path))
    (hβ : resβ.map (·.path) = (Reconcile A alpha beta mode).beta.map (·.path)) :
    ∃ A', apply A ((Reconcile A alpha beta mode).anc ++ (resα ++ resβ)) = .ok A' := by
  obtain ⟨r1, h1, _, h1p⟩ := reconcile_anc_spec mode [] A alpha beta A (Or.inl rfl) (fun q => rfl)
  have hpaths : (resα ++ resβ).map (·.path) = (Reconcile A alpha beta mode).changePaths := by
    simp [Plan.changePaths, hα, hβ]
  have hinc : List.Pairwise (fun a b : Change => incomparable a.path b.path) (resα ++ resβ) := by
    have := (reconcile_actions mode [] A alpha beta).2.sublist
      (Plan.changePaths_sublist (Reconcile A alpha beta mode))
    rw [← hpaths] at this
    exact List.pairwise_map.mp this
  obtain ⟨A', h2⟩ := apply_incomparable_ok (resα ++ resβ) r1 hinc (fun c hc =>
    h1p c.path (by
      have : c.path ∈ (Reconcile A alpha beta mode).changePaths := by
        rw [← hpaths]; exact List.mem_map.mpr ⟨c, hc, rfl⟩
      exact this))
  refine ⟨A', ?_⟩
  rw [apply_append]
  have : apply A (Reconcile A alpha beta mode).anc = .ok r1 := h1
  rw [this]
  exact h2


theorem handleDisagreement_actions_nil (mode : Mode) (path : Path) (a al be : Option Entry)
    (h : (handleDisagreement mode path a al be).actionPaths = []) : mode = .oneWaySafe := by
  unfold handleDisagreement at h
  cases mode
  · rw [handleBidirectional_actions] at h; cases h
  · rw [handleBidirectional_actions] at h; cases h
  · rfl
  · rw [handleOneWayReplica_actions] at h; cases h

/-- Where a side holds unsynchronizable residue at a disagreeing path, that
side is not touched, and the disagreement is answered by exactly one of: a
conflict rooted at the path, a change of the *other* side at the path, or (only
in one-way-safe mode) no action at all. -/
theorem residue_blocks (mode : Mode) (path : Path) (a al be : Option Entry) :
    (diff path (osync be) be ≠ [] →
      (handleDisagreement mode path a al be).beta = [] ∧
      ((handleDisagreement mode path a al be).conflicts.map (·.root) = [path] ∨
       (handleDisagreement mode path a al be).alpha.map (·.path) = [path] ∨
       (mode = .oneWaySafe ∧ (handleDisagreement mode path a al be).actionPaths = []))) ∧
    (diff path (osync al) al ≠ [] →
      (handleDisagreement mode path a al be).alpha = [] ∧
      ((handleDisagreement mode path a al be).conflicts.map (·.root) = [path] ∨
       (handleDisagreement mode path a al be).beta.map (·.path) = [path] ∨
       (mode = .oneWaySafe ∧ (handleDisagreement mode path a al be).actionPaths = []))) := by
  have hc := handleDisagreement_clean mode path a al be
  have hact := handleDisagreement_actions mode path a al be
  constructor
  · intro hne
    have hb : (handleDisagreement mode path a al be).beta = [] := by
      cases hl : (handleDisagreement mode path a al be).beta with
      | nil => rfl
      | cons c cs =>
        exact absurd (diff_nil_of_sameTree path _ _ (hc.2 c (by rw [hl]; simp)).2) hne
    refine ⟨hb, ?_⟩
    rcases hact with h | h
    · simp only [Plan.actionPaths, hb, List.map_nil, List.append_nil] at h
      rcases List.append_eq_singleton_iff.mp h with ⟨h1, h2⟩ | ⟨h1, h2⟩
      · exact Or.inl h2
      · exact Or.inr (Or.inl h1)
    · exact Or.inr (Or.inr ⟨handleDisagreement_actions_nil mode path a al be h, h⟩)
  · intro hne
    have ha : (handleDisagreement mode path a al be).alpha = [] := by
      cases hl : (handleDisagreement mode path a al be).alpha with
      | nil => rfl
      | cons c cs =>
        exact absurd (diff_nil_of_sameTree path _ _ (hc.1 c (by rw [hl]; simp)).2) hne
    refine ⟨ha, ?_⟩
    rcases hact with h | h
    · simp only [Plan.actionPaths, ha, List.map_nil, List.nil_append] at h
      rcases List.append_eq_singleton_iff.mp h with ⟨h1, h2⟩ | ⟨h1, h2⟩
      · exact Or.inl h2
      · exact Or.inr (Or.inl h1)
    · exact Or.inr (Or.inr ⟨handleDisagreement_actions_nil mode path a al be h, h⟩)

end Mutagen.Model
