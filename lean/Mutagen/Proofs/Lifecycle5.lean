import Mutagen.Proofs.Lifecycle4
/-!
Lifecycle model: a terminated session stays terminated.
-/
namespace Mutagen.Proofs.Lifecycle
open Mutagen.Model.Lifecycle

/-- The session is gone for good: no files, no loop, lock free; the controller
is disabled, or (after a manager restart) nothing is registered and no call is
waiting for the old controller's lock; nobody is creating a session. -/
structure Dead (s : State) : Prop where
  sess : s.sess = none
  arch : s.arch = none
  running : s.running = false
  loop : s.loop = none
  crit : s.crit = none
  unreachable : s.disabled = true ∨ (s.entry = false ∧ ∀ th ∈ s.threads, th.ph ≠ .waitLock)
  no_create : ∀ th ∈ s.threads, th.op ≠ .create true ∧ th.op ≠ .create false

set_option maxHeartbeats 32000000 in
set_option maxRecDepth 10000 in
theorem dead_thread {s : State} {th : Thread} {lab : Label} {s' : State} (hth : th ∈ s.threads)
    (h : (lab, s') ∈ threadSteps s th) (d : Dead s) : Dead s' := by
  obtain ⟨d1, d2, d3, d4, d5, d6, d7⟩ := d
  have hnc := d7 th hth
  unfold threadSteps at h
  split at h
  all_goals
    constructor <;>
    aesop (add norm simp [acquire, afterStop, finish, State.setThread, State.dropThread, State.startLoop,
      State.cancelLoop, newLoop, othersIdle])
      (add safe forward d7) (add safe forward len1)
      (config := { maxRuleApplications := 400 })

end Mutagen.Proofs.Lifecycle
