import Mutagen.Model.ScanFS
/-!
Frame property of the scanner: no handler ever *reads* the mutable scanner state
(new caches, counters); each only adds to it.  Hence a handler run from any
state is the run from the empty state, with its additions appended.
-/
namespace Mutagen.Proofs.ScanFrame
open Mutagen.Model Mutagen.Model.ScanFS

/-- Append the additions `d` (a state reached from the empty state) to `st`. -/
def add (st d : St) : St :=
  { newCache := d.newCache ++ st.newCache, newIgnore := d.newIgnore ++ st.newIgnore,
    dirs := st.dirs + d.dirs, files := st.files + d.files, links := st.links + d.links, size := st.size + d.size }

theorem add_empty (st : St) : add st {} = st := by
  simp [add]

theorem empty_add (d : St) : add {} d = d := by
  simp [add]

theorem add_assoc (st a b : St) : add (add st a) b = add st (add a b) := by
  simp [add, Nat.add_assoc]

/-- The frame property of a `Res × St`-valued handler. -/
def Frame (f : St → Res × St) : Prop := ∀ st, f st = ((f {}).1, add st (f {}).2)

theorem frame_const (r : Res) : Frame (fun st => (r, st)) := by
  intro st; simp [add_empty]

theorem scanFile_frame (cfg : Cfg) (acc : Accel) (path : String) (isRoot : Bool) (content : Bytes) (perm : Nat)
    (mtime : MTime) (size ino : Nat) : Frame (scanFile cfg acc path isRoot content perm mtime size ino) := by
  intro st
  unfold scanFile
  simp only
  split
  · simp [add_empty]
  · split
    · simp [add_empty]
    · simp [add]

theorem scanSymlink_frame (cfg : Cfg) (path : String) (link : Fault × String) (p : Bool) :
    Frame (scanSymlink cfg path link p) := by
  intro st
  unfold scanSymlink
  split
  · simp [add_empty]
  · simp [add_empty]
  · split
    · simp [add_empty]
    · simp [add]

theorem reuseVisit_frame (acc : Accel) (path : String) (p : Props) (st : St) (m : Bool) :
    reuseVisit acc path p (st, m) =
      (add st (reuseVisit acc path p ({}, false)).1, m || (reuseVisit acc path p ({}, false)).2) := by
  unfold reuseVisit
  simp only
  repeat' split
  all_goals simp [add]

mutual
theorem reuseWalk_frame (acc : Accel) : (e : Entry) → (path : String) → (st : St) → (m : Bool) →
    reuseWalk acc path e (st, m) =
      (add st (reuseWalk acc path e ({}, false)).1, m || (reuseWalk acc path e ({}, false)).2)
  | .mk p cs, path, st, m => by
    unfold reuseWalk
    rw [reuseVisit_frame acc path p st m]
    rw [reuseWalkL_frame acc cs _ _ _]
    rw [reuseWalkL_frame acc cs _ (reuseVisit acc path p ({}, false)).1 (reuseVisit acc path p ({}, false)).2]
    simp [add_assoc, Bool.or_assoc]
theorem reuseWalkL_frame (acc : Accel) : (cs : Contents) → (pfx : String) → (st : St) → (m : Bool) →
    reuseWalkL acc pfx cs (st, m) =
      (add st (reuseWalkL acc pfx cs ({}, false)).1, m || (reuseWalkL acc pfx cs ({}, false)).2)
  | [], pfx, st, m => by
    simp [reuseWalkL, add_empty]
  | (n, c) :: r, pfx, st, m => by
    unfold reuseWalkL
    rw [reuseWalk_frame acc c (pfx ++ n) st m]
    rw [reuseWalkL_frame acc r pfx _ _]
    rw [reuseWalkL_frame acc r pfx (reuseWalk acc (pfx ++ n) c ({}, false)).1 (reuseWalk acc (pfx ++ n) c ({}, false)).2]
    simp [add_assoc, Bool.or_assoc]
end

/-- The frame property of the children loop. -/
def FrameL (f : St → Option (Contents × St)) : Prop :=
  ∀ st, f st = (f {}).map fun r => (r.1, add st r.2)

mutual
theorem scanNode_frame (cfg : Cfg) (acc : Accel) : (node : Node) → (path : String) → (isRoot : Bool) →
    (baseline : Option Entry) → (mask : Bool) → (link : Fault × String) →
    Frame (scanNode cfg acc path isRoot baseline mask link node)
  | .file content perm mtime size ino, path, isRoot, baseline, mask, link => by
    intro st
    unfold scanNode
    exact scanFile_frame cfg acc path isRoot content perm mtime size ino st
  | .symlink t, path, isRoot, baseline, mask, link => by
    intro st
    unfold scanNode
    cases cfg.symlinkMode
    · simp [add_empty]
    · exact scanSymlink_frame cfg path link true st
    · exact scanSymlink_frame cfg path link false st
  | .other k, path, isRoot, baseline, mask, link => by
    intro st; unfold scanNode; simp [add_empty]
  | .dir dev children, path, isRoot, baseline, mask, link => by
    intro st
    unfold scanNode
    by_cases hdev : dev ≠ cfg.deviceID
    · rw [if_pos hdev, if_pos hdev]; simp [add_empty]
    · rw [if_neg hdev, if_neg hdev]
      generalize (if isRoot = true then Fault.none else cfg.openDirFault path) = opened
      cases opened
      · simp only
        by_cases hrd : cfg.readDirFault path = true
        · rw [if_pos hrd, if_pos hrd]; simp [add_empty]
        · rw [if_neg hrd, if_neg hrd]
          rw [scanChildren_frame cfg acc children (if children.isEmpty then "" else joinable path) children baseline mask [] st]
          cases scanChildren cfg acc (if children.isEmpty then "" else joinable path) children children baseline mask [] {} with
          | none => simp [add_empty]
          | some r => simp [add, Nat.add_assoc]
      · simp [add_empty]
      · simp [add_empty]
theorem scanChildren_frame (cfg : Cfg) (acc : Accel) : (cs : Children) → (pfx : String) → (all : Children) →
    (baseline : Option Entry) → (mask : Bool) → (contents : Contents) →
    FrameL (scanChildren cfg acc pfx all cs baseline mask contents)
  | [], pfx, all, baseline, mask, contents => by
    intro st; simp [scanChildren, add_empty]
  | (raw, node) :: rest, pfx, all, baseline, mask, contents => by
    intro st
    unfold scanChildren
    cases preDispatch cfg acc pfx mask raw node with
    | skip => exact scanChildren_frame cfg acc rest pfx all baseline mask contents st
    | put name e ign =>
      simp only
      rw [scanChildren_frame cfg acc rest pfx all baseline mask (upsert name e contents) _]
      rw [scanChildren_frame cfg acc rest pfx all baseline mask (upsert name e contents)
        { newCache := ({} : St).newCache, newIgnore := ign.toList ++ ({} : St).newIgnore, dirs := ({} : St).dirs,
          files := ({} : St).files, links := ({} : St).links, size := ({} : St).size }]
      cases scanChildren cfg acc pfx all rest baseline mask (upsert name e contents) {} with
      | none => rfl
      | some r => simp [add, List.append_assoc]
    | go name decoded cp isDir ign cm =>
      simp only
      have h1 : ({ st with newIgnore := ign :: st.newIgnore } : St) = add st { newIgnore := [ign] } := by simp [add]
      have h0 : ({ ({} : St) with newIgnore := ign :: ({} : St).newIgnore } : St) = { newIgnore := [ign] } := rfl
      rw [h1, h0]
      cases reuseDecision cfg acc cp (childBaseline baseline isDir name) with
      | some b =>
        simp only
        rw [reuseWalk_frame acc b cp (add st { newIgnore := [ign] }) false]
        rw [reuseWalk_frame acc b cp { newIgnore := [ign] } false]
        simp only [Bool.false_or]
        cases (reuseWalk acc cp b ({}, false)).2 with
        | true => rfl
        | false =>
          simp only [Bool.false_eq_true, if_false]
          rw [scanChildren_frame cfg acc rest pfx all baseline mask (upsert name b contents) _]
          rw [scanChildren_frame cfg acc rest pfx all baseline mask (upsert name b contents)
            (add { newIgnore := [ign] } (reuseWalk acc cp b ({}, false)).1)]
          cases scanChildren cfg acc pfx all rest baseline mask (upsert name b contents) {} with
          | none => rfl
          | some r => simp [add_assoc]
      | none =>
        simp only
        rw [scanNode_frame cfg acc node cp false (childBaseline baseline isDir name) cm (linkFor all decoded name node)
          (add st { newIgnore := [ign] })]
        rw [scanNode_frame cfg acc node cp false (childBaseline baseline isDir name) cm (linkFor all decoded name node)
          { newIgnore := [ign] }]
        cases (scanNode cfg acc cp false (childBaseline baseline isDir name) cm (linkFor all decoded name node) node {}).1 with
        | abort => rfl
        | notExist =>
          simp only
          rw [scanChildren_frame cfg acc rest pfx all baseline mask contents _]
          rw [scanChildren_frame cfg acc rest pfx all baseline mask contents
            (add { newIgnore := [ign] } (scanNode cfg acc cp false (childBaseline baseline isDir name) cm (linkFor all decoded name node) node {}).2)]
          cases scanChildren cfg acc pfx all rest baseline mask contents {} with
          | none => rfl
          | some r => simp [add_assoc]
        | entry e =>
          simp only
          rw [scanChildren_frame cfg acc rest pfx all baseline mask (upsert name e contents) _]
          rw [scanChildren_frame cfg acc rest pfx all baseline mask (upsert name e contents)
            (add { newIgnore := [ign] } (scanNode cfg acc cp false (childBaseline baseline isDir name) cm (linkFor all decoded name node) node {}).2)]
          cases scanChildren cfg acc pfx all rest baseline mask (upsert name e contents) {} with
          | none => rfl
          | some r => simp [add_assoc]
end

end Mutagen.Proofs.ScanFrame
