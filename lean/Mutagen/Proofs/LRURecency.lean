import Mutagen.Proofs.LRUSpec
/-!
C45, recency: the specification list is always sorted by last use (an
independent, history-based notion: the position in the operation sequence of
the last `Add`/`Get` naming the key), so the entry cut off on overflow is the
least recently used one.
-/
namespace Mutagen.Proofs.LRU
open Mutagen.Model.LRU

/-- Does the operation use key `x`? (`Add` and `Get` do; `Remove` and `Len` do not.) -/
def touches : Op → Nat → Bool
  | .add k _, x => decide (k = x)
  | .get k, x => decide (k = x)
  | _, _ => false

def lastUseFrom (i acc : Nat) : List Op → Nat → Nat
  | [], _ => acc
  | op :: rest, k => lastUseFrom (i + 1) (if touches op k then i else acc) rest k

/-- 1 + the position of the last operation of `hist` that uses key `k`
(0 if none does). -/
def lastUse (hist : List Op) (k : Nat) : Nat := lastUseFrom 1 0 hist k

theorem lastUseFrom_snoc (hist : List Op) (op : Op) (k : Nat) : ∀ (i acc : Nat),
    lastUseFrom i acc (hist ++ [op]) k =
      if touches op k then i + hist.length else lastUseFrom i acc hist k := by
  induction hist with
  | nil => intro i acc; simp [lastUseFrom]
  | cons o rest ih =>
    intro i acc
    simp only [List.cons_append, lastUseFrom, ih, List.length_cons]
    split
    · omega
    · rfl

theorem lastUseFrom_lt (hist : List Op) (k : Nat) : ∀ (i acc : Nat), acc < i →
    lastUseFrom i acc hist k < i + hist.length := by
  induction hist with
  | nil => intro i acc h; simpa [lastUseFrom] using h
  | cons o rest ih =>
    intro i acc h
    simp only [lastUseFrom, List.length_cons]
    have := ih (i + 1) (if touches o k then i else acc) (by split <;> omega)
    omega

theorem lastUse_snoc (hist : List Op) (op : Op) (k : Nat) :
    lastUse (hist ++ [op]) k = if touches op k then hist.length + 1 else lastUse hist k := by
  unfold lastUse
  rw [lastUseFrom_snoc]
  split
  · omega
  · rfl

theorem lastUse_le (hist : List Op) (k : Nat) : lastUse hist k ≤ hist.length := by
  have := lastUseFrom_lt hist k 1 0 (by omega)
  unfold lastUse
  omega

/-- Sorted by strictly decreasing last use, and every key has been used. -/
def Recent (hist : List Op) (items : List (Nat × Nat)) : Prop :=
  items.Pairwise (fun a b => lastUse hist a.1 > lastUse hist b.1) ∧ ∀ e ∈ items, 0 < lastUse hist e.1

theorem Recent.sublist {hist : List Op} {l l' : List (Nat × Nat)} (h : Recent hist l) (hs : l'.Sublist l) :
    Recent hist l' :=
  ⟨h.1.sublist hs, fun e he => h.2 e (hs.subset he)⟩

/-- If the operation uses none of the keys of `items`, recency is unaffected. -/
theorem Recent.untouched {hist : List Op} {items : List (Nat × Nat)} (h : Recent hist items) (op : Op)
    (hu : ∀ e ∈ items, touches op e.1 = false) : Recent (hist ++ [op]) items := by
  have heq : ∀ e ∈ items, lastUse (hist ++ [op]) e.1 = lastUse hist e.1 := by
    intro e he; rw [lastUse_snoc, hu e he]; rfl
  constructor
  · refine h.1.imp_of_mem ?_
    intro a b ha hb hab
    rw [heq a ha, heq b hb]; exact hab
  · intro e he; rw [heq e he]; exact h.2 e he

/-- Using key `k` puts its entry first. -/
theorem Recent.touch {hist : List Op} {items : List (Nat × Nat)} (h : Recent hist items) (op : Op)
    (k : Nat) (e : Nat × Nat) (hek : e.1 = k) (ht : ∀ x, touches op x = decide (k = x)) :
    Recent (hist ++ [op]) (e :: items.filter (fun x => x.1 ≠ k)) := by
  have hk : lastUse (hist ++ [op]) e.1 = hist.length + 1 := by
    rw [lastUse_snoc, ht, hek]; simp
  have hrest : Recent (hist ++ [op]) (items.filter (fun x => x.1 ≠ k)) := by
    apply Recent.untouched (h.sublist List.filter_sublist)
    intro x hx
    have := (List.mem_filter.mp hx).2
    rw [ht]
    simp at this
    simp; exact fun h' => this h'.symm
  constructor
  · rw [List.pairwise_cons]
    refine ⟨?_, hrest.1⟩
    intro b hb
    have hbk : b.1 ≠ k := by simpa using (List.mem_filter.mp hb).2
    rw [hk, lastUse_snoc, ht]
    have : decide (k = b.1) = false := by simp; exact fun h' => hbk h'.symm
    rw [this]
    have := lastUse_le hist b.1
    simp only [Bool.false_eq_true, if_false]
    omega
  · intro x hx
    rcases List.mem_cons.mp hx with rfl | hx
    · rw [hk]; omega
    · exact hrest.2 x hx

theorem step_recent_full (s : Spec) (hist : List Op) (h : Recent hist s.items) (op : Op) :
    Recent (hist ++ [op]) (match op with
      | .add k v => (k, v) :: s.items.filter (fun e => e.1 ≠ k)
      | _ => (s.step op).1.items) := by
  cases op with
  | add k v => exact h.touch (.add k v) k (k, v) rfl (fun x => rfl)
  | get k =>
    simp only [Spec.step]
    cases hf : s.items.find? (fun e => e.1 = k) with
    | none =>
      apply h.untouched
      intro e he
      have := List.find?_eq_none.mp hf e he
      simp at this
      simp [touches]; exact fun h' => this h'.symm
    | some e =>
      have hek : e.1 = k := by simpa using List.find?_some hf
      exact h.touch (.get k) k e hek (fun x => rfl)
  | remove k =>
    exact (h.sublist List.filter_sublist).untouched (.remove k) (fun e _ => rfl)
  | len => exact h.untouched .len (fun e _ => rfl)

/-- One step keeps the list sorted by recency. -/
theorem step_recent (s : Spec) (hist : List Op) (h : Recent hist s.items) (op : Op) :
    Recent (hist ++ [op]) (s.step op).1.items := by
  have hf := step_recent_full s hist h op
  cases op with
  | add k v => exact hf.sublist (truncate_sublist _ _)
  | get k => exact hf
  | remove k => exact hf
  | len => exact hf

theorem run_recent (ops : List Op) : ∀ (s : Spec) (hist : List Op), Recent hist s.items →
    Recent (hist ++ ops) (s.run ops).1.items := by
  induction ops with
  | nil => intro s hist h; simpa [Spec.run] using h
  | cons op ops ih =>
    intro s hist h
    have := ih (s.step op).1 (hist ++ [op]) (step_recent s hist h op)
    rw [List.append_assoc] at this
    exact this

/-- On an `Add` that overflows, every entry that stays was used more recently
than the entry that is cut off. -/
theorem add_evicts_least_recent (s : Spec) (hist : List Op) (h : Recent hist s.items) (k v : Nat) :
    ∀ kept ∈ (s.step (.add k v)).1.items,
    ∀ out ∈ (truncate s.cap ((k, v) :: s.items.filter (fun e => e.1 ≠ k))).2,
      lastUse (hist ++ [.add k v]) kept.1 > lastUse (hist ++ [.add k v]) out.1 := by
  have hf := step_recent_full s hist h (.add k v)
  simp only at hf
  rw [← truncate_append s.cap ((k, v) :: s.items.filter (fun e => e.1 ≠ k))] at hf
  intro kept hk out ho
  exact (List.pairwise_append.mp hf.1).2.2 kept hk out ho

end Mutagen.Proofs.LRU
