import Mutagen.Model.Executability
import Mutagen.Model.Reconcile
/-!
Lemmas about `Entry.propagate` (executability.go) used by `Properties/C18`.
-/
namespace Mutagen.Proofs.Executability
open Mutagen.Model

/-- The scalar fields recorded at a path. -/
def propsAt (t : Option Entry) (q : Path) : Option Props := (getPath t q).map Entry.props

/-- Every proper prefix of `q` is a directory in `t` (the only entries
`propagateExecutabilityRecursive` descends through). -/
def dirsAbove : Option Entry → Path → Bool
  | _, [] => true
  | t, n :: r => isKind t .directory && dirsAbove (lookup n (contents t)) r

/-- What the three rules make of the scalar fields found at `q` in the target. -/
def ruleAt (A S T : Option Entry) (q : Path) (p : Props) : Props :=
  if p.kind == .file && dirsAbove T q then
    { p with executable := execRule (getPath A q) (getPath S q) p }
  else p

theorem getPath_none (q : Path) : getPath none q = none := by
  induction q with
  | nil => rfl
  | cons n r ih => simpa [getPath, contents, lookup] using ih

theorem execRule_none (p : Props) : execRule none none p = p.executable := by
  simp [execRule, fileWithDigest, sourceUnmodified]

theorem props_eta (p : Props) : { p with executable := p.executable } = p := by
  cases p; rfl

theorem lookup_propagateL (n : Name) (ac sc : Contents) (cs : Contents) :
    lookup n (Entry.propagateL ac sc cs) =
      (lookup n cs).map fun c => c.propagate (lookup n ac) (lookup n sc) := by
  induction cs with
  | nil => simp [Entry.propagateL, lookup]
  | cons h t ih =>
    obtain ⟨m, c⟩ := h
    simp only [Entry.propagateL, lookup]
    split
    · rename_i hm; subst hm; simp
    · exact ih

theorem keys_propagateL (ac sc : Contents) (cs : Contents) :
    keys (Entry.propagateL ac sc cs) = keys cs := by
  induction cs with
  | nil => simp [Entry.propagateL, keys]
  | cons h t ih =>
    obtain ⟨m, c⟩ := h
    simp only [Entry.propagateL, keys, List.map_cons] at ih ⊢
    rw [ih]

theorem propagate_none (t : Entry) : t.propagate none none = t := by
  cases t; simp [Entry.propagate]

theorem propagateL_nil (cs : Contents) : Entry.propagateL [] [] cs = cs := by
  induction cs with
  | nil => rfl
  | cons h t ih =>
    obtain ⟨m, c⟩ := h
    simp [Entry.propagateL, lookup, propagate_none, ih]

theorem contents_some_mk (p : Props) (cs : Contents) : contents (some (Entry.mk p cs)) = cs := rfl

/-- The scalar fields of the result: only a file's executable bit can differ. -/
theorem propagate_props (p : Props) (cs : Contents) (a s : Option Entry) :
    ((Entry.mk p cs).propagate a s).props =
      if p.kind == .file then { p with executable := execRule a s p } else p := by
  by_cases h0 : (a.isNone && s.isNone) = true
  · have ha : a = none := by cases a <;> simp_all
    have hs : s = none := by cases s <;> simp_all
    subst ha hs
    rw [propagate_none, execRule_none]
    cases p; simp [Entry.props]
  · by_cases hd : (p.kind == Kind.directory) = true
    · have hk : p.kind = Kind.directory := by simpa using hd
      have hf : (p.kind == Kind.file) = false := by simp [hk]
      by_cases he : ((contents s).isEmpty && (contents a).isEmpty) = true <;>
        simp [Entry.propagate, h0, hd, hf, he, Entry.props]
    · by_cases hf : (p.kind == Kind.file) = true
      · simp [Entry.propagate, h0, hd, hf, Entry.props]
      · simp [Entry.propagate, h0, hd, hf, Entry.props]

/-- The contents of the result: a directory's children are propagated
name-wise, anything else keeps its (for valid entries: empty) contents. -/
theorem propagate_children (p : Props) (cs : Contents) (a s : Option Entry) :
    ((Entry.mk p cs).propagate a s).children =
      if p.kind == .directory then Entry.propagateL (contents a) (contents s) cs else cs := by
  by_cases h0 : (a.isNone && s.isNone) = true
  · have ha : a = none := by cases a <;> simp_all
    have hs : s = none := by cases s <;> simp_all
    subst ha hs
    rw [propagate_none]
    simp [contents, propagateL_nil, Entry.children]
  · by_cases hd : (p.kind == Kind.directory) = true
    · simp only [Entry.propagate, h0, hd]
      by_cases he : ((contents s).isEmpty && (contents a).isEmpty) = true
      · have hse : contents s = [] := by simp_all
        have hae : contents a = [] := by simp_all
        simp [he, hse, hae, propagateL_nil, Entry.children]
      · simp [he, Entry.children]
    · by_cases hf : (p.kind == Kind.file) = true
      · simp [Entry.propagate, h0, hd, hf, Entry.children]
      · simp [Entry.propagate, h0, hd, hf, Entry.children]

theorem getPath_some_cons (e : Entry) (n : Name) (r : Path) :
    getPath (some e) (n :: r) = getPath (lookup n e.children) r := rfl

/-- Path-wise characterisation of `propagateExecutabilityRecursive`. -/
theorem propsAt_propagate (q : Path) : ∀ (t : Entry) (a s : Option Entry),
    propsAt (some (t.propagate a s)) q = (propsAt (some t) q).map (ruleAt a s (some t) q) := by
  induction q with
  | nil =>
    intro t a s
    obtain ⟨p, cs⟩ := t
    simp only [propsAt, getPath, Option.map_some, ruleAt, dirsAbove, Bool.and_true, propagate_props]
    rfl
  | cons n r ih =>
    intro t a s
    obtain ⟨p, cs⟩ := t
    simp only [propsAt, getPath_some_cons, propagate_children]
    by_cases hd : (p.kind == Kind.directory) = true
    · simp only [hd, if_true, lookup_propagateL, Entry.children]
      cases hc : lookup n cs with
      | none => simp [getPath_none]
      | some c =>
        have := ih c (lookup n (contents a)) (lookup n (contents s))
        simp only [propsAt, Option.map_some] at this ⊢
        rw [this]
        congr 1
        funext pp
        simp only [ruleAt, dirsAbove, isKind, Entry.kind, Entry.props, hd, Bool.true_and,
          contents_some_mk, hc, getPath]
    · have hd' : (p.kind == Kind.directory) = false := by simpa using hd
      simp only [hd', Bool.false_eq_true, if_false, Entry.children]
      cases hq : (getPath (lookup n cs) r) with
      | none => rfl
      | some e =>
        simp [ruleAt, dirsAbove, isKind, Entry.kind, Entry.props, hd']

end Mutagen.Proofs.Executability
