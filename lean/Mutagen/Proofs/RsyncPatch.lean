import Mutagen.Proofs.RsyncGeo
/-!
C19, part 3: the bytes the plan stands for are the target.

* `evOps_bytes`: coalescing and chunking do not change the bytes the closure
  calls stand for;
* `loopEvents_bytes`/`coreEvents_bytes`: the closure calls of the main loop stand
  for the target, provided every strong-hash match is a genuine match
  (`SoundFull`, `SoundLast`, which follow from the no-collision hypothesis).
-/
namespace Mutagen.Proofs.Rsync
open Mutagen.Model.Rsync

section
variable {D : Type}

/-- The bytes a closure call stands for. -/
def evBytes (base : List UInt8) (bs : Nat) : Event → List UInt8
  | .data d => d
  | .block i => blockBytes base bs i

/-- The bytes of the pending coalesced run. -/
def coBytes (base : List UInt8) (bs : Nat) (co : Co) : List UInt8 := blocksBytes base bs co.start co.count

theorem opBytes_dataOp (base : List UInt8) (sig : Signature D) (d : List UInt8) (h : 0 < d.length) :
    opBytes base sig (dataOp d) = d := by
  simp [opBytes, dataOp, h]

theorem opBytes_blockOp (base : List UInt8) (sig : Signature D) (s c : Nat) :
    opBytes base sig (blockOp s c) = blocksBytes base sig.blockSize s c := by
  simp [opBytes, blockOp]

theorem chunks_bytes (base : List UInt8) (sig : Signature D) (maxOp : Nat) (hm : 0 < maxOp) (fuel : Nat)
    (d : List UInt8) (hf : d.length ≤ fuel) :
    (chunks maxOp fuel d).flatMap (opBytes base sig) = d := by
  induction fuel generalizing d with
  | zero =>
    have : d = [] := List.eq_nil_of_length_eq_zero (by omega)
    simp [chunks, this]
  | succ fuel ih =>
    unfold chunks
    by_cases hd : d.length > 0
    · simp only [hd, if_true, List.flatMap_cons]
      rw [opBytes_dataOp _ _ _ (by simp only [List.length_take]; omega),
        ih _ (by simp only [List.length_drop]; omega)]
      exact List.take_append_drop _ _
    · have : d = [] := List.eq_nil_of_length_eq_zero (by omega)
      simp [this]

theorem chunksAll_data (maxOp : Nat) (hm : 0 < maxOp) (fuel : Nat) (t : List UInt8) (hf : t.length < fuel) :
    (chunksAll maxOp fuel t).flatMap (·.data) = t := by
  induction fuel generalizing t with
  | zero => omega
  | succ fuel ih =>
    unfold chunksAll
    by_cases he : t.isEmpty
    · have : t = [] := by simpa using he
      simp [this]
    · have hne : t ≠ [] := by simpa using he
      have hpos : 0 < t.length := List.length_pos_iff.mpr hne
      simp only [he, Bool.false_eq_true, if_false]
      by_cases hl : t.length < maxOp
      · simp [hl, dataOp]
      · simp only [hl, if_false, List.flatMap_cons, dataOp]
        rw [ih _ (by simp only [List.length_drop]; omega)]
        exact List.take_append_drop _ _

/-- Coalescing and chunking preserve the bytes: the operations emitted for the
closure calls, followed by the run still pending, stand for the run pending at
the start followed by the calls' bytes. -/
theorem evOps_bytes (base : List UInt8) (sig : Signature D) (maxOp : Nat) (hm : 0 < maxOp)
    (evs : List Event) (co : Co) :
    (evOps maxOp evs co).1.flatMap (opBytes base sig) ++ coBytes base sig.blockSize (evOps maxOp evs co).2 =
      coBytes base sig.blockSize co ++ evs.flatMap (evBytes base sig.blockSize) := by
  induction evs generalizing co with
  | nil => simp [evOps]
  | cons e es ih =>
    cases e with
    | data d =>
      simp only [evOps, List.flatMap_append, List.append_assoc, ih (dataCo d co), List.flatMap_cons, evBytes]
      rw [chunks_bytes base sig maxOp hm _ _ (Nat.le_refl _)]
      unfold dataPre dataCo
      by_cases hc : d.length > 0 ∧ co.count > 0
      · simp [hc, opBytes_blockOp, coBytes, blocksBytes]
      · simp only [hc, if_false, List.flatMap_nil, List.nil_append]
        by_cases hd : d.length > 0
        · have h0 : co.count = 0 := by
            by_cases h : co.count > 0
            · exact absurd ⟨hd, h⟩ hc
            · omega
          simp [coBytes, h0, blocksBytes]
        · have : d = [] := List.eq_nil_of_length_eq_zero (by omega)
          simp [this]
    | block i =>
      simp only [evOps, List.flatMap_append, List.append_assoc, ih (blockCo i co), List.flatMap_cons, evBytes]
      unfold blockPre blockCo
      by_cases hc : co.count > 0
      · by_cases he : co.start + co.count = i
        · simp only [hc, he, ne_eq, not_true_eq_false, and_false, if_false, List.flatMap_nil,
            List.nil_append, and_self, if_true, coBytes]
          rw [blocksBytes_snoc, he, List.append_assoc]
        · simp [hc, he, opBytes_blockOp, coBytes, blocksBytes]
      · have h0 : co.count = 0 := by omega
        simp [hc, coBytes, h0, blocksBytes]

theorem flushOps_bytes (base : List UInt8) (sig : Signature D) (co : Co) :
    (flushOps co).flatMap (opBytes base sig) = coBytes base sig.blockSize co := by
  unfold flushOps
  by_cases hc : co.count > 0
  · simp [hc, opBytes_blockOp, coBytes]
  · have h0 : co.count = 0 := by omega
    simp [hc, coBytes, h0, blocksBytes]

end

section
variable {D : Type} [DecidableEq D] (H : List UInt8 → D)

/-- Every strong-hash match against a full-size block is a genuine match, for
windows of the target `T`. -/
def SoundFull (base T : List UInt8) (bs : Nat) (full : List (BlockHash D)) : Prop :=
  ∀ p hb w, full[p]? = some hb → hb.strong = H w → w.length = bs → w <:+: T → blockBytes base bs p = w

theorem stepEvents_bytes (base T : List UInt8) (bs cap : Nat) (full : List (BlockHash D))
    (hs : SoundFull H base T bs full) (buf : List UInt8) (w : UInt32)
    (hb : bs ≤ buf.length) (hinf : buf <:+: T) :
    (stepEvents H bs cap full buf w).1.flatMap (evBytes base bs) ++ (stepEvents H bs cap full buf w).2 = buf := by
  unfold stepEvents
  cases hf : findMatch H full w (buf.drop (buf.length - bs)) with
  | some p =>
    obtain ⟨hbk, h1, _, h3⟩ := findMatch_some H full w _ p hf
    have hwin : blockBytes base bs p = buf.drop (buf.length - bs) :=
      hs p hbk _ h1 h3 (by simp only [List.length_drop]; omega)
        (List.IsInfix.trans (List.drop_suffix _ _).isInfix hinf)
    simp [evBytes, hwin]
  | none =>
    by_cases hc : buf.length = cap
    · simp [hc, evBytes]
    · simp [hc]

theorem stepEvents_suffix (bs cap : Nat) (full : List (BlockHash D)) (buf : List UInt8) (w : UInt32) :
    (stepEvents H bs cap full buf w).2 <:+ buf := by
  rcases stepEvents_buf_cases H bs cap full buf w with h | h | h
  · rw [h]; exact List.nil_suffix
  · rw [h]; exact List.drop_suffix _ _
  · rw [h]; exact List.suffix_refl _

theorem suffix_append_right {α : Type} {a b : List α} (c : List α) (h : a <:+ b) : a ++ c <:+ b ++ c := by
  obtain ⟨p, hp⟩ := h
  exact ⟨p, by rw [← hp, List.append_assoc]⟩

/-- The closure calls of the main loop, followed by the buffer it leaves, stand
for the buffer and unread target it started with. -/
theorem loopEvents_bytes (base T : List UInt8) (bs cap : Nat) (full : List (BlockHash D))
    (hbs : 0 < bs) (hs : SoundFull H base T bs full) (fuel : Nat) (t buf : List UInt8) (r1 r2 : UInt32)
    (hf : t.length < fuel) (hsuf : buf ++ t <:+ T) (hb : buf = [] ∨ bs ≤ buf.length) :
    (loopEvents H bs cap full fuel t buf r1 r2).1.flatMap (evBytes base bs) ++
        (loopEvents H bs cap full fuel t buf r1 r2).2.1 = buf ++ t ∧
      (loopEvents H bs cap full fuel t buf r1 r2).2.1 <:+ T := by
  induction fuel generalizing t buf r1 r2 with
  | zero => omega
  | succ fuel ih =>
    unfold loopEvents
    by_cases he : buf.isEmpty
    · have hbe : buf = [] := by simpa using he
      subst hbe
      simp only [List.isEmpty_nil, if_true, List.nil_append] at hsuf ⊢
      by_cases ht : t.length < bs
      · simp only [ht, if_true, List.flatMap_nil, List.nil_append]
        exact ⟨trivial, hsuf⟩
      · simp only [ht, if_false]
        have hlen : (t.take bs).length = bs := by simp only [List.length_take]; omega
        have hinf : t.take bs <:+: T := List.IsInfix.trans (List.take_prefix _ _).isInfix hsuf.isInfix
        have hst := stepEvents_bytes H base T bs cap full hs (t.take bs) (weakHash (t.take bs) bs).1
          (by omega) hinf
        have hsx := stepEvents_suffix H bs cap full (t.take bs) (weakHash (t.take bs) bs).1
        have hsuf' : (stepEvents H bs cap full (t.take bs) (weakHash (t.take bs) bs).1).2 ++ t.drop bs <:+ T := by
          refine List.IsSuffix.trans (suffix_append_right (t.drop bs) hsx) ?_
          rw [List.take_append_drop]; exact hsuf
        obtain ⟨h1, h2⟩ := ih (t.drop bs) _ (weakHash (t.take bs) bs).2.1 (weakHash (t.take bs) bs).2.2
          (by simp only [List.length_drop]; omega) hsuf'
          (stepEvents_buf_ok H bs cap full _ _ (by omega))
        refine ⟨?_, h2⟩
        rw [List.flatMap_append, List.append_assoc, h1, ← List.append_assoc, hst, List.take_append_drop]
    · have hne : buf ≠ [] := by simpa using he
      have hlen : bs ≤ buf.length := by
        rcases hb with h | h
        · exact absurd h hne
        · exact h
      have hnl : ¬ buf.length < bs := by omega
      simp only [he, Bool.false_eq_true, if_false, hnl]
      cases t with
      | nil =>
        simp only [List.flatMap_nil, List.nil_append]
        exact ⟨by simp, by simpa using hsuf⟩
      | cons b t' =>
        simp only
        have hsuf1 : (buf ++ [b]) ++ t' <:+ T := by simpa using hsuf
        have hinf : buf ++ [b] <:+: T :=
          List.IsInfix.trans (List.prefix_append _ _).isInfix hsuf1.isInfix
        have hst := stepEvents_bytes H base T bs cap full hs (buf ++ [b])
          (rollWeakHash r1 r2 (buf.getD (buf.length - bs) 0) b bs).1
          (by simp only [List.length_append, List.length_cons, List.length_nil]; omega) hinf
        have hsx := stepEvents_suffix H bs cap full (buf ++ [b])
          (rollWeakHash r1 r2 (buf.getD (buf.length - bs) 0) b bs).1
        have hsuf' := List.IsSuffix.trans (suffix_append_right t' hsx) hsuf1
        obtain ⟨h1, h2⟩ := ih t' _ (rollWeakHash r1 r2 (buf.getD (buf.length - bs) 0) b bs).2.1
          (rollWeakHash r1 r2 (buf.getD (buf.length - bs) 0) b bs).2.2
          (by simp only [List.length_cons] at hf; omega) hsuf'
          (stepEvents_buf_ok H bs cap full _ _
            (by simp only [List.length_append, List.length_cons, List.length_nil]; omega))
        refine ⟨?_, h2⟩
        rw [List.flatMap_append, List.append_assoc, h1, ← List.append_assoc, hst]
        simp

end

end Mutagen.Proofs.Rsync
