import Mutagen.Model.LRU
/-!
C45, specification level: properties of the "most-recently-used list truncated
to capacity" itself — distinct keys and the capacity bound, conservation
(every entry that leaves is logged exactly once, nothing else is), and
recency order (the list is sorted by last use, so the entry evicted on
overflow is the least recently used one).
-/
namespace Mutagen.Proofs.LRU
open Mutagen.Model.LRU

/-- Invariant of the specification state. -/
structure SpecInv (s : Spec) : Prop where
  nodup : (s.items.map Prod.fst).Nodup
  capPos : s.cap > 0 → (s.items.length : Int) ≤ s.cap
  capNeg : s.cap < 0 → s.items = []

theorem truncate_append (cap : Int) (l : List (Nat × Nat)) :
    (truncate cap l).1 ++ (truncate cap l).2 = l := by
  unfold truncate
  split
  · simp
  · simp

theorem truncate_sublist (cap : Int) (l : List (Nat × Nat)) : (truncate cap l).1.Sublist l := by
  unfold truncate
  split
  · exact List.Sublist.refl _
  · exact List.take_sublist _ _

theorem truncate_length (cap : Int) (l : List (Nat × Nat)) :
    (cap > 0 → ((truncate cap l).1.length : Int) ≤ cap) ∧ (cap < 0 → (truncate cap l).1 = []) := by
  unfold truncate
  constructor
  · intro h
    rw [if_neg (by omega)]
    simp only [List.length_take]
    omega
  · intro h
    rw [if_neg (by omega)]
    have : cap.toNat = 0 := by omega
    simp [this]

theorem filter_ne_keys_nodup (items : List (Nat × Nat)) (k : Nat) (h : (items.map Prod.fst).Nodup) :
    ((items.filter (fun e => e.1 ≠ k)).map Prod.fst).Nodup :=
  List.Nodup.sublist (List.Sublist.map _ List.filter_sublist) h

theorem not_mem_filter_ne (items : List (Nat × Nat)) (k : Nat) :
    k ∉ (items.filter (fun e => e.1 ≠ k)).map Prod.fst := by
  intro hm
  obtain ⟨e, he, hk⟩ := List.mem_map.mp hm
  have := (List.mem_filter.mp he).2
  simp at this
  exact this hk

theorem touched_keys_nodup (items : List (Nat × Nat)) (e : Nat × Nat) (h : (items.map Prod.fst).Nodup) :
    ((e :: items.filter (fun x => x.1 ≠ e.1)).map Prod.fst).Nodup := by
  rw [List.map_cons, List.nodup_cons]
  exact ⟨not_mem_filter_ne items e.1, filter_ne_keys_nodup items e.1 h⟩

theorem step_inv (s : Spec) (h : SpecInv s) (op : Op) : SpecInv (s.step op).1 := by
  cases op with
  | add k v =>
    have hn := touched_keys_nodup s.items (k, v) h.nodup
    have ht := truncate_length s.cap ((k, v) :: s.items.filter (fun e => e.1 ≠ k))
    refine ⟨?_, ht.1, ht.2⟩
    exact List.Nodup.sublist (List.Sublist.map _ (truncate_sublist _ _)) hn
  | get k =>
    simp only [Spec.step]
    cases hf : s.items.find? (fun e => e.1 = k) with
    | none => exact h
    | some e =>
      have hek : e.1 = k := by simpa using List.find?_some hf
      have hmem : e ∈ s.items := List.mem_of_find?_eq_some hf
      refine ⟨?_, ?_, ?_⟩
      · show ((e :: s.items.filter (fun x => x.1 ≠ k)).map Prod.fst).Nodup
        rw [← hek]; exact touched_keys_nodup s.items e h.nodup
      · intro hp
        have := h.capPos hp
        show (((e :: s.items.filter (fun x => x.1 ≠ k)).length : Nat) : Int) ≤ s.cap
        have hlt : (s.items.filter (fun x => x.1 ≠ k)).length < s.items.length := by
          apply List.length_filter_lt_length_iff_exists.mpr
          exact ⟨e, hmem, by simp [hek]⟩
        rw [List.length_cons]; omega
      · intro hn
        have := h.capNeg hn
        rw [this] at hmem; simp at hmem
  | remove k =>
    refine ⟨filter_ne_keys_nodup s.items k h.nodup, ?_, ?_⟩
    · intro hp
      have := h.capPos hp
      have hle : (s.items.filter (fun e => e.1 ≠ k)).length ≤ s.items.length := List.length_filter_le _ _
      show ((s.items.filter (fun e => e.1 ≠ k)).length : Int) ≤ s.cap
      omega
    · intro hn
      have := h.capNeg hn
      show s.items.filter (fun e => e.1 ≠ k) = []
      rw [this]; rfl
  | len => exact h

theorem new_inv (cap : Int) : SpecInv (Spec.new cap) :=
  ⟨by simp [Spec.new], by simp [Spec.new]; omega, by simp [Spec.new]⟩

theorem run_inv (ops : List Op) : ∀ (s : Spec), SpecInv s → SpecInv (s.run ops).1 := by
  induction ops with
  | nil => intro s h; exact h
  | cons op ops ih => intro s h; exact ih _ (step_inv s h op)

theorem filter_key_nil (xs : List (Nat × Nat)) (k : Nat) (h : k ∉ xs.map Prod.fst) :
    xs.filter (fun e => e.1 = k) = [] := by
  rw [List.filter_eq_nil_iff]
  intro y hy hyk
  apply h
  have : y.1 = k := by simpa using hyk
  rw [← this]; exact List.mem_map_of_mem hy

theorem filter_key_unique (items : List (Nat × Nat)) (hnd : (items.map Prod.fst).Nodup)
    (e : Nat × Nat) (k : Nat) (hmem : e ∈ items) (hek : e.1 = k) :
    items.filter (fun x => x.1 = k) = [e] := by
  induction items with
  | nil => simp at hmem
  | cons x xs ih =>
    rw [List.map_cons, List.nodup_cons] at hnd
    rcases List.mem_cons.mp hmem with rfl | hm
    · have := filter_key_nil xs k (by rw [← hek]; exact hnd.1)
      simp [List.filter_cons, hek, this]
    · have hxk : x.1 ≠ k := by
        intro hxk
        apply hnd.1
        rw [hxk, ← hek]; exact List.mem_map_of_mem hm
      simp only [List.filter_cons, hxk, decide_false]
      exact ih hnd.2 hm

theorem filter_key_le_one (items : List (Nat × Nat)) (hnd : (items.map Prod.fst).Nodup) (k : Nat) :
    (items.filter (fun e => e.1 = k)).length ≤ 1 := by
  induction items with
  | nil => simp
  | cons x xs ih =>
    rw [List.map_cons, List.nodup_cons] at hnd
    by_cases hx : x.1 = k
    · have := filter_key_nil xs k (by rw [← hx]; exact hnd.1)
      simp [List.filter_cons, hx, this]
    · simp only [List.filter_cons, hx, decide_false]
      exact ih hnd.2

/-! ### Conservation: what leaves is logged, exactly once -/

/-- The entries in play during a step: for `Add k v` the new pair replaces any
old pair with key `k`; other operations add nothing. -/
def base (s : Spec) : Op → List (Nat × Nat)
  | .add k v => (k, v) :: s.items.filter (fun e => e.1 ≠ k)
  | _ => s.items

/-- One step: the log only grows, and (entries kept) + (entries newly logged)
is a rearrangement of the entries in play. -/
theorem step_conservation (s : Spec) (h : SpecInv s) (op : Op) :
    ∃ delta, (s.step op).1.evicted = s.evicted ++ delta ∧
      ((s.step op).1.items ++ delta).Perm (base s op) := by
  cases op with
  | add k v =>
    refine ⟨(truncate s.cap ((k, v) :: s.items.filter (fun e => e.1 ≠ k))).2, rfl, ?_⟩
    show ((truncate s.cap _).1 ++ (truncate s.cap _).2).Perm _
    rw [truncate_append]
    exact List.Perm.refl _
  | get k =>
    refine ⟨[], ?_, ?_⟩
    · simp only [Spec.step]
      cases s.items.find? (fun e => e.1 = k) <;> simp
    · simp only [Spec.step, base]
      cases hf : s.items.find? (fun e => e.1 = k) with
      | none => simp
      | some e =>
        have hek : e.1 = k := by simpa using List.find?_some hf
        have hmem : e ∈ s.items := List.mem_of_find?_eq_some hf
        show ((e :: s.items.filter (fun x => x.1 ≠ k)) ++ []).Perm s.items
        rw [List.append_nil]
        -- exactly one entry has key `k`
        have hone : s.items.filter (fun x => x.1 = k) = [e] :=
          filter_key_unique s.items h.nodup e k hmem hek
        have hp := List.filter_append_perm (fun x : Nat × Nat => decide (x.1 = k)) s.items
        rw [hone] at hp
        refine List.Perm.trans ?_ hp
        show (e :: s.items.filter (fun x => x.1 ≠ k)).Perm ([e] ++ s.items.filter (fun x => !decide (x.1 = k)))
        have : (fun x : Nat × Nat => decide (x.1 ≠ k)) = (fun x => !decide (x.1 = k)) := by
          funext x; simp
        rw [this]
        exact List.Perm.refl _
  | remove k =>
    refine ⟨s.items.filter (fun e => e.1 = k), rfl, ?_⟩
    show (s.items.filter (fun e => e.1 ≠ k) ++ s.items.filter (fun e => e.1 = k)).Perm s.items
    have hp := List.filter_append_perm (fun x : Nat × Nat => decide (x.1 = k)) s.items
    refine List.Perm.trans List.perm_append_comm ?_
    have : (fun x : Nat × Nat => decide (x.1 ≠ k)) = (fun x => !decide (x.1 = k)) := by
      funext x; simp
    rw [this]
    exact hp
  | len => exact ⟨[], by simp [Spec.step], by simp [Spec.step, base]⟩

/-- The entries logged by one `Add` that overflows / one `Remove` that hits are
a single entry; every other step logs nothing. -/
theorem step_logs_at_most_one (s : Spec) (h : SpecInv s) (op : Op) :
    ∃ delta, (s.step op).1.evicted = s.evicted ++ delta ∧ delta.length ≤ 1 := by
  obtain ⟨delta, h1, h2⟩ := step_conservation s h op
  refine ⟨delta, h1, ?_⟩
  have hl := h2.length_eq
  have hinv := step_inv s h op
  rw [List.length_append] at hl
  cases op with
  | add k v =>
    have hb : (base s (.add k v)).length ≤ s.items.length + 1 := by
      show ((k, v) :: s.items.filter (fun e => e.1 ≠ k)).length ≤ _
      have := List.length_filter_le (fun e : Nat × Nat => decide (e.1 ≠ k)) s.items
      rw [List.length_cons]; omega
    -- delta is the part cut off by `truncate`
    have hcap : s.cap = (s.step (.add k v)).1.cap := rfl
    rcases Int.lt_trichotomy s.cap 0 with hn | hz | hp
    · have := h.capNeg hn
      rw [this] at hb
      simp at hb; omega
    · have hd : delta = [] := by
        have he : (s.step (.add k v)).1.evicted = s.evicted ++ (truncate s.cap ((k, v) :: s.items.filter (fun e => e.1 ≠ k))).2 := rfl
        rw [h1] at he
        have := List.append_cancel_left he
        rw [this]; simp [truncate, hz]
      rw [hd]; simp
    · -- kept = min(len, cap); len ≤ |items| + 1 ≤ cap + 1
      have hkept : (s.step (.add k v)).1.items = (truncate s.cap ((k, v) :: s.items.filter (fun e => e.1 ≠ k))).1 := rfl
      have hk : (s.step (.add k v)).1.items.length
          = min s.cap.toNat ((k, v) :: s.items.filter (fun e => e.1 ≠ k)).length := by
        rw [hkept]; simp [truncate, show s.cap ≠ 0 by omega, List.length_take]
      have := h.capPos hp
      have hb' : ((k, v) :: s.items.filter (fun e => e.1 ≠ k)).length = (base s (.add k v)).length := rfl
      omega
  | get k =>
    have : (base s (.get k)).length = s.items.length := rfl
    have hdl : delta = [] := by
      have he : (s.step (.get k)).1.evicted = s.evicted := by
        simp only [Spec.step]
        cases s.items.find? (fun e => e.1 = k) <;> rfl
      rw [h1] at he
      exact List.append_right_eq_self.mp he
    rw [hdl]; simp
  | remove k =>
    have he : (s.step (.remove k)).1.evicted = s.evicted ++ s.items.filter (fun e => e.1 = k) := rfl
    rw [h1] at he
    have hd := List.append_cancel_left he
    rw [hd]
    exact filter_key_le_one s.items h.nodup k
  | len =>
    have hdl : delta = [] := by
      have he : (s.step .len).1.evicted = s.evicted := rfl
      rw [h1] at he
      exact List.append_right_eq_self.mp he
    rw [hdl]; simp

end Mutagen.Proofs.LRU
