import Mutagen.Model.StreamWriters
/-!
Helper lemmas for C47, line processor: the `IndexByte` loop computes
`splitLines`, and feeding a stream in pieces gives the same lines as feeding
it whole.
-/
namespace Mutagen.Proofs.StreamLines
open Mutagen.Model.StreamWriters

theorem splitLines_cons_nl (rest : List UInt8) :
    splitLines (10 :: rest) = ([] :: (splitLines rest).1, (splitLines rest).2) := by
  simp [splitLines]

theorem splitLines_cons_other (b : UInt8) (rest : List UInt8) (hb : b ≠ 10) :
    splitLines (b :: rest) =
      match (splitLines rest).1 with
      | [] => ([], b :: (splitLines rest).2)
      | l :: ls' => ((b :: l) :: ls', (splitLines rest).2) := by
  simp only [splitLines, hb, if_false]
  cases (splitLines rest).1 <;> rfl

theorem indexByte_none_split (r : List UInt8) (h : indexByte r 10 = none) : splitLines r = ([], r) := by
  induction r with
  | nil => rfl
  | cons b rest ih =>
    simp only [indexByte] at h
    by_cases hb : b = 10
    · simp [hb] at h
    · rw [if_neg hb] at h
      have hr : indexByte rest 10 = none := by
        cases hi : indexByte rest 10 with
        | none => rfl
        | some j => rw [hi] at h; simp at h
      rw [splitLines_cons_other b rest hb, ih hr]

theorem indexByte_some_split (r : List UInt8) (i : Nat) (h : indexByte r 10 = some i) :
    splitLines r = (r.take i :: (splitLines (r.drop (i + 1))).1, (splitLines (r.drop (i + 1))).2) := by
  induction r generalizing i with
  | nil => simp [indexByte] at h
  | cons b rest ih =>
    simp only [indexByte] at h
    by_cases hb : b = 10
    · rw [if_pos hb] at h
      have : i = 0 := by simpa using h.symm
      subst this
      subst hb
      rw [splitLines_cons_nl]
      simp
    · rw [if_neg hb] at h
      cases hi : indexByte rest 10 with
      | none => rw [hi] at h; simp at h
      | some j =>
        rw [hi] at h
        have : i = j + 1 := by simpa using h.symm
        subst this
        rw [splitLines_cons_other b rest hb, ih j hi]
        simp

/-- The `for { index := bytes.IndexByte(remaining, '\n') … }` loop computes
`splitLines`: it calls back with every complete line (CR-trimmed) and counts
the bytes up to and including the last newline. -/
theorem lineLoop_spec (remaining : List UInt8) (processed : Nat) (acc : List (List UInt8)) :
    lineLoop remaining processed acc =
      (acc ++ (splitLines remaining).1.map trimCarriageReturn,
       processed + (remaining.length - (splitLines remaining).2.length)) := by
  fun_induction lineLoop remaining processed acc with
  | case1 remaining processed acc h =>
    rw [indexByte_none_split remaining h]
    simp
  | case2 remaining processed acc index h ih =>
    rw [ih, indexByte_some_split remaining index h]
    have hlt := indexByte_lt h
    simp only [List.map_cons, List.append_assoc, List.singleton_append, Prod.mk.injEq, true_and]
    -- the trailing fragment of the rest is no longer than the rest
    have hle : (splitLines (remaining.drop (index + 1))).2.length ≤ (remaining.drop (index + 1)).length := by
      have := splitLines_rem_le (remaining.drop (index + 1))
      exact this
    rw [List.length_drop] at hle ⊢
    omega
where
  splitLines_rem_le : ∀ (r : List UInt8), (splitLines r).2.length ≤ r.length := by
    intro r
    induction r with
    | nil => simp [splitLines]
    | cons b rest ih =>
      by_cases hb : b = 10
      · subst hb; rw [splitLines_cons_nl]; simp; omega
      · rw [splitLines_cons_other b rest hb]
        cases (splitLines rest).1 with
        | nil => simp; exact ih
        | cons l ls => simp; omega

theorem splitLines_rem_le (r : List UInt8) : (splitLines r).2.length ≤ r.length :=
  lineLoop_spec.splitLines_rem_le r

/-- The trailing fragment is a suffix of the input. -/
theorem splitLines_rem_suffix (r : List UInt8) :
    r.drop (r.length - (splitLines r).2.length) = (splitLines r).2 := by
  induction r with
  | nil => simp [splitLines]
  | cons b rest ih =>
    have hle := splitLines_rem_le rest
    by_cases hb : b = 10
    · subst hb
      rw [splitLines_cons_nl]
      simp only [List.length_cons]
      rw [show rest.length + 1 - (splitLines rest).2.length = (rest.length - (splitLines rest).2.length) + 1 by omega]
      rw [List.drop_succ_cons]; exact ih
    · rw [splitLines_cons_other b rest hb]
      cases hl : (splitLines rest).1 with
      | nil =>
        -- no complete line in the rest: its fragment is the whole rest
        simp only [List.length_cons]
        have hall : (splitLines rest).2 = rest := by
          have := splitLines_flatten rest
          rw [hl] at this
          simpa using this
        rw [hall]; simp
      | cons l ls =>
        simp only [List.length_cons]
        rw [show rest.length + 1 - (splitLines rest).2.length = (rest.length - (splitLines rest).2.length) + 1 by omega]
        rw [List.drop_succ_cons]; exact ih
where
  splitLines_flatten : ∀ (r : List UInt8),
      ((splitLines r).1.map (· ++ [10])).flatten ++ (splitLines r).2 = r := by
    intro r
    induction r with
    | nil => simp [splitLines]
    | cons b rest ih =>
      by_cases hb : b = 10
      · subst hb; rw [splitLines_cons_nl]; simpa using ih
      · rw [splitLines_cons_other b rest hb]
        cases hl : (splitLines rest).1 with
        | nil => rw [hl] at ih; simpa using ih
        | cons l ls => rw [hl] at ih; simp at ih ⊢; exact ih

/-- `splitLines` really splits at the newlines: joining the lines with `'\n'`
and appending the fragment gives the input back… -/
theorem splitLines_flatten (r : List UInt8) :
    ((splitLines r).1.map (· ++ [10])).flatten ++ (splitLines r).2 = r :=
  splitLines_rem_suffix.splitLines_flatten r

/-- …and neither the lines nor the fragment contain a newline. -/
theorem splitLines_no_newline (r : List UInt8) :
    (∀ l ∈ (splitLines r).1, (10 : UInt8) ∉ l) ∧ (10 : UInt8) ∉ (splitLines r).2 := by
  induction r with
  | nil => simp [splitLines]
  | cons b rest ih =>
    by_cases hb : b = 10
    · subst hb; rw [splitLines_cons_nl]
      refine ⟨?_, ih.2⟩
      intro l hl
      rcases List.mem_cons.mp hl with rfl | hl
      · simp
      · exact ih.1 l hl
    · rw [splitLines_cons_other b rest hb]
      cases hl : (splitLines rest).1 with
      | nil =>
        refine ⟨by simp, ?_⟩
        simp only [List.mem_cons, not_or]
        exact ⟨fun h => hb h.symm, ih.2⟩
      | cons l ls =>
        rw [hl] at ih
        refine ⟨?_, ih.2⟩
        intro l' hl'
        rcases List.mem_cons.mp hl' with rfl | hl'
        · simp only [List.mem_cons, not_or]
          exact ⟨fun h => hb h.symm, ih.1 l List.mem_cons_self⟩
        · exact ih.1 l' (List.mem_cons_of_mem _ hl')

/-- Feeding the stream in two pieces gives the same lines as feeding it whole. -/
theorem splitLines_append (a b : List UInt8) :
    splitLines (a ++ b) =
      ((splitLines a).1 ++ (splitLines ((splitLines a).2 ++ b)).1, (splitLines ((splitLines a).2 ++ b)).2) := by
  induction a with
  | nil => simp [splitLines]
  | cons x a' ih =>
    rw [List.cons_append]
    by_cases hx : x = 10
    · subst hx
      rw [splitLines_cons_nl, splitLines_cons_nl, ih]
      simp
    · rw [splitLines_cons_other x (a' ++ b) hx, splitLines_cons_other x a' hx, ih]
      cases hl : (splitLines a').1 with
      | nil =>
        simp only [List.nil_append, List.cons_append]
        rw [splitLines_cons_other x _ hx]
      | cons l ls =>
        simp

/-- One `Write` on the line processor. -/
theorem lineProc_write (p : LineProc) (data : List UInt8) :
    (lineLimitExceeded p.maxBuf p.buffer.length data.length → p.write data = (p, 0, .maxbuf)) ∧
    (¬lineLimitExceeded p.maxBuf p.buffer.length data.length →
      (p.write data).2 = (data.length, .none) ∧ (p.write data).1.maxBuf = p.maxBuf ∧
      (p.write data).1.buffer = (splitLines (p.buffer ++ data)).2 ∧
      (p.write data).1.lines = p.lines ++ (splitLines (p.buffer ++ data)).1.map trimCarriageReturn) := by
  unfold lineLimitExceeded LineProc.write
  constructor
  · rintro (h | h)
    · rw [if_pos h]
    · by_cases h0 : p.maxBuf = 0 ∧
          p.buffer.length + data.length > Mutagen.Facts.streamDefaultLineProcessorMaximumBufferSize
      · rw [if_pos h0]
      · rw [if_neg h0, if_pos h]
  · intro h
    have h1 : ¬(p.maxBuf = 0 ∧
        p.buffer.length + data.length > Mutagen.Facts.streamDefaultLineProcessorMaximumBufferSize) :=
      fun hh => h (.inl hh)
    have h2 : ¬(p.maxBuf > 0 ∧ ((p.buffer.length + data.length : Nat) : Int) > p.maxBuf) :=
      fun hh => h (.inr hh)
    rw [if_neg h1, if_neg h2]
    dsimp only
    rw [lineLoop_spec]
    have hle := splitLines_rem_le (p.buffer ++ data)
    have hsuf := splitLines_rem_suffix (p.buffer ++ data)
    refine ⟨rfl, rfl, ?_, ?_⟩
    · show (if 0 + ((p.buffer ++ data).length - (splitLines (p.buffer ++ data)).2.length) > 0 then _ else _) = _
      by_cases hp : 0 + ((p.buffer ++ data).length - (splitLines (p.buffer ++ data)).2.length) > 0
      · rw [if_pos hp]
        show ((p.buffer ++ data).drop (0 + ((p.buffer ++ data).length - (splitLines (p.buffer ++ data)).2.length))).take
          ((p.buffer ++ data).length - (0 + ((p.buffer ++ data).length - (splitLines (p.buffer ++ data)).2.length))) = _
        rw [Nat.zero_add, hsuf, List.take_of_length_le (by omega)]
      · rw [if_neg hp]
        have hz : (p.buffer ++ data).length - (splitLines (p.buffer ++ data)).2.length = 0 := by omega
        rw [hz] at hsuf
        simpa using hsuf
    · show p.lines ++ ([] ++ _) = _
      rw [List.nil_append]

/-- A whole write sequence on the line processor: the callback has received
exactly the complete lines of the accepted byte stream, CR-trimmed, and the
buffer holds the trailing fragment. `S` is the stream accepted before. -/
theorem lineProc_run (bufs : List (List UInt8)) : ∀ (p : LineProc) (S : List UInt8),
    p.buffer = (splitLines S).2 → p.lines = (splitLines S).1.map trimCarriageReturn →
    (p.run bufs).1.buffer = (splitLines (S ++ accepted bufs (p.run bufs).2)).2 ∧
    (p.run bufs).1.lines = (splitLines (S ++ accepted bufs (p.run bufs).2)).1.map trimCarriageReturn ∧
    (p.run bufs).2.length = bufs.length ∧
    (∀ (i : Nat) (b : List UInt8) (r : Nat × Err), bufs[i]? = some b → (p.run bufs).2[i]? = some r →
      r = (b.length, .none) ∨ r = (0, .maxbuf)) := by
  induction bufs with
  | nil => intro p S hb hl; simp [LineProc.run, accepted, hb, hl]
  | cons b bs ih =>
    intro p S hb hl
    have hrun : p.run (b :: bs) = (((p.write b).1.run bs).1,
        ((p.write b).2.1, (p.write b).2.2) :: ((p.write b).1.run bs).2) := rfl
    obtain ⟨w1, w2⟩ := lineProc_write p b
    by_cases hrej : lineLimitExceeded p.maxBuf p.buffer.length b.length
    · have hw := w1 hrej
      obtain ⟨r1, r2, r3, r4⟩ := ih p S hb hl
      rw [hrun, hw]
      simp only [accepted]
      refine ⟨by simpa using r1, by simpa using r2, by simp [r3], ?_⟩
      intro i b' r hb' hr
      cases i with
      | zero =>
        simp only [List.getElem?_cons_zero, Option.some.injEq] at hb' hr
        subst hb' hr; exact .inr rfl
      | succ i =>
        simp only [List.getElem?_cons_succ] at hb' hr
        exact r4 i b' r hb' hr
    · obtain ⟨a1, a2, a3, a4⟩ := w2 hrej
      have hsp := splitLines_append S b
      rw [← hb] at hsp
      obtain ⟨r1, r2, r3, r4⟩ := ih (p.write b).1 (S ++ b)
        (by rw [a3, hsp])
        (by rw [a4, hl, hsp, List.map_append])
      rw [hrun]
      have he : (p.write b).2.2 = .none := by rw [a1]
      simp only [accepted, he, if_true]
      rw [← List.append_assoc]
      refine ⟨r1, r2, by simp [r3], ?_⟩
      intro i b' r hb' hr
      cases i with
      | zero =>
        simp only [List.getElem?_cons_zero, Option.some.injEq] at hb' hr
        subst hb' hr; exact .inl (by rw [a1])
      | succ i =>
        simp only [List.getElem?_cons_succ] at hb' hr
        exact r4 i b' r hb' hr

/-- `trimCarriageReturn` removes exactly one trailing CR, if there is one. -/
theorem trim_spec (l : List UInt8) :
    trimCarriageReturn (l ++ [13]) = l ∧ (l.getLast? ≠ some 13 → trimCarriageReturn l = l) := by
  constructor
  · simp [trimCarriageReturn]
  · intro h
    simp [trimCarriageReturn, h]

end Mutagen.Proofs.StreamLines
