/-
Preservation of the per-identifier invariant by the opener's local actions on
the identifier itself.
-/
import Mutagen.Proofs.MuxStep.WriteO
import Mutagen.Proofs.MuxStep.ReadO
import Mutagen.Proofs.MuxStep.CloseWriteO
import Mutagen.Proofs.MuxStep.CloseBeginO
import Mutagen.Proofs.MuxStep.DeregisterO
