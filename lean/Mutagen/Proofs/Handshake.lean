import Mutagen.Model.Handshake
set_option linter.unusedSimpArgs false
/-! Helper lemmas for `Mutagen.Properties.C34`. -/
namespace Mutagen.Proofs.Handshake
open Mutagen.Model.Handshake

theorem be32_roundtrip (v : UInt32) : be32dec (be32 v) = v := by
  apply UInt32.toNat_inj.mp
  have := v.toNat_lt
  simp [be32, be32dec]
  omega

theorem be32_be32dec (a b c d : UInt8) : be32 (be32dec [a, b, c, d]) = [a, b, c, d] := by
  have := a.toNat_lt; have := b.toNat_lt; have := c.toNat_lt; have := d.toNat_lt
  simp only [be32, be32dec]
  have h : (UInt32.ofNat (a.toNat * 2 ^ 24 + b.toNat * 2 ^ 16 + c.toNat * 2 ^ 8 + d.toNat)).toNat
      = a.toNat * 2 ^ 24 + b.toNat * 2 ^ 16 + c.toNat * 2 ^ 8 + d.toNat := by
    simp; omega
  rw [h]
  have e1 : UInt8.ofNat ((a.toNat * 2 ^ 24 + b.toNat * 2 ^ 16 + c.toNat * 2 ^ 8 + d.toNat) / 2 ^ 24) = a := by
    apply UInt8.toNat_inj.mp; simp; omega
  have e2 : UInt8.ofNat ((a.toNat * 2 ^ 24 + b.toNat * 2 ^ 16 + c.toNat * 2 ^ 8 + d.toNat) / 2 ^ 16) = b := by
    apply UInt8.toNat_inj.mp; simp; omega
  have e3 : UInt8.ofNat ((a.toNat * 2 ^ 24 + b.toNat * 2 ^ 16 + c.toNat * 2 ^ 8 + d.toNat) / 2 ^ 8) = c := by
    apply UInt8.toNat_inj.mp; simp; omega
  have e4 : UInt8.ofNat (a.toNat * 2 ^ 24 + b.toNat * 2 ^ 16 + c.toNat * 2 ^ 8 + d.toNat) = d := by
    apply UInt8.toNat_inj.mp; simp
  rw [e1, e2, e3, e4]

theorem be32_length (v : UInt32) : (be32 v).length = 4 := by simp [be32]

theorem len4 (x : Bytes) (h : x.length = 4) : ∃ a b c d, x = [a, b, c, d] := by
  match x, h with
  | [a, b, c, d], _ => exact ⟨a, b, c, d, rfl⟩

/-- Decoding a 4-byte slice gives `v` exactly when the slice is the encoding of `v`. -/
theorem be32dec_eq_iff (x : Bytes) (h : x.length = 4) (v : UInt32) : be32dec x = v ↔ x = be32 v := by
  obtain ⟨a, b, c, d, rfl⟩ := len4 x h
  constructor
  · intro e; rw [← e, be32_be32dec]
  · intro e; rw [e, be32_roundtrip]

theorem versionBytes_length (p : Params) : (versionBytes p).length = 12 := by
  simp [versionBytes, be32_length]

/-- The comparison of `Client/ServerVersionHandshake` on 12 received bytes. -/
theorem version_match_iff (p : Params) (data : Bytes) (h : data.length = 12) :
    ((be32dec (data.take 4) = p.major ∧ be32dec ((data.drop 4).take 4) = p.minor)
      ∧ be32dec (data.drop 8) = p.patch) ↔ data = versionBytes p := by
  have h1 : (data.take 4).length = 4 := by simp; omega
  have h2 : ((data.drop 4).take 4).length = 4 := by simp; omega
  have h3 : (data.drop 8).length = 4 := by simp; omega
  simp only [be32dec_eq_iff _ h1, be32dec_eq_iff _ h2, be32dec_eq_iff _ h3]
  have k1 := (List.take_append_drop 4 data).symm
  have k2 := (List.take_append_drop 4 (data.drop 4)).symm
  rw [List.drop_drop] at k2
  constructor
  · rintro ⟨⟨e1, e2⟩, e3⟩
    rw [k1, k2, e1, e2, e3]
    simp [versionBytes]
  · intro e
    have l1 := be32_length p.major
    have l2 := be32_length p.minor
    subst e
    simp [versionBytes, l1, l2]
    rw [← List.append_assoc, List.drop_left' (by simp [l1, l2])]

/-- A stream with an unlimited write budget. -/
def S (inp sent : Bytes) : Stream := ⟨inp, none, sent⟩

theorem clientHandshake_eq (p : Params) (inp sent : Bytes) :
    clientHandshake p (S inp sent) =
      if 3 ≤ inp.length then
        if inp.take 3 = p.expectMagic then (S (inp.drop 3) (sent ++ p.sendMagic), .ok)
        else (S (inp.drop 3) sent, .reject)
      else if inp.length = 0 then (S inp sent, .eof) else (S [] sent, .ueof) := by
  simp only [clientHandshake, receiveAndCompareMagicNumber, readFull, magicLen, S, sendMagicNumber, write]
  by_cases h : 3 ≤ inp.length
  · by_cases h2 : inp.take 3 = p.expectMagic <;> simp [h, h2]
  · by_cases h2 : inp.length = 0 <;> simp [h, h2]

theorem serverHandshake_eq (p : Params) (inp sent : Bytes) :
    serverHandshake p (S inp sent) =
      if 3 ≤ inp.length then
        if inp.take 3 = p.expectMagic then (S (inp.drop 3) (sent ++ p.sendMagic), .ok)
        else (S (inp.drop 3) (sent ++ p.sendMagic), .reject)
      else if inp.length = 0 then (S inp (sent ++ p.sendMagic), .eof) else (S [] (sent ++ p.sendMagic), .ueof) := by
  simp only [serverHandshake, receiveAndCompareMagicNumber, readFull, magicLen, S, sendMagicNumber, write]
  by_cases h : 3 ≤ inp.length
  · by_cases h2 : inp.take 3 = p.expectMagic <;> simp [h, h2]
  · by_cases h2 : inp.length = 0 <;> simp [h, h2]

theorem clientVersionHandshake_eq (p : Params) (inp sent : Bytes) :
    clientVersionHandshake p (S inp sent) =
      if 12 ≤ inp.length then
        if inp.take 12 = versionBytes p then (S (inp.drop 12) (sent ++ versionBytes p), .ok)
        else (S (inp.drop 12) (sent ++ versionBytes p), .reject)
      else if inp.length = 0 then (S inp sent, .eof) else (S [] sent, .ueof) := by
  simp only [clientVersionHandshake, receiveVersion, readFull, versionLen, S, sendVersion, write]
  by_cases h : 12 ≤ inp.length
  · have hl : (inp.take 12).length = 12 := by simp; omega
    have := version_match_iff p (inp.take 12) hl
    by_cases h2 : inp.take 12 = versionBytes p
    · simp [h, h2]
      exact (version_match_iff p _ (versionBytes_length p)).mpr rfl
    · simp [h, h2]
      intro a b c
      exact h2 (this.mp ⟨⟨a, b⟩, c⟩)
  · by_cases h2 : inp.length = 0 <;> simp [h, h2]

theorem serverVersionHandshake_eq (p : Params) (inp sent : Bytes) :
    serverVersionHandshake p (S inp sent) =
      if 12 ≤ inp.length then
        if inp.take 12 = versionBytes p then (S (inp.drop 12) (sent ++ versionBytes p), .ok)
        else (S (inp.drop 12) (sent ++ versionBytes p), .reject)
      else if inp.length = 0 then (S inp (sent ++ versionBytes p), .eof) else (S [] (sent ++ versionBytes p), .ueof) := by
  simp only [serverVersionHandshake, receiveVersion, readFull, versionLen, S, sendVersion, write]
  by_cases h : 12 ≤ inp.length
  · have hl : (inp.take 12).length = 12 := by simp; omega
    have := version_match_iff p (inp.take 12) hl
    by_cases h2 : inp.take 12 = versionBytes p
    · simp [h, h2]
      exact (version_match_iff p _ (versionBytes_length p)).mpr rfl
    · simp [h, h2]
      intro a b c
      exact h2 (this.mp ⟨⟨a, b⟩, c⟩)
  · by_cases h2 : inp.length = 0 <;> simp [h, h2]

/-- What a side must receive. -/
def expected (p : Params) : Bytes := p.expectMagic ++ versionBytes p

/-- What a side sends when it gets through. -/
def reply (p : Params) : Bytes := p.sendMagic ++ versionBytes p

theorem prefix_split (M V inp : Bytes) (hM : M.length = 3) (hV : V.length = 12) :
    (M ++ V) <+: inp ↔ (3 ≤ inp.length ∧ inp.take 3 = M) ∧ (12 ≤ (inp.drop 3).length ∧ (inp.drop 3).take 12 = V) := by
  constructor
  · rintro ⟨t, rfl⟩
    rw [List.append_assoc, List.take_left' hM, List.drop_left' hM, List.take_left' hV]
    simp [hM, hV]
  · rintro ⟨⟨h1, h2⟩, h3, h4⟩
    refine ⟨(inp.drop 3).drop 12, ?_⟩
    rw [← h2, ← h4, List.append_assoc, List.take_append_drop, List.take_append_drop]

theorem clientConnect_err (p : Params) (hM : p.expectMagic.length = 3) (inp : Bytes) :
    errOn clientConnect p inp = .ok ↔ expected p <+: inp := by
  rw [expected, prefix_split _ _ _ hM (versionBytes_length p)]
  show (clientConnect p (S inp [])).2 = .ok ↔ _
  simp only [clientConnect, clientHandshake_eq]
  by_cases h : 3 ≤ inp.length
  · by_cases h2 : inp.take 3 = p.expectMagic
    · simp only [h, h2, if_true, clientVersionHandshake_eq, List.length_drop]
      by_cases h3 : 12 ≤ inp.length - 3
      · by_cases h4 : (inp.drop 3).take 12 = versionBytes p <;> simp [h3, h4]
      · by_cases h4 : inp.length - 3 = 0 <;> simp [h3, h4]
    · simp [h, h2]
  · by_cases h2 : inp.length = 0 <;> simp [h, h2]

theorem serverConnect_err (p : Params) (hM : p.expectMagic.length = 3) (inp : Bytes) :
    errOn serverConnect p inp = .ok ↔ expected p <+: inp := by
  rw [expected, prefix_split _ _ _ hM (versionBytes_length p)]
  show (serverConnect p (S inp [])).2 = .ok ↔ _
  simp only [serverConnect, serverHandshake_eq]
  by_cases h : 3 ≤ inp.length
  · by_cases h2 : inp.take 3 = p.expectMagic
    · simp only [h, h2, if_true, serverVersionHandshake_eq, List.length_drop]
      by_cases h3 : 12 ≤ inp.length - 3
      · by_cases h4 : (inp.drop 3).take 12 = versionBytes p <;> simp [h3, h4]
      · by_cases h4 : inp.length - 3 = 0 <;> simp [h3, h4]
    · simp [h, h2]
  · by_cases h2 : inp.length = 0 <;> simp [h, h2]

theorem clientConnect_sent (p : Params) (inp : Bytes) :
    sentOn clientConnect p inp =
      if 3 ≤ inp.length ∧ inp.take 3 = p.expectMagic then
        (if 12 ≤ inp.length - 3 then p.sendMagic ++ versionBytes p else p.sendMagic)
      else [] := by
  show (clientConnect p (S inp [])).1.sent = _
  simp only [clientConnect, clientHandshake_eq]
  by_cases h : 3 ≤ inp.length
  · by_cases h2 : inp.take 3 = p.expectMagic
    · simp only [h, h2, if_true, clientVersionHandshake_eq, List.length_drop]
      by_cases h3 : 12 ≤ inp.length - 3
      · by_cases h4 : (inp.drop 3).take 12 = versionBytes p <;> simp [h3, h4, S]
      · by_cases h4 : inp.length - 3 = 0 <;> simp [h3, h4, S]
    · simp [h, h2, S]
  · by_cases h2 : inp.length = 0 <;> simp [h, h2, S]

theorem serverConnect_sent (p : Params) (inp : Bytes) :
    sentOn serverConnect p inp =
      if 3 ≤ inp.length ∧ inp.take 3 = p.expectMagic then p.sendMagic ++ versionBytes p
      else p.sendMagic := by
  show (serverConnect p (S inp [])).1.sent = _
  simp only [serverConnect, serverHandshake_eq]
  by_cases h : 3 ≤ inp.length
  · by_cases h2 : inp.take 3 = p.expectMagic
    · simp only [h, h2, if_true, serverVersionHandshake_eq, List.length_drop]
      by_cases h3 : 12 ≤ inp.length - 3
      · by_cases h4 : (inp.drop 3).take 12 = versionBytes p <;> simp [h3, h4, S]
      · by_cases h4 : inp.length - 3 = 0 <;> simp [h3, h4, S]
    · simp [h, h2, S]
  · by_cases h2 : inp.length = 0 <;> simp [h, h2, S]

theorem be32_injective {a b : UInt32} (h : be32 a = be32 b) : a = b := by
  rw [← be32_roundtrip a, h, be32_roundtrip]

theorem versionBytes_eq_iff (p q : Params) :
    versionBytes p = versionBytes q ↔ p.major = q.major ∧ p.minor = q.minor ∧ p.patch = q.patch := by
  constructor
  · intro h
    simp only [versionBytes, List.append_assoc] at h
    have h1 := List.append_inj h (by simp [be32_length])
    have h2 := List.append_inj h1.2 (by simp [be32_length])
    exact ⟨be32_injective h1.1, be32_injective h2.1, be32_injective h2.2⟩
  · rintro ⟨a, b, c⟩
    simp [versionBytes, a, b, c]

theorem take3 (X Y : Bytes) (h : X.length = 3) : (X ++ Y).take 3 = X := List.take_left' h
theorem take3_self (X : Bytes) (h : X.length = 3) : X.take 3 = X := by
  rw [← h]; exact List.take_length

theorem round_eq (pc ps : Params) (sOut : Bytes) :
    round pc ps .none .none sOut =
      sentOn serverConnect ps (sentOn clientConnect pc sOut) := rfl

theorem session_faithful (pc ps : Params)
    (h1 : pc.sendMagic.length = 3) (h2 : pc.expectMagic.length = 3)
    (h3 : ps.sendMagic.length = 3) (h4 : ps.expectMagic.length = 3) :
    ((session pc ps .none .none).client = .ok ↔
      (ps.sendMagic = pc.expectMagic ∧ pc.sendMagic = ps.expectMagic ∧ versionBytes pc = versionBytes ps)) ∧
    ((session pc ps .none .none).server = .ok ↔
      (ps.sendMagic = pc.expectMagic ∧ pc.sendMagic = ps.expectMagic ∧ versionBytes pc = versionBytes ps)) := by
  have vc := versionBytes_length pc
  have vs := versionBytes_length ps
  have r1 : round pc ps .none .none [] = ps.sendMagic := by
    simp [round_eq, clientConnect_sent, serverConnect_sent]
  by_cases AB : ps.sendMagic = pc.expectMagic ∧ pc.sendMagic = ps.expectMagic
  · obtain ⟨A, B⟩ := AB
    have r2 : round pc ps .none .none ps.sendMagic = ps.sendMagic ++ versionBytes ps := by
      simp [round_eq, clientConnect_sent, serverConnect_sent, A, B, h2, h4, take3_self]
    have r3 : round pc ps .none .none (ps.sendMagic ++ versionBytes ps) = ps.sendMagic ++ versionBytes ps := by
      simp [round_eq, clientConnect_sent, serverConnect_sent, A, B, h2, h4, take3_self, take3, vs]
    have c : sentOn clientConnect pc (ps.sendMagic ++ versionBytes ps) = pc.sendMagic ++ versionBytes pc := by
      simp [clientConnect_sent, A, B, h2, h4, take3, vs]
    simp only [session, r1, r2, r3, Fault.apply, c, clientConnect_err pc h2, serverConnect_err ps h4, expected]
    rw [A, B]
    constructor
    · constructor
      · intro h
        have := List.IsPrefix.eq_of_length h (by simp [h2, vc, vs])
        simpa [eq_comm] using this
      · rintro ⟨_, _, e⟩; rw [e]; exact List.prefix_refl _
    · constructor
      · intro h
        have := List.IsPrefix.eq_of_length h (by simp [h4, vc, vs])
        simpa [eq_comm] using this
      · rintro ⟨_, _, e⟩; rw [e]; exact List.prefix_refl _
  · have r2 : round pc ps .none .none ps.sendMagic = ps.sendMagic := by
      simp only [round_eq, clientConnect_sent, serverConnect_sent]
      by_cases A : ps.sendMagic = pc.expectMagic
      · have B : ¬ pc.sendMagic = ps.expectMagic := fun b => AB ⟨A, b⟩
        simp [A, B, h1, h2, h3, h4, take3_self]
      · simp [A, h3, take3_self]
    simp only [session, r1, r2, Fault.apply, clientConnect_err pc h2, serverConnect_err ps h4, expected]
    have c : (sentOn clientConnect pc ps.sendMagic).length ≤ 3 := by
      simp only [clientConnect_sent]
      split
      · simp [h3, h1]
      · simp
    constructor
    · constructor
      · intro h
        have := h.length_le
        simp [h2, vc, h3] at this
      · intro h; exact absurd ⟨h.1, h.2.1⟩ AB
    · constructor
      · intro h
        have := h.length_le
        simp [h4, vs] at this
        omega
      · intro h; exact absurd ⟨h.1, h.2.1⟩ AB

theorem xor_ne (v x : UInt8) (hx : x ≠ 0) : v ^^^ x ≠ v := by
  intro h
  apply hx
  have : v ^^^ (v ^^^ x) = v ^^^ v := by rw [h]
  rw [← UInt8.xor_assoc, UInt8.xor_self, UInt8.zero_xor] at this
  exact this

theorem expected_length (p : Params) (hM : p.expectMagic.length = 3) : (expected p).length = 15 := by
  simp [expected, hM, versionBytes_length]

/-- A stream that differs from the expected handshake somewhere in its first 15 bytes
(or is shorter) does not have it as a prefix. -/
theorem not_prefix_of_differs (e inp : Bytes) (i : Nat) (hi : i < e.length) (h : inp[i]? ≠ e[i]?) :
    ¬ e <+: inp := by
  rintro ⟨t, rfl⟩
  apply h
  rw [List.getElem?_append_left hi]

theorem clientConnect_sent_ok (p : Params) (hM : p.expectMagic.length = 3) (inp : Bytes)
    (h : errOn clientConnect p inp = .ok) : sentOn clientConnect p inp = reply p := by
  have hp := (clientConnect_err p hM inp).mp h
  rw [expected, prefix_split _ _ _ hM (versionBytes_length p)] at hp
  obtain ⟨⟨a, b⟩, c, _⟩ := hp
  rw [List.length_drop] at c
  simp [clientConnect_sent, a, b, c, reply]

theorem serverConnect_sent_ok (p : Params) (hM : p.expectMagic.length = 3) (inp : Bytes)
    (h : errOn serverConnect p inp = .ok) : sentOn serverConnect p inp = reply p := by
  have hp := (serverConnect_err p hM inp).mp h
  rw [expected, prefix_split _ _ _ hM (versionBytes_length p)] at hp
  obtain ⟨⟨a, b⟩, _, _⟩ := hp
  simp [serverConnect_sent, a, b, reply]

end Mutagen.Proofs.Handshake
