import Mutagen.Proofs.Fixpoint2
/-!
Helper lemmas for the C04 fixpoint theorem, part 3: the node-by-node
description of the trees after a fully applied cycle (`EndFinal`, `AncFinal`),
its inheritance by the children of a recursion node, and the statement `Fix`
("the second plan is empty and reports the same conflict roots").
-/
namespace Mutagen.Model

/-! ## Describing the trees after a fully applied cycle, node by node -/

/-- `S'` is the endpoint tree after the planned changes `cs` (all at or below
`path`) were applied exactly, seen from the node `path` whose old sub-tree was
`S`: every change's new content sits literally at its path; sub-trees at paths
incomparable with every change are literally the old ones; and the scalar
fields at every path follow the "last matching change wins" rule. -/
structure EndFinal (path : Path) (S : Option Entry) (cs : List Change) (S' : Option Entry) : Prop where
  new : ∀ c ∈ cs, getPath S' c.path = c.new
  keep : ∀ q, (∀ c ∈ cs, incomparable c.path (path ++ q)) → getPath S' (path ++ q) = getPath S q
  props : ∀ q, pget S' (path ++ q) = ov cs (path ++ q) (pget S q)

/-- `A'` is the new ancestor (ancestor changes, then the ideal results of the
alpha and beta changes), seen from the node `path` whose effective old ancestor
was `a`. -/
def AncFinal (path : Path) (a : Option Entry) (P : Plan) (A' : Option Entry) : Prop :=
  ∀ q, pget A' (path ++ q) = ov (P.anc ++ (P.alpha ++ P.beta)) (path ++ q) (pget a q)

/-- The second plan `P₂` plans no change at all and reports conflicts at
exactly the roots of the first plan `P`. -/
def Fix (P P₂ : Plan) : Prop :=
  P₂.anc = [] ∧ P₂.alpha = [] ∧ P₂.beta = [] ∧
    ∀ p, p ∈ P₂.conflicts.map (·.root) ↔ p ∈ P.conflicts.map (·.root)

theorem EndFinal.self_of_nil {path : Path} {S S' : Option Entry} (h : EndFinal path S [] S') :
    getPath S' path = S := by
  have := h.keep [] (fun c hc => by cases hc)
  simpa [getPath] using this

theorem prefix_snoc_of_prefix_cons {path : Path} {n : Name} {q : Path} :
    (path ++ [n]) <+: (path ++ n :: q) := by
  rw [List.prefix_append_right_inj]; simp

theorem not_under_other_child {path : Path} {m n : Name} {q cp : Path} (hmn : m ≠ n)
    (hu : (path ++ [m]) <+: cp) : ¬ cp <+: (path ++ n :: q) := by
  intro h
  exact (incomparable_of_children hmn hu (prefix_snoc_of_prefix_cons (q := q))).1 h

theorem EndFinal.child {path : Path} {S S' : Option Entry} {ns : List Name} {g : Name → List Change} {n : Name}
    (h : EndFinal path S (ns.flatMap g) S') (hnd : ns.Nodup) (hn : n ∈ ns)
    (hunder : ∀ m ∈ ns, ∀ c ∈ g m, (path ++ [m]) <+: c.path) :
    EndFinal (path ++ [n]) (lookup n (contents S)) (g n) S' := by
  refine ⟨fun c hc => h.new c (List.mem_flatMap.mpr ⟨n, hn, hc⟩), ?_, ?_⟩
  · intro q hq
    have := h.keep (n :: q) (by
      intro c hc
      obtain ⟨m, hm, hcm⟩ := List.mem_flatMap.mp hc
      by_cases hmn : m = n
      · subst hmn
        have := hq c hcm
        simpa using this
      · exact incomparable_of_children hmn (hunder m hm c hcm) prefix_snoc_of_prefix_cons)
    simpa [getPath] using this
  · intro q
    have := h.props (n :: q)
    rw [ov_flatMap_only hnd hn (fun m hm hmn c hc => not_under_other_child hmn (hunder m hm c hc))] at this
    simpa [pget_cons] using this

theorem AncFinal.child {path : Path} {a anc' A' : Option Entry} {ns : List Name} {f : Name → Plan}
    {hereAnc : List Change} {n : Name}
    (h : ∀ q, pget A' (path ++ q) =
      ov ((hereAnc ++ ns.flatMap (fun m => (f m).anc)) ++
        (ns.flatMap (fun m => (f m).alpha) ++ ns.flatMap (fun m => (f m).beta))) (path ++ q) (pget a q))
    (hhere : ∀ q, ov hereAnc (path ++ n :: q) (pget a (n :: q)) = pget (lookup n (contents anc')) q)
    (hnd : ns.Nodup) (hn : n ∈ ns)
    (hu1 : ∀ m ∈ ns, ∀ c ∈ (f m).anc, (path ++ [m]) <+: c.path)
    (hu2 : ∀ m ∈ ns, ∀ c ∈ (f m).alpha, (path ++ [m]) <+: c.path)
    (hu3 : ∀ m ∈ ns, ∀ c ∈ (f m).beta, (path ++ [m]) <+: c.path) :
    AncFinal (path ++ [n]) (lookup n (contents anc')) (f n) A' := by
  intro q
  have := h (n :: q)
  simp only [ov_append] at this
  rw [hhere q,
    ov_flatMap_only hnd hn (fun m hm hmn c hc => not_under_other_child hmn (hu1 m hm c hc)),
    ov_flatMap_only hnd hn (fun m hm hmn c hc => not_under_other_child hmn (hu2 m hm c hc)),
    ov_flatMap_only hnd hn (fun m hm hmn c hc => not_under_other_child hmn (hu3 m hm c hc))] at this
  simp only [List.append_assoc, List.cons_append, List.nil_append, ov_append]
  exact this

/-! ## Ancestor changes lie at or below the node they were planned for -/

theorem handleDisagreement_anc_under (mode : Mode) (path : Path) (a al be : Option Entry) :
    ∀ c ∈ (handleDisagreement mode path a al be).anc, path <+: c.path := by
  intro c hc
  rcases handleDisagreement_anc mode path a al be with h | h
  · rw [h] at hc; cases hc
  · rw [h] at hc; simp at hc; subst hc; exact List.prefix_refl _

theorem reconcile_anc_under (mode : Mode) (path : Path) (a al be : Option Entry) :
    ∀ c ∈ (reconcile mode path a al be).anc, path <+: c.path := by
  fun_induction reconcile mode path a al be with
  | case1 => exact forall_mem_of_eq_nil rfl
  | case2 => exact forall_mem_of_eq_nil rfl
  | case3 => intro c hc; simp [Plan.ancChange] at hc; subst hc; exact List.prefix_refl _
  | case4 => exact forall_mem_of_eq_nil rfl
  | case5 path ancestor alpha beta h1 h2 h3 h4 here anc' ih =>
    intro c hc
    simp only [Plan.append_anc, Plan.concat_anc, List.flatMap_map, List.mem_append, List.mem_flatMap,
      List.mem_attach, true_and] at hc
    rcases hc with hc | ⟨n, hn⟩
    · simp only [here] at hc
      split at hc
      · simp [Plan.ancChange] at hc; subst hc; exact List.prefix_refl _
      · cases hc
    · exact (List.prefix_append path [n.1]).trans (ih n c hn)
  | case6 path ancestor alpha beta h1 h2 h3 h4 =>
    exact handleDisagreement_anc_under mode path ancestor alpha beta

theorem reconcile_alpha_under (mode : Mode) (path : Path) (a al be : Option Entry) :
    ∀ c ∈ (reconcile mode path a al be).alpha, path <+: c.path := fun c hc =>
  reconcile_changePaths_under mode path a al be c.path (by
    simp only [Plan.changePaths, List.mem_append, List.mem_map]; exact Or.inl ⟨c, hc, rfl⟩)

theorem reconcile_beta_under (mode : Mode) (path : Path) (a al be : Option Entry) :
    ∀ c ∈ (reconcile mode path a al be).beta, path <+: c.path := fun c hc =>
  reconcile_changePaths_under mode path a al be c.path (by
    simp only [Plan.changePaths, List.mem_append, List.mem_map]; exact Or.inr ⟨c, hc, rfl⟩)

theorem reconcile_none (mode : Mode) (path : Path) : reconcile mode path none none none = {} := by
  rw [reconcile_eq]; simp [isKind]

end Mutagen.Model
