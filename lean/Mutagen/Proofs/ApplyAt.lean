import Mutagen.Model.Entry
/-!
What `Apply` does to the entry recorded at a given path: a change at or above
the path installs the corresponding part of its `New`; a change strictly below
leaves the scalar fields alone; a change elsewhere leaves the path alone.
-/
namespace Mutagen.Proofs.ApplyAt
open Mutagen.Model

theorem getPath_none (q : Path) : getPath none q = none := by
  induction q with
  | nil => rfl
  | cons n r ih => simpa [getPath, contents, lookup] using ih

theorem lookup_upsert_self (n : Name) (v : Entry) (cs : Contents) : lookup n (upsert n v cs) = some v := by
  induction cs with
  | nil => simp [upsert, lookup]
  | cons h t ih =>
    obtain ⟨m, c⟩ := h
    simp only [upsert]
    split
    · simp [lookup]
    · rename_i hm; simp [lookup, hm, ih]

theorem lookup_upsert_ne (n k : Name) (v : Entry) (cs : Contents) (hk : k ≠ n) :
    lookup k (upsert n v cs) = lookup k cs := by
  induction cs with
  | nil => simp [upsert, lookup, Ne.symm hk]
  | cons h t ih =>
    obtain ⟨m, c⟩ := h
    simp only [upsert]
    split
    · rename_i hm; subst hm; simp [lookup, Ne.symm hk]
    · simp only [lookup, ih]

theorem lookup_erase_self (n : Name) (cs : Contents) : lookup n (erase n cs) = none := by
  induction cs with
  | nil => rfl
  | cons h t ih =>
    obtain ⟨m, c⟩ := h
    simp only [erase]
    split
    · exact ih
    · rename_i hm; simp [lookup, hm, ih]

theorem lookup_erase_ne (n k : Name) (cs : Contents) (hk : k ≠ n) :
    lookup k (erase n cs) = lookup k cs := by
  induction cs with
  | nil => rfl
  | cons h t ih =>
    obtain ⟨m, c⟩ := h
    simp only [erase]
    split
    · rename_i hm; subst hm; simp [lookup, Ne.symm hk, ih]
    · simp only [lookup, ih]

/-- How a path `q` relates to the path `p` of a change. -/
inductive Rel | atOrBelow | above | elsewhere
  deriving DecidableEq

/-- `atOrBelow`: `p` is a prefix of `q` (the change replaces `q`'s entry or an
enclosing one); `above`: `q` is a proper prefix of `p`; else `elsewhere`. -/
def rel : (p q : Path) → Rel
  | [], _ => .atOrBelow
  | _ :: _, [] => .above
  | n :: p, k :: q => if n = k then rel p q else .elsewhere

theorem rel_atOrBelow_iff (p q : Path) : rel p q = .atOrBelow ↔ p <+: q := by
  induction p generalizing q with
  | nil => simp [rel]
  | cons n p ih =>
    cases q with
    | nil => simp [rel]
    | cons k q =>
      simp only [rel]
      split
      · rename_i h; subst h; simp [ih, List.cons_prefix_cons]
      · rename_i h; simp [List.cons_prefix_cons, h]

/-- The effect of `Entry.applyAt` at a path. -/
theorem applyAt_getPath (new : Option Entry) (rest : List Name) :
    ∀ (e e' : Entry) (n : Name) (q : Path), e.applyAt new n rest = .ok e' →
      match rel (n :: rest) q with
      | .atOrBelow => getPath (some e') q = getPath new (q.drop (rest.length + 1))
      | .above => (getPath (some e') q).map Entry.props = (getPath (some e) q).map Entry.props
      | .elsewhere => getPath (some e') q = getPath (some e) q := by
  induction rest with
  | nil =>
    intro e e' n q h
    obtain ⟨p, cs⟩ := e
    cases q with
    | nil =>
      cases new <;> simp [Entry.applyAt] at h <;> subst h <;> simp [rel, getPath, Entry.props]
    | cons k q =>
      by_cases hk : n = k
      · subst hk
        simp only [rel, if_true]
        cases new with
        | none =>
          simp [Entry.applyAt] at h; subst h
          simp [getPath, contents, Entry.children, lookup_erase_self, getPath_none]
        | some v =>
          simp [Entry.applyAt] at h; subst h
          simp [getPath, contents, Entry.children, lookup_upsert_self]
      · simp only [rel, hk, if_false]
        cases new with
        | none =>
          simp [Entry.applyAt] at h; subst h
          simp [getPath, contents, Entry.children, lookup_erase_ne n k cs (Ne.symm hk)]
        | some v =>
          simp [Entry.applyAt] at h; subst h
          simp [getPath, contents, Entry.children, lookup_upsert_ne n k v cs (Ne.symm hk)]
  | cons m rest ih =>
    intro e e' n q h
    obtain ⟨p, cs⟩ := e
    simp only [Entry.applyAt] at h
    split at h
    · simp at h
    · rename_i c hc
      split at h
      · simp at h
      · rename_i c' hc'
        simp at h; subst h
        cases q with
        | nil => simp [rel, getPath, Entry.props]
        | cons k q =>
          by_cases hk : n = k
          · subst hk
            have := ih c c' m q hc'
            simp only [rel, if_true]
            simp only [getPath, contents, Entry.children, lookup_upsert_self, hc, List.length_cons,
              List.drop_succ_cons] at this ⊢
            exact this
          · simp only [rel, hk, if_false]
            simp [getPath, contents, Entry.children, lookup_upsert_ne n k c' cs (Ne.symm hk)]

/-- The effect of one change of `Apply` at a path. -/
theorem applyChange_getPath (r r' : Option Entry) (c : Change) (q : Path) (h : applyChange r c = .ok r') :
    match rel c.path q with
    | .atOrBelow => getPath r' q = getPath c.new (q.drop c.path.length)
    | .above => (getPath r' q).map Entry.props = (getPath r q).map Entry.props
    | .elsewhere => getPath r' q = getPath r q := by
  unfold applyChange at h
  cases hp : c.path with
  | nil =>
    simp only [hp] at h
    injection h with h
    subst h
    simp [rel]
  | cons n rest =>
    simp only [hp] at h
    cases r with
    | none => simp at h
    | some e =>
      simp only at h
      split at h
      · simp at h
      · rename_i e' he
        simp at h; subst h
        have := applyAt_getPath c.new rest e e' n q he
        simpa using this

/-- A property of the scalar fields at `q` that every change at or above `q`
establishes (through its `New`) survives `Apply`. -/
theorem apply_preserves (Q : Option Props → Prop) (q : Path) (cs : List Change)
    (hnew : ∀ c ∈ cs, c.path <+: q → Q ((getPath c.new (q.drop c.path.length)).map Entry.props)) :
    ∀ (r r' : Option Entry), Q ((getPath r q).map Entry.props) → apply r cs = .ok r' →
      Q ((getPath r' q).map Entry.props) := by
  induction cs with
  | nil => intro r r' hq h; simp [apply] at h; subst h; exact hq
  | cons c cs ih =>
    intro r r' hq h
    simp only [apply] at h
    split at h
    · simp at h
    · rename_i r1 h1
      refine ih (fun c' hc' => hnew c' (List.mem_cons_of_mem _ hc')) r1 r' ?_ h
      have := applyChange_getPath r r1 c q h1
      cases hr : rel c.path q with
      | atOrBelow =>
        rw [hr] at this
        simp only at this
        rw [this]
        exact hnew c (List.mem_cons_self ..) ((rel_atOrBelow_iff _ _).mp hr)
      | above => rw [hr] at this; simp only at this; rw [this]; exact hq
      | elsewhere => rw [hr] at this; simp only at this; rw [this]; exact hq

end Mutagen.Proofs.ApplyAt
