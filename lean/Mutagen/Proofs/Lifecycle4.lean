import Mutagen.Proofs.Lifecycle3
/-!
Lifecycle model: returns of calls, the `terminate` invariant along runs, the
point at which a successful `pause` was persisted.
-/
namespace Mutagen.Proofs.Lifecycle
open Mutagen.Model.Lifecycle

set_option maxHeartbeats 8000000 in
set_option maxRecDepth 10000 in
/-- A call returns only from its `finished` phase, with the result decided there. -/
theorem threadSteps_ret {s : State} {th : Thread} {t : Nat} {op : Op} {r : Res} {s' : State}
    (h : (Label.ret t op r, s') ∈ threadSteps s th) :
    th.id = t ∧ th.op = op ∧ th.ph = .finished r ∧ s' = s.dropThread t := by
  unfold threadSteps at h
  split at h
  all_goals
    aesop (add norm simp [acquire, afterStop, finish])

set_option maxHeartbeats 8000000 in
theorem loopSteps_no_ret {s : State} {l : Loop} {t : Nat} {op : Op} {r : Res} {s' : State}
    (h : (Label.ret t op r, s') ∈ loopSteps s l) : False := by
  unfold loopSteps at h
  split at h
  all_goals
    simp only [List.mem_append, List.mem_cons, List.mem_flatMap, List.not_mem_nil, or_false,
      bothSides, List.mem_ite_nil_right, Prod.mk.injEq] at h
  all_goals aesop

/-- The state from which a call returns. -/
theorem ret_source {s s' : State} {t : Nat} {op : Op} {r : Res} (st : Step s (.ret t op r) s') :
    (∃ th ∈ s.threads, th.id = t ∧ th.op = op ∧ th.ph = .finished r) ∧ s' = s.dropThread t := by
  cases st with
  | internal h =>
    unfold succ at h
    rcases List.mem_append.mp h with h | h
    · cases hl : s.loop with
      | none => simp [hl] at h
      | some lp => simp only [hl] at h; exact (loopSteps_no_ret h).elim
    · obtain ⟨th, hth, h⟩ := List.mem_flatMap.mp h
      obtain ⟨h1, h2, h3, h4⟩ := threadSteps_ret h
      exact ⟨⟨th, hth, h1, h2, h3⟩, h4⟩

/-- Threads by (identifier, operation, phase) are the same after a loop step. -/
theorem loopSteps_thread {s : State} {l : Loop} {lab : Label} {s' : State} (h : (lab, s') ∈ loopSteps s l)
    {x : Thread} (hx : x ∈ s'.threads) : ∃ y ∈ s.threads, y.id = x.id ∧ y.op = x.op ∧ y.ph = x.ph := by
  have h9 := (loopSteps_frame h).2.2.2.2.2.2.2.2.2
  have : (x.id, x.op, x.ph) ∈ s'.threads.map (fun t => (t.id, t.op, t.ph)) := List.mem_map_of_mem hx
  rw [h9] at this
  obtain ⟨y, hy, he⟩ := List.mem_map.mp this
  simp only [Prod.mk.injEq] at he
  exact ⟨y, hy, he.1, he.2.1, he.2.2⟩

/-! ## The `terminate` invariant -/

def InvT (s : State) : Prop :=
  ∀ x ∈ s.threads, x.op = .terminate →
    ((x.ph = .termDel → Gone s) ∧ (x.ph = .finished .ok → Gone s ∧ s.entry = false))

theorem invT_init (w : Bool) : InvT (init w) := by
  intro x hx; simp [init] at hx

theorem invT_step {s s' : State} {l : Label} (st : Step s l s') (i : InvA s) (iT : InvT s) : InvT s' := by
  cases st with
  | call h =>
    unfold doCall at h
    split at h
    · simp at h
    · simp only [Option.some.injEq] at h
      subst h
      intro x hx hop
      simp only [List.mem_append, List.mem_singleton] at hx
      rcases hx with hx | hx
      · exact iT x hx hop
      · subst hx; simp [mkThread]
  | internal h =>
    unfold succ at h
    rcases List.mem_append.mp h with h | h
    · cases hl : s.loop with
      | none => simp [hl] at h
      | some lp =>
        simp only [hl] at h
        intro x hx hop
        obtain ⟨y, hy, h1, h2, h3⟩ := loopSteps_thread h hx
        have hy' := iT y hy (by rw [h2]; exact hop)
        constructor
        · intro hp
          have g := hy'.1 (by rw [h3]; exact hp)
          have := g.2.2.2.1
          rw [hl] at this; simp at this
        · intro hp
          have g := (hy'.2 (by rw [h3]; exact hp)).1
          have := g.2.2.2.1
          rw [hl] at this; simp at this
    · obtain ⟨th, hth, h⟩ := List.mem_flatMap.mp h
      have hln := loop_none_of_not_running i
      have hT : th.op = .terminate → th.ph = .termDel → Gone s := fun ho hp => (iT th hth ho).1 hp
      intro x hx hop
      have hd := threadSteps_terminate_done h hln hT x hx hop
      constructor
      · intro hp
        rcases hd.1 hp with hold | hnew
        · have g := (iT x hold hop).1 hp
          exact (threadSteps_gone hth h g hold hop (Or.inl hp)).1
        · exact hnew
      · intro hp
        rcases hd.2 hp with hold | hnew
        · have g := (iT x hold hop).2 hp
          have := threadSteps_gone hth h g.1 hold hop (Or.inr hp)
          exact ⟨this.1, this.2 g.2⟩
        · exact hnew

theorem invT_run {w : Bool} {tr : List Label} {s : State} (r : Run (init w) tr s) : InvT s := by
  induction r with
  | nil => exact invT_init w
  | snoc r' st ih => exact invT_step st (invA_run r') ih

/-! ## Where a successful `pause` was persisted -/

/-- A point of the run at which the `Paused` flag was on disk, the run loop had
terminated, and the call `t` had just completed successfully. -/
def PersistedAt (w : Bool) (tr : List Label) (s : State) (t : Nat) : Prop :=
  ∃ tr1 s1 tr2, Run (init w) tr1 s1 ∧ Run s1 tr2 s ∧ tr = tr1 ++ tr2 ∧
    s1.sess = some true ∧ s1.loop = none ∧
    ∃ y ∈ s1.threads, y.id = t ∧ y.op = .pause ∧ y.ph = .finished .ok

theorem PersistedAt.extend {w : Bool} {tr : List Label} {s s' : State} {t : Nat} {l : Label}
    (p : PersistedAt w tr s t) (st : Step s l s') : PersistedAt w (tr ++ [l]) s' t := by
  obtain ⟨tr1, s1, tr2, r1, r2, e, h⟩ := p
  exact ⟨tr1, s1, tr2 ++ [l], r1, Run.snoc r2 st, by rw [e, List.append_assoc], h⟩

theorem pause_persisted {w : Bool} {tr : List Label} {s : State} (r : Run (init w) tr s) :
    ∀ x ∈ s.threads, x.op = .pause → x.ph = .finished .ok → PersistedAt w tr s x.id := by
  induction r with
  | nil => intro x hx; simp [init] at hx
  | @snoc tr s' l s'' r' st ih =>
    have i := invA_run r'
    intro x hx hop hph
    cases st with
    | call h =>
      have st' : Step s' (.call _ _) s'' := Step.call h
      unfold doCall at h
      split at h
      · simp at h
      · simp only [Option.some.injEq] at h
        subst h
        simp only [List.mem_append, List.mem_singleton] at hx
        rcases hx with hx | hx
        · exact (ih x hx hop hph).extend st'
        · subst hx; simp [mkThread] at hph
    | internal h =>
      have st' : Step s' l s'' := Step.internal h
      unfold succ at h
      rcases List.mem_append.mp h with h | h
      · cases hl : s'.loop with
        | none => simp [hl] at h
        | some lp =>
          simp only [hl] at h
          obtain ⟨y, hy, h1, h2, h3⟩ := loopSteps_thread h hx
          have := (ih y hy (by rw [h2]; exact hop) (by rw [h3]; exact hph)).extend st'
          rw [h1] at this
          exact this
      · obtain ⟨th, hth, h⟩ := List.mem_flatMap.mp h
        rcases threadSteps_pause_done h (loop_none_of_not_running i) x hx hop hph with hold | hnew
        · exact (ih x hold hop hph).extend st'
        · exact ⟨tr ++ [l], s'', [], Run.snoc r' st', Run.nil, by simp, hnew.1, hnew.2, x, hx, rfl, hop, hph⟩

end Mutagen.Proofs.Lifecycle
