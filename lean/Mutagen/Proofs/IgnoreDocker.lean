import Mutagen.Model.DockerSpec
import Mutagen.Proofs.IgnoreMutagen
/-! Helper lemmas for C15 (core Lean only). -/
namespace Mutagen.Proofs.IgnoreDocker
open Mutagen.Model.IgnoreCore Mutagen.Model.IgnoreDocker Mutagen.Model.DockerSpec
open Mutagen.Model.IgnoreMutagen (lastMatchWins loop)
open Mutagen.Proofs.IgnoreMutagen (specStep fold_eq_lastMatch loop_eq_fold negCount)

/-! ### `lastMatchWins` as a fold, congruence -/

theorem lmw_eq_fold {α : Type} (excl : α → Bool) (q : α → Bool) (ps : List α) (s : Status) :
    lastMatchWins excl q ps s = ps.foldl (specStep excl q) s := (fold_eq_lastMatch excl q ps s).symm

theorem fold_congr {α : Type} (excl : α → Bool) (q1 q2 : α → Bool) (ps : List α)
    (h : ∀ p ∈ ps, q1 p = q2 p) : ∀ s, ps.foldl (specStep excl q1) s = ps.foldl (specStep excl q2) s := by
  induction ps with
  | nil => intro s; rfl
  | cons p rest ih =>
    intro s
    simp only [List.foldl_cons]
    have hp : q1 p = q2 p := h p (by simp)
    have : specStep excl q1 s p = specStep excl q2 s p := by simp [specStep, hp]
    rw [this]
    exact ih (fun p' hp' => h p' (by simp [hp'])) _

/-! ### Upstream `MatchesOrParentMatches` is "last match over the closure wins" -/

/-- The boolean `matched` of the upstream loop is "the fold state is `ignored`"
(the upstream loop does not distinguish `nominal` from `unignored`, and skips
the patterns that could not change its flag). -/
theorem mopm_eq_fold {α : Type} (excl : α → Bool) (m : α → Str → Bool) (path : Str) (parents : List Str)
    (ps : List α) : ∀ (matched : Bool) (st : Status), matched = decide (st = .ignored) →
    mopmLoop excl m path parents ps matched =
      decide (ps.foldl (specStep excl (fun p => m p path || parents.any (fun a => m p a))) st = .ignored) := by
  induction ps with
  | nil => intro matched st h; subst h; rfl
  | cons p rest ih =>
    intro matched st h
    subst h
    simp only [mopmLoop, List.foldl_cons]
    cases he : excl p <;> cases hm : (m p path || parents.any (fun a => m p a)) <;> cases st <;>
      simp [he, hm, specStep] <;> (apply ih; simp)

/-! ### Two folds with nested match predicates agree when later outer-only
matches never contradict earlier inner matches -/

/-- Polarity of a pattern as a status. -/
def pol (e : Bool) : Status := if e then .unignored else .ignored

theorem specStep_match {α : Type} (excl : α → Bool) (q : α → Bool) (s : Status) (p : α) (h : q p = true) :
    specStep excl q s p = pol (excl p) := by simp [specStep, pol, h]

theorem specStep_nomatch {α : Type} (excl : α → Bool) (q : α → Bool) (s : Status) (p : α) (h : q p = false) :
    specStep excl q s p = s := by simp [specStep, h]

/-- For every earlier inner match and later outer-only match the polarities agree. -/
def PairHyp {α : Type} (excl : α → Bool) (q1 q2 : α → Bool) (ps : List α) : Prop :=
  ∀ pr ∈ orderedPairs ps, q1 pr.1 = true → q2 pr.2 = true → q1 pr.2 = false → excl pr.1 = excl pr.2

theorem PairHyp_tail {α : Type} {excl : α → Bool} {q1 q2 : α → Bool} {p : α} {rest : List α}
    (h : PairHyp excl q1 q2 (p :: rest)) : PairHyp excl q1 q2 rest := by
  intro pr hpr
  exact h pr (List.mem_append.mpr (Or.inr hpr))

theorem PairHyp_head {α : Type} {excl : α → Bool} {q1 q2 : α → Bool} {p : α} {rest : List α}
    (h : PairHyp excl q1 q2 (p :: rest)) (p2 : α) (hp2 : p2 ∈ rest) :
    q1 p = true → q2 p2 = true → q1 p2 = false → excl p = excl p2 := by
  intro a b c
  exact h (p, p2) (List.mem_append.mpr (Or.inl (List.mem_map.mpr ⟨p2, hp2, rfl⟩))) a b c

theorem fold_agree_after {α : Type} (excl : α → Bool) (q1 q2 : α → Bool)
    (hsub : ∀ p, q1 p = true → q2 p = true) (ps : List α) :
    ∀ e : Bool, (∀ p2 ∈ ps, q2 p2 = true → q1 p2 = false → excl p2 = e) → PairHyp excl q1 q2 ps →
      ps.foldl (specStep excl q1) (pol e) = ps.foldl (specStep excl q2) (pol e) := by
  induction ps with
  | nil => intro e _ _; rfl
  | cons p rest ih =>
    intro e he hp
    simp only [List.foldl_cons]
    have hrest : ∀ p2 ∈ rest, q2 p2 = true → q1 p2 = false → excl p2 = e :=
      fun p2 h2 => he p2 (by simp [h2])
    cases h1 : q1 p
    · cases h2 : q2 p
      · rw [specStep_nomatch excl q1 _ p h1, specStep_nomatch excl q2 _ p h2]
        exact ih e hrest (PairHyp_tail hp)
      · rw [specStep_nomatch excl q1 _ p h1, specStep_match excl q2 _ p h2]
        have : excl p = e := he p (by simp) h2 h1
        rw [this]
        exact ih e hrest (PairHyp_tail hp)
    · have h2 : q2 p = true := hsub p h1
      rw [specStep_match excl q1 _ p h1, specStep_match excl q2 _ p h2]
      refine ih (excl p) ?_ (PairHyp_tail hp)
      intro p2 hp2 a b
      exact (PairHyp_head hp p2 hp2 h1 a b).symm

theorem fold_agree {α : Type} (excl : α → Bool) (q1 q2 : α → Bool)
    (hsub : ∀ p, q1 p = true → q2 p = true) (ps : List α) :
    ∀ s1 s2 : Status, (∃ p ∈ ps, q1 p = true) → PairHyp excl q1 q2 ps →
      ps.foldl (specStep excl q1) s1 = ps.foldl (specStep excl q2) s2 := by
  induction ps with
  | nil => intro _ _ h _; obtain ⟨p, hp, _⟩ := h; simp at hp
  | cons p rest ih =>
    intro s1 s2 hex hp
    simp only [List.foldl_cons]
    cases h1 : q1 p
    · rw [specStep_nomatch excl q1 _ p h1]
      have hex' : ∃ p' ∈ rest, q1 p' = true := by
        obtain ⟨p', hp', hq⟩ := hex
        simp at hp'
        rcases hp' with rfl | hp'
        · rw [h1] at hq; cases hq
        · exact ⟨p', hp', hq⟩
      exact ih s1 _ hex' (PairHyp_tail hp)
    · have h2 : q2 p = true := hsub p h1
      rw [specStep_match excl q1 _ p h1, specStep_match excl q2 _ p h2]
      refine fold_agree_after excl q1 q2 hsub rest (excl p) ?_ (PairHyp_tail hp)
      intro p2 hp2 a b
      exact (PairHyp_head hp p2 hp2 h1 a b).symm

/-- With a match the fold ends in a non-nominal state that does not depend on
the start. -/
theorem fold_nonnominal {α : Type} (excl : α → Bool) (q : α → Bool) (ps : List α) :
    ∀ s : Status, (∃ p ∈ ps, q p = true) → ps.foldl (specStep excl q) s ≠ .nominal := by
  induction ps with
  | nil => intro _ h; obtain ⟨p, hp, _⟩ := h; simp at hp
  | cons p rest ih =>
    intro s hex
    simp only [List.foldl_cons]
    by_cases hr : ∃ p' ∈ rest, q p' = true
    · exact ih _ hr
    · have hq : q p = true := by
        obtain ⟨p', hp', hq⟩ := hex
        simp at hp'
        rcases hp' with rfl | hp'
        · exact hq
        · exact absurd ⟨p', hp', hq⟩ hr
      rw [specStep_match excl q _ p hq]
      have hnone : ∀ p' ∈ rest, q p' = false := by
        intro p' hp'
        cases hq' : q p'
        · rfl
        · exact absurd ⟨p', hp', hq'⟩ hr
      have : rest.foldl (specStep excl q) (pol (excl p)) = pol (excl p) := by
        clear ih hex hr
        induction rest with
        | nil => rfl
        | cons r rest' ih' =>
          simp only [List.foldl_cons]
          rw [specStep_nomatch excl q _ r (hnone r (by simp))]
          exact ih' (fun p' hp' => hnone p' (by simp [hp']))
      rw [this]
      cases excl p <;> simp [pol]

theorem fold_nomatch {α : Type} (excl : α → Bool) (q : α → Bool) (ps : List α) (s : Status)
    (h : ∀ p ∈ ps, q p = false) : ps.foldl (specStep excl q) s = s := by
  induction ps generalizing s with
  | nil => rfl
  | cons p rest ih =>
    simp only [List.foldl_cons]
    rw [specStep_nomatch excl q _ p (h p (by simp))]
    exact ih s (fun p' hp' => h p' (by simp [hp']))

/-! ### The core step: deepest matched prefix = last match over the closure -/

/-- Docker's verdict over a list of paths (a path with its ancestors). -/
def closureIgnored {α : Type} (excl : α → Bool) (m : α → Str → Bool) (ps : List α) (paths : List Str) : Bool :=
  decide (ps.foldl (specStep excl (fun p => paths.any (fun a => m p a))) .nominal = .ignored)

theorem maskAfter_snoc (l : List Status) (s : Status) : maskAfter (l ++ [s]) = maskStep (maskAfter l) s := by
  simp [maskAfter, List.foldl_append]

theorem noInversion_pairHyp {α : Type} (excl : α → Bool) (m : α → Str → Bool) (ps : List α)
    (acc : List Str) (y : Str) (h : noInversionAt excl m ps acc y = true) :
    PairHyp excl (fun p => m p y) (fun p => (acc ++ [y]).any (fun a => m p a)) ps := by
  intro pr hpr h1 h2 h3
  simp only [List.any_append, List.any_cons, List.any_nil, Bool.or_false, h3, Bool.or_false] at h2
  obtain ⟨z, hz, hmz⟩ := List.any_eq_true.mp h2
  unfold noInversionAt at h
  have hz' := (List.all_eq_true.mp h) z hz
  have hpr' := (List.all_eq_true.mp hz') pr hpr
  simp only [h1, hmz, Bool.true_and, Bool.not_eq_true', bne_eq_false_iff_eq] at hpr'
  exact hpr'

/-- One step down: if "deepest wins" and "closure wins" agree on the ancestors
`acc`, and there is no inversion at `y`, they agree on `acc ++ [y]`. -/
theorem core_step {α : Type} (excl : α → Bool) (m : α → Str → Bool) (ps : List α)
    (acc : List Str) (y : Str)
    (hI : maskAfter (acc.map (statusAt excl m ps)) = closureIgnored excl m ps acc)
    (hN : noInversionAt excl m ps acc y = true) :
    maskAfter ((acc ++ [y]).map (statusAt excl m ps)) = closureIgnored excl m ps (acc ++ [y]) := by
  rw [List.map_append, List.map_cons, List.map_nil, maskAfter_snoc, hI]
  by_cases hex : ∃ p ∈ ps, m p y = true
  · -- some pattern matches y itself
    have hagree := fold_agree excl (fun p => m p y) (fun p => (acc ++ [y]).any (fun a => m p a))
      (by intro p hp; simp [hp]) ps .nominal .nominal hex (noInversion_pairHyp excl m ps acc y hN)
    have hnn := fold_nonnominal excl (fun p => m p y) ps .nominal hex
    unfold closureIgnored statusAt
    rw [lmw_eq_fold, ← hagree]
    cases hs : ps.foldl (specStep excl (fun p => m p y)) .nominal
    · exact absurd hs hnn
    · simp [maskStep]
    · simp [maskStep]
  · -- no pattern matches y: its status is nominal and the closure is unchanged
    have hnone : ∀ p ∈ ps, m p y = false := by
      intro p hp
      cases hq : m p y
      · rfl
      · exact absurd ⟨p, hp, hq⟩ hex
    have hst : statusAt excl m ps y = .nominal := by
      unfold statusAt
      rw [lmw_eq_fold]
      exact fold_nomatch excl _ ps .nominal hnone
    rw [hst]
    simp only [maskStep]
    unfold closureIgnored
    have := fold_congr excl (fun p => acc.any (fun a => m p a)) (fun p => (acc ++ [y]).any (fun a => m p a)) ps
      (by intro p hp; simp [hnone p hp]) .nominal
    rw [this]

theorem allOk_append {β : Type} (f : List β → β → Bool) (acc l1 l2 : List β) :
    allOk f acc (l1 ++ l2) = (allOk f acc l1 && allOk f (acc ++ l1) l2) := by
  induction l1 generalizing acc with
  | nil => simp [allOk]
  | cons a rest ih =>
    simp only [List.cons_append, allOk, ih, List.append_assoc, List.singleton_append, List.nil_append, Bool.and_assoc]

/-- **Core lemma.** Without a depth-order inversion along a chain of paths, the
deepest matched prefix decides exactly as Docker's last match over the whole
chain. -/
theorem deepest_eq_closure {α : Type} (excl : α → Bool) (m : α → Str → Bool) (ps : List α) (C : List Str) :
    ∀ acc : List Str,
      maskAfter (acc.map (statusAt excl m ps)) = closureIgnored excl m ps acc →
      allOk (noInversionAt excl m ps) acc C = true →
      maskAfter ((acc ++ C).map (statusAt excl m ps)) = closureIgnored excl m ps (acc ++ C) := by
  induction C with
  | nil => intro acc hI _; simpa using hI
  | cons y rest ih =>
    intro acc hI hN
    simp only [allOk, Bool.and_eq_true] at hN
    have := ih (acc ++ [y]) (core_step excl m ps acc y hI hN.1) hN.2
    simpa [List.append_assoc] using this

theorem closureIgnored_nil {α : Type} (excl : α → Bool) (m : α → Str → Bool) (ps : List α) :
    closureIgnored excl m ps [] = false := by
  unfold closureIgnored
  rw [fold_nomatch excl _ ps .nominal (by intro p _; rfl)]
  rfl

theorem skipAt_eq_closure {α : Type} (excl : α → Bool) (m : α → Str → Bool) (ps : List α) (x : Str) (chain : List Str) :
    skipAt excl m ps x chain = closureIgnored excl m ps (chain ++ [x]) := by
  unfold skipAt closureIgnored
  rw [lmw_eq_fold]
  have := fold_congr excl (fun p => m p x || chain.any (fun a => m p a)) (fun p => (chain ++ [x]).any (fun a => m p a)) ps
    (by intro p _; simp [Bool.or_comm]) .nominal
  rw [this]

end Mutagen.Proofs.IgnoreDocker
