/- One preservation lemma of the multiplexer invariant (see MuxStepP1.lean). -/
import Mutagen.Proofs.MuxTac
namespace Mutagen.Model.Mux

variable {o p p' : Side} {wop wpo : List Msg} {X : Nat}

set_option maxHeartbeats 4000000 in
/-- `Stream.close(true)` up to the enqueueing of the close message; also the
stale/aborted accept (the identifier has left the backlog). -/
theorem PerId.closeBegin_p (h : PerId o p wop wpo X)
    (P : Stream) (hP : p.streams X = some P) (hc : P.closed = false)
    (e1 : p'.streams X = some { P with closedWrite := true, closed := true })
    (e2 : p'.pendIncr X = none) (e3 : p'.pendCW X = false) (e4 : p'.pendClose X = true)
    (e6 : p'.largestIn = p.largestIn) (e7 : X ∉ p'.backlog) (e8 : p'.window = p.window) :
    PerId o p' wop wpo X := by
  mux_auto [e1, e2, e3, e4, e6, e7, e8]

end Mutagen.Model.Mux
