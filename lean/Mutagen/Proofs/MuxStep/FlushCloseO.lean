/- One preservation lemma of the multiplexer invariant (see MuxStepO2.lean). -/
import Mutagen.Proofs.MuxTac
namespace Mutagen.Model.Mux

variable {o p o' : Side} {wop wpo : List Msg} {X : Nat}

set_option maxHeartbeats 4000000 in
/-- The enqueue goroutine transmits the pending close. -/
theorem PerId.flushClose_o (h : PerId o p wop wpo X) (hv : o.pendClose X = true)
    (e : AtEq o' X (o.streams X) (o.pendIncr X) (o.pendCW X) false o) :
    PerId o' p (wop ++ [.close X]) wpo X := by
  obtain ⟨e1, e2, e3, e4, e5, e6, e7, e8⟩ := e
  mux_auto [e1, e2, e3, e4, e5, e6, e7, e8]

end Mutagen.Model.Mux
