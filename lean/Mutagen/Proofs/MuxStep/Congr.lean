/- One preservation lemma of the multiplexer invariant (see MuxStepP2.lean). -/
import Mutagen.Proofs.MuxTac
namespace Mutagen.Model.Mux

variable {o p p' : Side} {wop wpo : List Msg} {X : Nat}

set_option maxHeartbeats 4000000 in
/-- Nothing about `X` changes: another identifier was acted upon, or a counter
moved monotonically. -/
theorem PerId.congr {o' : Side} (h : PerId o p wop wpo X)
    (a1 : o'.streams X = o.streams X) (a2 : o'.pendIncr X = o.pendIncr X)
    (a3 : o'.pendCW X = o.pendCW X) (a4 : o'.pendClose X = o.pendClose X)
    (a5 : o.used X → o'.used X) (a8 : o'.window = o.window)
    (e1 : p'.streams X = p.streams X) (e2 : p'.pendIncr X = p.pendIncr X)
    (e3 : p'.pendCW X = p.pendCW X) (e4 : p'.pendClose X = p.pendClose X)
    (e6 : X ≤ p.largestIn → X ≤ p'.largestIn) (e7 : X ∈ p'.backlog → X ∈ p.backlog)
    (e8 : p'.window = p.window) :
    PerId o' p' wop wpo X := by
  mux_auto [a1, a2, a3, a4, a8, e1, e2, e3, e4, e8]

end Mutagen.Model.Mux
