/- One preservation lemma of the multiplexer invariant (see MuxStepP1.lean). -/
import Mutagen.Proofs.MuxTac
namespace Mutagen.Model.Mux

variable {o p p' : Side} {wop wpo : List Msg} {X : Nat}

set_option maxHeartbeats 4000000 in
/-- `Stream.Read` consumes `k > 0` buffered bytes and enqueues the increment. -/
theorem PerId.read_p (h : PerId o p wop wpo X)
    (P : Stream) (hP : p.streams X = some P) (he : P.established = true) (hc : P.closed = false)
    (k : Nat) (hk : 0 < k) (hlen : k ≤ P.recvBuf.length) (got : List UInt8)
    (e : AtEq p' X (some { P with recvBuf := P.recvBuf.drop k, got := got })
      (some ((p.pendIncr X).getD 0 + k)) (p.pendCW X) (p.pendClose X) p) :
    PerId o p' wop wpo X := by
  obtain ⟨e1, e2, e3, e4, e5, e6, e7, e8⟩ := e
  mux_auto [e1, e2, e3, e4, e5, e6, e7, e8]

end Mutagen.Model.Mux
