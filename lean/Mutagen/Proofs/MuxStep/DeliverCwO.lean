/- One preservation lemma of the multiplexer invariant (see MuxStepO2.lean). -/
import Mutagen.Proofs.MuxTac
namespace Mutagen.Model.Mux

variable {o p o' : Side} {wop wpo : List Msg} {X : Nat}

set_option maxHeartbeats 4000000 in
/-- The opener's reader records the remote close-write. -/
theorem PerId.deliver_cw_o (h : PerId o p wop (.closeWrite X :: wpo) X)
    (O : Stream) (hO : o.streams X = some O) (hr : O.registered = true)
    (e : AtEq o' X (some { O with remoteClosedWrite := true })
      (o.pendIncr X) (o.pendCW X) (o.pendClose X) o) :
    PerId o' p wop wpo X := by
  obtain ⟨e1, e2, e3, e4, e5, e6, e7, e8⟩ := e
  mux_auto [e1, e2, e3, e4, e5, e6, e7, e8]

end Mutagen.Model.Mux
