/- One preservation lemma of the multiplexer invariant (see MuxStepP1.lean). -/
import Mutagen.Proofs.MuxTac
namespace Mutagen.Model.Mux

variable {o p p' : Side} {wop wpo : List Msg} {X : Nat}

set_option maxHeartbeats 4000000 in
/-- The enqueue goroutine transmits the pending close. -/
theorem PerId.flushClose_p (h : PerId o p wop wpo X) (hv : p.pendClose X = true)
    (e : AtEq p' X (p.streams X) (p.pendIncr X) (p.pendCW X) false p) :
    PerId o p' wop (wpo ++ [.close X]) X := by
  obtain ⟨e1, e2, e3, e4, e5, e6, e7, e8⟩ := e
  mux_auto [e1, e2, e3, e4, e5, e6, e7, e8]

end Mutagen.Model.Mux
