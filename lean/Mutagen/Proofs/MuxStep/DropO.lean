/- One preservation lemma of the multiplexer invariant (see MuxStepO2.lean). -/
import Mutagen.Proofs.MuxTac
namespace Mutagen.Model.Mux

variable {o p o' : Side} {wop wpo : List Msg} {X : Nat}

set_option maxHeartbeats 4000000 in
/-- The opener's reader discards a message for a stream that is no longer
registered (or never existed). -/
theorem PerId.drop_o (m : Msg) (hm : m.about X = true) (h : PerId o p wop (m :: wpo) X)
    (hn : ∀ O, o.streams X = some O → O.registered = false)
    (e : AtEq o' X (o.streams X) (o.pendIncr X) (o.pendCW X) (o.pendClose X) o) :
    PerId o' p wop wpo X := by
  obtain ⟨e1, e2, e3, e4, e5, e6, e7, e8⟩ := e
  have hd := dataBytes_cons_le X m wpo
  have hi := incrSum_cons_le X m wpo
  mux_auto [e1, e2, e3, e4, e5, e6, e7, e8]

end Mutagen.Model.Mux
