/- One preservation lemma of the multiplexer invariant (see MuxStepO2.lean). -/
import Mutagen.Proofs.MuxTac
namespace Mutagen.Model.Mux

variable {o p o' : Side} {wop wpo : List Msg} {X : Nat}

set_option maxHeartbeats 4000000 in
/-- The opener's reader processes the accept message (stream still registered). -/
theorem PerId.deliver_accept_o (win : Nat) (h : PerId o p wop (.accept X win :: wpo) X)
    (O : Stream) (hO : o.streams X = some O) (hr : O.registered = true)
    (e : AtEq o' X (some { O with sendWindow := win, established := true })
      (o.pendIncr X) (o.pendCW X) (o.pendClose X) o) :
    PerId o' p wop wpo X := by
  obtain ⟨e1, e2, e3, e4, e5, e6, e7, e8⟩ := e
  have hne : O.established = false := by
    cases hh : O.established with
    | false => rfl
    | true => have := h.est_o_noacc O hO hh _ (List.mem_cons_self); simp [Msg.isAcceptOf] at this
  have hun := h.o_unest O hO hne
  have hw := h.acc_win win (List.mem_cons_self)
  have hi0 : incrSum X wpo = 0 := by simpa [incrSum] using hun.incr
  have hd0 := dataBytes_eq_zero_of_none X wop hun.wop
  mux_auto [e1, e2, e3, e4, e5, e6, e7, e8]

end Mutagen.Model.Mux
