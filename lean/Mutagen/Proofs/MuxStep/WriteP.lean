/- One preservation lemma of the multiplexer invariant (see MuxStepP1.lean). -/
import Mutagen.Proofs.MuxTac
namespace Mutagen.Model.Mux

variable {o p p' : Side} {wop wpo : List Msg} {X : Nat}

set_option maxHeartbeats 4000000 in
/-- `Stream.Write` emits a chunk. -/
theorem PerId.write_p (h : PerId o p wop wpo X)
    (P : Stream) (hP : p.streams X = some P) (he : P.established = true) (hcw : P.closedWrite = false)
    (bs : List UInt8) (hbs : bs ≠ []) (hlen : bs.length ≤ P.sendWindow)
    (e : AtEq p' X (some { P with sendWindow := P.sendWindow - bs.length, sent := P.sent ++ bs })
      (p.pendIncr X) (p.pendCW X) (p.pendClose X) p) :
    PerId o p' wop (wpo ++ [.data X bs]) X := by
  obtain ⟨e1, e2, e3, e4, e5, e6, e7, e8⟩ := e
  mux_auto [e1, e2, e3, e4, e5, e6, e7, e8]

end Mutagen.Model.Mux
