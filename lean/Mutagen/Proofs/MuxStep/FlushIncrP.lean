/- One preservation lemma of the multiplexer invariant (see MuxStepP1.lean). -/
import Mutagen.Proofs.MuxTac
namespace Mutagen.Model.Mux

variable {o p p' : Side} {wop wpo : List Msg} {X : Nat}

set_option maxHeartbeats 4000000 in
/-- The enqueue goroutine transmits the pending window increment. -/
theorem PerId.flushIncr_p (h : PerId o p wop wpo X) (v : Nat) (hv : p.pendIncr X = some v)
    (e : AtEq p' X (p.streams X) none (p.pendCW X) (p.pendClose X) p) :
    PerId o p' wop (wpo ++ [.incr X v]) X := by
  obtain ⟨e1, e2, e3, e4, e5, e6, e7, e8⟩ := e
  mux_auto [e1, e2, e3, e4, e5, e6, e7, e8]

end Mutagen.Model.Mux
