/- One preservation lemma of the multiplexer invariant (see MuxStepO1.lean). -/
import Mutagen.Proofs.MuxTac
namespace Mutagen.Model.Mux

variable {o p o' : Side} {wop wpo : List Msg} {X : Nat}

set_option maxHeartbeats 4000000 in
/-- Deregistration of a closed stream. -/
theorem PerId.deregister_o (h : PerId o p wop wpo X)
    (O : Stream) (hO : o.streams X = some O) (hc : O.closed = true)
    (e : AtEq o' X (some { O with registered := false }) (o.pendIncr X) (o.pendCW X) (o.pendClose X) o) :
    PerId o' p wop wpo X := by
  obtain ⟨e1, e2, e3, e4, e5, e6, e7, e8⟩ := e
  mux_auto [e1, e2, e3, e4, e5, e6, e7, e8]

end Mutagen.Model.Mux
