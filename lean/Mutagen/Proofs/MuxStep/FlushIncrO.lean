/- One preservation lemma of the multiplexer invariant (see MuxStepO2.lean). -/
import Mutagen.Proofs.MuxTac
namespace Mutagen.Model.Mux

variable {o p o' : Side} {wop wpo : List Msg} {X : Nat}

set_option maxHeartbeats 4000000 in
/-- The enqueue goroutine transmits the pending window increment. -/
theorem PerId.flushIncr_o (h : PerId o p wop wpo X) (v : Nat) (hv : o.pendIncr X = some v)
    (e : AtEq o' X (o.streams X) none (o.pendCW X) (o.pendClose X) o) :
    PerId o' p (wop ++ [.incr X v]) wpo X := by
  obtain ⟨e1, e2, e3, e4, e5, e6, e7, e8⟩ := e
  mux_auto [e1, e2, e3, e4, e5, e6, e7, e8]

end Mutagen.Model.Mux
