/- One preservation lemma of the multiplexer invariant (see MuxStepP2.lean). -/
import Mutagen.Proofs.MuxTac
namespace Mutagen.Model.Mux

variable {o p p' : Side} {wop wpo : List Msg} {X : Nat}

set_option maxHeartbeats 4000000 in
/-- The acceptor's reader discards a message (other than an open) for a stream
that is not registered. -/
theorem PerId.drop_p (m : Msg) (hm : m.about X = true) (hno : m.isOpenOf X = false)
    (h : PerId o p (m :: wop) wpo X)
    (hn : ∀ P, p.streams X = some P → P.registered = false)
    (e : AtEq p' X (p.streams X) (p.pendIncr X) (p.pendCW X) (p.pendClose X) p) :
    PerId o p' wop wpo X := by
  obtain ⟨e1, e2, e3, e4, e5, e6, e7, e8⟩ := e
  have hd := dataBytes_cons_le X m wop
  have hi := incrSum_cons_le X m wop
  mux_auto [e1, e2, e3, e4, e5, e6, e7, e8]

end Mutagen.Model.Mux
