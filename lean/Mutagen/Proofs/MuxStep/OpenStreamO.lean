/- One preservation lemma of the multiplexer invariant (see MuxStepO2.lean). -/
import Mutagen.Proofs.MuxTac
namespace Mutagen.Model.Mux

variable {o p o' : Side} {wop wpo : List Msg} {X : Nat}

set_option maxHeartbeats 4000000 in
/-- `OpenStream` allocates `X` and queues the open message. -/
theorem PerId.openStream_o (h : PerId o p wop wpo X) (hu : ¬ o.used X) (hns : ¬ X ≤ p.largestIn)
    (O : Stream) (h1 : O.established = false) (h2 : O.remoteClosedWrite = false)
    (h3 : O.remoteClosed = false) (h4 : O.closedWrite = false) (h5 : O.closed = false)
    (h6 : O.registered = true) (h7 : O.sendWindow = 0) (h8 : O.recvBuf = [])
    (h9 : O.recvCap = o.window)
    (e1 : o'.streams X = some O) (e2 : o'.pendIncr X = o.pendIncr X) (e3 : o'.pendCW X = o.pendCW X)
    (e4 : o'.pendClose X = o.pendClose X) (e5 : o'.used X) (e8 : o'.window = o.window) :
    PerId o' p (wop ++ [.open X o.window]) wpo X := by
  mux_auto [e1, e2, e3, e4, e5, e8]

end Mutagen.Model.Mux
