/- One preservation lemma of the multiplexer invariant (see MuxStepP1.lean). -/
import Mutagen.Proofs.MuxTac
namespace Mutagen.Model.Mux

variable {o p p' : Side} {wop wpo : List Msg} {X : Nat}

set_option maxHeartbeats 4000000 in
/-- The enqueue goroutine transmits the pending close-write. -/
theorem PerId.flushCW_p (h : PerId o p wop wpo X) (hv : p.pendCW X = true)
    (e : AtEq p' X (p.streams X) (p.pendIncr X) false (p.pendClose X) p) :
    PerId o p' wop (wpo ++ [.closeWrite X]) X := by
  obtain ⟨e1, e2, e3, e4, e5, e6, e7, e8⟩ := e
  mux_auto [e1, e2, e3, e4, e5, e6, e7, e8]

end Mutagen.Model.Mux
