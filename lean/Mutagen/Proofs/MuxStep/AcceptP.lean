/- One preservation lemma of the multiplexer invariant (see MuxStepP1.lean). -/
import Mutagen.Proofs.MuxTac
namespace Mutagen.Model.Mux

variable {o p p' : Side} {wop wpo : List Msg} {X : Nat}

set_option maxHeartbeats 4000000 in
/-- `AcceptStream` establishes the stream at the head of the backlog and
queues the accept message. -/
theorem PerId.accept_p (h : PerId o p wop wpo X) (hin : X ∈ p.backlog)
    (P : Stream) (hP : p.streams X = some P)
    (e1 : p'.streams X = some { P with established := true })
    (e2 : p'.pendIncr X = p.pendIncr X) (e3 : p'.pendCW X = p.pendCW X)
    (e4 : p'.pendClose X = p.pendClose X)
    (e6 : p'.largestIn = p.largestIn) (e7 : X ∉ p'.backlog) (e8 : p'.window = p.window) :
    PerId o p' wop (wpo ++ [.accept X p.window]) X := by
  mux_auto [e1, e2, e3, e4, e6, e7, e8]

end Mutagen.Model.Mux
