/- One preservation lemma of the multiplexer invariant (see MuxStepP2.lean). -/
import Mutagen.Proofs.MuxTac
namespace Mutagen.Model.Mux

variable {o p p' : Side} {wop wpo : List Msg} {X : Nat}

set_option maxHeartbeats 4000000 in
/-- The open message arrives and the backlog has room: the stream object is
created with the announced send window and queued for `AcceptStream`. -/
theorem PerId.open_accept_p (win : Nat) (h : PerId o p (.open X win :: wop) wpo X)
    (hns : ¬ X ≤ p.largestIn)
    (P : Stream) (h1 : P.established = false) (h2 : P.remoteClosedWrite = false)
    (h3 : P.remoteClosed = false) (h4 : P.closedWrite = false) (h5 : P.closed = false)
    (h6 : P.registered = true) (h7 : P.sendWindow = win) (h8 : P.recvBuf = [])
    (h9 : P.recvCap = p.window)
    (e1 : p'.streams X = some P) (e2 : p'.pendIncr X = p.pendIncr X) (e3 : p'.pendCW X = p.pendCW X)
    (e4 : p'.pendClose X = p.pendClose X) (e6 : X ≤ p'.largestIn) (e8 : p'.window = p.window) :
    PerId o p' wop wpo X := by
  have hu := h.unseen hns
  have hn := h.p_none hu.sp
  have hw := h.open_win win (List.mem_cons_self)
  have hd0 := dataBytes_zero_of_about hu.wpo
  have hi0 : incrSum X wop = 0 := by have := hn.incr; simpa [incrSum] using this
  mux_auto [e1, e2, e3, e4, e6, e8]

end Mutagen.Model.Mux
