/- One preservation lemma of the multiplexer invariant (see MuxStepP1.lean). -/
import Mutagen.Proofs.MuxTac
namespace Mutagen.Model.Mux

variable {o p p' : Side} {wop wpo : List Msg} {X : Nat}

set_option maxHeartbeats 4000000 in
/-- Deregistration of a closed stream. -/
theorem PerId.deregister_p (h : PerId o p wop wpo X)
    (P : Stream) (hP : p.streams X = some P) (hc : P.closed = true)
    (e : AtEq p' X (some { P with registered := false }) (p.pendIncr X) (p.pendCW X) (p.pendClose X) p) :
    PerId o p' wop wpo X := by
  obtain ⟨e1, e2, e3, e4, e5, e6, e7, e8⟩ := e
  mux_auto [e1, e2, e3, e4, e5, e6, e7, e8]

end Mutagen.Model.Mux
