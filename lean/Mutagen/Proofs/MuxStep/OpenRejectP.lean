/- One preservation lemma of the multiplexer invariant (see MuxStepP2.lean). -/
import Mutagen.Proofs.MuxTac
namespace Mutagen.Model.Mux

variable {o p p' : Side} {wop wpo : List Msg} {X : Nat}

set_option maxHeartbeats 4000000 in
/-- The open message arrives and the backlog is full: a close is enqueued, no
stream object is created. -/
theorem PerId.open_reject_p (win : Nat) (h : PerId o p (.open X win :: wop) wpo X)
    (hns : ¬ X ≤ p.largestIn)
    (e1 : p'.streams X = p.streams X) (e2 : p'.pendIncr X = none) (e3 : p'.pendCW X = false)
    (e4 : p'.pendClose X = true) (e6 : X ≤ p'.largestIn) (e7 : p'.backlog = p.backlog)
    (e8 : p'.window = p.window) :
    PerId o p' wop wpo X := by
  have hu := h.unseen hns
  have hn := h.p_none hu.sp
  have hw := h.open_win win (List.mem_cons_self)
  have hd0 := dataBytes_zero_of_about hu.wpo
  have hi0 : incrSum X wop = 0 := by have := hn.incr; simpa [incrSum] using this
  mux_auto [e1, e2, e3, e4, e6, e7, e8]

end Mutagen.Model.Mux
