/- One preservation lemma of the multiplexer invariant (see MuxStepO2.lean). -/
import Mutagen.Proofs.MuxTac
namespace Mutagen.Model.Mux

variable {o p o' : Side} {wop wpo : List Msg} {X : Nat}

set_option maxHeartbeats 4000000 in
/-- A change of the stream object that touches none of the protocol fields
(deadlines, ghost histories). -/
theorem PerId.irrelevant_o (h : PerId o p wop wpo X)
    (O O' : Stream) (hO : o.streams X = some O)
    (h1 : O'.established = O.established) (h2 : O'.remoteClosedWrite = O.remoteClosedWrite)
    (h3 : O'.remoteClosed = O.remoteClosed) (h4 : O'.closedWrite = O.closedWrite)
    (h5 : O'.closed = O.closed) (h6 : O'.registered = O.registered)
    (h7 : O'.sendWindow = O.sendWindow) (h8 : O'.recvBuf.length = O.recvBuf.length)
    (h9 : O'.recvCap = O.recvCap)
    (e : AtEq o' X (some O') (o.pendIncr X) (o.pendCW X) (o.pendClose X) o) :
    PerId o' p wop wpo X := by
  obtain ⟨e1, e2, e3, e4, e5, e6, e7, e8⟩ := e
  mux_auto [e1, e2, e3, e4, e5, e6, e7, e8]

end Mutagen.Model.Mux
