/- One preservation lemma of the multiplexer invariant (see MuxStepP1.lean). -/
import Mutagen.Proofs.MuxTac
namespace Mutagen.Model.Mux

variable {o p p' : Side} {wop wpo : List Msg} {X : Nat}

set_option maxHeartbeats 4000000 in
/-- A change of the stream object that touches none of the protocol fields. -/
theorem PerId.irrelevant_p (h : PerId o p wop wpo X)
    (P P' : Stream) (hP : p.streams X = some P)
    (h1 : P'.established = P.established) (h2 : P'.remoteClosedWrite = P.remoteClosedWrite)
    (h3 : P'.remoteClosed = P.remoteClosed) (h4 : P'.closedWrite = P.closedWrite)
    (h5 : P'.closed = P.closed) (h6 : P'.registered = P.registered)
    (h7 : P'.sendWindow = P.sendWindow) (h8 : P'.recvBuf.length = P.recvBuf.length)
    (h9 : P'.recvCap = P.recvCap)
    (e : AtEq p' X (some P') (p.pendIncr X) (p.pendCW X) (p.pendClose X) p) :
    PerId o p' wop wpo X := by
  obtain ⟨e1, e2, e3, e4, e5, e6, e7, e8⟩ := e
  mux_auto [e1, e2, e3, e4, e5, e6, e7, e8]

end Mutagen.Model.Mux
