/-
Preservation of the per-identifier invariant by the acceptor's local actions on
the identifier itself.
-/
import Mutagen.Proofs.MuxStep.WriteP
import Mutagen.Proofs.MuxStep.ReadP
import Mutagen.Proofs.MuxStep.CloseWriteP
import Mutagen.Proofs.MuxStep.CloseBeginP
import Mutagen.Proofs.MuxStep.DeregisterP
import Mutagen.Proofs.MuxStep.AcceptP
import Mutagen.Proofs.MuxStep.FlushIncrP
import Mutagen.Proofs.MuxStep.FlushCWP
import Mutagen.Proofs.MuxStep.FlushCloseP
import Mutagen.Proofs.MuxStep.IrrelevantP
