/-
C24: the run-level bookkeeping around the inductive invariant. Either both
multiplexers are up and the invariant holds, or both are closed and the only
recorded errors are "carrier/peer went away".
-/
import Mutagen.Proofs.MuxBytesNet
namespace Mutagen.Model.Mux

/-- Both multiplexers closed. -/
def dead (n : Net) : Prop := n.a.closedMux = true ∧ n.b.closedMux = true

/-- Either both are up and the invariant holds (no internal error recorded), or
both are closed, and then the only errors ever recorded are "the carrier / the
peer went away". -/
def Good (n : Net) : Prop :=
  (n.alive ∧ InvN n ∧ n.a.internalErr = none ∧ n.b.internalErr = none) ∨
  (dead n ∧ (n.a.internalErr = none ∨ n.a.internalErr = some .carrier) ∧
    (n.b.internalErr = none ∨ n.b.internalErr = some .carrier))

theorem good_step (n : Net) (hg : Good n) (a : Action) : Good (n.step a) := by
  rcases hg with ⟨hal, hi, hea, heb⟩ | ⟨hd, hea, heb⟩
  · cases a with
    | act w s =>
      have hal' : (n.step (.act w s)).alive := by
        cases w
        · have := act_meta n.a s
          simpa [Net.step, Net.side, Net.setSide, Net.send, Net.alive, this.closedMux] using hal
        · have := act_meta n.b s
          simpa [Net.step, Net.side, Net.setSide, Net.send, Net.alive, this.closedMux] using hal
      refine Or.inl ⟨hal', hi.step hal _ hal', ?_, ?_⟩
      · cases w
        · have := act_meta n.a s
          simpa [Net.step, Net.side, Net.setSide, Net.send, this.internalErr] using hea
        · simpa [Net.step, Net.side, Net.setSide, Net.send] using hea
      · cases w
        · simpa [Net.step, Net.side, Net.setSide, Net.send] using heb
        · have := act_meta n.b s
          simpa [Net.step, Net.side, Net.setSide, Net.send, this.internalErr] using heb
    | deliver w =>
      have hok := hi.deliver_ok hal w
      cases w with
      | a =>
        simp only [Net.step, Net.deliver, Net.inbox] at hok ⊢
        cases hba : n.ba with
        | nil => exact Or.inl (by simpa [hba] using ⟨hal, hi, hea, heb⟩)
        | cons m rest =>
          simp only [hba, Net.setInbox, Net.side, hal.1, Bool.false_eq_true, ↓reduceIte] at hok ⊢
          cases hdl : n.a.deliver m with
          | error e => simp [hdl] at hok
          | ok a' =>
            have hf := deliver_fields hdl hal.1
            have hal' : Net.alive { n with ba := rest, a := a' } := ⟨by rw [hf.2.2.2.1]; exact hal.1, hal.2⟩
            refine Or.inl ?_
            simp only [hdl, Net.setSide]
            exact ⟨hal', hi.deliver_a hal m rest hba a' hdl, by rw [hf.2.2.2.2.1]; exact hea, heb⟩
      | b =>
        simp only [Net.step, Net.deliver, Net.inbox] at hok ⊢
        cases hab : n.ab with
        | nil => exact Or.inl (by simpa [hab] using ⟨hal, hi, hea, heb⟩)
        | cons m rest =>
          simp only [hab, Net.setInbox, Net.side, hal.2, Bool.false_eq_true, ↓reduceIte] at hok ⊢
          cases hdl : n.b.deliver m with
          | error e => simp [hdl] at hok
          | ok b' =>
            have hf := deliver_fields hdl hal.2
            have hal' : Net.alive { n with ab := rest, b := b' } := ⟨hal.1, by rw [hf.2.2.2.1]; exact hal.2⟩
            refine Or.inl ?_
            simp only [hdl, Net.setSide]
            exact ⟨hal', hi.deliver_b hal m rest hab b' hdl, hea, by rw [hf.2.2.2.2.1]; exact heb⟩
    | muxClose w =>
      refine Or.inr ?_
      cases w <;>
        simp [Net.step, Net.fail, Net.side, Net.setSide, Who.peer, dead, hal.1, hal.2, hea, heb]
  · refine Or.inr ?_
    cases a with
    | act w s =>
      cases w
      · have := act_meta n.a s
        simpa [Net.step, Net.side, Net.setSide, Net.send, dead, this.closedMux, this.internalErr]
          using ⟨hd, hea, heb⟩
      · have := act_meta n.b s
        simpa [Net.step, Net.side, Net.setSide, Net.send, dead, this.closedMux, this.internalErr]
          using ⟨hd, hea, heb⟩
    | deliver w =>
      cases w with
      | a =>
        simp only [Net.step, Net.deliver, Net.inbox]
        cases hba : n.ba with
        | nil => exact ⟨hd, hea, heb⟩
        | cons m rest =>
          simp only [Net.setInbox, Net.side, hd.1, ↓reduceIte]
          exact ⟨hd, hea, heb⟩
      | b =>
        simp only [Net.step, Net.deliver, Net.inbox]
        cases hab : n.ab with
        | nil => exact ⟨hd, hea, heb⟩
        | cons m rest =>
          simp only [Net.setInbox, Net.side, hd.2, ↓reduceIte]
          exact ⟨hd, hea, heb⟩
    | muxClose w =>
      have hd1 := hd.1
      have hd2 := hd.2
      cases w <;> simp [Net.step, Net.fail, Net.side, Net.setSide, Who.peer, dead, hd1, hd2, hea, heb]

theorem good_run (n : Net) (hg : Good n) (acts : List Action) : Good (n.run acts) := by
  induction acts generalizing n with
  | nil => exact hg
  | cons a as ih => exact ih _ (good_step n hg a)

theorem good_init (wa ka wb kb : Int) (ha : wa ≤ maxU64) (hb : wb ≤ maxU64) :
    Good (Net.init wa ka wb kb) :=
  Or.inl ⟨⟨rfl, rfl⟩, InvN.init wa ka wb kb ha hb, rfl, rfl⟩

end Mutagen.Model.Mux
