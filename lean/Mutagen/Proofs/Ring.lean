import Mutagen.Model.Ring
/-!
Helper lemmas for C26: the ring layout (`storage`, `start`, `used`) represents
the queue `abs`, pushing a contiguous chunk at the free position appends to it
and advancing `start` drops from it.
-/
namespace Mutagen.Proofs.Ring
open Mutagen.Model.Ring

/-- For `a < 2n` the remainder is `a` or `a - n`. -/
theorem mod_two (a n : Nat) (h : a < 2 * n) :
    (a < n ∧ a % n = a) ∨ (n ≤ a ∧ a % n = a - n) := by
  rcases Nat.lt_or_ge a n with h1 | h1
  · exact .inl ⟨h1, Nat.mod_eq_of_lt h1⟩
  · refine .inr ⟨h1, ?_⟩
    rw [Nat.mod_eq_sub_mod h1, Nat.mod_eq_of_lt (by omega)]

theorem abs_length (b : Buffer) (h : b.Inv) : b.abs.length = b.used := by
  obtain ⟨h1, h2, h3⟩ := h
  simp [Buffer.abs]
  omega

/-- Pointwise description of the abstraction. -/
theorem abs_get (b : Buffer) (h : b.Inv) (i : Nat) :
    b.abs[i]? = if i < b.used then b.storage[(b.start + i) % b.size]? else none := by
  obtain ⟨h1, h2, h3⟩ := h
  unfold Buffer.abs
  rw [List.getElem?_take]
  split
  · rename_i hi
    rw [List.getElem?_append]
    simp only [List.length_drop, List.getElem?_drop, List.getElem?_take]
    have hs : b.start < b.size := by omega
    rcases mod_two (b.start + i) b.size (by omega) with ⟨ha, hb⟩ | ⟨ha, hb⟩
    · rw [hb, if_pos (by omega)]
    · rw [hb, if_neg (by omega), if_pos (by omega)]
      congr 1; omega
  · rfl

theorem blit_length (s : List UInt8) (pos : Nat) (c : List UInt8) (h : pos + c.length ≤ s.length) :
    (blit s pos c).length = s.length := by
  simp [blit]; omega

theorem blit_get (s : List UInt8) (pos : Nat) (c : List UInt8) (h : pos + c.length ≤ s.length) (j : Nat) :
    (blit s pos c)[j]? =
      if j < pos then s[j]? else if j < pos + c.length then c[j - pos]? else s[j]? := by
  unfold blit
  rw [List.append_assoc, List.getElem?_append]
  simp only [List.length_take, List.getElem?_take]
  have : min pos s.length = pos := by omega
  rw [this]
  split
  · rfl
  · rename_i hj
    rw [List.getElem?_append]
    split
    · rw [if_pos (by omega)]
    · rw [if_neg (by omega), List.getElem?_drop]; congr 1; omega

/-- Writing a chunk into the first contiguous free segment. -/
def push (b : Buffer) (chunk : List UInt8) : Buffer :=
  { b with storage := blit b.storage b.freeSeg.1 chunk, used := b.used + chunk.length }

/-- Advancing the start by `n` bytes. -/
def pop (b : Buffer) (n : Nat) : Buffer :=
  { b with start := (b.start + n) % b.size, used := b.used - n }

/-- The first contiguous free segment is non-empty and inside the free space. -/
theorem freeSeg_bounds (b : Buffer) (h : b.Inv) (hu : b.used ≠ b.size) :
    1 ≤ b.freeSeg.2 ∧ b.freeSeg.2 ≤ b.size - b.used ∧ b.freeSeg.1 + b.freeSeg.2 ≤ b.size := by
  obtain ⟨h1, h2, h3⟩ := h
  simp only [Buffer.freeSeg]
  rcases mod_two (b.start + b.used) b.size (by omega) with ⟨ha, hb⟩ | ⟨ha, hb⟩ <;> rw [hb] <;> omega

theorem push_inv (b : Buffer) (h : b.Inv) (hu : b.used ≠ b.size) (c : List UInt8)
    (hc : c.length ≤ b.freeSeg.2) : (push b c).Inv := by
  have hf := freeSeg_bounds b h hu
  obtain ⟨h1, h2, h3⟩ := h
  refine ⟨?_, ?_, ?_⟩
  · simp only [push]; rw [blit_length _ _ _ (by omega)]; exact h1
  · simp only [push]; omega
  · simp only [push]; exact h3

theorem push_abs (b : Buffer) (h : b.Inv) (hu : b.used ≠ b.size) (c : List UInt8)
    (hc : c.length ≤ b.freeSeg.2) : (push b c).abs = b.abs ++ c := by
  have hf := freeSeg_bounds b h hu
  have hi := push_inv b h hu c hc
  apply List.ext_getElem?
  intro i
  rw [abs_get _ hi, List.getElem?_append, abs_length b h, abs_get b h]
  obtain ⟨h1, h2, h3⟩ := h
  have e1 : (push b c).used = b.used + c.length := rfl
  have e2 : (push b c).storage = blit b.storage b.freeSeg.1 c := rfl
  have e3 : (push b c).start = b.start := rfl
  have e4 : (push b c).size = b.size := rfl
  rw [e1, e2, e3, e4]
  by_cases hlt : i < b.used + c.length
  · rw [if_pos hlt, blit_get _ _ _ (by omega)]
    have hfs : b.freeSeg.1 = (b.start + b.used) % b.size := rfl
    rw [hfs] at hf ⊢
    rcases mod_two (b.start + b.used) b.size (by omega) with ⟨ha, hb⟩ | ⟨ha, hb⟩ <;>
    rcases mod_two (b.start + i) b.size (by omega) with ⟨ha', hb'⟩ | ⟨ha', hb'⟩ <;>
    rw [hb] at hf ⊢ <;> rw [hb'] <;> by_cases hiu : i < b.used <;>
    simp only [hiu, if_true, if_false] <;>
    first
    | (exfalso; omega)
    | (rw [if_pos (by omega)]; done)
    | (rw [if_neg (by omega), if_pos (by omega)]; congr 1; omega)
    | (rw [if_neg (by omega), if_neg (by omega)]; done)
  · rw [if_neg hlt, if_neg (by omega)]
    symm
    rw [List.getElem?_eq_none_iff]; omega

/-- The first contiguous data segment is non-empty (when there is data) and inside the data. -/
theorem dataSeg_bounds (b : Buffer) (h : b.Inv) :
    (0 < b.used → 1 ≤ b.dataSeg) ∧ b.dataSeg ≤ b.used ∧ b.start + b.dataSeg ≤ b.size := by
  obtain ⟨h1, h2, h3⟩ := h
  simp only [Buffer.dataSeg]
  omega

/-- The first contiguous data segment holds the oldest bytes of the queue. -/
theorem dataSeg_eq (b : Buffer) (h : b.Inv) :
    (b.storage.drop b.start).take b.dataSeg = b.abs.take b.dataSeg := by
  have hd := dataSeg_bounds b h
  apply List.ext_getElem?
  intro i
  rw [List.getElem?_take, List.getElem?_take, abs_get b h, List.getElem?_drop]
  obtain ⟨h1, h2, h3⟩ := h
  by_cases hi : i < b.dataSeg
  · rw [if_pos hi, if_pos hi, if_pos (by omega), Nat.mod_eq_of_lt (by omega)]
  · rw [if_neg hi, if_neg hi]

theorem pop_inv (b : Buffer) (h : b.Inv) (n : Nat) (hn : n ≤ b.dataSeg) : (pop b n).Inv := by
  have hd := dataSeg_bounds b h
  obtain ⟨h1, h2, h3⟩ := h
  refine ⟨h1, ?_, ?_⟩
  · simp only [pop]; omega
  · simp only [pop]
    rcases h3 with h3 | ⟨h3, h4⟩
    · left; exact Nat.mod_lt _ (by omega)
    · right; refine ⟨h3, ?_⟩
      have : n = 0 := by omega
      subst this; simp [h4]

theorem pop_abs (b : Buffer) (h : b.Inv) (n : Nat) (hn : n ≤ b.dataSeg) :
    (pop b n).abs = b.abs.drop n := by
  have hd := dataSeg_bounds b h
  have hi := pop_inv b h n hn
  apply List.ext_getElem?
  intro i
  rw [abs_get _ hi, List.getElem?_drop, abs_get b h]
  have e1 : (pop b n).used = b.used - n := rfl
  have e2 : (pop b n).storage = b.storage := rfl
  have e3 : (pop b n).start = (b.start + n) % b.size := rfl
  have e4 : (pop b n).size = b.size := rfl
  rw [e1, e2, e3, e4, Nat.mod_add_mod, Nat.add_assoc]
  by_cases hlt : i < b.used - n
  · rw [if_pos hlt, if_pos (by omega)]
  · rw [if_neg hlt, if_neg (by omega)]

/-! ### Write -/

theorem writeLoop_step (fuel : Nat) (b : Buffer) (data : List UInt8) (result : Nat)
    (hc : data.length > 0 ∧ b.used ≠ b.size) :
    writeLoop (fuel + 1) b data result =
      writeLoop fuel (push b (data.take b.freeSeg.2)) (data.drop (data.take b.freeSeg.2).length)
        (result + (data.take b.freeSeg.2).length) := by
  rw [writeLoop, if_pos hc]; rfl

theorem writeLoop_stop (fuel : Nat) (b : Buffer) (data : List UInt8) (result : Nat)
    (hc : ¬(data.length > 0 ∧ b.used ≠ b.size)) :
    writeLoop fuel b data result = (b, data, result) := by
  cases fuel with
  | zero => rfl
  | succ fuel => rw [writeLoop, if_neg hc]

theorem writeLoop_spec (fuel : Nat) : ∀ (b : Buffer) (data : List UInt8) (result : Nat),
    b.Inv → data.length < fuel →
    (writeLoop fuel b data result).1.Inv ∧
    (writeLoop fuel b data result).1.size = b.size ∧
    (writeLoop fuel b data result).1.used = b.used + min data.length (b.size - b.used) ∧
    (writeLoop fuel b data result).1.abs = b.abs ++ data.take (min data.length (b.size - b.used)) ∧
    (writeLoop fuel b data result).2.1 = data.drop (min data.length (b.size - b.used)) ∧
    (writeLoop fuel b data result).2.2 = result + min data.length (b.size - b.used) := by
  induction fuel with
  | zero => intro b data result _ hf; omega
  | succ fuel ih =>
    intro b data result hinv hf
    by_cases hc : data.length > 0 ∧ b.used ≠ b.size
    · obtain ⟨hd, hu⟩ := hc
      have hfs := freeSeg_bounds b hinv hu
      rw [writeLoop_step fuel b data result ⟨hd, hu⟩]
      have hlen : (data.take b.freeSeg.2).length = min b.freeSeg.2 data.length := List.length_take
      have htake : data.take (data.take b.freeSeg.2).length = data.take b.freeSeg.2 := by
        rw [hlen]; exact List.take_eq_take_min.symm
      generalize data.take b.freeSeg.2 = c at hlen htake
      have hstep := ih (push b c) (data.drop c.length) (result + c.length)
        (push_inv b hinv hu _ (by omega)) (by rw [List.length_drop]; omega)
      have hpa := push_abs b hinv hu c (by omega)
      have e1 : (push b c).used = b.used + c.length := rfl
      have e4 : (push b c).size = b.size := rfl
      obtain ⟨s1, s2, s3, s4, s5, s6⟩ := hstep
      rw [List.length_drop, e1, e4] at s3 s4 s5 s6
      rw [e4] at s2
      have hk : min data.length (b.size - b.used) =
          c.length + min (data.length - c.length) (b.size - (b.used + c.length)) := by omega
      refine ⟨s1, s2, ?_, ?_, ?_, ?_⟩
      · rw [s3]; omega
      · rw [s4, hpa, List.append_assoc, hk, List.take_add, htake]
      · rw [s5, List.drop_drop, hk]
      · rw [s6]; omega
    · rw [writeLoop_stop _ _ _ _ hc]
      have hn : min data.length (b.size - b.used) = 0 := by
        obtain ⟨h1, h2, h3⟩ := hinv
        rcases Nat.eq_zero_or_pos data.length with hz | hz
        · omega
        · have : b.used = b.size := by
            false_or_by_contra; exact hc ⟨hz, by assumption⟩
          omega
      rw [hn]
      exact ⟨hinv, rfl, rfl, by simp, by simp, rfl⟩

theorem toQueue_eq (b : Buffer) : b.toQueue = { cap := b.size, data := b.abs } := rfl

theorem write_refines (b : Buffer) (h : b.Inv) (data : List UInt8) :
    (b.write data).1.Inv ∧
    ((b.write data).1.toQueue, (b.write data).2.1, (b.write data).2.2) = b.toQueue.write data := by
  obtain ⟨s1, s2, s3, s4, s5, s6⟩ := writeLoop_spec (data.length + 1) b data 0 h (by omega)
  have hlen := abs_length b h
  obtain ⟨h1, h2, h3⟩ := h
  unfold Buffer.write
  generalize writeLoop (data.length + 1) b data 0 = r at s1 s2 s3 s4 s5 s6
  obtain ⟨b', rest, result⟩ := r
  simp only at s1 s2 s3 s4 s5 s6
  simp only [Queue.write, toQueue_eq, hlen]
  subst s5 s6
  rw [List.length_drop]
  by_cases hn : min data.length (b.size - b.used) < data.length
  · rw [if_pos ⟨by omega, by omega⟩, if_pos hn]
    exact ⟨s1, by simp [s2, s4]⟩
  · rw [if_neg (by omega), if_neg hn]
    exact ⟨s1, by simp [s2, s4]⟩

/-! ### WriteByte -/

theorem set_eq_blit (s : List UInt8) (pos : Nat) (v : UInt8) (h : pos < s.length) :
    s.set pos v = blit s pos [v] := by
  apply List.ext_getElem?
  intro j
  rw [blit_get _ _ _ (by simp; omega), List.getElem?_set]
  by_cases hj : pos = j
  · subst hj; simp [h]
  · rw [if_neg hj]
    by_cases hlt : j < pos
    · rw [if_pos hlt]
    · rw [if_neg hlt, if_neg (by simp; omega)]

theorem writeByte_refines (b : Buffer) (h : b.Inv) (v : UInt8) :
    (b.writeByte v).1.Inv ∧
    ((b.writeByte v).1.toQueue, (b.writeByte v).2) = b.toQueue.writeByte v := by
  have hlen := abs_length b h
  unfold Buffer.writeByte
  simp only [Queue.writeByte, toQueue_eq, hlen]
  by_cases hu : b.used = b.size
  · rw [if_pos hu, if_pos hu]; exact ⟨h, rfl⟩
  · rw [if_neg hu, if_neg hu]
    have hfs := freeSeg_bounds b h hu
    have hpos : (b.start + b.used) % b.size < b.storage.length := by
      have e : b.freeSeg.1 = (b.start + b.used) % b.size := rfl
      have := h.1
      omega
    have heq : ({ b with storage := b.storage.set ((b.start + b.used) % b.size) v, used := b.used + 1 } : Buffer)
        = push b [v] := by
      simp only [push, set_eq_blit _ _ _ hpos]; rfl
    simp only [heq]
    exact ⟨push_inv b h hu [v] (by simp; omega), by rw [push_abs b h hu [v] (by simp; omega)]⟩

/-! ### Read -/

/-- The chunk one `Read`/`WriteTo` iteration looks at. -/
theorem seg_take (b : Buffer) (h : b.Inv) (want : Nat) :
    ((b.storage.drop b.start).take b.dataSeg).take want = b.abs.take (min want b.dataSeg) ∧
    (((b.storage.drop b.start).take b.dataSeg).take want).length = min want b.dataSeg := by
  have hd := dataSeg_bounds b h
  have hlen := abs_length b h
  rw [dataSeg_eq b h, List.take_take]
  refine ⟨rfl, ?_⟩
  rw [List.length_take]; omega

theorem readLoop_step (fuel : Nat) (b : Buffer) (want : Nat) (acc : List UInt8)
    (hc : want > 0 ∧ b.used > 0) :
    readLoop (fuel + 1) b want acc =
      readLoop fuel (pop b (((b.storage.drop b.start).take b.dataSeg).take want).length)
        (want - (((b.storage.drop b.start).take b.dataSeg).take want).length)
        (acc ++ ((b.storage.drop b.start).take b.dataSeg).take want) := by
  rw [readLoop, if_pos hc]; rfl

theorem readLoop_stop (fuel : Nat) (b : Buffer) (want : Nat) (acc : List UInt8)
    (hc : ¬(want > 0 ∧ b.used > 0)) : readLoop fuel b want acc = (b, acc) := by
  cases fuel with
  | zero => rfl
  | succ fuel => rw [readLoop, if_neg hc]

theorem readLoop_spec (fuel : Nat) : ∀ (b : Buffer) (want : Nat) (acc : List UInt8),
    b.Inv → want < fuel →
    (readLoop fuel b want acc).1.Inv ∧
    (readLoop fuel b want acc).1.size = b.size ∧
    (readLoop fuel b want acc).1.used = b.used - min want b.used ∧
    (readLoop fuel b want acc).1.abs = b.abs.drop (min want b.used) ∧
    (readLoop fuel b want acc).2 = acc ++ b.abs.take (min want b.used) := by
  induction fuel with
  | zero => intro b want acc _ hf; omega
  | succ fuel ih =>
    intro b want acc hinv hf
    by_cases hc : want > 0 ∧ b.used > 0
    · obtain ⟨hw, hu⟩ := hc
      have hd := dataSeg_bounds b hinv
      obtain ⟨hseg, hseglen⟩ := seg_take b hinv want
      rw [readLoop_step fuel b want acc ⟨hw, hu⟩, hseglen, hseg]
      have hd1 := hd.1 hu
      obtain ⟨k, hkdef⟩ : ∃ k, k = min want b.dataSeg := ⟨_, rfl⟩
      rw [← hkdef]
      have hkd : k ≤ b.dataSeg := by omega
      have hstep := ih (pop b k) (want - k) (acc ++ b.abs.take k) (pop_inv b hinv k hkd) (by omega)
      have hpa := pop_abs b hinv k hkd
      have e1 : (pop b k).used = b.used - k := rfl
      have e4 : (pop b k).size = b.size := rfl
      obtain ⟨s1, s2, s3, s4, s5⟩ := hstep
      rw [e1] at s3 s4 s5
      rw [e4] at s2
      have hk : min want b.used = k + min (want - k) (b.used - k) := by omega
      refine ⟨s1, s2, ?_, ?_, ?_⟩
      · rw [s3]; omega
      · rw [s4, hpa, List.drop_drop, hk]
      · rw [s5, hpa, List.append_assoc, hk, List.take_add]
    · rw [readLoop_stop _ _ _ _ hc]
      have hn : min want b.used = 0 := by omega
      rw [hn]
      exact ⟨hinv, rfl, rfl, by simp, by simp⟩

/-- `if used = 0 then start := 0`. -/
theorem restart_inv_abs (b : Buffer) (h : b.Inv) :
    (if b.used = 0 then { b with start := 0 } else b).Inv ∧
    (if b.used = 0 then { b with start := 0 } else b).abs = b.abs ∧
    (if b.used = 0 then { b with start := 0 } else b).size = b.size := by
  by_cases hu : b.used = 0
  · rw [if_pos hu]
    obtain ⟨h1, h2, h3⟩ := h
    refine ⟨⟨h1, h2, ?_⟩, ?_, rfl⟩
    · show 0 < b.size ∨ (b.size = 0 ∧ 0 = 0)
      omega
    · simp [Buffer.abs, hu]
  · rw [if_neg hu]; exact ⟨h, rfl, rfl⟩

theorem read_refines (b : Buffer) (h : b.Inv) (len : Nat) :
    (b.read len).1.Inv ∧
    ((b.read len).1.toQueue, (b.read len).2.1, (b.read len).2.2) = b.toQueue.read len := by
  have hlen := abs_length b h
  unfold Buffer.read
  simp only [Queue.read, toQueue_eq, hlen]
  by_cases hl : len = 0
  · rw [if_pos hl, if_pos hl]; exact ⟨h, rfl⟩
  · rw [if_neg hl, if_neg hl]
    by_cases hu : b.used = 0
    · rw [if_pos hu, if_pos hu]; exact ⟨h, rfl⟩
    · rw [if_neg hu, if_neg hu]
      obtain ⟨s1, s2, s3, s4, s5⟩ := readLoop_spec (len + 1) b len [] h (by omega)
      generalize readLoop (len + 1) b len [] = r at s1 s2 s3 s4 s5
      obtain ⟨b', out⟩ := r
      simp only at s1 s2 s3 s4 s5
      obtain ⟨r1, r2, r3⟩ := restart_inv_abs b' s1
      refine ⟨r1, ?_⟩
      generalize (if b'.used = 0 then ({ b' with start := 0 } : Buffer) else b') = b'' at r1 r2 r3
      simp only [r2, r3, s2, s4, s5, List.nil_append]
      have e1 : b.abs.take (min len b.used) = b.abs.take len := by
        rw [← hlen]; exact List.take_eq_take_min.symm
      have e2 : b.abs.drop (min len b.used) = b.abs.drop len := by
        by_cases hle : len ≤ b.used
        · rw [Nat.min_eq_left hle]
        · rw [Nat.min_eq_right (by omega), List.drop_of_length_le (by omega), List.drop_of_length_le (by omega)]
      rw [e1, e2]

/-! ### ReadByte -/

theorem abs_cons (b : Buffer) (h : b.Inv) (hu : 0 < b.used) :
    b.abs = b.storage.getD b.start 0 :: (pop b 1).abs := by
  have hd := dataSeg_bounds b h
  have hd1 := hd.1 hu
  have hlen := abs_length b h
  have h0 := abs_get b h 0
  rw [pop_abs b h 1 (by omega)]
  obtain ⟨h1, h2, h3⟩ := h
  rw [if_pos hu, Nat.add_zero, Nat.mod_eq_of_lt (by omega)] at h0
  cases habs : b.abs with
  | nil => rw [habs] at hlen; simp at hlen; omega
  | cons x xs =>
    rw [habs] at h0
    simp only [List.getElem?_cons_zero] at h0
    rw [List.getD_eq_getElem?_getD, ← h0]
    simp

theorem readByte_refines (b : Buffer) (h : b.Inv) :
    b.readByte.1.Inv ∧
    (b.readByte.1.toQueue, b.readByte.2.1, b.readByte.2.2) = b.toQueue.readByte := by
  have hlen := abs_length b h
  unfold Buffer.readByte
  by_cases hu : b.used = 0
  · rw [if_pos hu]
    have : b.abs = [] := by apply List.eq_nil_of_length_eq_zero; omega
    simp only [Queue.readByte, toQueue_eq, this]
    exact ⟨h, trivial⟩
  · rw [if_neg hu]
    have hd := dataSeg_bounds b h
    have hd1 := hd.1 (by omega)
    have hc := abs_cons b h (by omega)
    have hpi := pop_inv b h 1 (by omega)
    obtain ⟨r1, r2, r3⟩ := restart_inv_abs (pop b 1) hpi
    simp only [Queue.readByte, toQueue_eq, hc]
    refine ⟨r1, ?_⟩
    show ((⟨_, _⟩ : Queue), _, _) = _
    congr 2

/-! ### ReadNFrom -/

theorem readNLoop_stop (script : List ReadResp) (b : Buffer) (n result : Nat) (err : Err)
    (hc : ¬(n > 0 ∧ b.used ≠ b.size ∧ err = .none)) :
    readNLoop script b n result err = (b, n, result, err) := by
  rw [readNLoop.eq_def]; dsimp only; rw [if_neg hc]

theorem readNLoop_nil (b : Buffer) (n result : Nat) (err : Err)
    (hc : n > 0 ∧ b.used ≠ b.size ∧ err = .none) :
    readNLoop [] b n result err = (b, n, result, .eof) := by
  rw [readNLoop.eq_def]; dsimp only; rw [if_pos hc]

theorem readNLoop_cons (r : ReadResp) (rest : List ReadResp) (b : Buffer) (n result : Nat) (err : Err)
    (hc : n > 0 ∧ b.used ≠ b.size ∧ err = .none) :
    readNLoop (r :: rest) b n result err =
      readNLoop rest (push b (r.bytes.take (if b.freeSeg.2 > n then n else b.freeSeg.2)))
        (n - (r.bytes.take (if b.freeSeg.2 > n then n else b.freeSeg.2)).length)
        (result + (r.bytes.take (if b.freeSeg.2 > n then n else b.freeSeg.2)).length) r.err := by
  rw [readNLoop.eq_def]; dsimp only; rw [if_pos hc]; rfl

theorem readNLoop_spec (script : List ReadResp) : ∀ (b : Buffer) (n result : Nat) (err : Err),
    b.Inv →
    (readNLoop script b n result err).1.Inv ∧
    (readNLoop script b n result err).1.size = b.size ∧
    Queue.ReadNLoop b.size b.abs script n result err
      ((readNLoop script b n result err).1.abs, (readNLoop script b n result err).2.1,
       (readNLoop script b n result err).2.2.1, (readNLoop script b n result err).2.2.2) := by
  induction script with
  | nil =>
    intro b n result err hinv
    have hlen := abs_length b hinv
    by_cases hc : n > 0 ∧ b.used ≠ b.size ∧ err = .none
    · rw [readNLoop_nil _ _ _ _ hc]
      exact ⟨hinv, rfl, .exhausted (by rw [hlen]; exact hc)⟩
    · rw [readNLoop_stop _ _ _ _ _ hc]
      exact ⟨hinv, rfl, .done (by rw [hlen]; exact hc)⟩
  | cons r rest ih =>
    intro b n result err hinv
    have hlen := abs_length b hinv
    by_cases hc : n > 0 ∧ b.used ≠ b.size ∧ err = .none
    · rw [readNLoop_cons _ _ _ _ _ _ hc]
      have hfs := freeSeg_bounds b hinv hc.2.1
      obtain ⟨offer, hoff⟩ : ∃ offer, offer = if b.freeSeg.2 > n then n else b.freeSeg.2 := ⟨_, rfl⟩
      rw [← hoff]
      have ho : 1 ≤ offer ∧ offer ≤ n ∧ offer ≤ b.freeSeg.2 := by
        by_cases hgt : b.freeSeg.2 > n
        · rw [if_pos hgt] at hoff; omega
        · rw [if_neg hgt] at hoff; omega
      have hcl : (r.bytes.take offer).length ≤ b.freeSeg.2 := by rw [List.length_take]; omega
      obtain ⟨s1, s2, s3⟩ := ih (push b (r.bytes.take offer)) (n - (r.bytes.take offer).length)
        (result + (r.bytes.take offer).length) r.err (push_inv b hinv hc.2.1 _ hcl)
      have e4 : (push b (r.bytes.take offer)).size = b.size := rfl
      rw [push_abs b hinv hc.2.1 _ hcl, e4] at s3
      rw [e4] at s2
      exact ⟨s1, s2, .call offer (by rw [hlen]; exact hc) ho.1 ho.2.1 (by omega) s3⟩
    · rw [readNLoop_stop _ _ _ _ _ hc]
      exact ⟨hinv, rfl, .done (by rw [hlen]; exact hc)⟩

theorem readNFrom_refines (b : Buffer) (h : b.Inv) (script : List ReadResp) (n : Nat) :
    (b.readNFrom script n).1.Inv ∧
    b.toQueue.ReadNFrom script n
      ((b.readNFrom script n).1.toQueue, (b.readNFrom script n).2.1, (b.readNFrom script n).2.2) := by
  obtain ⟨s1, s2, s3⟩ := readNLoop_spec script b n 0 .none h
  unfold Buffer.readNFrom
  generalize readNLoop script b n 0 .none = r at s1 s2 s3
  obtain ⟨b', n', result, err⟩ := r
  simp only at s1 s2 s3
  refine ⟨s1, b'.abs, n', result, err, s3, ?_⟩
  simp only [toQueue_eq, s2, abs_length b' s1]

/-! ### WriteTo -/

theorem writeToLoop_stop (script : List WriteResp) (b : Buffer) (acc : List UInt8) (err : Err)
    (hc : ¬(b.used > 0 ∧ err = .none)) :
    writeToLoop script b acc err = (b, acc, err) := by
  rw [writeToLoop.eq_def]; dsimp only; rw [if_neg hc]

theorem writeToLoop_nil (b : Buffer) (acc : List UInt8) (err : Err)
    (hc : b.used > 0 ∧ err = .none) :
    writeToLoop [] b acc err = (b, acc, .peer) := by
  rw [writeToLoop.eq_def]; dsimp only; rw [if_pos hc]

theorem writeToLoop_cons (r : WriteResp) (rest : List WriteResp) (b : Buffer) (acc : List UInt8) (err : Err)
    (hc : b.used > 0 ∧ err = .none) :
    writeToLoop (r :: rest) b acc err =
      writeToLoop rest (pop b (min r.accept ((b.storage.drop b.start).take b.dataSeg).length))
        (acc ++ ((b.storage.drop b.start).take b.dataSeg).take
          (min r.accept ((b.storage.drop b.start).take b.dataSeg).length))
        (if r.fail ∨ min r.accept ((b.storage.drop b.start).take b.dataSeg).length
            < ((b.storage.drop b.start).take b.dataSeg).length then Err.peer else Err.none) := by
  rw [writeToLoop.eq_def]; dsimp only; rw [if_pos hc]; rfl

theorem writeToLoop_spec (script : List WriteResp) : ∀ (b : Buffer) (acc : List UInt8) (err : Err),
    b.Inv →
    (writeToLoop script b acc err).1.Inv ∧
    (writeToLoop script b acc err).1.size = b.size ∧
    Queue.WriteToLoop b.abs script acc err
      ((writeToLoop script b acc err).1.abs, (writeToLoop script b acc err).2.1,
       (writeToLoop script b acc err).2.2) := by
  induction script with
  | nil =>
    intro b acc err hinv
    have hlen := abs_length b hinv
    by_cases hc : b.used > 0 ∧ err = .none
    · rw [writeToLoop_nil _ _ _ hc]
      exact ⟨hinv, rfl, .exhausted (by rw [hlen]; exact hc)⟩
    · rw [writeToLoop_stop _ _ _ _ hc]
      exact ⟨hinv, rfl, .done (by rw [hlen]; exact hc)⟩
  | cons r rest ih =>
    intro b acc err hinv
    have hlen := abs_length b hinv
    by_cases hc : b.used > 0 ∧ err = .none
    · rw [writeToLoop_cons _ _ _ _ _ hc]
      have hd := dataSeg_bounds b hinv
      have hd1 := hd.1 hc.1
      have hseglen : ((b.storage.drop b.start).take b.dataSeg).length = b.dataSeg := by
        rw [dataSeg_eq b hinv, List.length_take]; omega
      rw [hseglen, dataSeg_eq b hinv, List.take_take,
        Nat.min_eq_left (Nat.min_le_right r.accept b.dataSeg)]
      obtain ⟨s1, s2, s3⟩ := ih (pop b (min r.accept b.dataSeg))
        (acc ++ b.abs.take (min r.accept b.dataSeg))
        (if r.fail ∨ min r.accept b.dataSeg < b.dataSeg then Err.peer else Err.none)
        (pop_inv b hinv _ (Nat.min_le_right _ _))
      have e4 : (pop b (min r.accept b.dataSeg)).size = b.size := rfl
      rw [pop_abs b hinv _ (Nat.min_le_right _ _)] at s3
      rw [e4] at s2
      exact ⟨s1, s2, .call b.dataSeg (by rw [hlen]; exact hc) hd1 (by omega) s3⟩
    · rw [writeToLoop_stop _ _ _ _ hc]
      exact ⟨hinv, rfl, .done (by rw [hlen]; exact hc)⟩

theorem writeTo_refines (b : Buffer) (h : b.Inv) (script : List WriteResp) :
    (b.writeTo script).1.Inv ∧
    b.toQueue.WriteTo script
      ((b.writeTo script).1.toQueue, (b.writeTo script).2.1, (b.writeTo script).2.2) := by
  obtain ⟨s1, s2, s3⟩ := writeToLoop_spec script b [] .none h
  unfold Buffer.writeTo
  generalize writeToLoop script b [] .none = r at s1 s2 s3
  obtain ⟨b', out, err⟩ := r
  simp only at s1 s2 s3
  obtain ⟨r1, r2, r3⟩ := restart_inv_abs b' s1
  dsimp only
  generalize (if b'.used = 0 then ({ b' with start := 0 } : Buffer) else b') = b'' at r1 r2 r3 ⊢
  refine ⟨r1, b'.abs, s3, ?_⟩
  show b''.toQueue = _
  rw [toQueue_eq, r2, r3, s2, toQueue_eq]

/-! ### Reset, new -/

theorem reset_refines (b : Buffer) (h : b.Inv) :
    b.reset.Inv ∧ b.reset.toQueue = b.toQueue.reset := by
  obtain ⟨h1, h2, h3⟩ := h
  refine ⟨⟨h1, Nat.zero_le _, ?_⟩, ?_⟩
  · show 0 < b.size ∨ (b.size = 0 ∧ 0 = 0)
    omega
  · simp [Buffer.reset, Buffer.toQueue, Queue.reset, Buffer.abs]

theorem new_refines (n : Nat) : (new n).Inv ∧ (new n).toQueue = Queue.new n := by
  refine ⟨⟨by simp [new], by simp [new], ?_⟩, by simp [new, Buffer.toQueue, Queue.new, Buffer.abs]⟩
  show 0 < n ∨ (n = 0 ∧ 0 = 0)
  omega

/-! ### Steps and runs -/

theorem step_refines (b : Buffer) (h : b.Inv) (op : Op) :
    (b.step op).1.Inv ∧ b.toQueue.Step op ((b.step op).1.toQueue, (b.step op).2) := by
  cases op with
  | write d =>
    obtain ⟨h1, h2⟩ := write_refines b h d
    refine ⟨h1, ?_⟩
    simp only [Queue.Step, Buffer.step, ← h2]
  | writeByte v =>
    obtain ⟨h1, h2⟩ := writeByte_refines b h v
    refine ⟨h1, ?_⟩
    simp only [Queue.Step, Buffer.step, ← h2]
  | read len =>
    obtain ⟨h1, h2⟩ := read_refines b h len
    refine ⟨h1, ?_⟩
    simp only [Queue.Step, Buffer.step, ← h2]
  | readByte =>
    obtain ⟨h1, h2⟩ := readByte_refines b h
    refine ⟨h1, ?_⟩
    simp only [Queue.Step, Buffer.step, ← h2]
  | reset =>
    obtain ⟨h1, h2⟩ := reset_refines b h
    refine ⟨h1, ?_⟩
    simp only [Queue.Step, Buffer.step, ← h2]
  | readNFrom script n =>
    obtain ⟨h1, h2⟩ := readNFrom_refines b h script n
    exact ⟨h1, _, _, _, h2, rfl⟩
  | writeTo script =>
    obtain ⟨h1, h2⟩ := writeTo_refines b h script
    exact ⟨h1, _, _, _, h2, rfl⟩

theorem run_refines (ops : List Op) : ∀ (b : Buffer), b.Inv →
    (b.run ops).1.Inv ∧ Queue.Run b.toQueue ops (b.run ops).1.toQueue (b.run ops).2 := by
  induction ops with
  | nil => intro b h; exact ⟨h, .nil⟩
  | cons op ops ih =>
    intro b h
    obtain ⟨h1, h2⟩ := step_refines b h op
    obtain ⟨h3, h4⟩ := ih (b.step op).1 h1
    exact ⟨h3, .cons h2 h4⟩

end Mutagen.Proofs.Ring
