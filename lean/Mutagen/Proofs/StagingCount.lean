import Mutagen.Model.Staging
import Mutagen.Proofs.StagingSeq
/-!
Entry counts of the abstract root under removal, insertion and a fully applied
transition plan (for `Mutagen.Properties.C41`).
-/
namespace Mutagen.Proofs.Staging
open Mutagen.Model.Staging

mutual
theorem beq_count : ∀ (a b : Tree), a.beq b = true → a.count = b.count
  | .file _, .file _, _ => by simp [Tree.count]
  | .dir x, .dir y, h => by
    simp only [Tree.beq] at h
    simp [Tree.count, beqL_count x y h]
  | .file _, .dir _, h => by simp [Tree.beq] at h
  | .dir _, .file _, h => by simp [Tree.beq] at h
theorem beqL_count : ∀ (x y : Children), beqL x y = true → countL x = countL y
  | [], [], _ => rfl
  | (_, t) :: r, (_, u) :: q, h => by
    simp only [beqL, Bool.and_eq_true] at h
    simp [countL, beq_count t u h.1.2, beqL_count r q h.2]
  | [], _ :: _, h => by simp [beqL] at h
  | _ :: _, [], h => by simp [beqL] at h
end

theorem oeq_count (a b : Option Tree) (h : oeq a b = true) : ocount a = ocount b := by
  cases a <;> cases b <;> simp [oeq] at h <;> simp [ocount]
  exact beq_count _ _ h

theorem erase_count (n : String) (cs : Children) (t : Tree) (h : lookupC n cs = some t) :
    countL (eraseC n cs) + t.count = countL cs := by
  induction cs with
  | nil => simp [lookupC] at h
  | cons e r ih =>
    obtain ⟨m, u⟩ := e
    simp only [lookupC] at h
    simp only [eraseC]
    split at h
    · rename_i hm
      simp only [Option.some.injEq] at h
      subst h
      simp [hm, countL]; omega
    · rename_i hm
      simp only [hm, if_false, countL]
      have := ih h
      omega

theorem insert_absent_count (n : String) (t : Tree) (cs : Children) (h : lookupC n cs = none) :
    countL (insertC n t cs) = countL cs + t.count := by
  induction cs with
  | nil => simp [insertC, countL]
  | cons e r ih =>
    obtain ⟨m, u⟩ := e
    simp only [lookupC] at h
    split at h
    · simp at h
    · rename_i hm
      simp only [insertC, hm, if_false]
      split
      · simp [countL]; omega
      · simp only [countL]
        have := ih h
        omega

theorem update_count (n : String) (f : Tree → Tree) (cs : Children) (u : Tree) (h : lookupC n cs = some u) :
    countL (updateC n f cs) + u.count = countL cs + (f u).count := by
  induction cs with
  | nil => simp [lookupC] at h
  | cons e r ih =>
    obtain ⟨m, v⟩ := e
    simp only [lookupC] at h
    simp only [updateC]
    split at h
    · rename_i hm
      simp only [Option.some.injEq] at h
      subst h
      simp [hm, countL]; omega
    · rename_i hm
      simp only [hm, if_false, countL]
      have := ih h
      omega

/-- Removing what is at a path takes exactly its entries away. -/
theorem removeAt_count : ∀ (path : List String) (cs : Children) (t : Tree),
    subtree cs path = some t → countL (removeAt cs path) + t.count = countL cs
  | [], cs, t, h => by simp [subtree] at h
  | [n], cs, t, h => by
    simp only [subtree] at h
    simp only [removeAt]
    exact erase_count n cs t h
  | n :: m :: rest, cs, t, h => by
    simp only [subtree] at h
    simp only [removeAt]
    cases hl : lookupC n cs with
    | none => simp [hl] at h
    | some u =>
      cases u with
      | file k => simp [hl] at h
      | dir cs' =>
        simp only [hl] at h ⊢
        have ih := removeAt_count (m :: rest) cs' t h
        have := update_count n (fun _ => Tree.dir (removeAt cs' (m :: rest))) cs (.dir cs') hl
        simp only [Tree.count] at this
        omega

theorem parentIsDir_cons {cs : Children} {n m : String} {rest : List String}
    (h : parentIsDir cs (n :: m :: rest) = true) :
    ∃ cs', lookupC n cs = some (.dir cs') ∧ parentIsDir cs' (m :: rest) = true := by
  cases rest with
  | nil =>
    simp only [parentIsDir, List.dropLast, subtree] at h
    cases hl : lookupC n cs with
    | none => simp [hl] at h
    | some u =>
      cases u with
      | file k => simp [hl] at h
      | dir cs' => exact ⟨cs', rfl, by simp [parentIsDir]⟩
  | cons p rest' =>
    simp only [parentIsDir, List.dropLast, subtree] at h
    cases hl : lookupC n cs with
    | none => simp [hl] at h
    | some u =>
      cases u with
      | file k => simp [hl] at h
      | dir cs' =>
        refine ⟨cs', rfl, ?_⟩
        simp only [hl] at h
        simp only [parentIsDir, List.dropLast]
        exact h

/-- Putting an entry at a free path below an existing directory adds exactly its entries. -/
theorem insertAt_count (t : Tree) : ∀ (path : List String) (cs : Children),
    subtree cs path = none → parentIsDir cs path = true → countL (insertAt t cs path) = countL cs + t.count
  | [], cs, _, hp => by simp [parentIsDir] at hp
  | [n], cs, h, _ => by
    simp only [subtree] at h
    simp only [insertAt, h]
    exact insert_absent_count n t cs h
  | n :: m :: rest, cs, h, hp => by
    obtain ⟨cs', hl, hp'⟩ := parentIsDir_cons hp
    simp only [subtree, hl] at h
    simp only [insertAt, hl]
    have ih := insertAt_count t (m :: rest) cs' h hp'
    have := update_count n (fun _ => Tree.dir (insertAt t cs' (m :: rest))) cs (.dir cs') hl
    simp only [Tree.count] at this
    omega

/-- Replacing a file by a file keeps the count. -/
theorem insertAt_file_count (k k' : Nat) : ∀ (path : List String) (cs : Children),
    subtree cs path = some (.file k) → countL (insertAt (.file k') cs path) = countL cs
  | [], cs, h => by simp [subtree] at h
  | [n], cs, h => by
    simp only [subtree] at h
    simp only [insertAt, h]
    have := update_count n (fun _ => Tree.file k') cs (.file k) h
    simp only [Tree.count] at this
    omega
  | n :: m :: rest, cs, h => by
    simp only [subtree] at h
    simp only [insertAt]
    cases hl : lookupC n cs with
    | none => simp [hl] at h
    | some u =>
      cases u with
      | file j => simp [hl] at h
      | dir cs' =>
        simp only [hl] at h ⊢
        have ih := insertAt_file_count k k' (m :: rest) cs' h
        have := update_count n (fun _ => Tree.dir (insertAt (.file k') cs' (m :: rest))) cs (.dir cs') hl
        simp only [Tree.count] at this
        omega

theorem beq_file_left (t : Tree) (k : Nat) (h : t.beq (.file k) = true) : t = .file k := by
  cases t with
  | file j => simp [Tree.beq] at h; rw [h]
  | dir cs => simp [Tree.beq] at h

theorem oeq_none_right (a : Option Tree) (h : oeq a none = true) : a = none := by
  cases a <;> simp [oeq] at h <;> rfl

theorem oeq_some_right (a : Option Tree) (o : Tree) (h : oeq a (some o) = true) :
    ∃ o', a = some o' ∧ o'.beq o = true := by
  cases a with
  | none => simp [oeq] at h
  | some o' => exact ⟨o', rfl, by simpa [oeq] using h⟩

/-- After the expected entry has been removed, nothing is left at the path (only
needed when an existing entry is replaced by a new one). It holds for roots in
which the names within a directory are distinct. -/
def PathFree (root : Children) (t : Change) : Prop :=
  t.old.isSome = true → t.new.isSome = true →
    subtree (removeAt root (splitPath t.path)) (splitPath t.path) = none

/-- The creation half, after case analysis on the parent check and on what
`createTree` produced. -/
theorem create_cases (store : Option (List (String × Nat))) (root1 : Children) (path : String) (n : Tree)
    (hfree : subtree root1 (splitPath path) = none) :
    (parentIsDir root1 (splitPath path) = false) ∨
    (parentIsDir root1 (splitPath path) = true ∧ (createTree store path n).fst = none) ∨
    (∃ c, parentIsDir root1 (splitPath path) = true ∧ (createTree store path n).fst = some c ∧
      (c.beq n = true → countL (insertAt c root1 (splitPath path)) = countL root1 + n.count)) := by
  by_cases hp : parentIsDir root1 (splitPath path) = true
  · cases hc : (createTree store path n).fst with
    | none => exact Or.inr (Or.inl ⟨hp, rfl⟩)
    | some c =>
      refine Or.inr (Or.inr ⟨c, hp, rfl, ?_⟩)
      intro hb
      rw [insertAt_count c _ _ hfree hp, beq_count _ _ hb]
  · left; simpa using hp

theorem applyChange_count (store : Option (List (String × Nat))) (root : Children) (t : Change)
    (hres : oeq (applyChange store root t).2.1 t.new = true) (hfree : PathFree root t) :
    countL (applyChange store root t).1 + ocount t.old = countL root + ocount t.new := by
  cases hold : t.old with
  | none =>
    cases hnew : t.new with
    | none =>
      simp only [applyChange, hold, hnew] at hres ⊢
      split <;> simp [ocount]
    | some n =>
      simp only [applyChange, hold, hnew] at hres ⊢
      by_cases hq : oeq (subtree root (splitPath t.path)) none = true
      · have hsub := oeq_none_right _ hq
        simp only [hq, if_true] at hres ⊢
        rcases create_cases store root t.path n hsub with h1 | ⟨h1, h2⟩ | ⟨c, h1, h2, h3⟩
        · simp [h1, oeq] at hres
        · simp [h1, h2, oeq] at hres
        · simp only [h1, h2, Bool.not_true, Bool.false_eq_true, if_false] at hres ⊢
          have hb : c.beq n = true := by simpa [oeq] using hres
          simp [ocount, h3 hb]
      · simp only [hq] at hres
        simp [oeq] at hres
  | some o =>
    cases hnew : t.new with
    | none =>
      simp only [applyChange, hold, hnew] at hres ⊢
      by_cases hq : oeq (subtree root (splitPath t.path)) (some o) = true
      · obtain ⟨o', ho', hb⟩ := oeq_some_right _ _ hq
        have hrem := removeAt_count _ _ _ ho'
        have hcnt := beq_count _ _ hb
        simp only [hq, if_true, ocount]
        omega
      · simp only [hq] at hres
        simp [oeq] at hres
    | some n =>
      have hfree' := hfree (by simp [hold]) (by simp [hnew])
      cases o with
      | file ko =>
        cases n with
        | file kn =>
          simp only [applyChange, hold, hnew] at hres ⊢
          simp only [ocount, Tree.count]
          split
          · rename_i hq
            split
            · rfl
            · cases store with
              | none => rfl
              | some st =>
                simp only
                split
                · obtain ⟨o', ho', hb⟩ := oeq_some_right _ _ hq
                  rw [beq_file_left o' ko hb] at ho'
                  rw [insertAt_file_count ko kn _ _ ho']
                · rfl
          · rfl
        | dir cn =>
          simp only [applyChange, hold, hnew] at hres ⊢
          by_cases hq : oeq (subtree root (splitPath t.path)) (some (Tree.file ko)) = true
          · obtain ⟨o', ho', hb⟩ := oeq_some_right _ _ hq
            have hrem := removeAt_count _ _ _ ho'
            have hcnt := beq_count _ _ hb
            simp only [hq, if_true] at hres ⊢
            rcases create_cases store (removeAt root (splitPath t.path)) t.path (Tree.dir cn) hfree' with h1 | ⟨h1, h2⟩ | ⟨c, h1, h2, h3⟩
            · simp [h1, oeq] at hres
            · simp [h1, h2, oeq] at hres
            · simp only [h1, h2, Bool.not_true, Bool.false_eq_true, if_false] at hres ⊢
              have hb2 : c.beq (Tree.dir cn) = true := by simpa [oeq] using hres
              simp only [ocount, h3 hb2]
              omega
          · rw [if_neg hq] at hres
            rw [if_neg hq]
            have := oeq_count _ _ hres
            simp only [ocount] at this ⊢
            omega
      | dir co =>
        cases n with
        | file kn =>
          simp only [applyChange, hold, hnew] at hres ⊢
          by_cases hq : oeq (subtree root (splitPath t.path)) (some (Tree.dir co)) = true
          · obtain ⟨o', ho', hb⟩ := oeq_some_right _ _ hq
            have hrem := removeAt_count _ _ _ ho'
            have hcnt := beq_count _ _ hb
            simp only [hq, if_true] at hres ⊢
            rcases create_cases store (removeAt root (splitPath t.path)) t.path (Tree.file kn) hfree' with h1 | ⟨h1, h2⟩ | ⟨c, h1, h2, h3⟩
            · simp [h1, oeq] at hres
            · simp [h1, h2, oeq] at hres
            · simp only [h1, h2, Bool.not_true, Bool.false_eq_true, if_false] at hres ⊢
              have hb2 : c.beq (Tree.file kn) = true := by simpa [oeq] using hres
              simp only [ocount, h3 hb2]
              omega
          · rw [if_neg hq] at hres
            rw [if_neg hq]
            have := oeq_count _ _ hres
            simp only [ocount] at this ⊢
            omega
        | dir cn =>
          simp only [applyChange, hold, hnew] at hres ⊢
          by_cases hq : oeq (subtree root (splitPath t.path)) (some (Tree.dir co)) = true
          · obtain ⟨o', ho', hb⟩ := oeq_some_right _ _ hq
            have hrem := removeAt_count _ _ _ ho'
            have hcnt := beq_count _ _ hb
            simp only [hq, if_true] at hres ⊢
            rcases create_cases store (removeAt root (splitPath t.path)) t.path (Tree.dir cn) hfree' with h1 | ⟨h1, h2⟩ | ⟨c, h1, h2, h3⟩
            · simp [h1, oeq] at hres
            · simp [h1, h2, oeq] at hres
            · simp only [h1, h2, Bool.not_true, Bool.false_eq_true, if_false] at hres ⊢
              have hb2 : c.beq (Tree.dir cn) = true := by simpa [oeq] using hres
              simp only [ocount, h3 hb2]
              omega
          · rw [if_neg hq] at hres
            rw [if_neg hq]
            have := oeq_count _ _ hres
            simp only [ocount] at this ⊢
            omega

/-- The plan is fully applied on the (evolving) root: every transition yields
its new entry, and where an existing entry is replaced the path was freed. -/
def Applied (store : Option (List (String × Nat))) : Children → List Change → Prop
  | _, [] => True
  | root, t :: rest =>
    oeq (applyChange store root t).2.1 t.new = true ∧ PathFree root t ∧
    Applied store (applyChange store root t).1 rest

theorem applyAll_root (store : Option (List (String × Nat))) (root : Children) (t : Change) (rest : List Change) :
    (applyAll store root (t :: rest)).1 = (applyAll store (applyChange store root t).1 rest).1 := by
  simp [applyAll]

/-- **A fully applied plan changes the entry count by exactly what it plans.** -/
theorem applyAll_count (store : Option (List (String × Nat))) (root : Children) (ts : List Change)
    (h : Applied store root ts) :
    countL (applyAll store root ts).1 + totalOld ts = countL root + totalNew ts := by
  induction ts generalizing root with
  | nil => simp [applyAll, totalOld, totalNew]
  | cons t rest ih =>
    obtain ⟨h1, h2, h3⟩ := h
    rw [applyAll_root]
    have e1 := applyChange_count store root t h1 h2
    have e2 := ih _ h3
    simp only [totalOld, totalNew]
    omega

/-- What an executed transition does to the state. -/
theorem transition_ok_root {s s' : St} {ts : List Change} {rs : List (Option Tree)} {m : Bool}
    (h : transition s ts = (s', .ok rs m)) :
    s'.root = (applyAll (if s.storeInit then some s.store else none) s.root ts).1 := by
  unfold transition at h
  by_cases hro : s.readOnly = true
  · simp [hro] at h
  · by_cases hsc : s.sinceTrans = true
    · by_cases hm : s.max = 0
      · simp [hro, hsc, hm] at h
        rw [← h.1]
      · cases hp : planCount s.last ts with
        | none => simp [hro, hsc, hm, hp] at h
        | some r =>
          by_cases hlt : s.max < r
          · simp [hro, hsc, hm, hp, hlt] at h
          · simp [hro, hsc, hm, hp, hlt] at h
            rw [← h.1]
    · simp [hro, hsc] at h

end Mutagen.Proofs.Staging
